/-
C05 property theorems: spheregroup / groups / friendsoffriends (Model/Fof.lean).
Helper lemmas live in Lemmas/Fof.lean, FofRen.lean, FofGroups.lean, FofConn.lean, FofMerge.lean (core Lean) and, for the
grid section at the end (`spheregroup_fof_grid`), Lemmas/FofGridInit.lean, FofGridCount.lean, FofGridReal.lean (ℝ, on top
of the grid theorems of C04); the helper
lemmas that USE the theorems on `groups` (one cell / all cells of the merge) are in the section
`merge helpers` below, before `merge_refines` and `spheregroup_fof`.
The theorems audited by harness/props/c05.py are listed there (THEOREMS).
-/
import PydlVerif.Lemmas.Fof
import PydlVerif.Lemmas.FofRen
import PydlVerif.Lemmas.FofGroups
import PydlVerif.Lemmas.FofConn
import PydlVerif.Lemmas.FofMerge
import PydlVerif.Lemmas.FofGridReal
import PydlVerif.Lemmas.FofGridRun
import PydlVerif.Lemmas.FofGridEdge
import Mathlib.Tactic.IntervalCases
namespace PydlVerif.C05
open PydlVerif.Fof

/-- **lists_of_labels** (groups 459-471, friendsoffriends 334-344, spheregroup 551-563).
For ANY labelling `g` of `n` points with labels `< m` the arrays rebuilt by
`first[:] = -1; for i in n-1..0: next[i] = first[g[i]]; first[g[i]] = i` and the counting loop satisfy:
first[c] is the least member of class c (-1 if there is none), next[x] is the next member of x's class
(-1 for the last), following next from first[c] visits the members of c in increasing order exactly
once and reaches -1, mult[c] is the size of c for c < m, and beyond the last group first is -1 and
mult keeps its initial value (0 in friendsoffriends / spheregroup). -/
theorem lists_of_labels (g : Arr Nat) (n m : Nat) (nx : Arr (Option Nat)) (mult0 : Arr Nat) (reset : Bool)
    (hlab : ∀ x, x < n → g.get x < m) (h0 : reset = false → ∀ c, mult0.get c = 0) :
    (∀ c, match (link g n ⟨Arr.const none, nx⟩).first.get c with
          | none => ∀ x, x < n → g.get x ≠ c
          | some y => y < n ∧ g.get y = c ∧ ∀ x, x < y → g.get x ≠ c) ∧
    (∀ x, x < n → match (link g n ⟨Arr.const none, nx⟩).next.get x with
          | none => ∀ z, x < z → z < n → g.get z ≠ g.get x
          | some y => x < y ∧ y < n ∧ g.get y = g.get x ∧ ∀ z, x < z → z < y → g.get z ≠ g.get x) ∧
    (∀ c, walkEnds (link g n ⟨Arr.const none, nx⟩).next n ((link g n ⟨Arr.const none, nx⟩).first.get c) = true ∧
          walk (link g n ⟨Arr.const none, nx⟩).next n ((link g n ⟨Arr.const none, nx⟩).first.get c)
            = (List.range n).filter (fun x => g.get x = c)) ∧
    (∀ c, c < m → (countAll n (link g n ⟨Arr.const none, nx⟩) reset m mult0).get c
            = ((List.range n).filter (fun x => g.get x = c)).length) ∧
    (∀ c, m ≤ c → (link g n ⟨Arr.const none, nx⟩).first.get c = none ∧
          (countAll n (link g n ⟨Arr.const none, nx⟩) reset m mult0).get c = mult0.get c) := by
  have hL := isLists_rebuild g n nx
  refine ⟨?_, ?_, ?_, ?_, ?_⟩
  · intro c
    cases hc : (link g n ⟨Arr.const none, nx⟩).first.get c with
    | none => exact fun x hx => hL.first_none c hc x (Nat.zero_le _) hx
    | some y =>
      obtain ⟨_, b, c', d⟩ := hL.first_some c y hc
      exact ⟨b, c', fun x hx => d x (Nat.zero_le _) hx⟩
  · intro x hx
    cases hc : (link g n ⟨Arr.const none, nx⟩).next.get x with
    | none => exact hL.next_none x (Nat.zero_le _) hx hc
    | some y => exact hL.next_some x (Nat.zero_le _) hx y hc
  · intro c
    exact walk_first g n n _ hL (Nat.le_refl _) c
  · intro c hc
    rw [countAll_get, (walk_first g n n _ hL (Nat.le_refl _) c).2]
    cases reset with
    | true => simp [hc]
    | false => simp [hc, h0 rfl c]
  · intro c hc
    constructor
    · cases hf : (link g n ⟨Arr.const none, nx⟩).first.get c with
      | none => rfl
      | some y =>
        obtain ⟨_, b, c', _⟩ := hL.first_some c y hf
        have := hlab y b
        omega
    · rw [countAll_get]
      have : ¬ c < m := by omega
      simp [this]

/-- **renumber_first_appearance** (groups 445-455, spheregroup 538-547).
If first/next are the member lists of the labelling `g0`, the renumbering pass terminates, does not
change the partition, uses exactly the labels `0 … cnt-1`, and numbers the groups in order of their
first member (every label smaller than the label of `x` already occurs before `x`). -/
theorem renumber_first_appearance (g0 : Arr Nat) (n : Nat) (L : Lists) (hL : IsLists g0 0 n L) :
    (renumber n L g0).ok = true ∧
    (∀ x y, x < n → y < n → ((renumber n L g0).inG.get x = (renumber n L g0).inG.get y ↔ g0.get x = g0.get y)) ∧
    (∀ x, x < n → (renumber n L g0).inG.get x < (renumber n L g0).cnt) ∧
    (∀ c, c < (renumber n L g0).cnt → ∃ z, z < n ∧ (renumber n L g0).inG.get z = c) ∧
    (∀ x, x < n → ∀ c, c < (renumber n L g0).inG.get x → ∃ z, z < x ∧ (renumber n L g0).inG.get z = c) := by
  have h := renInv_all g0 n L hL n (Nat.le_refl _)
  have hd : ∀ x, x < n → (renumber n L g0).done.get x = true :=
    fun x hx => (h.done_iff x hx).2 ⟨x, hx, rfl⟩
  refine ⟨h.ok, ?_, ?_, ?_, ?_⟩
  · intro x y hx hy; exact h.part x y hx hy (hd x hx) (hd y hy)
  · intro x hx; exact h.lt_cnt x hx (hd x hx)
  · intro c hc
    obtain ⟨z, _, b, _, d⟩ := h.onto c hc
    exact ⟨z, b, d⟩
  · intro x hx c hc
    obtain ⟨z, a, _, d⟩ := h.rgs x hx (hd x hx) c hc
    exact ⟨z, a, d⟩

/-- **resolve_roots** (friendsoffriends 322-331), the second pass of the cross-chunk merge.
Under the design invariant `mapGroups[i] ≤ i`, after the pass a root (`mapGroups[i] = i`) carries the
number of roots below it, every other provisional label carries the same final number as the label it
points to (hence, by induction along `i > mapGroups[i] > …`, the number of its root), and `nGroups`
is the number of roots. -/
theorem resolve_roots (m : Arr Nat) (nMap : Nat) (hle : ∀ i, i < nMap → m.get i ≤ i) :
    (∀ i, i < nMap → m.get i = i → (resolve nMap m).1.get i = nroots m i) ∧
    (∀ i, i < nMap → m.get i ≠ i → (resolve nMap m).1.get i = (resolve nMap m).1.get (m.get i)) ∧
    (resolve nMap m).2 = nroots m nMap := by
  have h := resInv_all m nMap hle nMap (Nat.le_refl _)
  exact ⟨h.root, h.child, h.cnt⟩

/-- **groups_lists** (class groups, all of `__init__`), for every size and every REFLEXIVE
relation `close` (no symmetry needed).  Every `while` loop of the constructor terminates; the labels
stay `< nGroups ≤ i` during the main loop so that no index leaves the arrays; the final labelling
`inGroup` has the same partition as the labelling at the end of the main loop, uses exactly the labels
`0 … nGroups-1`, numbered in order of first member; firstGroup/nextGroup are exactly the sorted member
lists of `inGroup`, walking them enumerates each group once in increasing order, `multGroup[c]` is the
size of group `c` for `c < nGroups` and `firstGroup[c] = -1` beyond.
That the partition is the friends-of-friends partition is `groups_fof` below. -/
theorem groups_lists (n : Nat) (close : Nat → Nat → Bool) (hrefl : ∀ i, i < n → close i i = true) :
    (groupsRun n close).ok = true ∧
    (∀ x y, x < n → y < n → ((groupsRun n close).inG.get x = (groupsRun n close).inG.get y ↔
        (groupsLoop n close).inG.get x = (groupsLoop n close).inG.get y)) ∧
    (∀ x, x < n → (groupsRun n close).inG.get x < (groupsRun n close).nG) ∧
    (∀ c, c < (groupsRun n close).nG → ∃ z, z < n ∧ (groupsRun n close).inG.get z = c) ∧
    (∀ x, x < n → ∀ c, c < (groupsRun n close).inG.get x → ∃ z, z < x ∧ (groupsRun n close).inG.get z = c) ∧
    IsLists (groupsRun n close).inG 0 n (groupsRun n close).L ∧
    (∀ c, walk (groupsRun n close).L.next n ((groupsRun n close).L.first.get c)
            = (List.range n).filter (fun x => (groupsRun n close).inG.get x = c)) ∧
    (∀ c, c < (groupsRun n close).nG → (groupsRun n close).mult.get c
            = ((List.range n).filter (fun x => (groupsRun n close).inG.get x = c)).length) ∧
    (∀ c, (groupsRun n close).nG ≤ c → (groupsRun n close).L.first.get c = none) := by
  have h : GInv n (groupsLoop n close) := gInv_all n close hrefl n (Nat.le_refl _)
  obtain ⟨r1, r2, r3, r4, r5⟩ := renumber_first_appearance (groupsLoop n close).inG n (groupsLoop n close).L h.lists
  obtain ⟨_, _, l3, l4, l5⟩ := lists_of_labels (renumber n (groupsLoop n close).L (groupsLoop n close).inG).inG n
    (renumber n (groupsLoop n close).L (groupsLoop n close).inG).cnt (groupsLoop n close).L.next
    (groupsLoop n close).mult true r3 (fun e => by cases e)
  refine ⟨?_, r2, r3, r4, r5, isLists_rebuild _ _ _, fun c => (l3 c).2, l4, fun c hc => (l5 c hc).1⟩
  show ((groupsLoop n close).ok && (renumber n (groupsLoop n close).L (groupsLoop n close).inG).ok &&
    countOk n _ _) = true
  rw [h.ok, r1, countOk_of n _ _ (fun c => (l3 c).1)]
  rfl

/-- **groups_sound**: for every size and every reflexive symmetric `close`, two points with the same
final label are joined by a chain of close pairs. -/
theorem groups_sound (n : Nat) (close : Nat → Nat → Bool) (hrefl : ∀ i, i < n → close i i = true)
    (hsym : ∀ a b, a < n → b < n → close a b = close b a) (a b : Nat) (ha : a < n) (hb : b < n)
    (e : (groupsRun n close).inG.get a = (groupsRun n close).inG.get b) : Conn close n a b := by
  have h : GInv2 close n n (groupsLoop n close) := gInv2_all n close hrefl hsym n (Nat.le_refl _)
  exact h.sound a b ha hb (((groups_lists n close hrefl).2.1 a b ha hb).1 e)

/-- **groups_complete**: a close pair gets the same final label. -/
theorem groups_complete (n : Nat) (close : Nat → Nat → Bool) (hrefl : ∀ i, i < n → close i i = true)
    (hsym : ∀ a b, a < n → b < n → close a b = close b a) (a b : Nat) (ha : a < n) (hb : b < n)
    (hc : close a b = true) : (groupsRun n close).inG.get a = (groupsRun n close).inG.get b := by
  have h : GInv2 close n n (groupsLoop n close) := gInv2_all n close hrefl hsym n (Nat.le_refl _)
  exact ((groups_lists n close hrefl).2.1 a b ha hb).2 (h.compl a b ha hb hc)

/-- **groups_fof** (full strength): the labelling computed by `groups` IS the partition into connected
components of `close` (same label ⇔ joined by a chain), for all sizes and all reflexive symmetric
relations; with `groups_lists` (labels 0,1,2,… in order of first member, exact member lists and
multiplicities) this determines all four output arrays. -/
theorem groups_fof (n : Nat) (close : Nat → Nat → Bool) (hrefl : ∀ i, i < n → close i i = true)
    (hsym : ∀ a b, a < n → b < n → close a b = close b a) (a b : Nat) (ha : a < n) (hb : b < n) :
    (groupsRun n close).inG.get a = (groupsRun n close).inG.get b ↔ Conn close n a b := by
  constructor
  · exact groups_sound n close hrefl hsym a b ha hb
  · intro hconn
    induction hconn with
    | refl => rfl
    | tail _ hb' hc e ih =>
      rw [ih hb']
      rcases e with e | e
      · exact groups_complete n close hrefl hsym _ _ hb' hc e
      · exact (groups_complete n close hrefl hsym _ _ hc hb' e).symm

/-- **sphere_lists_partial** (spheregroup 535-564 on top of friendsoffriends 334-344), for every
size ≠ 1, every relation and every list of cells: the final `ingroup` has the same partition as the
labelling produced by the cross-chunk merge, is numbered 0,1,2,… in order of first member;
firstgroup/nextgroup are exactly its sorted member lists; multgroup[c] is the size of group c for
c below the merge's group count and 0 beyond.
Holds for arbitrary cell lists (no CoverFoF); the full statement - the merged labelling is the
friends-of-friends partition under CoverFoF - is `spheregroup_fof` below (via `merge_refines`). -/
theorem sphere_lists_partial (n : Nat) (close : Nat → Nat → Bool) (chunks : List (Array Nat)) (hn : n ≠ 1) :
    ∃ o, sphereRun n close chunks = .ok o ∧
    (∀ x y, x < n → y < n → (o.inG.get x = o.inG.get y ↔
        (friendsRun n close chunks).inG.get x = (friendsRun n close chunks).inG.get y)) ∧
    (∀ x, x < n → ∀ c, c < o.inG.get x → ∃ z, z < x ∧ o.inG.get z = c) ∧
    IsLists o.inG 0 n o.L ∧
    (∀ c, walk o.L.next n (o.L.first.get c) = (List.range n).filter (fun x => o.inG.get x = c)) ∧
    (∀ c, o.mult.get c = if c < (friendsRun n close chunks).nG
        then ((List.range n).filter (fun x => o.inG.get x = c)).length else 0) := by
  have hF : IsLists (friendsRun n close chunks).inG 0 n (friendsRun n close chunks).L := by
    simp only [friendsRun, freeze_eq]
    exact isLists_rebuild _ _ _
  obtain ⟨_, r2, _, _, r5⟩ := renumber_first_appearance _ n _ hF
  refine ⟨_, by simp only [sphereRun, hn, if_false]; rfl, r2, r5, isLists_rebuild _ _ _, ?_, ?_⟩
  · intro c
    exact (walk_first _ n n _ (isLists_rebuild _ _ _) (Nat.le_refl _) c).2
  · intro c
    show (countAll n _ false _ (Arr.const 0)).get c = _
    rw [countAll_get, (walk_first _ n n _ (isLists_rebuild _ _ _) (Nat.le_refl _) c).2]
    simp

/-! ## merge helpers: one cell and all cells of the cross-chunk merge (use `groups_lists` above) -/

/-- admissible cell lists: indices are points, no point twice in a cell, and the occupancy does not exceed the
`9*nPoints` provisional labels the code allocates (its comment: "The largest number of groups you can get …
is 9 times the number of targets"; beyond that the code raises IndexError, the model answers `ok = false`) -/
structure Cells (n : Nat) (chunks : List (Array Nat)) : Prop where
  lt : ∀ ch, ch ∈ chunks → ∀ a, a < ch.size → cget ch a < n
  inj : ∀ ch, ch ∈ chunks → ∀ a b, a < ch.size → b < ch.size → cget ch a = cget ch b → a = b
  cap : (chunks.map Array.size).sum ≤ 9 * n

/-- the hypothesis on the grid: every point is in at least one cell and every close pair shares a cell -/
structure CoverFoF (n : Nat) (close : Nat → Nat → Bool) (chunks : List (Array Nat)) : Prop where
  cells : Cells n chunks
  every : ∀ p, p < n → ∃ ch, ch ∈ chunks ∧ ∃ a, a < ch.size ∧ cget ch a = p
  pair : ∀ p q, p < n → q < n → close p q = true →
    ∃ ch, ch ∈ chunks ∧ ∃ a b, a < ch.size ∧ b < ch.size ∧ cget ch a = p ∧ cget ch b = q

theorem chunk_facts (close : Nat → Nat → Bool) (chunk : Array Nat)
    (hrefl : ∀ a, a < chunk.size → close (cget chunk a) (cget chunk a) = true)
    (hinj : ∀ a b, a < chunk.size → b < chunk.size → cget chunk a = cget chunk b → a = b) :
    (groupsRun chunk.size (cellClose close chunk)).ok = true ∧
    countOk chunk.size (groupsRun chunk.size (cellClose close chunk)).L
      (groupsRun chunk.size (cellClose close chunk)).nG = true ∧
    (∀ g, g ∈ chunkGroups close chunk → g.Nodup) ∧
    (chunkGroups close chunk).length ≤ chunk.size ∧
    (∀ g, g ∈ chunkGroups close chunk → g ≠ []) ∧
    (∀ g x, g ∈ chunkGroups close chunk ∧ x ∈ g ↔ ∃ a, a < chunk.size ∧ cget chunk a = x ∧
      (groupsRun chunk.size (cellClose close chunk)).inG.get a <
        (groupsRun chunk.size (cellClose close chunk)).nG ∧
      g = (walk (groupsRun chunk.size (cellClose close chunk)).L.next chunk.size
        ((groupsRun chunk.size (cellClose close chunk)).L.first.get
          ((groupsRun chunk.size (cellClose close chunk)).inG.get a))).map (cget chunk)) := by
  obtain ⟨g1, _, g3, g4, _, g6, g7, _, _⟩ := groups_lists chunk.size (cellClose close chunk) hrefl
  generalize hG : groupsRun chunk.size (cellClose close chunk) = G at g1 g3 g4 g6 g7
  have hmem : ∀ k x, x ∈ walk G.L.next chunk.size (G.L.first.get k) ↔ x < chunk.size ∧ G.inG.get x = k :=
    fun k x => mem_walk_first G.inG chunk.size chunk.size G.L g6 (Nat.le_refl _) k x
  have hcg : chunkGroups close chunk = (List.range G.nG).map (fun k =>
      (walk G.L.next chunk.size (G.L.first.get k)).map (cget chunk)) := by
    unfold chunkGroups; rw [hG]
  refine ⟨g1, countOk_of _ _ _ (fun c => (walk_first G.inG chunk.size chunk.size G.L g6 (Nat.le_refl _) c).1),
    ?_, ?_, ?_, ?_⟩
  · intro g hg
    rw [hcg] at hg
    obtain ⟨k, _, rfl⟩ := List.mem_map.1 hg
    rw [g7 k]
    have hnd : ((List.range chunk.size).filter (fun x => G.inG.get x = k)).Nodup :=
      List.Nodup.sublist List.filter_sublist List.nodup_range
    have hpw := List.Pairwise.and_mem.1 hnd
    refine List.Pairwise.map (cget chunk) ?_ hpw
    intro a b ⟨ha, hb, hab⟩ e
    have ha' : a < chunk.size := by
      have := (List.mem_filter.1 ha).1; exact List.mem_range.1 this
    have hb' : b < chunk.size := by
      have := (List.mem_filter.1 hb).1; exact List.mem_range.1 this
    exact hab (hinj a b ha' hb' e)
  · rw [hcg, List.length_map, List.length_range, ← hG]
    show (renumber chunk.size _ _).cnt ≤ chunk.size
    have := renumber_cnt_le chunk.size (groupsLoop chunk.size (cellClose close chunk)).L
      (List.range chunk.size) ⟨(groupsLoop chunk.size (cellClose close chunk)).inG, Arr.const false, 0, true⟩
    simp only [List.length_range, Nat.zero_add] at this
    exact this
  · intro g hg
    rw [hcg] at hg
    obtain ⟨k, hk, rfl⟩ := List.mem_map.1 hg
    obtain ⟨z, hz, hzk⟩ := g4 k (List.mem_range.1 hk)
    intro hnil
    have : cget chunk z ∈ (walk G.L.next chunk.size (G.L.first.get k)).map (cget chunk) :=
      List.mem_map.2 ⟨z, (hmem k z).2 ⟨hz, hzk⟩, rfl⟩
    rw [hnil] at this
    cases this
  · intro g x
    rw [hcg]
    constructor
    · rintro ⟨hg, hx⟩
      obtain ⟨k, hk, rfl⟩ := List.mem_map.1 hg
      obtain ⟨a, ha, rfl⟩ := List.mem_map.1 hx
      obtain ⟨h1, h2⟩ := (hmem k a).1 ha
      exact ⟨a, h1, rfl, by rw [h2]; exact List.mem_range.1 hk, by rw [h2]⟩
    · rintro ⟨a, ha, rfl, hlt, rfl⟩
      exact ⟨List.mem_map.2 ⟨G.inG.get a, List.mem_range.2 hlt, rfl⟩,
        List.mem_map.2 ⟨a, (hmem _ a).2 ⟨ha, rfl⟩, rfl⟩⟩

/-- the per-cell "same group" relation, on global indices -/
def SameCell (close : Nat → Nat → Bool) (chunks : List (Array Nat)) (x y : Nat) : Prop :=
  ∃ ch, ch ∈ chunks ∧ ∃ a b, a < ch.size ∧ b < ch.size ∧ cget ch a = x ∧ cget ch b = y ∧
    (groupsRun ch.size (cellClose close ch)).inG.get a = (groupsRun ch.size (cellClose close ch)).inG.get b

theorem mergeChunk_step (n : Nat) (close : Nat → Nat → Bool) (s : MS) (J : Nat → Nat → Prop)
    (hJ : Equivalence J) (h : MInv s J) (chunk : Array Nat)
    (hrefl : ∀ a, a < chunk.size → close (cget chunk a) (cget chunk a) = true)
    (hinj : ∀ a b, a < chunk.size → b < chunk.size → cget chunk a = cget chunk b → a = b)
    (hcap : s.nMap + chunk.size ≤ 9 * n) :
    MInv (mergeChunk n close s chunk) ((chunkGroups close chunk).foldl Jn J) ∧
    (mergeChunk n close s chunk).nMap ≤ s.nMap + chunk.size ∧
    (∀ x, ((mergeChunk n close s chunk).inG.get x).isSome = true ↔
      (s.inG.get x).isSome = true ∨ ∃ a, a < chunk.size ∧ cget chunk a = x) ∧
    (Surj s → Surj (mergeChunk n close s chunk)) := by
  obtain ⟨c1, c2, c3, c4, c6, c5⟩ := chunk_facts close chunk hrefl hinj
  have hgrp : ∀ x, (∃ g, g ∈ chunkGroups close chunk ∧ x ∈ g) ↔ ∃ a, a < chunk.size ∧ cget chunk a = x := by
    intro x
    constructor
    · rintro ⟨g, hg, hx⟩
      obtain ⟨a, ha, e, _, _⟩ := (c5 g x).1 ⟨hg, hx⟩
      exact ⟨a, ha, e⟩
    · rintro ⟨a, ha, e⟩
      have hlt := (groups_lists chunk.size (cellClose close chunk) hrefl).2.2.1 a ha
      exact ⟨_, (c5 _ x).2 ⟨a, ha, e, hlt, rfl⟩⟩
  rw [mergeChunk_eq]
  by_cases h0 : chunk.size = 0
  · rw [if_pos h0]
    have hnil : chunkGroups close chunk = [] := List.eq_nil_of_length_eq_zero (by omega)
    rw [hnil]
    refine ⟨h, by omega, fun x => ⟨Or.inl, ?_⟩, fun hs => hs⟩
    rintro (h1 | ⟨a, ha, _⟩)
    · exact h1
    · omega
  · rw [if_neg h0]
    obtain ⟨m1, m2, m3, m4⟩ := mergeGroups_fold n (chunkGroups close chunk) s J hJ h c3 (by omega)
    refine ⟨?_, ?_, ?_, fun hs => m4 c6 hs⟩
    · have := minv_ok _ _ m1 _ (show ((groupsRun chunk.size (cellClose close chunk)).ok &&
          countOk chunk.size (groupsRun chunk.size (cellClose close chunk)).L
            (groupsRun chunk.size (cellClose close chunk)).nG) = true by rw [c1, c2]; rfl)
      rw [← Bool.and_assoc] at this
      exact this
    · show ((chunkGroups close chunk).foldl (mergeGroup n) s).nMap ≤ _
      rw [m2]; omega
    · intro x
      show (((chunkGroups close chunk).foldl (mergeGroup n) s).inG.get x).isSome = true ↔ _
      rw [m3 x, hgrp x]

/-- the partition generated by all per-cell groupings, cells in the loop order of the code -/
def joinAll (close : Nat → Nat → Bool) (chunks : List (Array Nat)) (J : Nat → Nat → Prop) : Nat → Nat → Prop :=
  (chunks.flatMap (chunkGroups close)).foldl Jn J

theorem mergeAll_fold (n : Nat) (close : Nat → Nat → Bool) : ∀ (chunks : List (Array Nat)) (s : MS)
    (J : Nat → Nat → Prop), Equivalence J → MInv s J →
    (∀ ch, ch ∈ chunks → ∀ a, a < ch.size → close (cget ch a) (cget ch a) = true) →
    (∀ ch, ch ∈ chunks → ∀ a b, a < ch.size → b < ch.size → cget ch a = cget ch b → a = b) →
    s.nMap + (chunks.map Array.size).sum ≤ 9 * n →
    MInv (chunks.foldl (mergeChunk n close) s) (joinAll close chunks J) ∧
    (∀ x, ((chunks.foldl (mergeChunk n close) s).inG.get x).isSome = true ↔
      (s.inG.get x).isSome = true ∨ ∃ ch, ch ∈ chunks ∧ ∃ a, a < ch.size ∧ cget ch a = x) ∧
    (Surj s → Surj (chunks.foldl (mergeChunk n close) s)) := by
  intro chunks
  induction chunks with
  | nil => intro s J _ h _ _ _; exact ⟨h, fun x => by simp, fun hs => hs⟩
  | cons ch chunks ih =>
    intro s J hJ h hrefl hinj hcap
    simp only [List.map_cons, List.sum_cons] at hcap
    obtain ⟨m1, m2, m3, m4⟩ := mergeChunk_step n close s J hJ h ch (hrefl ch List.mem_cons_self)
      (hinj ch List.mem_cons_self) (by omega)
    obtain ⟨i1, i2, i3⟩ := ih (mergeChunk n close s ch) _ (jfold_props _ J hJ).1 m1
      (fun c hc => hrefl c (List.mem_cons_of_mem _ hc)) (fun c hc => hinj c (List.mem_cons_of_mem _ hc))
      (by omega)
    rw [List.foldl_cons]
    refine ⟨?_, ?_, fun hs => i3 (m4 hs)⟩
    · unfold joinAll at i1 ⊢
      rw [List.flatMap_cons, List.foldl_append]
      exact i1
    · intro x
      rw [i2 x, m3 x]
      constructor
      · rintro ((h1 | ⟨a, ha, e⟩) | ⟨c, hc, a, ha, e⟩)
        · exact Or.inl h1
        · exact Or.inr ⟨ch, List.mem_cons_self, a, ha, e⟩
        · exact Or.inr ⟨c, List.mem_cons_of_mem _ hc, a, ha, e⟩
      · rintro (h1 | ⟨c, hc, a, ha, e⟩)
        · exact Or.inl (Or.inl h1)
        · rcases List.mem_cons.1 hc with e1 | hc
          · subst e1; exact Or.inl (Or.inr ⟨a, ha, e⟩)
          · exact Or.inr ⟨c, hc, a, ha, e⟩

theorem minv_init : MInv ⟨Arr.const none, Arr.const 0, 0, true⟩ (fun p q => p = q) :=
  ⟨fun l => Nat.zero_le _, fun p e h => by simp at h, fun p q e f h => by simp at h,
   fun p q h => Or.inl h, rfl⟩

theorem eq_equiv : Equivalence (fun p q : Nat => p = q) := ⟨fun _ => rfl, fun h => h.symm, fun h1 h2 => h1.trans h2⟩

/-- `joinAll … (=)` is the LEAST equivalence containing every per-cell partition -/
theorem joinAll_finest (close : Nat → Nat → Bool) (chunks : List (Array Nat))
    (hrefl : ∀ ch, ch ∈ chunks → ∀ a, a < ch.size → close (cget ch a) (cget ch a) = true)
    (hinj : ∀ ch, ch ∈ chunks → ∀ a b, a < ch.size → b < ch.size → cget ch a = cget ch b → a = b) :
    Equivalence (joinAll close chunks (fun p q => p = q)) ∧
    (∀ x y, SameCell close chunks x y → joinAll close chunks (fun p q => p = q) x y) ∧
    (∀ R : Nat → Nat → Prop, Equivalence R → (∀ x y, SameCell close chunks x y → R x y) →
      ∀ p q, joinAll close chunks (fun p q => p = q) p q → R p q) := by
  obtain ⟨j1, _, j3, j4⟩ := jfold_props (chunks.flatMap (chunkGroups close)) _ eq_equiv
  refine ⟨j1, ?_, ?_⟩
  · rintro x y ⟨ch, hch, a, b, ha, hb, rfl, rfl, hab⟩
    obtain ⟨_, _, _, _, _, c5⟩ := chunk_facts close ch (hrefl ch hch) (hinj ch hch)
    have hlt := (groups_lists ch.size (cellClose close ch) (hrefl ch hch)).2.2.1
    have h1 := (c5 _ (cget ch a)).2 ⟨a, ha, rfl, hlt a ha, rfl⟩
    have h2 := (c5 _ (cget ch b)).2 ⟨b, hb, rfl, hlt b hb, rfl⟩
    rw [← hab] at h2
    exact j3 _ (List.mem_flatMap.2 ⟨ch, hch, h1.1⟩) _ _ h1.2 h2.2
  · intro R hR hsc p q hpq
    refine j4 R hR (fun p q e => e ▸ hR.refl p) ?_ p q hpq
    intro g hg x y hx hy
    obtain ⟨ch, hch, hg'⟩ := List.mem_flatMap.1 hg
    obtain ⟨_, _, _, _, _, c5⟩ := chunk_facts close ch (hrefl ch hch) (hinj ch hch)
    obtain ⟨a, ha, ea, _, ega⟩ := (c5 g x).1 ⟨hg', hx⟩
    obtain ⟨b, hb, eb, hbl, egb⟩ := (c5 g y).1 ⟨hg', hy⟩
    obtain ⟨_, _, _, _, _, g6, _⟩ := groups_lists ch.size (cellClose close ch) (hrefl ch hch)
    -- a belongs to the list of b's group, hence carries b's label
    have hma : cget ch a ∈ g := ea ▸ hx
    rw [egb] at hma
    obtain ⟨a', ha', e'⟩ := List.mem_map.1 hma
    have := (mem_walk_first _ ch.size ch.size _ g6 (Nat.le_refl _) _ a').1 ha'
    have haa : a' = a := hinj ch hch a' a this.1 ha e'
    rw [haa] at this
    exact hsc x y ⟨ch, hch, a, b, ha, hb, ea, eb, this.2⟩

/-- **merge_refines** (friendsoffriends 288-333): the first pass of the cross-chunk merge - per chunk group the
root search for every already labelled member, the minimum earlier root, the new label pointing to it and the
path compression of every member's chain - is a correct union-find.  For all admissible cell lists and every
relation that is reflexive on the points: no loop hangs and the label table does not overflow (`ok`), the
design invariant `mapGroups[l] ≤ l` holds, labels are allocated (`< nMapGroups`), a point is labelled iff it
occurs in a cell, and after the second pass two labelled points carry the same number IFF they are related by
`joinAll … (=)`, which is the FINEST equivalence containing every per-cell partition (`SameCell`): it is an
equivalence, contains `SameCell`, and is contained in every equivalence that contains `SameCell`. -/
theorem merge_refines (n : Nat) (close : Nat → Nat → Bool) (chunks : List (Array Nat)) (hc : Cells n chunks)
    (hrefl : ∀ i, i < n → close i i = true) :
    (mergeAll n close chunks).ok = true ∧
    (∀ l, l < (mergeAll n close chunks).nMap → (mergeAll n close chunks).mapG.get l ≤ l) ∧
    (∀ p e, (mergeAll n close chunks).inG.get p = some e → e < (mergeAll n close chunks).nMap) ∧
    (∀ p, ((mergeAll n close chunks).inG.get p).isSome = true ↔
      ∃ ch, ch ∈ chunks ∧ ∃ a, a < ch.size ∧ cget ch a = p) ∧
    Equivalence (joinAll close chunks (fun p q => p = q)) ∧
    (∀ x y, SameCell close chunks x y → joinAll close chunks (fun p q => p = q) x y) ∧
    (∀ R : Nat → Nat → Prop, Equivalence R → (∀ x y, SameCell close chunks x y → R x y) →
      ∀ p q, joinAll close chunks (fun p q => p = q) p q → R p q) ∧
    (∀ p q, ((mergeAll n close chunks).inG.get p).isSome = true →
      ((mergeAll n close chunks).inG.get q).isSome = true →
      ((mergedLabel (mergeAll n close chunks)).get p = (mergedLabel (mergeAll n close chunks)).get q ↔
        joinAll close chunks (fun p q => p = q) p q)) := by
  have hrefl' : ∀ ch, ch ∈ chunks → ∀ a, a < ch.size → close (cget ch a) (cget ch a) = true :=
    fun ch hch a ha => hrefl _ (hc.lt ch hch a ha)
  obtain ⟨m, hs, _⟩ := mergeAll_fold n close chunks ⟨Arr.const none, Arr.const 0, 0, true⟩ _ eq_equiv minv_init
    hrefl' hc.inj (by have := hc.cap; show 0 + _ ≤ _; omega)
  obtain ⟨j1, j2, j3⟩ := joinAll_finest close chunks hrefl' hc.inj
  have hm : mergeAll n close chunks = chunks.foldl (mergeChunk n close) ⟨Arr.const none, Arr.const 0, 0, true⟩ := rfl
  rw [hm]
  refine ⟨m.ok, fun l _ => m.le l, m.lab, ?_, j1, j2, j3, ?_⟩
  · intro p
    rw [hs p]
    simp
  · intro p q hp hq
    generalize chunks.foldl (mergeChunk n close) ⟨Arr.const none, Arr.const 0, 0, true⟩ = s at m hp hq ⊢
    cases he : s.inG.get p with
    | none => rw [he] at hp; cases hp
    | some e =>
      cases hf : s.inG.get q with
      | none => rw [hf] at hq; cases hq
      | some f =>
        have h1 : (mergedLabel s).get p = some ((resolve s.nMap s.mapG).1.get e) := by
          show (s.inG.get p).map _ = _; rw [he]; rfl
        have h2 : (mergedLabel s).get q = some ((resolve s.nMap s.mapG).1.get f) := by
          show (s.inG.get q).map _ = _; rw [hf]; rfl
        rw [h1, h2, Option.some.injEq, resolve_eq_iff s.mapG s.nMap m.le e f (m.lab p e he) (m.lab q f hf)]
        exact m.iff p q e f he hf

theorem conn_map (close : Nat → Nat → Bool) (n : Nat) (ch : Array Nat) (hlt : ∀ a, a < ch.size → cget ch a < n)
    (a b : Nat) (h : Conn (cellClose close ch) ch.size a b) : Conn close n (cget ch a) (cget ch b) := by
  induction h with
  | refl => exact Conn.refl _
  | tail _ hb hc e ih => exact Conn.tail ih (hlt _ hb) (hlt _ hc) e

/-- the value `spheregroup` returns (for n ≠ 1) -/
def sphereOut (n : Nat) (close : Nat → Nat → Bool) (chunks : List (Array Nat)) : Out :=
  let F := friendsRun n close chunks
  let r := renumber n F.L F.inG
  let L := link r.inG n ⟨Arr.const none, F.L.next⟩
  ⟨r.inG, countAll n L false F.nG (Arr.const 0), L, F.nG, F.ok && r.ok && countOk n L F.nG⟩

theorem sphereRun_eq (n : Nat) (close : Nat → Nat → Bool) (chunks : List (Array Nat)) (hn : n ≠ 1) :
    sphereRun n close chunks = .ok (sphereOut n close chunks) := by
  simp only [sphereRun, hn, if_false]; rfl

/-- **spheregroup_fof** (full strength): for n ≠ 1 points, every reflexive symmetric closeness relation and every
cell list with `CoverFoF` (every point in ≥ 1 cell, every close pair shares a cell, no point twice in a cell,
occupancy ≤ 9n), `spheregroup` succeeds, no loop hangs and no index leaves the arrays (`ok`), and its output is
exactly the friends-of-friends partition: same final label ⇔ joined by a chain of close pairs; the labels are
0,1,2,… in order of first member; firstgroup/nextgroup are exactly the sorted member lists (walking next from
first[c] enumerates group c once, in increasing order); multgroup[c] is the size of group c for EVERY c
(0 beyond the last group). -/
theorem spheregroup_fof (n : Nat) (close : Nat → Nat → Bool) (chunks : List (Array Nat)) (hn : n ≠ 1)
    (hcov : CoverFoF n close chunks) (hrefl : ∀ i, i < n → close i i = true)
    (hsym : ∀ a b, a < n → b < n → close a b = close b a) :
    ∃ o, sphereRun n close chunks = .ok o ∧ o.ok = true ∧
    (∀ x y, x < n → y < n → (o.inG.get x = o.inG.get y ↔ Conn close n x y)) ∧
    (∀ x, x < n → ∀ c, c < o.inG.get x → ∃ z, z < x ∧ o.inG.get z = c) ∧
    IsLists o.inG 0 n o.L ∧
    (∀ c, walk o.L.next n (o.L.first.get c) = (List.range n).filter (fun x => o.inG.get x = c)) ∧
    (∀ c, o.mult.get c = ((List.range n).filter (fun x => o.inG.get x = c)).length) := by
  obtain ⟨m1, _, m3, m4, j1, j2, j3, m5⟩ := merge_refines n close chunks hcov.cells hrefl
  obtain ⟨o, ho, p1, p2, p3, p4, p5⟩ := sphere_lists_partial n close chunks hn
  rw [sphereRun_eq n close chunks hn] at ho
  cases ho
  have hF : IsLists (friendsRun n close chunks).inG 0 n (friendsRun n close chunks).L := by
    simp only [friendsRun, freeze_eq]
    exact isLists_rebuild _ _ _
  obtain ⟨r1, r2, r3, r4, _⟩ := renumber_first_appearance _ n _ hF
  -- every point is labelled by the merge
  have hsome : ∀ x, x < n → ((mergeAll n close chunks).inG.get x).isSome = true :=
    fun x hx => (m4 x).2 (hcov.every x hx)
  have hFin : ∀ x, (friendsRun n close chunks).inG.get x =
      ((mergedLabel (mergeAll n close chunks)).get x).getD 0 := by
    intro x; simp only [friendsRun, freeze_eq]
  have hml : ∀ x, (mergedLabel (mergeAll n close chunks)).get x = ((mergeAll n close chunks).inG.get x).map
      (resolve (mergeAll n close chunks).nMap (mergeAll n close chunks).mapG).1.get := fun x => rfl
  have hle : LE (mergeAll n close chunks).mapG := by
    have hrefl' : ∀ ch, ch ∈ chunks → ∀ a, a < ch.size → close (cget ch a) (cget ch a) = true :=
      fun ch hch a ha => hrefl _ (hcov.cells.lt ch hch a ha)
    exact (mergeAll_fold n close chunks ⟨Arr.const none, Arr.const 0, 0, true⟩ _ eq_equiv minv_init
      hrefl' hcov.cells.inj (by have := hcov.cells.cap; show 0 + _ ≤ _; omega)).1.le
  -- labels of the merge are below its group count
  have hFlt : ∀ x, x < n → (friendsRun n close chunks).inG.get x < (friendsRun n close chunks).nG := by
    intro x hx
    have hx' := hsome x hx
    rw [hFin x, hml x]
    cases he : (mergeAll n close chunks).inG.get x with
    | none => rw [he] at hx'; cases hx'
    | some e => exact resolve_lt _ _ hle e (m3 x e he)
  -- the partition generated by the cells is the component partition
  have hJC : ∀ x y, x < n → y < n → (joinAll close chunks (fun p q => p = q) x y ↔ Conn close n x y) := by
    intro x y hx hy
    constructor
    · refine j3 (fun a b => Conn close n a b) ⟨Conn.refl, Conn.symm, Conn.trans⟩ ?_ x y
      rintro a b ⟨ch, hch, a', b', ha', hb', rfl, rfl, hab⟩
      have hl := hcov.cells.lt ch hch
      exact conn_map close n ch hl a' b' (groups_sound ch.size (cellClose close ch)
        (fun i hi => hrefl _ (hl i hi)) (fun a b ha hb => hsym _ _ (hl a ha) (hl b hb)) a' b' ha' hb' hab)
    · intro hconn
      induction hconn with
      | refl => exact j1.refl _
      | tail _ hb hc e ih =>
        refine j1.trans (ih hb) ?_
        have hpair : ∀ u v, u < n → v < n → close u v = true →
            joinAll close chunks (fun p q => p = q) u v := by
          intro u v hu hv huv
          obtain ⟨ch, hch, a', b', ha', hb', rfl, rfl⟩ := hcov.pair u v hu hv huv
          have hl := hcov.cells.lt ch hch
          exact j2 _ _ ⟨ch, hch, a', b', ha', hb', rfl, rfl, groups_complete ch.size (cellClose close ch)
            (fun i hi => hrefl _ (hl i hi)) (fun a b ha hb => hsym _ _ (hl a ha) (hl b hb)) a' b' ha' hb' huv⟩
        rcases e with e | e
        · exact hpair _ _ hb hc e
        · exact j1.symm (hpair _ _ hc hb e)
  -- the renumbering uses at most as many labels as the merge has groups
  have hcnt : (renumber n (friendsRun n close chunks).L (friendsRun n close chunks).inG).cnt ≤
      (friendsRun n close chunks).nG := by
    apply pigeon _ (fun c v => ∃ z, z < n ∧
      (renumber n (friendsRun n close chunks).L (friendsRun n close chunks).inG).inG.get z = c ∧
      (friendsRun n close chunks).inG.get z = v)
    · rintro c c' v ⟨z, hz, e1, e2⟩ ⟨z', hz', e1', e2'⟩
      rw [← e1, ← e1']
      exact (r2 z z' hz hz').2 (e2.trans e2'.symm)
    · intro c hc
      obtain ⟨z, hz, e⟩ := r4 c hc
      exact ⟨_, hFlt z hz, z, hz, e, rfl⟩
  refine ⟨_, sphereRun_eq n close chunks hn, ?_, ?_, p2, p3, p4, ?_⟩
  · -- ok
    have hFok : (friendsRun n close chunks).ok = true := by
      show ((mergeAll n close chunks).ok && (List.range n).all (fun p =>
        ((mergedLabel (mergeAll n close chunks)).get p).isSome) &&
        countOk n (friendsRun n close chunks).L (friendsRun n close chunks).nG) = true
      rw [m1, countOk_of n _ _ (fun c => (walk_first _ n n _ hF (Nat.le_refl _) c).1)]
      simp only [Bool.true_and, Bool.and_true, List.all_eq_true, List.mem_range]
      intro x hx
      rw [hml x, Option.isSome_map]
      exact hsome x hx
    show ((friendsRun n close chunks).ok && (renumber n _ _).ok && countOk n _ _) = true
    rw [hFok, r1, countOk_of n _ _ (fun c => (walk_first _ n n _ (isLists_rebuild _ _ _) (Nat.le_refl _) c).1)]
    rfl
  · intro x y hx hy
    rw [p1 x y hx hy, ← hJC x y hx hy, ← m5 x y (hsome x hx) (hsome y hy), hFin x, hFin y]
    have hx' := hsome x hx
    have hy' := hsome y hy
    rw [hml x, hml y]
    cases he : (mergeAll n close chunks).inG.get x with
    | none => rw [he] at hx'; cases hx'
    | some e =>
      cases hf : (mergeAll n close chunks).inG.get y with
      | none => rw [hf] at hy'; cases hy'
      | some f => simp
  · intro c
    rw [p5 c]
    split
    · rfl
    · rename_i hcge
      symm
      rw [List.length_eq_zero_iff, List.filter_eq_nil_iff]
      intro x hx
      have hx' := List.mem_range.1 hx
      have := r3 x hx'
      have hxc : (sphereOut n close chunks).inG.get x <
          (renumber n (friendsRun n close chunks).L (friendsRun n close chunks).inG).cnt := this
      simp only [decide_eq_true_eq]
      omega

theorem surj_init : Surj ⟨Arr.const none, Arr.const 0, 0, true⟩ := fun r hr _ => absurd hr (Nat.not_lt_zero r)

/-- **merge_ngroups** (friendsoffriends 322-333): the resolved labels are exactly `0 … nGroups-1` - every labelled
point gets a number below `nGroups`, and every number below `nGroups` is the number of some point (a root label always
belongs to a non-empty chunk group whose members were all new). -/
theorem merge_ngroups (n : Nat) (close : Nat → Nat → Bool) (chunks : List (Array Nat)) (hc : Cells n chunks)
    (hrefl : ∀ i, i < n → close i i = true) :
    (∀ p v, (mergedLabel (mergeAll n close chunks)).get p = some v →
      v < (resolve (mergeAll n close chunks).nMap (mergeAll n close chunks).mapG).2) ∧
    (∀ c, c < (resolve (mergeAll n close chunks).nMap (mergeAll n close chunks).mapG).2 →
      ∃ p, p < n ∧ (mergedLabel (mergeAll n close chunks)).get p = some c) := by
  have hrefl' : ∀ ch, ch ∈ chunks → ∀ a, a < ch.size → close (cget ch a) (cget ch a) = true :=
    fun ch hch a ha => hrefl _ (hc.lt ch hch a ha)
  obtain ⟨m, hs, hsurj⟩ := mergeAll_fold n close chunks ⟨Arr.const none, Arr.const 0, 0, true⟩ _ eq_equiv
    minv_init hrefl' hc.inj (by have := hc.cap; show 0 + _ ≤ _; omega)
  have hsurj := hsurj surj_init
  have hm : mergeAll n close chunks = chunks.foldl (mergeChunk n close) ⟨Arr.const none, Arr.const 0, 0, true⟩ := rfl
  rw [hm]
  generalize chunks.foldl (mergeChunk n close) ⟨Arr.const none, Arr.const 0, 0, true⟩ = s at m hs hsurj ⊢
  have hml : ∀ x, (mergedLabel s).get x = (s.inG.get x).map (resolve s.nMap s.mapG).1.get := fun x => rfl
  constructor
  · intro p v hv
    rw [hml p] at hv
    cases he : s.inG.get p with
    | none => rw [he] at hv; cases hv
    | some e =>
      rw [he] at hv
      cases hv
      exact resolve_lt s.mapG s.nMap m.le e (m.lab p e he)
  · intro c hcl
    have hcnt : (resolve s.nMap s.mapG).2 = nroots s.mapG s.nMap :=
      (resInv_all s.mapG s.nMap (fun i _ => m.le i) s.nMap (Nat.le_refl _)).cnt
    rw [hcnt] at hcl
    obtain ⟨r, hr, hroot, hrc⟩ := nroots_surj s.mapG s.nMap c hcl
    obtain ⟨p, hp⟩ := hsurj r hr hroot
    have hpn : p < n := by
      have h1 : (s.inG.get p).isSome = true := by rw [hp]; rfl
      rcases (hs p).1 h1 with h2 | ⟨ch, hch, a, ha, e⟩
      · cases h2
      · rw [← e]; exact hc.lt ch hch a ha
    refine ⟨p, hpn, ?_⟩
    rw [hml p, hp]
    show some ((resolve s.nMap s.mapG).1.get r) = some c
    rw [resolve_rt s.mapG s.nMap m.le r hr, rt_of_root s.mapG m.le r hroot, hrc]

/-- **spheregroup_ngroups**: under the hypotheses of `spheregroup_fof` the group count that `spheregroup` takes over
from the merge (its counting loop runs over it) is exactly the number of groups: `c` is a label in use iff
`c < nGroups`. -/
theorem spheregroup_ngroups (n : Nat) (close : Nat → Nat → Bool) (chunks : List (Array Nat))
    (hcov : CoverFoF n close chunks) (hrefl : ∀ i, i < n → close i i = true) (c : Nat) :
    c < (sphereOut n close chunks).nG ↔ ∃ x, x < n ∧ (sphereOut n close chunks).inG.get x = c := by
  obtain ⟨_, _, m3, m4, _⟩ := merge_refines n close chunks hcov.cells hrefl
  obtain ⟨g1, g2⟩ := merge_ngroups n close chunks hcov.cells hrefl
  have hF : IsLists (friendsRun n close chunks).inG 0 n (friendsRun n close chunks).L := by
    simp only [friendsRun, freeze_eq]
    exact isLists_rebuild _ _ _
  obtain ⟨_, r2, r3, r4, _⟩ := renumber_first_appearance _ n _ hF
  have hFin : ∀ x, (friendsRun n close chunks).inG.get x =
      ((mergedLabel (mergeAll n close chunks)).get x).getD 0 := by
    intro x; simp only [friendsRun, freeze_eq]
  have hlab : ∀ x, x < n → ∃ v, (mergedLabel (mergeAll n close chunks)).get x = some v := by
    intro x hx
    have h1 := (m4 x).2 (hcov.every x hx)
    have hml : (mergedLabel (mergeAll n close chunks)).get x = ((mergeAll n close chunks).inG.get x).map
      (resolve (mergeAll n close chunks).nMap (mergeAll n close chunks).mapG).1.get := rfl
    cases he : (mergeAll n close chunks).inG.get x with
    | none => rw [he] at h1; cases h1
    | some e => exact ⟨_, by rw [hml, he]; rfl⟩
  have hnG : (sphereOut n close chunks).nG =
      (resolve (mergeAll n close chunks).nMap (mergeAll n close chunks).mapG).2 := rfl
  -- both counts agree (pigeonhole in both directions)
  have hle1 : (renumber n (friendsRun n close chunks).L (friendsRun n close chunks).inG).cnt ≤
      (sphereOut n close chunks).nG := by
    apply pigeon _ (fun c v => ∃ z, z < n ∧
      (renumber n (friendsRun n close chunks).L (friendsRun n close chunks).inG).inG.get z = c ∧
      (friendsRun n close chunks).inG.get z = v)
    · rintro c c' v ⟨z, hz, e1, e2⟩ ⟨z', hz', e1', e2'⟩
      rw [← e1, ← e1']
      exact (r2 z z' hz hz').2 (e2.trans e2'.symm)
    · intro c hc
      obtain ⟨z, hz, e⟩ := r4 c hc
      obtain ⟨v, hv⟩ := hlab z hz
      refine ⟨_, ?_, z, hz, e, rfl⟩
      rw [hFin z, hv, hnG]
      exact g1 z v hv
  have hle2 : (sphereOut n close chunks).nG ≤
      (renumber n (friendsRun n close chunks).L (friendsRun n close chunks).inG).cnt := by
    apply pigeon _ (fun c v => ∃ z, z < n ∧ (friendsRun n close chunks).inG.get z = c ∧
      (renumber n (friendsRun n close chunks).L (friendsRun n close chunks).inG).inG.get z = v)
    · rintro c c' v ⟨z, hz, e1, e2⟩ ⟨z', hz', e1', e2'⟩
      rw [← e1, ← e1']
      exact (r2 z z' hz hz').1 (e2.trans e2'.symm)
    · intro c hc
      rw [hnG] at hc
      obtain ⟨p, hp, hpc⟩ := g2 c hc
      exact ⟨_, r3 p hp, p, hp, by rw [hFin p, hpc]; rfl, rfl⟩
  constructor
  · intro hc
    exact r4 c (by omega)
  · rintro ⟨x, hx, rfl⟩
    have := r3 x hx
    have hxc : (sphereOut n close chunks).inG.get x <
        (renumber n (friendsRun n close chunks).L (friendsRun n close chunks).inG).cnt := this
    omega


/-! ## the grid: CoverFoF discharged for the grid that spheregroup builds (ℝ; on top of C04's grid theorems) -/

section grid
open PydlVerif.Sphere PydlVerif.FofGrid
attribute [local instance] realFns fieldScalar fieldTrig
attribute [-instance] Scalar.instOfNat Scalar.instOfScientific

theorem cget_toArray (l : List Nat) (a : Nat) (ha : a < l.length) : cget l.toArray a = l[a] := by
  simp [cget, Array.getD_eq_getD_getElem?, ha]

theorem mem_cellLists (nDec : Nat) (nRa : Array Nat) (cl : Tab CellSt) (ch : Array Nat) :
    ch ∈ cellLists nDec nRa cl ↔ ∃ d r, d < nDec ∧ r < nRa.getD d 0 ∧ ch = (cl.get (d, r)).1.toArray := by
  simp only [cellLists, List.mem_flatMap, List.mem_map, List.mem_range]
  constructor
  · rintro ⟨d, hd, r, hr, e⟩; exact ⟨d, r, hd, hr, e.symm⟩
  · rintro ⟨d, r, hd, hr, e⟩; exact ⟨d, hd, r, hr, e.symm⟩

/-- the separation in degrees that the statement of the property speaks about -/
noncomputable def sepDeg (ra dec : Array ℝ) (i j : Nat) : ℝ :=
  gcircDeg (ra.getD i 0) (dec.getD i 0) (ra.getD j 0) (dec.getD j 0)

/-- **close_is_sep**: the closeness test that `chunkfriendsoffriends` hands to `groups` (coordinates and linking length
through `np.deg2rad`, `gcirc(units=0) <= distance`) is `separation ≤ linklength` in degrees; it is reflexive for
ll ≥ 0 and symmetric -/
theorem close_is_sep (ra dec : Array ℝ) (ll : ℝ) :
    (∀ i j, closeOf ra dec ll i j = true ↔ sepDeg ra dec i j ≤ ll) ∧
    (0 ≤ ll → ∀ i, closeOf ra dec ll i i = true) ∧
    (∀ i j, closeOf ra dec ll i j = closeOf ra dec ll j i) :=
  ⟨fun i j => closeOf_iff ra dec ll i j, fun h i => closeOf_refl ra dec ll h i, fun i j => closeOf_symm ra dec ll i j⟩

/-- **grid_own_cell_pair** (component 1 of CoverFoF).  On the grid `chunks(ra, dec, ms)` + `assign(ra, dec, ll)` of the
SAME list (|Dec| < 90, 0 < ll, 4·ll ≤ ms) every point i has a home cell - a cell of the loop
`for d in range(nDec): for r in range(nRa[d])` - that stores i and every point closer to i than ll.
(C04 `racover_pair` / `seam_room` / `assign_mem` with list 2 = list 1, marginSize = ll.) -/
theorem grid_own_cell_pair (ra dec : Array ℝ) (ms ll : ℝ) (g : Grid ℝ) (cl : Tab CellSt)
    (hg : chunksInit ra dec ms = .ok g) (hcl : assign g ra dec ll = .ok cl)
    (hdec : ∀ i, i < dec.size → |dec.getD i 0| < 90) (hll : 0 < ll) (hms : 4 * ll ≤ ms)
    (i : Nat) (hi : i < ra.size) :
    ∃ ch, ch ∈ cellLists g.nDec g.nRa cl ∧ (∃ a, a < ch.size ∧ cget ch a = i) ∧
      ∀ k, k < ra.size → sepDeg ra dec i k < ll → ∃ b, b < ch.size ∧ cget ch b = k := by
  obtain ⟨_, hb, _⟩ := grid_cover ra dec ms ll g cl hg hcl hdec hll hms
  obtain ⟨d, r, hd, hr, hmem, hall⟩ := hb i hi
  have hidx : ∀ k, k ∈ (cl.get (d, r)).1 → ∃ b, b < (cl.get (d, r)).1.toArray.size ∧
      cget (cl.get (d, r)).1.toArray b = k := by
    intro k hk
    obtain ⟨b, hb, e⟩ := List.getElem_of_mem hk
    exact ⟨b, by simpa using hb, by rw [cget_toArray _ b hb, e]⟩
  exact ⟨_, (mem_cellLists _ _ _ _).2 ⟨d, r, hd, hr, rfl⟩, hidx i hmem, fun k hk hc => hidx k (hall k hk hc)⟩

/-- **grid_no_point_twice** (component 2): whatever ranges `getbounds` returns - also ranges that wrap onto the same
cell twice at the seam - the `chunkDone` bookkeeping of `assign` enters no point twice into one cell, and every entry
is a point of the list (C04 `assign_nodup`). -/
theorem grid_no_point_twice (ra dec : Array ℝ) (ll : ℝ) (g : Grid ℝ) (cl : Tab CellSt)
    (hcl : assign g ra dec ll = .ok cl) (ch : Array Nat) (hch : ch ∈ cellLists g.nDec g.nRa cl) :
    (∀ a, a < ch.size → cget ch a < ra.size) ∧
    (∀ a b, a < ch.size → b < ch.size → cget ch a = cget ch b → a = b) := by
  obtain ⟨d, r, _, _, rfl⟩ := (mem_cellLists _ _ _ _).1 hch
  obtain ⟨hnd, hlt⟩ := C04.assign_nodup g ra dec ll cl hcl (d, r)
  constructor
  · intro a ha
    have ha' : a < (cl.get (d, r)).1.length := by simpa using ha
    rw [cget_toArray _ a ha']
    exact hlt _ (List.getElem_mem ha')
  · intro a b ha hb e
    have ha' : a < (cl.get (d, r)).1.length := by simpa using ha
    have hb' : b < (cl.get (d, r)).1.length := by simpa using hb
    rw [cget_toArray _ a ha', cget_toArray _ b hb'] at e
    exact (List.Nodup.getElem_inj_iff hnd).1 e

/-- **grid_occupancy_9n** (component 3): THE INEQUALITY THE CODE RELIES ON when it allocates `9*nPoints` provisional
labels ("The largest number of groups you can get … is 9 times the number of targets").  On the grid of spheregroup
(|Dec| < 90, 0 < ll, 4·ll ≤ ms) `getbounds` returns for every point at most 3 declination bands (a band is exactly ms ≥ 4·ll
high) and in each at most 3 RA indices (the RA margin is at most half a minimal cell ms/cosDecMin, every cell is at
least that wide or - band [0,360] - at least the margin wide), so a point is entered into at most 9 cells and the cell
lists together hold at most 9·n entries. -/
theorem grid_occupancy_9n (ra dec : Array ℝ) (ms ll : ℝ) (g : Grid ℝ) (cl : Tab CellSt)
    (hg : chunksInit ra dec ms = .ok g) (hcl : assign g ra dec ll = .ok cl)
    (hdec : ∀ i, i < dec.size → |dec.getD i 0| < 90) (hll : 0 < ll) (hms : 4 * ll ≤ ms) :
    (∀ i, i < ra.size → (cellsOfPoint g ra dec ll 0 i).length ≤ 9) ∧
    ((cellLists g.nDec g.nRa cl).map Array.size).sum ≤ 9 * ra.size := by
  refine ⟨?_, (grid_cover ra dec ms ll g cl hg hcl hdec hll hms).2.2⟩
  obtain ⟨_, hsz, hra⟩ := chunksInit_guards ra dec ms g hg
  have H : OwnGrid g ra dec ms ll :=
    ⟨chunksInit_facts ra dec ms g
      (fun i hi => by have := abs_lt.1 (hdec i hi); exact ⟨this.1.le, this.2.le⟩) hg,
     chunksInit_room ra dec ms g hg, chunksInit_width ra dec ms g hg, hsz, hll, hms, hra,
     fun i hi => hdec i (by omega)⟩
  exact fun i hi => H.visit_le9 i hi

/-- **grid_close_pair_shares_cell** (component 1, boundary included): two points of the list whose separation is at most ll -
also EXACTLY ll - are stored together in some cell.  Below ll: the cell of i (`grid_own_cell_pair`).  At exactly ll the strict
comparisons of `getbounds` can miss the cell of the one point, but then the cell of the other is reached: the downward loops
never need strictness (`Lemmas/FofGridEdge.lean`: different declinations ⇒ the RA margin is strict and the higher band reaches
down; equal declinations ⇒ the larger RA reaches down, or across the seam the smaller RA runs down to index -1). -/
theorem grid_close_pair_shares_cell (ra dec : Array ℝ) (ms ll : ℝ) (g : Grid ℝ) (cl : Tab CellSt)
    (hg : chunksInit ra dec ms = .ok g) (hcl : assign g ra dec ll = .ok cl)
    (hdec : ∀ i, i < dec.size → |dec.getD i 0| < 90) (hll : 0 < ll) (hms : 4 * ll ≤ ms)
    (i k : Nat) (hi : i < ra.size) (hk : k < ra.size) (hclose : sepDeg ra dec i k ≤ ll) :
    ∃ ch, ch ∈ cellLists g.nDec g.nRa cl ∧ ∃ a b, a < ch.size ∧ b < ch.size ∧ cget ch a = i ∧ cget ch b = k := by
  rcases lt_or_eq_of_le hclose with hlt | heq
  · obtain ⟨ch, hch, ⟨a, ha, ea⟩, hall⟩ := grid_own_cell_pair ra dec ms ll g cl hg hcl hdec hll hms i hi
    obtain ⟨b, hb, eb⟩ := hall k hk hlt
    exact ⟨ch, hch, a, b, ha, hb, ea, eb⟩
  · obtain ⟨d, r, hd, hr, h1, h2⟩ := grid_share_eq ra dec ms ll g cl hg hcl hdec hll hms i k hi hk heq
    have hidx : ∀ x, x ∈ (cl.get (d, r)).1 → ∃ b, b < (cl.get (d, r)).1.toArray.size ∧
        cget (cl.get (d, r)).1.toArray b = x := by
      intro x hx
      obtain ⟨b, hb, e⟩ := List.getElem_of_mem hx
      exact ⟨b, by simpa using hb, by rw [cget_toArray _ b hb, e]⟩
    obtain ⟨a, ha, ea⟩ := hidx i h1
    obtain ⟨b, hb, eb⟩ := hidx k h2
    exact ⟨_, (mem_cellLists _ _ _ _).2 ⟨d, r, hd, hr, rfl⟩, a, b, ha, hb, ea, eb⟩

/-- **cover_fof_grid**: `CoverFoF` HOLDS for the cell lists of the grid that spheregroup builds and the closeness relation
`separation ≤ ll` of the code - no hypothesis beyond |Dec| < 90, 0 < ll, 4·ll ≤ ms. -/
theorem cover_fof_grid (ra dec : Array ℝ) (ms ll : ℝ) (g : Grid ℝ) (cl : Tab CellSt)
    (hg : chunksInit ra dec ms = .ok g) (hcl : assign g ra dec ll = .ok cl)
    (hdec : ∀ i, i < dec.size → |dec.getD i 0| < 90) (hll : 0 < ll) (hms : 4 * ll ≤ ms) :
    CoverFoF ra.size (closeOf ra dec ll) (cellLists g.nDec g.nRa cl) := by
  refine ⟨⟨?_, ?_, ?_⟩, ?_, ?_⟩
  · exact fun ch hch => (grid_no_point_twice ra dec ll g cl hcl ch hch).1
  · exact fun ch hch => (grid_no_point_twice ra dec ll g cl hcl ch hch).2
  · exact (grid_occupancy_9n ra dec ms ll g cl hg hcl hdec hll hms).2
  · intro p hp
    obtain ⟨ch, hch, ha, _⟩ := grid_own_cell_pair ra dec ms ll g cl hg hcl hdec hll hms p hp
    exact ⟨ch, hch, ha⟩
  · intro p q hp hq hc
    exact grid_close_pair_shares_cell ra dec ms ll g cl hg hcl hdec hll hms p q hp hq
      ((closeOf_iff ra dec ll p q).1 hc)

/-- the chunk size that spheregroup uses is at least 4 linking lengths -/
theorem groupChunkSize_ge (ll : ℝ) (chunksize : Option ℝ) : 4 * ll ≤ groupChunkSize ll chunksize := by
  unfold groupChunkSize
  simp only [scalar_lit, scalar_sci]
  push_cast
  split
  · split
    · exact le_refl _
    · rename_i hc; exact not_lt.1 hc
  · split
    · rename_i hc; exact hc.le
    · exact le_refl _

/-- **spheregroup_fof_grid** - THE STATEMENT OF C05 FOR THE MODEL OF `spheregroup` END TO END, no hypothesis about the
grid.  `spheregroup ra dec ll chunksize` is the model of the whole function at ℝ (Model/FofGrid.lean: the n = 1 check,
the chunk size rule, `chunks(ra, dec, cs)`, `assign(ra, dec, ll)`, friendsoffriends on the cells in the loop order of the
code, renumbering, rebuilt lists, recount).  Whenever it returns, with |Dec| < 90 and 0 < ll (RA in [0,360), two lists of equal length and - over ℝ, where cos 90° = 0 - a grid that is not clipped to a
pole are guards of the model's constructor, hence consequences of `h`): no loop hangs and no index leaves an array, the
label table of 9·n entries does not overflow (`ok`); two points get the same group number IFF a chain of points joins them
in which consecutive separations are ≤ ll (`close_is_sep`: `closeOf` is `sepDeg ≤ ll`); the groups are numbered 0,1,2,… in
order of their first member; firstgroup/nextgroup are exactly the sorted member lists (walking next from first[c]
visits every member of c once and ends at -1; -1 beyond the last group); multgroup[c] is the size of group c for every c
(0 beyond the last group) - for ANY chunksize (the code raises it to 4·ll). -/
theorem spheregroup_fof_grid (ra dec : Array ℝ) (ll : ℝ) (chunksize : Option ℝ) (o : Out)
    (h : spheregroup ra dec ll chunksize = .ok o)
    (hdec : ∀ i, i < dec.size → |dec.getD i 0| < 90) (hll : 0 < ll) :
    o.ok = true ∧
    (∀ x y, x < ra.size → y < ra.size → (o.inG.get x = o.inG.get y ↔ Conn (closeOf ra dec ll) ra.size x y)) ∧
    (∀ x, x < ra.size → ∀ c, c < o.inG.get x → ∃ z, z < x ∧ o.inG.get z = c) ∧
    IsLists o.inG 0 ra.size o.L ∧
    (∀ c, walk o.L.next ra.size (o.L.first.get c) = (List.range ra.size).filter (fun x => o.inG.get x = c)) ∧
    (∀ c, o.mult.get c = ((List.range ra.size).filter (fun x => o.inG.get x = c)).length) := by
  unfold spheregroup at h
  simp -zeta only [bind, Except.bind] at h
  split at h
  · cases h
  · rename_i hn
    obtain ⟨g, hg, h⟩ := bind_ok _ _ _ h
    obtain ⟨cl, hcl, h⟩ := bind_ok _ _ _ h
    have hcov := cover_fof_grid ra dec _ ll g cl hg hcl hdec hll (groupChunkSize_ge ll chunksize)
    obtain ⟨o', ho', r⟩ := spheregroup_fof ra.size (closeOf ra dec ll) _ hn hcov
      (fun i _ => closeOf_refl ra dec ll hll.le i) (fun a b _ _ => closeOf_symm ra dec ll a b)
    rw [h] at ho'
    cases ho'
    exact r

/-- **spheregroup_returns**: the hypothesis "the model's spheregroup returned" of `spheregroup_fof_grid` is
satisfiable, in fact it holds for every input whose declinations stay 4.5 chunk sizes away from the poles: two or more
points, as many declinations as right ascensions, RA in [0,360), 0 < ll, |Dec| ≤ 90 - 4.5·cs (cs = the chunk size
spheregroup uses, `groupChunkSize`): then no declination edge is clipped to a pole, every band has a positive cosine,
`chunks.__init__` returns, `assign` accepts the margin (ll < cs) and spheregroup returns. -/
theorem spheregroup_returns (ra dec : Array ℝ) (ll : ℝ) (chunksize : Option ℝ)
    (hn : 2 ≤ ra.size) (hsz : ra.size = dec.size)
    (hra : ∀ i, i < ra.size → 0 ≤ ra.getD i 0 ∧ ra.getD i 0 < 360) (hll : 0 < ll)
    (hdec : ∀ i, i < dec.size → |dec.getD i 0| ≤ 90 - 9 / 2 * groupChunkSize ll chunksize) :
    ∃ o, spheregroup ra dec ll chunksize = .ok o := by
  have hcs := groupChunkSize_ge ll chunksize
  have hcs0 : 0 < groupChunkSize ll chunksize := by linarith
  obtain ⟨g, hg⟩ := chunksInit_returns ra dec _ hcs0 (by omega) hsz hra
    (fun i hi => by have := abs_le.1 (hdec i hi); constructor <;> linarith)
  have hF := chunksInit_facts ra dec _ g
    (fun i hi => by have := abs_le.1 (hdec i hi); constructor <;> linarith) hg
  unfold spheregroup
  simp -zeta only [bind, Except.bind]
  have hassign : ∃ cl, assign g ra dec ll = .ok cl := by
    unfold assign
    rw [if_neg (by rw [not_not, hF.minSize_eq]; linarith)]
    exact ⟨_, rfl⟩
  obtain ⟨cl, hcl⟩ := hassign
  simp only [if_neg (show ¬ ra.size = 1 by omega), hg, hcl]
  exact ⟨_, sphereRun_eq _ _ _ (by omega)⟩

/-- **spheregroup_fof_total**: the two together, hypotheses ONLY about the inputs: two or more points, one declination per
right ascension, RA in [0,360), 0 < ll, every declination at least 4.5 chunk sizes away from the poles.  Then the model of spheregroup returns, and its output is the friends-of-friends partition with
first-appearance numbering and exact first/next/multiplicity (the conclusions of `spheregroup_fof_grid`). -/
theorem spheregroup_fof_total (ra dec : Array ℝ) (ll : ℝ) (chunksize : Option ℝ)
    (hn : 2 ≤ ra.size) (hsz : ra.size = dec.size)
    (hra : ∀ i, i < ra.size → 0 ≤ ra.getD i 0 ∧ ra.getD i 0 < 360) (hll : 0 < ll)
    (hdec : ∀ i, i < dec.size → |dec.getD i 0| ≤ 90 - 9 / 2 * groupChunkSize ll chunksize) :
    ∃ o, spheregroup ra dec ll chunksize = .ok o ∧ o.ok = true ∧
    (∀ x y, x < ra.size → y < ra.size → (o.inG.get x = o.inG.get y ↔ Conn (closeOf ra dec ll) ra.size x y)) ∧
    (∀ x, x < ra.size → ∀ c, c < o.inG.get x → ∃ z, z < x ∧ o.inG.get z = c) ∧
    IsLists o.inG 0 ra.size o.L ∧
    (∀ c, walk o.L.next ra.size (o.L.first.get c) = (List.range ra.size).filter (fun x => o.inG.get x = c)) ∧
    (∀ c, o.mult.get c = ((List.range ra.size).filter (fun x => o.inG.get x = c)).length) := by
  obtain ⟨o, ho⟩ := spheregroup_returns ra dec ll chunksize hn hsz hra hll hdec
  have hcs : 0 < groupChunkSize ll chunksize := by linarith [groupChunkSize_ge ll chunksize]
  exact ⟨o, ho, spheregroup_fof_grid ra dec ll chunksize o ho
    (fun i hi => lt_of_le_of_lt (hdec i hi) (by linarith)) hll⟩

end grid

/-! non-vacuity: concrete inputs meeting the hypotheses -/

/-- labels 0,1,0,2,1 (first-appearance order): the hypotheses of `lists_of_labels` hold with m = 3 -/
example : ∀ x, x < 5 → (⟨fun i => [0, 1, 0, 2, 1].getD i 0⟩ : Arr Nat).get x < 3 := by decide

/-- and the rebuilt lists of that labelling satisfy the hypothesis of `renumber_first_appearance` -/
example : IsLists ⟨fun i => [7, 3, 7, 2, 3].getD i 0⟩ 0 5
    (link ⟨fun i => [7, 3, 7, 2, 3].getD i 0⟩ 5 ⟨Arr.const none, Arr.const none⟩) :=
  isLists_rebuild _ _ _

/-- a `mapGroups` table with the invariant: 0,1 roots, 2→0, 3→2, 4 root -/
example : ∀ i, i < 5 → (⟨fun i => [0, 1, 0, 2, 4].getD i 0⟩ : Arr Nat).get i ≤ i := by decide

/-- a reflexive symmetric relation on 4 points for `groups_lists` / `groups_fof` (edges 0-2, 1-3) -/
example : (∀ i, i < 4 → (fun a b => a == b || (a + 2 == b) || (b + 2 == a)) i i = true) ∧
    (∀ a b, a < 4 → b < 4 → (fun a b => a == b || (a + 2 == b) || (b + 2 == a)) a b =
      (fun a b => a == b || (a + 2 == b) || (b + 2 == a)) b a) :=
  ⟨by decide, fun a b ha hb => (by decide : ∀ a, a < 4 → ∀ b, b < 4 →
    (fun a b => a == b || (a + 2 == b) || (b + 2 == a)) a b =
      (fun a b => a == b || (a + 2 == b) || (b + 2 == a)) b a) a ha b hb⟩

/-- on that relation 0 and 2 are joined, and the model puts them in one group -/
example : Conn (fun a b => a == b || (a + 2 == b) || (b + 2 == a)) 4 0 2 :=
  Conn.single (by decide) (by decide) (Or.inl (by decide))

/-- a cell list meeting `CoverFoF` for that relation on 4 points: cells {0,2,1} and {1,3}; point 1 lies in both -/
example : CoverFoF 4 (fun a b => a == b || (a + 2 == b) || (b + 2 == a)) [#[0, 2, 1], #[1, 3]] := by
  refine ⟨⟨?_, ?_, by decide⟩, ?_, ?_⟩
  · intro ch hch
    simp only [List.mem_cons, List.not_mem_nil, or_false] at hch
    rcases hch with rfl | rfl <;> decide
  · intro ch hch
    simp only [List.mem_cons, List.not_mem_nil, or_false] at hch
    rcases hch with rfl | rfl
    · exact fun a b ha hb => (by decide : ∀ a, a < 3 → ∀ b, b < 3 → cget #[0, 2, 1] a = cget #[0, 2, 1] b → a = b) a ha b hb
    · exact fun a b ha hb => (by decide : ∀ a, a < 2 → ∀ b, b < 2 → cget #[1, 3] a = cget #[1, 3] b → a = b) a ha b hb
  · intro p hp
    have : p = 0 ∨ p = 1 ∨ p = 2 ∨ p = 3 := by omega
    rcases this with rfl | rfl | rfl | rfl
    · exact ⟨#[0, 2, 1], by simp, 0, by decide, rfl⟩
    · exact ⟨#[0, 2, 1], by simp, 2, by decide, rfl⟩
    · exact ⟨#[0, 2, 1], by simp, 1, by decide, rfl⟩
    · exact ⟨#[1, 3], by simp, 1, by decide, rfl⟩
  · have key : ∀ p, p < 4 → ∀ q, q < 4 → (fun a b => a == b || (a + 2 == b) || (b + 2 == a)) p q = true →
        (∃ a, a < 3 ∧ ∃ b, b < 3 ∧ cget #[0, 2, 1] a = p ∧ cget #[0, 2, 1] b = q) ∨
        (∃ a, a < 2 ∧ ∃ b, b < 2 ∧ cget #[1, 3] a = p ∧ cget #[1, 3] b = q) := by decide
    intro p q hp hq hc
    rcases key p hp q hq hc with ⟨a, ha, b, hb, h⟩ | ⟨a, ha, b, hb, h⟩
    · exact ⟨#[0, 2, 1], by simp, a, b, ha, hb, h⟩
    · exact ⟨#[1, 3], by simp, a, b, ha, hb, h⟩

section
open Real PydlVerif.Sphere PydlVerif.FofGrid
attribute [local instance] realFns fieldScalar fieldTrig
attribute [-instance] Scalar.instOfNat Scalar.instOfScientific

theorem ex_cs : groupChunkSize (0.1 : ℝ) none = 0.4 := by
  unfold groupChunkSize
  simp only [scalar_lit, scalar_sci]
  norm_num

/-- three points on the meridian RA = 10° at Dec 5°, 5.05°, 6°, linking length 0.1° (chunk size 0.4°): every hypothesis of
`spheregroup_fof_grid` holds (the model returns by `spheregroup_returns`; the separations are 0.05°, 1°, 0.95°), and the
theorem puts the first two points into one group -/
example : ∃ o, spheregroup (#[10, 10, 10] : Array ℝ) #[5, 5.05, 6] 0.1 none = .ok o ∧ o.ok = true ∧
    o.inG.get 0 = o.inG.get 1 := by
  have hra : ∀ i, i < (#[10, 10, 10] : Array ℝ).size →
      0 ≤ (#[10, 10, 10] : Array ℝ).getD i 0 ∧ (#[10, 10, 10] : Array ℝ).getD i 0 < 360 := by
    intro i hi
    have : i < 3 := hi
    interval_cases i <;> norm_num [Array.getD]
  have hdec : ∀ i, i < (#[5, 5.05, 6] : Array ℝ).size →
      |(#[5, 5.05, 6] : Array ℝ).getD i 0| ≤ 90 - 9 / 2 * groupChunkSize (0.1 : ℝ) none := by
    intro i hi
    have : i < 3 := hi
    rw [ex_cs]
    interval_cases i <;> norm_num [Array.getD, abs_le]
  have hsep : ∀ i j, i < 3 → j < 3 → sepDeg (#[10, 10, 10] : Array ℝ) #[5, 5.05, 6] i j =
      |(#[5, 5.05, 6] : Array ℝ).getD j 0 - (#[5, 5.05, 6] : Array ℝ).getD i 0| := by
    intro i j hi hj
    unfold sepDeg
    have e : ∀ k, k < 3 → (#[10, 10, 10] : Array ℝ).getD k 0 = 10 := by
      intro k hk; interval_cases k <;> norm_num [Array.getD]
    rw [e i hi, e j hj]
    apply gcircDeg_same_ra
    interval_cases i <;> interval_cases j <;> norm_num [Array.getD, abs_le]
  obtain ⟨o, ho⟩ := spheregroup_returns (#[10, 10, 10] : Array ℝ) #[5, 5.05, 6] 0.1 none (by show 2 ≤ 3; omega) rfl hra
    (by norm_num) hdec
  obtain ⟨r1, r2, _⟩ := spheregroup_fof_grid _ _ _ _ o ho
    (fun i hi => lt_of_le_of_lt (hdec i hi) (by rw [ex_cs]; norm_num)) (by norm_num)
  refine ⟨o, ho, r1, ?_⟩
  refine (r2 0 1 (by show 0 < 3; omega) (by show 1 < 3; omega)).2
    (Conn.single (by show 0 < 3; omega) (by show 1 < 3; omega) (Or.inl ?_))
  rw [closeOf_iff]
  have := hsep 0 1 (by omega) (by omega)
  unfold sepDeg at this
  rw [this]
  norm_num [Array.getD, abs_le]

end

end PydlVerif.C05

/-
C05 property theorems: spheregroup / groups / friendsoffriends (Model/Fof.lean).
Helper lemmas live in Lemmas/Fof.lean, Lemmas/FofRen.lean, Lemmas/FofGroups.lean.
The theorems audited by harness/props/c05.py are listed there (THEOREMS).
-/
import PydlVerif.Lemmas.Fof
import PydlVerif.Lemmas.FofRen
import PydlVerif.Lemmas.FofGroups
import PydlVerif.Lemmas.FofConn
namespace PydlVerif.C05
open PydlVerif.Fof

/-- **lists_of_labels** (groups 459-471, friendsoffriends 334-344, spheregroup 551-563).
For ANY labelling `g` of `n` points with labels `< m` the arrays rebuilt by
`first[:] = -1; for i in n-1..0: next[i] = first[g[i]]; first[g[i]] = i` and the counting loop satisfy:
first[c] is the least member of class c (-1 if there is none), next[x] is the next member of x's class
(-1 for the last), following next from first[c] visits the members of c in increasing order exactly
once and reaches -1, mult[c] is the size of c for c < m, and beyond the last group first is -1 and
mult keeps its initial value (0 in friendsoffriends / spheregroup). -/
theorem lists_of_labels (g : Arr Nat) (n m : Nat) (nx : Arr (Option Nat)) (mult0 : Arr Nat) (reset : Bool)
    (hlab : ∀ x, x < n → g.get x < m) (h0 : reset = false → ∀ c, mult0.get c = 0) :
    (∀ c, match (link g n ⟨Arr.const none, nx⟩).first.get c with
          | none => ∀ x, x < n → g.get x ≠ c
          | some y => y < n ∧ g.get y = c ∧ ∀ x, x < y → g.get x ≠ c) ∧
    (∀ x, x < n → match (link g n ⟨Arr.const none, nx⟩).next.get x with
          | none => ∀ z, x < z → z < n → g.get z ≠ g.get x
          | some y => x < y ∧ y < n ∧ g.get y = g.get x ∧ ∀ z, x < z → z < y → g.get z ≠ g.get x) ∧
    (∀ c, walkEnds (link g n ⟨Arr.const none, nx⟩).next n ((link g n ⟨Arr.const none, nx⟩).first.get c) = true ∧
          walk (link g n ⟨Arr.const none, nx⟩).next n ((link g n ⟨Arr.const none, nx⟩).first.get c)
            = (List.range n).filter (fun x => g.get x = c)) ∧
    (∀ c, c < m → (countAll n (link g n ⟨Arr.const none, nx⟩) reset m mult0).get c
            = ((List.range n).filter (fun x => g.get x = c)).length) ∧
    (∀ c, m ≤ c → (link g n ⟨Arr.const none, nx⟩).first.get c = none ∧
          (countAll n (link g n ⟨Arr.const none, nx⟩) reset m mult0).get c = mult0.get c) := by
  have hL := isLists_rebuild g n nx
  refine ⟨?_, ?_, ?_, ?_, ?_⟩
  · intro c
    cases hc : (link g n ⟨Arr.const none, nx⟩).first.get c with
    | none => exact fun x hx => hL.first_none c hc x (Nat.zero_le _) hx
    | some y =>
      obtain ⟨_, b, c', d⟩ := hL.first_some c y hc
      exact ⟨b, c', fun x hx => d x (Nat.zero_le _) hx⟩
  · intro x hx
    cases hc : (link g n ⟨Arr.const none, nx⟩).next.get x with
    | none => exact hL.next_none x (Nat.zero_le _) hx hc
    | some y => exact hL.next_some x (Nat.zero_le _) hx y hc
  · intro c
    exact walk_first g n n _ hL (Nat.le_refl _) c
  · intro c hc
    rw [countAll_get, (walk_first g n n _ hL (Nat.le_refl _) c).2]
    cases reset with
    | true => simp [hc]
    | false => simp [hc, h0 rfl c]
  · intro c hc
    constructor
    · cases hf : (link g n ⟨Arr.const none, nx⟩).first.get c with
      | none => rfl
      | some y =>
        obtain ⟨_, b, c', _⟩ := hL.first_some c y hf
        have := hlab y b
        omega
    · rw [countAll_get]
      have : ¬ c < m := by omega
      simp [this]

/-- **renumber_first_appearance** (groups 445-455, spheregroup 538-547).
If first/next are the member lists of the labelling `g0`, the renumbering pass terminates, does not
change the partition, uses exactly the labels `0 … cnt-1`, and numbers the groups in order of their
first member (every label smaller than the label of `x` already occurs before `x`). -/
theorem renumber_first_appearance (g0 : Arr Nat) (n : Nat) (L : Lists) (hL : IsLists g0 0 n L) :
    (renumber n L g0).ok = true ∧
    (∀ x y, x < n → y < n → ((renumber n L g0).inG.get x = (renumber n L g0).inG.get y ↔ g0.get x = g0.get y)) ∧
    (∀ x, x < n → (renumber n L g0).inG.get x < (renumber n L g0).cnt) ∧
    (∀ c, c < (renumber n L g0).cnt → ∃ z, z < n ∧ (renumber n L g0).inG.get z = c) ∧
    (∀ x, x < n → ∀ c, c < (renumber n L g0).inG.get x → ∃ z, z < x ∧ (renumber n L g0).inG.get z = c) := by
  have h := renInv_all g0 n L hL n (Nat.le_refl _)
  have hd : ∀ x, x < n → (renumber n L g0).done.get x = true :=
    fun x hx => (h.done_iff x hx).2 ⟨x, hx, rfl⟩
  refine ⟨h.ok, ?_, ?_, ?_, ?_⟩
  · intro x y hx hy; exact h.part x y hx hy (hd x hx) (hd y hy)
  · intro x hx; exact h.lt_cnt x hx (hd x hx)
  · intro c hc
    obtain ⟨z, _, b, _, d⟩ := h.onto c hc
    exact ⟨z, b, d⟩
  · intro x hx c hc
    obtain ⟨z, a, _, d⟩ := h.rgs x hx (hd x hx) c hc
    exact ⟨z, a, d⟩

/-- **resolve_roots** (friendsoffriends 322-331), the second pass of the cross-chunk merge.
Under the design invariant `mapGroups[i] ≤ i`, after the pass a root (`mapGroups[i] = i`) carries the
number of roots below it, every other provisional label carries the same final number as the label it
points to (hence, by induction along `i > mapGroups[i] > …`, the number of its root), and `nGroups`
is the number of roots. -/
theorem resolve_roots (m : Arr Nat) (nMap : Nat) (hle : ∀ i, i < nMap → m.get i ≤ i) :
    (∀ i, i < nMap → m.get i = i → (resolve nMap m).1.get i = nroots m i) ∧
    (∀ i, i < nMap → m.get i ≠ i → (resolve nMap m).1.get i = (resolve nMap m).1.get (m.get i)) ∧
    (resolve nMap m).2 = nroots m nMap := by
  have h := resInv_all m nMap hle nMap (Nat.le_refl _)
  exact ⟨h.root, h.child, h.cnt⟩

/-- **groups_lists** (class groups, all of `__init__`), for every size and every REFLEXIVE
relation `close` (no symmetry needed).  Every `while` loop of the constructor terminates; the labels
stay `< nGroups ≤ i` during the main loop so that no index leaves the arrays; the final labelling
`inGroup` has the same partition as the labelling at the end of the main loop, uses exactly the labels
`0 … nGroups-1`, numbered in order of first member; firstGroup/nextGroup are exactly the sorted member
lists of `inGroup`, walking them enumerates each group once in increasing order, `multGroup[c]` is the
size of group `c` for `c < nGroups` and `firstGroup[c] = -1` beyond.
That the partition is the friends-of-friends partition is `groups_fof` below. -/
theorem groups_lists (n : Nat) (close : Nat → Nat → Bool) (hrefl : ∀ i, i < n → close i i = true) :
    (groupsRun n close).ok = true ∧
    (∀ x y, x < n → y < n → ((groupsRun n close).inG.get x = (groupsRun n close).inG.get y ↔
        (groupsLoop n close).inG.get x = (groupsLoop n close).inG.get y)) ∧
    (∀ x, x < n → (groupsRun n close).inG.get x < (groupsRun n close).nG) ∧
    (∀ c, c < (groupsRun n close).nG → ∃ z, z < n ∧ (groupsRun n close).inG.get z = c) ∧
    (∀ x, x < n → ∀ c, c < (groupsRun n close).inG.get x → ∃ z, z < x ∧ (groupsRun n close).inG.get z = c) ∧
    IsLists (groupsRun n close).inG 0 n (groupsRun n close).L ∧
    (∀ c, walk (groupsRun n close).L.next n ((groupsRun n close).L.first.get c)
            = (List.range n).filter (fun x => (groupsRun n close).inG.get x = c)) ∧
    (∀ c, c < (groupsRun n close).nG → (groupsRun n close).mult.get c
            = ((List.range n).filter (fun x => (groupsRun n close).inG.get x = c)).length) ∧
    (∀ c, (groupsRun n close).nG ≤ c → (groupsRun n close).L.first.get c = none) := by
  have h : GInv n (groupsLoop n close) := gInv_all n close hrefl n (Nat.le_refl _)
  obtain ⟨r1, r2, r3, r4, r5⟩ := renumber_first_appearance (groupsLoop n close).inG n (groupsLoop n close).L h.lists
  obtain ⟨_, _, l3, l4, l5⟩ := lists_of_labels (renumber n (groupsLoop n close).L (groupsLoop n close).inG).inG n
    (renumber n (groupsLoop n close).L (groupsLoop n close).inG).cnt (groupsLoop n close).L.next
    (groupsLoop n close).mult true r3 (fun e => by cases e)
  refine ⟨?_, r2, r3, r4, r5, isLists_rebuild _ _ _, fun c => (l3 c).2, l4, fun c hc => (l5 c hc).1⟩
  show ((groupsLoop n close).ok && (renumber n (groupsLoop n close).L (groupsLoop n close).inG).ok &&
    countOk n _ _) = true
  rw [h.ok, r1, countOk_of n _ _ (fun c => (l3 c).1)]
  rfl

/-- **groups_sound**: for every size and every reflexive symmetric `close`, two points with the same
final label are joined by a chain of close pairs. -/
theorem groups_sound (n : Nat) (close : Nat → Nat → Bool) (hrefl : ∀ i, i < n → close i i = true)
    (hsym : ∀ a b, a < n → b < n → close a b = close b a) (a b : Nat) (ha : a < n) (hb : b < n)
    (e : (groupsRun n close).inG.get a = (groupsRun n close).inG.get b) : Conn close n a b := by
  have h : GInv2 close n n (groupsLoop n close) := gInv2_all n close hrefl hsym n (Nat.le_refl _)
  exact h.sound a b ha hb (((groups_lists n close hrefl).2.1 a b ha hb).1 e)

/-- **groups_complete**: a close pair gets the same final label. -/
theorem groups_complete (n : Nat) (close : Nat → Nat → Bool) (hrefl : ∀ i, i < n → close i i = true)
    (hsym : ∀ a b, a < n → b < n → close a b = close b a) (a b : Nat) (ha : a < n) (hb : b < n)
    (hc : close a b = true) : (groupsRun n close).inG.get a = (groupsRun n close).inG.get b := by
  have h : GInv2 close n n (groupsLoop n close) := gInv2_all n close hrefl hsym n (Nat.le_refl _)
  exact ((groups_lists n close hrefl).2.1 a b ha hb).2 (h.compl a b ha hb hc)

/-- **groups_fof** (full strength): the labelling computed by `groups` IS the partition into connected
components of `close` (same label ⇔ joined by a chain), for all sizes and all reflexive symmetric
relations; with `groups_lists` (labels 0,1,2,… in order of first member, exact member lists and
multiplicities) this determines all four output arrays. -/
theorem groups_fof (n : Nat) (close : Nat → Nat → Bool) (hrefl : ∀ i, i < n → close i i = true)
    (hsym : ∀ a b, a < n → b < n → close a b = close b a) (a b : Nat) (ha : a < n) (hb : b < n) :
    (groupsRun n close).inG.get a = (groupsRun n close).inG.get b ↔ Conn close n a b := by
  constructor
  · exact groups_sound n close hrefl hsym a b ha hb
  · intro hconn
    induction hconn with
    | refl => rfl
    | tail _ hb' hc e ih =>
      rw [ih hb']
      rcases e with e | e
      · exact groups_complete n close hrefl hsym _ _ hb' hc e
      · exact (groups_complete n close hrefl hsym _ _ hc hb' e).symm

/-- **sphere_lists_partial** (spheregroup 535-564 on top of friendsoffriends 334-344), for every
size ≠ 1, every relation and every list of cells: the final `ingroup` has the same partition as the
labelling produced by the cross-chunk merge, is numbered 0,1,2,… in order of first member;
firstgroup/nextgroup are exactly its sorted member lists; multgroup[c] is the size of group c for
c below the merge's group count and 0 beyond.
PARTIAL with respect to `spheregroup_fof`: that the merged labelling is the friends-of-friends
partition under CoverFoF (merge_refines: union-find with path compression) is NOT proved. -/
theorem sphere_lists_partial (n : Nat) (close : Nat → Nat → Bool) (chunks : List (Array Nat)) (hn : n ≠ 1) :
    ∃ o, sphereRun n close chunks = .ok o ∧
    (∀ x y, x < n → y < n → (o.inG.get x = o.inG.get y ↔
        (friendsRun n close chunks).inG.get x = (friendsRun n close chunks).inG.get y)) ∧
    (∀ x, x < n → ∀ c, c < o.inG.get x → ∃ z, z < x ∧ o.inG.get z = c) ∧
    IsLists o.inG 0 n o.L ∧
    (∀ c, walk o.L.next n (o.L.first.get c) = (List.range n).filter (fun x => o.inG.get x = c)) ∧
    (∀ c, o.mult.get c = if c < (friendsRun n close chunks).nG
        then ((List.range n).filter (fun x => o.inG.get x = c)).length else 0) := by
  have hF : IsLists (friendsRun n close chunks).inG 0 n (friendsRun n close chunks).L := by
    simp only [friendsRun, freeze_eq]
    exact isLists_rebuild _ _ _
  obtain ⟨_, r2, _, _, r5⟩ := renumber_first_appearance _ n _ hF
  refine ⟨_, by simp only [sphereRun, hn, if_false]; rfl, r2, r5, isLists_rebuild _ _ _, ?_, ?_⟩
  · intro c
    exact (walk_first _ n n _ (isLists_rebuild _ _ _) (Nat.le_refl _) c).2
  · intro c
    show (countAll n _ false _ (Arr.const 0)).get c = _
    rw [countAll_get, (walk_first _ n n _ (isLists_rebuild _ _ _) (Nat.le_refl _) c).2]
    simp

/-
NOT PROVED (kept visible, see docs/C05.md):
  merge_refines   : after `mergeAll` the relation `resolve(mapG)[inG p] = resolve(mapG)[inG q]` is the finest
                    equivalence containing every per-cell partition (invariant mapG[c] ≤ c, roots are fixed
                    points, path compression preserves roots) - only its second pass is proved (`resolve_roots`).
  spheregroup_fof : CoverFoF (every point in ≥ 1 cell, every close pair shares a cell) ⇒ the labelling of
                    `sphereRun` = components of `close`.  Follows from groups_fof + merge_refines +
                    sphere_lists_partial; open because merge_refines is.
-/

/-! non-vacuity: concrete inputs meeting the hypotheses -/

/-- labels 0,1,0,2,1 (first-appearance order): the hypotheses of `lists_of_labels` hold with m = 3 -/
example : ∀ x, x < 5 → (⟨fun i => [0, 1, 0, 2, 1].getD i 0⟩ : Arr Nat).get x < 3 := by decide

/-- and the rebuilt lists of that labelling satisfy the hypothesis of `renumber_first_appearance` -/
example : IsLists ⟨fun i => [7, 3, 7, 2, 3].getD i 0⟩ 0 5
    (link ⟨fun i => [7, 3, 7, 2, 3].getD i 0⟩ 5 ⟨Arr.const none, Arr.const none⟩) :=
  isLists_rebuild _ _ _

/-- a `mapGroups` table with the invariant: 0,1 roots, 2→0, 3→2, 4 root -/
example : ∀ i, i < 5 → (⟨fun i => [0, 1, 0, 2, 4].getD i 0⟩ : Arr Nat).get i ≤ i := by decide

/-- a reflexive symmetric relation on 4 points for `groups_lists` / `groups_fof` (edges 0-2, 1-3) -/
example : (∀ i, i < 4 → (fun a b => a == b || (a + 2 == b) || (b + 2 == a)) i i = true) ∧
    (∀ a b, a < 4 → b < 4 → (fun a b => a == b || (a + 2 == b) || (b + 2 == a)) a b =
      (fun a b => a == b || (a + 2 == b) || (b + 2 == a)) b a) :=
  ⟨by decide, fun a b ha hb => (by decide : ∀ a, a < 4 → ∀ b, b < 4 →
    (fun a b => a == b || (a + 2 == b) || (b + 2 == a)) a b =
      (fun a b => a == b || (a + 2 == b) || (b + 2 == a)) b a) a ha b hb⟩

/-- on that relation 0 and 2 are joined, and the model puts them in one group -/
example : Conn (fun a b => a == b || (a + 2 == b) || (b + 2 == a)) 4 0 2 :=
  Conn.single (by decide) (by decide) (Or.inl (by decide))

end PydlVerif.C05

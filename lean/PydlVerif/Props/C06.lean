/-
C06 property theorems: objID / specObjID packing is a bijection with the
documented bit layout; out-of-range fields are refused with ValueError.
Helper lemmas first, property theorems (listed in harness/props/c06.py) after.
-/
import PydlVerif.Model.Ids
import Std.Data.String.ToNat
namespace PydlVerif.C06
open PydlVerif.Ids

/-! ## helpers -/

theorem or_shift (a b i : Nat) (h : b < 2 ^ i) : a <<< i ||| b = a * 2 ^ i + b := by
  rw [← Nat.shiftLeft_add_eq_or_of_lt h, Nat.shiftLeft_eq]

theorem and_mask (v w : Nat) : v &&& (2^w - 1) = v % 2^w := Nat.and_two_pow_sub_one_eq_mod v w

theorem inR_iff (x lo hi : Int) : inR x lo hi = true ↔ lo ≤ x ∧ x < hi := by
  simp [inR]

theorem pack7 (a b c d e f g : Nat) (e7 : g < 2^16) (e6 : f < 2^12) (e5 : e < 2) (e4 : d < 8)
    (e3 : c < 2^16) (e2 : b < 2^11) :
    (a <<< 59) ||| (b <<< 48) ||| (c <<< 32) ||| (d <<< 29) ||| (e <<< 28) ||| (f <<< 16) ||| g
      = a * 2^59 + b * 2^48 + c * 2^32 + d * 2^29 + e * 2^28 + f * 2^16 + g := by
  simp only [Nat.or_assoc]
  rw [or_shift f g 16 e7]
  rw [or_shift e (f * 2^16 + g) 28 (by omega)]
  rw [or_shift d (e * 2^28 + (f * 2^16 + g)) 29 (by omega)]
  rw [or_shift c (d * 2^29 + (e * 2^28 + (f * 2^16 + g))) 32 (by omega)]
  rw [or_shift b (c * 2^32 + (d * 2^29 + (e * 2^28 + (f * 2^16 + g)))) 48 (by omega)]
  rw [or_shift a (b * 2^48 + (c * 2^32 + (d * 2^29 + (e * 2^28 + (f * 2^16 + g))))) 59 (by omega)]
  omega

theorem pack5 (a b c d e : Nat) (e5 : e < 2^10) (e4 : d < 2^14) (e3 : c < 2^14) (e2 : b < 2^12) :
    (a <<< 50) ||| (b <<< 38) ||| (c <<< 24) ||| (d <<< 10) ||| e
      = a * 2^50 + b * 2^38 + c * 2^24 + d * 2^10 + e := by
  simp only [Nat.or_assoc]
  rw [or_shift d e 10 e5]
  rw [or_shift c (d * 2^10 + e) 24 (by omega)]
  rw [or_shift b (c * 2^24 + (d * 2^10 + e)) 38 (by omega)]
  rw [or_shift a (b * 2^38 + (c * 2^24 + (d * 2^10 + e))) 50 (by omega)]
  omega

/-- the documented objID layout as a number -/
def objLayout (f : ObjF) : Nat :=
  f.sv.toNat * 2^59 + f.rerun.toNat * 2^48 + f.run.toNat * 2^32 +
    f.camcol.toNat * 2^29 + f.ff.toNat * 2^28 + f.field.toNat * 2^16 + f.obj.toNat

/-- the documented specObjID layout as a number (MJD stored minus 50000) -/
def specLayout (f : SpecF) : Nat :=
  f.plate.toNat * 2^50 + f.fiber.toNat * 2^38 + (f.mjd - 50000).toNat * 2^24 +
    f.run2d.toNat * 2^10 + f.line.toNat

theorem ObjF.ok_iff (f : ObjF) : f.ok = true ↔
    (0 ≤ f.ff ∧ f.ff < 2) ∧ (0 ≤ f.sv ∧ f.sv < 16) ∧ (0 ≤ f.rerun ∧ f.rerun < 2^11) ∧
    (0 ≤ f.run ∧ f.run < 2^16) ∧ (1 ≤ f.camcol ∧ f.camcol < 7) ∧ (0 ≤ f.field ∧ f.field < 2^12) ∧
    (0 ≤ f.obj ∧ f.obj < 2^16) := by
  simp only [ObjF.ok, Bool.and_eq_true, inR_iff]; omega

theorem SpecF.ok_iff (f : SpecF) : f.ok = true ↔
    (0 ≤ f.plate ∧ f.plate < 2^14) ∧ (0 ≤ f.fiber ∧ f.fiber < 2^12) ∧
    (50000 ≤ f.mjd ∧ f.mjd < 50000 + 2^14) ∧ (0 ≤ f.run2d ∧ f.run2d < 2^14) ∧
    (0 ≤ f.line ∧ f.line < 2^10) := by
  simp only [SpecF.ok, Bool.and_eq_true, inR_iff]; omega

/-! ## property theorems -/

/-- objID: in-range fields are packed into the documented layout, bit 63 stays clear -/
theorem objid_layout (f : ObjF) (h : f.ok = true) :
    packObjid f = .ok (objLayout f) ∧ objLayout f < 2^63 := by
  have h' := (ObjF.ok_iff f).1 h
  obtain ⟨h1, h2, h3, h4, h5, h6, h7⟩ := h'
  constructor
  · simp only [packObjid, h, if_true, packObjidRaw, pure, Except.pure, objLayout]
    rw [pack7 _ _ _ _ _ _ _ (by omega) (by omega) (by omega) (by omega) (by omega) (by omega)]
  · simp only [objLayout]; omega

/-- objID: unpacking what was packed returns exactly the fields -/
theorem objid_unpack_pack (f : ObjF) (v : Nat) (h : packObjid f = .ok v) : unpackObjid v = f := by
  by_cases hok : f.ok = true
  · have hl := (objid_layout f hok).1
    rw [hl] at h
    injection h with h
    subst h
    obtain ⟨h1, h2, h3, h4, h5, h6, h7⟩ := (ObjF.ok_iff f).1 hok
    cases f with
    | mk sv rerun run camcol ff field obj =>
      simp only [unpackObjid, objLayout, and_mask] at *
      congr 1 <;> omega
  · simp [packObjid, hok, valueError] at h

/-- objID: every 64-bit value with bit 63 clear and camcol bits in 1..6 is the ID of its own fields -/
theorem objid_pack_unpack (v : Nat) (h63 : v < 2^63) (hc : 1 ≤ v / 2^29 % 8 ∧ v / 2^29 % 8 ≤ 6) :
    packObjid (unpackObjid v) = .ok v := by
  have hok : (unpackObjid v).ok = true := by
    rw [ObjF.ok_iff]; simp only [unpackObjid, and_mask]; omega
  rw [(objid_layout _ hok).1]
  apply congrArg Except.ok
  simp only [objLayout, unpackObjid, and_mask, Int.toNat_natCast]
  omega

/-- objID: a field outside its documented range is refused (never wrapped into other bits) -/
theorem objid_rejects (f : ObjF)
    (h : f.ff < 0 ∨ 2 ≤ f.ff ∨ f.sv < 0 ∨ 16 ≤ f.sv ∨ f.rerun < 0 ∨ 2^11 ≤ f.rerun ∨ f.run < 0 ∨
      2^16 ≤ f.run ∨ f.camcol < 1 ∨ 7 ≤ f.camcol ∨ f.field < 0 ∨ 2^12 ≤ f.field ∨ f.obj < 0 ∨
      2^16 ≤ f.obj) : packObjid f = .error "ValueError" := by
  have : ¬ f.ok = true := by rw [ObjF.ok_iff]; omega
  simp [packObjid, this, valueError]

/-- objID: the array call is the scalar call element by element -/
theorem objids_is_map (fs : List ObjF) : packObjids fs = fs.mapM packObjid := by
  induction fs with
  | nil => rfl
  | cons f fs ih =>
    rw [List.mapM_cons, ← ih]
    by_cases hok : f.ok = true
    · have hok' := hok
      simp only [ObjF.ok, Bool.and_eq_true] at hok'
      obtain ⟨⟨⟨⟨⟨⟨h1, h2⟩, h3⟩, h4⟩, h5⟩, h6⟩, h7⟩ := hok'
      simp only [packObjid, hok, if_true, packObjids, List.any_cons, h1, h2, h3, h4, h5, h6, h7,
        Bool.not_true, Bool.false_or, List.map_cons, bind, Except.bind, pure, Except.pure]
      repeat' split
      all_goals first | rfl | simp_all [valueError]
    · have hne : f.ok = false := by simpa using hok
      have hne' := hne
      simp only [ObjF.ok, Bool.and_eq_false_iff] at hne'
      simp only [packObjid, hne, Bool.false_eq_true, if_false, valueError, bind, Except.bind,
        packObjids, List.any_cons]
      rcases hne' with ((((((h | h) | h) | h) | h) | h) | h) <;> simp [h] <;>
        (repeat' split) <;> first | rfl | simp_all

/-- specObjID: in-range fields (true MJD) are packed into the documented layout -/
theorem spec_layout (f : SpecF) (h : f.ok = true) :
    packSpec f = .ok (specLayout f) ∧ specLayout f < 2^64 := by
  obtain ⟨h1, h2, h3, h4, h5⟩ := (SpecF.ok_iff f).1 h
  constructor
  · simp only [packSpec, h, if_true, packSpecRaw, pure, Except.pure, specLayout]
    rw [pack5 _ _ _ _ _ (by omega) (by omega) (by omega) (by omega)]
  · simp only [specLayout]; omega

theorem spec_unpack_pack (f : SpecF) (v : Nat) (h : packSpec f = .ok v) : unpackSpec v = f := by
  by_cases hok : f.ok = true
  · rw [(spec_layout f hok).1] at h
    injection h with h
    subst h
    obtain ⟨h1, h2, h3, h4, h5⟩ := (SpecF.ok_iff f).1 hok
    cases f with
    | mk plate fiber mjd run2d line =>
      simp only [unpackSpec, specLayout, and_mask] at *
      congr 1 <;> omega
  · simp [packSpec, hok, valueError] at h

/-- specObjID: every 64-bit value is the ID of its own fields (the layout uses all 64 bits) -/
theorem spec_pack_unpack (v : Nat) (h : v < 2^64) : packSpec (unpackSpec v) = .ok v := by
  have hok : (unpackSpec v).ok = true := by
    rw [SpecF.ok_iff]; simp only [unpackSpec, and_mask]; omega
  rw [(spec_layout _ hok).1]
  apply congrArg Except.ok
  simp only [specLayout, unpackSpec, and_mask]
  omega

theorem spec_rejects (f : SpecF)
    (h : f.plate < 0 ∨ 2^14 ≤ f.plate ∨ f.fiber < 0 ∨ 2^12 ≤ f.fiber ∨ f.mjd < 50000 ∨
      50000 + 2^14 ≤ f.mjd ∨ f.run2d < 0 ∨ 2^14 ≤ f.run2d ∨ f.line < 0 ∨ 2^10 ≤ f.line) :
    packSpec f = .error "ValueError" := by
  have : ¬ f.ok = true := by rw [SpecF.ok_iff]; omega
  simp [packSpec, this, valueError]

/-- line and index together are refused whatever the other fields are -/
theorem spec_line_and_index (a b c d l i : Int) :
    packSpecLI a b c d (some l) (some i) = .error "ValueError" := rfl

/-- 'vN_M_P' numbers: the documented formula, inverted exactly by the unpacker's rebuild -/
theorem run2d_nmp_roundtrip (n m p r : Nat) (h : run2dOfNMP n m p = .ok r) :
    nmpOfRun2d r = (n, m, p) ∧ r = (n - 5) * 10000 + m * 100 + p := by
  simp only [run2dOfNMP] at h
  split at h
  · rename_i hc
    simp only [Bool.and_eq_true, decide_eq_true_eq] at hc
    injection h with h
    subst h
    simp only [nmpOfRun2d]
    refine ⟨?_, trivial⟩
    congr 1
    · omega
    · congr 1 <;> omega
  · simp [valueError] at h

/-- out-of-range N, M or P is refused, so two different strings never share an ID -/
theorem run2d_nmp_rejects (n m p : Nat) (h : n < 5 ∨ 6 < n ∨ 99 < m ∨ 99 < p) :
    run2dOfNMP n m p = .error "ValueError" := by
  simp only [run2dOfNMP]
  split
  · rename_i hc
    simp only [Bool.and_eq_true, decide_eq_true_eq] at hc
    omega
  · rfl

theorem run2d_nmp_injective (n m p n' m' p' r : Nat) (h : run2dOfNMP n m p = .ok r)
    (h' : run2dOfNMP n' m' p' = .ok r) : (n, m, p) = (n', m', p') := by
  rw [← (run2d_nmp_roundtrip _ _ _ _ h).1, ← (run2d_nmp_roundtrip _ _ _ _ h').1]

/-! ### text level -/


theorem span_digits (l r : List Char) (hl : ∀ c ∈ l, c.isDigit = true)
    (hr : ∀ c, r.head? = some c → c.isDigit = false) : spanDigits (l ++ r) = (l, r) := by
  unfold spanDigits
  have h1 : ∀ c ∈ l, isDigit c = true := hl
  rw [List.takeWhile_append_of_pos h1, List.dropWhile_append_of_pos h1]
  cases r with
  | nil => simp
  | cons c r =>
    have : isDigit c = false := hr c rfl
    simp [this]

theorem fmt_toList (r : Nat) : (fmtRun2d r).toList =
    'v' :: (Nat.toDigits 10 (r / 10000 + 5) ++ '_' :: (Nat.toDigits 10 (r % 10000 / 100) ++ '_' :: Nat.toDigits 10 (r % 100))) := by
  simp [fmtRun2d, nmpOfRun2d, toString, Nat.toList_repr]

theorem digits_all (n : Nat) : ∀ c ∈ Nat.toDigits 10 n, c.isDigit = true :=
  fun _ hc => Nat.isDigit_of_mem_toDigits (by decide) (by decide) hc

/-- text level: the 'vN_M_P' string rebuilt by the unpacker parses back to the same run2d number -/
theorem parse_fmt_run2d (r : Nat) (h : r < 20000) : parseRun2d (fmtRun2d r) = .ok r := by
  unfold parseRun2d
  rw [fmt_toList]
  have hv : isDigit 'v' = false := by decide
  simp only [List.isEmpty_cons, Bool.not_false, List.all_cons, hv, Bool.false_and, Bool.true_and]
  have hu : ∀ c, ('_' :: (Nat.toDigits 10 (r % 10000 / 100) ++ '_' :: Nat.toDigits 10 (r % 100))).head? = some c → c.isDigit = false := by
    intro c hc; simp at hc; subst hc; decide
  have hu2 : ∀ c, ('_' :: Nat.toDigits 10 (r % 100)).head? = some c → c.isDigit = false := by
    intro c hc; simp at hc; subst hc; decide
  have hn : ∀ c, ([] : List Char).head? = some c → c.isDigit = false := by intro c hc; simp at hc
  have s3 := span_digits (Nat.toDigits 10 (r % 100)) [] (digits_all _) hn
  simp only [List.append_nil] at s3
  simp only [matchVNMP, span_digits _ _ (digits_all _) hu, span_digits _ _ (digits_all _) hu2, s3,
    List.isEmpty_iff, Nat.toDigits_ne_nil, if_false, digitsVal, Nat.ofDigitChars_ten_toDigits, Bool.false_eq_true]
  simp only [run2dOfNMP]
  rw [if_pos (by simp only [Bool.and_eq_true, decide_eq_true_eq]; omega)]
  simp only [pure, Except.pure]
  congr 1; omega

/-- text level: the integer form of run2d given as a decimal string -/
theorem parse_digits_run2d (r : Nat) : parseRun2d (toString r) = .ok r := by
  unfold parseRun2d
  have e : (toString r).toList = Nat.toDigits 10 r := by simp [toString, Nat.toList_repr]
  rw [e]
  have h1 : (Nat.toDigits 10 r).isEmpty = false := by simp [List.isEmpty_iff, Nat.toDigits_ne_nil]
  have h2 : (Nat.toDigits 10 r).all isDigit = true := by
    rw [List.all_eq_true]; exact digits_all r
  simp [h1, h2, digitsVal, pure, Except.pure]

/-- IDs given as decimal strings denote the same number -/
theorem dec_string_id (v : Nat) : (toString v).toNat? = some v := by
  simpa [toString] using Nat.toNat?_repr v

/-! ### the model functions are the table-driven ones (tables are re-extracted from the source each run) -/

theorem packObjidRaw_table (f : ObjF) : packObjidRaw f = packByTable objShiftTable f.vals := by
  simp [packObjidRaw, packByTable, objShiftTable, ObjF.vals, val, List.lookup]

theorem objOk_table (f : ObjF) : f.ok = okByTable objRangeTable f.vals := by
  simp [ObjF.ok, okByTable, objRangeTable, ObjF.vals, val, List.lookup, Bool.and_assoc]

theorem unpackObjid_table (v : Nat) :
    unpackByTable objUnpackTable v = [("skyversion", (unpackObjid v).sv), ("rerun", (unpackObjid v).rerun),
      ("run", (unpackObjid v).run), ("camcol", (unpackObjid v).camcol), ("firstfield", (unpackObjid v).ff),
      ("frame", (unpackObjid v).field), ("id", (unpackObjid v).obj)] := by
  simp [unpackByTable, objUnpackTable, unpackObjid]

theorem packSpecRaw_table (f : SpecF) :
    packSpecRaw f = packByTable specShiftTable (specVals f.plate f.fiber f.mjd f.run2d f.line 0) ∧
    packSpecRaw f = packByTable specShiftTable (specVals f.plate f.fiber f.mjd f.run2d 0 f.line) := by
  constructor <;>
    simp [packSpecRaw, packByTable, specShiftTable, specVals, val, List.lookup, mjdOffset, Nat.or_assoc]

theorem specOk_table (f : SpecF) :
    f.ok = okByTable specRangeTable (specVals f.plate f.fiber f.mjd f.run2d f.line 0) ∧
    f.ok = okByTable specRangeTable (specVals f.plate f.fiber f.mjd f.run2d 0 f.line) := by
  constructor <;>
    simp [SpecF.ok, okByTable, specRangeTable, specVals, val, List.lookup, mjdOffset, Bool.and_assoc, inR]

theorem unpackSpec_table (v : Nat) :
    unpackByTable specUnpackTable v = [("plate", (unpackSpec v).plate), ("fiber", (unpackSpec v).fiber),
      ("mjd", (unpackSpec v).mjd), ("run2d", (unpackSpec v).run2d), ("line", (unpackSpec v).line)] := by
  simp [unpackByTable, specUnpackTable, unpackSpec]

/-! non-vacuity: the documentation's own examples meet the hypotheses -/
example : (ObjF.mk 2 301 3704 3 0 91 146).ok = true := by decide
example : packObjid (ObjF.mk 2 301 3704 3 0 91 146) = .ok 1237661382772195474 := by decide
example : packSpec (SpecF.mk 4055 408 55359 700 0) = .ok 4565636362342690816 := by decide
example : parseRun2d "v5_7_0" = .ok 700 := by decide
example : run2dOfNMP 5 7 0 = .ok 700 := by decide

end PydlVerif.C06

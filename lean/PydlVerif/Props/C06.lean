/-
C06 property theorems: objID / specObjID packing is a bijection with the
documented bit layout; out-of-range fields are refused with ValueError.
Helper lemmas first, property theorems (listed in harness/props/c06.py) after.
-/
import PydlVerif.Model.Ids
import Std.Data.String.ToNat
namespace PydlVerif.C06
open PydlVerif.Ids

/-! ## helpers -/

theorem or_shift (a b i : Nat) (h : b < 2 ^ i) : a <<< i ||| b = a * 2 ^ i + b := by
  rw [← Nat.shiftLeft_add_eq_or_of_lt h, Nat.shiftLeft_eq]

theorem and_mask (v w : Nat) : v &&& (2^w - 1) = v % 2^w := Nat.and_two_pow_sub_one_eq_mod v w

theorem inR_iff (x lo hi : Int) : inR x lo hi = true ↔ lo ≤ x ∧ x < hi := by
  simp [inR]

theorem pack7 (a b c d e f g : Nat) (e7 : g < 2^16) (e6 : f < 2^12) (e5 : e < 2) (e4 : d < 8)
    (e3 : c < 2^16) (e2 : b < 2^11) :
    (a <<< 59) ||| (b <<< 48) ||| (c <<< 32) ||| (d <<< 29) ||| (e <<< 28) ||| (f <<< 16) ||| g
      = a * 2^59 + b * 2^48 + c * 2^32 + d * 2^29 + e * 2^28 + f * 2^16 + g := by
  simp only [Nat.or_assoc]
  rw [or_shift f g 16 e7]
  rw [or_shift e (f * 2^16 + g) 28 (by omega)]
  rw [or_shift d (e * 2^28 + (f * 2^16 + g)) 29 (by omega)]
  rw [or_shift c (d * 2^29 + (e * 2^28 + (f * 2^16 + g))) 32 (by omega)]
  rw [or_shift b (c * 2^32 + (d * 2^29 + (e * 2^28 + (f * 2^16 + g)))) 48 (by omega)]
  rw [or_shift a (b * 2^48 + (c * 2^32 + (d * 2^29 + (e * 2^28 + (f * 2^16 + g))))) 59 (by omega)]
  omega

theorem pack5 (a b c d e : Nat) (e5 : e < 2^10) (e4 : d < 2^14) (e3 : c < 2^14) (e2 : b < 2^12) :
    (a <<< 50) ||| (b <<< 38) ||| (c <<< 24) ||| (d <<< 10) ||| e
      = a * 2^50 + b * 2^38 + c * 2^24 + d * 2^10 + e := by
  simp only [Nat.or_assoc]
  rw [or_shift d e 10 e5]
  rw [or_shift c (d * 2^10 + e) 24 (by omega)]
  rw [or_shift b (c * 2^24 + (d * 2^10 + e)) 38 (by omega)]
  rw [or_shift a (b * 2^38 + (c * 2^24 + (d * 2^10 + e))) 50 (by omega)]
  omega

/-- the documented objID layout as a number -/
def objLayout (f : ObjF) : Nat :=
  f.sv.toNat * 2^59 + f.rerun.toNat * 2^48 + f.run.toNat * 2^32 +
    f.camcol.toNat * 2^29 + f.ff.toNat * 2^28 + f.field.toNat * 2^16 + f.obj.toNat

/-- the documented specObjID layout as a number (MJD stored minus 50000) -/
def specLayout (f : SpecF) : Nat :=
  f.plate.toNat * 2^50 + f.fiber.toNat * 2^38 + (f.mjd - 50000).toNat * 2^24 +
    f.run2d.toNat * 2^10 + f.line.toNat

theorem ObjF.ok_iff (f : ObjF) : f.ok = true ↔
    (0 ≤ f.ff ∧ f.ff < 2) ∧ (0 ≤ f.sv ∧ f.sv < 16) ∧ (0 ≤ f.rerun ∧ f.rerun < 2^11) ∧
    (0 ≤ f.run ∧ f.run < 2^16) ∧ (1 ≤ f.camcol ∧ f.camcol < 7) ∧ (0 ≤ f.field ∧ f.field < 2^12) ∧
    (0 ≤ f.obj ∧ f.obj < 2^16) := by
  simp only [ObjF.ok, Bool.and_eq_true, inR_iff]; omega

theorem SpecF.ok_iff (f : SpecF) : f.ok = true ↔
    (0 ≤ f.plate ∧ f.plate < 2^14) ∧ (0 ≤ f.fiber ∧ f.fiber < 2^12) ∧
    (50000 ≤ f.mjd ∧ f.mjd < 50000 + 2^14) ∧ (0 ≤ f.run2d ∧ f.run2d < 2^14) ∧
    (0 ≤ f.line ∧ f.line < 2^10) := by
  simp only [SpecF.ok, Bool.and_eq_true, inR_iff]; omega

/-! ## property theorems -/

/-- objID: in-range fields are packed into the documented layout, bit 63 stays clear -/
theorem objid_layout (f : ObjF) (h : f.ok = true) :
    packObjid f = .ok (objLayout f) ∧ objLayout f < 2^63 := by
  have h' := (ObjF.ok_iff f).1 h
  obtain ⟨h1, h2, h3, h4, h5, h6, h7⟩ := h'
  constructor
  · simp only [packObjid, h, if_true, packObjidRaw, pure, Except.pure, objLayout]
    rw [pack7 _ _ _ _ _ _ _ (by omega) (by omega) (by omega) (by omega) (by omega) (by omega)]
  · simp only [objLayout]; omega

/-- objID: unpacking what was packed returns exactly the fields -/
theorem objid_unpack_pack (f : ObjF) (v : Nat) (h : packObjid f = .ok v) : unpackObjid v = f := by
  by_cases hok : f.ok = true
  · have hl := (objid_layout f hok).1
    rw [hl] at h
    injection h with h
    subst h
    obtain ⟨h1, h2, h3, h4, h5, h6, h7⟩ := (ObjF.ok_iff f).1 hok
    cases f with
    | mk sv rerun run camcol ff field obj =>
      simp only [unpackObjid, objLayout, and_mask] at *
      congr 1 <;> omega
  · simp [packObjid, hok, valueError] at h

/-- objID: every 64-bit value with bit 63 clear and camcol bits in 1..6 is the ID of its own fields -/
theorem objid_pack_unpack (v : Nat) (h63 : v < 2^63) (hc : 1 ≤ v / 2^29 % 8 ∧ v / 2^29 % 8 ≤ 6) :
    packObjid (unpackObjid v) = .ok v := by
  have hok : (unpackObjid v).ok = true := by
    rw [ObjF.ok_iff]; simp only [unpackObjid, and_mask]; omega
  rw [(objid_layout _ hok).1]
  apply congrArg Except.ok
  simp only [objLayout, unpackObjid, and_mask, Int.toNat_natCast]
  omega

/-- objID: a field outside its documented range is refused (never wrapped into other bits) -/
theorem objid_rejects (f : ObjF)
    (h : f.ff < 0 ∨ 2 ≤ f.ff ∨ f.sv < 0 ∨ 16 ≤ f.sv ∨ f.rerun < 0 ∨ 2^11 ≤ f.rerun ∨ f.run < 0 ∨
      2^16 ≤ f.run ∨ f.camcol < 1 ∨ 7 ≤ f.camcol ∨ f.field < 0 ∨ 2^12 ≤ f.field ∨ f.obj < 0 ∨
      2^16 ≤ f.obj) : packObjid f = .error "ValueError" := by
  have : ¬ f.ok = true := by rw [ObjF.ok_iff]; omega
  simp [packObjid, this, valueError]

/-- objID: the array call is the scalar call element by element -/
theorem objids_is_map (fs : List ObjF) : packObjids fs = fs.mapM packObjid := by
  induction fs with
  | nil => rfl
  | cons f fs ih =>
    rw [List.mapM_cons, ← ih]
    by_cases hok : f.ok = true
    · have hok' := hok
      simp only [ObjF.ok, Bool.and_eq_true] at hok'
      obtain ⟨⟨⟨⟨⟨⟨h1, h2⟩, h3⟩, h4⟩, h5⟩, h6⟩, h7⟩ := hok'
      simp only [packObjid, hok, if_true, packObjids, List.any_cons, h1, h2, h3, h4, h5, h6, h7,
        Bool.not_true, Bool.false_or, List.map_cons, bind, Except.bind, pure, Except.pure]
      repeat' split
      all_goals first | rfl | simp_all [valueError]
    · have hne : f.ok = false := by simpa using hok
      have hne' := hne
      simp only [ObjF.ok, Bool.and_eq_false_iff] at hne'
      simp only [packObjid, hne, Bool.false_eq_true, if_false, valueError, bind, Except.bind,
        packObjids, List.any_cons]
      rcases hne' with ((((((h | h) | h) | h) | h) | h) | h) <;> simp [h] <;>
        (repeat' split) <;> first | rfl | simp_all

/-- specObjID: in-range fields (true MJD) are packed into the documented layout -/
theorem spec_layout (f : SpecF) (h : f.ok = true) :
    packSpec f = .ok (specLayout f) ∧ specLayout f < 2^64 := by
  obtain ⟨h1, h2, h3, h4, h5⟩ := (SpecF.ok_iff f).1 h
  constructor
  · simp only [packSpec, h, if_true, packSpecRaw, pure, Except.pure, specLayout]
    rw [pack5 _ _ _ _ _ (by omega) (by omega) (by omega) (by omega)]
  · simp only [specLayout]; omega

theorem spec_unpack_pack (f : SpecF) (v : Nat) (h : packSpec f = .ok v) : unpackSpec v = f := by
  by_cases hok : f.ok = true
  · rw [(spec_layout f hok).1] at h
    injection h with h
    subst h
    obtain ⟨h1, h2, h3, h4, h5⟩ := (SpecF.ok_iff f).1 hok
    cases f with
    | mk plate fiber mjd run2d line =>
      simp only [unpackSpec, specLayout, and_mask] at *
      congr 1 <;> omega
  · simp [packSpec, hok, valueError] at h

/-- specObjID: every 64-bit value is the ID of its own fields (the layout uses all 64 bits) -/
theorem spec_pack_unpack (v : Nat) (h : v < 2^64) : packSpec (unpackSpec v) = .ok v := by
  have hok : (unpackSpec v).ok = true := by
    rw [SpecF.ok_iff]; simp only [unpackSpec, and_mask]; omega
  rw [(spec_layout _ hok).1]
  apply congrArg Except.ok
  simp only [specLayout, unpackSpec, and_mask]
  omega

theorem spec_rejects (f : SpecF)
    (h : f.plate < 0 ∨ 2^14 ≤ f.plate ∨ f.fiber < 0 ∨ 2^12 ≤ f.fiber ∨ f.mjd < 50000 ∨
      50000 + 2^14 ≤ f.mjd ∨ f.run2d < 0 ∨ 2^14 ≤ f.run2d ∨ f.line < 0 ∨ 2^10 ≤ f.line) :
    packSpec f = .error "ValueError" := by
  have : ¬ f.ok = true := by rw [SpecF.ok_iff]; omega
  simp [packSpec, this, valueError]

/-- line and index together are refused whatever the other fields are -/
theorem spec_line_and_index (a b c d l i : Int) :
    packSpecLI a b c d (some l) (some i) = .error "ValueError" := rfl

/-- 'vN_M_P' numbers: the documented formula, inverted exactly by the unpacker's rebuild -/
theorem run2d_nmp_roundtrip (n m p r : Nat) (h : run2dOfNMP n m p = .ok r) :
    nmpOfRun2d r = (n, m, p) ∧ r = (n - 5) * 10000 + m * 100 + p := by
  simp only [run2dOfNMP] at h
  split at h
  · rename_i hc
    simp only [Bool.and_eq_true, decide_eq_true_eq] at hc
    injection h with h
    subst h
    simp only [nmpOfRun2d]
    refine ⟨?_, trivial⟩
    congr 1
    · omega
    · congr 1 <;> omega
  · simp [valueError] at h

/-- out-of-range N, M or P is refused, so two different strings never share an ID -/
theorem run2d_nmp_rejects (n m p : Nat) (h : n < 5 ∨ 6 < n ∨ 99 < m ∨ 99 < p) :
    run2dOfNMP n m p = .error "ValueError" := by
  simp only [run2dOfNMP]
  split
  · rename_i hc
    simp only [Bool.and_eq_true, decide_eq_true_eq] at hc
    omega
  · rfl

theorem run2d_nmp_injective (n m p n' m' p' r : Nat) (h : run2dOfNMP n m p = .ok r)
    (h' : run2dOfNMP n' m' p' = .ok r) : (n, m, p) = (n', m', p') := by
  rw [← (run2d_nmp_roundtrip _ _ _ _ h).1, ← (run2d_nmp_roundtrip _ _ _ _ h').1]

/-! ### text level -/


theorem span_digits (l r : List Char) (hl : ∀ c ∈ l, c.isDigit = true)
    (hr : ∀ c, r.head? = some c → c.isDigit = false) : spanDigits (l ++ r) = (l, r) := by
  unfold spanDigits
  have h1 : ∀ c ∈ l, isDigit c = true := hl
  rw [List.takeWhile_append_of_pos h1, List.dropWhile_append_of_pos h1]
  cases r with
  | nil => simp
  | cons c r =>
    have : isDigit c = false := hr c rfl
    simp [this]

theorem fmt_toList (r : Nat) : (fmtRun2d r).toList =
    'v' :: (Nat.toDigits 10 (r / 10000 + 5) ++ '_' :: (Nat.toDigits 10 (r % 10000 / 100) ++ '_' :: Nat.toDigits 10 (r % 100))) := by
  simp [fmtRun2d, nmpOfRun2d, toString, Nat.toList_repr]

theorem digits_all (n : Nat) : ∀ c ∈ Nat.toDigits 10 n, c.isDigit = true :=
  fun _ hc => Nat.isDigit_of_mem_toDigits (by decide) (by decide) hc

/-- text level: the 'vN_M_P' string rebuilt by the unpacker parses back to the same run2d number -/
theorem parse_fmt_run2d (r : Nat) (h : r < 20000) : parseRun2d (fmtRun2d r) = .ok r := by
  unfold parseRun2d
  rw [fmt_toList]
  have hv : isDigit 'v' = false := by decide
  simp only [List.isEmpty_cons, Bool.not_false, List.all_cons, hv, Bool.false_and, Bool.true_and]
  have hu : ∀ c, ('_' :: (Nat.toDigits 10 (r % 10000 / 100) ++ '_' :: Nat.toDigits 10 (r % 100))).head? = some c → c.isDigit = false := by
    intro c hc; simp at hc; subst hc; decide
  have hu2 : ∀ c, ('_' :: Nat.toDigits 10 (r % 100)).head? = some c → c.isDigit = false := by
    intro c hc; simp at hc; subst hc; decide
  have hn : ∀ c, ([] : List Char).head? = some c → c.isDigit = false := by intro c hc; simp at hc
  have s3 := span_digits (Nat.toDigits 10 (r % 100)) [] (digits_all _) hn
  simp only [List.append_nil] at s3
  simp only [matchVNMP, span_digits _ _ (digits_all _) hu, span_digits _ _ (digits_all _) hu2, s3,
    List.isEmpty_iff, Nat.toDigits_ne_nil, if_false, digitsVal, Nat.ofDigitChars_ten_toDigits, Bool.false_eq_true]
  simp only [run2dOfNMP]
  rw [if_pos (by simp only [Bool.and_eq_true, decide_eq_true_eq]; omega)]
  simp only [pure, Except.pure]
  congr 1; omega

/-- text level: the integer form of run2d given as a decimal string -/
theorem parse_digits_run2d (r : Nat) : parseRun2d (toString r) = .ok r := by
  unfold parseRun2d
  have e : (toString r).toList = Nat.toDigits 10 r := by simp [toString, Nat.toList_repr]
  rw [e]
  have h1 : (Nat.toDigits 10 r).isEmpty = false := by simp [List.isEmpty_iff, Nat.toDigits_ne_nil]
  have h2 : (Nat.toDigits 10 r).all isDigit = true := by
    rw [List.all_eq_true]; exact digits_all r
  simp [h1, h2, digitsVal, pure, Except.pure]

/-- IDs given as decimal strings denote the same number -/
theorem dec_string_id (v : Nat) : (toString v).toNat? = some v := by
  simpa [toString] using Nat.toNat?_repr v

/-! ### text level for EVERY string (extension round): `int()` first, then the regular expression -/

theorem pyDigit_ascii (c : Char) (h : c.isDigit = true) : pyDigit c = some (c.toNat - '0'.toNat) := by
  have h' : 48 ≤ c.toNat ∧ c.toNat ≤ 57 := by
    simp only [Char.isDigit, Bool.and_eq_true, decide_eq_true_eq] at h
    have h1 : '0'.val ≤ c.val := h.1
    have h2 : c.val ≤ '9'.val := h.2
    exact ⟨UInt32.le_iff_toNat_le.1 h1, UInt32.le_iff_toNat_le.1 h2⟩
  have e : (fun z => decide (z ≤ c.toNat) && decide (c.toNat < z + 10)) 48 = true := by
    simp only [Bool.and_eq_true, decide_eq_true_eq]; omega
  have hz : ndZeros = 48 :: ndZeros.tail := rfl
  unfold pyDigit
  rw [hz, List.find?_cons_of_pos (p := fun z => decide (z ≤ c.toNat) && decide (c.toNat < z + 10)) (a := 48) (h := e)]
  rfl

theorem isNd_ascii (c : Char) (h : c.isDigit = true) : isNd c = true := by
  simp [isNd, pyDigit_ascii c h]

theorem digitsValU_ascii (cs : List Char) (h : ∀ c ∈ cs, c.isDigit = true) (a : Nat) :
    cs.foldl (fun a c => a * 10 + (pyDigit c).getD 0) a = Nat.ofDigitChars 10 cs a := by
  induction cs generalizing a with
  | nil => rfl
  | cons c cs ih =>
    simp only [List.foldl_cons, Nat.ofDigitChars_cons]
    rw [pyDigit_ascii c (h c (by simp)), Option.getD_some, ih (fun d hd => h d (by simp [hd]))]
    congr 1; omega

theorem digitsValU_toDigits (n : Nat) : digitsValU (Nat.toDigits 10 n) = n := by
  unfold digitsValU
  rw [digitsValU_ascii _ (fun c hc => Nat.isDigit_of_mem_toDigits (by decide) (by decide) hc)]
  exact Nat.ofDigitChars_ten_toDigits

theorem span_nd (l r : List Char) (hl : ∀ c ∈ l, c.isDigit = true)
    (hr : ∀ c, r.head? = some c → isNd c = false) : spanNd (l ++ r) = (l, r) := by
  unfold spanNd
  have h1 : ∀ c ∈ l, isNd c = true := fun c hc => isNd_ascii c (hl c hc)
  rw [List.takeWhile_append_of_pos h1, List.dropWhile_append_of_pos h1]
  cases r with
  | nil => simp
  | cons c r =>
    have : isNd c = false := hr c rfl
    simp [this]

theorem pyStrip_head (a : Char) (t : List Char) (h : pyIsSpace a = false) : ∃ t', pyStrip (a :: t) = a :: t' := by
  unfold pyStrip
  rw [List.dropWhile_cons_of_neg (by simp [h]), List.reverse_cons, List.dropWhile_append]
  have e : List.dropWhile pyIsSpace [a] = [a] := by simp [List.dropWhile_cons, h]
  split
  · exact ⟨[], by rw [e]; rfl⟩
  · exact ⟨(List.dropWhile pyIsSpace t.reverse).reverse, by simp⟩

/-- `int()` refuses every string whose first character is neither white space, a sign nor a decimal digit -/
theorem pyInt_none_of_head (a : Char) (t : List Char) (hs : pyIsSpace a = false) (hd : pyDigit a = none)
    (hp : a ≠ '+') (hm : a ≠ '-') : pyInt (a :: t) = none := by
  obtain ⟨t', ht⟩ := pyStrip_head a t hs
  have hb : pyIntBodyLim (a :: t') = none := by
    unfold pyIntBodyLim
    split
    · rfl
    · simp [pyIntBody, hd]
  unfold pyInt
  rw [ht]
  split
  · rename_i r heq; injection heq with h1 _; exact absurd h1 hp
  · rename_i r heq; injection heq with h1 _; exact absurd h1 hm
  · simp [hb]

theorem toDigits_len (k : Nat) (h : k < 10 ^ 5) : ¬ (Nat.toDigits 10 k).length > pyMaxDigits := by
  have := (Nat.length_toDigits_le_iff (b := 10) (n := k) (k := 5) (by decide) (by decide)).2 h
  simp only [pyMaxDigits]; omega

/-- text level, new parser: the 'vN_M_P' string rebuilt by the unpacker parses back to the same run2d number -/
theorem parse_full_fmt (r : Nat) (h : r < 20000) : parseRun2dFull (fmtRun2d r).toList = .ok (r : Int) := by
  have hi : pyInt (fmtRun2d r).toList = none := by
    rw [fmt_toList]
    exact pyInt_none_of_head 'v' _ (by decide) (by decide) (by decide) (by decide)
  have hu : ∀ c, ('_' :: (Nat.toDigits 10 (r % 10000 / 100) ++ '_' :: Nat.toDigits 10 (r % 100))).head? = some c → isNd c = false := by
    intro c hc; simp at hc; subst hc; decide
  have hu2 : ∀ c, ('_' :: Nat.toDigits 10 (r % 100)).head? = some c → isNd c = false := by
    intro c hc; simp at hc; subst hc; decide
  have hn : ∀ c, ([] : List Char).head? = some c → isNd c = false := by intro c hc; simp at hc
  have s3 := span_nd (Nat.toDigits 10 (r % 100)) [] (digits_all _) hn
  simp only [List.append_nil] at s3
  have hg : matchGroupsU (fmtRun2d r).toList =
      some (Nat.toDigits 10 (r / 10000 + 5), Nat.toDigits 10 (r % 10000 / 100), Nat.toDigits 10 (r % 100)) := by
    rw [fmt_toList]
    simp only [matchGroupsU, span_nd _ _ (digits_all _) hu, span_nd _ _ (digits_all _) hu2, s3,
      List.isEmpty_iff, Nat.toDigits_ne_nil, if_false]
  have hm : matchVNMPU (fmtRun2d r).toList = some (r / 10000 + 5, r % 10000 / 100, r % 100) := by
    unfold matchVNMPU
    rw [hg]
    have l1 := toDigits_len (r / 10000 + 5) (by omega)
    have l2 := toDigits_len (r % 10000 / 100) (by omega)
    have l3 := toDigits_len (r % 100) (by omega)
    simp only [l1, l2, l3, decide_false, Bool.or_false, Bool.false_eq_true, if_false, digitsValU_toDigits]
  unfold parseRun2dFull denoteRun2d
  rw [hi, hm]
  simp only [run2dOfDen, run2dOfNMP]
  rw [if_pos (by simp only [Bool.and_eq_true, decide_eq_true_eq]; omega)]
  simp only [pure, Except.pure, Functor.map, Except.map]
  congr 2; omega

/-- every refusal of the string branch is a ValueError -/
theorem parse_full_error (cs : List Char) (e : String) (h : parseRun2dFull cs = .error e) : e = "ValueError" := by
  unfold parseRun2dFull at h
  split at h
  · rename_i d _
    cases d with
    | int i => simp [run2dOfDen, pure, Except.pure] at h
    | nmp n m p =>
      simp only [run2dOfDen, run2dOfNMP] at h
      split at h
      · simp [pure, Except.pure, Functor.map, Except.map] at h
      · simp [valueError, Functor.map, Except.map] at h; exact h.symm
  · simp [valueError] at h; exact h.symm

/-- what an accepted string denotes: EITHER the integer `int()` reads, OR (only when `int()` refuses) the version triple
the expression reads, which is then inside the documented bounds and is exactly what the unpacker rebuilds -/
theorem parse_full_cases (cs : List Char) (r : Int) (h : parseRun2dFull cs = .ok r) :
    (pyInt cs = some r ∧ denoteRun2d cs = some (.int r)) ∨
    (pyInt cs = none ∧ ∃ n m p, matchVNMPU cs = some (n, m, p) ∧ denoteRun2d cs = some (.nmp n m p) ∧
      (5 ≤ n ∧ n ≤ 6 ∧ m ≤ 99 ∧ p ≤ 99) ∧ r = ((n - 5) * 10000 + m * 100 + p : Nat) ∧ nmpOfRun2d r.toNat = (n, m, p)) := by
  unfold parseRun2dFull at h
  cases hi : pyInt cs with
  | some i =>
    left
    simp only [denoteRun2d, hi, run2dOfDen, pure, Except.pure] at h ⊢
    injection h with h
    subst h
    exact ⟨rfl, rfl⟩
  | none =>
    right
    refine ⟨rfl, ?_⟩
    cases hm : matchVNMPU cs with
    | none => simp [denoteRun2d, hi, hm, valueError] at h
    | some t =>
      obtain ⟨n, m, p⟩ := t
      simp only [denoteRun2d, hi, hm, run2dOfDen] at h
      cases hr : run2dOfNMP n m p with
      | error e => simp [hr, Functor.map, Except.map] at h
      | ok q =>
        simp only [hr, Functor.map, Except.map] at h
        injection h with h
        subst h
        have rt := run2d_nmp_roundtrip n m p q hr
        have bd : 5 ≤ n ∧ n ≤ 6 ∧ m ≤ 99 ∧ p ≤ 99 := by
          simp only [run2dOfNMP] at hr
          split at hr
          · rename_i hc; simp only [Bool.and_eq_true, decide_eq_true_eq] at hc; omega
          · simp [valueError] at hr
        refine ⟨n, m, p, rfl, by simp [denoteRun2d, hi, hm], bd, by rw [rt.2], ?_⟩
        simpa using rt.1

/-- two denotations with the same run2d number are the same denotation, within each form (an integer and a version
string CAN share a number: 'v5_0_26' and '26' are the same reduction - that is the documented encoding) -/
theorem run2d_den_injective (d d' : Run2dDen) (r : Int) (h : run2dOfDen d = .ok r) (h' : run2dOfDen d' = .ok r) :
    (∀ i i', d = .int i → d' = .int i' → i = i') ∧
    (∀ n m p n' m' p', d = .nmp n m p → d' = .nmp n' m' p' → (n, m, p) = (n', m', p')) := by
  constructor
  · intro i i' e e'; subst e; subst e'
    simp only [run2dOfDen, pure, Except.pure] at h h'
    injection h with h; injection h' with h'; omega
  · intro n m p n' m' p' e e'; subst e; subst e'
    simp only [run2dOfDen] at h h'
    cases hr : run2dOfNMP n m p with
    | error e => simp [hr, Functor.map, Except.map] at h
    | ok q =>
      cases hr' : run2dOfNMP n' m' p' with
      | error e => simp [hr', Functor.map, Except.map] at h'
      | ok q' =>
        simp only [hr, hr', Functor.map, Except.map] at h h'
        injection h with h; injection h' with h'
        have : q = q' := by omega
        subst this
        exact run2d_nmp_injective _ _ _ _ _ _ _ hr hr'

theorem packSpecStr_ok (a b c : Int) (s : List Char) (l i : Option Int) (v : Nat)
    (h : packSpecStr a b c s l i = .ok v) :
    ∃ r lv, parseRun2dFull s = .ok r ∧ packSpec ⟨a, b, c, r, lv⟩ = .ok v ∧
      (∀ s', packSpecStr a b c s' l i = (parseRun2dFull s').bind (fun r' => packSpec ⟨a, b, c, r', lv⟩)) := by
  cases hr : parseRun2dFull s with
  | error e =>
    cases l <;> cases i <;> simp [packSpecStr, hr, valueError, bind, Except.bind] at h
  | ok r =>
    cases l with
    | none =>
      cases i with
      | none => exact ⟨r, 0, rfl, by simpa [packSpecStr, hr, bind, Except.bind, packSpecLI] using h,
          fun s' => by simp [packSpecStr, bind, packSpecLI]⟩
      | some iv => exact ⟨r, iv, rfl, by simpa [packSpecStr, hr, bind, Except.bind, packSpecLI] using h,
          fun s' => by simp [packSpecStr, bind, packSpecLI]⟩
    | some lv =>
      cases i with
      | none => exact ⟨r, lv, rfl, by simpa [packSpecStr, hr, bind, Except.bind, packSpecLI] using h,
          fun s' => by simp [packSpecStr, bind, packSpecLI]⟩
      | some iv => simp [packSpecStr, valueError] at h

/-- two accepted strings give the same specObjID exactly when they denote the same run2d number -/
theorem specstr_same_id_iff (a b c : Int) (s s' : List Char) (l i : Option Int) (v v' : Nat)
    (h : packSpecStr a b c s l i = .ok v) (h' : packSpecStr a b c s' l i = .ok v') :
    v = v' ↔ parseRun2dFull s = parseRun2dFull s' := by
  obtain ⟨r, lv, hr, hp, hall⟩ := packSpecStr_ok a b c s l i v h
  have h2 := hall s'
  rw [h'] at h2
  cases hr' : parseRun2dFull s' with
  | error e => simp [hr', Except.bind] at h2
  | ok r' =>
    simp only [hr', Except.bind] at h2
    have u := spec_unpack_pack _ _ hp
    have u' := spec_unpack_pack _ _ h2.symm
    rw [hr]
    constructor
    · intro e; subst e
      rw [u] at u'
      injection u' with _ _ _ e4 _
      rw [e4]
    · intro e
      injection e with e
      subst e
      rw [hp] at h2
      injection h2 with e
      exact e.symm

/-- the string the unpacker returns is the canonical representative: it is accepted, and packing it gives the same ID
as the string the caller wrote - for EVERY accepted string (white space, sign, underscores, leading zeros, suffixes,
non-ASCII digits) -/
theorem specstr_canonical (a b c : Int) (s : List Char) (l i : Option Int) (v : Nat)
    (h : packSpecStr a b c s l i = .ok v) :
    parseRun2dFull s = .ok (unpackSpec v).run2d ∧
    parseRun2dFull (canonRun2d (unpackSpec v).run2d) = .ok (unpackSpec v).run2d ∧
    packSpecStr a b c (canonRun2d (unpackSpec v).run2d) l i = .ok v := by
  obtain ⟨r, lv, hr, hp, hall⟩ := packSpecStr_ok a b c s l i v h
  have u := spec_unpack_pack _ _ hp
  have hok : (SpecF.mk a b c r lv).ok = true := by
    by_cases hk : (SpecF.mk a b c r lv).ok = true
    · exact hk
    · simp [packSpec, hk, valueError] at hp
  have bd := ((SpecF.ok_iff _).1 hok).2.2.2.1
  simp only at bd
  have e1 : (unpackSpec v).run2d = r := by rw [u]
  have hc : parseRun2dFull (canonRun2d r) = .ok r := by
    unfold canonRun2d
    rw [parse_full_fmt r.toNat (by omega)]
    congr 1; omega
  rw [e1]
  refine ⟨hr, hc, ?_⟩
  rw [hall, hc]
  exact hp

/-- an accepted string whose number is out of range, a negative literal, or a refused string: ValueError, whatever the
other fields are -/
theorem specstr_rejects (a b c : Int) (s : List Char) (l i : Option Int)
    (h : (∀ r, parseRun2dFull s ≠ .ok r) ∨ (∃ r, parseRun2dFull s = .ok r ∧ (r < 0 ∨ 2^14 ≤ r))) :
    packSpecStr a b c s l i = .error "ValueError" := by
  cases hr : parseRun2dFull s with
  | error e =>
    have := parse_full_error s e hr
    subst this
    cases l <;> cases i <;> simp [packSpecStr, hr, valueError, bind, Except.bind]
  | ok r =>
    rcases h with h | ⟨r', h1, h2⟩
    · exact absurd hr (h r)
    · rw [hr] at h1
      injection h1 with h1
      subst h1
      have rej : ∀ lv, packSpec ⟨a, b, c, r, lv⟩ = .error "ValueError" :=
        fun lv => spec_rejects _ (by simp only; omega)
      cases l <;> cases i <;> simp [packSpecStr, hr, valueError, bind, Except.bind, packSpecLI, rej]

theorem digit_bounds (c : Char) (h : c.isDigit = true) : 48 ≤ c.toNat ∧ c.toNat ≤ 57 := by
  simp only [Char.isDigit, Bool.and_eq_true, decide_eq_true_eq] at h
  have h1 : '0'.val ≤ c.val := h.1
  have h2 : c.val ≤ '9'.val := h.2
  exact ⟨UInt32.le_iff_toNat_le.1 h1, UInt32.le_iff_toNat_le.1 h2⟩

theorem not_space_of_digit (c : Char) (h : c.isDigit = true) : pyIsSpace c = false := by
  have := digit_bounds c h
  simp only [pyIsSpace, pySpaces, List.any_cons, List.any_nil, Bool.or_false, Bool.or_eq_false_iff,
    Bool.and_eq_false_iff, decide_eq_false_iff_not]
  omega

theorem pyIntDigits_ascii (cs : List Char) (h : ∀ c ∈ cs, c.isDigit = true) (acc : Nat) :
    pyIntDigits cs acc = some (Nat.ofDigitChars 10 cs acc) := by
  induction cs generalizing acc with
  | nil => rfl
  | cons c cs ih =>
    have hc := h c (by simp)
    have hne : c ≠ '_' := by intro e; subst e; exact absurd hc (by decide)
    unfold pyIntDigits
    rw [if_neg hne, pyDigit_ascii c hc]
    simp only
    rw [ih (fun d hd => h d (by simp [hd])), Nat.ofDigitChars_cons]
    congr 2; omega

theorem pyStrip_digits (cs : List Char) (h : ∀ c ∈ cs, c.isDigit = true) : pyStrip cs = cs := by
  have hd : ∀ l : List Char, (∀ c ∈ l, c.isDigit = true) → l.dropWhile pyIsSpace = l := by
    intro l hl
    cases l with
    | nil => rfl
    | cons a t => exact List.dropWhile_cons_of_neg (by simp [not_space_of_digit a (hl a (by simp))])
  unfold pyStrip
  rw [hd cs h, hd cs.reverse (fun c hc => h c (by simpa using hc)), List.reverse_reverse]

/-- the new parser restricted to the old domain (plain ASCII digits, at most `sys.get_int_max_str_digits()` of them)
is the old one: leading zeros are read as decimal, never octal -/
theorem parse_full_ascii_digits (cs : List Char) (hne : cs ≠ []) (h : ∀ c ∈ cs, c.isDigit = true)
    (hl : cs.length ≤ pyMaxDigits) : parseRun2dFull cs = .ok (digitsVal cs : Nat) := by
  cases cs with
  | nil => exact absurd rfl hne
  | cons a t =>
    have ha := h a (by simp)
    have hb : pyIntBodyLim (a :: t) = some (digitsVal (a :: t)) := by
      unfold pyIntBodyLim
      have : ¬ ((a :: t).filter (fun c => c != '_')).length > pyMaxDigits := by
        have := List.length_filter_le (fun c => c != '_') (a :: t)
        omega
      rw [if_neg this, pyIntBody, pyDigit_ascii a ha]
      simp only
      rw [pyIntDigits_ascii t (fun d hd => h d (by simp [hd]))]
      simp [digitsVal, Nat.ofDigitChars_cons]
    have hi : pyInt (a :: t) = some ((digitsVal (a :: t) : Nat) : Int) := by
      unfold pyInt
      rw [pyStrip_digits _ h]
      have hp : a ≠ '+' := by intro e; subst e; exact absurd ha (by decide)
      have hm : a ≠ '-' := by intro e; subst e; exact absurd ha (by decide)
      split
      · rename_i r heq; injection heq with h1 _; exact absurd h1 hp
      · rename_i r heq; injection heq with h1 _; exact absurd h1 hm
      · simp [hb]
    simp [parseRun2dFull, denoteRun2d, hi, run2dOfDen, pure, Except.pure]

/-! ### columns of every integer width (extension round): the machine path is the path on the numbers -/

theorem val_bounds (c : IntCol) (hw : c.w ≤ 64) : -2^63 ≤ c.val ∧ c.val < 2^64 := by
  have hp : (2:Nat)^c.w ≤ 2^64 := Nat.pow_le_pow_right (by decide) hw
  unfold IntCol.val
  split
  · have h1 := BitVec.toInt_lt (x := c.x)
    have h2 := BitVec.le_toInt c.x
    have hp' : (2:Int)^(c.w - 1) ≤ 2^63 := by
      have : (2:Nat)^(c.w - 1) ≤ 2^63 := Nat.pow_le_pow_right (by decide) (by omega)
      exact_mod_cast this
    omega
  · have := c.x.isLt
    omega

theorem to64_toInt (c : IntCol) (hw : c.w ≤ 64) :
    (c.val < 2^63 → c.to64.toInt = c.val) ∧ (2^63 ≤ c.val → c.to64.toInt < 0) := by
  have hp : (2:Nat)^c.w ≤ 2^64 := Nat.pow_le_pow_right (by decide) hw
  unfold IntCol.val IntCol.to64
  split
  · rw [BitVec.toInt_signExtend_of_le hw]
    have h1 := BitVec.toInt_lt (x := c.x)
    have hp' : (2:Int)^(c.w - 1) ≤ 2^63 := by
      have : (2:Nat)^(c.w - 1) ≤ 2^63 := Nat.pow_le_pow_right (by decide) (by omega)
      exact_mod_cast this
    constructor
    · intro _; rfl
    · intro h; omega
  · have hn : (c.x.setWidth 64).toNat = c.x.toNat := BitVec.toNat_setWidth_of_le hw
    rw [BitVec.toInt_eq_toNat_cond, hn]
    have := c.x.isLt
    constructor
    · intro h; rw [if_pos (by omega)]
    · intro h; rw [if_neg (by omega)]; omega

theorem inRM_to64 (c : IntCol) (hw : c.w ≤ 64) (lo hi : Int) (hlo : 0 ≤ lo) (hhi : hi ≤ 2^63) :
    inRM c.to64 lo hi = inR c.val lo hi := by
  have ⟨h1, h2⟩ := to64_toInt c hw
  unfold inRM inR
  by_cases h : c.val < 2^63
  · rw [h1 h]
  · have h' := h2 (by omega)
    have e1 : decide (lo ≤ c.to64.toInt) = false := by simp; omega
    have e2 : decide (c.val < hi) = false := by simp; omega
    simp [e1, e2]

theorem to64_toNat (c : IntCol) (hw : c.w ≤ 64) (h0 : 0 ≤ c.val) (h : c.val < 2^63) :
    c.to64.toNat = c.val.toNat := by
  have e := (to64_toInt c hw).1 h
  rw [BitVec.toInt_eq_toNat_cond] at e
  have := c.to64.isLt
  split at e <;> omega

theorem objid_cols (sv rerun run camcol ff field obj : IntCol)
    (h1 : sv.w ≤ 64) (h2 : rerun.w ≤ 64) (h3 : run.w ≤ 64) (h4 : camcol.w ≤ 64) (h5 : ff.w ≤ 64) (h6 : field.w ≤ 64)
    (h7 : obj.w ≤ 64) :
    packObjidCols sv rerun run camcol ff field obj =
      (packObjid ⟨sv.val, rerun.val, run.val, camcol.val, ff.val, field.val, obj.val⟩).map (BitVec.ofNat 64) := by
  unfold packObjidCols
  rw [inRM_to64 ff h5 0 2 (by omega) (by omega), inRM_to64 sv h1 0 16 (by omega) (by omega),
    inRM_to64 rerun h2 0 (2^11) (by omega) (by omega), inRM_to64 run h3 0 (2^16) (by omega) (by omega),
    inRM_to64 camcol h4 1 7 (by omega) (by omega), inRM_to64 field h6 0 (2^12) (by omega) (by omega),
    inRM_to64 obj h7 0 (2^16) (by omega) (by omega)]
  by_cases hok : (ObjF.mk sv.val rerun.val run.val camcol.val ff.val field.val obj.val).ok = true
  · have hok' : (inR ff.val 0 2 && inR sv.val 0 16 && inR rerun.val 0 (2^11) && inR run.val 0 (2^16) &&
        inR camcol.val 1 7 && inR field.val 0 (2^12) && inR obj.val 0 (2^16)) = true := hok
    rw [if_pos hok', (objid_layout _ hok).1]
    obtain ⟨b5, b1, b2, b3, b4, b6, b7⟩ := (ObjF.ok_iff _).1 hok
    simp only at b1 b2 b3 b4 b5 b6 b7
    simp only [pure, Except.pure, Except.map]
    congr 1
    apply BitVec.eq_of_toNat_eq
    simp only [BitVec.toNat_or, BitVec.toNat_shiftLeft, BitVec.toNat_ofNat,
      to64_toNat _ h1 (by omega) (by omega), to64_toNat _ h2 (by omega) (by omega), to64_toNat _ h3 (by omega) (by omega),
      to64_toNat _ h4 (by omega) (by omega), to64_toNat _ h5 (by omega) (by omega), to64_toNat _ h6 (by omega) (by omega),
      to64_toNat _ h7 (by omega) (by omega)]
    rw [Nat.mod_eq_of_lt (a := sv.val.toNat <<< 59) (by omega), Nat.mod_eq_of_lt (a := rerun.val.toNat <<< 48) (by omega),
      Nat.mod_eq_of_lt (a := run.val.toNat <<< 32) (by omega), Nat.mod_eq_of_lt (a := camcol.val.toNat <<< 29) (by omega),
      Nat.mod_eq_of_lt (a := ff.val.toNat <<< 28) (by omega), Nat.mod_eq_of_lt (a := field.val.toNat <<< 16) (by omega)]
    rw [pack7 _ _ _ _ _ _ _ (by omega) (by omega) (by omega) (by omega) (by omega) (by omega)]
    simp only [objLayout]
    omega
  · have hok' : ¬ (inR ff.val 0 2 && inR sv.val 0 16 && inR rerun.val 0 (2^11) && inR run.val 0 (2^16) &&
        inR camcol.val 1 7 && inR field.val 0 (2^12) && inR obj.val 0 (2^16)) = true := hok
    rw [if_neg hok']
    simp [packObjid, hok, valueError, Except.map]

theorem toNat_of_toInt (x : BitVec 64) (v : Int) (h : x.toInt = v) (h0 : 0 ≤ v) : x.toNat = v.toNat := by
  rw [BitVec.toInt_eq_toNat_cond] at h
  have := x.isLt
  split at h <;> omega

theorem sub_offset_toInt (x : BitVec 64) :
    (x - 50000#64).toInt = if -2^63 + 50000 ≤ x.toInt then x.toInt - 50000 else x.toInt - 50000 + 2^64 := by
  have e : (50000#64).toInt = 50000 := by decide
  have h1 := BitVec.toInt_lt (x := x)
  have h2 := BitVec.le_toInt x
  simp only [Nat.add_one_sub_one] at h1 h2
  rw [BitVec.toInt_sub, e, Int.bmod_def]
  split <;> split <;> omega

/-- the MJD column: int64 cast, offset removed with wrap-around, signed range check = the check on the number -/
theorem mjd_check (c : IntCol) (hw : c.w ≤ 64) :
    inRM (c.to64 - 50000#64) 0 (2^14) = inR (c.val - 50000) 0 (2^14) ∧
    (inR (c.val - 50000) 0 (2^14) = true → (c.to64 - 50000#64).toNat = (c.val - 50000).toNat) := by
  have ⟨t1, t2⟩ := to64_toInt c hw
  have vb := val_bounds c hw
  have hs := sub_offset_toInt c.to64
  have h1 := BitVec.toInt_lt (x := c.to64)
  have h2 := BitVec.le_toInt c.to64
  simp only [Nat.add_one_sub_one] at h1 h2
  have key : inRM (c.to64 - 50000#64) 0 (2^14) = inR (c.val - 50000) 0 (2^14) := by
    unfold inRM inR
    rw [Bool.eq_iff_iff]
    simp only [Bool.and_eq_true, decide_eq_true_eq]
    by_cases h : c.val < 2^63
    · have e := t1 h
      rw [e] at hs
      split at hs <;> omega
    · have e := t2 (by omega)
      split at hs <;> omega
  refine ⟨key, ?_⟩
  intro hin
  have hb := (inR_iff _ _ _).1 hin
  have e := t1 (by omega)
  rw [e] at hs
  rw [if_pos (by omega)] at hs
  exact toNat_of_toInt _ _ hs (by omega)

theorem spec_cols (plate fiber mjd run2d line : IntCol)
    (h1 : plate.w ≤ 64) (h2 : fiber.w ≤ 64) (h3 : mjd.w ≤ 64) (h4 : run2d.w ≤ 64) (h5 : line.w ≤ 64) :
    packSpecCols plate fiber mjd run2d line =
      (packSpec ⟨plate.val, fiber.val, mjd.val, run2d.val, line.val⟩).map (BitVec.ofNat 64) := by
  unfold packSpecCols
  simp only
  rw [(mjd_check mjd h3).1]
  by_cases hok : (SpecF.mk plate.val fiber.val mjd.val run2d.val line.val).ok = true
  · have hok' : (inR plate.val 0 (2^14) && inR fiber.val 0 (2^12) && inR (mjd.val - 50000) 0 (2^14) &&
        inR run2d.val 0 (2^14) && inR line.val 0 (2^10)) = true := hok
    rw [if_pos hok', (spec_layout _ hok).1]
    have hm : inR (mjd.val - 50000) 0 (2^14) = true := by
      simp only [Bool.and_eq_true] at hok'; exact hok'.1.1.2
    obtain ⟨b1, b2, b3, b4, b5⟩ := (SpecF.ok_iff _).1 hok
    simp only at b1 b2 b3 b4 b5
    simp only [pure, Except.pure, Except.map]
    congr 1
    apply BitVec.eq_of_toNat_eq
    simp only [BitVec.toNat_or, BitVec.toNat_shiftLeft, BitVec.toNat_ofNat, (mjd_check mjd h3).2 hm,
      to64_toNat _ h1 (by omega) (by omega), to64_toNat _ h2 (by omega) (by omega),
      to64_toNat _ h4 (by omega) (by omega), to64_toNat _ h5 (by omega) (by omega)]
    rw [Nat.mod_eq_of_lt (a := plate.val.toNat <<< 50) (by omega), Nat.mod_eq_of_lt (a := fiber.val.toNat <<< 38) (by omega),
      Nat.mod_eq_of_lt (a := (mjd.val - 50000).toNat <<< 24) (by omega), Nat.mod_eq_of_lt (a := run2d.val.toNat <<< 10) (by omega)]
    rw [pack5 _ _ _ _ _ (by omega) (by omega) (by omega) (by omega)]
    simp only [specLayout]
    omega
  · have hok' : ¬ (inR plate.val 0 (2^14) && inR fiber.val 0 (2^12) && inR (mjd.val - 50000) 0 (2^14) &&
        inR run2d.val 0 (2^14) && inR line.val 0 (2^10)) = true := hok
    rw [if_neg hok']
    simp [packSpec, hok, valueError, Except.map]

/-! ### array calls: the element-wise map, and a refusal exactly when some element would be refused -/

/-- specObjID: the array call (each range check `.any()` over the whole column, then one vector expression) is the
scalar call element by element -/
theorem specs_is_map (fs : List SpecF) : packSpecs fs = fs.mapM packSpec := by
  induction fs with
  | nil => rfl
  | cons f fs ih =>
    rw [List.mapM_cons, ← ih]
    by_cases hok : f.ok = true
    · have hok' := hok
      simp only [SpecF.ok, Bool.and_eq_true] at hok'
      obtain ⟨⟨⟨⟨h1, h2⟩, h3⟩, h4⟩, h5⟩ := hok'
      simp only [packSpec, hok, if_true, packSpecs, List.any_cons, h1, h2, h3, h4, h5,
        Bool.not_true, Bool.false_or, List.map_cons, bind, Except.bind, pure, Except.pure]
      repeat' split
      all_goals first | rfl | simp_all [valueError]
    · have hne : f.ok = false := by simpa using hok
      have hne' := hne
      simp only [SpecF.ok, Bool.and_eq_false_iff] at hne'
      simp only [packSpec, hne, Bool.false_eq_true, if_false, valueError, bind, Except.bind,
        packSpecs, List.any_cons]
      rcases hne' with ((((h | h) | h) | h) | h) <;> simp [h] <;>
        (repeat' split) <;> first | rfl | simp_all

theorem mapM_refuses_iff {α β : Type} (g : α → R β) (hg : ∀ a e, g a = .error e → e = "ValueError") (fs : List α) :
    (fs.mapM g = .error "ValueError" ↔ ∃ f ∈ fs, g f = .error "ValueError") ∧
    ((∃ vs, fs.mapM g = .ok vs) ↔ ∀ f ∈ fs, ∃ v, g f = .ok v) := by
  induction fs with
  | nil => simp [pure, Except.pure]
  | cons a fs ih =>
    rw [List.mapM_cons]
    cases ha : g a with
    | error e =>
      have := hg a e ha
      subst this
      simp [bind, Except.bind, ha]
    | ok b =>
      cases hm : fs.mapM g with
      | error e' =>
        rw [hm] at ih
        simp only [bind, Except.bind, List.mem_cons, exists_eq_or_imp, ha, forall_eq_or_imp]
        constructor
        · simpa using ih.1
        · simpa using ih.2
      | ok bs =>
        rw [hm] at ih
        simp only [bind, Except.bind, List.mem_cons, exists_eq_or_imp, ha, forall_eq_or_imp, pure, Except.pure]
        constructor
        · simpa using ih.1
        · simpa using ih.2

/-- objID: the array call raises (ValueError) exactly when the scalar call would raise for some element, and returns
exactly when every element is in range -/
theorem objids_refuses_iff (fs : List ObjF) :
    (packObjids fs = .error "ValueError" ↔ ∃ f ∈ fs, packObjid f = .error "ValueError") ∧
    ((∃ vs, packObjids fs = .ok vs) ↔ ∀ f ∈ fs, ∃ v, packObjid f = .ok v) := by
  rw [objids_is_map]
  refine mapM_refuses_iff packObjid ?_ fs
  intro a e h
  unfold packObjid at h
  split at h
  · simp [pure, Except.pure] at h
  · simp [valueError] at h; exact h.symm

/-- specObjID: the same for the array call of `sdss_specobjid` -/
theorem specs_refuses_iff (fs : List SpecF) :
    (packSpecs fs = .error "ValueError" ↔ ∃ f ∈ fs, packSpec f = .error "ValueError") ∧
    ((∃ vs, packSpecs fs = .ok vs) ↔ ∀ f ∈ fs, ∃ v, packSpec f = .ok v) := by
  rw [specs_is_map]
  refine mapM_refuses_iff packSpec ?_ fs
  intro a e h
  unfold packSpec at h
  split at h
  · simp [pure, Except.pure] at h
  · simp [valueError] at h; exact h.symm

example : packSpecCols ⟨false, 16, 100#16⟩ ⟨true, 8, 100#8⟩ ⟨false, 16, 0#16⟩ ⟨false, 32, 15535#32⟩ ⟨true, 8, 100#8⟩
    = .error "ValueError" := by decide +kernel
example : packSpecCols ⟨true, 16, 4055#16⟩ ⟨true, 16, 408#16⟩ ⟨false, 16, 55359#16⟩ ⟨true, 32, 700#32⟩ ⟨false, 8, 0#8⟩
    = .ok 4565636362342690816#64 := by decide +kernel

/-! ### the model functions are the table-driven ones (tables are re-extracted from the source each run) -/

theorem packObjidRaw_table (f : ObjF) : packObjidRaw f = packByTable objShiftTable f.vals := by
  simp [packObjidRaw, packByTable, objShiftTable, ObjF.vals, val, List.lookup]

theorem objOk_table (f : ObjF) : f.ok = okByTable objRangeTable f.vals := by
  simp [ObjF.ok, okByTable, objRangeTable, ObjF.vals, val, List.lookup, Bool.and_assoc]

theorem unpackObjid_table (v : Nat) :
    unpackByTable objUnpackTable v = [("skyversion", (unpackObjid v).sv), ("rerun", (unpackObjid v).rerun),
      ("run", (unpackObjid v).run), ("camcol", (unpackObjid v).camcol), ("firstfield", (unpackObjid v).ff),
      ("frame", (unpackObjid v).field), ("id", (unpackObjid v).obj)] := by
  simp [unpackByTable, objUnpackTable, unpackObjid]

theorem packSpecRaw_table (f : SpecF) :
    packSpecRaw f = packByTable specShiftTable (specVals f.plate f.fiber f.mjd f.run2d f.line 0) ∧
    packSpecRaw f = packByTable specShiftTable (specVals f.plate f.fiber f.mjd f.run2d 0 f.line) := by
  constructor <;>
    simp [packSpecRaw, packByTable, specShiftTable, specVals, val, List.lookup, mjdOffset, Nat.or_assoc]

theorem specOk_table (f : SpecF) :
    f.ok = okByTable specRangeTable (specVals f.plate f.fiber f.mjd f.run2d f.line 0) ∧
    f.ok = okByTable specRangeTable (specVals f.plate f.fiber f.mjd f.run2d 0 f.line) := by
  constructor <;>
    simp [SpecF.ok, okByTable, specRangeTable, specVals, val, List.lookup, mjdOffset, Bool.and_assoc, inR]

theorem unpackSpec_table (v : Nat) :
    unpackByTable specUnpackTable v = [("plate", (unpackSpec v).plate), ("fiber", (unpackSpec v).fiber),
      ("mjd", (unpackSpec v).mjd), ("run2d", (unpackSpec v).run2d), ("line", (unpackSpec v).line)] := by
  simp [unpackByTable, specUnpackTable, unpackSpec]

/-! ### cross-function consistency: `sdss_astrombad` range-checks run / camcol / field with the objID's field widths -/

theorem okAstrombad_table (run camcol field : Int) :
    okAstrombad run camcol field = okByTable astrombadRangeTable [("run", run), ("camcol", camcol), ("field", field)] := by
  simp [okAstrombad, okByTable, astrombadRangeTable, val, List.lookup, Bool.and_assoc]

/-- every row of `sdss_astrombad`'s range table is a row of `sdss_objid`'s -/
theorem astrombad_rows_are_objid_rows : ∀ e ∈ astrombadRangeTable, e ∈ objRangeTable := by decide

/-- `sdss_astrombad` accepts (run, camcol, field) exactly when they are the run / camcol / field of some packable objID -/
theorem astrombad_iff_objid (run camcol field : Int) :
    okAstrombad run camcol field = true ↔
      ∃ f : ObjF, f.ok = true ∧ f.run = run ∧ f.camcol = camcol ∧ f.field = field := by
  constructor
  · intro h
    refine ⟨⟨0, 0, run, camcol, 0, field, 0⟩, ?_, rfl, rfl, rfl⟩
    simp only [okAstrombad, Bool.and_eq_true, inR_iff] at h
    rw [ObjF.ok_iff]
    simp only
    omega
  · rintro ⟨f, hok, rfl, rfl, rfl⟩
    have := (ObjF.ok_iff f).1 hok
    simp only [okAstrombad, Bool.and_eq_true, inR_iff]
    omega

/-! non-vacuity: the documentation's own examples meet the hypotheses -/
example : (ObjF.mk 2 301 3704 3 0 91 146).ok = true := by decide
example : packObjid (ObjF.mk 2 301 3704 3 0 91 146) = .ok 1237661382772195474 := by decide
example : packSpec (SpecF.mk 4055 408 55359 700 0) = .ok 4565636362342690816 := by decide
example : parseRun2d "v5_7_0" = .ok 700 := by decide
example : run2dOfNMP 5 7 0 = .ok 700 := by decide
example : parseRun2dFull " +1_000\n".toList = .ok 1000 := by decide +kernel
example : parseRun2dFull "v05_007_000.fits".toList = .ok 700 := by decide +kernel
example : parseRun2dFull "1__0".toList = .error "ValueError" := by decide +kernel
example : parseRun2dFull [Char.ofNat 1633, Char.ofNat 1634] = .ok 12 := by decide +kernel
example : packSpecStr 4055 408 55359 " 7_00 ".toList none none = .ok 4565636362342690816 := by decide +kernel

end PydlVerif.C06

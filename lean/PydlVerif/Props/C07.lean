/-
C07 property theorems: bitmask names ⇄ values for any maskbits cache.
Helper lemmas first (association lists, bit sums), property theorems (listed in
harness/props/c07.py) after, each hypothesis set followed by a non-vacuity example.
-/
import PydlVerif.Model.Flags
namespace PydlVerif.C07
open PydlVerif.Flags

/-! ## helpers: Except -/

theorem bind_eq_ok {α β} {x : R α} {f : α → R β} {b : β} (h : x >>= f = .ok b) :
    ∃ a, x = .ok a ∧ f a = .ok b := by
  cases x with
  | error e => cases h
  | ok a => exact ⟨a, rfl, h⟩

/-! ## helpers: association lists -/

def keys {β} (l : List (String × β)) : List String := l.map (·.1)

theorem get_put {β} (k k' : String) (v : β) (l : List (String × β)) :
    dget k (dput k' v l) = if k' = k then some v else dget k l := by
  induction l with
  | nil => simp [dput, dget]
  | cons h t ih =>
    obtain ⟨a, b⟩ := h
    by_cases h1 : a = k' <;> by_cases h2 : a = k <;> by_cases h3 : k' = k <;> simp_all [dput, dget]

theorem mem_of_get {β} {k : String} {v : β} {l : List (String × β)} (h : dget k l = some v) : (k, v) ∈ l := by
  induction l with
  | nil => simp [dget] at h
  | cons x t ih =>
    obtain ⟨a, b⟩ := x
    by_cases h1 : a = k
    · simp [dget, h1] at h; simp [h1, h]
    · simp [dget, h1] at h; exact List.mem_cons_of_mem _ (ih h)

theorem get_of_mem {β} {k : String} {v : β} {l : List (String × β)} (hn : (keys l).Nodup) (h : (k, v) ∈ l) :
    dget k l = some v := by
  induction l with
  | nil => simp at h
  | cons x t ih =>
    obtain ⟨a, b⟩ := x
    simp only [keys, List.map_cons, List.nodup_cons] at hn
    rcases List.mem_cons.1 h with h | h
    · cases h; simp [dget]
    · have : a ≠ k := by
        intro e; subst e; exact hn.1 (List.mem_map.2 ⟨(a, v), h, rfl⟩)
      simp [dget, this]; exact ih hn.2 h

theorem get_isSome_iff {β} (k : String) (l : List (String × β)) : (dget k l).isSome = true ↔ k ∈ keys l := by
  induction l with
  | nil => simp [dget, keys]
  | cons x t ih =>
    obtain ⟨a, b⟩ := x
    by_cases h1 : a = k
    · simp [dget, keys, h1]
    · have h2 : ¬ k = a := fun e => h1 e.symm
      simp only [dget, h1, if_false, ih, keys, List.map_cons, List.mem_cons, h2, false_or]

theorem eq_of_map_nodup {α β} (f : α → β) : ∀ (l : List α), (l.map f).Nodup →
    ∀ a ∈ l, ∀ b ∈ l, f a = f b → a = b := by
  intro l
  induction l with
  | nil => intro _ a ha; simp at ha
  | cons x t ih =>
    intro hn a ha b hb hab
    simp only [List.map_cons, List.nodup_cons] at hn
    rcases List.mem_cons.1 ha with ha' | ha' <;> rcases List.mem_cons.1 hb with hb' | hb'
    · rw [ha', hb']
    · subst ha'; exact absurd (hab ▸ List.mem_map.2 ⟨b, hb', rfl⟩) hn.1
    · subst hb'; exact absurd (hab ▸ List.mem_map.2 ⟨a, ha', rfl⟩) hn.1
    · exact ih hn.2 a ha' b hb' hab

/-! ## well-formedness (decidable) -/

/-- a group of the cache as the statement assumes it: labels upper-case and distinct, bits below 64, one label per bit -/
def WFGroup (grp : Group) : Prop :=
  (∀ x ∈ grp, upper x.1 = x.1 ∧ x.2 < 64) ∧ (grp.map (·.1)).Nodup ∧ (grp.map (·.2)).Nodup

instance (grp : Group) : Decidable (WFGroup grp) := by unfold WFGroup; infer_instance

/-- `WF db g`: the group that a query on `g` reaches exists and is well formed -/
def WF (db : Db) (g : String) : Prop :=
  match dget (upper g) db with
  | some grp => WFGroup grp
  | none => False

instance (db : Db) (g : String) : Decidable (WF db g) := by
  unfold WF; cases dget (upper g) db <;> infer_instance

theorem WF_iff (db : Db) (g : String) : WF db g ↔ ∃ grp, dget (upper g) db = some grp ∧ WFGroup grp := by
  unfold WF
  cases h : dget (upper g) db <;> simp

def bitOf (grp : Group) (n : String) : Nat := (dget n grp).getD 0

theorem bitOf_of_mem {grp : Group} (hn : (grp.map (·.1)).Nodup) {l : String} {b : Nat} (h : (l, b) ∈ grp) :
    bitOf grp l = b := by
  simp [bitOf, get_of_mem hn h]

theorem mem_of_key {grp : Group} {n : String} (h : n ∈ keys grp) : (n, bitOf grp n) ∈ grp := by
  have := (get_isSome_iff n grp).2 h
  cases hg : dget n grp with
  | none => simp [hg] at this
  | some b => simpa [bitOf, hg] using mem_of_get hg

/-! ## helpers: sums and ORs of powers of two -/

def sumBits (acc : BitVec 64) (bs : List Nat) : BitVec 64 := bs.foldl (fun a b => a + BitVec.twoPow 64 b) acc
def orBitsFrom (acc : BitVec 64) (bs : List Nat) : BitVec 64 := bs.foldl (fun a b => a ||| BitVec.twoPow 64 b) acc
/-- `⋁ 2^bit` -/
def orBits (bs : List Nat) : BitVec 64 := orBitsFrom 0 bs

theorem orBitsFrom_getLsbD (bs : List Nat) (hb : ∀ b ∈ bs, b < 64) (acc : BitVec 64) (i : Nat) :
    (orBitsFrom acc bs).getLsbD i = (acc.getLsbD i || decide (i ∈ bs)) := by
  induction bs generalizing acc with
  | nil => simp [orBitsFrom]
  | cons b t ih =>
    have hb' : b < 64 := hb b (List.mem_cons_self ..)
    simp only [orBitsFrom, List.foldl_cons] at ih ⊢
    rw [ih (fun x hx => hb x (List.mem_cons_of_mem _ hx))]
    simp only [BitVec.getLsbD_or, BitVec.getLsbD_twoPow, hb', decide_true, Bool.true_and, List.mem_cons]
    by_cases e : b = i
    · simp [e]
    · have e' : ¬ i = b := fun h => e h.symm
      simp [e, e']

theorem orBits_getLsbD (bs : List Nat) (hb : ∀ b ∈ bs, b < 64) (i : Nat) :
    (orBits bs).getLsbD i = decide (i ∈ bs) := by
  simp [orBits, orBitsFrom_getLsbD bs hb]

theorem sumBits_eq_or (bs : List Nat) (hn : bs.Nodup) (hb : ∀ b ∈ bs, b < 64) (acc : BitVec 64)
    (hacc : ∀ b ∈ bs, acc.getLsbD b = false) : sumBits acc bs = orBitsFrom acc bs := by
  induction bs generalizing acc with
  | nil => rfl
  | cons b t ih =>
    have hb' : b < 64 := hb b (List.mem_cons_self ..)
    have hand : acc &&& BitVec.twoPow 64 b = 0#64 := by
      apply BitVec.eq_of_getLsbD_eq
      intro j _
      simp only [BitVec.getLsbD_and, BitVec.getLsbD_twoPow, BitVec.getLsbD_zero]
      by_cases e : b = j
      · subst e; simp [hacc b (List.mem_cons_self ..)]
      · simp [e]
    simp only [sumBits, orBitsFrom, List.foldl_cons] at ih ⊢
    rw [BitVec.add_eq_or_of_and_eq_zero _ _ hand]
    simp only [List.nodup_cons] at hn
    apply ih hn.2 (fun x hx => hb x (List.mem_cons_of_mem _ hx))
    intro x hx
    have hne : ¬ b = x := fun e => hn.1 (e ▸ hx)
    simp [BitVec.getLsbD_or, BitVec.getLsbD_twoPow, hacc x (List.mem_cons_of_mem _ hx), hne]

/-! ## helpers: the flagval loop -/

theorem flagvalG_some (grp : Group) (names : List String) (h : ∀ n ∈ names, n ∈ keys grp) :
    flagvalG (some grp) names = .ok (sumBits 0 (names.map (bitOf grp))) := by
  unfold flagvalG sumBits
  generalize (0 : BitVec 64) = acc
  induction names generalizing acc with
  | nil => rfl
  | cons n t ih =>
    have hn := mem_of_key (h n (List.mem_cons_self ..))
    have hg : dget n grp = some (bitOf grp n) := by
      have := (get_isSome_iff n grp).2 (h n (List.mem_cons_self ..))
      cases hg : dget n grp with
      | none => simp [hg] at this
      | some b => simp [bitOf, hg]
    simp only [List.foldlM_cons, flagvalStep, hg, List.map_cons, List.foldl_cons]
    exact ih (fun x hx => h x (List.mem_cons_of_mem _ hx)) _

/-- whether the loop body succeeds on name `n` -/
def has (grp : Option Group) (n : String) : Bool :=
  match grp with
  | none => false
  | some g => (dget n g).isSome

theorem flagvalG_missing (grp : Option Group) (names : List String) (h : ∃ n ∈ names, has grp n = false) :
    flagvalG grp names = .error .KeyError := by
  unfold flagvalG
  generalize (0 : BitVec 64) = acc
  induction names generalizing acc with
  | nil => obtain ⟨n, hn, _⟩ := h; simp at hn
  | cons n t ih =>
    simp only [List.foldlM_cons]
    cases grp with
    | none => rfl
    | some g =>
      cases hg : dget n g with
      | none => simp only [flagvalStep, hg]; rfl
      | some b =>
        simp only [flagvalStep, hg]
        apply ih
        obtain ⟨m, hm, hh⟩ := h
        rcases List.mem_cons.1 hm with e | e
        · subst e; simp [has, hg] at hh
        · exact ⟨m, e, hh⟩

theorem has_some_iff (g : Group) (n : String) : has (some g) n = true ↔ n ∈ keys g := by
  simp [has, get_isSome_iff]

/-! ## helpers: the flagname loop -/

theorem mapM_pure {α β} (f : α → β) (l : List α) : l.mapM (fun a => (pure (f a) : R β)) = pure (l.map f) := by
  induction l with
  | nil => rfl
  | cons a t ih => simp [List.mapM_cons, ih]

theorem flagnameG_some (grp : Group) (v : BitVec 64) :
    flagnameG (some grp) v = .ok ((setBits v).filterMap (firstWithBit grp)) := by
  unfold flagnameG
  simp only [mapM_pure]
  simp [List.filterMap_map]
  rfl

theorem setBits_eq_nil (v : BitVec 64) : setBits v = [] ↔ v = 0#64 := by
  constructor
  · intro h
    apply BitVec.eq_of_getLsbD_eq
    intro i hi
    have : i ∉ setBits v := by simp [h]
    simp only [setBits, List.mem_filter, List.mem_range, hi, true_and] at this
    simpa using this
  · intro h; subst h; simp [setBits]

theorem flagnameG_none (v : BitVec 64) :
    flagnameG none v = if v = 0#64 then .ok [] else .error .KeyError := by
  unfold flagnameG
  by_cases h : v = 0#64
  · rw [(setBits_eq_nil v).2 h]; simp [h]; rfl
  · have : setBits v ≠ [] := fun e => h ((setBits_eq_nil v).1 e)
    cases hs : setBits v with
    | nil => exact absurd hs this
    | cons b t => simp [h, List.mapM_cons]; rfl

theorem find_bit {grp : Group} (hn : (grp.map (·.2)).Nodup) {l : String} {b : Nat} (h : (l, b) ∈ grp) :
    grp.find? (fun x => x.2 == b) = some (l, b) := by
  induction grp with
  | nil => simp at h
  | cons x t ih =>
    obtain ⟨a, c⟩ := x
    simp only [List.map_cons, List.nodup_cons] at hn
    rcases List.mem_cons.1 h with h | h
    · cases h; simp
    · have : c ≠ b := by
        intro e; subst e; exact hn.1 (List.mem_map.2 ⟨(l, c), h, rfl⟩)
      simp [this]; exact ih hn.2 h

theorem firstWithBit_iff {grp : Group} (hn : (grp.map (·.2)).Nodup) (l : String) (b : Nat) :
    firstWithBit grp b = some l ↔ (l, b) ∈ grp := by
  unfold firstWithBit
  constructor
  · intro h
    cases hf : grp.find? (fun x => x.2 == b) with
    | none => simp [hf] at h
    | some x =>
      simp [hf] at h
      have h1 := List.find?_some hf
      have h2 := List.mem_of_find?_eq_some hf
      simp at h1
      obtain ⟨a, c⟩ := x
      simp at h h1; subst h; subst h1; exact h2
  · intro h; simp [find_bit hn h]

theorem count_true_eq_length (l : List Bool) : (l.count true == l.length) = l.all id := by
  induction l with
  | nil => rfl
  | cons a t ih =>
    have hle := List.count_le_length (a := true) (l := t)
    cases a
    · have : ¬ List.count true t = t.length + 1 := by omega
      simp [this]
    · simpa [List.count_cons] using ih

/-! ## property theorems -/

/-- names → value: for distinct labels of a well-formed group, in any order and case, the sum the code
forms is the OR of `2^bit`; bit `i` of the result is set exactly when some given label sits on bit `i`. -/
theorem flagval_or (db : Db) (g : String) (ls : List String) (grp : Group)
    (hg : dget (upper g) db = some grp) (hwf : WFGroup grp)
    (hd : (ls.map upper).Nodup) (hs : ∀ l ∈ ls, upper l ∈ keys grp) :
    flagval db g ls = .ok (orBits ((ls.map upper).map (bitOf grp))) ∧
    ∀ i, (orBits ((ls.map upper).map (bitOf grp))).getLsbD i = decide (∃ l ∈ ls, (upper l, i) ∈ grp) := by
  obtain ⟨hrange, hkeys, hbits⟩ := hwf
  have hs' : ∀ n ∈ ls.map upper, n ∈ keys grp := by
    intro n hn; obtain ⟨l, hl, e⟩ := List.mem_map.1 hn; exact e ▸ hs l hl
  have hlt : ∀ b ∈ (ls.map upper).map (bitOf grp), b < 64 := by
    intro b hb
    obtain ⟨n, hn, e⟩ := List.mem_map.1 hb
    exact e ▸ (hrange _ (mem_of_key (hs' n hn))).2
  have hnd : ((ls.map upper).map (bitOf grp)).Nodup := by
    rw [List.Nodup, List.pairwise_map]
    refine List.Pairwise.imp_of_mem ?_ hd
    intro a b ha hb hne e
    apply hne
    have h1 := mem_of_key (hs' a ha)
    have h2 := mem_of_key (hs' b hb)
    have := eq_of_map_nodup (·.2) grp hbits _ h1 _ h2 e
    exact (Prod.mk.inj this).1
  constructor
  · unfold flagval
    rw [hg, flagvalG_some grp _ hs', sumBits_eq_or _ hnd hlt 0 (by simp)]
    rfl
  · intro i
    rw [orBits_getLsbD _ hlt]
    apply decide_eq_decide.2
    constructor
    · intro h
      obtain ⟨n, hn, e⟩ := List.mem_map.1 h
      obtain ⟨l, hl, e'⟩ := List.mem_map.1 hn
      subst e'; subst e
      exact ⟨l, hl, mem_of_key (hs l hl)⟩
    · rintro ⟨l, hl, hm⟩
      exact List.mem_map.2 ⟨upper l, List.mem_map.2 ⟨l, hl, rfl⟩, bitOf_of_mem hkeys hm⟩

/-- any order: permuting the labels does not change the value -/
theorem flagval_perm (db : Db) (g : String) (ls ls' : List String) (grp : Group)
    (hg : dget (upper g) db = some grp) (hwf : WFGroup grp)
    (hd : (ls.map upper).Nodup) (hs : ∀ l ∈ ls, upper l ∈ keys grp) (hp : ls.Perm ls') :
    flagval db g ls' = flagval db g ls := by
  have hd' : (ls'.map upper).Nodup := (hp.map upper).nodup_iff.1 hd
  have hs' : ∀ l ∈ ls', upper l ∈ keys grp := fun l hl => hs l (hp.mem_iff.2 hl)
  obtain ⟨h1, b1⟩ := flagval_or db g ls grp hg hwf hd hs
  obtain ⟨h2, b2⟩ := flagval_or db g ls' grp hg hwf hd' hs'
  rw [h1, h2]
  congr 1
  apply BitVec.eq_of_getLsbD_eq
  intro i _
  rw [b1, b2]
  apply decide_eq_decide.2
  constructor
  · rintro ⟨l, hl, hm⟩; exact ⟨l, hp.mem_iff.2 hl, hm⟩
  · rintro ⟨l, hl, hm⟩; exact ⟨l, hp.mem_iff.1 hl, hm⟩

/-- value → names: exactly the labels of the defined set bits (undefined bits ignored, bit 63 included:
`b` ranges over all bits of the group), in strictly ascending bit order. -/
theorem flagname_spec (db : Db) (g : String) (v : BitVec 64) (grp : Group)
    (hg : dget (upper g) db = some grp) (hwf : WFGroup grp) :
    ∃ names, flagnameU db g v = .ok names ∧
      names.Pairwise (fun a b => bitOf grp a < bitOf grp b) ∧
      ∀ l, l ∈ names ↔ ∃ b, (l, b) ∈ grp ∧ v.getLsbD b = true := by
  obtain ⟨hrange, hkeys, hbits⟩ := hwf
  refine ⟨_, by unfold flagnameU; rw [hg, flagnameG_some], ?_, ?_⟩
  · apply List.Pairwise.filterMap (R := fun a b => a < b)
    · intro a a' hlt l hl l' hl'
      rw [bitOf_of_mem hkeys ((firstWithBit_iff hbits l a).1 hl),
          bitOf_of_mem hkeys ((firstWithBit_iff hbits l' a').1 hl')]
      exact hlt
    · exact List.Pairwise.filter _ List.pairwise_lt_range
  · intro l
    simp only [List.mem_filterMap, setBits, List.mem_filter, List.mem_range]
    constructor
    · rintro ⟨b, ⟨_, hb⟩, hf⟩
      exact ⟨b, (firstWithBit_iff hbits l b).1 hf, hb⟩
    · rintro ⟨b, hm, hb⟩
      exact ⟨b, ⟨(hrange _ hm).2, hb⟩, (firstWithBit_iff hbits l b).2 hm⟩

/-- names → value → names: the upper-cased labels come back, each once, in ascending bit order -/
theorem name_val_name (db : Db) (g : String) (ls : List String) (grp : Group)
    (hg : dget (upper g) db = some grp) (hwf : WFGroup grp)
    (hd : (ls.map upper).Nodup) (hs : ∀ l ∈ ls, upper l ∈ keys grp) :
    ∃ v names, flagval db g ls = .ok v ∧ flagnameU db g v = .ok names ∧
      names.Perm (ls.map upper) ∧ names.Pairwise (fun a b => bitOf grp a < bitOf grp b) := by
  obtain ⟨hv, hbit⟩ := flagval_or db g ls grp hg hwf hd hs
  obtain ⟨names, hn, hpw, hmem⟩ := flagname_spec db g (orBits ((ls.map upper).map (bitOf grp))) grp hg hwf
  obtain ⟨hrange, hkeys, hbits⟩ := hwf
  refine ⟨_, names, hv, hn, ?_, hpw⟩
  have hnd : names.Nodup := by
    refine List.Pairwise.imp ?_ hpw
    intro a b hlt e; subst e; exact Nat.lt_irrefl _ hlt
  rw [List.perm_ext_iff_of_nodup hnd hd]
  intro a
  rw [hmem]
  constructor
  · rintro ⟨b, hm, hb⟩
    rw [hbit] at hb
    obtain ⟨l, hl, hm'⟩ := of_decide_eq_true hb
    have := eq_of_map_nodup (·.2) grp hbits _ hm _ hm' rfl
    rw [(Prod.mk.inj this).1]
    exact List.mem_map.2 ⟨l, hl, rfl⟩
  · intro ha
    obtain ⟨l, hl, e⟩ := List.mem_map.1 ha
    subst e
    refine ⟨bitOf grp (upper l), mem_of_key (hs l hl), ?_⟩
    rw [hbit]
    exact decide_eq_true ⟨l, hl, mem_of_key (hs l hl)⟩

/-- value → names → value: the value comes back restricted to the defined bits of the group -/
theorem val_name_val (db : Db) (g : String) (v : BitVec 64) (grp : Group)
    (hg : dget (upper g) db = some grp) (hwf : WFGroup grp) :
    ∃ names, flagnameU db g v = .ok names ∧ flagval db g names = .ok (v &&& orBits (grp.map (·.2))) := by
  obtain ⟨names, hn, hpw, hmem⟩ := flagname_spec db g v grp hg hwf
  have hwf' := hwf
  obtain ⟨hrange, hkeys, hbits⟩ := hwf
  refine ⟨names, hn, ?_⟩
  have hup : names.map upper = names := by
    have : ∀ a ∈ names, upper a = id a := by
      intro a ha
      obtain ⟨b, hm, _⟩ := (hmem a).1 ha
      exact (hrange _ hm).1
    rw [List.map_congr_left this, List.map_id]
  have hnd : names.Nodup := by
    refine List.Pairwise.imp ?_ hpw
    intro a b hlt e; subst e; exact Nat.lt_irrefl _ hlt
  have hs : ∀ l ∈ names, upper l ∈ keys grp := by
    intro l hl
    obtain ⟨b, hm, _⟩ := (hmem l).1 hl
    rw [(hrange _ hm).1]
    exact List.mem_map.2 ⟨(l, b), hm, rfl⟩
  obtain ⟨hv, hbit⟩ := flagval_or db g names grp hg hwf' (hup.symm ▸ hnd) hs
  rw [hv]
  congr 1
  apply BitVec.eq_of_getLsbD_eq
  intro i _
  have hlt : ∀ b ∈ grp.map (·.2), b < 64 := by
    intro b hb; obtain ⟨x, hx, e⟩ := List.mem_map.1 hb; exact e ▸ (hrange x hx).2
  rw [hbit, BitVec.getLsbD_and, orBits_getLsbD _ hlt]
  rw [Bool.eq_iff_iff]
  simp only [decide_eq_true_eq, Bool.and_eq_true]
  constructor
  · rintro ⟨l, hl, hm⟩
    obtain ⟨b, hm', hb⟩ := (hmem l).1 hl
    have hupl : upper l = l := (hrange _ hm').1
    rw [hupl] at hm
    have e : b = i := by
      have h1 := bitOf_of_mem hkeys hm
      have h2 := bitOf_of_mem hkeys hm'
      omega
    exact ⟨e ▸ hb, List.mem_map.2 ⟨(l, i), hm, rfl⟩⟩
  · rintro ⟨hb, hi⟩
    obtain ⟨x, hx, e⟩ := List.mem_map.1 hi
    obtain ⟨l, b⟩ := x
    simp at e; subst e
    have hl : l ∈ names := (hmem l).2 ⟨b, hx, hb⟩
    exact ⟨l, hl, by rw [(hrange _ hx).1]; exact hx⟩


/-- non-vacuity of the hypotheses above: a sparse group with bit 63, queried in mixed case, out of bit order -/
example : WF [("TARGET", [("LOW", 0), ("TOP", 63), ("MID", 31)])] "target" := by decide
example : let grp : Group := [("LOW", 0), ("TOP", 63), ("MID", 31)]
    dget (upper "Target") [("TARGET", grp)] = some grp ∧ WFGroup grp ∧
    (["top", "Low"].map upper).Nodup ∧ (∀ l ∈ ["top", "Low"], upper l ∈ keys grp) ∧
    flagval [("TARGET", grp)] "Target" ["top", "Low"] = .ok 0x8000000000000001#64 ∧
    flagnameU [("TARGET", grp)] "tARGET" 0x8000000000000003#64 = .ok ["LOW", "TOP"] := by decide

/-! ### case-insensitivity -/

theorem toUpper_idem (c : Char) : c.toUpper.toUpper = c.toUpper := by
  unfold Char.toUpper
  by_cases h : 'a'.val ≤ c.val ∧ c.val ≤ 'z'.val
  · simp only [h]
    rw [dif_neg]
    simp only [dif_pos, and_self]
    intro h2
    have h1 := h.1; have h3 := h.2; have h4 := h2.1
    simp only [UInt32.le_iff_toNat_le, UInt32.toNat_add, UInt32.toNat_sub] at h1 h3 h4
    have e1 : 'a'.val.toNat = 97 := by decide
    have e2 : 'z'.val.toNat = 122 := by decide
    have e3 : 'A'.val.toNat = 65 := by decide
    simp only [e1, e2, e3] at h1 h3 h4
    omega
  · simp only [h, dite_false]

/-- upper-casing is idempotent: an upper-cased name is its own canonical form -/
theorem upper_idem (s : String) : upper (upper s) = upper s := by
  unfold upper
  rw [String.toList_ofList, List.map_map]
  congr 1
  apply List.map_congr_left
  intro c _
  exact toUpper_idem c

/-- every query depends on the group name and on the labels only through their upper-cased forms;
in particular the query on the upper-cased names gives the same answer -/
theorem case_insensitive (db : Db) (g g' : String) (ls ls' : List String)
    (hg : upper g = upper g') (hl : ls.map upper = ls'.map upper) :
    flagval db g ls = flagval db g' ls' ∧
    (∀ v, flagname db g v = flagname db g' v) ∧
    (∀ v, flagnameConcat db g v = flagnameConcat db g' v) ∧
    flagexist db g ls = flagexist db g' ls' ∧
    flagval db (upper g) (ls.map upper) = flagval db g ls := by
  refine ⟨?_, ?_, ?_, ?_, ?_⟩
  · unfold flagval; rw [hg, hl]
  · intro v; unfold flagname flagnameU; rw [hg]
  · intro v; unfold flagnameConcat flagname flagnameU; rw [hg]
  · unfold flagexist; rw [hg, hl]
  · unfold flagval
    rw [upper_idem, List.map_map]
    congr 1
    apply List.map_congr_left
    intro l _
    exact upper_idem l

example : upper "Target" = upper "tARGET" ∧ ["top", "Low"].map upper = ["TOP", "low"].map upper := by decide

/-! ### aliases -/

theorem aliases_keep (post : List Alias) (k : String) (hk : ∀ x ∈ post, x.alias ≠ k) (d d' : Db)
    (h : post.foldlM addAlias d = .ok d') : dget k d' = dget k d := by
  induction post generalizing d with
  | nil => cases h; rfl
  | cons x t ih =>
    rw [List.foldlM_cons] at h
    obtain ⟨d1, h1, h2⟩ := bind_eq_ok h
    rw [ih (fun y hy => hk y (List.mem_cons_of_mem _ hy)) d1 h2]
    unfold addAlias at h1
    cases hx : dget x.flag d with
    | none => rw [hx] at h1; cases h1
    | some grp =>
      rw [hx] at h1
      cases h1
      rw [get_put]
      simp [hk x (List.mem_cons_self ..)]

/-- an alias is the group it aliases: when no later alias row re-defines the alias or its target,
the cache holds the same table under both names and every query answers identically -/
theorem alias_same (rows : List Row) (pre post : List Alias) (a : Alias) (db : Db)
    (h : setMaskbits rows (pre ++ a :: post) = .ok db)
    (hpost : ∀ x ∈ post, x.alias ≠ a.alias ∧ x.alias ≠ a.flag) :
    (∃ grp, dget a.alias db = some grp ∧ dget a.flag db = some grp) ∧
    ∀ g g', upper g = a.alias → upper g' = a.flag →
      (∀ ls, flagval db g ls = flagval db g' ls) ∧ (∀ v, flagname db g v = flagname db g' v) ∧
      (∀ ls, flagexist db g ls = flagexist db g' ls) := by
  unfold setMaskbits at h
  rw [List.foldlM_append] at h
  obtain ⟨d1, _, h⟩ := bind_eq_ok h
  rw [List.foldlM_cons] at h
  obtain ⟨d2, h2, h3⟩ := bind_eq_ok h
  have k1 := aliases_keep post a.alias (fun x hx => (hpost x hx).1) d2 db h3
  have k2 := aliases_keep post a.flag (fun x hx => (hpost x hx).2) d2 db h3
  unfold addAlias at h2
  cases hx : dget a.flag d1 with
  | none => rw [hx] at h2; cases h2
  | some grp =>
    rw [hx] at h2
    cases h2
    have e1 : dget a.alias db = some grp := by rw [k1, get_put]; simp
    have e2 : dget a.flag db = some grp := by
      rw [k2, get_put]
      by_cases e : a.alias = a.flag <;> simp [e, hx]
    refine ⟨⟨grp, e1, e2⟩, ?_⟩
    intro g g' hg hg'
    refine ⟨?_, ?_, ?_⟩
    · intro ls; unfold flagval; rw [hg, hg', e1, e2]
    · intro v; unfold flagname flagnameU; rw [hg, hg', e1, e2]
    · intro ls; unfold flagexist; rw [hg, hg', e1, e2]

example : setMaskbits [⟨"G", 3, "A"⟩, ⟨"H", 1, "B"⟩, ⟨"G", 63, "TOP"⟩] ([⟨"P", "H"⟩] ++ ⟨"AL", "G"⟩ :: [⟨"AL2", "AL"⟩])
    = .ok [("G", [("A", 3), ("TOP", 63)]), ("H", [("B", 1)]), ("P", [("B", 1)]), ("AL", [("A", 3), ("TOP", 63)]),
           ("AL2", [("A", 3), ("TOP", 63)])] := by decide

/-! ### well-formed files give well-formed caches -/

/-- the `maskbits` rows of a file as the statement assumes them: upper-case labels, bits 0..63,
and within one group no label and no bit twice -/
def RowsWF (rows : List Row) : Prop :=
  (∀ r ∈ rows, upper r.label = r.label ∧ r.bit < 64) ∧
  rows.Pairwise (fun r s => r.flag = s.flag → r.label ≠ s.label ∧ r.bit ≠ s.bit)

instance (rows : List Row) : Decidable (RowsWF rows) := by unfold RowsWF; infer_instance

def AllWF (db : Db) : Prop := ∀ k grp, dget k db = some grp → WFGroup grp

theorem put_fresh {β} (k : String) (v : β) (l : List (String × β)) (h : k ∉ keys l) : dput k v l = l ++ [(k, v)] := by
  induction l with
  | nil => rfl
  | cons x t ih =>
    obtain ⟨a, b⟩ := x
    simp only [keys, List.map_cons, List.mem_cons, not_or] at h
    have : ¬ a = k := fun e => h.1 e.symm
    simp only [dput, this, if_false, List.cons_append]
    rw [ih h.2]

theorem WFGroup_single (l : String) (b : Nat) (hu : upper l = l) (hb : b < 64) : WFGroup [(l, b)] := by
  refine ⟨?_, by simp, by simp⟩
  intro x hx
  simp at hx; subst hx; exact ⟨hu, hb⟩

theorem WFGroup_append (g : Group) (l : String) (b : Nat) (hw : WFGroup g) (hu : upper l = l) (hb : b < 64)
    (hf : ∀ x ∈ g, x.1 ≠ l ∧ x.2 ≠ b) : WFGroup (g ++ [(l, b)]) := by
  obtain ⟨h1, h2, h3⟩ := hw
  refine ⟨?_, ?_, ?_⟩
  · intro x hx
    rcases List.mem_append.1 hx with hx | hx
    · exact h1 x hx
    · simp at hx; subst hx; exact ⟨hu, hb⟩
  · rw [List.map_append, List.nodup_append]
    refine ⟨h2, by simp, ?_⟩
    intro a ha c hc
    simp at hc; subst hc
    obtain ⟨x, hx, e⟩ := List.mem_map.1 ha
    exact e ▸ (hf x hx).1
  · rw [List.map_append, List.nodup_append]
    refine ⟨h3, by simp, ?_⟩
    intro a ha c hc
    simp at hc; subst hc
    obtain ⟨x, hx, e⟩ := List.mem_map.1 ha
    exact e ▸ (hf x hx).2

theorem rows_wf (rows : List Row) (db : Db) (hdb : AllWF db)
    (h1 : ∀ r ∈ rows, upper r.label = r.label ∧ r.bit < 64)
    (h2 : rows.Pairwise (fun r s => r.flag = s.flag → r.label ≠ s.label ∧ r.bit ≠ s.bit))
    (h3 : ∀ r ∈ rows, ∀ grp, dget r.flag db = some grp → ∀ x ∈ grp, x.1 ≠ r.label ∧ x.2 ≠ r.bit) :
    AllWF (rows.foldl addRow db) := by
  induction rows generalizing db with
  | nil => exact hdb
  | cons r t ih =>
    rw [List.foldl_cons]
    rw [List.pairwise_cons] at h2
    have hr1 := h1 r (List.mem_cons_self ..)
    -- the group of `r` after the row is processed
    have key : ∃ grp', addRow db r = dput r.flag grp' db ∧ WFGroup grp' ∧
        ∀ x ∈ grp', (∃ g, dget r.flag db = some g ∧ x ∈ g) ∨ x = (r.label, r.bit) := by
      unfold addRow
      cases hr : dget r.flag db with
      | none =>
        refine ⟨_, rfl, WFGroup_single _ _ hr1.1 hr1.2, ?_⟩
        intro x hx; right; simpa using hx
      | some g =>
        have hf := h3 r (List.mem_cons_self ..) g hr
        have hfresh : r.label ∉ keys g := by
          intro hm
          obtain ⟨x, hx, e⟩ := List.mem_map.1 hm
          exact (hf x hx).1 e
        refine ⟨_, rfl, ?_, ?_⟩
        · rw [put_fresh _ _ _ hfresh]
          exact WFGroup_append g _ _ (hdb _ g hr) hr1.1 hr1.2 hf
        · intro x hx
          rw [put_fresh _ _ _ hfresh] at hx
          rcases List.mem_append.1 hx with hx | hx
          · exact Or.inl ⟨g, rfl, hx⟩
          · right; simpa using hx
    obtain ⟨grp', e, hw', hmem⟩ := key
    rw [e]
    apply ih
    · intro k grp hk
      rw [get_put] at hk
      by_cases hkk : r.flag = k
      · simp [hkk] at hk; subst hk; exact hw'
      · simp [hkk] at hk; exact hdb k grp hk
    · intro s hs; exact h1 s (List.mem_cons_of_mem _ hs)
    · exact h2.2
    · intro s hs grp hk x hx
      rw [get_put] at hk
      by_cases hkk : r.flag = s.flag
      · simp [hkk] at hk; subst hk
        rcases hmem x hx with ⟨g, hg, hxg⟩ | hx'
        · exact h3 s (List.mem_cons_of_mem _ hs) g (hkk ▸ hg) x hxg
        · subst hx'
          exact h2.1 s hs hkk
      · simp [hkk] at hk
        exact h3 s (List.mem_cons_of_mem _ hs) grp hk x hx

theorem aliases_wf (aliases : List Alias) (d d' : Db) (hd : AllWF d) (h : aliases.foldlM addAlias d = .ok d') :
    AllWF d' := by
  induction aliases generalizing d with
  | nil => cases h; exact hd
  | cons x t ih =>
    rw [List.foldlM_cons] at h
    obtain ⟨d1, h1, h2⟩ := bind_eq_ok h
    apply ih d1 _ h2
    unfold addAlias at h1
    cases hx : dget x.flag d with
    | none => rw [hx] at h1; cases h1
    | some grp =>
      rw [hx] at h1
      cases h1
      intro k g hk
      rw [get_put] at hk
      by_cases hkk : x.alias = k
      · simp [hkk] at hk; subst hk; exact hd _ _ hx
      · simp [hkk] at hk; exact hd k g hk

/-- a file whose rows are well formed (whatever their order and interleaving, whatever the aliases) gives a cache
in which every group and every alias is well formed: the hypotheses `WFGroup` of the theorems above hold for every
name the cache knows -/
theorem setMaskbits_wf (rows : List Row) (aliases : List Alias) (db : Db) (hw : RowsWF rows)
    (h : setMaskbits rows aliases = .ok db) :
    (∀ k grp, dget k db = some grp → WFGroup grp) ∧
    ∀ g, (∃ grp, dget (upper g) db = some grp) → WF db g := by
  have hall : AllWF db := by
    apply aliases_wf aliases _ db _ h
    apply rows_wf rows [] _ hw.1 hw.2
    · intro r _ grp hg; simp [dget] at hg
    · intro k grp hg; simp [dget] at hg
  refine ⟨hall, ?_⟩
  rintro g ⟨grp, hg⟩
  exact (WF_iff db g).2 ⟨grp, hg, hall _ _ hg⟩

example : RowsWF [⟨"G", 3, "A"⟩, ⟨"H", 3, "A"⟩, ⟨"G", 63, "TOP"⟩, ⟨"G", 0, "Z9_"⟩] := by decide

/-! ### errors -/

/-- names → value never raises on an empty list, whatever the group -/
theorem flagval_nil (db : Db) (g : String) : flagval db g [] = .ok 0#64 := rfl

/-- KeyError exactly when a conversion needs a missing group or label: the call succeeds iff the list is empty
or the group exists and holds every (upper-cased) label; otherwise it is `KeyError` (and nothing else) -/
theorem flagval_errors (db : Db) (g : String) (ls : List String) :
    ((ls = [] ∨ ∃ grp, dget (upper g) db = some grp ∧ ∀ l ∈ ls, upper l ∈ keys grp) → ∃ v, flagval db g ls = .ok v) ∧
    (¬ (ls = [] ∨ ∃ grp, dget (upper g) db = some grp ∧ ∀ l ∈ ls, upper l ∈ keys grp) →
      flagval db g ls = .error .KeyError) := by
  constructor
  · rintro (h | ⟨grp, hg, hs⟩)
    · subst h; exact ⟨_, rfl⟩
    · unfold flagval
      rw [hg, flagvalG_some]
      · exact ⟨_, rfl⟩
      · intro n hn; obtain ⟨l, hl, e⟩ := List.mem_map.1 hn; exact e ▸ hs l hl
  · intro h
    unfold flagval
    apply flagvalG_missing
    cases hg : dget (upper g) db with
    | none =>
      cases ls with
      | nil => exact absurd (Or.inl rfl) h
      | cons l t => exact ⟨upper l, by simp, rfl⟩
    | some grp =>
      apply Classical.byContradiction
      intro hne
      apply h
      right
      refine ⟨grp, hg, ?_⟩
      intro l hl
      apply Classical.byContradiction
      intro hk
      apply hne
      refine ⟨upper l, List.mem_map.2 ⟨l, hl, rfl⟩, ?_⟩
      exact Bool.eq_false_iff.2 (fun hh => hk ((has_some_iff grp (upper l)).1 hh))

/-- a zero value names no bits in any group, known or not -/
theorem flagname_zero (db : Db) (g : String) :
    flagnameU db g 0#64 = .ok [] ∧ flagname db g (.pyint 0) = .ok [] ∧ flagname db g (.i64 0) = .ok [] ∧
    flagname db g (.u64 0) = .ok [] := by
  have h : flagnameU db g 0#64 = .ok [] := by
    unfold flagnameU
    cases dget (upper g) db with
    | none => rw [flagnameG_none]; simp
    | some grp => rw [flagnameG_some]; simp [setBits]
  exact ⟨h, h, h, h⟩

/-- value → names raises `KeyError` exactly when the value is non-zero and the group is unknown; a Python int
outside `[0, 2^64)` is an `OverflowError` before any lookup; numpy scalars never overflow -/
theorem flagname_errors (db : Db) (g : String) (v : BitVec 64) :
    (flagnameU db g v = .error .KeyError ↔ v ≠ 0#64 ∧ dget (upper g) db = none) ∧
    ((v = 0#64 ∨ ∃ grp, dget (upper g) db = some grp) → ∃ names, flagnameU db g v = .ok names) ∧
    (∀ i : Int, flagname db g (.pyint i) = .error .OverflowError ↔ ¬ (0 ≤ i ∧ i < 2 ^ 64)) ∧
    (∀ i : Int, flagname db g (.i64 i) = flagnameU db g (BitVec.ofInt 64 i)) ∧
    (∀ n : Nat, flagname db g (.u64 n) = flagnameU db g (BitVec.ofNat 64 n)) := by
  have hne : ∀ w, flagnameU db g w ≠ .error .OverflowError := by
    intro w
    unfold flagnameU
    cases dget (upper g) db with
    | none => rw [flagnameG_none]; split <;> simp
    | some grp => rw [flagnameG_some]; simp
  refine ⟨?_, ?_, ?_, fun _ => rfl, fun _ => rfl⟩
  · unfold flagnameU
    cases dget (upper g) db with
    | none => rw [flagnameG_none]; by_cases h : v = 0#64 <;> simp [h]
    | some grp => rw [flagnameG_some]; simp
  · rintro (h | ⟨grp, hg⟩)
    · subst h; exact ⟨[], (flagname_zero db g).1⟩
    · unfold flagnameU; rw [hg, flagnameG_some]; exact ⟨_, rfl⟩
  · intro i
    by_cases h : 0 ≤ i ∧ i < 2 ^ 64
    · have : flagname db g (.pyint i) = flagnameU db g (BitVec.ofInt 64 i) := by
        simp only [flagname, Val.toU64, h, and_self, if_true]; rfl
      rw [this]
      exact ⟨fun e => absurd e (hne _), fun e => absurd h e⟩
    · have : flagname db g (.pyint i) = .error .OverflowError := by
        simp only [flagname, Val.toU64, h, if_false]; rfl
      rw [this]
      exact ⟨fun _ => h, fun _ => rfl⟩

/-! ### the existence query -/

/-- `sdss_flagexist` is total (its model has no error case) and reports: `f` = the group exists, `which` = per label
whether group and label exist, `l` = group exists and every label exists (so `l` of an empty list is `f`) -/
theorem flagexist_spec (db : Db) (g : String) (ls : List String) :
    ((flagexist db g ls).f = true ↔ ∃ grp, dget (upper g) db = some grp) ∧
    (flagexist db g ls).which = ls.map (fun l => has (dget (upper g) db) (upper l)) ∧
    ((flagexist db g ls).l = true ↔ ∃ grp, dget (upper g) db = some grp ∧ ∀ l ∈ ls, upper l ∈ keys grp) := by
  unfold flagexist
  cases hg : dget (upper g) db with
  | none => simp [existG, has]
  | some grp =>
    refine ⟨by simp [existG], by simp [existG, has, Function.comp_def], ?_⟩
    simp only [existG, count_true_eq_length, List.all_eq_true, List.mem_map, id]
    constructor
    · intro h
      refine ⟨grp, rfl, ?_⟩
      intro l hl
      exact (get_isSome_iff _ _).1 (h _ ⟨upper l, ⟨l, hl, rfl⟩, rfl⟩)
    · rintro ⟨grp', e, h⟩
      cases e
      rintro x ⟨n, ⟨l, hl, e1⟩, e2⟩
      subst e1; subst e2
      exact (get_isSome_iff _ _).2 (h l hl)

/-- the existence query predicts the conversion: for a non-empty label list, `l` is true exactly when
`sdss_flagval` succeeds (and otherwise `sdss_flagval` raises KeyError) -/
theorem flagexist_flagval (db : Db) (g : String) (ls : List String) (hne : ls ≠ []) :
    ((flagexist db g ls).l = true ↔ ∃ v, flagval db g ls = .ok v) ∧
    ((flagexist db g ls).l = false ↔ flagval db g ls = .error .KeyError) := by
  obtain ⟨_, _, hl⟩ := flagexist_spec db g ls
  obtain ⟨hok, herr⟩ := flagval_errors db g ls
  by_cases h : ∃ grp, dget (upper g) db = some grp ∧ ∀ l ∈ ls, upper l ∈ keys grp
  · obtain ⟨v, hv⟩ := hok (Or.inr h)
    have := hl.2 h
    simp [this, hv]
  · have hv := herr (by rintro (e | e); exact hne e; exact h e)
    have : (flagexist db g ls).l = false := by
      cases hh : (flagexist db g ls).l with
      | false => rfl
      | true => exact absurd (hl.1 hh) h
    simp [this, hv]

end PydlVerif.C07

/-
C08 property theorems: B-spline evaluation (pydl/pydlutils/bspline.py) equals the
Cox-de Boor spline of its knots and coefficients.  Model: PydlVerif/Model/BSpline.lean,
interpreted at an arbitrary linearly ordered field `K` (`fieldScalar K`).
Helper lemmas first in each section; the property theorems are listed in
harness/props/c08.py.
-/
import PydlVerif.Model.BSpline
import PydlVerif.Lemmas.ScalarField
import PydlVerif.Lemmas.BSplineRows
import PydlVerif.Lemmas.BSplineValue
import PydlVerif.Lemmas.BSplineKnots
import Mathlib.Tactic.Ring
import Mathlib.Tactic.Linarith
import Mathlib.Tactic.FieldSimp
import Mathlib.Tactic.Positivity
import Mathlib.Algebra.BigOperators.Group.List.Basic
import Mathlib.Data.Rat.Floor
import Mathlib.Tactic.IntervalCases
namespace PydlVerif.C08
open PydlVerif PydlVerif.BSpline

variable {K : Type} [Field K] [LinearOrder K] [IsStrictOrderedRing K] [FloorRing K]

-- the model functions at the field interpretation (the statements themselves use the field operations)
local notation "stepK" => @bsplvnStep _ (fieldScalar _)
local notation "loopK" => @bsplvnLoop _ (fieldScalar _)
local notation "bsplvnK" => @bsplvn1 _ (fieldScalar _)
local notation "advK" => @intrvAdvance _ (fieldScalar _)
local notation "scanK" => @intrvScan _ (fieldScalar _)
local notation "intrvOfK" => @intrvOf _ (fieldScalar _)
local notation "cdbK" => @coxDeBoor _ (fieldScalar _)
local notation "cdbAtK" => @coxDeBoorAt _ (fieldScalar _)
local notation "dotK" => @dotFrom _ (fieldScalar _)
local notation "splineAtK" => @splineAt _ (fieldScalar _)

-- `sc_add … sc_one` (the model's operations at `fieldScalar K` are the field operations): Lemmas/BSplineKnots.lean

/-! ## bsplvn: partition of unity and non-negativity -/

theorem step_sum (dp dm : ℕ → K) (j : ℕ) (vs : List K) (l : ℕ) (vp : K)
    (hden : ∀ i, i < vs.length → dp (l+i) + dm (j - (l+i)) ≠ 0) :
    (stepK dp dm j l vp vs).sum = vp + vs.sum := by
  induction vs generalizing l vp with
  | nil => simp [bsplvnStep]
  | cons v vs ih =>
    simp only [bsplvnStep, List.sum_cons, sc_add, sc_mul, sc_div]
    rw [ih]
    · have h0 := hden 0 (by simp)
      simp only [Nat.add_zero] at h0
      field_simp
      ring
    · intro i hi
      have := hden (i+1) (by simp only [List.length_cons]; omega)
      rwa [show l + (i+1) = l + 1 + i by omega] at this


theorem step_length (dp dm : ℕ → K) (j : ℕ) (vs : List K) (l : ℕ) (vp : K) :
    (stepK dp dm j l vp vs).length = vs.length + 1 := by
  induction vs generalizing l vp with
  | nil => simp [bsplvnStep]
  | cons v vs ih => simp only [bsplvnStep, List.length_cons, ih]

theorem step_nonneg (dp dm : ℕ → K) (j : ℕ) (vs : List K) (l : ℕ) (vp : K)
    (hvp : 0 ≤ vp) (hvs : ∀ v ∈ vs, 0 ≤ v)
    (hdp : ∀ i, i < vs.length → 0 ≤ dp (l+i)) (hdm : ∀ i, i < vs.length → 0 ≤ dm (j - (l+i)))
    (hden : ∀ i, i < vs.length → 0 < dp (l+i) + dm (j - (l+i))) :
    ∀ w ∈ stepK dp dm j l vp vs, 0 ≤ w := by
  induction vs generalizing l vp with
  | nil => intro w hw; simp only [bsplvnStep, List.mem_singleton] at hw; rw [hw]; exact hvp
  | cons v vs ih =>
    have h0 := hden 0 (by simp)
    have hp0 := hdp 0 (by simp)
    have hm0 := hdm 0 (by simp)
    simp only [Nat.add_zero] at h0 hp0 hm0
    have hv : 0 ≤ v := hvs v (by simp)
    have hvm : 0 ≤ v / (dp l + dm (j - l)) := div_nonneg hv h0.le
    intro w hw
    simp only [bsplvnStep, List.mem_cons, sc_add, sc_mul, sc_div] at hw
    rcases hw with hw | hw
    · rw [hw]; exact add_nonneg (mul_nonneg hvm hp0) hvp
    · refine ih (l+1) _ (mul_nonneg hvm hm0) (fun u hu => hvs u (by simp [hu])) ?_ ?_ ?_ w hw
      · intro i hi
        have := hdp (i+1) (by simp only [List.length_cons]; omega)
        rwa [show l + (i+1) = l + 1 + i by omega] at this
      · intro i hi
        have := hdm (i+1) (by simp only [List.length_cons]; omega)
        rwa [show l + (i+1) = l + 1 + i by omega] at this
      · intro i hi
        have := hden (i+1) (by simp only [List.length_cons]; omega)
        rwa [show l + (i+1) = l + 1 + i by omega] at this

/-- loop invariant of `bsplvn`: after column `j` the `j+1` values are non-negative and sum to one -/
theorem loop_spec (dp dm : ℕ → K) (fuel j : ℕ) (v : List K)
    (hlen : v.length = j + 1) (hsum : v.sum = 1) (hnn : ∀ w ∈ v, 0 ≤ w)
    (H : ∀ a b, a + b < j + fuel → 0 ≤ dp a ∧ 0 ≤ dm b ∧ 0 < dp a + dm b) :
    (loopK dp dm fuel j v).length = j + fuel + 1 ∧ (loopK dp dm fuel j v).sum = 1 ∧
      ∀ w ∈ loopK dp dm fuel j v, 0 ≤ w := by
  induction fuel generalizing j v with
  | zero => simp only [bsplvnLoop]; exact ⟨by omega, hsum, hnn⟩
  | succ f ih =>
    simp only [bsplvnLoop, sc_zero]
    have hj : ∀ i, i < v.length → i + (j - i) < j + (f + 1) := by intro i hi; omega
    have := ih (j+1) (stepK dp dm j 0 0 v) (by rw [step_length, hlen]) ?_ ?_ ?_
    · rw [show j + (f + 1) + 1 = j + 1 + f + 1 by omega]; exact this
    · rw [step_sum, hsum, zero_add]
      intro i hi; rw [Nat.zero_add]; exact ne_of_gt (H i (j - i) (hj i hi)).2.2
    · refine step_nonneg dp dm j v 0 0 le_rfl hnn ?_ ?_ ?_
      · intro i hi; rw [Nat.zero_add]; exact (H i (j - i) (hj i hi)).1
      · intro i hi; rw [Nat.zero_add]; exact (H i (j - i) (hj i hi)).2.1
      · intro i hi; rw [Nat.zero_add]; exact (H i (j - i) (hj i hi)).2.2
    · intro a b hab; exact H a b (by omega)

/-- hypotheses on the knots around interval `i` under which `bsplvn` divides by non-zero numbers:
non-decreasing on the `2(k-1)` knots it reads, `t i ≤ x ≤ t (i+1)`, and a non-empty interval -/
structure Bracket (t : ℕ → K) (k i : ℕ) (x : K) : Prop where
  hk : 1 ≤ k
  hik : k ≤ i + 1
  mono : ∀ a b, a ≤ b → b ≤ i + k - 1 → t a ≤ t b
  lo : t i ≤ x
  hi : x ≤ t (i+1)
  strict : t i < t (i+1)

theorem bsplvn_all (t : ℕ → K) (k i : ℕ) (x : K) (h : Bracket t k i x) :
    (bsplvnK t k x i).length = k ∧ (bsplvnK t k x i).sum = 1 ∧ ∀ w ∈ bsplvnK t k x i, 0 ≤ w := by
  obtain ⟨hk, hik, mono, lo, hi, strict⟩ := h
  have := loop_spec (K := K) (fun l => t (i + l + 1) - x) (fun l => x - t (i - l)) (k - 1) 0 [1]
    (by simp) (by simp) (by intro w hw; simp only [List.mem_singleton] at hw; rw [hw]; exact zero_le_one) ?_
  · simp only [bsplvn1, sc_sub, sc_one]
    rw [show 0 + (k - 1) + 1 = k by omega] at this
    exact this
  · intro a b hab
    have h1 : t (i+1) ≤ t (i + a + 1) := mono _ _ (by omega) (by omega)
    have h2 : t (i - b) ≤ t i := mono _ _ (by omega) (by omega)
    refine ⟨by linarith, by linarith, by linarith⟩

/-- **bsplvn_sum_one**: at a point of a non-empty knot interval the `nord` values returned by `bsplvn` sum to one -/
theorem bsplvn_sum_one (t : ℕ → K) (k i : ℕ) (x : K) (h : Bracket t k i x) : (bsplvnK t k x i).sum = 1 :=
  (bsplvn_all t k i x h).2.1

/-- **bsplvn_nonneg**: ... and all of them are non-negative -/
theorem bsplvn_nonneg (t : ℕ → K) (k i : ℕ) (x : K) (h : Bracket t k i x) : ∀ w ∈ bsplvnK t k x i, 0 ≤ w :=
  (bsplvn_all t k i x h).2.2

theorem bsplvn_length (t : ℕ → K) (k i : ℕ) (x : K) (hk : 1 ≤ k) : (bsplvnK t k x i).length = k := by
  have : ∀ (dp dm : ℕ → K) fuel j (v : List K), v.length = j + 1 → (loopK dp dm fuel j v).length = j + fuel + 1 := by
    intro dp dm fuel
    induction fuel with
    | zero => intro j v h; simpa [bsplvnLoop] using h
    | succ f ih => intro j v h; simp only [bsplvnLoop]; rw [ih (j+1) _ (by rw [step_length, h])]; omega
  simp only [bsplvn1]
  rw [this _ _ _ 0 _ (by simp)]; omega


/-! ## intrv: the stateful scan brackets every point -/

/-- the loop condition of `intrv` at position `m`: `x > gb[m+1] and m < n-1` -/
def Cond (t : ℕ → K) (n : ℕ) (x : K) (m : ℕ) : Prop := t (m+1) < x ∧ m + 1 < n

open Classical in
theorem adv_succ (t : ℕ → K) (n : ℕ) (x : K) (fuel i : ℕ) :
    advK t n x (fuel+1) i = if Cond t n x i then advK t n x fuel (i+1) else i := by
  by_cases h : Cond t n x i
  · have h' : t (i+1) < x ∧ i + 1 < n := h
    rw [if_pos h]; simp only [intrvAdvance, sc_lt]; rw [if_pos h']
  · have h' : ¬ (t (i+1) < x ∧ i + 1 < n) := h
    rw [if_neg h]; simp only [intrvAdvance, sc_lt]; rw [if_neg h']

theorem adv_ge (t : ℕ → K) (n : ℕ) (x : K) (fuel i : ℕ) : i ≤ advK t n x fuel i := by
  induction fuel generalizing i with
  | zero => simp [intrvAdvance]
  | succ f ih =>
    rw [adv_succ]; split
    · exact Nat.le_trans (Nat.le_succ i) (ih (i+1))
    · exact Nat.le_refl i

theorem adv_all (t : ℕ → K) (n : ℕ) (x : K) (fuel i m : ℕ) (h1 : i ≤ m) (h2 : m < advK t n x fuel i) :
    Cond t n x m := by
  induction fuel generalizing i with
  | zero => simp [intrvAdvance] at h2; omega
  | succ f ih =>
    rw [adv_succ] at h2; split at h2
    · rename_i hc
      by_cases hm : m = i
      · rw [hm]; exact hc
      · exact ih (i+1) (by omega) h2
    · omega

theorem adv_stop (t : ℕ → K) (n : ℕ) (x : K) (fuel i : ℕ) (hf : n ≤ i + fuel) :
    ¬ Cond t n x (advK t n x fuel i) := by
  induction fuel generalizing i with
  | zero => simp only [intrvAdvance, Cond]; intro h; omega
  | succ f ih =>
    rw [adv_succ]; split
    · exact ih (i+1) (by omega)
    · assumption

theorem adv_unique (t : ℕ → K) (n : ℕ) (x : K) (fuel i r : ℕ) (hf : n ≤ i + fuel) (hir : i ≤ r)
    (hall : ∀ m, i ≤ m → m < r → Cond t n x m) (hstop : ¬ Cond t n x r) : advK t n x fuel i = r := by
  rcases Nat.lt_trichotomy (advK t n x fuel i) r with h | h | h
  · exact absurd (hall _ (adv_ge t n x fuel i) h) (adv_stop t n x fuel i hf)
  · exact h
  · exact absurd (adv_all t n x fuel i r hir h) hstop

/-- the carried `ileft` does not matter for sorted points: every point gets the index it would
get when the search started at the first interval -/
theorem scan_pointwise (t : ℕ → K) (n k0 : ℕ) (xs : List K) (hs : xs.Pairwise (· ≤ ·)) (i : ℕ) (hi : k0 ≤ i)
    (hinv : ∀ m, k0 ≤ m → m < i → m + 1 < n ∧ ∀ x ∈ xs, t (m+1) < x) :
    scanK t n xs i = xs.map (fun x => advK t n x (n - k0) k0) := by
  induction xs generalizing i with
  | nil => simp [intrvScan]
  | cons x xs ih =>
    simp only [intrvScan, List.map_cons]
    have hx : advK t n x (n - i) i = advK t n x (n - k0) k0 := by
      symm
      apply adv_unique t n x (n - k0) k0 _ (by omega) (Nat.le_trans hi (adv_ge t n x (n-i) i))
      · intro m h1 h2
        by_cases hm : m < i
        · exact ⟨(hinv m h1 hm).2 x (by simp), (hinv m h1 hm).1⟩
        · exact adv_all t n x (n-i) i m (by omega) h2
      · exact adv_stop t n x (n-i) i (by omega)
    rw [List.pairwise_cons] at hs
    rw [ih hs.2 (advK t n x (n - i) i) (Nat.le_trans hi (adv_ge t n x (n-i) i)), hx]
    intro m h1 h2
    by_cases hm : m < i
    · exact ⟨(hinv m h1 hm).1, fun y hy => (hinv m h1 hm).2 y (by simp [hy])⟩
    · have hc := adv_all t n x (n-i) i m (by omega) h2
      exact ⟨hc.2, fun y hy => lt_of_lt_of_le hc.1 (hs.1 y hy)⟩

/-- **intrv_pointwise**: on points sorted in non-decreasing order `intrv` returns for every point
the interval found by searching from the first interval (no assumption on the knots) -/
theorem intrv_pointwise (t : ℕ → K) (k n : ℕ) (xs : List K) (hs : xs.Pairwise (· ≤ ·)) :
    scanK t n xs (k - 1) = xs.map (intrvOfK t k n) := by
  rw [scan_pointwise t n (k-1) xs hs (k-1) (Nat.le_refl _) (by intro m h1 h2; omega)]
  rfl

/-- **intrv_bracket**: for `t[k-1] ≤ x ≤ t[n]` the interval index `i` satisfies `k-1 ≤ i ≤ n-1` and
`t[i] ≤ x ≤ t[i+1]`; the interval is non-empty when the first one is (`t[k-1] < t[k]`):
`intrv` never stops at an empty interior interval -/
theorem intrv_bracket (t : ℕ → K) (k n : ℕ) (x : K) (hk : 1 ≤ k) (hkn : k ≤ n)
    (hlo : t (k-1) ≤ x) (hhi : x ≤ t n) :
    k - 1 ≤ intrvOfK t k n x ∧ intrvOfK t k n x ≤ n - 1 ∧
    t (intrvOfK t k n x) ≤ x ∧ x ≤ t (intrvOfK t k n x + 1) ∧
    (t (k-1) < t k → t (intrvOfK t k n x) < t (intrvOfK t k n x + 1)) := by
  have hge := adv_ge t n x (n - (k-1)) (k-1)
  have hall := adv_all t n x (n - (k-1)) (k-1)
  have hstop := adv_stop t n x (n - (k-1)) (k-1) (by omega)
  simp only [intrvOf]
  generalize advK t n x (n - (k-1)) (k-1) = r at *
  have hle : r ≤ n - 1 := by
    by_contra hc
    have := (hall (r-1) (by omega) (by omega)).2
    omega
  have hlow : t r ≤ x := by
    by_cases hr : r = k - 1
    · rw [hr]; exact hlo
    · have := (hall (r-1) (by omega) (by omega)).1
      rw [show r - 1 + 1 = r by omega] at this; exact this.le
  have hup : x ≤ t (r+1) := by
    by_cases hr : r + 1 < n
    · by_contra hc; exact hstop ⟨lt_of_not_ge hc, hr⟩
    · rw [show r + 1 = n by omega]; exact hhi
  refine ⟨hge, hle, hlow, hup, ?_⟩
  intro hfirst
  by_cases hr : r = k - 1
  · rw [hr, show k - 1 + 1 = k by omega]; exact hfirst
  · have := (hall (r-1) (by omega) (by omega)).1
    rw [show r - 1 + 1 = r by omega] at this
    exact lt_of_lt_of_le this hup

/-- **intrv_mono**: the interval index is monotone in the point -/
theorem intrv_mono (t : ℕ → K) (k n : ℕ) (x y : K) (hxy : x ≤ y) : intrvOfK t k n x ≤ intrvOfK t k n y := by
  by_contra hc
  have hc : intrvOfK t k n y < intrvOfK t k n x := Nat.lt_of_not_le hc
  have h1 := adv_all t n x (n - (k-1)) (k-1) _ (adv_ge t n y (n - (k-1)) (k-1)) hc
  exact adv_stop t n y (n - (k-1)) (k-1) (by omega) ⟨lt_of_lt_of_le h1.1 hxy, h1.2⟩


/-! ## mask -/
local notation "maskK" => @maskOf _ (fieldScalar _)

theorem goodIdx_all (mask : List Bool) (h : ∀ b ∈ mask, b = true) : goodIdx mask = List.range mask.length := by
  unfold goodIdx
  rw [List.filter_eq_self]
  intro i hi
  rw [List.mem_range] at hi
  rw [List.getD_eq_getElem?_getD, List.getElem?_eq_getElem hi]
  exact h _ (List.getElem_mem hi)

/-- **mask_outside**: while no breakpoint is masked (`goodbk = 0..N-1`) the validity mask of `value` is
False exactly for the points outside `[t[k-1], t[n]]` -/
theorem mask_outside (bp gbk : ℕ → K) (N k n : ℕ) (xs : List K) (p : ℕ) (hp : p < xs.length) :
    ∃ b, (maskK bp gbk (List.range N) k n xs)[p]? = some b ∧
      (b = false ↔ (xs[p] < gbk (k-1) ∨ gbk n < xs[p])) := by
  have hnil : (List.range ((List.range N).length - 1)).filter
      (fun j => decide ((List.range N).getD (j+1) 0 - (List.range N).getD j 0 > 2)) = [] := by
    rw [List.filter_eq_nil_iff]
    intro j hj
    rw [List.mem_range, List.length_range] at hj
    rw [List.getD_eq_getElem?_getD, List.getD_eq_getElem?_getD,
      List.getElem?_range (by omega), List.getElem?_range (by omega)]
    simp
  simp only [maskOf, hnil, List.any_nil, Bool.or_false, List.getElem?_map, List.getElem?_eq_getElem hp,
    Option.map_some, sc_lt]
  refine ⟨_, rfl, ?_⟩
  simp only [Bool.not_eq_false', Bool.or_eq_true, decide_eq_true_eq]


/-! ## value: per-interval dot products, un-sorting -/
local notation "fillRowsK" => @fillRows _ (fieldScalar _)
local notation "unsortK" => @unsort _

theorem foldl_set_spec {β : Type} (l : List (ℕ × β)) (init : List β) (hnd : (l.map Prod.fst).Nodup) :
    (l.foldl (fun (yy : List β) (pv : ℕ × β) => yy.set pv.1 pv.2) init).length = init.length ∧
    (∀ kv ∈ l, kv.1 < init.length →
      (l.foldl (fun (yy : List β) (pv : ℕ × β) => yy.set pv.1 pv.2) init)[kv.1]? = some kv.2) ∧
    (∀ q, q ∉ l.map Prod.fst →
      (l.foldl (fun (yy : List β) (pv : ℕ × β) => yy.set pv.1 pv.2) init)[q]? = init[q]?) := by
  induction l generalizing init with
  | nil => simp
  | cons a l ih =>
    rw [List.map_cons, List.nodup_cons] at hnd
    obtain ⟨h1, h2, h3⟩ := ih (init.set a.1 a.2) hnd.2
    simp only [List.foldl_cons]
    refine ⟨by rw [h1, List.length_set], ?_, ?_⟩
    · intro kv hkv hlt
      rcases List.mem_cons.1 hkv with h | h
      · rw [h, h3 a.1 hnd.1, List.getElem?_set_self (by rw [h] at hlt; exact hlt)]
      · exact h2 kv h (by rw [List.length_set]; exact hlt)
    · intro q hq
      rw [List.map_cons, List.mem_cons, not_or] at hq
      rw [h3 q hq.2, List.getElem?_set_ne (Ne.symm hq.1)]

/-- `yy[xsort] = yfit` puts the value computed for sorted position `p` at caller position `perm[p]` -/
theorem unsort_spec (perm : List ℕ) (yfit : List K) (hperm : perm.Perm (List.range yfit.length))
    (p : ℕ) (hp : p < perm.length) : (unsortK perm yfit)[perm[p]]? = yfit[p]? := by
  have hlen : perm.length = yfit.length := by rw [hperm.length_eq, List.length_range]
  have hnd : perm.Nodup := hperm.nodup_iff.2 List.nodup_range
  have hfst : (perm.zip yfit).map Prod.fst = perm := List.map_fst_zip (by omega)
  obtain ⟨_, h2, _⟩ := foldl_set_spec (perm.zip yfit) yfit (by rw [hfst]; exact hnd)
  have hmem : (perm[p], yfit[p]'(by omega)) ∈ perm.zip yfit := by
    rw [List.mem_iff_getElem]
    exact ⟨p, by simp; omega, by simp⟩
  have hlt : perm[p] < yfit.length := by
    have := (hperm.mem_iff (a := perm[p])).1 (List.getElem_mem hp)
    exact List.mem_range.1 this
  have := h2 _ hmem hlt
  simp only [unsort]
  rw [this, List.getElem?_eq_getElem (by omega)]

theorem unsort_length (perm : List ℕ) (yfit : List K) (hperm : perm.Perm (List.range yfit.length)) :
    (unsortK perm yfit).length = yfit.length := by
  have hlen : perm.length = yfit.length := by rw [hperm.length_eq, List.length_range]
  have hnd : perm.Nodup := hperm.nodup_iff.2 List.nodup_range
  have hfst : (perm.zip yfit).map Prod.fst = perm := List.map_fst_zip (by omega)
  exact (foldl_set_spec (perm.zip yfit) yfit (by rw [hfst]; exact hnd)).1

/-- the loop over the intervals: when `i0` is the one interval whose row range `lower..upper`
contains row `p`, row `p` receives the dot product with coefficients `i0 .. i0+k-1` -/
theorem fillRows_spec (rows : List (List K)) (c : ℕ → K) (lower upper : Array ℤ) (m nx p i0 : ℕ)
    (hp : p < nx) (hi0 : i0 < m)
    (H : ∀ i, i < m → ((lower[i]! ≤ (p:ℤ) ∧ (p:ℤ) ≤ upper[i]!) ↔ i = i0)) :
    (fillRowsK rows c lower upper m nx).length = nx ∧
    (fillRowsK rows c lower upper m nx)[p]? = some (dotK c (rows.getD p []) i0) := by
  simp only [fillRows, sc_zero]
  suffices h : ∀ m', m' ≤ m →
      ((List.range m').foldl (fun (y : List K) i =>
        if upper[i]! - lower[i]! + 1 > 0 then
          y.mapIdx (fun p v => if lower[i]! ≤ (p : ℤ) ∧ (p : ℤ) ≤ upper[i]! then dotK c (rows.getD p []) i else v)
        else y) (List.replicate nx 0)).length = nx ∧
      ((List.range m').foldl (fun (y : List K) i =>
        if upper[i]! - lower[i]! + 1 > 0 then
          y.mapIdx (fun p v => if lower[i]! ≤ (p : ℤ) ∧ (p : ℤ) ≤ upper[i]! then dotK c (rows.getD p []) i else v)
        else y) (List.replicate nx 0))[p]? = some (if i0 < m' then dotK c (rows.getD p []) i0 else 0) by
    have := h m (Nat.le_refl m)
    rw [if_pos hi0] at this
    exact this
  intro m'
  induction m' with
  | zero => intro _; simp [hp]
  | succ m' ih =>
    intro hm'
    obtain ⟨ihl, ihp⟩ := ih (by omega)
    rw [List.range_succ, List.foldl_append, List.foldl_cons, List.foldl_nil]
    have hH := H m' (by omega)
    split
    · rename_i hpos
      refine ⟨by rw [List.length_mapIdx, ihl], ?_⟩
      rw [List.getElem?_mapIdx, ihp, Option.map_some]
      by_cases hc : lower[m']! ≤ (p:ℤ) ∧ (p:ℤ) ≤ upper[m']!
      · have h0 : m' = i0 := hH.1 hc
        rw [if_pos hc, h0, if_pos (by omega)]
      · have h0 : m' ≠ i0 := fun h => hc (hH.2 h)
        rw [if_neg hc]
        by_cases h1 : i0 < m'
        · rw [if_pos h1, if_pos (by omega)]
        · rw [if_neg h1, if_neg (by omega)]
    · rename_i hpos
      refine ⟨ihl, ?_⟩
      rw [ihp]
      have h0 : m' ≠ i0 := by
        intro h
        have := hH.2 h
        omega
      by_cases h1 : i0 < m'
      · rw [if_pos h1, if_pos (by omega)]
      · rw [if_neg h1, if_neg (by omega)]


theorem fillRows_length (rows : List (List K)) (c : ℕ → K) (lower upper : Array ℤ) (m nx : ℕ) :
    (fillRowsK rows c lower upper m nx).length = nx := by
  simp only [fillRows]
  induction m with
  | zero => simp
  | succ m ih =>
    rw [List.range_succ, List.foldl_append, List.foldl_cons, List.foldl_nil]
    split
    · rw [List.length_mapIdx, ih]
    · exact ih

theorem intrvOf_le (t : ℕ → K) (k n : ℕ) (x : K) (hk : 1 ≤ k) (hkn : k ≤ n) : intrvOfK t k n x ≤ n - 1 := by
  have hall := adv_all t n x (n - (k-1)) (k-1)
  simp only [intrvOf]
  generalize advK t n x (n - (k-1)) (k-1) = r at *
  by_contra hc
  have := (hall (r-1) (by omega) (by omega)).2
  omega

-- `RowsOf lower upper indx k m` (rows `lower[i]..upper[i]` = rows of interval `i+k-1`): Lemmas/BSplineRows.lean

/-- **value_spec_partial**: the body of `value` (`fillRows` over the rows of `bsplvn` at the sorted
points, then `yy[xsort] = yfit`) returns, in the caller's order, for every point `x` the number
`Σ_m bsplvn(x)[m]·coeff[indx(x)-k+1+m]` (`splineAt`), for every sorting permutation `perm`.
General form over ANY `lower/upper` that satisfy `RowsOf`; the `lower/upper` that `action` computes do
(`rowsOf_action`), which gives the hypothesis-free `value_spec` below. -/
theorem value_spec_partial (t c : ℕ → K) (k n : ℕ) (hk : 1 ≤ k) (hkn : k ≤ n) (xs : List K) (perm : List ℕ)
    (hperm : perm.Perm (List.range xs.length))
    (hsorted : (perm.map (fun p => xs.getD p 0)).Pairwise (· ≤ ·))
    (lower upper : Array ℤ)
    (hrows : RowsOf lower upper (scanK t n (perm.map (fun p => xs.getD p 0)) (k-1)) k (n-k+1)) :
    unsortK perm (fillRowsK (List.zipWith (fun x i => bsplvnK t k x i) (perm.map (fun p => xs.getD p 0))
        (scanK t n (perm.map (fun p => xs.getD p 0)) (k-1))) c lower upper (n-k+1) xs.length)
      = xs.map (splineAtK t c k n) := by
  have hplen : perm.length = xs.length := by rw [hperm.length_eq, List.length_range]
  rw [intrv_pointwise t k n _ hsorted] at hrows ⊢
  obtain ⟨xw, hxw⟩ : ∃ xw, xw = perm.map (fun p => xs.getD p 0) := ⟨_, rfl⟩
  rw [← hxw] at hrows hsorted ⊢
  have hxwlen : xw.length = xs.length := by rw [hxw, List.length_map, hplen]
  obtain ⟨rows, hrowsdef⟩ : ∃ rows, rows = List.zipWith (fun x i => bsplvnK t k x i) xw (xw.map (intrvOfK t k n)) := ⟨_, rfl⟩
  rw [← hrowsdef]
  -- every row of the fill
  have hfill : ∀ p, p < xs.length →
      (fillRowsK rows c lower upper (n-k+1) xs.length).length = xs.length ∧
      (fillRowsK rows c lower upper (n-k+1) xs.length)[p]? =
        some (splineAtK t c k n (xs.getD (perm.getD p 0) 0)) := by
    intro p hp
    have hpx : p < xw.length := by omega
    have hxp : xw[p] = xs.getD (perm.getD p 0) 0 := by
      simp only [hxw, List.getElem_map]
      rw [List.getD_eq_getElem?_getD (l := perm), List.getElem?_eq_getElem (by omega)]; rfl
    have hi0 : (xw.map (intrvOfK t k n)).getD p 0 = intrvOfK t k n (xw[p]) := by
      rw [List.getD_eq_getElem?_getD, List.getElem?_map, List.getElem?_eq_getElem hpx]; rfl
    have hle := intrvOf_le t k n (xw[p]) hk hkn
    have := fillRows_spec rows c lower upper (n-k+1) xs.length p (intrvOfK t k n (xw[p]) + 1 - k) hp (by omega)
      (by intro i hi; rw [← hi0]; exact hrows p (by rw [List.length_map]; exact hpx) i hi)
    refine ⟨this.1, ?_⟩
    rw [this.2]
    have hrow : rows.getD p [] = bsplvnK t k (xw[p]) (intrvOfK t k n (xw[p])) := by
      have h1 : xw[p]? = some xw[p] := List.getElem?_eq_getElem hpx
      have h2 : (xw.map (intrvOfK t k n))[p]? = some (intrvOfK t k n xw[p]) := by
        rw [List.getElem?_map, h1]; rfl
      rw [List.getD_eq_getElem?_getD, hrowsdef, List.getElem?_zipWith, h1, h2]; rfl
    rw [hrow, hxp]
    rfl
  have hflen : (fillRowsK rows c lower upper (n-k+1) xs.length).length = xs.length := fillRows_length _ _ _ _ _ _
  have hperm' : perm.Perm (List.range (fillRowsK rows c lower upper (n-k+1) xs.length).length) := by
    rw [hflen]; exact hperm
  apply List.ext_getElem?
  intro q
  by_cases hq : q < xs.length
  · have hmem : q ∈ perm := (hperm.mem_iff).2 (List.mem_range.2 hq)
    obtain ⟨p, hp, hpq⟩ := List.mem_iff_getElem.1 hmem
    have := unsort_spec perm _ hperm' p hp
    rw [hpq] at this
    rw [this, (hfill p (by omega)).2, List.getElem?_map, List.getElem?_eq_getElem hq, Option.map_some]
    rw [List.getD_eq_getElem?_getD (l := perm), List.getElem?_eq_getElem hp, Option.getD_some, hpq,
      List.getD_eq_getElem?_getD, List.getElem?_eq_getElem hq, Option.getD_some]
  · rw [List.getElem?_eq_none (by rw [unsort_length _ _ hperm', hflen]; omega),
      List.getElem?_eq_none (by rw [List.length_map]; omega)]


/-- **value_perm**: evaluation commutes with re-ordering (or repeating) the points: for any index list
`σ`, any sorting permutations of the two point lists, the result for `x∘σ` is (the result for `x`)∘σ -/
theorem value_perm (t c : ℕ → K) (k n : ℕ) (hk : 1 ≤ k) (hkn : k ≤ n) (xs : List K) (σ perm perm' : List ℕ)
    (hσ : ∀ q ∈ σ, q < xs.length)
    (hperm : perm.Perm (List.range xs.length))
    (hsorted : (perm.map (fun p => xs.getD p 0)).Pairwise (· ≤ ·))
    (hperm' : perm'.Perm (List.range (σ.map (fun q => xs.getD q 0)).length))
    (hsorted' : (perm'.map (fun p => (σ.map (fun q => xs.getD q 0)).getD p 0)).Pairwise (· ≤ ·))
    (lower upper lower' upper' : Array ℤ)
    (hrows : RowsOf lower upper (scanK t n (perm.map (fun p => xs.getD p 0)) (k-1)) k (n-k+1))
    (hrows' : RowsOf lower' upper'
      (scanK t n (perm'.map (fun p => (σ.map (fun q => xs.getD q 0)).getD p 0)) (k-1)) k (n-k+1)) :
    unsortK perm' (fillRowsK (List.zipWith (fun x i => bsplvnK t k x i)
        (perm'.map (fun p => (σ.map (fun q => xs.getD q 0)).getD p 0))
        (scanK t n (perm'.map (fun p => (σ.map (fun q => xs.getD q 0)).getD p 0)) (k-1)))
        c lower' upper' (n-k+1) (σ.map (fun q => xs.getD q 0)).length)
      = σ.map (fun q => (unsortK perm (fillRowsK (List.zipWith (fun x i => bsplvnK t k x i)
        (perm.map (fun p => xs.getD p 0)) (scanK t n (perm.map (fun p => xs.getD p 0)) (k-1)))
        c lower upper (n-k+1) xs.length)).getD q 0) := by
  rw [value_spec_partial t c k n hk hkn xs perm hperm hsorted lower upper hrows,
    value_spec_partial t c k n hk hkn _ perm' hperm' hsorted' lower' upper' hrows', List.map_map]
  apply List.map_congr_left
  intro q hq
  have := hσ q hq
  simp only [Function.comp]
  rw [List.getD_eq_getElem?_getD, List.getD_eq_getElem?_getD, List.getElem?_map,
    List.getElem?_eq_getElem this, Option.map_some, Option.getD_some, Option.getD_some]

/-! ## the `uniq` bookkeeping of `action` delivers the rows of each interval (no hypothesis left) -/
local notation "lowerUpperK" => @lowerUpper

theorem scan_facts (t : ℕ → K) (k n : ℕ) (hk : 1 ≤ k) (hkn : k ≤ n) (xw : List K) (hne : xw ≠ [])
    (hsorted : xw.Pairwise (· ≤ ·)) :
    scanK t n xw (k-1) ≠ [] ∧ (scanK t n xw (k-1)).Pairwise (· ≤ ·) ∧
    ∀ v ∈ scanK t n xw (k-1), k - 1 ≤ v ∧ v + 1 ≤ n := by
  rw [intrv_pointwise t k n xw hsorted]
  refine ⟨by simpa using hne, ?_, ?_⟩
  · rw [List.pairwise_map]; exact hsorted.imp (fun h => intrv_mono t k n _ _ h)
  · intro v hv
    rw [List.mem_map] at hv
    obtain ⟨x, _, rfl⟩ := hv
    have h1 : k - 1 ≤ intrvOfK t k n x := adv_ge t n x (n-(k-1)) (k-1)
    have h2 := intrvOf_le t k n x hk hkn
    exact ⟨h1, by omega⟩

/-- **rowsOf_action**: for points sorted in non-decreasing order (any knots), the `lower`/`upper` that the
model's `action` computes through `uniq` from the scanned interval indices satisfy `RowsOf`: rows
`lower[i]..upper[i]` are exactly the rows whose point lies in interval `i+k-1` -/
theorem rowsOf_action (t : ℕ → K) (k n : ℕ) (hk : 1 ≤ k) (hkn : k ≤ n) (xw : List K) (hne : xw ≠ [])
    (hsorted : xw.Pairwise (· ≤ ·)) :
    RowsOf (lowerUpper k n (scanK t n xw (k-1)).toArray).1 (lowerUpper k n (scanK t n xw (k-1)).toArray).2
      (scanK t n xw (k-1)) k (n-k+1) := by
  obtain ⟨h1, h2, h3⟩ := scan_facts t k n hk hkn xw hne hsorted
  exact rowsOf_lowerUpper k n _ hk hkn h1 h2 h3

/-- **action_first_last**: ... and more precisely `lower[i]` is the first and `upper[i]` the last sorted position
whose interval index is `i+k-1`; an interval that holds no point gets the empty range `lower = 0`, `upper = -1` -/
theorem action_first_last (t : ℕ → K) (k n : ℕ) (hk : 1 ≤ k) (hkn : k ≤ n) (xw : List K) (hne : xw ≠ [])
    (hsorted : xw.Pairwise (· ≤ ·)) (i : ℕ) (hi : i < n - k + 1) :
    let indx := scanK t n xw (k-1)
    let lu := lowerUpper k n indx.toArray
    ((∃ p, p < indx.length ∧ indx.getD p 0 = i + k - 1) →
      ∃ a b : ℕ, lu.1[i]! = (a : ℤ) ∧ lu.2[i]! = (b : ℤ) ∧ a ≤ b ∧ b < indx.length ∧
        indx.getD a 0 = i + k - 1 ∧ indx.getD b 0 = i + k - 1 ∧
        ∀ p, p < indx.length → indx.getD p 0 = i + k - 1 → a ≤ p ∧ p ≤ b) ∧
    ((∀ p, p < indx.length → indx.getD p 0 ≠ i + k - 1) → lu.1[i]! = 0 ∧ lu.2[i]! = -1 ∧ lu.2[i]! < lu.1[i]!) := by
  obtain ⟨h1, h2, h3⟩ := scan_facts t k n hk hkn xw hne hsorted
  exact lowerUpper_first_last k n _ hk hkn h1 h2 h3 i hi

/-- **value_spec**: the body of `value` - `fillRows` over the rows of `bsplvn` at the sorted points with the
`lower`/`upper` computed by `action`, then `yy[xsort] = yfit` - returns, in the caller's order, for every point
`x` the number `Σ_m bsplvn(x)[m]·coeff[indx(x)-k+1+m]` (`splineAt`), for every sorting permutation `perm`.
No hypothesis on `lower`/`upper` (`rowsOf_action`). -/
theorem value_spec (t c : ℕ → K) (k n : ℕ) (hk : 1 ≤ k) (hkn : k ≤ n) (xs : List K) (hne : xs ≠ []) (perm : List ℕ)
    (hperm : perm.Perm (List.range xs.length))
    (hsorted : (perm.map (fun p => xs.getD p 0)).Pairwise (· ≤ ·)) :
    unsortK perm (fillRowsK (List.zipWith (fun x i => bsplvnK t k x i) (perm.map (fun p => xs.getD p 0))
        (scanK t n (perm.map (fun p => xs.getD p 0)) (k-1))) c
        (lowerUpper k n (scanK t n (perm.map (fun p => xs.getD p 0)) (k-1)).toArray).1
        (lowerUpper k n (scanK t n (perm.map (fun p => xs.getD p 0)) (k-1)).toArray).2 (n-k+1) xs.length)
      = xs.map (splineAtK t c k n) := by
  have hplen : perm.length = xs.length := by rw [hperm.length_eq, List.length_range]
  have hne' : perm.map (fun p => xs.getD p 0) ≠ [] := by
    intro h
    have h1 := congrArg List.length h
    rw [List.length_map, hplen] at h1
    exact hne (List.length_eq_zero_iff.1 h1)
  exact value_spec_partial t c k n hk hkn xs perm hperm hsorted _ _
    (rowsOf_action t k n hk hkn _ hne' hsorted)

/-- **value_perm_action**: `value_perm` with the `lower`/`upper` of `action` on both sides (no hypothesis):
for any non-empty index list `σ`, `value(x∘σ) = value(x)∘σ`, whatever sorting permutations `argsort` returned -/
theorem value_perm_action (t c : ℕ → K) (k n : ℕ) (hk : 1 ≤ k) (hkn : k ≤ n) (xs : List K) (σ perm perm' : List ℕ)
    (hσ : ∀ q ∈ σ, q < xs.length) (hσne : σ ≠ [])
    (hperm : perm.Perm (List.range xs.length))
    (hsorted : (perm.map (fun p => xs.getD p 0)).Pairwise (· ≤ ·))
    (hperm' : perm'.Perm (List.range (σ.map (fun q => xs.getD q 0)).length))
    (hsorted' : (perm'.map (fun p => (σ.map (fun q => xs.getD q 0)).getD p 0)).Pairwise (· ≤ ·)) :
    unsortK perm' (fillRowsK (List.zipWith (fun x i => bsplvnK t k x i)
        (perm'.map (fun p => (σ.map (fun q => xs.getD q 0)).getD p 0))
        (scanK t n (perm'.map (fun p => (σ.map (fun q => xs.getD q 0)).getD p 0)) (k-1))) c
        (lowerUpper k n (scanK t n (perm'.map (fun p => (σ.map (fun q => xs.getD q 0)).getD p 0)) (k-1)).toArray).1
        (lowerUpper k n (scanK t n (perm'.map (fun p => (σ.map (fun q => xs.getD q 0)).getD p 0)) (k-1)).toArray).2
        (n-k+1) (σ.map (fun q => xs.getD q 0)).length)
      = σ.map (fun q => (unsortK perm (fillRowsK (List.zipWith (fun x i => bsplvnK t k x i)
        (perm.map (fun p => xs.getD p 0)) (scanK t n (perm.map (fun p => xs.getD p 0)) (k-1))) c
        (lowerUpper k n (scanK t n (perm.map (fun p => xs.getD p 0)) (k-1)).toArray).1
        (lowerUpper k n (scanK t n (perm.map (fun p => xs.getD p 0)) (k-1)).toArray).2 (n-k+1) xs.length)).getD q 0) := by
  have hxs : xs ≠ [] := by
    intro h
    cases σ with
    | nil => exact hσne rfl
    | cons q _ => have := hσ q List.mem_cons_self; rw [h] at this; simp at this
  have hplen : perm.length = xs.length := by rw [hperm.length_eq, List.length_range]
  have hplen' : perm'.length = σ.length := by rw [hperm'.length_eq, List.length_range, List.length_map]
  have hne1 : perm.map (fun p => xs.getD p 0) ≠ [] := by
    intro h
    have h1 := congrArg List.length h
    rw [List.length_map, hplen] at h1
    exact hxs (List.length_eq_zero_iff.1 h1)
  have hne2 : perm'.map (fun p => (σ.map (fun q => xs.getD q 0)).getD p 0) ≠ [] := by
    intro h
    have h1 := congrArg List.length h
    rw [List.length_map, hplen'] at h1
    exact hσne (List.length_eq_zero_iff.1 h1)
  exact value_perm t c k n hk hkn xs σ perm perm' hσ hperm hsorted hperm' hsorted' _ _ _ _
    (rowsOf_action t k n hk hkn _ hne1 hsorted) (rowsOf_action t k n hk hkn _ hne2 hsorted')

/-! ## bsplvn = Cox-de Boor -/
local notation "WK" => @cdbW _ (fieldScalar _)
local notation "W'K" => @cdbW' _ (fieldScalar _)

theorem cdbAt_succ2 (t : ℕ → K) (i k j : ℕ) (x : K) :
    cdbAtK t i (k+2) j x = WK t j (k+1) x * cdbAtK t i (k+1) j x + W'K t (j+1) (k+1) x * cdbAtK t i (k+1) (j+1) x := by
  simp only [coxDeBoorAt, sc_add, sc_mul]

theorem W_pos (t : ℕ → K) (j k : ℕ) (x : K) (h : t j < t (j+k)) : WK t j k x = (x - t j) / (t (j+k) - t j) := by
  simp only [cdbW, sc_lt, sc_sub, sc_div]; rw [if_pos h]
theorem W'_pos (t : ℕ → K) (j k : ℕ) (x : K) (h : t j < t (j+k)) : W'K t j k x = (t (j+k) - x) / (t (j+k) - t j) := by
  simp only [cdbW', sc_lt, sc_sub, sc_div]; rw [if_pos h]

/-- outside its support (interval `i` right of `[t_j, t_{j+k})`) the piece is zero -/
theorem cdbAt_zero_left (t : ℕ → K) (i : ℕ) (x : K) : ∀ k j, j + k ≤ i → cdbAtK t i k j x = 0
  | 0, _, _ => by simp only [coxDeBoorAt]; exact sc_zero
  | 1, j, h => by simp only [coxDeBoorAt]; rw [if_neg (by omega)]; exact sc_zero
  | k+2, j, h => by
    rw [cdbAt_succ2, cdbAt_zero_left t i x (k+1) j (by omega), cdbAt_zero_left t i x (k+1) (j+1) (by omega)]; ring

theorem cdbAt_zero_right (t : ℕ → K) (i : ℕ) (x : K) : ∀ k j, i < j → cdbAtK t i k j x = 0
  | 0, _, _ => by simp only [coxDeBoorAt]; exact sc_zero
  | 1, j, h => by simp only [coxDeBoorAt]; rw [if_neg (by omega)]; exact sc_zero
  | k+2, j, h => by
    rw [cdbAt_succ2, cdbAt_zero_right t i x (k+1) j (by omega), cdbAt_zero_right t i x (k+1) (j+1) (by omega)]; ring

/-- one column of `bsplvn` is one level of the Cox-de Boor triangle (`i = s+1+j` is the interval) -/
theorem step_cdb (t : ℕ → K) (s j : ℕ) (x : K)
    (hmono : ∀ a b, a ≤ b → b ≤ s + 1 + j + j + 1 → t a ≤ t b) (hstrict : t (s+1+j) < t (s+1+j+1)) :
    ∀ d l, l + d = j + 1 →
    stepK (fun a => t (s+1+j + a + 1) - x) (fun b => x - t (s+1+j - b)) j l
      (WK t (s+l) (j+1) x * cdbAtK t (s+1+j) (j+1) (s+l) x)
      ((List.range d).map (fun a => cdbAtK t (s+1+j) (j+1) (s+1+l+a) x))
    = (List.range (d+1)).map (fun a => cdbAtK t (s+1+j) (j+2) (s+l+a) x) := by
  intro d
  induction d with
  | zero =>
    intro l hl
    rw [show List.range (0+1) = [0] from rfl]
    simp only [List.range_zero, List.map_nil, bsplvnStep, List.map_cons, Nat.add_zero]
    rw [cdbAt_succ2, cdbAt_zero_right t (s+1+j) x (j+1) (s+l+1) (by omega)]
    simp
  | succ d ih =>
    intro l hl
    have hlt : t (s+l+1) < t (s+l+1+(j+1)) :=
      lt_of_le_of_lt (hmono _ _ (by omega) (by omega)) (lt_of_lt_of_le hstrict (hmono _ _ (by omega) (by omega)))
    have e1 : s + 1 + j - (j - l) = s + l + 1 := by omega
    have e2 : s + 1 + j + l + 1 = s + l + 1 + (j + 1) := by omega
    rw [List.range_succ_eq_map (n := d), List.range_succ_eq_map (n := d+1)]
    simp only [List.map_cons, List.map_map, bsplvnStep, Nat.add_zero, sc_add, sc_mul, sc_div]
    rw [e1, e2]
    congr 1
    · rw [cdbAt_succ2 t (s+1+j) j (s+l) x, W'_pos t (s+l+1) (j+1) x hlt, show s + 1 + l = s + l + 1 by omega]
      have hne : t (s+l+1+(j+1)) - x + (x - t (s+l+1)) ≠ 0 := by
        rw [show t (s+l+1+(j+1)) - x + (x - t (s+l+1)) = t (s+l+1+(j+1)) - t (s+l+1) by ring]
        exact ne_of_gt (sub_pos.2 hlt)
      have hne' : t (s+l+1+(j+1)) - t (s+l+1) ≠ 0 := ne_of_gt (sub_pos.2 hlt)
      field_simp
      ring
    · have := ih (l+1) (by omega)
      rw [W_pos t (s+(l+1)) (j+1) x (by rw [show s + (l+1) = s + l + 1 by omega]; exact hlt)] at this
      rw [show s + 1 + l = s + (l + 1) by omega]
      convert this using 2
      · rw [show s + (l+1) = s + l + 1 by omega]
        have hne : t (s+l+1+(j+1)) - x + (x - t (s+l+1)) ≠ 0 := by
          rw [show t (s+l+1+(j+1)) - x + (x - t (s+l+1)) = t (s+l+1+(j+1)) - t (s+l+1) by ring]
          exact ne_of_gt (sub_pos.2 hlt)
        have hne' : t (s+l+1+(j+1)) - t (s+l+1) ≠ 0 := ne_of_gt (sub_pos.2 hlt)
        field_simp
        ring
      · apply List.map_congr_left; intro a _; simp only [Function.comp, Nat.succ_eq_add_one]; congr 1; omega
      · funext a; simp only [Function.comp, Nat.succ_eq_add_one]; congr 1; omega


theorem loop_cdb (t : ℕ → K) (i : ℕ) (x : K) (hstrict : t i < t (i+1)) :
    ∀ fuel j, j + fuel ≤ i → (∀ a b, a ≤ b → b ≤ i + (j + fuel) → t a ≤ t b) →
    loopK (fun a => t (i + a + 1) - x) (fun b => x - t (i - b)) fuel j
      ((List.range (j+1)).map (fun a => cdbAtK t i (j+1) (i - j + a) x))
    = (List.range (j+fuel+1)).map (fun a => cdbAtK t i (j+fuel+1) (i - (j+fuel) + a) x) := by
  intro fuel
  induction fuel with
  | zero => intro j _ _; simp only [bsplvnLoop, Nat.add_zero]
  | succ f ih =>
    intro j hj hmono
    simp only [bsplvnLoop, sc_zero]
    have e : i - j - 1 + 1 + j = i := by omega
    have hstep := step_cdb t (i-j-1) j x (by rw [e]; intro a b h1 h2; exact hmono a b h1 (by omega))
      (by rw [e]; exact hstrict) (j+1) 0 (by omega)
    rw [e] at hstep
    have hv : (List.range (j+1)).map (fun a => cdbAtK t i (j+1) (i - j + a) x)
        = (List.range (j+1)).map (fun a => cdbAtK t i (j+1) (i-j-1+1+0+a) x) := by
      apply List.map_congr_left; intro a _; congr 1; omega
    have hvp : (0:K) = WK t (i-j-1+0) (j+1) x * cdbAtK t i (j+1) (i-j-1+0) x := by
      rw [cdbAt_zero_left t i x (j+1) (i-j-1+0) (by omega)]; ring
    rw [hv, hvp, hstep]
    have hih := ih (j+1) (by omega) (by intro a b h1 h2; exact hmono a b h1 (by omega))
    have hl : (List.range (j+1+1)).map (fun a => cdbAtK t i (j+2) (i-j-1+0+a) x)
        = (List.range (j+1+1)).map (fun a => cdbAtK t i (j+1+1) (i-(j+1)+a) x) := by
      apply List.map_congr_left; intro a _; congr 1 <;> omega
    rw [hl, hih, show j + 1 + f = j + (f + 1) by omega]

/-- **bsplvn_eq_coxDeBoor** (polynomial-piece form): for non-decreasing knots with `t i < t (i+1)` and
`k ≤ i+1`, the `m`-th value `bsplvn` returns for interval `i` is the Cox-de Boor function
`B_{i-k+1+m, k}` (its piece on interval `i`), at every `x` -/
theorem bsplvn_eq_coxDeBoorAt (t : ℕ → K) (k i : ℕ) (x : K) (hk : 1 ≤ k) (hik : k ≤ i + 1)
    (hmono : ∀ a b, a ≤ b → b ≤ i + k - 1 → t a ≤ t b) (hstrict : t i < t (i+1)) :
    bsplvnK t k x i = (List.range k).map (fun m => cdbAtK t i k (i + 1 - k + m) x) := by
  have h := loop_cdb t i x hstrict (k-1) 0 (by omega) (by intro a b h1 h2; exact hmono a b h1 (by omega))
  simp only [bsplvn1, sc_sub, sc_one]
  have h1 : (List.range (0+1)).map (fun a => cdbAtK t i (0+1) (i - 0 + a) x) = [(1:K)] := by
    rw [show List.range (0+1) = [0] from rfl]
    simp only [List.map_cons, List.map_nil, Nat.sub_zero, Nat.add_zero, coxDeBoorAt, if_true]
    rw [sc_one]
  rw [h1] at h
  rw [h, show 0 + (k - 1) + 1 = k by omega]
  apply List.map_congr_left; intro a _; congr 1; omega

/-- on a half-open interval `t i ≤ x < t (i+1)` of non-decreasing knots the textbook recursion
(order-1 functions = indicator of `[t_j, t_{j+1})`) is the polynomial-piece form -/
theorem cdb_eq_cdbAt (t : ℕ → K) (N i : ℕ) (x : K) (hmono : ∀ a b, a ≤ b → b ≤ N → t a ≤ t b)
    (hi : i + 1 ≤ N) (hlo : t i ≤ x) (hhi : x < t (i+1)) :
    ∀ k j, j + k ≤ N → cdbK t k j x = cdbAtK t i k j x
  | 0, _, _ => by simp only [coxDeBoor, coxDeBoorAt]
  | 1, j, h => by
    simp only [coxDeBoor, coxDeBoorAt, sc_le, sc_lt]
    by_cases hj : j = i
    · rw [if_pos hj, hj, if_pos ⟨hlo, hhi⟩]
    · rw [if_neg hj, if_neg]
      intro hc
      rcases Nat.lt_or_gt_of_ne hj with h1 | h1
      · exact absurd (lt_of_lt_of_le hc.2 (le_trans (hmono (j+1) i (by omega) (by omega)) hlo)) (lt_irrefl _)
      · exact absurd (lt_of_lt_of_le hhi (le_trans (hmono (i+1) j (by omega) (by omega)) hc.1)) (lt_irrefl _)
  | k+2, j, h => by
    simp only [coxDeBoor, coxDeBoorAt]
    rw [cdb_eq_cdbAt t N i x hmono hi hlo hhi (k+1) j (by omega),
      cdb_eq_cdbAt t N i x hmono hi hlo hhi (k+1) (j+1) (by omega)]

/-- **bsplvn_eq_coxDeBoor**: for `t i ≤ x < t (i+1)` the values of `bsplvn` are the textbook
Cox-de Boor B-splines `B_{i-k+1+m, k}(x)`, `m = 0..k-1` -/
theorem bsplvn_eq_coxDeBoor (t : ℕ → K) (N k i : ℕ) (x : K) (hk : 1 ≤ k) (hik : k ≤ i + 1) (hN : i + k ≤ N)
    (hmono : ∀ a b, a ≤ b → b ≤ N → t a ≤ t b) (hlo : t i ≤ x) (hhi : x < t (i+1)) :
    bsplvnK t k x i = (List.range k).map (fun m => cdbK t k (i + 1 - k + m) x) := by
  rw [bsplvn_eq_coxDeBoorAt t k i x hk hik (by intro a b h1 h2; exact hmono a b h1 (by omega))
    (lt_of_le_of_lt hlo hhi)]
  apply List.map_congr_left
  intro m hm
  rw [List.mem_range] at hm
  exact (cdb_eq_cdbAt t N i x hmono (by omega) hlo hhi k (i + 1 - k + m) (by omega)).symm


/-! ## knot vector: padding step -/
local notation "padK" => @padKnots _ (fieldScalar _)

/-- **mkKnots_shape_partial**: the padding step of the constructor (exact arithmetic, `bkspace ≥ 0`):
a non-decreasing breakpoint vector `b2` (first element `first`, last `last`) is extended to a
non-decreasing knot vector with exactly `nord-1` extra knots on each side, the breakpoints sitting at
positions `nord-1 ..`.  This is the padding step only; the full statement (option-specific placement, min/max
patching, coverage of `[min x, max x]`) is `mkKnots_shape` below, which uses this lemma. -/
theorem mkKnots_shape_partial (nord : ℕ) (bs first last : K) (b2 : List K) (hbs : 0 ≤ bs)
    (hsorted : b2.Pairwise (· ≤ ·)) (hfirst : ∀ y ∈ b2, first ≤ y) (hlast : ∀ y ∈ b2, y ≤ last)
    (hfl : first ≤ last) :
    (padK id id nord bs first last b2).length = b2.length + 2 * (nord - 1) ∧
    (padK id id nord bs first last b2).Pairwise (· ≤ ·) ∧
    (∀ p, p < b2.length → (padK id id nord bs first last b2)[nord - 1 + p]? = b2[p]?) := by
  simp only [padKnots, id, sc_sub, sc_add, sc_mul, scalar_ofNat]
  have hnn : ∀ i : ℕ, 0 ≤ bs * ((i + 1 : ℕ) : K) := fun i => mul_nonneg hbs (Nat.cast_nonneg _)
  have hstep : ∀ a b : ℕ, a < b → bs * ((a + 1 : ℕ) : K) ≤ bs * ((b + 1 : ℕ) : K) := by
    intro a b hab
    exact mul_le_mul_of_nonneg_left (Nat.cast_le.2 (by omega)) hbs
  refine ⟨by simp; omega, ?_, ?_⟩
  · rw [List.pairwise_append, List.pairwise_append]
    refine ⟨⟨?_, hsorted, ?_⟩, ?_, ?_⟩
    · rw [List.pairwise_map, List.pairwise_reverse]
      exact List.Pairwise.imp_of_mem (fun {a b} _ _ hab => by have := hstep a b hab; linarith) List.pairwise_lt_range
    · intro u hu v hv
      simp only [List.mem_map, List.mem_reverse] at hu
      obtain ⟨i, _, rfl⟩ := hu
      have := hfirst v hv; have := hnn i; linarith
    · rw [List.pairwise_map]
      exact List.Pairwise.imp_of_mem (fun {a b} _ _ hab => by have := hstep a b hab; linarith) List.pairwise_lt_range
    · intro u hu v hv
      simp only [List.mem_map] at hv
      obtain ⟨i, _, rfl⟩ := hv
      have hi := hnn i
      rcases List.mem_append.1 hu with hu | hu
      · simp only [List.mem_map, List.mem_reverse] at hu
        obtain ⟨i', _, rfl⟩ := hu
        have := hnn i'; linarith
      · have := hlast u hu; linarith
  · intro p hp
    rw [List.append_assoc, List.getElem?_append_right (by simp), List.getElem?_append_left (by simp; omega)]
    congr 1; simp


/-! ## knot vector: every breakpoint option -/
local notation "padBkptK" => @padBkpt _ (fieldScalar _)
local notation "shortBkptK" => @shortBkpt _ (fieldScalar _)
local notation "mkKnotsK" => @mkKnots _ (fieldScalar _)
local notation "minOfK" => @minOf _ (fieldScalar _)
local notation "maxOfK" => @maxOf _ (fieldScalar _)
local notation "evenK" => @evenBkpt _ (fieldScalar _)

/-- shape of a constructed knot vector: non-decreasing, `m ≥ 2` breakpoints running from `lo` to `hi`,
`nord-1` extra knots on each side -/
structure KnotShape (t : List K) (nord m : ℕ) (lo hi : K) : Prop where
  two : 2 ≤ m
  len : t.length = m + 2 * (nord - 1)
  sorted : t.Pairwise (· ≤ ·)
  first : t[nord - 1]? = some lo
  last : t[nord - 1 + (m - 1)]? = some hi

/-- min/max patching + padding on a sorted breakpoint vector with at least two entries: the first breakpoint
becomes `min b[0] xmin`, the last `max b[last] xmax`, the others are kept -/
theorem padBkpt_shape (nord : ℕ) (spread xmin xmax : K) (b : List K) (f32 : Bool) (h2 : 2 ≤ b.length)
    (hs : b.Pairwise (· ≤ ·)) (hsp : 0 ≤ spread) :
    ∃ t b0 bl, b[0]? = some b0 ∧ b[b.length - 1]? = some bl ∧
      padBkptK id nord spread xmin xmax b f32 = .ok t ∧
      KnotShape t nord b.length (min b0 xmin) (max bl xmax) ∧
      ∀ p, 0 < p → p < b.length - 1 → t[nord - 1 + p]? = b[p]? := by
  obtain ⟨b0, mid, bl, rfl⟩ := exists_ends b h2
  refine ⟨_, b0, bl, by simp, by simp, padBkpt_eq nord spread xmin xmax b0 bl mid f32 hs, ?_, ?_⟩
  all_goals
    rw [List.pairwise_cons, List.pairwise_append] at hs
    obtain ⟨hb0, hmid, _, hmbl⟩ := hs
    have hb0l : b0 ≤ bl := hb0 bl (by simp)
    have hlo_le : ∀ y ∈ mid ++ [max bl xmax], min b0 xmin ≤ y := by
      intro y hy
      rcases List.mem_append.1 hy with h | h
      · exact le_trans (min_le_left _ _) (hb0 y (List.mem_append_left _ h))
      · rw [List.mem_singleton] at h; rw [h]
        exact le_trans (min_le_left _ _) (le_trans hb0l (le_max_left _ _))
    have hle_hi : ∀ y ∈ mid, y ≤ max bl xmax := fun y hy =>
      le_trans (hmbl y hy bl (by simp)) (le_max_left _ _)
    have hlohi : min b0 xmin ≤ max bl xmax := hlo_le _ (by simp)
    have hsorted2 : (min b0 xmin :: (mid ++ [max bl xmax])).Pairwise (· ≤ ·) := by
      rw [List.pairwise_cons, List.pairwise_append]
      refine ⟨hlo_le, hmid, by simp, ?_⟩
      intro a ha c hc
      rw [List.mem_singleton] at hc; rw [hc]; exact hle_hi a ha
    have hbs : 0 ≤ ((min b0 xmin :: (mid ++ [max bl xmax])).getD 1 b0 - min b0 xmin) * spread := by
      refine mul_nonneg (sub_nonneg.2 ?_) hsp
      cases mid with
      | nil => simpa using hlohi
      | cons m0 _ => simpa using hlo_le m0 (by simp)
    obtain ⟨h1, h2', h3⟩ := mkKnots_shape_partial nord _ (min b0 xmin) (max bl xmax)
      (min b0 xmin :: (mid ++ [max bl xmax])) hbs hsorted2
      (by intro y hy
          rcases List.mem_cons.1 hy with h | h
          · rw [h]
          · exact hlo_le y h)
      (by intro y hy
          rcases List.mem_cons.1 hy with h | h
          · rw [h]; exact hlohi
          · rcases List.mem_append.1 h with h | h
            · exact hle_hi y h
            · rw [List.mem_singleton] at h; rw [h])
      hlohi
  · refine ⟨h2, ?_, h2', ?_, ?_⟩
    · rw [h1]; simp
    · have := h3 0 (by simp)
      simpa using this
    · have := h3 (mid.length + 1) (by simp)
      simpa using this
  · intro p hp0 hp
    have := h3 p (by simp at hp ⊢; omega)
    rw [this]
    obtain ⟨p', rfl⟩ : ∃ p', p = p' + 1 := ⟨p - 1, by omega⟩
    simp only [List.length_cons, List.length_append, List.length_nil] at hp
    rw [List.getElem?_cons_succ, List.getElem?_cons_succ, List.getElem?_append_left (by omega),
      List.getElem?_append_left (by omega)]

/-- the domain of the statement, option by option, following the chain `bkpt > placed > bkspace > nbkpts > everyn`
of the constructor: an explicit `bkpt` / `placed` vector is sorted (`bkpt` has at least two entries),
`bkspace ≠ 0`, `everyn > 0` leaves at least two breakpoints (`2 ≤ nx / everyn`) and is used with sorted `x` -/
def BkDomain (x0 : K) (rest : List K) (o : BkOpts K) : Prop :=
  match o.bkpt with
  | some b => 2 ≤ b.length ∧ b.Pairwise (· ≤ ·)
  | none =>
  match o.placed with
  | some p => p.Pairwise (· ≤ ·)
  | none =>
  match o.bkspace with
  | some s => s ≠ 0
  | none =>
  match o.nbkpts with
  | some _ => True
  | none =>
  match o.everyn with
  | some e => 0 < e ∧ 2 ≤ (rest.length + 1) / e.toNat ∧ (x0 :: rest).Pairwise (· ≤ ·)
  | none => False

theorem sc_beq (a b : K) : (@BEq.beq K (@instBEqOfScalar K (fieldScalar K)) a b) = decide (a = b) := rfl

theorem even_div_facts (nb : ℕ) (hnb : 2 ≤ nb) (r s0 : K) (hr : 0 ≤ r) :
    (evenK nb (r / ((nb - 1 : ℕ) : K)) s0).length = nb ∧ (evenK nb (r / ((nb - 1 : ℕ) : K)) s0).Pairwise (· ≤ ·) ∧
    ∀ v ∈ evenK nb (r / ((nb - 1 : ℕ) : K)) s0, s0 ≤ v ∧ v ≤ s0 + r := by
  have hpos : (0 : K) < ((nb - 1 : ℕ) : K) := Nat.cast_pos.2 (by omega)
  exact evenBkpt_facts nb _ s0 r (div_nonneg hr hpos.le) (by field_simp)

/-- what the option-specific placement (lines 83-114) returns on the domain: at least two breakpoints, sorted;
for the computed options all of them inside `[min x, max x]` -/
theorem shortBkpt_facts (x0 : K) (rest : List K) (o : BkOpts K) (hdom : BkDomain x0 rest o) :
    ∃ b f32, shortBkptK id x0 rest o = .ok (b, f32) ∧ 2 ≤ b.length ∧ b.Pairwise (· ≤ ·) ∧
      (o.bkpt = none → ∀ v ∈ b, minOfK x0 rest ≤ v ∧ v ≤ maxOfK x0 rest) ∧
      (∀ bb, o.bkpt = some bb → b = bb) := by
  have hrange : (0 : K) ≤ maxOfK x0 rest - minOfK x0 rest := sub_nonneg.2 (minOf_le_maxOf x0 rest)
  have hsum : minOfK x0 rest + (maxOfK x0 rest - minOfK x0 rest) = maxOfK x0 rest := by ring
  obtain ⟨bkpt, f32, placed, bkspace, nbkpts, everyn, spread⟩ := o
  cases bkpt with
  | some b =>
    simp only [BkDomain] at hdom
    exact ⟨b, f32, by simp only [shortBkpt]; rfl, hdom.1, hdom.2, (by intro h; cases h), (by intro bb h; cases h; rfl)⟩
  | none =>
  cases placed with
  | some p =>
    simp only [BkDomain] at hdom
    simp only [shortBkpt, sc_le, sc_add, sc_sub]
    by_cases hw : (p.filter (fun v => decide (minOfK x0 rest ≤ v) &&
        decide (v ≤ minOfK x0 rest + (maxOfK x0 rest - minOfK x0 rest)))).length < 2
    · rw [if_pos hw]
      obtain ⟨h1, h2, h3⟩ := evenBkpt_facts 2 (maxOfK x0 rest - minOfK x0 rest) (minOfK x0 rest)
        (maxOfK x0 rest - minOfK x0 rest) hrange (by simp)
      refine ⟨_, _, rfl, by rw [h1], h2, ?_, (by intro bb h; cases h)⟩
      intro _ v hv
      have := h3 v hv
      rw [hsum] at this
      exact this
    · rw [if_neg hw]
      refine ⟨_, _, rfl, by omega, hdom.sublist List.filter_sublist, ?_, (by intro bb h; cases h)⟩
      intro _ v hv
      rw [List.mem_filter, Bool.and_eq_true, decide_eq_true_eq, decide_eq_true_eq, hsum] at hv
      exact hv.2
  | none =>
  cases bkspace with
  | some s =>
    simp only [BkDomain] at hdom
    have hs0 : decide (s = 0) = false := decide_eq_false hdom
    simp only [shortBkpt, sc_beq, sc_zero, hs0, Bool.false_eq_true, if_false, sc_sub, sc_div, scalar_ofNat]
    generalize @truncInt K (fieldScalar K) ((maxOfK x0 rest - minOfK x0 rest) / s) + 1 = nb0
    have hnb : 2 ≤ (if nb0 < 2 then 2 else nb0.toNat) := by split <;> omega
    obtain ⟨h1, h2, h3⟩ := even_div_facts _ hnb (maxOfK x0 rest - minOfK x0 rest) (minOfK x0 rest) hrange
    refine ⟨_, _, rfl, by rw [h1]; exact hnb, h2, ?_, (by intro bb h; cases h)⟩
    intro _ v hv
    have := h3 v hv
    rw [hsum] at this
    exact this
  | none =>
  cases nbkpts with
  | some nb0 =>
    simp only [shortBkpt, sc_sub, sc_div, scalar_ofNat]
    have hnb : 2 ≤ (if nb0 < 2 then 2 else nb0.toNat) := by split <;> omega
    obtain ⟨h1, h2, h3⟩ := even_div_facts _ hnb (maxOfK x0 rest - minOfK x0 rest) (minOfK x0 rest) hrange
    refine ⟨_, _, rfl, by rw [h1]; exact hnb, h2, ?_, (by intro bb h; cases h)⟩
    intro _ v hv
    have := h3 v hv
    rw [hsum] at this
    exact this
  | none =>
  cases everyn with
  | none => simp only [BkDomain] at hdom
  | some e =>
    simp only [BkDomain] at hdom
    obtain ⟨he, hnbk, hxs⟩ := hdom
    have he0 : (e == 0) = false := by simp; omega
    have hneg : ¬ e < 0 := by omega
    have hmax : max ((rest.length + 1) / e.toNat) 1 = (rest.length + 1) / e.toNat := by omega
    have hne1 : ((rest.length + 1) / e.toNat == 1) = false := by simp; omega
    simp only [shortBkpt, he0, Bool.false_eq_true, if_false, hneg, List.length_cons, hmax, hne1, id]
    refine ⟨_, _, rfl, by rw [List.length_map, List.length_range]; exact hnbk, ?_, ?_, (by intro bb h; cases h)⟩
    · rw [List.pairwise_map]
      refine List.Pairwise.imp_of_mem (fun {a c} _ _ hac => ?_) List.pairwise_lt_range
      generalize hst : (rest.length + 1) / ((rest.length + 1) / e.toNat - 1) = step
      have hia : min (step * a) (rest.length + 1 - 1) < (x0 :: rest).length := by simp only [List.length_cons]; omega
      have hic : min (step * c) (rest.length + 1 - 1) < (x0 :: rest).length := by simp only [List.length_cons]; omega
      have hle : min (step * a) (rest.length + 1 - 1) ≤ min (step * c) (rest.length + 1 - 1) := by
        have : step * a ≤ step * c := Nat.mul_le_mul_left _ (le_of_lt hac)
        omega
      rw [List.getD_eq_getElem?_getD, List.getD_eq_getElem?_getD, List.getElem?_eq_getElem hia,
        List.getElem?_eq_getElem hic, Option.getD_some, Option.getD_some]
      rcases Nat.eq_or_lt_of_le hle with h | h
      · simp only [h]; exact le_refl _
      · exact List.pairwise_iff_getElem.1 hxs _ _ hia hic h
    · intro _ v hv
      rw [List.mem_map] at hv
      obtain ⟨i, _, rfl⟩ := hv
      generalize (rest.length + 1) / ((rest.length + 1) / e.toNat - 1) = step
      have hi : min (step * i) (rest.length + 1 - 1) < (x0 :: rest).length := by simp only [List.length_cons]; omega
      rw [List.getD_eq_getElem?_getD, List.getElem?_eq_getElem hi, Option.getD_some]
      exact ⟨(minOf_spec x0 rest).2 _ (List.getElem_mem hi), (maxOf_spec x0 rest).2 _ (List.getElem_mem hi)⟩

/-- **mkKnots_shape** (full statement, exact arithmetic): for EVERY breakpoint option in the domain `BkDomain`
(explicit sorted `bkpt` with min/max patching incl. the last-of-equal-maxima rule, `placed`, `bkspace`, `nbkpts`,
`everyn` incl. the clipped subscripts) and `bkspread ≥ 0` the constructor returns a knot vector that is
non-decreasing, consists of `m ≥ 2` breakpoints with `nord-1` extra knots on each side, and whose breakpoint
range `[lo, hi]` covers `[min x, max x]`; for the computed options `lo = min x` and `hi = max x` exactly,
for an explicit `bkpt` `lo = min(bkpt[0], min x)`, `hi = max(bkpt[last], max x)`, `m = bkpt.size` and the
interior breakpoints are the given ones -/
theorem mkKnots_shape (x0 : K) (rest : List K) (nord : ℕ) (o : BkOpts K) (hsp : 0 ≤ o.bkspread)
    (hdom : BkDomain x0 rest o) :
    ∃ t m lo hi, mkKnotsK id (x0 :: rest) nord o = .ok t ∧ KnotShape t nord m lo hi ∧
      lo ≤ minOfK x0 rest ∧ maxOfK x0 rest ≤ hi ∧
      (o.bkpt = none → lo = minOfK x0 rest ∧ hi = maxOfK x0 rest) ∧
      (∀ bb, o.bkpt = some bb → m = bb.length ∧ (∃ b0 bl, bb[0]? = some b0 ∧ bb[bb.length - 1]? = some bl ∧
        lo = min b0 (minOfK x0 rest) ∧ hi = max bl (maxOfK x0 rest)) ∧
        ∀ p, 0 < p → p < bb.length - 1 → t[nord - 1 + p]? = bb[p]?) := by
  obtain ⟨b, f32, hshort, h2, hs, hin, hbb⟩ := shortBkpt_facts x0 rest o hdom
  obtain ⟨t, b0, bl, hb0, hbl, hpad, hshape, hint⟩ :=
    padBkpt_shape nord o.bkspread (minOfK x0 rest) (maxOfK x0 rest) b f32 h2 hs hsp
  refine ⟨t, b.length, _, _, ?_, hshape, min_le_right _ _, le_max_right _ _, ?_, ?_⟩
  · simp only [mkKnots, hshort, bind, Except.bind]
    exact hpad
  · intro hnone
    have h0 := hin hnone b0 (List.mem_of_getElem? hb0)
    have hl := hin hnone bl (List.mem_of_getElem? hbl)
    exact ⟨min_eq_right h0.1, max_eq_right hl.2⟩
  · intro bb hsome
    have := hbb bb hsome
    subst this
    exact ⟨rfl, ⟨b0, bl, hb0, hbl, rfl, rfl⟩, hint⟩

/-! ## headline: `value` is the B-spline of its knots and coefficients -/

theorem dot_range (c g : ℕ → K) (k off : ℕ) :
    dotK c ((List.range k).map g) off = ((List.range k).map (fun m => g m * c (off + m))).sum := by
  induction k generalizing g off with
  | zero => simp only [List.range_zero, List.map_nil, dotFrom, List.sum_nil]; exact sc_zero
  | succ k ih =>
    rw [List.range_succ_eq_map]
    simp only [List.map_cons, List.map_map, dotFrom, List.sum_cons, sc_add, sc_mul, Nat.add_zero]
    rw [show (g ∘ Nat.succ) = (fun m => g (m+1)) from rfl, ih]
    congr 2
    apply List.map_congr_left
    intro m _
    simp only [Function.comp, Nat.succ_eq_add_one]
    rw [show off + 1 + m = off + (m + 1) by omega]

theorem sum_range_zero (f : ℕ → K) (n : ℕ) (h : ∀ j, j < n → f j = 0) : ((List.range n).map f).sum = 0 := by
  induction n with
  | zero => simp
  | succ n ih =>
    rw [List.range_succ, List.map_append, List.sum_append, ih (fun j hj => h j (by omega))]
    simp [h n (by omega)]

theorem sum_range_add (f : ℕ → K) (a r : ℕ) :
    ((List.range (a + r)).map f).sum = ((List.range a).map f).sum + ((List.range r).map (fun m => f (a + m))).sum := by
  induction r with
  | zero => simp
  | succ r ih =>
    rw [show a + (r + 1) = (a + r) + 1 by omega, List.range_succ, List.map_append, List.sum_append, ih,
      List.range_succ, List.map_append, List.sum_append]
    simp only [List.map_cons, List.map_nil, List.sum_cons, List.sum_nil]
    ring

/-- a sum over `0..n-1` whose terms vanish outside `a .. a+k-1` -/
theorem sum_range_support (f : ℕ → K) (n a k : ℕ) (h : a + k ≤ n)
    (hz : ∀ j, j < n → (j < a ∨ a + k ≤ j) → f j = 0) :
    ((List.range n).map f).sum = ((List.range k).map (fun m => f (a + m))).sum := by
  obtain ⟨r, rfl⟩ : ∃ r, n = a + (k + r) := ⟨n - a - k, by omega⟩
  rw [sum_range_add f a (k + r), sum_range_add (fun m => f (a + m)) k r,
    sum_range_zero f a (fun j hj => hz j (by omega) (Or.inl hj)),
    sum_range_zero (fun m => f (a + (k + m))) r (fun j hj => hz _ (by omega) (Or.inr (by omega)))]
  ring

/-- **splineAt_eq_coxDeBoorAt**: for non-decreasing knots `t[0..n+k-1]` with `t[k-1] < t[k]` and a point of the
breakpoint range `t[k-1] ≤ x ≤ t[n]`, the number `value` computes for `x` is `Σ_{j<n} c_j · B_{j,k}(x)` with
`B_{j,k}` the Cox-de Boor function taken on the knot interval `i = intrv(x)` (`t_i ≤ x ≤ t_{i+1}`, `t_i < t_{i+1}`) -/
theorem splineAt_eq_coxDeBoorAt (t c : ℕ → K) (k n : ℕ) (x : K) (hk : 1 ≤ k) (hkn : k ≤ n)
    (hmono : ∀ a b, a ≤ b → b ≤ n + k - 1 → t a ≤ t b) (hfirst : t (k-1) < t k)
    (hlo : t (k-1) ≤ x) (hhi : x ≤ t n) :
    splineAtK t c k n x = ((List.range n).map (fun j => c j * cdbAtK t (intrvOfK t k n x) k j x)).sum := by
  obtain ⟨h1, h2, h3, h4, h5⟩ := intrv_bracket t k n x hk hkn hlo hhi
  have hstrict := h5 hfirst
  simp only [splineAt]
  generalize intrvOfK t k n x = i at *
  rw [bsplvn_eq_coxDeBoorAt t k i x hk (by omega) (fun a b hab hb => hmono a b hab (by omega)) hstrict, dot_range,
    sum_range_support _ n (i + 1 - k) k (by omega)]
  · apply congrArg
    apply List.map_congr_left
    intro m _
    ring
  · intro j _ hj
    rcases hj with hj | hj
    · rw [cdbAt_zero_left t i x k j (by omega)]; ring
    · rw [cdbAt_zero_right t i x k j (by omega)]; ring

/-- **splineAt_eq_coxDeBoor**: ... and when `x` is none of the breakpoints `t[k..n]` (so `t_i ≤ x < t_{i+1}`) this
is the textbook spline `Σ_{j<n} c_j · coxDeBoor t k j x` (at a breakpoint the code returns the left limit) -/
theorem splineAt_eq_coxDeBoor (t c : ℕ → K) (k n : ℕ) (x : K) (hk : 1 ≤ k) (hkn : k ≤ n)
    (hmono : ∀ a b, a ≤ b → b ≤ n + k - 1 → t a ≤ t b) (hfirst : t (k-1) < t k)
    (hlo : t (k-1) ≤ x) (hhi : x ≤ t n) (hnot : ∀ j, k ≤ j → j ≤ n → t j ≠ x) :
    splineAtK t c k n x = ((List.range n).map (fun j => c j * cdbK t k j x)).sum := by
  rw [splineAt_eq_coxDeBoorAt t c k n x hk hkn hmono hfirst hlo hhi]
  obtain ⟨h1, h2, h3, h4, _⟩ := intrv_bracket t k n x hk hkn hlo hhi
  have h4' : x < t (intrvOfK t k n x + 1) := lt_of_le_of_ne h4 (fun h => hnot _ (by omega) (by omega) h.symm)
  apply congrArg
  apply List.map_congr_left
  intro j hj
  rw [List.mem_range] at hj
  rw [cdb_eq_cdbAt t (n + k - 1) (intrvOfK t k n x) x hmono (by omega) h3 h4' k j (by omega)]

local notation "gbK" => @BS.gb _ (fieldScalar _)
local notation "coeffAtK" => @coeffAt _ (fieldScalar _)
local notation "knotAtK" => @knotAt _ (fieldScalar _)
local notation "valueK" => @BS.value _ (fieldScalar _)

/-- **value_is_spline** (headline, about the model function `BS.value` itself): an object with order `k ≥ 1`,
`N ≥ 2k` breakpoints none of which is masked, non-decreasing knots `t` with `t[k-1] < t[k]`, coefficients `c`;
points `xs` in ANY order, `perm` any sorting permutation of them (what `argsort` returned).  Then `value`
succeeds and returns `(y, m)` of the length of `xs` such that at every caller position `p`
* `m[p]` is False exactly when `x_p` lies outside the breakpoint range `[t[k-1], t[n]]` (`n = N-k`),
* for `x_p` inside the range `y[p] = Σ_{j<n} c_j · B_{j,k}(x_p)` with `B_{j,k}` the Cox-de Boor function on the knot
  interval that `intrv` assigns to `x_p`, and
* when moreover `x_p` is none of the breakpoints `t[k..n]`, `y[p] = Σ_{j<n} c_j · coxDeBoor t k j x_p`, the textbook
  B-spline of these knots and coefficients. -/
theorem value_is_spline (b : BS K) (xs : List K) (perm : List ℕ)
    (hk : 1 ≤ b.nord) (hsize : 2 * b.nord ≤ (gbK b).size) (hne : xs ≠ [])
    (hmask : ∀ v ∈ b.mask.toList, v = true)
    (hmono : ∀ a c, a ≤ c → c ≤ (gbK b).size - 1 → knotAtK (gbK b) a ≤ knotAtK (gbK b) c)
    (hfirst : knotAtK (gbK b) (b.nord - 1) < knotAtK (gbK b) b.nord)
    (hperm : perm.Perm (List.range xs.length))
    (hsorted : (perm.map (fun p => xs.getD p 0)).Pairwise (· ≤ ·)) :
    ∃ y m, valueK b xs perm = .ok (y, m) ∧ y.length = xs.length ∧ m.length = xs.length ∧
      ∀ p (hp : p < xs.length),
        (∃ mp, m[p]? = some mp ∧ (mp = false ↔
          (xs[p] < knotAtK (gbK b) (b.nord - 1) ∨ knotAtK (gbK b) ((gbK b).size - b.nord) < xs[p]))) ∧
        (knotAtK (gbK b) (b.nord - 1) ≤ xs[p] → xs[p] ≤ knotAtK (gbK b) ((gbK b).size - b.nord) →
          y[p]? = some (((List.range ((gbK b).size - b.nord)).map (fun j => coeffAtK b j *
            cdbAtK (knotAtK (gbK b)) (intrvOfK (knotAtK (gbK b)) b.nord ((gbK b).size - b.nord) xs[p]) b.nord j xs[p])).sum) ∧
          ((∀ j, b.nord ≤ j → j ≤ (gbK b).size - b.nord → knotAtK (gbK b) j ≠ xs[p]) →
            y[p]? = some (((List.range ((gbK b).size - b.nord)).map (fun j => coeffAtK b j *
              cdbK (knotAtK (gbK b)) b.nord j xs[p])).sum))) := by
  have hplen : perm.length = xs.length := by rw [hperm.length_eq, List.length_range]
  have hpne : perm ≠ [] := by
    intro h; rw [h] at hplen; exact hne (List.length_eq_zero_iff.1 hplen.symm)
  have hv := @value_eq K (fieldScalar K) b xs perm hk hsize hpne
  simp only [sc_zero] at hv
  have hkn : b.nord ≤ (gbK b).size - b.nord := by omega
  rw [show (gbK b).size - b.nord - b.nord + 1 = ((gbK b).size - b.nord) - b.nord + 1 from rfl,
    value_spec (knotAtK (gbK b)) (coeffAtK b) b.nord ((gbK b).size - b.nord) hk hkn xs hne perm hperm hsorted,
    goodIdx_all _ hmask] at hv
  refine ⟨_, _, hv, by rw [List.length_map], by simp [maskOf], ?_⟩
  intro p hp
  refine ⟨mask_outside _ _ _ _ _ xs p hp, ?_⟩
  intro hlo hhi
  have hm : ∀ a c, a ≤ c → c ≤ (gbK b).size - b.nord + b.nord - 1 → knotAtK (gbK b) a ≤ knotAtK (gbK b) c :=
    fun a c hac hc => hmono a c hac (by omega)
  have hf : knotAtK (gbK b) (b.nord - 1) < knotAtK (gbK b) b.nord := hfirst
  rw [List.getElem?_map, List.getElem?_eq_getElem hp, Option.map_some]
  refine ⟨?_, ?_⟩
  · rw [splineAt_eq_coxDeBoorAt _ _ _ _ _ hk hkn hm hf hlo hhi]
  · intro hnot
    rw [splineAt_eq_coxDeBoor _ _ _ _ _ hk hkn hm hf hlo hhi hnot]

/-! ## the hypotheses are satisfiable (non-vacuity) -/

/-- uniform knots 0,1,2,..., cubic+1 (k = 4), interval 5, x = 11/2 -/
example : Bracket (fun i => ((i : ℕ) : ℚ)) 4 5 (11/2) :=
  ⟨by norm_num, by norm_num, fun a b h _ => by exact_mod_cast h, by norm_num, by norm_num, by norm_num⟩

/-- hypotheses of `intrv_bracket` and `bsplvn_eq_coxDeBoor` on the same knots -/
example : (fun i => ((i : ℕ) : ℚ)) (4-1) ≤ 11/2 ∧ (11/2 : ℚ) ≤ (fun i => ((i : ℕ) : ℚ)) 9 ∧
    (∀ a b : ℕ, a ≤ b → b ≤ 13 → ((a : ℕ) : ℚ) ≤ ((b : ℕ) : ℚ)) ∧ ((5 : ℕ) : ℚ) ≤ 11/2 ∧ (11/2 : ℚ) < ((6 : ℕ) : ℚ) :=
  ⟨by norm_num, by norm_num, fun a b h _ => by exact_mod_cast h, by norm_num, by norm_num⟩

/-- `RowsOf` (hypothesis of `value_spec_partial`; discharged by `rowsOf_action`): three sorted points with
interval indices 2,3,3 (k = 3): rows 0..0 and 1..2 -/
example : RowsOf #[0, 1] #[0, 2] [2, 3, 3] 3 2 := by
  unfold RowsOf; decide

/-- `mkKnots_shape_partial`: breakpoints 0,1 with spacing 1 -/
example : ([(0:ℚ), 1]).Pairwise (· ≤ ·) ∧ (∀ y ∈ [(0:ℚ), 1], (0:ℚ) ≤ y) ∧ (∀ y ∈ [(0:ℚ), 1], y ≤ 1) := by
  refine ⟨List.Pairwise.cons ?_ (List.Pairwise.cons (by intro a h; cases h) List.Pairwise.nil), ?_, ?_⟩
  · intro a h; rw [List.mem_singleton] at h; rw [h]; norm_num
  · intro y hy
    rcases List.mem_cons.1 hy with h | h
    · rw [h]
    · rw [List.mem_singleton] at h; rw [h]; norm_num
  · intro y hy
    rcases List.mem_cons.1 hy with h | h
    · rw [h]; norm_num
    · rw [List.mem_singleton] at h; rw [h]

/-- `BkDomain` (hypothesis of `mkKnots_shape`), one instance per option; data 0, 1/2, 2 -/
example : BkDomain (0:ℚ) [1/2, 2] { bkpt := some [1/4, 1, 3/2], bkspread := 1 } := by
  simp only [BkDomain]
  refine ⟨by decide, ?_⟩
  simp only [List.pairwise_cons, List.mem_cons]
  norm_num
example : BkDomain (0:ℚ) [1/2, 2] { placed := some [1/4, 1], bkspread := 1 } := by
  simp only [BkDomain]
  simp only [List.pairwise_cons, List.mem_cons]
  norm_num
example : BkDomain (0:ℚ) [1/2, 2] { bkspace := some (1/2), bkspread := 1 } := by
  simp only [BkDomain]; norm_num
example : BkDomain (0:ℚ) [1/2, 2] { nbkpts := some 3, bkspread := 1 } := by
  simp only [BkDomain]
example : BkDomain (0:ℚ) [1/2, 2] { everyn := some 1, bkspread := 1 } := by
  simp only [BkDomain]
  refine ⟨by decide, by decide, ?_⟩
  simp only [List.pairwise_cons, List.mem_cons]
  norm_num

/-- hypotheses of `value_is_spline`: order 2, breakpoints 0,1,2,3, nothing masked -/
def bEx : BS ℚ := ⟨2, #[0, 1, 2, 3], #[true, true, true, true], #[1, 2]⟩
theorem bEx_gb : @BS.gb ℚ (fieldScalar ℚ) bEx = #[0, 1, 2, 3] := by
  simp only [BS.gb, bEx, goodIdx]
  decide
example : 2 * bEx.nord ≤ (@BS.gb ℚ (fieldScalar ℚ) bEx).size ∧
    (∀ v ∈ bEx.mask.toList, v = true) ∧
    (∀ a c, a ≤ c → c ≤ (@BS.gb ℚ (fieldScalar ℚ) bEx).size - 1 →
      @knotAt ℚ (fieldScalar ℚ) (@BS.gb ℚ (fieldScalar ℚ) bEx) a ≤ @knotAt ℚ (fieldScalar ℚ) (@BS.gb ℚ (fieldScalar ℚ) bEx) c) ∧
    @knotAt ℚ (fieldScalar ℚ) (@BS.gb ℚ (fieldScalar ℚ) bEx) (bEx.nord - 1) <
      @knotAt ℚ (fieldScalar ℚ) (@BS.gb ℚ (fieldScalar ℚ) bEx) bEx.nord := by
  rw [bEx_gb]
  refine ⟨by decide, by decide, ?_, ?_⟩
  · intro a c hac hc
    have : c ≤ 3 := hc
    interval_cases c <;> interval_cases a <;> simp only [knotAt] <;> norm_num
  · simp only [knotAt, bEx]; norm_num

end PydlVerif.C08

/-
C09 property theorems: `bspline.fit` (pydl/pydlutils/bspline.py) is the weighted least-squares
optimum; failure is a status code.  Model: PydlVerif/Model/BSplineFit.lean (on Model/BSpline.lean),
interpreted at an arbitrary linearly ordered field `K` (`fieldScalar K`).  Helper lemmas:
Lemmas/BSplineFit.lean, Lemmas/Lsq.lean, Props/C08.lean (bsplvn, value).
Scope: x2 = None, npoly = 1 (the only case the model has).
-/
import PydlVerif.Lemmas.BSplineFit
import PydlVerif.Props.C08
import PydlVerif.Lemmas.BSplineMarsden
import PydlVerif.Lemmas.BandChol
import PydlVerif.Lemmas.BSplineFit2
import Mathlib.Analysis.Real.Sqrt
import Mathlib.Algebra.BigOperators.Fin
namespace PydlVerif.C09
open PydlVerif PydlVerif.BSpline PydlVerif.BSplineFit PydlVerif.BSplineFitLemmas Finset

set_option linter.unusedSectionVars false
variable {K : Type} [Field K] [LinearOrder K] [IsStrictOrderedRing K] [FloorRing K]

local notation "assembleK" => @assemble _ (fieldScalar _)
local notation "bsplvnK" => @bsplvn1 _ (fieldScalar _)
local notation "intrvOfK" => @intrvOf _ (fieldScalar _)
local notation "dotK" => @dotFrom _ (fieldScalar _)
local notation "splineAtK" => @splineAt _ (fieldScalar _)

/-! ## the assembled system is the normal system -/

/-- **assemble_is_normal**: the `bi/bo` flat-index scatter of `fit` (model `assemble`, returning `alpha.T.flat`
and `beta`) builds the lower band of `AᵀWA` and the vector `AᵀWy`, where `A[p][c] = design a1 iv bw p c` is the
matrix that has the `bw` basis values of point `p` in columns `iv p .. iv p + bw - 1`:
`alpha[r][c] = Σ_p w_p A[p][c] A[p][c+r]`, `beta[c] = Σ_p w_p y_p A[p][c]`.
Hypothesis `Rows`: `lower/upper` delimit the points of each segment (C08's `RowsOf`, re-checked on the real
`action()` output on every run).  npoly = 1 only (x2 / npoly > 1 are outside the statement). -/
theorem assemble_is_normal (a1 : ℕ → ℕ → K) (y w : ℕ → K) (lower upper : Array ℤ) (iv : ℕ → ℕ) (nx bw nseg : ℕ)
    (hrows : Rows lower upper iv nx nseg) :
    (∀ c r, r < bw → (assembleK a1 y w lower upper nx bw nseg).1 (c * bw + r) =
      ∑ p ∈ range nx, design a1 iv bw p c * (design a1 iv bw p (c + r) * w p)) ∧
    (∀ c, (assembleK a1 y w lower upper nx bw nseg).2 c = ∑ p ∈ range nx, y p * (design a1 iv bw p c * w p)) :=
  BSplineFitLemmas.assemble_is_normal a1 y w lower upper iv nx bw nseg hrows

/-- entry `(c, c')` of the symmetric matrix whose lower band is stored in `alpha.T.flat` -/
def bandFull (alphaT : ℕ → K) (bw c c' : ℕ) : K :=
  if c ≤ c' then (if c' - c < bw then alphaT (c * bw + (c' - c)) else 0)
  else (if c - c' < bw then alphaT (c' * bw + (c - c')) else 0)

/-- **chol_contract** - a HYPOTHESIS about the LAPACK kernels behind `cholesky_band` / `cholesky_solve`
(never proved here; sampled numerically by the harness): the factor satisfies `L Lᵀ = A` and the solve
returns `x` with `(L Lᵀ) x = b`. -/
structure CholContract (A : ℕ → ℕ → K) (b : ℕ → K) (n : ℕ) (L : ℕ → ℕ → K) (x : ℕ → K) : Prop where
  factor : ∀ i j, i < n → j < n → ∑ k ∈ range n, L i k * L j k = A i j
  solve : ∀ i, i < n → ∑ j ∈ range n, (∑ k ∈ range n, L i k * L j k) * x j = b i

theorem CholContract.solves {A : ℕ → ℕ → K} {b : ℕ → K} {n : ℕ} {L : ℕ → ℕ → K} {x : ℕ → K}
    (h : CholContract A b n L x) : ∀ i, i < n → ∑ j ∈ range n, A i j * x j = b i := by
  intro i hi
  rw [← h.solve i hi]
  apply Finset.sum_congr rfl
  intro j hj
  rw [h.factor i j hi (Finset.mem_range.1 hj)]

theorem design_band (a1 : ℕ → ℕ → K) (iv : ℕ → ℕ) (bw p c c' : ℕ) (h : c + bw ≤ c') :
    design a1 iv bw p c * design a1 iv bw p c' = 0 := by
  unfold design
  by_cases h1 : iv p ≤ c ∧ c < iv p + bw
  · rw [if_pos h1, if_neg (by omega)]; ring
  · rw [if_neg h1]; ring

/-- a solution of the banded system that `fit` assembles satisfies the normal equations `AᵀW(y - A s) = 0` -/
theorem normal_of_band (D : ℕ → ℕ → K) (w y : ℕ → K) (m n bw : ℕ) (alphaT beta s : ℕ → K)
    (hband : ∀ p c c', c + bw ≤ c' → D p c * D p c' = 0)
    (hα : ∀ c r, r < bw → alphaT (c * bw + r) = ∑ p ∈ range m, D p c * (D p (c + r) * w p))
    (hβ : ∀ c, beta c = ∑ p ∈ range m, y p * (D p c * w p))
    (hsol : ∀ c, c < n → ∑ c' ∈ range n, bandFull alphaT bw c c' * s c' = beta c) :
    Lsq.Normal (fun (p : Fin m) (c : Fin n) => D p c) (fun p => w p) (fun p => y p) (fun c => s c) := by
  have hG : ∀ c c', bandFull alphaT bw c c' = ∑ p ∈ range m, w p * D p c * D p c' := by
    intro c c'
    unfold bandFull
    by_cases h1 : c ≤ c'
    · rw [if_pos h1]
      by_cases h2 : c' - c < bw
      · rw [if_pos h2, hα c (c' - c) h2, show c + (c' - c) = c' by omega]
        apply Finset.sum_congr rfl; intros; ring
      · rw [if_neg h2]; symm
        apply Finset.sum_eq_zero; intro p _
        rw [mul_assoc, hband p c c' (by omega)]; ring
    · rw [if_neg h1]
      by_cases h2 : c - c' < bw
      · rw [if_pos h2, hα c' (c - c') h2, show c' + (c - c') = c by omega]
        apply Finset.sum_congr rfl; intros; ring
      · rw [if_neg h2]; symm
        apply Finset.sum_eq_zero; intro p _
        rw [mul_assoc, mul_comm (D p c), hband p c' c (by omega)]; ring
  intro k
  have hk := hsol k k.2
  simp only []
  rw [← Finset.sum_range (fun p => w p * D p k * (y p - ∑ j : Fin n, D p j * s j))]
  have hin : ∀ p, ∑ j : Fin n, D p j * s j = ∑ j ∈ range n, D p j * s j := fun p =>
    (Finset.sum_range (fun j => D p j * s j)).symm
  simp_rw [hin]
  have e1 : ∀ p, w p * D p k * (y p - ∑ j ∈ range n, D p j * s j)
      = y p * (D p k * w p) - ∑ j ∈ range n, (w p * D p k * D p j) * s j := by
    intro p
    rw [mul_sub, Finset.mul_sum]
    congr 1
    · ring
    · apply Finset.sum_congr rfl; intros; ring
  simp_rw [e1]
  rw [Finset.sum_sub_distrib, ← hβ k, Finset.sum_comm, ← hk]
  rw [sub_eq_zero]
  apply Finset.sum_congr rfl
  intro j _
  rw [hG, Finset.sum_mul]

/-! ## optimality -/

/-- **fit_optimum** (matrix form): with non-negative weights, if the solver behind `cholesky_band` /
`cholesky_solve` meets `chol_contract` on the assembled system, the returned coefficients minimise
`Σ_p w_p (y_p - Σ_c A[p][c] z_c)²` over all coefficient vectors `z`. -/
theorem fit_optimum_design (a1 : ℕ → ℕ → K) (y w : ℕ → K) (lower upper : Array ℤ) (iv : ℕ → ℕ) (nx bw nseg n : ℕ)
    (hrows : Rows lower upper iv nx nseg) (hw : ∀ p, 0 ≤ w p) (L : ℕ → ℕ → K) (sol : ℕ → K)
    (hchol : CholContract (bandFull (assembleK a1 y w lower upper nx bw nseg).1 bw)
      (assembleK a1 y w lower upper nx bw nseg).2 n L sol) (z : Fin n → K) :
    Lsq.Q (fun (p : Fin nx) (c : Fin n) => design a1 iv bw p c) (fun p => w p) (fun p => y p) (fun c => sol c)
      ≤ Lsq.Q (fun (p : Fin nx) (c : Fin n) => design a1 iv bw p c) (fun p => w p) (fun p => y p) z := by
  obtain ⟨hα, hβ⟩ := assemble_is_normal a1 y w lower upper iv nx bw nseg hrows
  exact Lsq.lsq_optimum _ _ _ _ z (fun p => hw p)
    (normal_of_band (design a1 iv bw) w y nx n bw _ _ sol (fun p c c' h => design_band a1 iv bw p c c' h) hα hβ hchol.solves)


/-! ## the objective in terms of the evaluated spline (C08) -/

theorem design_dot (a1 : ℕ → ℕ → K) (iv : ℕ → ℕ) (bw n p : ℕ) (z : ℕ → K) (hn : iv p + bw ≤ n) :
    ∑ j ∈ range n, design a1 iv bw p j * z j = ∑ a ∈ range bw, a1 p a * z (iv p + a) := by
  have hsub : Finset.Ico (iv p) (iv p + bw) ⊆ range n := by
    intro j hj; rw [Finset.mem_Ico] at hj; rw [Finset.mem_range]; omega
  rw [← Finset.sum_subset hsub]
  · rw [Finset.sum_Ico_eq_sum_range, show iv p + bw - iv p = bw by omega]
    apply Finset.sum_congr rfl
    intro a ha
    rw [Finset.mem_range] at ha
    unfold design
    rw [if_pos (by omega), show iv p + a - iv p = a by omega]
  · intro j _ hj
    rw [Finset.mem_Ico] at hj
    unfold design
    rw [if_neg hj]; ring

theorem dot_eq_sum (c : ℕ → K) (row : List K) (off : ℕ) :
    dotK c row off = ∑ a ∈ range row.length, row.getD a 0 * c (off + a) := by
  induction row generalizing off with
  | nil => simp only [dotFrom, List.length_nil, Finset.range_zero, Finset.sum_empty]; exact C08.sc_zero
  | cons v vs ih =>
    simp only [dotFrom, C08.sc_add, C08.sc_mul, List.length_cons]
    rw [ih, Finset.sum_range_succ', List.getD_cons_zero, Nat.add_zero, add_comm]
    congr 1
    apply Finset.sum_congr rfl
    intro a _
    rw [List.getD_cons_succ, show off + 1 + a = off + (a + 1) by omega]

/-- the rows of the action matrix, as `fit` gets them from `action` (C08: `bsplvn` at the interval of each point) -/
noncomputable def basisRow (t : ℕ → K) (k n : ℕ) (x : ℕ → K) (p a : ℕ) : K :=
  (bsplvnK t k (x p) (intrvOfK t k n (x p))).getD a 0

/-- segment index of a point (`itop` of its interval) -/
noncomputable def segOf (t : ℕ → K) (k n : ℕ) (x : ℕ → K) (p : ℕ) : ℕ := intrvOfK t k n (x p) + 1 - k

/-- row `p` of the design matrix applied to a coefficient vector is the spline `value` returns at `x_p`
(C08 `value_spec_partial`: `splineAt`) -/
theorem design_row_is_spline (t : ℕ → K) (k n : ℕ) (hk : 1 ≤ k) (hkn : k ≤ n) (x : ℕ → K) (p : ℕ) (z : ℕ → K) :
    ∑ j ∈ range n, design (basisRow t k n x) (segOf t k n x) k p j * z j = splineAtK t z k n (x p) := by
  have hle := C08.intrvOf_le t k n (x p) hk hkn
  have hge : k - 1 ≤ intrvOfK t k n (x p) := C08.adv_ge t n (x p) (n - (k - 1)) (k - 1)
  rw [design_dot _ _ _ _ _ _ (by unfold segOf; omega)]
  unfold splineAt
  simp only []
  rw [dot_eq_sum, C08.bsplvn_length t k _ (x p) hk]
  rfl

theorem Q_design_eq (t : ℕ → K) (k n : ℕ) (hk : 1 ≤ k) (hkn : k ≤ n) (x y w : ℕ → K) (nx : ℕ) (z : ℕ → K) :
    Lsq.Q (fun (p : Fin nx) (c : Fin n) => design (basisRow t k n x) (segOf t k n x) k p c) (fun p => w p) (fun p => y p)
      (fun c => z c) = ∑ p ∈ range nx, w p * (y p - splineAtK t z k n (x p)) ^ 2 := by
  unfold Lsq.Q
  rw [← Finset.sum_range (fun p => w p * (y p - ∑ j : Fin n, design (basisRow t k n x) (segOf t k n x) k p j * z j) ^ 2)]
  apply Finset.sum_congr rfl
  intro p _
  rw [← Finset.sum_range (fun j => design (basisRow t k n x) (segOf t k n x) k p j * z j),
    design_row_is_spline t k n hk hkn x p z]

/-- **fit_optimum**: for non-negative `invvar`, status 0 (the banded system was factored and solved; `chol_contract`
on the assembled `alpha`, `beta`) means that the coefficients minimise `Σ_p invvar_p (y_p - spline(x_p))²`, where
`spline` is the function `value` evaluates (C08 `splineAt` = Cox-de Boor spline by `bsplvn_eq_coxDeBoorAt`), over ALL
coefficient vectors `z`.  `Rows`: as in `assemble_is_normal`. -/
theorem fit_optimum (t : ℕ → K) (k n : ℕ) (hk : 1 ≤ k) (hkn : k ≤ n) (x y w : ℕ → K) (nx nseg : ℕ)
    (lower upper : Array ℤ) (hrows : Rows lower upper (segOf t k n x) nx nseg) (hw : ∀ p, 0 ≤ w p)
    (L : ℕ → ℕ → K) (sol : ℕ → K)
    (hchol : CholContract (bandFull (assembleK (basisRow t k n x) y w lower upper nx k nseg).1 k)
      (assembleK (basisRow t k n x) y w lower upper nx k nseg).2 n L sol) (z : ℕ → K) :
    ∑ p ∈ range nx, w p * (y p - splineAtK t sol k n (x p)) ^ 2
      ≤ ∑ p ∈ range nx, w p * (y p - splineAtK t z k n (x p)) ^ 2 := by
  have := fit_optimum_design (basisRow t k n x) y w lower upper (segOf t k n x) nx k nseg n hrows hw L sol hchol (fun c => z c)
  rw [Q_design_eq t k n hk hkn x y w nx sol, Q_design_eq t k n hk hkn x y w nx z] at this
  exact this

/-- the normal equations of a status-0 fit (used by the corollaries below) -/
theorem fit_normal (t : ℕ → K) (k n : ℕ) (x y w : ℕ → K) (nx nseg : ℕ)
    (lower upper : Array ℤ) (hrows : Rows lower upper (segOf t k n x) nx nseg)
    (L : ℕ → ℕ → K) (sol : ℕ → K)
    (hchol : CholContract (bandFull (assembleK (basisRow t k n x) y w lower upper nx k nseg).1 k)
      (assembleK (basisRow t k n x) y w lower upper nx k nseg).2 n L sol) :
    Lsq.Normal (fun (p : Fin nx) (c : Fin n) => design (basisRow t k n x) (segOf t k n x) k p c) (fun p => w p) (fun p => y p)
      (fun c => sol c) := by
  obtain ⟨hα, hβ⟩ := assemble_is_normal (basisRow t k n x) y w lower upper (segOf t k n x) nx k nseg hrows
  exact normal_of_band _ w y nx n k _ _ sol (fun p c c' h => design_band _ _ k p c c' h) hα hβ hchol.solves

/-- **fit_zero_weight**: the system that `fit` assembles (`alpha`, `beta`) - hence everything computed from it -
does not change when `y` is altered at points of zero weight -/
theorem fit_zero_weight (a1 : ℕ → ℕ → K) (y y' w : ℕ → K) (lower upper : Array ℤ) (iv : ℕ → ℕ) (nx bw nseg : ℕ)
    (hrows : Rows lower upper iv nx nseg) (h : ∀ p, p < nx → w p ≠ 0 → y p = y' p) :
    (∀ c r, r < bw → (assembleK a1 y w lower upper nx bw nseg).1 (c * bw + r) = (assembleK a1 y' w lower upper nx bw nseg).1 (c * bw + r)) ∧
    (∀ c, (assembleK a1 y w lower upper nx bw nseg).2 c = (assembleK a1 y' w lower upper nx bw nseg).2 c) := by
  obtain ⟨hα, hβ⟩ := assemble_is_normal a1 y w lower upper iv nx bw nseg hrows
  obtain ⟨hα', hβ'⟩ := assemble_is_normal a1 y' w lower upper iv nx bw nseg hrows
  refine ⟨fun c r hr => by rw [hα c r hr, hα' c r hr], fun c => ?_⟩
  rw [hβ c, hβ' c]
  apply Finset.sum_congr rfl
  intro p hp
  by_cases hw : w p = 0
  · rw [hw]; ring
  · rw [h p (Finset.mem_range.1 hp) hw]

/-- **fit_linear**: the fit is linear in `y`: if `s`, `s'` are the status-0 coefficients for data `y`, `y'` then
`a s + b s'` satisfies the normal equations for `a y + b y'` (and is THE solution when the matrix is positive
definite, `Lsq.lsq_unique`) -/
theorem fit_linear (t : ℕ → K) (k n : ℕ) (x y y' w : ℕ → K) (nx nseg : ℕ)
    (lower upper : Array ℤ) (hrows : Rows lower upper (segOf t k n x) nx nseg)
    (L L' : ℕ → ℕ → K) (s s' : ℕ → K) (a b : K)
    (hchol : CholContract (bandFull (assembleK (basisRow t k n x) y w lower upper nx k nseg).1 k)
      (assembleK (basisRow t k n x) y w lower upper nx k nseg).2 n L s)
    (hchol' : CholContract (bandFull (assembleK (basisRow t k n x) y' w lower upper nx k nseg).1 k)
      (assembleK (basisRow t k n x) y' w lower upper nx k nseg).2 n L' s') :
    Lsq.Normal (fun (p : Fin nx) (c : Fin n) => design (basisRow t k n x) (segOf t k n x) k p c) (fun p => w p)
      (fun p => a * y p + b * y' p) (fun c => a * s c + b * s' c) :=
  Lsq.normal_linear _ _ _ _ _ _ a b (fit_normal t k n x y w nx nseg lower upper hrows L s hchol)
    (fit_normal t k n x y' w nx nseg lower upper hrows L' s' hchol')

/-- **fit_exact**: data taken from a spline of the same knots (`y_p = spline_{c0}(x_p)`) are reproduced at every
point of positive weight - without any uniqueness assumption -/
theorem fit_exact (t : ℕ → K) (k n : ℕ) (hk : 1 ≤ k) (hkn : k ≤ n) (x y w : ℕ → K) (nx nseg : ℕ)
    (lower upper : Array ℤ) (hrows : Rows lower upper (segOf t k n x) nx nseg) (hw : ∀ p, 0 ≤ w p)
    (L : ℕ → ℕ → K) (sol : ℕ → K)
    (hchol : CholContract (bandFull (assembleK (basisRow t k n x) y w lower upper nx k nseg).1 k)
      (assembleK (basisRow t k n x) y w lower upper nx k nseg).2 n L sol)
    (c0 : ℕ → K) (hy : ∀ p, p < nx → y p = splineAtK t c0 k n (x p)) :
    ∀ p, p < nx → 0 < w p → splineAtK t sol k n (x p) = y p := by
  have hopt := fit_optimum t k n hk hkn x y w nx nseg lower upper hrows hw L sol hchol c0
  have hzero : ∑ p ∈ range nx, w p * (y p - splineAtK t c0 k n (x p)) ^ 2 = 0 := by
    apply Finset.sum_eq_zero; intro p hp; rw [hy p (Finset.mem_range.1 hp)]; ring
  rw [hzero] at hopt
  have hnn : ∀ p ∈ range nx, 0 ≤ w p * (y p - splineAtK t sol k n (x p)) ^ 2 :=
    fun p _ => mul_nonneg (hw p) (sq_nonneg _)
  have hall := (Finset.sum_eq_zero_iff_of_nonneg hnn).1 (le_antisymm hopt (Finset.sum_nonneg hnn))
  intro p hp hpos
  have := hall p (Finset.mem_range.2 hp)
  rcases mul_eq_zero.1 this with h | h
  · exact absurd h (ne_of_gt hpos)
  · have := pow_eq_zero_iff (two_ne_zero) |>.1 h
    exact (sub_eq_zero.1 this).symm

/-- **poly_reproduction** (degree 0, from `bsplvn_sum_one`): constant data `y ≡ a` are reproduced at every point of
positive weight that lies in a non-empty knot interval (`Bracket`, which `intrv_bracket` gives for all points of the
breakpoint range).  Degrees `1 .. k-1` (Marsden's identity) are not proved; checked by correspondence/oracle. -/
theorem poly_reproduction (t : ℕ → K) (k n : ℕ) (hk : 1 ≤ k) (hkn : k ≤ n) (x y w : ℕ → K) (nx nseg : ℕ)
    (lower upper : Array ℤ) (hrows : Rows lower upper (segOf t k n x) nx nseg) (hw : ∀ p, 0 ≤ w p)
    (L : ℕ → ℕ → K) (sol : ℕ → K)
    (hchol : CholContract (bandFull (assembleK (basisRow t k n x) y w lower upper nx k nseg).1 k)
      (assembleK (basisRow t k n x) y w lower upper nx k nseg).2 n L sol)
    (a : K) (hy : ∀ p, p < nx → y p = a)
    (hbr : ∀ p, p < nx → C08.Bracket t k (intrvOfK t k n (x p)) (x p)) :
    ∀ p, p < nx → 0 < w p → splineAtK t sol k n (x p) = a := by
  have hconst : ∀ p, p < nx → splineAtK t (fun _ => a) k n (x p) = a := by
    intro p hp
    unfold splineAt
    simp only []
    rw [dot_eq_sum]
    have hs := C08.bsplvn_sum_one t k _ (x p) (hbr p hp)
    rw [← Finset.sum_mul]
    have : ∑ i ∈ range (bsplvnK t k (x p) (intrvOfK t k n (x p))).length,
        (bsplvnK t k (x p) (intrvOfK t k n (x p))).getD i 0 = (bsplvnK t k (x p) (intrvOfK t k n (x p))).sum := by
      generalize bsplvnK t k (x p) (intrvOfK t k n (x p)) = l
      induction l with
      | nil => simp
      | cons v vs ih =>
        rw [List.length_cons, Finset.sum_range_succ', List.sum_cons, List.getD_cons_zero, add_comm]
        congr 1
    rw [this, hs, one_mul]
  intro p hp hpos
  have := fit_exact t k n hk hkn x y w nx nseg lower upper hrows hw L sol hchol (fun _ => a)
    (fun q hq => by rw [hy q hq, hconst q hq]) p hp hpos
  rw [this, hy p hp]


/-! ## `Rows` discharged: the `lower`/`upper` that `action` computes on sorted points (C08 `rowsOf_action`) -/
local notation "scanK" => @intrvScan _ (fieldScalar _)

/-- the points as an accessor (caller position `p` ↦ `x_p`) -/
def ptAt (xs : List K) : ℕ → K := fun p => xs.getD p 0

/-- `lower` / `upper` exactly as the model's `action` computes them (C08 `action_eq`): the `uniq` bookkeeping of the
scanned interval indices of the points `xs` -/
noncomputable def actLower (t : ℕ → K) (k n : ℕ) (xs : List K) : Array ℤ := (lowerUpper k n (scanK t n xs (k-1)).toArray).1
noncomputable def actUpper (t : ℕ → K) (k n : ℕ) (xs : List K) : Array ℤ := (lowerUpper k n (scanK t n xs (k-1)).toArray).2

theorem getD_map_eq {β γ : Type} (l : List β) (f : β → γ) (d : β) (e : γ) (i : ℕ) (hi : i < l.length) :
    (l.map f).getD i e = f (l.getD i d) := by
  rw [List.getD_eq_getElem?_getD, List.getD_eq_getElem?_getD, List.getElem?_map, List.getElem?_eq_getElem hi]
  rfl

/-- **rows_action**: for points sorted in non-decreasing order (ANY knots), the `lower`/`upper` of the model's `action`
satisfy `Rows` with the segment index `segOf` of each point: the hypothesis of `assemble_is_normal`, `fit_optimum`, ...
is a theorem (C08 `rowsOf_action` + `intrv_pointwise`) -/
theorem rows_action (t : ℕ → K) (k n : ℕ) (hk : 1 ≤ k) (hkn : k ≤ n) (xs : List K) (hne : xs ≠ [])
    (hsorted : xs.Pairwise (· ≤ ·)) :
    Rows (actLower t k n xs) (actUpper t k n xs) (segOf t k n (ptAt xs)) xs.length (n - k + 1) := by
  have hR := C08.rowsOf_action t k n hk hkn xs hne hsorted
  unfold actLower actUpper
  rw [C08.intrv_pointwise t k n xs hsorted] at hR ⊢
  intro p hp
  have hle := C08.intrvOf_le t k n (xs.getD p 0) hk hkn
  have hge : k - 1 ≤ intrvOfK t k n (xs.getD p 0) := C08.adv_ge t n _ (n - (k - 1)) (k - 1)
  refine ⟨by unfold segOf ptAt; omega, fun i hi => ?_⟩
  have := hR p (by rw [List.length_map]; exact hp) i hi
  rw [getD_map_eq xs (intrvOfK t k n) 0 0 p hp] at this
  unfold rowIn segOf ptAt
  rw [Bool.and_eq_true, decide_eq_true_iff, decide_eq_true_iff]
  exact this

/-- **assemble_is_normal_action**: `assemble_is_normal` for the `lower`/`upper` of `action` on sorted points - no
hypothesis about `lower`/`upper` -/
theorem assemble_is_normal_action (t : ℕ → K) (k n : ℕ) (hk : 1 ≤ k) (hkn : k ≤ n) (xs : List K) (hne : xs ≠ [])
    (hsorted : xs.Pairwise (· ≤ ·)) (a1 : ℕ → ℕ → K) (y w : ℕ → K) :
    (∀ c r, r < k → (assembleK a1 y w (actLower t k n xs) (actUpper t k n xs) xs.length k (n - k + 1)).1 (c * k + r) =
      ∑ p ∈ range xs.length, design a1 (segOf t k n (ptAt xs)) k p c * (design a1 (segOf t k n (ptAt xs)) k p (c + r) * w p)) ∧
    (∀ c, (assembleK a1 y w (actLower t k n xs) (actUpper t k n xs) xs.length k (n - k + 1)).2 c =
      ∑ p ∈ range xs.length, y p * (design a1 (segOf t k n (ptAt xs)) k p c * w p)) :=
  assemble_is_normal a1 y w _ _ _ _ k _ (rows_action t k n hk hkn xs hne hsorted)

/-- **fit_optimum_sorted** (`fit_optimum` without the `Rows` hypothesis): sorted points `xs` (as `fit` receives them from
`iterfit`), any knots `t`, order `k ≥ 1`, `n ≥ k` coefficients, weights `≥ 0`; `alpha`, `beta` assembled by the model with the
`lower`/`upper` of `action`.  If the LAPACK pair meets `chol_contract` on them (status 0), the solution minimises
`Σ_p invvar_p (y_p - spline(x_p))²` over ALL coefficient vectors `z`, `spline` = C08 `splineAt` (`= Σ_j c_j·B_{j,k}` on
non-decreasing knots: C08 `splineAt_eq_coxDeBoorAt` / `splineAt_eq_coxDeBoor`).  What remains assumed: `chol_contract` only. -/
theorem fit_optimum_sorted (t : ℕ → K) (k n : ℕ) (hk : 1 ≤ k) (hkn : k ≤ n) (xs : List K) (hne : xs ≠ [])
    (hsorted : xs.Pairwise (· ≤ ·)) (y w : ℕ → K) (hw : ∀ p, 0 ≤ w p) (L : ℕ → ℕ → K) (sol : ℕ → K)
    (hchol : CholContract (bandFull (assembleK (basisRow t k n (ptAt xs)) y w (actLower t k n xs) (actUpper t k n xs)
        xs.length k (n - k + 1)).1 k)
      (assembleK (basisRow t k n (ptAt xs)) y w (actLower t k n xs) (actUpper t k n xs) xs.length k (n - k + 1)).2 n L sol)
    (z : ℕ → K) :
    ∑ p ∈ range xs.length, w p * (y p - splineAtK t sol k n (xs.getD p 0)) ^ 2
      ≤ ∑ p ∈ range xs.length, w p * (y p - splineAtK t z k n (xs.getD p 0)) ^ 2 :=
  fit_optimum t k n hk hkn (ptAt xs) y w xs.length (n - k + 1) _ _ (rows_action t k n hk hkn xs hne hsorted) hw L sol hchol z

/-- `fit_normal` without the `Rows` hypothesis -/
theorem fit_normal_sorted (t : ℕ → K) (k n : ℕ) (hk : 1 ≤ k) (hkn : k ≤ n) (xs : List K) (hne : xs ≠ [])
    (hsorted : xs.Pairwise (· ≤ ·)) (y w : ℕ → K) (L : ℕ → ℕ → K) (sol : ℕ → K)
    (hchol : CholContract (bandFull (assembleK (basisRow t k n (ptAt xs)) y w (actLower t k n xs) (actUpper t k n xs)
        xs.length k (n - k + 1)).1 k)
      (assembleK (basisRow t k n (ptAt xs)) y w (actLower t k n xs) (actUpper t k n xs) xs.length k (n - k + 1)).2 n L sol) :
    Lsq.Normal (fun (p : Fin xs.length) (c : Fin n) => design (basisRow t k n (ptAt xs)) (segOf t k n (ptAt xs)) k p c)
      (fun p => w p) (fun p => y p) (fun c => sol c) :=
  fit_normal t k n (ptAt xs) y w xs.length (n - k + 1) _ _ (rows_action t k n hk hkn xs hne hsorted) L sol hchol

/-- `fit_zero_weight` without the `Rows` hypothesis -/
theorem fit_zero_weight_sorted (t : ℕ → K) (k n : ℕ) (hk : 1 ≤ k) (hkn : k ≤ n) (xs : List K) (hne : xs ≠ [])
    (hsorted : xs.Pairwise (· ≤ ·)) (a1 : ℕ → ℕ → K) (y y' w : ℕ → K) (h : ∀ p, p < xs.length → w p ≠ 0 → y p = y' p) :
    (∀ c r, r < k → (assembleK a1 y w (actLower t k n xs) (actUpper t k n xs) xs.length k (n - k + 1)).1 (c * k + r) =
      (assembleK a1 y' w (actLower t k n xs) (actUpper t k n xs) xs.length k (n - k + 1)).1 (c * k + r)) ∧
    (∀ c, (assembleK a1 y w (actLower t k n xs) (actUpper t k n xs) xs.length k (n - k + 1)).2 c =
      (assembleK a1 y' w (actLower t k n xs) (actUpper t k n xs) xs.length k (n - k + 1)).2 c) :=
  fit_zero_weight a1 y y' w _ _ _ _ k _ (rows_action t k n hk hkn xs hne hsorted) h

/-- `fit_linear` without the `Rows` hypothesis -/
theorem fit_linear_sorted (t : ℕ → K) (k n : ℕ) (hk : 1 ≤ k) (hkn : k ≤ n) (xs : List K) (hne : xs ≠ [])
    (hsorted : xs.Pairwise (· ≤ ·)) (y y' w : ℕ → K) (L L' : ℕ → ℕ → K) (s s' : ℕ → K) (a b : K)
    (hchol : CholContract (bandFull (assembleK (basisRow t k n (ptAt xs)) y w (actLower t k n xs) (actUpper t k n xs)
        xs.length k (n - k + 1)).1 k)
      (assembleK (basisRow t k n (ptAt xs)) y w (actLower t k n xs) (actUpper t k n xs) xs.length k (n - k + 1)).2 n L s)
    (hchol' : CholContract (bandFull (assembleK (basisRow t k n (ptAt xs)) y' w (actLower t k n xs) (actUpper t k n xs)
        xs.length k (n - k + 1)).1 k)
      (assembleK (basisRow t k n (ptAt xs)) y' w (actLower t k n xs) (actUpper t k n xs) xs.length k (n - k + 1)).2 n L' s') :
    Lsq.Normal (fun (p : Fin xs.length) (c : Fin n) => design (basisRow t k n (ptAt xs)) (segOf t k n (ptAt xs)) k p c)
      (fun p => w p) (fun p => a * y p + b * y' p) (fun c => a * s c + b * s' c) :=
  fit_linear t k n (ptAt xs) y y' w xs.length (n - k + 1) _ _ (rows_action t k n hk hkn xs hne hsorted) L L' s s' a b hchol hchol'

/-- `fit_exact` without the `Rows` hypothesis -/
theorem fit_exact_sorted (t : ℕ → K) (k n : ℕ) (hk : 1 ≤ k) (hkn : k ≤ n) (xs : List K) (hne : xs ≠ [])
    (hsorted : xs.Pairwise (· ≤ ·)) (y w : ℕ → K) (hw : ∀ p, 0 ≤ w p) (L : ℕ → ℕ → K) (sol : ℕ → K)
    (hchol : CholContract (bandFull (assembleK (basisRow t k n (ptAt xs)) y w (actLower t k n xs) (actUpper t k n xs)
        xs.length k (n - k + 1)).1 k)
      (assembleK (basisRow t k n (ptAt xs)) y w (actLower t k n xs) (actUpper t k n xs) xs.length k (n - k + 1)).2 n L sol)
    (c0 : ℕ → K) (hy : ∀ p, p < xs.length → y p = splineAtK t c0 k n (xs.getD p 0)) :
    ∀ p, p < xs.length → 0 < w p → splineAtK t sol k n (xs.getD p 0) = y p :=
  fit_exact t k n hk hkn (ptAt xs) y w xs.length (n - k + 1) _ _ (rows_action t k n hk hkn xs hne hsorted) hw L sol hchol c0 hy


/-! ## polynomial reproduction for every degree below the order (Marsden's identity, Lemmas/BSplineMarsden.lean) -/

open Polynomial in
/-- **poly_reproduction_all** (general form over any `lower`/`upper` with `Rows`): data taken from ANY polynomial `q` of
degree `< k` (the order) are reproduced at every point of positive weight, for non-decreasing knots `t[0..n+k-1]` with
`t[k-1] < t[k]` and points in the breakpoint range `[t[k-1], t[n]]`.  No support/uniqueness assumption: the polynomial is a
spline of these knots (`spline_of_poly`: coefficients `polyCoeff`, the normalised elementary symmetric functions of the
knots - Marsden), so `fit_exact` applies. -/
theorem poly_reproduction_all (t : ℕ → K) (k n : ℕ) (hk : 1 ≤ k) (hkn : k ≤ n)
    (hmono : ∀ a b, a ≤ b → b ≤ n + k - 1 → t a ≤ t b) (hfirst : t (k-1) < t k)
    (x y w : ℕ → K) (nx nseg : ℕ) (lower upper : Array ℤ) (hrows : Rows lower upper (segOf t k n x) nx nseg)
    (hw : ∀ p, 0 ≤ w p) (hrange : ∀ p, p < nx → t (k-1) ≤ x p ∧ x p ≤ t n)
    (L : ℕ → ℕ → K) (sol : ℕ → K)
    (hchol : CholContract (bandFull (assembleK (basisRow t k n x) y w lower upper nx k nseg).1 k)
      (assembleK (basisRow t k n x) y w lower upper nx k nseg).2 n L sol)
    (q : K[X]) (hq : q.natDegree < k) (hy : ∀ p, p < nx → y p = q.eval (x p)) :
    ∀ p, p < nx → 0 < w p → splineAtK t sol k n (x p) = q.eval (x p) := by
  intro p hp hpos
  have := fit_exact t k n hk hkn x y w nx nseg lower upper hrows hw L sol hchol (polyCoeff t (k-1) q)
    (fun r hr => by
      rw [hy r hr, spline_of_poly t k n hk hkn hmono hfirst q hq (x r) (hrange r hr).1 (hrange r hr).2]) p hp hpos
  rw [this, hy p hp]

open Polynomial in
/-- **poly_reproduction_sorted**: the same for the `lower`/`upper` of `action` on sorted points - only `chol_contract`
is assumed -/
theorem poly_reproduction_sorted (t : ℕ → K) (k n : ℕ) (hk : 1 ≤ k) (hkn : k ≤ n)
    (hmono : ∀ a b, a ≤ b → b ≤ n + k - 1 → t a ≤ t b) (hfirst : t (k-1) < t k)
    (xs : List K) (hne : xs ≠ []) (hsorted : xs.Pairwise (· ≤ ·)) (hrange : ∀ v ∈ xs, t (k-1) ≤ v ∧ v ≤ t n)
    (y w : ℕ → K) (hw : ∀ p, 0 ≤ w p) (L : ℕ → ℕ → K) (sol : ℕ → K)
    (hchol : CholContract (bandFull (assembleK (basisRow t k n (ptAt xs)) y w (actLower t k n xs) (actUpper t k n xs)
        xs.length k (n - k + 1)).1 k)
      (assembleK (basisRow t k n (ptAt xs)) y w (actLower t k n xs) (actUpper t k n xs) xs.length k (n - k + 1)).2 n L sol)
    (q : K[X]) (hq : q.natDegree < k) (hy : ∀ p, p < xs.length → y p = q.eval (xs.getD p 0)) :
    ∀ p, p < xs.length → 0 < w p → splineAtK t sol k n (xs.getD p 0) = q.eval (xs.getD p 0) :=
  poly_reproduction_all t k n hk hkn hmono hfirst (ptAt xs) y w xs.length (n - k + 1) _ _
    (rows_action t k n hk hkn xs hne hsorted) hw
    (fun p hp => hrange _ (by
      unfold ptAt
      rw [List.getD_eq_getElem?_getD, List.getElem?_eq_getElem hp]; exact List.getElem_mem hp))
    L sol hchol q hq hy

/-! ## status table (any scalar type: the status logic does not depend on the arithmetic) -/
section status
variable {α : Type} [Scalar α]

/-- `insideIdx` (the good-breakpoint positions that `maskpoints` masks) never addresses the first `nord` or the last
`nord` good breakpoints -/
theorem insideIdx_range (nord n h : ℕ) (jj : ℤ) (hn : nord < n) :
    nord ≤ insideIdx nord n h jj ∧ insideIdx nord n h jj ≤ n - 1 := by
  unfold insideIdx
  simp only []
  split <;> split <;> omega

theorem foldl_clear_size (l : List ℕ) (m : Array Bool) :
    (l.foldl (fun m i => m.setIfInBounds i false) m).size = m.size := by
  induction l generalizing m with
  | nil => rfl
  | cons a l ih => simp only [List.foldl_cons]; rw [ih]; simp

theorem foldl_clear_le (l : List ℕ) (m : Array Bool) (i : ℕ) :
    (l.foldl (fun m i => m.setIfInBounds i false) m)[i]! = true → m[i]! = true := by
  induction l generalizing m with
  | nil => intro h; exact h
  | cons a l ih =>
    intro h
    simp only [List.foldl_cons] at h
    have := ih _ h
    by_cases hai : a = i
    · subst hai
      by_cases hs : a < m.size
      · simp [Array.setIfInBounds, hs] at this
      · simp [Array.setIfInBounds, hs] at this
    · by_cases hs : a < m.size
      · simpa [Array.setIfInBounds, hs, Array.getElem!_eq_getD, Array.getD, Array.getElem_set, hai] using this
      · simpa [Array.setIfInBounds, hs] using this

/-- **status_table (maskpoints)**: the answer is -1 or -2; with -2 the mask is unchanged; with -1 the mask has the same
length and only changes from True to False -/
theorem maskpoints_status (mask : Array Bool) (nord : ℕ) (err : List ℕ) :
    ((maskpoints mask nord err).1 = -2 ∧ (maskpoints mask nord err).2 = mask) ∨
    ((maskpoints mask nord err).1 = -1 ∧ (maskpoints mask nord err).2.size = mask.size ∧
      ∀ i : ℕ, (maskpoints mask nord err).2[i]! = true → mask[i]! = true) := by
  unfold maskpoints
  simp only []
  repeat' split
  all_goals first
    | exact Or.inl ⟨rfl, rfl⟩
    | skip
  right
  exact ⟨rfl, foldl_clear_size _ _, fun i => foldl_clear_le _ _ i⟩

/-- **status_table (nn < nord)**: fewer than `nord` good breakpoints beyond the first `nord` ⇒ status -2, `yfit = 0`,
object unchanged -/
theorem fit_too_few (Kn : Kernels α) (b : BS α) (xs ys ws : List α) (perm : List ℕ)
    (h : (goodIdx (b.mask.toList.drop b.nord)).length < b.nord) :
    fit Kn b xs ys ws perm = .ok { status := -2, yfit := List.replicate xs.length 0, obj := b } := by
  unfold fit
  simp only [h, if_true]
  rfl

/-- **status_table (cholesky_band screen)**: a diagonal entry `≤ mininf` or a non-finite entry anywhere ⇒ the list of
the columns with diagonal `≤ mininf` is returned (not a factor, no exception) -/
theorem choleskyBand_screen (Kn : Kernels α) (l : Array (Array α)) (mininf : α) (hbw : l.size ≠ 0)
    (hnn : ¬ (l[0]!).size < l.size)
    (hbad : (!((List.range ((l[0]!).size - l.size)).filter (fun c => decide (get2 l 0 c ≤ mininf))).isEmpty
      || !(l.all (fun row => row.all Kn.isFinite))) = true) :
    choleskyBand Kn l mininf =
      .ok (.bad ((List.range ((l[0]!).size - l.size)).filter (fun c => decide (get2 l 0 c ≤ mininf))) false) := by
  unfold choleskyBand
  simp only [hbw, hnn, if_false]
  rw [if_pos hbad]
  rfl

theorem fallbackLoop_mem (Kn : Kernels α) (kn : ℕ) (js : List ℕ) (lower : Array (Array α)) (j : ℕ)
    (h : fallbackLoop Kn kn js lower = .inl j) : j ∈ js := by
  induction js generalizing lower with
  | nil => simp [fallbackLoop] at h
  | cons a l ih =>
    unfold fallbackLoop at h
    split at h
    · injection h with h; rw [← h]; exact List.mem_cons_self
    · exact List.mem_cons_of_mem _ (ih _ h)

/-- **status_table (cholesky_band)**: `cholesky_band` never fails on a `bw × (n+bw)` matrix (`bw ≥ 1`): it returns a
factor, or the screened column list, or ONE column index `j < n` found by the fallback loop when the LAPACK kernel
reports `LinAlgError` -/
theorem choleskyBand_total (Kn : Kernels α) (l : Array (Array α)) (mininf : α) (hbw : l.size ≠ 0)
    (hnn : ¬ (l[0]!).size < l.size) :
    (∃ L, choleskyBand Kn l mininf = .ok (.factor L)) ∨
    (∃ idx, choleskyBand Kn l mininf = .ok (.bad idx false)) ∨
    (∃ j, j < (l[0]!).size - l.size ∧ choleskyBand Kn l mininf = .ok (.bad [j] true)) := by
  unfold choleskyBand
  simp only [hbw, hnn, if_false]
  split
  · exact Or.inr (Or.inl ⟨_, rfl⟩)
  · split
    · exact Or.inl ⟨_, rfl⟩
    · split
      · rename_i j hj
        exact Or.inr (Or.inr ⟨j, List.mem_range.1 (fallbackLoop_mem Kn _ _ _ j hj), rfl⟩)
      · exact Or.inl ⟨_, rfl⟩

/-- **status_table (fit)**: whenever `fit` returns (i.e. does not hit one of the model's error exits: `nord = 0`,
leading breakpoints masked, `value` on a degenerate object) the status is 0, -1 or -2; with -2 and -1 the coefficients
are the old ones, with 0 and -2 the breakpoint mask is the old one -/
theorem fit_status (Kn : Kernels α) (b : BS α) (xs ys ws : List α) (perm : List ℕ) (out : FitOut α)
    (h : fit Kn b xs ys ws perm = .ok out) :
    (out.status = 0 ∧ out.obj.mask = b.mask) ∨
    (out.status = -1 ∧ out.obj.coeff = b.coeff) ∨
    (out.status = -2 ∧ out.obj.coeff = b.coeff ∧ out.obj.mask = b.mask) := by
  unfold fit at h
  simp only [bind, Except.bind, pure, Except.pure] at h
  repeat' split at h
  all_goals cases h
  all_goals first
    | exact Or.inr (Or.inr ⟨rfl, rfl, rfl⟩)
    | exact Or.inl ⟨rfl, rfl⟩
    | skip
  rename_i idx _ _ _ _ _
  rcases maskpoints_status b.mask b.nord idx with ⟨h1, h2⟩ | ⟨h1, _⟩
  · exact Or.inr (Or.inr ⟨h1, rfl, h2⟩)
  · exact Or.inr (Or.inl ⟨h1, rfl⟩)

theorem maskpoints_ne_zero (mask : Array Bool) (nord : ℕ) (err : List ℕ) : (maskpoints mask nord err).1 ≠ 0 := by
  rcases maskpoints_status mask nord err with ⟨h1, _⟩ | ⟨h1, _⟩ <;> rw [h1] <;> decide

/-- **bridge**: when `fit` answers 0, `action` delivered the rows, `cholesky_band` factored the assembled system
(`normalSystem` = the materialised `assemble`) and the new coefficients are the solution `cholesky_solve` returns for it,
written to the positions of the good breakpoints - this is the solution vector the theorems `fit_optimum`,
`fit_exact`, ... speak about (through `chol_contract`) -/
theorem fit_status0 (Kn : Kernels α) (b : BS α) (xs ys ws : List α) (perm : List ℕ) (out : FitOut α)
    (h : fit Kn b xs ys ws perm = .ok out) (h0 : out.status = 0) :
    ∃ rows lower upper a, b.action xs = .ok (some (rows, lower, upper)) ∧
      choleskyBand Kn (normalSystem rows ys ws lower upper xs.length b.nord (goodIdx (b.mask.toList.drop b.nord)).length).1
        ((1.0e-10 : α) * sumL ws / (Scalar.ofNat (goodIdx (b.mask.toList.drop b.nord)).length : α)) = .ok (.factor a) ∧
      out.obj.coeff = putGood b.coeff (b.mask.toList.drop b.nord)
        (choleskySolve Kn a (normalSystem rows ys ws lower upper xs.length b.nord (goodIdx (b.mask.toList.drop b.nord)).length).2) := by
  unfold fit at h
  simp only [bind, Except.bind, pure, Except.pure] at h
  repeat' split at h
  all_goals cases h
  all_goals first
    | (exact absurd h0 (maskpoints_ne_zero _ _ _))
    | (simp at h0; done)
    | (exact ⟨_, _, _, _, by assumption, by assumption, rfl⟩)

end status

/-! ## the statement about the model function `fit` itself -/
local notation "fitK" => @fit _ (fieldScalar _)
local notation "gbK" => @BS.gb _ (fieldScalar _)
local notation "knotAtK" => @knotAt _ (fieldScalar _)
local notation "normalSystemK" => @normalSystem _ (fieldScalar _)
local notation "choleskyBandK" => @choleskyBand _ (fieldScalar _)
local notation "choleskySolveK" => @choleskySolve _ (fieldScalar _)
local notation "sumLK" => @sumL _ (fieldScalar _)

/-- `fit_optimum_sorted` with "the vector solves the assembled banded system" in place of `chol_contract`
(`CholContract.solves` gives it), for any action matrix `a1` that agrees with the `bsplvn` rows on the data -/
theorem fit_optimum_solves (t : ℕ → K) (k n : ℕ) (hk : 1 ≤ k) (hkn : k ≤ n) (xs : List K) (hne : xs ≠ [])
    (hsorted : xs.Pairwise (· ≤ ·)) (a1 : ℕ → ℕ → K)
    (ha1 : ∀ p, p < xs.length → ∀ a, a < k → a1 p a = basisRow t k n (ptAt xs) p a)
    (y w : ℕ → K) (hw : ∀ p, p < xs.length → 0 ≤ w p) (sol : ℕ → K)
    (hsol : ∀ c, c < n → ∑ c' ∈ range n,
        bandFull (assembleK a1 y w (actLower t k n xs) (actUpper t k n xs) xs.length k (n - k + 1)).1 k c c' * sol c'
      = (assembleK a1 y w (actLower t k n xs) (actUpper t k n xs) xs.length k (n - k + 1)).2 c) (z : ℕ → K) :
    ∑ p ∈ range xs.length, w p * (y p - splineAtK t sol k n (xs.getD p 0)) ^ 2
      ≤ ∑ p ∈ range xs.length, w p * (y p - splineAtK t z k n (xs.getD p 0)) ^ 2 := by
  obtain ⟨hα, hβ⟩ := assemble_is_normal_action t k n hk hkn xs hne hsorted a1 y w
  have hN := normal_of_band (design a1 (segOf t k n (ptAt xs)) k) w y xs.length n k _ _ sol
    (fun p c c' h => design_band a1 _ k p c c' h) hα hβ hsol
  have hopt := Lsq.lsq_optimum _ _ _ _ (fun c => z c) (fun (p : Fin xs.length) => hw p p.2) hN
  have hQ : ∀ s : ℕ → K, Lsq.Q (fun (p : Fin xs.length) (c : Fin n) => design a1 (segOf t k n (ptAt xs)) k p c)
      (fun p => w p) (fun p => y p) (fun c => s c)
      = ∑ p ∈ range xs.length, w p * (y p - splineAtK t s k n (xs.getD p 0)) ^ 2 := by
    intro s
    have := Q_design_eq t k n hk hkn (ptAt xs) y w xs.length s
    unfold ptAt at this ⊢
    rw [← this]
    unfold Lsq.Q
    apply Finset.sum_congr rfl
    intro p _
    congr 3
    apply Finset.sum_congr rfl
    intro j _
    congr 1
    unfold design
    beta_reduce
    split
    · rename_i hc
      exact ha1 p p.2 _ (by omega)
    · rfl
  rw [hQ sol, hQ z] at hopt
  exact hopt

/-- the `Inhabited` instance the model's `arr[i]!` reads use (default `Scalar.ofNat 0`) -/
noncomputable local instance instInhabitedK : Inhabited K := @PydlVerif.instInhabitedOfScalar K (fieldScalar K)

theorem toArray_getD (l : List K) (p : ℕ) (hp : p < l.length) : l.toArray[p]! = l.getD p 0 := by
  rw [getElem!_def, List.getElem?_toArray, List.getD_eq_getElem?_getD, List.getElem?_eq_getElem hp]
  rfl

theorem arr2_get (rows : List (List K)) (p a : ℕ) (hp : p < rows.length) (ha : a < rows[p].length) :
    ((rows.map List.toArray).toArray[p]!)[a]! = (rows[p]).getD a 0 := by
  have h1 : (rows.map List.toArray).toArray[p]! = rows[p].toArray := by
    rw [getElem!_pos _ p (by simpa using hp)]; simp
  rw [h1, getElem!_pos _ a (by simpa using ha), List.getD_eq_getElem?_getD, List.getElem?_eq_getElem ha]
  simp

/-- **fit_is_optimum** (about the model function `fit` itself, what the driver executes): an object of order `k ≥ 1` with
`≥ 2k` good breakpoints, the first `k` of them unmasked (`hnn`); sorted points, weights `≥ 0`.  If `fit` answers status 0
and the vector that `cholesky_solve` returned solves the banded system that `fit` assembled and handed to it (`hsolve`:
the LAPACK contract on THIS call - `alpha`/`beta` of `normalSystem` are the materialised `assemble`), then that vector
minimises `Σ_p invvar_p (y_p - spline(x_p))²` over ALL coefficient vectors, `spline` = the function `value` evaluates on
the object's knots (C08 `splineAt`, `= Σ_j c_j·B_{j,k}`), and it is what `fit` stored in `coeff` (`putGood`).  Nothing is
assumed about `lower`/`upper` (C08 `action_eq`, `rowsOf_action`). -/
theorem fit_is_optimum (Kn : Kernels K) (b : BS K) (xs ys ws : List K) (perm : List ℕ) (out : FitOut K)
    (h : fitK Kn b xs ys ws perm = .ok out) (h0 : out.status = 0)
    (hk : 1 ≤ b.nord) (hsize : 2 * b.nord ≤ (gbK b).size)
    (hnn : (goodIdx (b.mask.toList.drop b.nord)).length = (gbK b).size - b.nord)
    (hne : xs ≠ []) (hsorted : xs.Pairwise (· ≤ ·)) (hyl : ys.length = xs.length) (hwl : ws.length = xs.length)
    (hw : ∀ v ∈ ws, 0 ≤ v)
    (hsolve : ∀ rows lower upper mininf a, (@BS.action _ (fieldScalar _) b xs) = .ok (some (rows, lower, upper)) →
      choleskyBandK Kn (normalSystemK rows ys ws lower upper xs.length b.nord ((gbK b).size - b.nord)).1 mininf
        = .ok (.factor a) →
      ∀ c, c < (gbK b).size - b.nord → ∑ c' ∈ range ((gbK b).size - b.nord),
        bandFull (assembleK (fun p a => ((rows.map List.toArray).toArray[p]!)[a]!) (fun p => ys.toArray[p]!)
            (fun p => ws.toArray[p]!) lower upper xs.length b.nord ((gbK b).size - b.nord - b.nord + 1)).1 b.nord c c'
          * (choleskySolveK Kn a (normalSystemK rows ys ws lower upper xs.length b.nord ((gbK b).size - b.nord)).2)[c']!
        = (assembleK (fun p a => ((rows.map List.toArray).toArray[p]!)[a]!) (fun p => ys.toArray[p]!)
            (fun p => ws.toArray[p]!) lower upper xs.length b.nord ((gbK b).size - b.nord - b.nord + 1)).2 c) :
    ∃ sol : Array K, out.obj.coeff = @putGood _ (fieldScalar _) b.coeff (b.mask.toList.drop b.nord) sol ∧
      ∀ z : ℕ → K,
        ∑ p ∈ range xs.length, ws.getD p 0 * (ys.getD p 0 -
            splineAtK (knotAtK (gbK b)) (fun j => sol[j]!) b.nord ((gbK b).size - b.nord) (xs.getD p 0)) ^ 2
          ≤ ∑ p ∈ range xs.length, ws.getD p 0 * (ys.getD p 0 -
            splineAtK (knotAtK (gbK b)) z b.nord ((gbK b).size - b.nord) (xs.getD p 0)) ^ 2 := by
  obtain ⟨rows, lower, upper, a, hact, hchol, hcoeff⟩ := @fit_status0 K (fieldScalar K) Kn b xs ys ws perm out h h0
  rw [hnn] at hchol hcoeff
  have hsol := hsolve rows lower upper _ a hact hchol
  have hae := @C08.action_eq K (fieldScalar K) b xs hk hsize hne
  rw [hae] at hact
  injection hact with hact
  injection hact with hact
  have hrows : rows = List.zipWith (fun x i => bsplvnK (knotAtK (gbK b)) b.nord x i) xs
      (scanK (knotAtK (gbK b)) ((gbK b).size - b.nord) xs (b.nord - 1)) := (congrArg Prod.fst hact).symm
  have hlu : (lower, upper) = lowerUpper b.nord ((gbK b).size - b.nord)
      (scanK (knotAtK (gbK b)) ((gbK b).size - b.nord) xs (b.nord - 1)).toArray := (congrArg Prod.snd hact).symm
  have hlo : lower = actLower (knotAtK (gbK b)) b.nord ((gbK b).size - b.nord) xs := congrArg Prod.fst hlu
  have hup : upper = actUpper (knotAtK (gbK b)) b.nord ((gbK b).size - b.nord) xs := congrArg Prod.snd hlu
  subst hlo hup
  refine ⟨_, hcoeff, fun z => ?_⟩
  have hkn : b.nord ≤ (gbK b).size - b.nord := by omega
  have hopt := fit_optimum_solves (knotAtK (gbK b)) b.nord ((gbK b).size - b.nord) hk hkn xs hne hsorted
    (fun p a => ((rows.map List.toArray).toArray[p]!)[a]!) ?_ (fun p => ys.toArray[p]!) (fun p => ws.toArray[p]!) ?_ _ hsol z
  · have e : ∀ s : ℕ → K, ∑ p ∈ range xs.length, ws.getD p 0 * (ys.getD p 0 -
          splineAtK (knotAtK (gbK b)) s b.nord ((gbK b).size - b.nord) (xs.getD p 0)) ^ 2
        = ∑ p ∈ range xs.length, ws.toArray[p]! * (ys.toArray[p]! -
          splineAtK (knotAtK (gbK b)) s b.nord ((gbK b).size - b.nord) (xs.getD p 0)) ^ 2 := by
      intro s
      apply Finset.sum_congr rfl
      intro p hp
      rw [Finset.mem_range] at hp
      rw [toArray_getD ws p (by omega), toArray_getD ys p (by omega)]
    rw [e, e]
    exact hopt
  · -- the rows of `action` are the `bsplvn` values at the interval of each point
    intro p hp a ha
    have hrl : rows.length = xs.length := by
      rw [hrows, List.length_zipWith, @C08.scan_length K (fieldScalar K)]; omega
    have hrp : rows[p]'(by omega) = bsplvnK (knotAtK (gbK b)) b.nord xs[p]
        (intrvOfK (knotAtK (gbK b)) b.nord ((gbK b).size - b.nord) xs[p]) := by
      simp only [hrows, C08.intrv_pointwise _ _ _ xs hsorted, List.getElem_zipWith, List.getElem_map]
    have hx : xs.getD p 0 = xs[p] := by
      rw [List.getD_eq_getElem?_getD, List.getElem?_eq_getElem hp]; rfl
    unfold basisRow ptAt
    rw [hx, arr2_get rows p a (by omega) (by rw [hrp, C08.bsplvn_length _ _ _ _ hk]; exact ha), hrp]
  · intro p hp
    rw [toArray_getD ws p (by omega), List.getD_eq_getElem?_getD, List.getElem?_eq_getElem (by omega)]
    exact hw _ (List.getElem_mem _)


/-! ## reading the stored coefficients back: the optimum is the object `fit` returns -/
local notation "putGoodK" => @putGood _ (fieldScalar _)
local notation "coeffAtK" => @C08.coeffAt _ (fieldScalar _)

theorem foldl_setIf_size (l : List (ℕ × ℕ)) (f : ℕ → K) (c : Array K) :
    (l.foldl (fun c (ij : ℕ × ℕ) => c.setIfInBounds ij.1 (f ij.2)) c).size = c.size := by
  induction l generalizing c with
  | nil => rfl
  | cons x l ih => rw [List.foldl_cons, ih, Array.size_setIfInBounds]

theorem foldl_setIf_miss (l : List (ℕ × ℕ)) (f : ℕ → K) (c : Array K) (i : ℕ) (h : ∀ x ∈ l, x.1 ≠ i) :
    (l.foldl (fun c (ij : ℕ × ℕ) => c.setIfInBounds ij.1 (f ij.2)) c)[i]! = c[i]! := by
  induction l generalizing c with
  | nil => rfl
  | cons x l ih =>
    rw [List.foldl_cons, ih _ (fun y hy => h y (List.mem_cons_of_mem _ hy))]
    have := h x List.mem_cons_self
    rw [getElem!_def, getElem!_def, Array.getElem?_setIfInBounds_ne this]

theorem foldl_setIf_hit (l : List (ℕ × ℕ)) (f : ℕ → K) (c : Array K) (hnd : (l.map Prod.fst).Nodup)
    (ij : ℕ × ℕ) (hij : ij ∈ l) (hlt : ij.1 < c.size) :
    (l.foldl (fun c (ij : ℕ × ℕ) => c.setIfInBounds ij.1 (f ij.2)) c)[ij.1]! = f ij.2 := by
  induction l generalizing c with
  | nil => cases hij
  | cons x l ih =>
    rw [List.map_cons, List.nodup_cons] at hnd
    rw [List.foldl_cons]
    rcases List.mem_cons.1 hij with h | h
    · subst h
      rw [foldl_setIf_miss l f _ ij.1 (fun y hy hy1 => hnd.1 (by rw [← hy1]; exact List.mem_map_of_mem hy))]
      rw [getElem!_def, Array.getElem?_setIfInBounds_self_of_lt hlt]
    · exact ih _ hnd.2 h (by rw [Array.size_setIfInBounds]; exact hlt)

theorem goodIdx_nodup (m : List Bool) : (goodIdx m).Nodup := List.Nodup.filter _ List.nodup_range

theorem goodIdx_lt (m : List Bool) (i : ℕ) (hi : i ∈ goodIdx m) : i < m.length := by
  unfold goodIdx at hi
  exact List.mem_range.1 (List.mem_filter.1 hi).1

/-- `self.coeff[goodbk] = sol`: the coefficient stored at the position of the `j`-th good breakpoint is `sol[j]` -/
theorem putGood_get (coeff : Array K) (goodbk : List Bool) (sol : Array K) (j : ℕ) (hj : j < (goodIdx goodbk).length)
    (hsz : goodbk.length ≤ coeff.size) :
    (putGoodK coeff goodbk sol)[(goodIdx goodbk)[j]]! = sol[j]! := by
  unfold putGood
  have hmem : ((goodIdx goodbk)[j], j) ∈ (goodIdx goodbk).zip (List.range (goodIdx goodbk).length) := by
    rw [List.mem_iff_getElem]
    exact ⟨j, by simpa using hj, by simp⟩
  have := foldl_setIf_hit ((goodIdx goodbk).zip (List.range (goodIdx goodbk).length)) (fun i => sol[i]!) coeff
    (by rw [List.map_fst_zip (by simp)]; exact goodIdx_nodup goodbk) _ hmem
    (lt_of_lt_of_le (goodIdx_lt goodbk _ (List.getElem_mem hj)) hsz)
  exact this

/-- the spline only reads the first `n` coefficients -/
theorem splineAt_congr (t : ℕ → K) (k n : ℕ) (hk : 1 ≤ k) (hkn : k ≤ n) (c c' : ℕ → K) (h : ∀ j, j < n → c j = c' j) (x : K) :
    splineAtK t c k n x = splineAtK t c' k n x := by
  have hle := C08.intrvOf_le t k n x hk hkn
  unfold splineAt
  simp only []
  rw [dot_eq_sum, dot_eq_sum, C08.bsplvn_length t k _ x hk]
  apply Finset.sum_congr rfl
  intro a ha
  rw [Finset.mem_range] at ha
  rw [h _ (by omega)]

/-- `fit` never touches `nord` or the breakpoints -/
theorem fit_obj_fields {α : Type} [Scalar α] (Kn : Kernels α) (b : BS α) (xs ys ws : List α) (perm : List ℕ) (out : FitOut α)
    (h : fit Kn b xs ys ws perm = .ok out) : out.obj.nord = b.nord ∧ out.obj.breakpoints = b.breakpoints := by
  unfold fit at h
  simp only [bind, Except.bind, pure, Except.pure] at h
  repeat' split at h
  all_goals cases h
  all_goals exact ⟨rfl, rfl⟩

/-- **fit_is_optimum_obj**: under the hypotheses of `fit_is_optimum` and for a well-formed object (`coeff` has a slot for every
breakpoint beyond the first `nord`), the OBJECT that `fit` returns with status 0 - same order, breakpoints and mask, new
`coeff` - minimises `Σ_p invvar_p (y_p - spline(x_p))²`, `spline` = `splineAt` on the object's good knots with the object's
good coefficients `coeffAt` (exactly what C08 `value_is_spline` says `value` evaluates: `Σ_j coeffAt_j·B_{j,k}`), over ALL
coefficient vectors. -/
theorem fit_is_optimum_obj (Kn : Kernels K) (b : BS K) (xs ys ws : List K) (perm : List ℕ) (out : FitOut K)
    (h : fitK Kn b xs ys ws perm = .ok out) (h0 : out.status = 0)
    (hk : 1 ≤ b.nord) (hsize : 2 * b.nord ≤ (gbK b).size)
    (hnn : (goodIdx (b.mask.toList.drop b.nord)).length = (gbK b).size - b.nord)
    (hcs : b.mask.size - b.nord ≤ b.coeff.size)
    (hne : xs ≠ []) (hsorted : xs.Pairwise (· ≤ ·)) (hyl : ys.length = xs.length) (hwl : ws.length = xs.length)
    (hw : ∀ v ∈ ws, 0 ≤ v)
    (hsolve : ∀ rows lower upper mininf a, (@BS.action _ (fieldScalar _) b xs) = .ok (some (rows, lower, upper)) →
      choleskyBandK Kn (normalSystemK rows ys ws lower upper xs.length b.nord ((gbK b).size - b.nord)).1 mininf
        = .ok (.factor a) →
      ∀ c, c < (gbK b).size - b.nord → ∑ c' ∈ range ((gbK b).size - b.nord),
        bandFull (assembleK (fun p a => ((rows.map List.toArray).toArray[p]!)[a]!) (fun p => ys.toArray[p]!)
            (fun p => ws.toArray[p]!) lower upper xs.length b.nord ((gbK b).size - b.nord - b.nord + 1)).1 b.nord c c'
          * (choleskySolveK Kn a (normalSystemK rows ys ws lower upper xs.length b.nord ((gbK b).size - b.nord)).2)[c']!
        = (assembleK (fun p a => ((rows.map List.toArray).toArray[p]!)[a]!) (fun p => ys.toArray[p]!)
            (fun p => ws.toArray[p]!) lower upper xs.length b.nord ((gbK b).size - b.nord - b.nord + 1)).2 c) :
    out.obj.nord = b.nord ∧ gbK out.obj = gbK b ∧
      ∀ z : ℕ → K,
        ∑ p ∈ range xs.length, ws.getD p 0 * (ys.getD p 0 -
            splineAtK (knotAtK (gbK out.obj)) (coeffAtK out.obj) out.obj.nord ((gbK out.obj).size - out.obj.nord) (xs.getD p 0)) ^ 2
          ≤ ∑ p ∈ range xs.length, ws.getD p 0 * (ys.getD p 0 -
            splineAtK (knotAtK (gbK out.obj)) z out.obj.nord ((gbK out.obj).size - out.obj.nord) (xs.getD p 0)) ^ 2 := by
  obtain ⟨sol, hcoeff, hopt⟩ := fit_is_optimum Kn b xs ys ws perm out h h0 hk hsize hnn hne hsorted hyl hwl hw hsolve
  obtain ⟨hnord, hbk⟩ := @fit_obj_fields K (fieldScalar K) Kn b xs ys ws perm out h
  have hmask : out.obj.mask = b.mask := by
    rcases @fit_status K (fieldScalar K) Kn b xs ys ws perm out h with ⟨_, hm⟩ | ⟨hs, _⟩ | ⟨hs, _⟩
    · exact hm
    · rw [h0] at hs; cases hs
    · rw [h0] at hs; cases hs
  have hgb : gbK out.obj = gbK b := by unfold BS.gb; rw [hmask, hbk]
  refine ⟨hnord, hgb, fun z => ?_⟩
  rw [hgb, hnord]
  have hkn : b.nord ≤ (gbK b).size - b.nord := by omega
  have hread : ∀ j, j < (gbK b).size - b.nord → coeffAtK out.obj j = sol[j]! := by
    intro j hj
    have hjl : j < (goodIdx (b.mask.toList.drop b.nord)).length := by rw [hnn]; exact hj
    unfold C08.coeffAt BS.goodcoeff
    rw [hmask, hnord, hcoeff, getElem!_pos _ j (by simpa using hjl)]
    simp only [List.getElem_toArray, List.getElem_map]
    exact putGood_get b.coeff _ sol j hjl (by simp; omega)
  have e : ∀ p, splineAtK (knotAtK (gbK b)) (coeffAtK out.obj) b.nord ((gbK b).size - b.nord) (xs.getD p 0)
      = splineAtK (knotAtK (gbK b)) (fun j => sol[j]!) b.nord ((gbK b).size - b.nord) (xs.getD p 0) :=
    fun p => splineAt_congr _ _ _ hk hkn _ _ hread _
  simp_rw [e]
  exact hopt z


/-- a minimiser of the objective reproduces data that come from a spline of the same knots (argument of `fit_exact`) -/
theorem exact_of_optimum (t : ℕ → K) (k n nx : ℕ) (x y w : ℕ → K) (hw : ∀ p, p < nx → 0 ≤ w p) (sol c0 : ℕ → K)
    (hopt : ∑ p ∈ range nx, w p * (y p - splineAtK t sol k n (x p)) ^ 2 ≤ ∑ p ∈ range nx, w p * (y p - splineAtK t c0 k n (x p)) ^ 2)
    (hy : ∀ p, p < nx → y p = splineAtK t c0 k n (x p)) :
    ∀ p, p < nx → 0 < w p → splineAtK t sol k n (x p) = y p := by
  have hzero : ∑ p ∈ range nx, w p * (y p - splineAtK t c0 k n (x p)) ^ 2 = 0 := by
    apply Finset.sum_eq_zero; intro p hp; rw [hy p (Finset.mem_range.1 hp)]; ring
  rw [hzero] at hopt
  have hnn : ∀ p ∈ range nx, 0 ≤ w p * (y p - splineAtK t sol k n (x p)) ^ 2 :=
    fun p hp => mul_nonneg (hw p (Finset.mem_range.1 hp)) (sq_nonneg _)
  have hall := (Finset.sum_eq_zero_iff_of_nonneg hnn).1 (le_antisymm hopt (Finset.sum_nonneg hnn))
  intro p hp hpos
  have := hall p (Finset.mem_range.2 hp)
  rcases mul_eq_zero.1 this with h | h
  · exact absurd h (ne_of_gt hpos)
  · have := pow_eq_zero_iff (two_ne_zero) |>.1 h
    exact (sub_eq_zero.1 this).symm

open Polynomial in
/-- **fit_reproduces_poly** (about `fit` itself): in the situation of `fit_is_optimum_obj`, with non-decreasing good knots,
`t[k-1] < t[k]`, all points in the breakpoint range and `y_p = q(x_p)` for a polynomial `q` of degree `< nord`: the spline
of the object that `fit` returns with status 0 equals `q` at every point of positive weight - every degree below the order,
no assumption that the system is non-singular. -/
theorem fit_reproduces_poly (Kn : Kernels K) (b : BS K) (xs ys ws : List K) (perm : List ℕ) (out : FitOut K)
    (h : fitK Kn b xs ys ws perm = .ok out) (h0 : out.status = 0)
    (hk : 1 ≤ b.nord) (hsize : 2 * b.nord ≤ (gbK b).size)
    (hnn : (goodIdx (b.mask.toList.drop b.nord)).length = (gbK b).size - b.nord)
    (hcs : b.mask.size - b.nord ≤ b.coeff.size)
    (hne : xs ≠ []) (hsorted : xs.Pairwise (· ≤ ·)) (hyl : ys.length = xs.length) (hwl : ws.length = xs.length)
    (hw : ∀ v ∈ ws, 0 ≤ v)
    (hsolve : ∀ rows lower upper mininf a, (@BS.action _ (fieldScalar _) b xs) = .ok (some (rows, lower, upper)) →
      choleskyBandK Kn (normalSystemK rows ys ws lower upper xs.length b.nord ((gbK b).size - b.nord)).1 mininf
        = .ok (.factor a) →
      ∀ c, c < (gbK b).size - b.nord → ∑ c' ∈ range ((gbK b).size - b.nord),
        bandFull (assembleK (fun p a => ((rows.map List.toArray).toArray[p]!)[a]!) (fun p => ys.toArray[p]!)
            (fun p => ws.toArray[p]!) lower upper xs.length b.nord ((gbK b).size - b.nord - b.nord + 1)).1 b.nord c c'
          * (choleskySolveK Kn a (normalSystemK rows ys ws lower upper xs.length b.nord ((gbK b).size - b.nord)).2)[c']!
        = (assembleK (fun p a => ((rows.map List.toArray).toArray[p]!)[a]!) (fun p => ys.toArray[p]!)
            (fun p => ws.toArray[p]!) lower upper xs.length b.nord ((gbK b).size - b.nord - b.nord + 1)).2 c)
    (hmono : ∀ a c, a ≤ c → c ≤ (gbK b).size - 1 → knotAtK (gbK b) a ≤ knotAtK (gbK b) c)
    (hfirst : knotAtK (gbK b) (b.nord - 1) < knotAtK (gbK b) b.nord)
    (hrange : ∀ v ∈ xs, knotAtK (gbK b) (b.nord - 1) ≤ v ∧ v ≤ knotAtK (gbK b) ((gbK b).size - b.nord))
    (q : K[X]) (hq : q.natDegree < b.nord) (hy : ∀ p, p < xs.length → ys.getD p 0 = q.eval (xs.getD p 0)) :
    ∀ p, p < xs.length → 0 < ws.getD p 0 →
      splineAtK (knotAtK (gbK out.obj)) (coeffAtK out.obj) out.obj.nord ((gbK out.obj).size - out.obj.nord) (xs.getD p 0)
        = q.eval (xs.getD p 0) := by
  obtain ⟨hnord, hgb, hopt⟩ := fit_is_optimum_obj Kn b xs ys ws perm out h h0 hk hsize hnn hcs hne hsorted hyl hwl hw hsolve
  rw [hgb, hnord] at hopt ⊢
  have hkn : b.nord ≤ (gbK b).size - b.nord := by omega
  have hmem : ∀ p, p < xs.length → xs.getD p 0 ∈ xs := by
    intro p hp
    rw [List.getD_eq_getElem?_getD, List.getElem?_eq_getElem hp]; exact List.getElem_mem hp
  have hwp : ∀ p, p < xs.length → 0 ≤ ws.getD p 0 := by
    intro p hp
    rw [List.getD_eq_getElem?_getD, List.getElem?_eq_getElem (by omega)]; exact hw _ (List.getElem_mem _)
  intro p hp hpos
  have := exact_of_optimum (knotAtK (gbK b)) b.nord ((gbK b).size - b.nord) xs.length (fun p => xs.getD p 0)
    (fun p => ys.getD p 0) (fun p => ws.getD p 0) hwp _ (polyCoeff (knotAtK (gbK b)) (b.nord - 1) q)
    (hopt _) (fun r hr => by
      rw [hy r hr, spline_of_poly _ _ _ hk hkn (fun a c hac hc => hmono a c hac (by omega)) hfirst q hq _
        (hrange _ (hmem r hr)).1 (hrange _ (hmem r hr)).2]) p hp hpos
  rw [this, hy p hp]

/-! ## the factor + solve contract PROVED for the textbook banded kernels of Model/BandChol.lean

`CholContract` / `hsolve` above are hypotheses about LAPACK.  The kernels that the Lean driver actually runs as the
`Kernels` parameter of `fit` (`bandFactor` / `bandSolve`: `L D Lᵀ` at `Rat`, Cholesky at `Float`) are ordinary Lean
definitions; for them the contract is a theorem over every linearly ordered field (helper lemmas: Lemmas/BandChol.lean). -/
section kernels
open PydlVerif.BandChol PydlVerif.BandCholLemmas

local notation "get2K" => @get2 _ (fieldScalar _)
local notation "bandFactorK" => @bandFactor _ (fieldScalar _)
local notation "bandSolveK" => @bandSolve _ (fieldScalar _)
local notation "ldltVK" => @ldltV _ (fieldScalar _)
local notation "cholVK" => @cholV _ (fieldScalar _)
local notation "kernelsLdltK" => @kernelsLdlt _ (fieldScalar _)

/-- `bandFull` (the symmetric matrix rebuilt from `alpha.T.flat`) is `bandSym` of the band rows `alpha[r][c]` -/
theorem bandFull_eq_bandSym (alphaT : ℕ → K) (bw c c' : ℕ) :
    bandFull alphaT bw c c' = bandSym (fun r c => alphaT (c * bw + r)) bw c c' := rfl

/-- the unit lower triangular banded factor `L` stored in rows `1..bw-1` of an `ldltV` factor (`L[i][i] = 1`,
`L[i][j] = F[i-j][j]` for `0 < i-j < bw`, zero elsewhere) -/
noncomputable def ldltL (F : Array (Array K)) (bw i j : ℕ) : K := lowM (fun r c => get2K F r c) (fun _ => 1) bw i j
/-- the diagonal `D` stored in row 0 of an `ldltV` factor -/
noncomputable def ldltD (F : Array (Array K)) (c : ℕ) : K := get2K F 0 c
/-- the lower triangular banded Cholesky factor stored in a `cholV` factor (`L[i][j] = F[i-j][j]`, `0 ≤ i-j < bw`) -/
noncomputable def cholL (F : Array (Array K)) (bw i j : ℕ) : K := lowM (fun r c => get2K F r c) (fun c => get2K F 0 c) bw i j

theorem ldlt_mem_eq (F : Array (Array K)) (bw n i j : ℕ) :
    mem (fun r c => get2K F r c) (fun c => (ldltVK).md (get2K F 0 c)) (fun c => (ldltVK).ew (get2K F 0 c)) bw n i j
      = ∑ k ∈ range n, ldltL F bw i k * ldltD F k * ldltL F bw j k := by
  rw [mem_congr (fun r c => get2K F r c) (fun r c => get2K F r c) (fun c => (ldltVK).md (get2K F 0 c)) (fun _ => 1)
    (fun c => (ldltVK).ew (get2K F 0 c)) (fun c => get2K F 0 c) bw n (fun _ _ _ _ => rfl) (fun c _ => sc_one') (fun _ _ => rfl) i j]
  rfl

theorem chol_mem_eq (sqrt : K → K) (F : Array (Array K)) (bw n i j : ℕ) :
    mem (fun r c => get2K F r c) (fun c => (cholVK sqrt).md (get2K F 0 c)) (fun c => (cholVK sqrt).ew (get2K F 0 c)) bw n i j
      = ∑ k ∈ range n, cholL F bw i k * cholL F bw j k := by
  rw [mem_congr (fun r c => get2K F r c) (fun r c => get2K F r c) (fun c => (cholVK sqrt).md (get2K F 0 c)) (fun c => get2K F 0 c)
    (fun c => (cholVK sqrt).ew (get2K F 0 c)) (fun _ => 1) bw n (fun _ _ _ _ => rfl) (fun _ _ => rfl) (fun c _ => sc_one') i j]
  unfold mem cholL
  apply Finset.sum_congr rfl
  intro k _
  rw [mul_one]

/-- **ldlt_factor_spec**: `A` in lower band storage (`A[r][c] = A_full[c+r][c]`, bandwidth `bw ≥ 1`, size `n`).  When the
square-root-free banded factorisation `bandFactor ldltV` answers a factor `F` - which it does exactly when all its pivots
are positive (`ldlt_factor_iff_pivots`) - then `D > 0` and `L D Lᵀ = A` ENTRYWISE for all `i, j < n`, `A` being the symmetric
matrix with that band and zero outside it; `L` is unit lower triangular and banded. -/
theorem ldlt_factor_spec (bw n : ℕ) (hbw : 0 < bw) (A F : Array (Array K)) (h : bandFactorK ldltVK bw n A = some F) :
    (∀ c, c < n → 0 < ldltD F c) ∧
    (∀ i j, i < n → j < n →
      ∑ k ∈ range n, ldltL F bw i k * ldltD F k * ldltL F bw j k = bandSym (fun r c => get2K A r c) bw i j) ∧
    (∀ i, ldltL F bw i i = 1) ∧ (∀ i j, i < j ∨ j + bw ≤ i → ldltL F bw i j = 0) := by
  obtain ⟨hg, hmem⟩ := bandFactor_mem ldltVK ldltV_ok bw n hbw A F h
  refine ⟨fun c hc => ?_, fun i j hi hj => ?_, fun i => lowM_diag _ _ bw i, fun i j hij => ?_⟩
  · obtain ⟨p, hp, e⟩ := hg c hc
    unfold ldltD
    rw [e]
    exact hp
  · rw [← ldlt_mem_eq, hmem i j hi hj]
  · unfold ldltL
    rcases hij with hij | hij
    · exact lowM_upper _ _ bw i j hij
    · rw [lowM_lower _ _ bw i j (by omega), if_neg (by omega)]

/-- `bandFactor ldltV` answers a factor exactly when every pivot `d_c = A[c][c] - Σ_{k<c} L[c][k]² d_k` it computes is
positive; `none` (a pivot `≤ 0`) is the `LinAlgError` of `cholesky_banded` in the model -/
theorem ldlt_factor_iff_pivots (bw n : ℕ) (A : Array (Array K)) :
    (∃ F, bandFactorK ldltVK bw n A = some F) ↔ ∀ c, c < n → 0 < pivotK ldltVK bw n A c :=
  bandFactor_isSome ldltVK bw n A

/-- **ldlt_factor_iff_pos_def**: the banded `L D Lᵀ` factorisation answers a factor (all pivots positive) EXACTLY when the
symmetric banded matrix is positive definite (`xᵀ A x > 0` for every `x ≠ 0`): "⇒" from `L D Lᵀ = A`, `D > 0`, `L` unit
triangular; "⇐" by contradiction at the first non-positive pivot `p_c`: the leading block is `L E Lᵀ` with `e_c = p_c`, and
`x` with `Lᵀ x = e_c` (back substitution) has `xᵀ A x = p_c ≤ 0` -/
theorem ldlt_factor_iff_pos_def (bw n : ℕ) (hbw : 0 < bw) (A : Array (Array K)) :
    (∃ F, bandFactorK ldltVK bw n A = some F) ↔ PosDef (bandSym (fun r c => get2K A r c) bw) n :=
  ⟨fun ⟨F, h⟩ => bandFactor_pos_def ldltVK ldltV_ok bw n hbw A F h, pos_def_bandFactor ldltVK ldltV_ok bw n hbw A⟩

/-- the same for the Cholesky form over a field with `sqrt` -/
theorem chol_factor_iff_pos_def (sqrt : K → K) (hs : ∀ p, 0 < p → sqrt p * sqrt p = p) (bw n : ℕ) (hbw : 0 < bw)
    (A : Array (Array K)) :
    (∃ F, bandFactorK (cholVK sqrt) bw n A = some F) ↔ PosDef (bandSym (fun r c => get2K A r c) bw) n :=
  ⟨fun ⟨F, h⟩ => bandFactor_pos_def (cholVK sqrt) (cholV_ok sqrt hs) bw n hbw A F h,
    pos_def_bandFactor (cholVK sqrt) (cholV_ok sqrt hs) bw n hbw A⟩

/-- **ldlt_solve_spec**: for a factor with non-zero `D`, forward substitution (`L z = b`), diagonal scaling (`D w = z`) and
back substitution (`Lᵀ x = w`) - `bandSolve ldltV` - return `x` with `(L D Lᵀ) x = b` -/
theorem ldlt_solve_spec (bw n : ℕ) (hbw : 0 < bw) (F : Array (Array K)) (b : Array K) (hD : ∀ c, c < n → ldltD F c ≠ 0)
    (i : ℕ) (hi : i < n) :
    ∑ j ∈ range n, (∑ k ∈ range n, ldltL F bw i k * ldltD F k * ldltL F bw j k) * (bandSolveK ldltVK bw n F b)[j]! = b[i]! := by
  have := bandSolve_mem ldltVK bw n hbw F b (fun c _ => by
      show (@OfNat.ofNat K 1 (@Scalar.instOfNat K (fieldScalar K) 1) : K) ≠ 0
      rw [sc_one']; exact one_ne_zero) (fun c hc => hD c hc) i hi
  rw [← this]
  apply Finset.sum_congr rfl
  intro j _
  rw [ldlt_mem_eq]

/-- **ldlt_solves**: factor + solve: `A x = b` -/
theorem ldlt_solves (bw n : ℕ) (hbw : 0 < bw) (A F : Array (Array K)) (b : Array K)
    (h : bandFactorK ldltVK bw n A = some F) (i : ℕ) (hi : i < n) :
    ∑ j ∈ range n, bandSym (fun r c => get2K A r c) bw i j * (bandSolveK ldltVK bw n F b)[j]! = b[i]! :=
  band_solves ldltVK ldltV_ok bw n hbw A F b h i hi

/-- the `L D Lᵀ` form of `CholContract` (no square root exists in a general ordered field) -/
structure LdltContract (A : ℕ → ℕ → K) (b : ℕ → K) (n : ℕ) (L : ℕ → ℕ → K) (d : ℕ → K) (x : ℕ → K) : Prop where
  pos : ∀ k, k < n → 0 < d k
  factor : ∀ i j, i < n → j < n → ∑ k ∈ range n, L i k * d k * L j k = A i j
  solve : ∀ i, i < n → ∑ j ∈ range n, (∑ k ∈ range n, L i k * d k * L j k) * x j = b i

theorem LdltContract.solves {A : ℕ → ℕ → K} {b : ℕ → K} {n : ℕ} {L : ℕ → ℕ → K} {d x : ℕ → K}
    (h : LdltContract A b n L d x) : ∀ i, i < n → ∑ j ∈ range n, A i j * x j = b i := by
  intro i hi
  rw [← h.solve i hi]
  apply Finset.sum_congr rfl
  intro j hj
  rw [h.factor i j hi (Finset.mem_range.1 hj)]

/-- **ldlt_contract_kernel**: the contract is a THEOREM for the kernel pair `bandFactor ldltV` / `bandSolve ldltV` -/
theorem ldlt_contract_kernel (bw n : ℕ) (hbw : 0 < bw) (A F : Array (Array K)) (b : Array K)
    (h : bandFactorK ldltVK bw n A = some F) :
    LdltContract (bandSym (fun r c => get2K A r c) bw) (fun i => b[i]!) n (ldltL F bw) (ldltD F)
      (fun j => (bandSolveK ldltVK bw n F b)[j]!) := by
  obtain ⟨hpos, hfac, _, _⟩ := ldlt_factor_spec bw n hbw A F h
  exact ⟨hpos, hfac, fun i hi => ldlt_solve_spec bw n hbw F b (fun c hc => ne_of_gt (hpos c hc)) i hi⟩

/-- **chol_contract_kernel**: `CholContract` itself (`L Lᵀ = A`, `(L Lᵀ) x = b`) is a THEOREM for the Cholesky pair
`bandFactor (cholV sqrt)` / `bandSolve (cholV sqrt)` - the pair the driver runs at `Float` - over any ordered field with an
operation `sqrt` such that `sqrt p · sqrt p = p` for `p > 0` -/
theorem chol_contract_kernel (sqrt : K → K) (hs : ∀ p, 0 < p → sqrt p * sqrt p = p) (bw n : ℕ) (hbw : 0 < bw)
    (A F : Array (Array K)) (b : Array K) (h : bandFactorK (cholVK sqrt) bw n A = some F) :
    CholContract (bandSym (fun r c => get2K A r c) bw) (fun i => b[i]!) n (cholL F bw)
      (fun j => (bandSolveK (cholVK sqrt) bw n F b)[j]!) := by
  have hV := cholV_ok sqrt hs
  obtain ⟨hg, hmem⟩ := bandFactor_mem (cholVK sqrt) hV bw n hbw A F h
  have hne : ∀ c, c < n → (cholVK sqrt).md (get2K F 0 c) ≠ 0 ∧ (cholVK sqrt).ew (get2K F 0 c) ≠ 0 := by
    intro c hc
    obtain ⟨p, hp, e⟩ := hg c hc
    rw [e]
    have h1 := hV.ew_md p hp
    have h0 := hV.root_ne p hp
    constructor
    · intro hz; rw [hz, mul_zero] at h1; exact h0 h1.symm
    · intro hz; rw [hz, zero_mul] at h1; exact h0 h1.symm
  constructor
  · intro i j hi hj
    rw [← chol_mem_eq sqrt, hmem i j hi hj]
  · intro i hi
    have := bandSolve_mem (cholVK sqrt) bw n hbw F b (fun c hc => (hne c hc).1) (fun c hc => (hne c hc).2) i hi
    rw [← this]
    apply Finset.sum_congr rfl
    intro j _
    rw [chol_mem_eq sqrt]

/-! ### the model functions `cholesky_band` / `cholesky_solve` / `fit` with the `L D Lᵀ` kernels -/

theorem normalSystem_shape (rows : List (List K)) (ys ws : List K) (lower upper : Array ℤ) (nx nord nn : ℕ) :
    (normalSystemK rows ys ws lower upper nx nord nn).1.size = nord ∧
    (0 < nord → ((normalSystemK rows ys ws lower upper nx nord nn).1[0]!).size = nn + nord) ∧
    (normalSystemK rows ys ws lower upper nx nord nn).2.size = nn + nord := by
  unfold normalSystem
  refine ⟨by simp, fun h => ?_, by simp⟩
  simp only []
  rw [getElem!_mapRange _ nord 0 h]
  simp

theorem normalSystem_get (rows : List (List K)) (ys ws : List K) (lower upper : Array ℤ) (nx nord nn r c : ℕ)
    (hr : r < nord) (hc : c < nn + nord) :
    get2K (normalSystemK rows ys ws lower upper nx nord nn).1 r c =
      (assembleK (fun p a => ((rows.map List.toArray).toArray[p]!)[a]!) (fun p => ys.toArray[p]!)
        (fun p => ws.toArray[p]!) lower upper nx nord (nn - nord + 1)).1 (c * nord + r) := by
  unfold normalSystem get2
  simp only []
  rw [getElem!_mapRange _ nord r hr, getElem!_mapRange _ (nn + nord) c hc]

theorem normalSystem_get_beta (rows : List (List K)) (ys ws : List K) (lower upper : Array ℤ) (nx nord nn c : ℕ)
    (hc : c < nn + nord) :
    (normalSystemK rows ys ws lower upper nx nord nn).2[c]! =
      (assembleK (fun p a => ((rows.map List.toArray).toArray[p]!)[a]!) (fun p => ys.toArray[p]!)
        (fun p => ws.toArray[p]!) lower upper nx nord (nn - nord + 1)).2 c := by
  unfold normalSystem
  simp only []
  rw [getElem!_mapRange _ (nn + nord) c hc]

/-- **cholesky_band_ldlt** (how "pivot ≤ 0" maps to the answer of `cholesky_band`): on a `bw × (n+bw)` band matrix that passes
the screen (no diagonal entry `≤ mininf`; `isFinite` is constantly true in an ordered field), `cholesky_band` with the `L D Lᵀ`
kernels answers the padded factor when the kernel factored (all pivots positive); when a pivot is `≤ 0` (`bandFactor = none` =
`LinAlgError` of scipy) the code enters its fallback loop - whose square root does not exist in the exact interpretation
(`sqrt := 0`), so that it stops at column 0 and `cholesky_band` answers the scalar column `0`, i.e. NOT a factor: `fit` then
calls `maskpoints` and returns status -1 / -2 (`fit_status`), never 0 -/
theorem cholesky_band_ldlt (l : Array (Array K)) (mininf : K) (bw n : ℕ) (hbw : 0 < bw) (hn : 0 < n)
    (hl : l.size = bw) (hl0 : (l[0]!).size = n + bw)
    (hscreen : (!((List.range ((l[0]!).size - l.size)).filter (fun c => decide (get2K l 0 c ≤ mininf))).isEmpty
      || !(l.all (fun row => row.all (kernelsLdltK).isFinite))) = false) :
    choleskyBandK kernelsLdltK l mininf =
      match bandFactorK ldltVK bw n (l.map (fun row => row.extract 0 n)) with
      | some L => .ok (.factor (@padBand _ (fieldScalar _) bw n (n + bw) L))
      | none => .ok (.bad [0] true) :=
  choleskyBand_ldlt_eq l mininf bw n hbw hn hl hl0 hscreen

/-- **cholesky_band_ldlt_iff_pos_def**: on a `bw × (n+bw)` band matrix that passes the screen, the model's `cholesky_band` with the
`L D Lᵀ` kernels answers a factor EXACTLY when the matrix is positive definite -/
theorem cholesky_band_ldlt_iff_pos_def (l : Array (Array K)) (mininf : K) (bw n : ℕ) (hbw : 0 < bw) (hn : 0 < n)
    (hl : l.size = bw) (hl0 : (l[0]!).size = n + bw)
    (hscreen : (!((List.range ((l[0]!).size - l.size)).filter (fun c => decide (get2K l 0 c ≤ mininf))).isEmpty
      || !(l.all (fun row => row.all (kernelsLdltK).isFinite))) = false) :
    (∃ a, choleskyBandK kernelsLdltK l mininf = .ok (.factor a)) ↔ PosDef (bandSym (fun r c => get2K l r c) bw) n := by
  rw [cholesky_band_ldlt l mininf bw n hbw hn hl hl0 hscreen,
    ← PosDef_congr _ _ n (bandSym_congr _ _ bw n (fun r c _ hc => get2_map_extract l n r c hc)),
    ← ldlt_factor_iff_pos_def bw n hbw]
  cases bandFactorK ldltVK bw n (l.map (fun row => row.extract 0 n)) with
  | some L => exact ⟨fun _ => ⟨L, rfl⟩, fun _ => ⟨_, rfl⟩⟩
  | none =>
    constructor
    · rintro ⟨a, ha⟩
      cases ha
    · rintro ⟨F, hF⟩
      cases hF

/-- **cholesky_solves_ldlt**: whenever the model's `cholesky_band` (with the `L D Lᵀ` kernels) answers a factor for a
`bw × (n+bw)` band matrix `l`, the model's `cholesky_solve` with that factor returns `x` with `A x = b` for the symmetric
banded matrix `A` of `l` - NO hypothesis about the solver -/
theorem cholesky_solves_ldlt (l : Array (Array K)) (bb : Array K) (mininf : K) (bw n : ℕ) (hbw : 0 < bw) (hn : 0 < n)
    (hl : l.size = bw) (hl0 : (l[0]!).size = n + bw) (hbb : bb.size = n + bw) (a : Array (Array K))
    (h : choleskyBandK kernelsLdltK l mininf = .ok (.factor a)) (i : ℕ) (hi : i < n) :
    ∑ j ∈ range n, bandSym (fun r c => get2K l r c) bw i j * (choleskySolveK kernelsLdltK a bb)[j]! = bb[i]! :=
  choleskyBand_ldlt_solves l bb mininf bw n hbw hn hl hl0 hbb a h i hi

/-- the hypothesis `hsolve` of `fit_is_optimum`, PROVED for the `L D Lᵀ` kernels -/
theorem hsolve_ldlt (b : BS K) (xs ys ws : List K) (hk : 1 ≤ b.nord) (hsize : 2 * b.nord ≤ (gbK b).size) :
    ∀ rows lower upper mininf a, (@BS.action _ (fieldScalar _) b xs) = .ok (some (rows, lower, upper)) →
      choleskyBandK kernelsLdltK (normalSystemK rows ys ws lower upper xs.length b.nord ((gbK b).size - b.nord)).1 mininf
        = .ok (.factor a) →
      ∀ c, c < (gbK b).size - b.nord → ∑ c' ∈ range ((gbK b).size - b.nord),
        bandFull (assembleK (fun p a => ((rows.map List.toArray).toArray[p]!)[a]!) (fun p => ys.toArray[p]!)
            (fun p => ws.toArray[p]!) lower upper xs.length b.nord ((gbK b).size - b.nord - b.nord + 1)).1 b.nord c c'
          * (choleskySolveK kernelsLdltK a (normalSystemK rows ys ws lower upper xs.length b.nord ((gbK b).size - b.nord)).2)[c']!
        = (assembleK (fun p a => ((rows.map List.toArray).toArray[p]!)[a]!) (fun p => ys.toArray[p]!)
            (fun p => ws.toArray[p]!) lower upper xs.length b.nord ((gbK b).size - b.nord - b.nord + 1)).2 c := by
  intro rows lower upper mininf a _ hchol c hc
  obtain ⟨h1, h2, h3⟩ := normalSystem_shape rows ys ws lower upper xs.length b.nord ((gbK b).size - b.nord)
  have key := choleskyBand_ldlt_solves _ _ mininf b.nord ((gbK b).size - b.nord) hk (by omega) h1 (h2 hk) h3 a hchol c hc
  rw [normalSystem_get_beta rows ys ws lower upper xs.length b.nord _ c (by omega)] at key
  rw [← key]
  apply Finset.sum_congr rfl
  intro c' hc'
  rw [Finset.mem_range] at hc'
  congr 1
  rw [bandFull_eq_bandSym]
  exact bandSym_congr _ _ b.nord ((gbK b).size - b.nord)
    (fun r q hr hq => (normalSystem_get rows ys ws lower upper xs.length b.nord _ r q hr (by omega)).symm) c c' hc hc'

/-- **fit_is_optimum_ldlt** (NO solver hypothesis): the model function `fit` run with the textbook banded `L D Lᵀ` kernels
(`kernelsLdlt` - literally what the driver executes in the exact run `fitq`) on an object of order `k ≥ 1` with `≥ 2k` good
breakpoints, the first `k` unmasked, sorted points and weights `≥ 0`: WHENEVER the status is 0, the stored coefficient vector
minimises `Σ_p invvar_p (y_p - spline(x_p))²` over ALL coefficient vectors.  (`fit_is_optimum` with `hsolve` discharged by
`hsolve_ldlt`.) -/
theorem fit_is_optimum_ldlt (b : BS K) (xs ys ws : List K) (perm : List ℕ) (out : FitOut K)
    (h : fitK kernelsLdltK b xs ys ws perm = .ok out) (h0 : out.status = 0)
    (hk : 1 ≤ b.nord) (hsize : 2 * b.nord ≤ (gbK b).size)
    (hnn : (goodIdx (b.mask.toList.drop b.nord)).length = (gbK b).size - b.nord)
    (hne : xs ≠ []) (hsorted : xs.Pairwise (· ≤ ·)) (hyl : ys.length = xs.length) (hwl : ws.length = xs.length)
    (hw : ∀ v ∈ ws, 0 ≤ v) :
    ∃ sol : Array K, out.obj.coeff = @putGood _ (fieldScalar _) b.coeff (b.mask.toList.drop b.nord) sol ∧
      ∀ z : ℕ → K,
        ∑ p ∈ range xs.length, ws.getD p 0 * (ys.getD p 0 -
            splineAtK (knotAtK (gbK b)) (fun j => sol[j]!) b.nord ((gbK b).size - b.nord) (xs.getD p 0)) ^ 2
          ≤ ∑ p ∈ range xs.length, ws.getD p 0 * (ys.getD p 0 -
            splineAtK (knotAtK (gbK b)) z b.nord ((gbK b).size - b.nord) (xs.getD p 0)) ^ 2 :=
  fit_is_optimum kernelsLdltK b xs ys ws perm out h h0 hk hsize hnn hne hsorted hyl hwl hw (hsolve_ldlt b xs ys ws hk hsize)

/-- **fit_is_optimum_obj_ldlt** (NO solver hypothesis): the OBJECT that `fit` with the `L D Lᵀ` kernels returns with status 0
minimises the objective (its spline = `splineAt` on its good knots with its good coefficients, C08 `value_is_spline`) -/
theorem fit_is_optimum_obj_ldlt (b : BS K) (xs ys ws : List K) (perm : List ℕ) (out : FitOut K)
    (h : fitK kernelsLdltK b xs ys ws perm = .ok out) (h0 : out.status = 0)
    (hk : 1 ≤ b.nord) (hsize : 2 * b.nord ≤ (gbK b).size)
    (hnn : (goodIdx (b.mask.toList.drop b.nord)).length = (gbK b).size - b.nord)
    (hcs : b.mask.size - b.nord ≤ b.coeff.size)
    (hne : xs ≠ []) (hsorted : xs.Pairwise (· ≤ ·)) (hyl : ys.length = xs.length) (hwl : ws.length = xs.length)
    (hw : ∀ v ∈ ws, 0 ≤ v) :
    out.obj.nord = b.nord ∧ gbK out.obj = gbK b ∧
      ∀ z : ℕ → K,
        ∑ p ∈ range xs.length, ws.getD p 0 * (ys.getD p 0 -
            splineAtK (knotAtK (gbK out.obj)) (coeffAtK out.obj) out.obj.nord ((gbK out.obj).size - out.obj.nord) (xs.getD p 0)) ^ 2
          ≤ ∑ p ∈ range xs.length, ws.getD p 0 * (ys.getD p 0 -
            splineAtK (knotAtK (gbK out.obj)) z out.obj.nord ((gbK out.obj).size - out.obj.nord) (xs.getD p 0)) ^ 2 :=
  fit_is_optimum_obj kernelsLdltK b xs ys ws perm out h h0 hk hsize hnn hcs hne hsorted hyl hwl hw (hsolve_ldlt b xs ys ws hk hsize)

open Polynomial in
/-- **fit_reproduces_poly_ldlt** (NO solver hypothesis): `fit` with the `L D Lᵀ` kernels, status 0, data from a polynomial of
degree `< nord`: the returned object's spline equals the polynomial at every positively weighted point -/
theorem fit_reproduces_poly_ldlt (b : BS K) (xs ys ws : List K) (perm : List ℕ) (out : FitOut K)
    (h : fitK kernelsLdltK b xs ys ws perm = .ok out) (h0 : out.status = 0)
    (hk : 1 ≤ b.nord) (hsize : 2 * b.nord ≤ (gbK b).size)
    (hnn : (goodIdx (b.mask.toList.drop b.nord)).length = (gbK b).size - b.nord)
    (hcs : b.mask.size - b.nord ≤ b.coeff.size)
    (hne : xs ≠ []) (hsorted : xs.Pairwise (· ≤ ·)) (hyl : ys.length = xs.length) (hwl : ws.length = xs.length)
    (hw : ∀ v ∈ ws, 0 ≤ v)
    (hmono : ∀ a c, a ≤ c → c ≤ (gbK b).size - 1 → knotAtK (gbK b) a ≤ knotAtK (gbK b) c)
    (hfirst : knotAtK (gbK b) (b.nord - 1) < knotAtK (gbK b) b.nord)
    (hrange : ∀ v ∈ xs, knotAtK (gbK b) (b.nord - 1) ≤ v ∧ v ≤ knotAtK (gbK b) ((gbK b).size - b.nord))
    (q : K[X]) (hq : q.natDegree < b.nord) (hy : ∀ p, p < xs.length → ys.getD p 0 = q.eval (xs.getD p 0)) :
    ∀ p, p < xs.length → 0 < ws.getD p 0 →
      splineAtK (knotAtK (gbK out.obj)) (coeffAtK out.obj) out.obj.nord ((gbK out.obj).size - out.obj.nord) (xs.getD p 0)
        = q.eval (xs.getD p 0) :=
  fit_reproduces_poly kernelsLdltK b xs ys ws perm out h h0 hk hsize hnn hcs hne hsorted hyl hwl hw
    (hsolve_ldlt b xs ys ws hk hsize) hmono hfirst hrange q hq hy

/-- **fit_is_optimum_chol** (the kernels of the floating-point run, read over a field with `sqrt`): the model function `fit` run
with the banded Cholesky kernels `kernelsChol sqrt isFinite` (`sqrt p · sqrt p = p` for `p > 0`; any `isFinite`).  If the normal
matrix `AᵀWA` that `fit` assembles is positive definite (`hpd`) - equivalently: the Cholesky kernel factors it
(`chol_factor_iff_pos_def`), so that a status 0 does not come from the code's fallback loop - then a status-0 answer stores the
minimiser of `Σ_p invvar_p (y_p - spline(x_p))²`.  No hypothesis about the solver. -/
theorem fit_is_optimum_chol (sqrt : K → K) (hs : ∀ p, 0 < p → sqrt p * sqrt p = p) (isFinite : K → Bool)
    (b : BS K) (xs ys ws : List K) (perm : List ℕ) (out : FitOut K)
    (h : fitK (@kernelsChol _ (fieldScalar _) sqrt isFinite) b xs ys ws perm = .ok out) (h0 : out.status = 0)
    (hk : 1 ≤ b.nord) (hsize : 2 * b.nord ≤ (gbK b).size)
    (hnn : (goodIdx (b.mask.toList.drop b.nord)).length = (gbK b).size - b.nord)
    (hne : xs ≠ []) (hsorted : xs.Pairwise (· ≤ ·)) (hyl : ys.length = xs.length) (hwl : ws.length = xs.length)
    (hw : ∀ v ∈ ws, 0 ≤ v)
    (hpd : ∀ rows lower upper, (@BS.action _ (fieldScalar _) b xs) = .ok (some (rows, lower, upper)) →
      PosDef (bandFull (assembleK (fun p a => ((rows.map List.toArray).toArray[p]!)[a]!) (fun p => ys.toArray[p]!)
        (fun p => ws.toArray[p]!) lower upper xs.length b.nord ((gbK b).size - b.nord - b.nord + 1)).1 b.nord)
        ((gbK b).size - b.nord)) :
    ∃ sol : Array K, out.obj.coeff = @putGood _ (fieldScalar _) b.coeff (b.mask.toList.drop b.nord) sol ∧
      ∀ z : ℕ → K,
        ∑ p ∈ range xs.length, ws.getD p 0 * (ys.getD p 0 -
            splineAtK (knotAtK (gbK b)) (fun j => sol[j]!) b.nord ((gbK b).size - b.nord) (xs.getD p 0)) ^ 2
          ≤ ∑ p ∈ range xs.length, ws.getD p 0 * (ys.getD p 0 -
            splineAtK (knotAtK (gbK b)) z b.nord ((gbK b).size - b.nord) (xs.getD p 0)) ^ 2 := by
  apply fit_is_optimum _ b xs ys ws perm out h h0 hk hsize hnn hne hsorted hyl hwl hw
  intro rows lower upper mininf a hact hchol c hc
  obtain ⟨h1, h2, h3⟩ := normalSystem_shape rows ys ws lower upper xs.length b.nord ((gbK b).size - b.nord)
  have hV := cholV_ok sqrt hs
  have hget : ∀ r q, r < b.nord → q < (gbK b).size - b.nord →
      get2K ((normalSystemK rows ys ws lower upper xs.length b.nord ((gbK b).size - b.nord)).1.map
        (fun row => row.extract 0 ((gbK b).size - b.nord))) r q
      = (assembleK (fun p a => ((rows.map List.toArray).toArray[p]!)[a]!) (fun p => ys.toArray[p]!)
        (fun p => ws.toArray[p]!) lower upper xs.length b.nord ((gbK b).size - b.nord - b.nord + 1)).1 (q * b.nord + r) := by
    intro r q hr hq
    rw [get2_map_extract _ _ r q hq, normalSystem_get rows ys ws lower upper xs.length b.nord _ r q hr (by omega)]
  have hsome := (chol_factor_iff_pos_def sqrt hs b.nord ((gbK b).size - b.nord) hk _).2
    ((PosDef_congr _ _ _ (fun i j hi hj => by
      rw [bandFull_eq_bandSym]
      exact bandSym_congr _ _ b.nord ((gbK b).size - b.nord) hget i j hi hj)).2 (hpd rows lower upper hact))
  have key := choleskyBand_band_solves _ (cholVK sqrt) hV rfl rfl _ _ mininf b.nord ((gbK b).size - b.nord) hk h1 (h2 hk) h3
    hsome a hchol c hc
  rw [normalSystem_get_beta rows ys ws lower upper xs.length b.nord _ c (by omega)] at key
  rw [← key]
  apply Finset.sum_congr rfl
  intro c' hc'
  rw [Finset.mem_range] at hc'
  congr 1
  rw [bandFull_eq_bandSym]
  exact bandSym_congr _ _ b.nord ((gbK b).size - b.nord)
    (fun r q hr hq => (normalSystem_get rows ys ws lower upper xs.length b.nord _ r q hr (by omega)).symm) c c' hc hc'

/-- **fit_ldlt_status0_pivots** (status ⇒ pivots): `fit` with the `L D Lᵀ` kernels answers status 0 ONLY IF the kernel
factored the assembled system, i.e. every pivot of the banded elimination of the normal matrix was positive (a pivot `≤ 0`
can only lead to status -1 / -2) -/
theorem fit_ldlt_status0_pivots (b : BS K) (xs ys ws : List K) (perm : List ℕ) (out : FitOut K)
    (h : fitK kernelsLdltK b xs ys ws perm = .ok out) (h0 : out.status = 0)
    (hk : 1 ≤ b.nord) (hsize : 2 * b.nord ≤ (gbK b).size)
    (hnn : (goodIdx (b.mask.toList.drop b.nord)).length = (gbK b).size - b.nord) :
    ∃ rows lower upper, (@BS.action _ (fieldScalar _) b xs) = .ok (some (rows, lower, upper)) ∧
      ∀ c, c < (gbK b).size - b.nord →
        0 < pivotK ldltVK b.nord ((gbK b).size - b.nord)
          ((normalSystemK rows ys ws lower upper xs.length b.nord ((gbK b).size - b.nord)).1.map
            (fun row => row.extract 0 ((gbK b).size - b.nord))) c := by
  obtain ⟨rows, lower, upper, a, hact, hchol, _⟩ := @fit_status0 K (fieldScalar K) kernelsLdltK b xs ys ws perm out h h0
  rw [hnn] at hchol
  obtain ⟨h1, h2, _⟩ := normalSystem_shape rows ys ws lower upper xs.length b.nord ((gbK b).size - b.nord)
  obtain ⟨L, hL, _⟩ := choleskyBand_ldlt_factor _ _ b.nord ((gbK b).size - b.nord) hk (by omega) h1 (h2 hk) a hchol
  exact ⟨rows, lower, upper, hact, (bandFactor_isSome ldltVK _ _ _).1 ⟨L, hL⟩⟩

/-- **fit_ldlt_status0_pos_def**: `fit` with the `L D Lᵀ` kernels answers status 0 ONLY IF the normal matrix `AᵀWA` it
assembled (symmetric matrix of the band `alpha`) is positive definite - so the minimiser of `fit_is_optimum_ldlt` is the unique
one (`Lsq.lsq_unique`) -/
theorem fit_ldlt_status0_pos_def (b : BS K) (xs ys ws : List K) (perm : List ℕ) (out : FitOut K)
    (h : fitK kernelsLdltK b xs ys ws perm = .ok out) (h0 : out.status = 0)
    (hk : 1 ≤ b.nord) (hsize : 2 * b.nord ≤ (gbK b).size)
    (hnn : (goodIdx (b.mask.toList.drop b.nord)).length = (gbK b).size - b.nord) :
    ∃ rows lower upper, (@BS.action _ (fieldScalar _) b xs) = .ok (some (rows, lower, upper)) ∧
      PosDef (bandFull (assembleK (fun p a => ((rows.map List.toArray).toArray[p]!)[a]!) (fun p => ys.toArray[p]!)
        (fun p => ws.toArray[p]!) lower upper xs.length b.nord ((gbK b).size - b.nord - b.nord + 1)).1 b.nord)
        ((gbK b).size - b.nord) := by
  obtain ⟨rows, lower, upper, a, hact, hchol, _⟩ := @fit_status0 K (fieldScalar K) kernelsLdltK b xs ys ws perm out h h0
  rw [hnn] at hchol
  obtain ⟨h1, h2, _⟩ := normalSystem_shape rows ys ws lower upper xs.length b.nord ((gbK b).size - b.nord)
  obtain ⟨L, hL, _⟩ := choleskyBand_ldlt_factor _ _ b.nord ((gbK b).size - b.nord) hk (by omega) h1 (h2 hk) a hchol
  refine ⟨rows, lower, upper, hact, ?_⟩
  have hpd := bandFactor_pos_def ldltVK ldltV_ok b.nord ((gbK b).size - b.nord) hk _ L hL
  refine (PosDef_congr _ _ _ (fun i j hi hj => ?_)).1 hpd
  rw [bandFull_eq_bandSym]
  exact bandSym_congr _ _ b.nord ((gbK b).size - b.nord) (fun r q hr hq => by
    rw [get2_map_extract _ _ r q hq, normalSystem_get rows ys ws lower upper xs.length b.nord _ r q hr (by omega)]) i j hi hj

end kernels

/-! ## Extension 3: the two-dimensional fit (x2 given, npoly ≥ 1; Model/BSplineFit2.lean) -/

section twod
open PydlVerif.BSplineFit2 PydlVerif.BSplineFit2Lemmas PydlVerif.BandChol PydlVerif.BandCholLemmas

local notation "assemblePK" => @assembleP _ (fieldScalar _)
local notation "normalSystemPK" => @normalSystemP _ (fieldScalar _)
local notation "get2K" => @get2 _ (fieldScalar _)
local notation "kernelsLdltK" => @kernelsLdlt _ (fieldScalar _)

/-- **assembleP_one**: for `npoly = 1` the blocked assembly of the 2-D model is the assembly of the 1-D model -/
theorem assembleP_one (a1 : ℕ → ℕ → K) (y w : ℕ → K) (lower upper : Array ℤ) (nx bw nseg : ℕ) :
    assemblePK 1 a1 y w lower upper nx bw nseg = assembleK a1 y w lower upper nx bw nseg :=
  BSplineFit2Lemmas.assembleP_one a1 y w lower upper nx bw nseg

/-- **assembleP_is_normal** (the `npoly`-general `assemble_is_normal`): for EVERY `npoly`, bandwidth and size the blocked
`bi/bo` scatter of `fit` (`itop = k*npoly`; model `assembleP`) builds the lower band of `AᵀWA` and the vector `AᵀWy`, where
`A[p][c] = designP npoly a1 iv bw p c` has the `bw` values of row `p` of the action matrix in the columns
`iv p * npoly .. iv p * npoly + bw - 1`.  `Rows` as in `assemble_is_normal` (proved for sorted points: `rows_action`;
`action(x, x2=...)` returns the `lower/upper` of the 1-D `action`). -/
theorem assembleP_is_normal (np : ℕ) (a1 : ℕ → ℕ → K) (y w : ℕ → K) (lower upper : Array ℤ) (iv : ℕ → ℕ) (nx bw nseg : ℕ)
    (hrows : Rows lower upper iv nx nseg) :
    (∀ c r, r < bw → (assemblePK np a1 y w lower upper nx bw nseg).1 (c * bw + r) =
      ∑ p ∈ range nx, designP np a1 iv bw p c * (designP np a1 iv bw p (c + r) * w p)) ∧
    (∀ c, (assemblePK np a1 y w lower upper nx bw nseg).2 c = ∑ p ∈ range nx, y p * (designP np a1 iv bw p c * w p)) :=
  BSplineFit2Lemmas.assembleP_is_normal np a1 y w lower upper iv nx bw nseg hrows

/-- **tensor_design**: when the action matrix is the one `action(x, x2=...)` builds (`action[p][ii*npoly+jj] = bf1[p][ii] *
temppoly[p][jj]`, `tensorAct`), column `j*npoly + l` of the blocked design matrix is `B_j(x_p) · P_l(x2_p)`: the tensor design matrix -/
theorem tensor_design (np nord : ℕ) (bf P : ℕ → ℕ → K) (iv : ℕ → ℕ) (p j l : ℕ) (hl : l < np) :
    designP np (tensorAct np bf P) iv (nord * np) p (j * np + l) = design bf iv nord p j * P p l :=
  BSplineFit2Lemmas.tensor_design np nord bf P iv p j l hl

/-- **assembleP_is_normal_tensor**: the system `fit(..., x2=...)` assembles is the normal system of the tensor basis:
`beta[j*npoly+l] = Σ_p y_p B_j(x_p) P_l(x2_p) w_p` and, inside the band,
`alpha[c'-c][c] = Σ_p w_p (B_j P_l)(p) (B_j' P_l')(p)` for `c = j*npoly+l ≤ c' = j'*npoly+l'` -/
theorem assembleP_is_normal_tensor (np nord : ℕ) (bf P : ℕ → ℕ → K) (y w : ℕ → K) (lower upper : Array ℤ) (iv : ℕ → ℕ)
    (nx nseg : ℕ) (hrows : Rows lower upper iv nx nseg) :
    (∀ j l j' l', l < np → l' < np → j * np + l ≤ j' * np + l' → (j' * np + l') - (j * np + l) < nord * np →
      (assemblePK np (tensorAct np bf P) y w lower upper nx (nord * np) nseg).1
          ((j * np + l) * (nord * np) + ((j' * np + l') - (j * np + l)))
        = ∑ p ∈ range nx, (design bf iv nord p j * P p l) * ((design bf iv nord p j' * P p l') * w p)) ∧
    (∀ j l, l < np → (assemblePK np (tensorAct np bf P) y w lower upper nx (nord * np) nseg).2 (j * np + l)
        = ∑ p ∈ range nx, y p * ((design bf iv nord p j * P p l) * w p)) := by
  obtain ⟨h1, h2⟩ := assembleP_is_normal np (tensorAct np bf P) y w lower upper iv nx (nord * np) nseg hrows
  refine ⟨fun j l j' l' hl hl' hle hlt => ?_, fun j l hl => ?_⟩
  · rw [h1 _ _ hlt]
    apply Finset.sum_congr rfl
    intro p _
    rw [show j * np + l + (j' * np + l' - (j * np + l)) = j' * np + l' by omega, tensor_design np nord bf P iv p j l hl,
      tensor_design np nord bf P iv p j' l' hl']
  · rw [h2]
    apply Finset.sum_congr rfl
    intro p _
    rw [tensor_design np nord bf P iv p j l hl]

/-- optimality in matrix form for the blocked system (any action matrix `a1`): a vector that solves the banded system
`assembleP` built minimises `Σ_p w_p (y_p - Σ_c A[p][c] z_c)²`, `A = designP` -/
theorem fit2_optimum_design (np : ℕ) (a1 : ℕ → ℕ → K) (y w : ℕ → K) (lower upper : Array ℤ) (iv : ℕ → ℕ) (nx bw nseg n : ℕ)
    (hrows : Rows lower upper iv nx nseg) (hw : ∀ p, 0 ≤ w p) (sol : ℕ → K)
    (hsol : ∀ c, c < n → ∑ c' ∈ range n, bandFull (assemblePK np a1 y w lower upper nx bw nseg).1 bw c c' * sol c'
      = (assemblePK np a1 y w lower upper nx bw nseg).2 c) (z : Fin n → K) :
    Lsq.Q (fun (p : Fin nx) (c : Fin n) => designP np a1 iv bw p c) (fun p => w p) (fun p => y p) (fun c => sol c)
      ≤ Lsq.Q (fun (p : Fin nx) (c : Fin n) => designP np a1 iv bw p c) (fun p => w p) (fun p => y p) z := by
  obtain ⟨hα, hβ⟩ := assembleP_is_normal np a1 y w lower upper iv nx bw nseg hrows
  exact Lsq.lsq_optimum _ _ _ _ z (fun p => hw p)
    (normal_of_band (designP np a1 iv bw) w y nx n bw _ _ sol
      (fun p c c' h => design_band a1 (fun q => iv q * np) bw p c c' h) hα hβ hsol)

theorem Q_tensor_eq (np nord m nx : ℕ) (bf P : ℕ → ℕ → K) (iv : ℕ → ℕ) (y w z : ℕ → K) :
    Lsq.Q (fun (p : Fin nx) (c : Fin (m * np)) => designP np (tensorAct np bf P) iv (nord * np) p c) (fun p => w p) (fun p => y p)
      (fun c => z c)
      = ∑ p ∈ range nx, w p * (y p - ∑ j ∈ range m, ∑ l ∈ range np, z (j * np + l) * (design bf iv nord p j * P p l)) ^ 2 := by
  unfold Lsq.Q
  rw [← Finset.sum_range (fun p => w p * (y p - ∑ j : Fin (m * np), designP np (tensorAct np bf P) iv (nord * np) p j * z j) ^ 2)]
  apply Finset.sum_congr rfl
  intro p _
  have e : ∑ j : Fin (m * np), designP np (tensorAct np bf P) iv (nord * np) p j * z j
      = ∑ j ∈ range m, ∑ l ∈ range np, z (j * np + l) * (design bf iv nord p j * P p l) := by
    rw [← Finset.sum_range (fun j => designP np (tensorAct np bf P) iv (nord * np) p j * z j), sum_blocks]
    apply Finset.sum_congr rfl
    intro j _
    apply Finset.sum_congr rfl
    intro l hl
    rw [tensor_design np nord bf P iv p j l (Finset.mem_range.1 hl)]
    ring
  rw [e]

/-- **fit2_optimum_solves** (the `npoly`-general `fit_optimum_solves`): `bf` = the B-spline rows of the points, `P` = the
basis values in the second variable, `m` B-spline coefficients per polynomial term.  With weights `≥ 0`, a vector `sol`
that solves the banded system which `fit(..., x2=...)` assembles from the tensor action matrix minimises
`Σ_p invvar_p (y_p - Σ_j Σ_l c_{j,l} B_j(x_p) P_l(x2_p))²` over ALL coefficient vectors (`c_{j,l} = z (j*npoly + l)`,
the order in which `fit` stores and `value` reads the coefficients) -/
theorem fit2_optimum_solves (np nord m : ℕ) (bf P : ℕ → ℕ → K) (y w : ℕ → K) (lower upper : Array ℤ) (iv : ℕ → ℕ)
    (nx nseg : ℕ) (hrows : Rows lower upper iv nx nseg) (hw : ∀ p, 0 ≤ w p) (sol : ℕ → K)
    (hsol : ∀ c, c < m * np → ∑ c' ∈ range (m * np),
      bandFull (assemblePK np (tensorAct np bf P) y w lower upper nx (nord * np) nseg).1 (nord * np) c c' * sol c'
      = (assemblePK np (tensorAct np bf P) y w lower upper nx (nord * np) nseg).2 c) (z : ℕ → K) :
    ∑ p ∈ range nx, w p * (y p - ∑ j ∈ range m, ∑ l ∈ range np, sol (j * np + l) * (design bf iv nord p j * P p l)) ^ 2
      ≤ ∑ p ∈ range nx, w p * (y p - ∑ j ∈ range m, ∑ l ∈ range np, z (j * np + l) * (design bf iv nord p j * P p l)) ^ 2 := by
  have := fit2_optimum_design np (tensorAct np bf P) y w lower upper iv nx (nord * np) nseg (m * np) hrows hw sol hsol (fun c => z c)
  rw [Q_tensor_eq, Q_tensor_eq] at this
  exact this

/-- in terms of the evaluated spline (C08 `splineAt`, what `value` computes per polynomial term): the model value
`Σ_j Σ_l c_{j,l} B_j(x_p) P_l(x2_p)` is `Σ_l P_l(x2_p) · spline_{c_{·,l}}(x_p)` -/
theorem tensor_row_is_spline (t : ℕ → K) (k n np : ℕ) (hk : 1 ≤ k) (hkn : k ≤ n) (x : ℕ → K) (P : ℕ → ℕ → K) (p : ℕ) (z : ℕ → K) :
    ∑ j ∈ range n, ∑ l ∈ range np, z (j * np + l) * (design (basisRow t k n x) (segOf t k n x) k p j * P p l)
      = ∑ l ∈ range np, P p l * splineAtK t (fun j => z (j * np + l)) k n (x p) := by
  rw [Finset.sum_comm]
  apply Finset.sum_congr rfl
  intro l _
  rw [← design_row_is_spline t k n hk hkn x p (fun j => z (j * np + l)), Finset.mul_sum]
  apply Finset.sum_congr rfl
  intro j _
  ring

/-! ### the blocked system with the `L D Lᵀ` kernels: no solver hypothesis -/

theorem normalSystemP_shape (np : ℕ) (rows : List (List K)) (ys ws : List K) (lower upper : Array ℤ) (nx nord nn : ℕ) :
    (normalSystemPK np rows ys ws lower upper nx nord nn).1.size = np * nord ∧
    (0 < np * nord → ((normalSystemPK np rows ys ws lower upper nx nord nn).1[0]!).size = nn * np + np * nord) ∧
    (normalSystemPK np rows ys ws lower upper nx nord nn).2.size = nn * np + np * nord := by
  unfold normalSystemP
  refine ⟨by simp, fun h => ?_, by simp⟩
  simp only []
  rw [getElem!_mapRange _ (np * nord) 0 h]
  simp

theorem normalSystemP_get (np : ℕ) (rows : List (List K)) (ys ws : List K) (lower upper : Array ℤ) (nx nord nn r c : ℕ)
    (hr : r < np * nord) (hc : c < nn * np + np * nord) :
    get2K (normalSystemPK np rows ys ws lower upper nx nord nn).1 r c =
      (assemblePK np (fun p a => ((rows.map List.toArray).toArray[p]!)[a]!) (fun p => ys.toArray[p]!)
        (fun p => ws.toArray[p]!) lower upper nx (np * nord) (nn - nord + 1)).1 (c * (np * nord) + r) := by
  unfold normalSystemP get2
  simp only []
  rw [getElem!_mapRange _ (np * nord) r hr, getElem!_mapRange _ (nn * np + np * nord) c hc]

theorem normalSystemP_get_beta (np : ℕ) (rows : List (List K)) (ys ws : List K) (lower upper : Array ℤ) (nx nord nn c : ℕ)
    (hc : c < nn * np + np * nord) :
    (normalSystemPK np rows ys ws lower upper nx nord nn).2[c]! =
      (assemblePK np (fun p a => ((rows.map List.toArray).toArray[p]!)[a]!) (fun p => ys.toArray[p]!)
        (fun p => ws.toArray[p]!) lower upper nx (np * nord) (nn - nord + 1)).2 c := by
  unfold normalSystemP
  simp only []
  rw [getElem!_mapRange _ (nn * np + np * nord) c hc]

/-- **fit2_system_solved_ldlt**: whenever `cholesky_band` with the proved `L D Lᵀ` kernels answers a factor for the system
`fit(..., x2=...)` hands it (`normalSystemP`: `alpha` of shape `npoly*nord × (nn*npoly + npoly*nord)`, `beta`), the vector
`cholesky_solve` returns SOLVES the banded system `assembleP` built - for every `npoly`, with no solver hypothesis -/
theorem fit2_system_solved_ldlt (np : ℕ) (rows : List (List K)) (ys ws : List K) (lower upper : Array ℤ) (nx nord nn : ℕ)
    (hbw : 0 < np * nord) (hn : 0 < nn * np) (mininf : K) (a : Array (Array K))
    (hchol : choleskyBandK kernelsLdltK (normalSystemPK np rows ys ws lower upper nx nord nn).1 mininf = .ok (.factor a)) :
    ∀ c, c < nn * np → ∑ c' ∈ range (nn * np),
        bandFull (assemblePK np (fun p a => ((rows.map List.toArray).toArray[p]!)[a]!) (fun p => ys.toArray[p]!)
            (fun p => ws.toArray[p]!) lower upper nx (np * nord) (nn - nord + 1)).1 (np * nord) c c'
          * (choleskySolveK kernelsLdltK a (normalSystemPK np rows ys ws lower upper nx nord nn).2)[c']!
        = (assemblePK np (fun p a => ((rows.map List.toArray).toArray[p]!)[a]!) (fun p => ys.toArray[p]!)
            (fun p => ws.toArray[p]!) lower upper nx (np * nord) (nn - nord + 1)).2 c := by
  intro c hc
  obtain ⟨h1, h2, h3⟩ := normalSystemP_shape np rows ys ws lower upper nx nord nn
  have key := choleskyBand_ldlt_solves _ _ mininf (np * nord) (nn * np) hbw hn h1 (h2 hbw) h3 a hchol c hc
  rw [normalSystemP_get_beta np rows ys ws lower upper nx nord nn c (by omega)] at key
  rw [← key]
  apply Finset.sum_congr rfl
  intro c' hc'
  rw [Finset.mem_range] at hc'
  congr 1
  rw [bandFull_eq_bandSym]
  exact bandSym_congr _ _ (np * nord) (nn * np)
    (fun r q hr hq => (normalSystemP_get np rows ys ws lower upper nx nord nn r q hr (by omega)).symm) c c' hc hc'

/- FULL statement aimed at (the `npoly`-general `fit_is_optimum_ldlt`), NOT proved in this round:
     fit2 kernelsLdlt b xs x2s ys ws perm = .ok out → out.status = 0 → (order ≥ 1, npoly ≥ 1, ≥ 2·nord good breakpoints, the
     first nord unmasked, xs sorted, weights ≥ 0) →
     ∃ sol, out.obj.coeff2 = putGood2 b.coeff2 goodbk sol npoly ∧ ∀ z,
       Σ_p w_p (y_p - Σ_l P_l(x2norm x2_p)·splineAt gb (fun j => sol[j*npoly+l]) (x_p))² ≤ the same with z.
   Proved below: `fit2_solved_is_optimum_partial` - the kernel call of `fit2` on the system `fit2` materialises
   (`normalSystemP` of the rows `action` returned) yields a vector that minimises the objective of the blocked design matrix
   of THOSE rows.  Missing: (i) unfolding `fit2` to its status-0 branch and `putGood2`/`BS2.goodcoeff` read-back in the order
   `j*npoly+l`; (ii) that the rows `BS2.action` returns are `tensorAct` of the `bsplvn` rows and `polyBasis` (list-level
   `flatMap/zipWith` indexing), which turns `designP` into `B_j·P_l` by `tensor_design`; (iii) `Rows` from `rows_action`
   (the `lower/upper` are those of the 1-D `action`).  (ii)-(iii) are compared on every run (streams fit2d / fit2q). -/
/-- **fit2_solved_is_optimum_partial** -/
theorem fit2_solved_is_optimum_partial (np : ℕ) (rows : List (List K)) (ys ws : List K) (lower upper : Array ℤ) (iv : ℕ → ℕ)
    (nx nord nn : ℕ) (hbw : 0 < np * nord) (hn : 0 < nn * np) (hrows : Rows lower upper iv nx (nn - nord + 1))
    (hw : ∀ p : ℕ, 0 ≤ ws.toArray[p]!) (mininf : K) (a : Array (Array K))
    (hchol : choleskyBandK kernelsLdltK (normalSystemPK np rows ys ws lower upper nx nord nn).1 mininf = .ok (.factor a))
    (z : Fin (nn * np) → K) :
    Lsq.Q (fun (p : Fin nx) (c : Fin (nn * np)) =>
        designP np (fun p a => ((rows.map List.toArray).toArray[p]!)[a]!) iv (np * nord) p c)
        (fun p => ws.toArray[p]!) (fun p => ys.toArray[p]!)
        (fun c => (choleskySolveK kernelsLdltK a (normalSystemPK np rows ys ws lower upper nx nord nn).2)[(c : ℕ)]!)
      ≤ Lsq.Q (fun (p : Fin nx) (c : Fin (nn * np)) =>
        designP np (fun p a => ((rows.map List.toArray).toArray[p]!)[a]!) iv (np * nord) p c)
        (fun p => ws.toArray[p]!) (fun p => ys.toArray[p]!) z :=
  fit2_optimum_design np _ (fun p => ys.toArray[p]!) (fun p => ws.toArray[p]!) lower upper iv nx (np * nord) (nn - nord + 1) (nn * np)
    hrows hw (fun c => (choleskySolveK kernelsLdltK a (normalSystemPK np rows ys ws lower upper nx nord nn).2)[c]!)
    (fit2_system_solved_ldlt np rows ys ws lower upper nx nord nn hbw hn mininf a hchol) z

/-- `maskpoints` of the 2-D fit (`err // npoly`) obeys the same status table as in 1-D -/
theorem maskpointsP_status (mask : Array Bool) (nord np : ℕ) (err : List ℕ) :
    ((maskpointsP mask nord np err).1 = -2 ∧ (maskpointsP mask nord np err).2 = mask) ∨
    ((maskpointsP mask nord np err).1 = -1 ∧ (maskpointsP mask nord np err).2.size = mask.size ∧
      ∀ i : ℕ, (maskpointsP mask nord np err).2[i]! = true → mask[i]! = true) :=
  maskpoints_status mask nord (err.map (fun e => e / np))

end twod

/-! ## the hypotheses are satisfiable (non-vacuity) -/

/-- `Rows`: three sorted points, the first in segment 0, the others in segment 1 (slices 0..0 and 1..2) -/
example : Rows #[0, 1] #[0, 2] (fun p => if p = 0 then 0 else 1) 3 2 := by
  unfold Rows rowIn; decide

/-- `chol_contract` on the 2×2 system A = [[4,2],[2,5]] = L Lᵀ with L = [[2,0],[1,2]], b = (8, 9), x = (11/8, 5/4) -/
example : CholContract (fun i j => if i = j then (if i = 0 then (4:ℚ) else 5) else 2) (fun i => if i = 0 then 8 else 9) 2
    (fun i k => if i = 0 then (if k = 0 then 2 else 0) else (if k = 0 then 1 else 2)) (fun j => if j = 0 then 11/8 else 5/4) := by
  constructor
  · intro i j hi hj
    have : i = 0 ∨ i = 1 := by omega
    have : j = 0 ∨ j = 1 := by omega
    rcases ‹i = 0 ∨ i = 1› with rfl | rfl <;> rcases ‹j = 0 ∨ j = 1› with rfl | rfl <;>
      simp only [Finset.sum_range, Fin.sum_univ_two] <;> norm_num
  · intro i hi
    have : i = 0 ∨ i = 1 := by omega
    rcases this with rfl | rfl <;> simp only [Finset.sum_range, Fin.sum_univ_two] <;> norm_num

/-- the structural hypotheses of `fit_is_optimum` (`hk`, `hsize`, `hnn`) on the object of C08's example: order 2,
breakpoints 0,1,2,3, nothing masked (its `hsolve` is the LAPACK contract on the call, sampled by the harness through
`|A x - b|`; `CholContract.solves` derives it from the factor/solve contract) -/
example : 1 ≤ C08.bEx.nord ∧ 2 * C08.bEx.nord ≤ (@BS.gb ℚ (fieldScalar ℚ) C08.bEx).size ∧
    (goodIdx (C08.bEx.mask.toList.drop C08.bEx.nord)).length = (@BS.gb ℚ (fieldScalar ℚ) C08.bEx).size - C08.bEx.nord := by
  rw [C08.bEx_gb]
  refine ⟨by decide, by decide, by decide⟩

/-- the hypothesis of `ldlt_factor_spec` / `ldlt_solves` / `ldlt_contract_kernel` (`bandFactor ldltV … = some F`) on a concrete
system: `A = [[4,2],[2,5]]` in band storage (bandwidth 2: rows `[4,5]`, `[2,·]`), pivots `4` and `5 - (2/4)·4·(2/4) = 4` -/
def exF (r c : ℕ) : ℚ := if r = 0 then (if c = 0 then 4 else 5) else (if c = 0 then 2 else 0)
def exBand : Array (Array ℚ) := ((List.range 2).map fun r => ((List.range 2).map fun c => exF r c).toArray).toArray

section
open PydlVerif.BandChol PydlVerif.BandCholLemmas
local notation "get2K" => @get2 _ (fieldScalar _)
local notation "colEntryK" => @colEntry _ (fieldScalar _)
local notation "factorColsK" => @factorCols _ (fieldScalar _)
local notation "ldltVK" => @ldltV _ (fieldScalar _)

theorem exBand_get (r c : ℕ) (hr : r < 2) (hc : c < 2) : get2K exBand r c = exF r c := by
  unfold get2 exBand
  rw [getElem!_mapRange _ 2 r hr, getElem!_mapRange _ 2 c hc]

example : ∃ F, @bandFactor _ (fieldScalar _) ldltVK 2 2 exBand = some F := by
  rw [bandFactor_isSome]
  intro c hc
  have hc : c = 0 ∨ c = 1 := by omega
  have e00 : colEntryK ldltVK 2 (fun r c => get2K exBand r c) (factorColsK ldltVK 2 2 (fun r c => get2K exBand r c) 2) 0 0 = 4 := by
    rw [colEntry_eq, Finset.range_zero, Finset.sum_empty, sub_zero, exBand_get 0 0 (by omega) (by omega)]; rfl
  have e01 : colEntryK ldltVK 2 (fun r c => get2K exBand r c) (factorColsK ldltVK 2 2 (fun r c => get2K exBand r c) 2) 0 1 = 2 := by
    rw [colEntry_eq, Finset.range_zero, Finset.sum_empty, sub_zero, exBand_get 1 0 (by omega) (by omega)]; rfl
  rcases hc with rfl | rfl
  · unfold pivotK
    rw [e00]; norm_num
  · unfold pivotK
    rw [colEntry_eq, Finset.sum_range_one, if_pos (by omega), factorCols_entry _ 2 2 _ 0 0 (by omega) (by omega),
      factorCols_entry _ 2 2 _ 0 (1 - 0) (by omega) (by omega), if_pos rfl, if_neg (by omega), if_pos (by omega), e00, e01,
      exBand_get 0 1 (by omega) (by omega)]
    show (0:ℚ) < exF 0 1 - 2 / 4 * 4 * (2 / 4)
    unfold exF
    norm_num
end

/-- the hypothesis `hs` of `chol_contract_kernel` (a square root on an ordered field): `Real.sqrt` on ℝ -/
example : ∀ p : ℝ, 0 < p → Real.sqrt p * Real.sqrt p = p := fun _ hp => Real.mul_self_sqrt hp.le

/-- `poly_reproduction_all`: a polynomial of degree 2 < 3 = order -/
example : (Polynomial.X ^ 2 + Polynomial.C (3 : ℚ) : Polynomial ℚ).natDegree < 3 := by
  have : (Polynomial.X ^ 2 + Polynomial.C (3 : ℚ) : Polynomial ℚ).natDegree = 2 := by
    rw [Polynomial.natDegree_add_C, Polynomial.natDegree_X_pow]
  omega

/-- `maskpoints` on 12 good breakpoints, order 4, unsupported coefficient 3: breakpoints 5..7 are masked, status -1 -/
example : maskpoints (Array.replicate 12 true) 4 [3] =
    (-1, #[true, true, true, true, true, false, false, false, true, true, true, true]) := by decide

end PydlVerif.C09

/-
C09 property theorems: `bspline.fit` (pydl/pydlutils/bspline.py) is the weighted least-squares
optimum; failure is a status code.  Model: PydlVerif/Model/BSplineFit.lean (on Model/BSpline.lean),
interpreted at an arbitrary linearly ordered field `K` (`fieldScalar K`).  Helper lemmas:
Lemmas/BSplineFit.lean, Lemmas/Lsq.lean, Props/C08.lean (bsplvn, value).
Scope: x2 = None, npoly = 1 (the only case the model has).
-/
import PydlVerif.Lemmas.BSplineFit
import PydlVerif.Props.C08
import Mathlib.Algebra.BigOperators.Fin
namespace PydlVerif.C09
open PydlVerif PydlVerif.BSpline PydlVerif.BSplineFit PydlVerif.BSplineFitLemmas Finset

set_option linter.unusedSectionVars false
variable {K : Type} [Field K] [LinearOrder K] [IsStrictOrderedRing K] [FloorRing K]

local notation "assembleK" => @assemble _ (fieldScalar _)
local notation "bsplvnK" => @bsplvn1 _ (fieldScalar _)
local notation "intrvOfK" => @intrvOf _ (fieldScalar _)
local notation "dotK" => @dotFrom _ (fieldScalar _)
local notation "splineAtK" => @splineAt _ (fieldScalar _)

/-! ## the assembled system is the normal system -/

/-- **assemble_is_normal**: the `bi/bo` flat-index scatter of `fit` (model `assemble`, returning `alpha.T.flat`
and `beta`) builds the lower band of `AᵀWA` and the vector `AᵀWy`, where `A[p][c] = design a1 iv bw p c` is the
matrix that has the `bw` basis values of point `p` in columns `iv p .. iv p + bw - 1`:
`alpha[r][c] = Σ_p w_p A[p][c] A[p][c+r]`, `beta[c] = Σ_p w_p y_p A[p][c]`.
Hypothesis `Rows`: `lower/upper` delimit the points of each segment (C08's `RowsOf`, re-checked on the real
`action()` output on every run).  npoly = 1 only (x2 / npoly > 1 are outside the statement). -/
theorem assemble_is_normal (a1 : ℕ → ℕ → K) (y w : ℕ → K) (lower upper : Array ℤ) (iv : ℕ → ℕ) (nx bw nseg : ℕ)
    (hrows : Rows lower upper iv nx nseg) :
    (∀ c r, r < bw → (assembleK a1 y w lower upper nx bw nseg).1 (c * bw + r) =
      ∑ p ∈ range nx, design a1 iv bw p c * (design a1 iv bw p (c + r) * w p)) ∧
    (∀ c, (assembleK a1 y w lower upper nx bw nseg).2 c = ∑ p ∈ range nx, y p * (design a1 iv bw p c * w p)) :=
  BSplineFitLemmas.assemble_is_normal a1 y w lower upper iv nx bw nseg hrows

/-- entry `(c, c')` of the symmetric matrix whose lower band is stored in `alpha.T.flat` -/
def bandFull (alphaT : ℕ → K) (bw c c' : ℕ) : K :=
  if c ≤ c' then (if c' - c < bw then alphaT (c * bw + (c' - c)) else 0)
  else (if c - c' < bw then alphaT (c' * bw + (c - c')) else 0)

/-- **chol_contract** - a HYPOTHESIS about the LAPACK kernels behind `cholesky_band` / `cholesky_solve`
(never proved here; sampled numerically by the harness): the factor satisfies `L Lᵀ = A` and the solve
returns `x` with `(L Lᵀ) x = b`. -/
structure CholContract (A : ℕ → ℕ → K) (b : ℕ → K) (n : ℕ) (L : ℕ → ℕ → K) (x : ℕ → K) : Prop where
  factor : ∀ i j, i < n → j < n → ∑ k ∈ range n, L i k * L j k = A i j
  solve : ∀ i, i < n → ∑ j ∈ range n, (∑ k ∈ range n, L i k * L j k) * x j = b i

theorem CholContract.solves {A : ℕ → ℕ → K} {b : ℕ → K} {n : ℕ} {L : ℕ → ℕ → K} {x : ℕ → K}
    (h : CholContract A b n L x) : ∀ i, i < n → ∑ j ∈ range n, A i j * x j = b i := by
  intro i hi
  rw [← h.solve i hi]
  apply Finset.sum_congr rfl
  intro j hj
  rw [h.factor i j hi (Finset.mem_range.1 hj)]

theorem design_band (a1 : ℕ → ℕ → K) (iv : ℕ → ℕ) (bw p c c' : ℕ) (h : c + bw ≤ c') :
    design a1 iv bw p c * design a1 iv bw p c' = 0 := by
  unfold design
  by_cases h1 : iv p ≤ c ∧ c < iv p + bw
  · rw [if_pos h1, if_neg (by omega)]; ring
  · rw [if_neg h1]; ring

/-- a solution of the banded system that `fit` assembles satisfies the normal equations `AᵀW(y - A s) = 0` -/
theorem normal_of_band (D : ℕ → ℕ → K) (w y : ℕ → K) (m n bw : ℕ) (alphaT beta s : ℕ → K)
    (hband : ∀ p c c', c + bw ≤ c' → D p c * D p c' = 0)
    (hα : ∀ c r, r < bw → alphaT (c * bw + r) = ∑ p ∈ range m, D p c * (D p (c + r) * w p))
    (hβ : ∀ c, beta c = ∑ p ∈ range m, y p * (D p c * w p))
    (hsol : ∀ c, c < n → ∑ c' ∈ range n, bandFull alphaT bw c c' * s c' = beta c) :
    Lsq.Normal (fun (p : Fin m) (c : Fin n) => D p c) (fun p => w p) (fun p => y p) (fun c => s c) := by
  have hG : ∀ c c', bandFull alphaT bw c c' = ∑ p ∈ range m, w p * D p c * D p c' := by
    intro c c'
    unfold bandFull
    by_cases h1 : c ≤ c'
    · rw [if_pos h1]
      by_cases h2 : c' - c < bw
      · rw [if_pos h2, hα c (c' - c) h2, show c + (c' - c) = c' by omega]
        apply Finset.sum_congr rfl; intros; ring
      · rw [if_neg h2]; symm
        apply Finset.sum_eq_zero; intro p _
        rw [mul_assoc, hband p c c' (by omega)]; ring
    · rw [if_neg h1]
      by_cases h2 : c - c' < bw
      · rw [if_pos h2, hα c' (c - c') h2, show c' + (c - c') = c by omega]
        apply Finset.sum_congr rfl; intros; ring
      · rw [if_neg h2]; symm
        apply Finset.sum_eq_zero; intro p _
        rw [mul_assoc, mul_comm (D p c), hband p c' c (by omega)]; ring
  intro k
  have hk := hsol k k.2
  simp only []
  rw [← Finset.sum_range (fun p => w p * D p k * (y p - ∑ j : Fin n, D p j * s j))]
  have hin : ∀ p, ∑ j : Fin n, D p j * s j = ∑ j ∈ range n, D p j * s j := fun p =>
    (Finset.sum_range (fun j => D p j * s j)).symm
  simp_rw [hin]
  have e1 : ∀ p, w p * D p k * (y p - ∑ j ∈ range n, D p j * s j)
      = y p * (D p k * w p) - ∑ j ∈ range n, (w p * D p k * D p j) * s j := by
    intro p
    rw [mul_sub, Finset.mul_sum]
    congr 1
    · ring
    · apply Finset.sum_congr rfl; intros; ring
  simp_rw [e1]
  rw [Finset.sum_sub_distrib, ← hβ k, Finset.sum_comm, ← hk]
  rw [sub_eq_zero]
  apply Finset.sum_congr rfl
  intro j _
  rw [hG, Finset.sum_mul]

/-! ## optimality -/

/-- **fit_optimum** (matrix form): with non-negative weights, if the solver behind `cholesky_band` /
`cholesky_solve` meets `chol_contract` on the assembled system, the returned coefficients minimise
`Σ_p w_p (y_p - Σ_c A[p][c] z_c)²` over all coefficient vectors `z`. -/
theorem fit_optimum_design (a1 : ℕ → ℕ → K) (y w : ℕ → K) (lower upper : Array ℤ) (iv : ℕ → ℕ) (nx bw nseg n : ℕ)
    (hrows : Rows lower upper iv nx nseg) (hw : ∀ p, 0 ≤ w p) (L : ℕ → ℕ → K) (sol : ℕ → K)
    (hchol : CholContract (bandFull (assembleK a1 y w lower upper nx bw nseg).1 bw)
      (assembleK a1 y w lower upper nx bw nseg).2 n L sol) (z : Fin n → K) :
    Lsq.Q (fun (p : Fin nx) (c : Fin n) => design a1 iv bw p c) (fun p => w p) (fun p => y p) (fun c => sol c)
      ≤ Lsq.Q (fun (p : Fin nx) (c : Fin n) => design a1 iv bw p c) (fun p => w p) (fun p => y p) z := by
  obtain ⟨hα, hβ⟩ := assemble_is_normal a1 y w lower upper iv nx bw nseg hrows
  exact Lsq.lsq_optimum _ _ _ _ z (fun p => hw p)
    (normal_of_band (design a1 iv bw) w y nx n bw _ _ sol (fun p c c' h => design_band a1 iv bw p c c' h) hα hβ hchol.solves)


/-! ## the objective in terms of the evaluated spline (C08) -/

theorem design_dot (a1 : ℕ → ℕ → K) (iv : ℕ → ℕ) (bw n p : ℕ) (z : ℕ → K) (hn : iv p + bw ≤ n) :
    ∑ j ∈ range n, design a1 iv bw p j * z j = ∑ a ∈ range bw, a1 p a * z (iv p + a) := by
  have hsub : Finset.Ico (iv p) (iv p + bw) ⊆ range n := by
    intro j hj; rw [Finset.mem_Ico] at hj; rw [Finset.mem_range]; omega
  rw [← Finset.sum_subset hsub]
  · rw [Finset.sum_Ico_eq_sum_range, show iv p + bw - iv p = bw by omega]
    apply Finset.sum_congr rfl
    intro a ha
    rw [Finset.mem_range] at ha
    unfold design
    rw [if_pos (by omega), show iv p + a - iv p = a by omega]
  · intro j _ hj
    rw [Finset.mem_Ico] at hj
    unfold design
    rw [if_neg hj]; ring

theorem dot_eq_sum (c : ℕ → K) (row : List K) (off : ℕ) :
    dotK c row off = ∑ a ∈ range row.length, row.getD a 0 * c (off + a) := by
  induction row generalizing off with
  | nil => simp only [dotFrom, List.length_nil, Finset.range_zero, Finset.sum_empty]; exact C08.sc_zero
  | cons v vs ih =>
    simp only [dotFrom, C08.sc_add, C08.sc_mul, List.length_cons]
    rw [ih, Finset.sum_range_succ', List.getD_cons_zero, Nat.add_zero, add_comm]
    congr 1
    apply Finset.sum_congr rfl
    intro a _
    rw [List.getD_cons_succ, show off + 1 + a = off + (a + 1) by omega]

/-- the rows of the action matrix, as `fit` gets them from `action` (C08: `bsplvn` at the interval of each point) -/
noncomputable def basisRow (t : ℕ → K) (k n : ℕ) (x : ℕ → K) (p a : ℕ) : K :=
  (bsplvnK t k (x p) (intrvOfK t k n (x p))).getD a 0

/-- segment index of a point (`itop` of its interval) -/
noncomputable def segOf (t : ℕ → K) (k n : ℕ) (x : ℕ → K) (p : ℕ) : ℕ := intrvOfK t k n (x p) + 1 - k

/-- row `p` of the design matrix applied to a coefficient vector is the spline `value` returns at `x_p`
(C08 `value_spec_partial`: `splineAt`) -/
theorem design_row_is_spline (t : ℕ → K) (k n : ℕ) (hk : 1 ≤ k) (hkn : k ≤ n) (x : ℕ → K) (p : ℕ) (z : ℕ → K) :
    ∑ j ∈ range n, design (basisRow t k n x) (segOf t k n x) k p j * z j = splineAtK t z k n (x p) := by
  have hle := C08.intrvOf_le t k n (x p) hk hkn
  have hge : k - 1 ≤ intrvOfK t k n (x p) := C08.adv_ge t n (x p) (n - (k - 1)) (k - 1)
  rw [design_dot _ _ _ _ _ _ (by unfold segOf; omega)]
  unfold splineAt
  simp only []
  rw [dot_eq_sum, C08.bsplvn_length t k _ (x p) hk]
  rfl

theorem Q_design_eq (t : ℕ → K) (k n : ℕ) (hk : 1 ≤ k) (hkn : k ≤ n) (x y w : ℕ → K) (nx : ℕ) (z : ℕ → K) :
    Lsq.Q (fun (p : Fin nx) (c : Fin n) => design (basisRow t k n x) (segOf t k n x) k p c) (fun p => w p) (fun p => y p)
      (fun c => z c) = ∑ p ∈ range nx, w p * (y p - splineAtK t z k n (x p)) ^ 2 := by
  unfold Lsq.Q
  rw [← Finset.sum_range (fun p => w p * (y p - ∑ j : Fin n, design (basisRow t k n x) (segOf t k n x) k p j * z j) ^ 2)]
  apply Finset.sum_congr rfl
  intro p _
  rw [← Finset.sum_range (fun j => design (basisRow t k n x) (segOf t k n x) k p j * z j),
    design_row_is_spline t k n hk hkn x p z]

/-- **fit_optimum**: for non-negative `invvar`, status 0 (the banded system was factored and solved; `chol_contract`
on the assembled `alpha`, `beta`) means that the coefficients minimise `Σ_p invvar_p (y_p - spline(x_p))²`, where
`spline` is the function `value` evaluates (C08 `splineAt` = Cox-de Boor spline by `bsplvn_eq_coxDeBoorAt`), over ALL
coefficient vectors `z`.  `Rows`: as in `assemble_is_normal`. -/
theorem fit_optimum (t : ℕ → K) (k n : ℕ) (hk : 1 ≤ k) (hkn : k ≤ n) (x y w : ℕ → K) (nx nseg : ℕ)
    (lower upper : Array ℤ) (hrows : Rows lower upper (segOf t k n x) nx nseg) (hw : ∀ p, 0 ≤ w p)
    (L : ℕ → ℕ → K) (sol : ℕ → K)
    (hchol : CholContract (bandFull (assembleK (basisRow t k n x) y w lower upper nx k nseg).1 k)
      (assembleK (basisRow t k n x) y w lower upper nx k nseg).2 n L sol) (z : ℕ → K) :
    ∑ p ∈ range nx, w p * (y p - splineAtK t sol k n (x p)) ^ 2
      ≤ ∑ p ∈ range nx, w p * (y p - splineAtK t z k n (x p)) ^ 2 := by
  have := fit_optimum_design (basisRow t k n x) y w lower upper (segOf t k n x) nx k nseg n hrows hw L sol hchol (fun c => z c)
  rw [Q_design_eq t k n hk hkn x y w nx sol, Q_design_eq t k n hk hkn x y w nx z] at this
  exact this

/-- the normal equations of a status-0 fit (used by the corollaries below) -/
theorem fit_normal (t : ℕ → K) (k n : ℕ) (x y w : ℕ → K) (nx nseg : ℕ)
    (lower upper : Array ℤ) (hrows : Rows lower upper (segOf t k n x) nx nseg)
    (L : ℕ → ℕ → K) (sol : ℕ → K)
    (hchol : CholContract (bandFull (assembleK (basisRow t k n x) y w lower upper nx k nseg).1 k)
      (assembleK (basisRow t k n x) y w lower upper nx k nseg).2 n L sol) :
    Lsq.Normal (fun (p : Fin nx) (c : Fin n) => design (basisRow t k n x) (segOf t k n x) k p c) (fun p => w p) (fun p => y p)
      (fun c => sol c) := by
  obtain ⟨hα, hβ⟩ := assemble_is_normal (basisRow t k n x) y w lower upper (segOf t k n x) nx k nseg hrows
  exact normal_of_band _ w y nx n k _ _ sol (fun p c c' h => design_band _ _ k p c c' h) hα hβ hchol.solves

/-- **fit_zero_weight**: the system that `fit` assembles (`alpha`, `beta`) - hence everything computed from it -
does not change when `y` is altered at points of zero weight -/
theorem fit_zero_weight (a1 : ℕ → ℕ → K) (y y' w : ℕ → K) (lower upper : Array ℤ) (iv : ℕ → ℕ) (nx bw nseg : ℕ)
    (hrows : Rows lower upper iv nx nseg) (h : ∀ p, p < nx → w p ≠ 0 → y p = y' p) :
    (∀ c r, r < bw → (assembleK a1 y w lower upper nx bw nseg).1 (c * bw + r) = (assembleK a1 y' w lower upper nx bw nseg).1 (c * bw + r)) ∧
    (∀ c, (assembleK a1 y w lower upper nx bw nseg).2 c = (assembleK a1 y' w lower upper nx bw nseg).2 c) := by
  obtain ⟨hα, hβ⟩ := assemble_is_normal a1 y w lower upper iv nx bw nseg hrows
  obtain ⟨hα', hβ'⟩ := assemble_is_normal a1 y' w lower upper iv nx bw nseg hrows
  refine ⟨fun c r hr => by rw [hα c r hr, hα' c r hr], fun c => ?_⟩
  rw [hβ c, hβ' c]
  apply Finset.sum_congr rfl
  intro p hp
  by_cases hw : w p = 0
  · rw [hw]; ring
  · rw [h p (Finset.mem_range.1 hp) hw]

/-- **fit_linear**: the fit is linear in `y`: if `s`, `s'` are the status-0 coefficients for data `y`, `y'` then
`a s + b s'` satisfies the normal equations for `a y + b y'` (and is THE solution when the matrix is positive
definite, `Lsq.lsq_unique`) -/
theorem fit_linear (t : ℕ → K) (k n : ℕ) (x y y' w : ℕ → K) (nx nseg : ℕ)
    (lower upper : Array ℤ) (hrows : Rows lower upper (segOf t k n x) nx nseg)
    (L L' : ℕ → ℕ → K) (s s' : ℕ → K) (a b : K)
    (hchol : CholContract (bandFull (assembleK (basisRow t k n x) y w lower upper nx k nseg).1 k)
      (assembleK (basisRow t k n x) y w lower upper nx k nseg).2 n L s)
    (hchol' : CholContract (bandFull (assembleK (basisRow t k n x) y' w lower upper nx k nseg).1 k)
      (assembleK (basisRow t k n x) y' w lower upper nx k nseg).2 n L' s') :
    Lsq.Normal (fun (p : Fin nx) (c : Fin n) => design (basisRow t k n x) (segOf t k n x) k p c) (fun p => w p)
      (fun p => a * y p + b * y' p) (fun c => a * s c + b * s' c) :=
  Lsq.normal_linear _ _ _ _ _ _ a b (fit_normal t k n x y w nx nseg lower upper hrows L s hchol)
    (fit_normal t k n x y' w nx nseg lower upper hrows L' s' hchol')

/-- **fit_exact**: data taken from a spline of the same knots (`y_p = spline_{c0}(x_p)`) are reproduced at every
point of positive weight - without any uniqueness assumption -/
theorem fit_exact (t : ℕ → K) (k n : ℕ) (hk : 1 ≤ k) (hkn : k ≤ n) (x y w : ℕ → K) (nx nseg : ℕ)
    (lower upper : Array ℤ) (hrows : Rows lower upper (segOf t k n x) nx nseg) (hw : ∀ p, 0 ≤ w p)
    (L : ℕ → ℕ → K) (sol : ℕ → K)
    (hchol : CholContract (bandFull (assembleK (basisRow t k n x) y w lower upper nx k nseg).1 k)
      (assembleK (basisRow t k n x) y w lower upper nx k nseg).2 n L sol)
    (c0 : ℕ → K) (hy : ∀ p, p < nx → y p = splineAtK t c0 k n (x p)) :
    ∀ p, p < nx → 0 < w p → splineAtK t sol k n (x p) = y p := by
  have hopt := fit_optimum t k n hk hkn x y w nx nseg lower upper hrows hw L sol hchol c0
  have hzero : ∑ p ∈ range nx, w p * (y p - splineAtK t c0 k n (x p)) ^ 2 = 0 := by
    apply Finset.sum_eq_zero; intro p hp; rw [hy p (Finset.mem_range.1 hp)]; ring
  rw [hzero] at hopt
  have hnn : ∀ p ∈ range nx, 0 ≤ w p * (y p - splineAtK t sol k n (x p)) ^ 2 :=
    fun p _ => mul_nonneg (hw p) (sq_nonneg _)
  have hall := (Finset.sum_eq_zero_iff_of_nonneg hnn).1 (le_antisymm hopt (Finset.sum_nonneg hnn))
  intro p hp hpos
  have := hall p (Finset.mem_range.2 hp)
  rcases mul_eq_zero.1 this with h | h
  · exact absurd h (ne_of_gt hpos)
  · have := pow_eq_zero_iff (two_ne_zero) |>.1 h
    exact (sub_eq_zero.1 this).symm

/-- **poly_reproduction** (degree 0, from `bsplvn_sum_one`): constant data `y ≡ a` are reproduced at every point of
positive weight that lies in a non-empty knot interval (`Bracket`, which `intrv_bracket` gives for all points of the
breakpoint range).  Degrees `1 .. k-1` (Marsden's identity) are not proved; checked by correspondence/oracle. -/
theorem poly_reproduction (t : ℕ → K) (k n : ℕ) (hk : 1 ≤ k) (hkn : k ≤ n) (x y w : ℕ → K) (nx nseg : ℕ)
    (lower upper : Array ℤ) (hrows : Rows lower upper (segOf t k n x) nx nseg) (hw : ∀ p, 0 ≤ w p)
    (L : ℕ → ℕ → K) (sol : ℕ → K)
    (hchol : CholContract (bandFull (assembleK (basisRow t k n x) y w lower upper nx k nseg).1 k)
      (assembleK (basisRow t k n x) y w lower upper nx k nseg).2 n L sol)
    (a : K) (hy : ∀ p, p < nx → y p = a)
    (hbr : ∀ p, p < nx → C08.Bracket t k (intrvOfK t k n (x p)) (x p)) :
    ∀ p, p < nx → 0 < w p → splineAtK t sol k n (x p) = a := by
  have hconst : ∀ p, p < nx → splineAtK t (fun _ => a) k n (x p) = a := by
    intro p hp
    unfold splineAt
    simp only []
    rw [dot_eq_sum]
    have hs := C08.bsplvn_sum_one t k _ (x p) (hbr p hp)
    rw [← Finset.sum_mul]
    have : ∑ i ∈ range (bsplvnK t k (x p) (intrvOfK t k n (x p))).length,
        (bsplvnK t k (x p) (intrvOfK t k n (x p))).getD i 0 = (bsplvnK t k (x p) (intrvOfK t k n (x p))).sum := by
      generalize bsplvnK t k (x p) (intrvOfK t k n (x p)) = l
      induction l with
      | nil => simp
      | cons v vs ih =>
        rw [List.length_cons, Finset.sum_range_succ', List.sum_cons, List.getD_cons_zero, add_comm]
        congr 1
    rw [this, hs, one_mul]
  intro p hp hpos
  have := fit_exact t k n hk hkn x y w nx nseg lower upper hrows hw L sol hchol (fun _ => a)
    (fun q hq => by rw [hy q hq, hconst q hq]) p hp hpos
  rw [this, hy p hp]


/-! ## status table (any scalar type: the status logic does not depend on the arithmetic) -/
section status
variable {α : Type} [Scalar α]

/-- `insideIdx` (the good-breakpoint positions that `maskpoints` masks) never addresses the first `nord` or the last
`nord` good breakpoints -/
theorem insideIdx_range (nord n h : ℕ) (jj : ℤ) (hn : nord < n) :
    nord ≤ insideIdx nord n h jj ∧ insideIdx nord n h jj ≤ n - 1 := by
  unfold insideIdx
  simp only []
  split <;> split <;> omega

theorem foldl_clear_size (l : List ℕ) (m : Array Bool) :
    (l.foldl (fun m i => m.setIfInBounds i false) m).size = m.size := by
  induction l generalizing m with
  | nil => rfl
  | cons a l ih => simp only [List.foldl_cons]; rw [ih]; simp

theorem foldl_clear_le (l : List ℕ) (m : Array Bool) (i : ℕ) :
    (l.foldl (fun m i => m.setIfInBounds i false) m)[i]! = true → m[i]! = true := by
  induction l generalizing m with
  | nil => intro h; exact h
  | cons a l ih =>
    intro h
    simp only [List.foldl_cons] at h
    have := ih _ h
    by_cases hai : a = i
    · subst hai
      by_cases hs : a < m.size
      · simp [Array.setIfInBounds, hs] at this
      · simp [Array.setIfInBounds, hs] at this
    · by_cases hs : a < m.size
      · simpa [Array.setIfInBounds, hs, Array.getElem!_eq_getD, Array.getD, Array.getElem_set, hai] using this
      · simpa [Array.setIfInBounds, hs] using this

/-- **status_table (maskpoints)**: the answer is -1 or -2; with -2 the mask is unchanged; with -1 the mask has the same
length and only changes from True to False -/
theorem maskpoints_status (mask : Array Bool) (nord : ℕ) (err : List ℕ) :
    ((maskpoints mask nord err).1 = -2 ∧ (maskpoints mask nord err).2 = mask) ∨
    ((maskpoints mask nord err).1 = -1 ∧ (maskpoints mask nord err).2.size = mask.size ∧
      ∀ i : ℕ, (maskpoints mask nord err).2[i]! = true → mask[i]! = true) := by
  unfold maskpoints
  simp only []
  repeat' split
  all_goals first
    | exact Or.inl ⟨rfl, rfl⟩
    | skip
  right
  exact ⟨rfl, foldl_clear_size _ _, fun i => foldl_clear_le _ _ i⟩

/-- **status_table (nn < nord)**: fewer than `nord` good breakpoints beyond the first `nord` ⇒ status -2, `yfit = 0`,
object unchanged -/
theorem fit_too_few (Kn : Kernels α) (b : BS α) (xs ys ws : List α) (perm : List ℕ)
    (h : (goodIdx (b.mask.toList.drop b.nord)).length < b.nord) :
    fit Kn b xs ys ws perm = .ok { status := -2, yfit := List.replicate xs.length 0, obj := b } := by
  unfold fit
  simp only [h, if_true]
  rfl

/-- **status_table (cholesky_band screen)**: a diagonal entry `≤ mininf` or a non-finite entry anywhere ⇒ the list of
the columns with diagonal `≤ mininf` is returned (not a factor, no exception) -/
theorem choleskyBand_screen (Kn : Kernels α) (l : Array (Array α)) (mininf : α) (hbw : l.size ≠ 0)
    (hnn : ¬ (l[0]!).size < l.size)
    (hbad : (!((List.range ((l[0]!).size - l.size)).filter (fun c => decide (get2 l 0 c ≤ mininf))).isEmpty
      || !(l.all (fun row => row.all Kn.isFinite))) = true) :
    choleskyBand Kn l mininf =
      .ok (.bad ((List.range ((l[0]!).size - l.size)).filter (fun c => decide (get2 l 0 c ≤ mininf))) false) := by
  unfold choleskyBand
  simp only [hbw, hnn, if_false]
  rw [if_pos hbad]
  rfl

theorem fallbackLoop_mem (Kn : Kernels α) (kn : ℕ) (js : List ℕ) (lower : Array (Array α)) (j : ℕ)
    (h : fallbackLoop Kn kn js lower = .inl j) : j ∈ js := by
  induction js generalizing lower with
  | nil => simp [fallbackLoop] at h
  | cons a l ih =>
    unfold fallbackLoop at h
    split at h
    · injection h with h; rw [← h]; exact List.mem_cons_self
    · exact List.mem_cons_of_mem _ (ih _ h)

/-- **status_table (cholesky_band)**: `cholesky_band` never fails on a `bw × (n+bw)` matrix (`bw ≥ 1`): it returns a
factor, or the screened column list, or ONE column index `j < n` found by the fallback loop when the LAPACK kernel
reports `LinAlgError` -/
theorem choleskyBand_total (Kn : Kernels α) (l : Array (Array α)) (mininf : α) (hbw : l.size ≠ 0)
    (hnn : ¬ (l[0]!).size < l.size) :
    (∃ L, choleskyBand Kn l mininf = .ok (.factor L)) ∨
    (∃ idx, choleskyBand Kn l mininf = .ok (.bad idx false)) ∨
    (∃ j, j < (l[0]!).size - l.size ∧ choleskyBand Kn l mininf = .ok (.bad [j] true)) := by
  unfold choleskyBand
  simp only [hbw, hnn, if_false]
  split
  · exact Or.inr (Or.inl ⟨_, rfl⟩)
  · split
    · exact Or.inl ⟨_, rfl⟩
    · split
      · rename_i j hj
        exact Or.inr (Or.inr ⟨j, List.mem_range.1 (fallbackLoop_mem Kn _ _ _ j hj), rfl⟩)
      · exact Or.inl ⟨_, rfl⟩

/-- **status_table (fit)**: whenever `fit` returns (i.e. does not hit one of the model's error exits: `nord = 0`,
leading breakpoints masked, `value` on a degenerate object) the status is 0, -1 or -2; with -2 and -1 the coefficients
are the old ones, with 0 and -2 the breakpoint mask is the old one -/
theorem fit_status (Kn : Kernels α) (b : BS α) (xs ys ws : List α) (perm : List ℕ) (out : FitOut α)
    (h : fit Kn b xs ys ws perm = .ok out) :
    (out.status = 0 ∧ out.obj.mask = b.mask) ∨
    (out.status = -1 ∧ out.obj.coeff = b.coeff) ∨
    (out.status = -2 ∧ out.obj.coeff = b.coeff ∧ out.obj.mask = b.mask) := by
  unfold fit at h
  simp only [bind, Except.bind, pure, Except.pure] at h
  repeat' split at h
  all_goals cases h
  all_goals first
    | exact Or.inr (Or.inr ⟨rfl, rfl, rfl⟩)
    | exact Or.inl ⟨rfl, rfl⟩
    | skip
  rename_i idx _ _ _ _ _
  rcases maskpoints_status b.mask b.nord idx with ⟨h1, h2⟩ | ⟨h1, _⟩
  · exact Or.inr (Or.inr ⟨h1, rfl, h2⟩)
  · exact Or.inr (Or.inl ⟨h1, rfl⟩)

theorem maskpoints_ne_zero (mask : Array Bool) (nord : ℕ) (err : List ℕ) : (maskpoints mask nord err).1 ≠ 0 := by
  rcases maskpoints_status mask nord err with ⟨h1, _⟩ | ⟨h1, _⟩ <;> rw [h1] <;> decide

/-- **bridge**: when `fit` answers 0, `action` delivered the rows, `cholesky_band` factored the assembled system
(`normalSystem` = the materialised `assemble`) and the new coefficients are the solution `cholesky_solve` returns for it,
written to the positions of the good breakpoints - this is the solution vector the theorems `fit_optimum`,
`fit_exact`, ... speak about (through `chol_contract`) -/
theorem fit_status0 (Kn : Kernels α) (b : BS α) (xs ys ws : List α) (perm : List ℕ) (out : FitOut α)
    (h : fit Kn b xs ys ws perm = .ok out) (h0 : out.status = 0) :
    ∃ rows lower upper a, b.action xs = .ok (some (rows, lower, upper)) ∧
      choleskyBand Kn (normalSystem rows ys ws lower upper xs.length b.nord (goodIdx (b.mask.toList.drop b.nord)).length).1
        ((1.0e-10 : α) * sumL ws / (Scalar.ofNat (goodIdx (b.mask.toList.drop b.nord)).length : α)) = .ok (.factor a) ∧
      out.obj.coeff = putGood b.coeff (b.mask.toList.drop b.nord)
        (choleskySolve Kn a (normalSystem rows ys ws lower upper xs.length b.nord (goodIdx (b.mask.toList.drop b.nord)).length).2) := by
  unfold fit at h
  simp only [bind, Except.bind, pure, Except.pure] at h
  repeat' split at h
  all_goals cases h
  all_goals first
    | (exact absurd h0 (maskpoints_ne_zero _ _ _))
    | (simp at h0; done)
    | (exact ⟨_, _, _, _, by assumption, by assumption, rfl⟩)

end status

/-! ## the hypotheses are satisfiable (non-vacuity) -/

/-- `Rows`: three sorted points, the first in segment 0, the others in segment 1 (slices 0..0 and 1..2) -/
example : Rows #[0, 1] #[0, 2] (fun p => if p = 0 then 0 else 1) 3 2 := by
  unfold Rows rowIn; decide

/-- `chol_contract` on the 2×2 system A = [[4,2],[2,5]] = L Lᵀ with L = [[2,0],[1,2]], b = (8, 9), x = (11/8, 5/4) -/
example : CholContract (fun i j => if i = j then (if i = 0 then (4:ℚ) else 5) else 2) (fun i => if i = 0 then 8 else 9) 2
    (fun i k => if i = 0 then (if k = 0 then 2 else 0) else (if k = 0 then 1 else 2)) (fun j => if j = 0 then 11/8 else 5/4) := by
  constructor
  · intro i j hi hj
    have : i = 0 ∨ i = 1 := by omega
    have : j = 0 ∨ j = 1 := by omega
    rcases ‹i = 0 ∨ i = 1› with rfl | rfl <;> rcases ‹j = 0 ∨ j = 1› with rfl | rfl <;>
      simp only [Finset.sum_range, Fin.sum_univ_two] <;> norm_num
  · intro i hi
    have : i = 0 ∨ i = 1 := by omega
    rcases this with rfl | rfl <;> simp only [Finset.sum_range, Fin.sum_univ_two] <;> norm_num

/-- `maskpoints` on 12 good breakpoints, order 4, unsupported coefficient 3: breakpoints 5..7 are masked, status -1 -/
example : maskpoints (Array.replicate 12 true) 4 [3] =
    (-1, #[true, true, true, true, true, false, false, false, true, true, true, true]) := by decide

end PydlVerif.C09

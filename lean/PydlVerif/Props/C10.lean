/-
C10 property theorems: `iterfit` (pydl/pydlutils/bspline.py) is order-independent and its mask honours weights and
rejection limits.  Model: PydlVerif/Model/IterFit.lean (on the C08 / C09 / C17 models).  Helper lemmas first.
Scope: invvar given, x2 = None, no requiren/oldset, groupbadpix = False (the only case the model has).
-/
import PydlVerif.Model.IterFit
import PydlVerif.Model.IterFit2
import PydlVerif.Props.C09
import PydlVerif.Props.C17
import PydlVerif.Lemmas.IterFit
import Mathlib.Data.List.Sort
namespace PydlVerif.C10
open PydlVerif PydlVerif.BSpline PydlVerif.BSplineFit PydlVerif.IterFit

set_option linter.unusedSectionVars false

/-! ## the loop (any scalar type) -/
section loop
variable {α : Type} [Scalar α]

/-- **loop_is_documented_procedure (unfolding)**: one turn of the `while` loop: while `error != 0 or not qdone`, and
`iiter <= maxiter`, do the body (`iterBody_spec`) and go on; a fit status of -2 ends everything -/
theorem iterLoop_succ (K : Kernels α) (p : Params α) (xw yw iw : List α) (fuel : ℕ) (s : St α) :
    iterLoop K p xw yw iw (fuel + 1) s =
      if (s.error ≠ 0 ∨ s.qdone = false) ∧ s.iiter ≤ p.maxiter then
        (iterBody K p xw yw iw s >>= fun o => match o with
          | .failed b => pure (.failed b)
          | .done s' => iterLoop K p xw yw iw fuel s')
      else pure (.done s) := by
  rfl

theorem iterLoop_zero (K : Kernels α) (p : Params α) (xw yw iw : List α) (s : St α) :
    iterLoop K p xw yw iw 0 s = pure (.done s) := rfl

/-- **loop_is_documented_procedure (body)**: a pass that does not give up fits the spline to the points with the
weights `invvar * mask` (`fit` of C09 on the current object), counts the pass, and then
* status 0: calls `djs_reject(ywork, yfit, inmask = outmask = mask, invvar = invwork, lower, upper)` and takes its
  mask and `qdone`;
* status -1 (breakpoints dropped): keeps mask and `qdone` (the next pass refits on the reduced breakpoints) -/
theorem iterBody_spec (K : Kernels α) (p : Params α) (xw yw iw : List α) (s s' : St α)
    (h : iterBody K p xw yw iw s = .ok (.done s')) :
    ∃ out, fit K s.sset xw yw (maskedWeights iw s.maskwork) (List.range xw.length) = .ok out ∧
      s'.iiter = s.iiter + 1 ∧ s'.sset = out.obj ∧ s'.error = out.status ∧ s'.yfit = out.yfit ∧ out.status ≠ -2 ∧
      ((out.status = 0 ∧ Reject.djsReject K.sqrt (rejectOpts p) yw (some out.yfit) (some s.maskwork) (some s.maskwork) iw
          = .ok (s'.maskwork, s'.qdone)) ∨
       (out.status ≠ 0 ∧ s'.maskwork = s.maskwork ∧ s'.qdone = s.qdone)) := by
  unfold iterBody at h
  simp only [bind, Except.bind, pure, Except.pure] at h
  repeat' split at h
  all_goals first
    | (cases h; done)
    | skip
  all_goals cases h
  · exact ⟨_, by assumption, rfl, rfl, rfl, rfl, by assumption, Or.inl ⟨by assumption, by assumption⟩⟩
  · exact ⟨_, by assumption, rfl, rfl, rfl, rfl, by assumption, Or.inr ⟨by assumption, rfl, rfl⟩⟩

/-- **loop_is_documented_procedure (termination)**: started with `iiter = 0` and `maxiter + 1` turns of fuel, the loop
ends exactly when the last fit succeeded and the rejection left the mask unchanged (`error = 0`, `qdone`), or when
`maxiter + 1` passes were made -/
theorem iterLoop_stops (K : Kernels α) (p : Params α) (xw yw iw : List α) :
    ∀ (fuel : ℕ) (s s' : St α), s.iiter + fuel = p.maxiter + 1 → iterLoop K p xw yw iw fuel s = .ok (.done s') →
      ((s'.error = 0 ∧ s'.qdone = true) ∨ s'.iiter = p.maxiter + 1) := by
  intro fuel
  induction fuel with
  | zero =>
    intro s s' hf h
    rw [iterLoop_zero] at h
    cases h
    exact Or.inr (by omega)
  | succ f ih =>
    intro s s' hf h
    rw [iterLoop_succ] at h
    by_cases hc : (s.error ≠ 0 ∨ s.qdone = false) ∧ s.iiter ≤ p.maxiter
    · rw [if_pos hc] at h
      cases hb : iterBody K p xw yw iw s with
      | error e => rw [hb] at h; cases h
      | ok o =>
        rw [hb] at h
        cases o with
        | failed b => cases h
        | done s1 =>
          obtain ⟨_, _, hi, _⟩ := iterBody_spec K p xw yw iw s s1 hb
          exact ih s1 s' (by omega) h
    · rw [if_neg hc] at h
      cases h
      by_cases h1 : s.iiter ≤ p.maxiter
      · left
        have : ¬ (s.error ≠ 0 ∨ s.qdone = false) := fun h2 => hc ⟨h2, h1⟩
        rw [not_or, not_not, Bool.not_eq_false] at this
        exact this
      · exact Or.inr (by omega)

/-- the mask `djs_reject` returns when it is given `inmask`: True only where `inmask` is True -/
theorem rejectPix_le (sqrt : α → α) (o : Reject.Opts α) (px : List (Reject.Pix α)) (ho : o.hasIn = true) (i : ℕ)
    (h : (Reject.djsRejectPix sqrt o px).1[i]? = some true) : ∃ hi : i < px.length, px[i].inm = true := by
  have hi : i < px.length := by
    by_contra hc
    have hlen : (Reject.djsRejectPix sqrt o px).1.length ≤ px.length := by
      unfold Reject.djsRejectPix
      simp only [ho, if_true]
      split <;> simp [List.length_zipWith]
    rw [List.getElem?_eq_none (by omega)] at h
    cases h
  refine ⟨hi, ?_⟩
  unfold Reject.djsRejectPix at h
  simp only [ho, if_true] at h
  split at h
  · have := (C17.zipWith_and_true (fun p => p.prev) _ px i hi).1 h
    exact ((C17.zipWith_and_true (fun p => p.inm) _ px i hi).1 this.1).2
  · exact ((C17.zipWith_and_true (fun p => p.inm) _ px i hi).1 h).2

theorem djsReject_le (sqrt : α → α) (o : Reject.Opts α) (d mdl : List α) (prev inm : List Bool) (sv : List α)
    (m : List Bool) (q : Bool)
    (h : Reject.djsReject sqrt o d (some mdl) (some prev) (some inm) sv = .ok (m, q)) (i : ℕ)
    (hm : m[i]? = some true) : inm[i]? = some true := by
  unfold Reject.djsReject at h
  simp only [bind, Except.bind, pure, Except.pure, throw, throwThe, MonadExceptOf.throw] at h
  repeat' split at h
  all_goals first
    | (cases h; done)
    | skip
  rename_i _ _ hinl _
  injection h with h
  have h1 := congrArg Prod.fst h
  simp only [] at h1
  rw [← h1] at hm
  obtain ⟨hi, hinm⟩ := rejectPix_le sqrt _ _ rfl i hm
  simp only [List.length_map, List.length_range] at hi
  simp only [List.getElem_map, List.getElem_range] at hinm
  have hl : i < inm.length := by omega
  rw [List.getD_eq_getElem?_getD, List.getElem?_eq_getElem hl, Option.getD_some] at hinm
  rw [List.getElem?_eq_getElem hl, hinm]

theorem djsReject_length (sqrt : α → α) (o : Reject.Opts α) (d mdl : List α) (prev inm : List Bool) (sv : List α)
    (m : List Bool) (q : Bool)
    (h : Reject.djsReject sqrt o d (some mdl) (some prev) (some inm) sv = .ok (m, q)) : m.length = d.length := by
  unfold Reject.djsReject at h
  simp only [bind, Except.bind, pure, Except.pure, throw, throwThe, MonadExceptOf.throw] at h
  repeat' split at h
  all_goals first
    | (cases h; done)
    | skip
  injection h with h
  have h1 := congrArg Prod.fst h
  simp only [] at h1
  rw [← h1]
  unfold Reject.djsRejectPix
  simp only [Option.isSome_some, if_true]
  split <;> simp [List.length_zipWith, Reject.growMask_length]

/-- **masks are monotonically decreasing** (one pass): a point that is True after a pass was True before it; the
length of the mask does not change -/
theorem iterBody_mask_le (K : Kernels α) (p : Params α) (xw yw iw : List α) (s s' : St α)
    (h : iterBody K p xw yw iw s = .ok (.done s')) (hlen : s.maskwork.length = yw.length) :
    s'.maskwork.length = yw.length ∧ ∀ i : ℕ, s'.maskwork[i]? = some true → s.maskwork[i]? = some true := by
  obtain ⟨out, _, _, _, _, _, _, hcase⟩ := iterBody_spec K p xw yw iw s s' h
  rcases hcase with ⟨_, hr⟩ | ⟨_, hmk, _⟩
  · exact ⟨djsReject_length _ _ _ _ _ _ _ _ _ hr, fun i hm => djsReject_le _ _ _ _ _ _ _ _ _ hr i hm⟩
  · rw [hmk]; exact ⟨hlen, fun i hm => hm⟩

/-- **masks are monotonically decreasing** (whole loop) -/
theorem iterLoop_mask_le (K : Kernels α) (p : Params α) (xw yw iw : List α) :
    ∀ (fuel : ℕ) (s s' : St α), iterLoop K p xw yw iw fuel s = .ok (.done s') → s.maskwork.length = yw.length →
      s'.maskwork.length = yw.length ∧ ∀ i : ℕ, s'.maskwork[i]? = some true → s.maskwork[i]? = some true := by
  intro fuel
  induction fuel with
  | zero => intro s s' h hlen; rw [iterLoop_zero] at h; cases h; exact ⟨hlen, fun i hm => hm⟩
  | succ f ih =>
    intro s s' h hlen
    rw [iterLoop_succ] at h
    by_cases hc : (s.error ≠ 0 ∨ s.qdone = false) ∧ s.iiter ≤ p.maxiter
    · rw [if_pos hc] at h
      cases hb : iterBody K p xw yw iw s with
      | error e => rw [hb] at h; cases h
      | ok o =>
        rw [hb] at h
        cases o with
        | failed b => cases h
        | done s1 =>
          obtain ⟨hl1, h1⟩ := iterBody_mask_le K p xw yw iw s s1 hb hlen
          obtain ⟨hl2, h2⟩ := ih s1 s' h hl1
          exact ⟨hl2, fun i hm => h1 i (h2 i hm)⟩
    · rw [if_neg hc] at h; cases h; exact ⟨hlen, fun i hm => hm⟩

/-- the final working mask is below the initial one, `invvar > 0` -/
theorem iterCore_mask (K : Kernels α) (r32 : α → α) (p : Params α) (xw yw iw : List α) (sset : BS α) (m : List Bool)
    (hl : iw.length = yw.length) (h : iterCore K r32 p xw yw iw = .ok (sset, some m)) :
    m.length = yw.length ∧ ∀ j : ℕ, m[j]? = some true → (iw.map (fun v => decide (0 < v)))[j]? = some true := by
  unfold iterCore at h
  simp only [bind, Except.bind, pure, Except.pure] at h
  repeat' split at h
  all_goals first
    | (cases h; done)
    | skip
  rename_i s hloop
  cases h
  exact iterLoop_mask_le K p xw yw iw _ _ _ hloop (by simp [hl])

/-- **(d) the whole loop is equivariant** -/
theorem iterLoop_equiv (Kn : Kernels α) (p : Params α) (τ : List ℕ) (xw yw iw : List α)
    (hτ : τ.Perm (List.range xw.length)) (hy : yw.length = xw.length) (hi : iw.length = xw.length)
    (hfit : FitEquiv Kn τ xw yw) :
    ∀ (fuel : ℕ) (s : St α), s.maskwork.length = xw.length →
      iterLoop Kn p xw (reidx τ yw 0) (reidx τ iw 0) fuel (stMap τ s) = (iterLoop Kn p xw yw iw fuel s).map (outMap τ) := by
  intro fuel
  induction fuel with
  | zero => intro s _; rfl
  | succ f ih =>
    intro s hm
    rw [iterLoop_succ, iterLoop_succ]
    have e1 : (stMap τ s).error = s.error := rfl
    have e2 : (stMap τ s).qdone = s.qdone := rfl
    have e3 : (stMap τ s).iiter = s.iiter := rfl
    rw [e1, e2, e3]
    by_cases hc : (s.error ≠ 0 ∨ s.qdone = false) ∧ s.iiter ≤ p.maxiter
    · rw [if_pos hc, if_pos hc, iterBody_equiv Kn p τ xw yw iw s hτ hy hi hm hfit]
      cases hb : iterBody Kn p xw yw iw s with
      | error e => rfl
      | ok o =>
        cases o with
        | failed b => rfl
        | done s1 =>
          have hl := (iterBody_mask_le Kn p xw yw iw s s1 hb (by rw [hm, hy])).1
          have := ih s1 (by rw [hl, hy])
          simp only [bind, Except.bind, Except.map, outMap] at this ⊢
          exact this
    · rw [if_neg hc, if_neg hc]; rfl

/-- `iterCore` as a function of the initial mask `invvar > 0` -/
def iterCoreFrom (K : Kernels α) (r32 : α → α) (p : Params α) (xw yw iw : List α) (mask0 : List Bool) :
    R (BS α × Option (List Bool)) := do
  if !(mask0.any id) then valueError else
  let goodx := ((xw.zip mask0).filter (fun xm => xm.2)).map (fun xm => xm.1)
  let knots ← mkKnots r32 goodx p.nord p.opts
  let sset : BS α := { nord := p.nord, breakpoints := knots.toArray, mask := Array.replicate knots.length true,
                       coeff := Array.replicate (knots.length - p.nord) 0 }
  if countTrue mask0 < p.nord then pure (sset, none) else
  let s0 : St α := { sset := sset, maskwork := mask0, yfit := List.replicate xw.length 0, error := 0, qdone := false, iiter := 0 }
  match ← iterLoop K p xw yw iw (p.maxiter + 1) s0 with
  | .failed b => pure (b, none)
  | .done s => pure (s.sset, some s.maskwork)

theorem iterCore_eq_from (K : Kernels α) (r32 : α → α) (p : Params α) (xw yw iw : List α) :
    iterCore K r32 p xw yw iw = iterCoreFrom K r32 p xw yw iw (iw.map (fun v => decide (0 < v))) := rfl

/-- **(core) the sorted core of `iterfit` is equivariant** under a permutation `τ` of the sorted positions, given that
`fit` on `xw` does not see `τ` (`FitEquiv`, proved for sorted `xw` fixed by `τ` over an ordered field: `fitEquiv_sorted`)
and that the good abscissae are the same list (`goodx_eq`) -/
theorem iterCore_equiv (Kn : Kernels α) (r32 : α → α) (p : Params α) (τ : List ℕ) (xw yw iw : List α)
    (hτ : τ.Perm (List.range xw.length)) (hy : yw.length = xw.length) (hi : iw.length = xw.length)
    (hfit : FitEquiv Kn τ xw yw)
    (hgood : ∀ m : List Bool, m.length = xw.length →
      ((xw.zip (reidx τ m true)).filter (fun xm => xm.2)).map (fun xm => xm.1)
        = ((xw.zip m).filter (fun xm => xm.2)).map (fun xm => xm.1)) :
    iterCore Kn r32 p xw (reidx τ yw 0) (reidx τ iw 0) =
      (iterCore Kn r32 p xw yw iw).map (fun r => (r.1, r.2.map (fun mw => reidx τ mw true))) := by
  have hmem := perm_mem_lt τ _ hτ
  rw [iterCore_eq_from, iterCore_eq_from]
  rw [← reidx_map τ iw (fun v => decide (0 < v)) 0 true (by rw [hi]; exact hmem)]
  generalize hm0 : iw.map (fun v => decide (0 < v)) = m0
  have hml : m0.length = xw.length := by rw [← hm0, List.length_map, hi]
  have hmp : (reidx τ m0 true).Perm m0 := reidx_perm τ m0 true (by rw [hml]; exact hτ)
  unfold iterCoreFrom
  simp only [hmp.any_eq, hgood m0 hml, countTrue_perm _ _ hmp]
  by_cases hany : (!(m0.any id)) = true
  · rw [if_pos hany, if_pos hany]; rfl
  rw [if_neg hany, if_neg hany]
  cases mkKnots r32 (((xw.zip m0).filter (fun xm => xm.2)).map (fun xm => xm.1)) p.nord p.opts with
  | error e => rfl
  | ok knots =>
    simp only [bind, Except.bind, pure, Except.pure, Except.map]
    by_cases hc : countTrue m0 < p.nord
    · rw [if_pos hc, if_pos hc]; rfl
    rw [if_neg hc, if_neg hc]
    have := iterLoop_equiv Kn p τ xw yw iw hτ hy hi hfit (p.maxiter + 1)
      { sset := { nord := p.nord, breakpoints := knots.toArray, mask := Array.replicate knots.length true,
                  coeff := Array.replicate (knots.length - p.nord) 0 },
        maskwork := m0, yfit := List.replicate xw.length 0, error := 0, qdone := false, iiter := 0 } hml
    simp only [stMap] at this
    rw [this]
    cases iterLoop Kn p xw yw iw (p.maxiter + 1) _ with
    | error e => rfl
    | ok o =>
      cases o with
      | failed b => rfl
      | done s => rfl

/-- `yy[xsort] = v` for Boolean arrays (C08 `unsort`) -/
theorem unsort_bool (perm : List ℕ) (m : List Bool) (hperm : perm.Perm (List.range m.length)) (j : ℕ) (hj : j < perm.length) :
    (unsort perm m).length = m.length ∧ (unsort perm m)[perm[j]]? = m[j]? := by
  have hlen : perm.length = m.length := by rw [hperm.length_eq, List.length_range]
  have hnd : perm.Nodup := hperm.nodup_iff.2 List.nodup_range
  have hfst : (perm.zip m).map Prod.fst = perm := List.map_fst_zip (by omega)
  obtain ⟨h1, h2, _⟩ := C08.foldl_set_spec (perm.zip m) m (by rw [hfst]; exact hnd)
  refine ⟨h1, ?_⟩
  have hmem : (perm[j], m[j]'(by omega)) ∈ perm.zip m := by
    rw [List.mem_iff_getElem]
    exact ⟨j, by simp; omega, by simp⟩
  have hlt : perm[j] < m.length := List.mem_range.1 ((hperm.mem_iff (a := perm[j])).1 (List.getElem_mem hj))
  have := h2 _ hmem hlt
  simp only [unsort]
  rw [this, List.getElem?_eq_getElem (by omega)]

/-- **nonpositive_never_used**: unless `iterfit` gives up (fewer good points than `nord`, or a fit status -2: then it
returns the initial all-True mask), every point whose `invvar` is not positive is flagged False in the returned mask,
which is in the caller's order.  (That such a point has no influence on the fit: `masked_weight_zero` below and
C09 `fit_zero_weight`.) -/
theorem nonpositive_never_used (K : Kernels α) (r32 : α → α) (p : Params α) (xs ys ivs : List α) (perm : List ℕ)
    (sset : BS α) (om : List Bool) (hperm : perm.Perm (List.range xs.length))
    (h : iterfit K r32 p xs ys ivs perm = .ok (sset, om)) :
    om = List.replicate xs.length true ∨
    (om.length = xs.length ∧ ∀ i, i < xs.length → ¬ ((0 : α) < ivs.getD i 0) → om[i]? = some false) := by
  unfold iterfit at h
  simp only [bind, Except.bind, pure, Except.pure] at h
  repeat' split at h
  all_goals first
    | (cases h; done)
    | skip
  · cases h; exact Or.inl rfl
  · rename_i hn _ v hcore _ maskwork hv
    cases h
    right
    have hcore' : iterCore K r32 p (List.map (fun i => xs.getD i 0) perm) (List.map (fun i => ys.getD i 0) perm)
        (List.map (fun i => ivs.getD i 0) perm) = .ok (v.1, some maskwork) := by
      rw [hcore, ← hv]
    have hplen : perm.length = xs.length := by rw [hperm.length_eq, List.length_range]
    obtain ⟨hml, hmle⟩ := iterCore_mask K r32 p _ _ _ v.1 maskwork (by simp) hcore'
    simp only [List.length_map] at hml
    have hperm' : perm.Perm (List.range maskwork.length) := by rw [hml, hplen]; exact hperm
    refine ⟨by rw [(unsort_bool perm maskwork hperm' 0 (by omega)).1, hml, hplen], ?_⟩
    intro i hi hnp
    have hmem : i ∈ perm := (hperm.mem_iff).2 (List.mem_range.2 hi)
    obtain ⟨j, hj, hji⟩ := List.mem_iff_getElem.1 hmem
    have hu := (unsort_bool perm maskwork hperm' j hj).2
    rw [hji] at hu
    rw [hu]
    have hjm : j < maskwork.length := by omega
    rw [List.getElem?_eq_getElem hjm]
    cases hb : maskwork[j] with
    | false => rfl
    | true =>
      exfalso
      have := hmle j (by rw [List.getElem?_eq_getElem hjm, hb])
      simp only [List.getElem?_map, List.getElem?_eq_getElem hj, Option.map_some, hji] at this
      exact hnp (by simpa using this)

/-- **maxiter_zero**: with `maxiter = 0` the loop is ONE pass: one fit with the weights `invvar * (invvar > 0)` (so, by
C09 `fit_optimum`, the curve is the weighted least-squares optimum of all positively weighted points; a pass of
`djs_reject` still updates the returned mask, no refit follows) -/
theorem maxiter_zero (K : Kernels α) (p : Params α) (xw yw iw : List α) (s0 : St α) (hm : p.maxiter = 0)
    (h0 : s0.iiter = 0) (hq : s0.qdone = false) :
    iterLoop K p xw yw iw (p.maxiter + 1) s0 =
      (iterBody K p xw yw iw s0 >>= fun o => match o with
        | .failed b => pure (.failed b)
        | .done s' => pure (.done s')) := by
  rw [hm, iterLoop_succ, if_pos ⟨Or.inr hq, by omega⟩]
  rfl

/-- masks only decrease: a point that is False after some pass is False in the mask the loop ends with -/
theorem false_stays_false (K : Kernels α) (p : Params α) (xw yw iw : List α) (fuel : ℕ) (s sf : St α) (j : ℕ)
    (hloop : iterLoop K p xw yw iw fuel s = .ok (.done sf)) (hlen : s.maskwork.length = yw.length) (hj : j < yw.length)
    (hf : s.maskwork[j]? = some false) : sf.maskwork[j]? = some false := by
  obtain ⟨hl, hle⟩ := iterLoop_mask_le K p xw yw iw fuel s sf hloop hlen
  have hjf : j < sf.maskwork.length := by omega
  rw [List.getElem?_eq_getElem hjf]
  cases hb : sf.maskwork[j] with
  | false => rfl
  | true =>
    have := hle j (by rw [List.getElem?_eq_getElem hjf, hb])
    rw [hf] at this
    cases this

end loop
/-! ## weights and `qdone` over an ordered field -/
section field
variable {K : Type} [Field K] [LinearOrder K] [IsStrictOrderedRing K] [FloorRing K]

local notation "maskedWeightsK" => @maskedWeights _ (fieldScalar _)
local notation "djsRejectK" => @Reject.djsReject _ (fieldScalar _)

/-- the weights handed to `fit`: `invvar` where the mask is True, exactly 0 where it is False - so a masked point
(in particular one with `invvar ≤ 0`, by `nonpositive_never_used`/`iterLoop_mask_le`) has no influence on the assembled
system (C09 `fit_zero_weight`: not through `y`; every term of `assemble_is_normal` carries the factor `w_p`) -/
theorem masked_weight (iw : List K) (mask : List Bool) (j : ℕ) (hj : j < iw.length) (hm : j < mask.length) :
    (maskedWeightsK iw mask)[j]? = some (if mask[j] = true then iw[j] else 0) := by
  unfold maskedWeights
  rw [List.getElem?_zipWith, List.getElem?_eq_getElem hj, List.getElem?_eq_getElem hm]
  cases mask[j] with
  | false => simp only [C08.sc_mul]; rw [Reject.castB_false]; simp
  | true => simp only [C08.sc_mul]; rw [Reject.castB_true]; simp

/-- all weights of the first pass are non-negative (hypothesis `hw` of C09 `fit_optimum`) -/
theorem initial_weights_nonneg (iw : List K) (j : ℕ) (hj : j < iw.length) :
    ∃ v, (maskedWeightsK iw (iw.map (fun v => @decide (@LT.lt K (fieldScalar K).toLT 0 v) ((fieldScalar K).decLt 0 v))))[j]? = some v ∧ 0 ≤ v := by
  refine ⟨_, masked_weight iw _ j hj (by simpa using hj), ?_⟩
  simp only [List.getElem_map]
  split
  · rename_i h
    have : (0 : K) < iw[j] := by
      have := of_decide_eq_true h
      simpa [scalar_lit] using this
    exact this.le
  · exact le_refl _

theorem range_map_getD {β : Type} (l : List β) (d : β) : (List.range l.length).map (fun i => l.getD i d) = l := by
  apply List.ext_getElem (by simp)
  intro i h1 h2
  simp only [List.getElem_map, List.getElem_range]
  rw [List.getD_eq_getElem?_getD, List.getElem?_eq_getElem h2, Option.getD_some]

/-- **loop_is_documented_procedure (qdone)**: `qdone` is True exactly when the rejection left the mask unchanged
(C17 `qdone_iff_unchanged` through the wrapper) - with `iterLoop_stops`: the loop ends when nothing changes or `maxiter`
is reached -/
theorem qdone_unchanged (sqrt : K → K) (o : Reject.Opts K) (d mdl : List K) (prev inm : List Bool) (sv : List K)
    (m : List Bool) (q : Bool) (h : djsRejectK sqrt o d (some mdl) (some prev) (some inm) sv = .ok (m, q)) :
    q = true ↔ m = prev := by
  unfold Reject.djsReject at h
  simp only [bind, Except.bind, pure, Except.pure, throw, throwThe, MonadExceptOf.throw] at h
  repeat' split at h
  all_goals first
    | (cases h; done)
    | skip
  rename_i hp _ _ _
  injection h with h
  have h1 := congrArg Prod.fst h
  have h2 := congrArg Prod.snd h
  simp only [] at h1 h2
  rw [← h1, ← h2, C17.qdone_iff_unchanged]
  have hp' : prev.length = d.length := by omega
  have key : ∀ (f : ℕ → Reject.Pix K), (∀ i, (f i).prev = prev.getD i true) →
      List.map (fun x => x.prev) (List.map f (List.range d.length)) = prev := by
    intro f hf
    rw [List.map_map, ← hp']
    have : ((fun x : Reject.Pix K => x.prev) ∘ f) = fun i => prev.getD i true := by funext i; exact hf i
    rw [this]
    exact range_map_getD prev true
  rw [key _ (fun i => rfl)]

/-! ## order independence -/

theorem map_getD_perm {β : Type} (l : List β) (d : β) (perm : List ℕ) (hperm : perm.Perm (List.range l.length)) :
    (perm.map (fun i => l.getD i d)).Perm l := by
  have := hperm.map (fun i => l.getD i d)
  rw [range_map_getD] at this
  exact this

theorem getD_map_lt {β γ : Type} (l : List β) (f : β → γ) (d : β) (e : γ) (i : ℕ) (hi : i < l.length) :
    (l.map f).getD i e = f (l.getD i d) := by
  rw [List.getD_eq_getElem?_getD, List.getD_eq_getElem?_getD, List.getElem?_map, List.getElem?_eq_getElem hi]
  rfl

/-- the sorting permutation of the permuted input is the sorting permutation of the input, read through `σ`
(distinct abscissae: a strictly sorted list has only one arrangement) -/
theorem perm_key (xs : List K) (σ perm perm' : List ℕ) (hσ : σ.Perm (List.range xs.length))
    (hperm : perm.Perm (List.range xs.length)) (hperm' : perm'.Perm (List.range xs.length))
    (hs : (perm.map (fun i => xs.getD i 0)).Pairwise (· < ·))
    (hs' : (perm'.map (fun i => (σ.map (fun i => xs.getD i 0)).getD i 0)).Pairwise (· ≤ ·)) :
    perm = perm'.map (fun i => σ.getD i 0) := by
  have hσl : σ.length = xs.length := by rw [hσ.length_eq, List.length_range]
  have hpl : perm.length = xs.length := by rw [hperm.length_eq, List.length_range]
  have hpl' : perm'.length = xs.length := by rw [hperm'.length_eq, List.length_range]
  have hmem' : ∀ i ∈ perm', i < xs.length := fun i hi => List.mem_range.1 ((hperm'.mem_iff).1 hi)
  have hL' : perm'.map (fun i => (σ.map (fun i => xs.getD i 0)).getD i 0)
      = (perm'.map (fun i => σ.getD i 0)).map (fun i => xs.getD i 0) := by
    rw [List.map_map]
    apply List.map_congr_left
    intro i hi
    exact getD_map_lt σ _ 0 0 i (by rw [hσl]; exact hmem' i hi)
  rw [hL'] at hs'
  have hτ : (perm'.map (fun i => σ.getD i 0)).Perm (List.range xs.length) := by
    have := hperm'.map (fun i => σ.getD i 0)
    rw [← hσl, range_map_getD] at this
    rw [← hσl]; exact this.trans (by rw [hσl]; exact hσ)
  have h1 := map_getD_perm xs 0 perm hperm
  have h2 := map_getD_perm xs 0 _ hτ
  have hLL := List.Perm.eq_of_pairwise (le := (· ≤ ·)) (fun a b _ _ hab hba => le_antisymm hab hba)
    (hs.imp le_of_lt) hs' (h1.trans h2.symm)
  have hnd : xs.Nodup := (h1.nodup_iff).1 (hs.imp ne_of_lt)
  apply List.ext_getElem (by rw [List.length_map, hpl, hpl'])
  intro j hj1 hj2
  have hτj : (perm'.map (fun i => σ.getD i 0))[j] < xs.length :=
    List.mem_range.1 ((hτ.mem_iff).1 (List.getElem_mem hj2))
  have hpj : perm[j] < xs.length := List.mem_range.1 ((hperm.mem_iff).1 (List.getElem_mem hj1))
  have e1 : (perm.map (fun i => xs.getD i 0))[j]'(by rw [List.length_map]; exact hj1) = xs[perm[j]] := by
    rw [List.getElem_map, List.getD_eq_getElem?_getD, List.getElem?_eq_getElem hpj]; rfl
  have e2 : ((perm'.map (fun i => σ.getD i 0)).map (fun i => xs.getD i 0))[j]'(by rw [List.length_map]; exact hj2)
      = xs[(perm'.map (fun i => σ.getD i 0))[j]] := by
    rw [List.getElem_map, List.getD_eq_getElem?_getD, List.getElem?_eq_getElem hτj]; rfl
  have e3 : xs[perm[j]] = xs[(perm'.map (fun i => σ.getD i 0))[j]] := by
    rw [← e1, ← e2]; congr 1
  exact (List.Nodup.getElem_inj_iff hnd).1 e3

local notation "iterfitK" => @iterfit _ (fieldScalar _)
local notation "iterCoreK" => @iterCore _ (fieldScalar _)

/-- what `iterfit` returns from the result of the sorted core: the initial all-True mask, or `outmask[xsort] = maskwork` -/
def finish (n : ℕ) (perm : List ℕ) : BS K × Option (List Bool) → BS K × List Bool
  | (sset, none) => (sset, List.replicate n true)
  | (sset, some mw) => (sset, unsort perm mw)

theorem iterfit_eq (Kn : Kernels K) (r32 : K → K) (p : Params K) (xs ys ivs : List K) (perm : List ℕ) :
    iterfitK Kn r32 p xs ys ivs perm =
      if ys.length ≠ xs.length then valueError else
      if ivs.length ≠ xs.length then valueError else
      if xs.length ≤ 1 then .error "Unmodelled" else
      (iterCoreK Kn r32 p (perm.map (fun i => xs.getD i (@OfNat.ofNat K 0 (@Scalar.instOfNat K (fieldScalar K) 0))))
        (perm.map (fun i => ys.getD i (@OfNat.ofNat K 0 (@Scalar.instOfNat K (fieldScalar K) 0))))
        (perm.map (fun i => ivs.getD i (@OfNat.ofNat K 0 (@Scalar.instOfNat K (fieldScalar K) 0))))).map (finish xs.length perm) := by
  unfold iterfit
  simp only [bind, Except.bind, pure, Except.pure]
  split
  · rfl
  · split
    · rfl
    · split
      · rfl
      · cases iterCoreK Kn r32 p _ _ _ with
        | error e => rfl
        | ok v =>
          obtain ⟨sset, m⟩ := v
          cases m <;> rfl

/-- a work array of the permuted input equals the work array of the input -/
theorem work_eq (l : List K) (d0 Z : K) (σ perm perm' : List ℕ) (_hσl : σ.length = l.length)
    (hσm : ∀ i ∈ σ, i < l.length) (hpm : ∀ i ∈ perm', i < σ.length)
    (hkey : perm = perm'.map (fun i => σ.getD i 0)) :
    perm'.map (fun i => (σ.map (fun i => l.getD i d0)).getD i Z) = perm.map (fun i => l.getD i Z) := by
  rw [hkey, List.map_map]
  apply List.map_congr_left
  intro i hi
  have h1 := hpm i hi
  rw [getD_map_lt σ _ 0 Z i h1]
  simp only [Function.comp]
  have h2 : σ.getD i 0 < l.length := by
    apply hσm
    rw [List.getD_eq_getElem?_getD, List.getElem?_eq_getElem h1]
    exact List.getElem_mem h1
  simp only [List.getD_eq_getElem?_getD] at h2 ⊢
  rw [List.getElem?_eq_getElem h2]
  rfl


local notation "ZK" => (@OfNat.ofNat _ 0 (@Scalar.instOfNat _ (fieldScalar _) 0))

/-- **iterCore_perm_ties (core)**: on sorted work abscissae `xw`, re-indexing `(yw, iw)` by a permutation `τ` of the sorted
positions that fixes `xw` (i.e. that moves points only within groups of tied abscissae) leaves the spline object
unchanged and re-indexes the working mask by `τ` (errors included) -/
theorem iterCore_perm_ties (Kn : Kernels K) (r32 : K → K) (p : Params K) (τ : List ℕ) (xw yw iw : List K)
    (hτ : τ.Perm (List.range xw.length)) (hs : xw.Pairwise (· ≤ ·)) (hx : reidx τ xw ZK = xw)
    (hy : yw.length = xw.length) (hi : iw.length = xw.length) :
    iterCoreK Kn r32 p xw (reidx τ yw ZK) (reidx τ iw ZK) =
      (iterCoreK Kn r32 p xw yw iw).map (fun r => (r.1, r.2.map (fun mw => reidx τ mw true))) :=
  @iterCore_equiv K (fieldScalar K) Kn r32 p τ xw yw iw hτ hy hi (fitEquiv_sorted Kn τ xw yw hτ hs hx)
    (fun m hm => goodx_eq τ xw m hτ hs hx hm)

/-- position of `a` in `perm`, read back -/
theorem reidx_idxOf {β : Type} (perm : List ℕ) (l : List β) (d e : β) (a : ℕ) (ha : a ∈ perm) :
    (reidx perm l d).getD (perm.idxOf a) e = l.getD a d := by
  have h1 : perm.idxOf a < perm.length := List.idxOf_lt_length_of_mem ha
  rw [reidx_getD perm l d e _ h1, getD_lt perm 0 _ h1, List.getElem_idxOf]

theorem map_idxOf_self (perm : List ℕ) (hnd : perm.Nodup) : perm.map (fun a => perm.idxOf a) = List.range perm.length := by
  apply List.ext_getElem (by simp)
  intro i h1 h2
  simp only [List.getElem_map, List.getElem_range]
  exact hnd.idxOf_getElem i _

/-- **iterfit_perm**: for distinct abscissae (the sorted list is strictly increasing) and ANY sorting permutations
`perm`, `perm'` that `argsort` may return for the data and for the permuted data: permuting `(x, y, invvar)` by `σ` leaves the
spline object unchanged and permutes the returned mask identically, `outmask' = outmask ∘ σ` (errors included). -/
theorem iterfit_perm (Kn : Kernels K) (r32 : K → K) (p : Params K) (xs ys ivs : List K) (σ perm perm' : List ℕ)
    (hy : ys.length = xs.length) (hiv : ivs.length = xs.length)
    (hσ : σ.Perm (List.range xs.length)) (hperm : perm.Perm (List.range xs.length))
    (hperm' : perm'.Perm (List.range xs.length))
    (hs : (perm.map (fun i => xs.getD i 0)).Pairwise (· < ·))
    (hs' : (perm'.map (fun i => (σ.map (fun i => xs.getD i 0)).getD i 0)).Pairwise (· ≤ ·)) :
    iterfitK Kn r32 p (σ.map (fun i => xs.getD i 0)) (σ.map (fun i => ys.getD i 0)) (σ.map (fun i => ivs.getD i 0)) perm' =
      (iterfitK Kn r32 p xs ys ivs perm).map (fun r => (r.1, σ.map (fun i => r.2.getD i true))) := by
  have hkey := perm_key xs σ perm perm' hσ hperm hperm' hs hs'
  have hσl : σ.length = xs.length := by rw [hσ.length_eq, List.length_range]
  have hpl : perm.length = xs.length := by rw [hperm.length_eq, List.length_range]
  have hpl' : perm'.length = xs.length := by rw [hperm'.length_eq, List.length_range]
  have hσm : ∀ i ∈ σ, i < xs.length := fun i hi => List.mem_range.1 ((hσ.mem_iff).1 hi)
  have hpm : ∀ i ∈ perm', i < σ.length := fun i hi => by rw [hσl]; exact List.mem_range.1 ((hperm'.mem_iff).1 hi)
  rw [iterfit_eq, iterfit_eq]
  simp only [List.length_map, hσl, hy, hiv, ne_eq, not_true_eq_false, if_false]
  by_cases hn : xs.length ≤ 1
  · rw [if_pos hn, if_pos hn]; rfl
  rw [if_neg hn, if_neg hn]
  rw [work_eq xs 0 _ σ perm perm' hσl hσm hpm hkey,
    work_eq ys 0 _ σ perm perm' (by rw [hσl, hy]) (by rw [hy]; exact hσm) hpm hkey,
    work_eq ivs 0 _ σ perm perm' (by rw [hσl, hiv]) (by rw [hiv]; exact hσm) hpm hkey]
  cases hc : iterCoreK Kn r32 p _ _ _ with
  | error e => rfl
  | ok v =>
    obtain ⟨sset, m⟩ := v
    cases m with
    | none =>
      simp only [Except.map, finish]
      congr 2
      rw [← hσl]
      apply List.ext_getElem (by simp)
      intro i h1 h2
      simp only [List.getElem_replicate, List.getElem_map, List.getD_eq_getElem?_getD, List.getElem?_replicate]
      split <;> rfl
    | some mw =>
      simp only [Except.map, finish]
      congr 2
      obtain ⟨hml, _⟩ := @iterCore_mask K (fieldScalar K) Kn r32 p _ _ _ sset mw (by simp) hc
      simp only [List.length_map] at hml
      have hpermw : perm.Perm (List.range mw.length) := by rw [hml, hpl]; exact hperm
      have hpermw' : perm'.Perm (List.range mw.length) := by rw [hml, hpl]; exact hperm'
      apply List.ext_getElem?
      intro a
      by_cases ha : a < xs.length
      · have hmem : a ∈ perm' := (hperm'.mem_iff).2 (List.mem_range.2 ha)
        obtain ⟨j, hj, hja⟩ := List.mem_iff_getElem.1 hmem
        have h1 := (unsort_bool perm' mw hpermw' j hj).2
        rw [hja] at h1
        have hjp : j < perm.length := by omega
        have h2 := (unsort_bool perm mw hpermw j hjp).2
        have hσa : σ[a]'(by omega) = perm[j] := by
          have : perm[j] = (perm'.map (fun i => σ.getD i 0))[j]'(by rw [List.length_map]; exact hj) := by
            congr 1
          rw [this, List.getElem_map, hja, List.getD_eq_getElem?_getD, List.getElem?_eq_getElem (by omega)]
          rfl
        rw [h1, List.getElem?_map, List.getElem?_eq_getElem (by omega : a < σ.length), Option.map_some, hσa,
          List.getD_eq_getElem?_getD, h2]
        have hjm : j < mw.length := by omega
        rw [List.getElem?_eq_getElem hjm]; rfl
      · rw [List.getElem?_eq_none (by rw [(unsort_bool perm' mw hpermw' 0 (by omega)).1, hml, hpl]; omega),
          List.getElem?_eq_none (by rw [List.length_map, hσl]; omega)]

/-- **iterfit_perm_ties**: `iterfit_perm` WITHOUT the hypothesis of distinct abscissae.  For data with tied abscissae
and ANY sorting permutations `perm`, `perm'` that `argsort` may return for the data and for the permuted data (they may
order tied points differently): permuting `(x, y, invvar)` by `σ` leaves the spline object unchanged and permutes the
returned mask identically, `outmask' = outmask ∘ σ` (errors included).  Exact field arithmetic (the sums of `fit` are
order-independent); kernels arbitrary. -/
theorem iterfit_perm_ties (Kn : Kernels K) (r32 : K → K) (p : Params K) (xs ys ivs : List K) (σ perm perm' : List ℕ)
    (hy : ys.length = xs.length) (hiv : ivs.length = xs.length)
    (hσ : σ.Perm (List.range xs.length)) (hperm : perm.Perm (List.range xs.length))
    (hperm' : perm'.Perm (List.range xs.length))
    (hs : (perm.map (fun i => xs.getD i 0)).Pairwise (· ≤ ·))
    (hs' : (perm'.map (fun i => (σ.map (fun i => xs.getD i 0)).getD i 0)).Pairwise (· ≤ ·)) :
    iterfitK Kn r32 p (σ.map (fun i => xs.getD i 0)) (σ.map (fun i => ys.getD i 0)) (σ.map (fun i => ivs.getD i 0)) perm' =
      (iterfitK Kn r32 p xs ys ivs perm).map (fun r => (r.1, σ.map (fun i => r.2.getD i true))) := by
  have hσl : σ.length = xs.length := by rw [hσ.length_eq, List.length_range]
  have hpl : perm.length = xs.length := by rw [hperm.length_eq, List.length_range]
  have hpl' : perm'.length = xs.length := by rw [hperm'.length_eq, List.length_range]
  have hσm : ∀ i ∈ σ, i < xs.length := fun i hi => List.mem_range.1 ((hσ.mem_iff).1 hi)
  have hpm : ∀ i ∈ perm', i < σ.length := fun i hi => by rw [hσl]; exact List.mem_range.1 ((hperm'.mem_iff).1 hi)
  rw [iterfit_eq, iterfit_eq]
  simp only [List.length_map, hσl, hy, hiv, ne_eq, not_true_eq_false, if_false]
  by_cases hn : xs.length ≤ 1
  · rw [if_pos hn, if_pos hn]; rfl
  rw [if_neg hn, if_neg hn]
  -- ρ = the order in which the permuted run visits the ORIGINAL points
  obtain ⟨ρ, hρdef⟩ : ∃ ρ, ρ = perm'.map (fun i => σ.getD i 0) := ⟨_, rfl⟩
  have hρ : ρ.Perm (List.range xs.length) := by
    have := hperm'.map (fun i => σ.getD i 0)
    rw [← hσl, range_map_getD] at this
    rw [hρdef, ← hσl]; exact this.trans (by rw [hσl]; exact hσ)
  have hρl : ρ.length = xs.length := by rw [hρ.length_eq, List.length_range]
  rw [work_eq xs 0 _ σ ρ perm' hσl hσm hpm hρdef,
    work_eq ys 0 _ σ ρ perm' (by rw [hσl, hy]) (by rw [hy]; exact hσm) hpm hρdef,
    work_eq ivs 0 _ σ ρ perm' (by rw [hσl, hiv]) (by rw [hiv]; exact hσm) hpm hρdef]
  rw [work_eq xs 0 0 σ ρ perm' hσl hσm hpm hρdef] at hs'
  simp only [C08.sc_zero]
  -- τ = where the permuted run's j-th sorted point sits in the original run's sorted order
  have hnd : perm.Nodup := hperm.nodup_iff.2 List.nodup_range
  have hρmem : ∀ a ∈ ρ, a ∈ perm := fun a ha => (hperm.mem_iff).2 ((hρ.mem_iff).1 ha)
  obtain ⟨τ, hτdef⟩ : ∃ τ, τ = ρ.map (fun a => perm.idxOf a) := ⟨_, rfl⟩
  have hτ : τ.Perm (List.range xs.length) := by
    have := (hρ.trans hperm.symm).map (fun a => perm.idxOf a)
    rw [map_idxOf_self perm hnd, hpl] at this
    rw [hτdef]; exact this
  have hτl : τ.length = xs.length := by rw [hτ.length_eq, List.length_range]
  have hre : ∀ l : List K, ρ.map (fun i => l.getD i 0) = reidx τ (perm.map (fun i => l.getD i 0)) 0 := by
    intro l
    rw [hτdef]
    unfold reidx
    rw [List.map_map]
    apply List.map_congr_left
    intro a ha
    exact (reidx_idxOf perm l 0 0 a (hρmem a ha)).symm
  have hxw : ρ.map (fun i => xs.getD i 0) = perm.map (fun i => xs.getD i 0) :=
    List.Perm.eq_of_pairwise (le := (· ≤ ·)) (fun a b _ _ hab hba => le_antisymm hab hba) hs' hs
      ((map_getD_perm xs 0 ρ hρ).trans (map_getD_perm xs 0 perm hperm).symm)
  have hx : reidx τ (perm.map (fun i => xs.getD i 0)) 0 = perm.map (fun i => xs.getD i 0) := (hre xs).symm.trans hxw
  have hcore := iterCore_perm_ties Kn r32 p τ (perm.map (fun i => xs.getD i 0)) (perm.map (fun i => ys.getD i 0))
    (perm.map (fun i => ivs.getD i 0)) (by rw [List.length_map, hpl]; exact hτ) hs
    (by simp only [C08.sc_zero]; exact hx) (by simp) (by simp)
  simp only [C08.sc_zero] at hcore
  rw [hxw, hre ys, hre ivs, hcore]
  cases hc : iterCoreK Kn r32 p _ _ _ with
  | error e => rfl
  | ok v =>
    obtain ⟨sset, m⟩ := v
    cases m with
    | none =>
      simp only [Except.map, finish, Option.map_none]
      congr 2
      rw [← hσl]
      apply List.ext_getElem (by simp)
      intro i h1 h2
      simp only [List.getElem_replicate, List.getElem_map, List.getD_eq_getElem?_getD, List.getElem?_replicate]
      split <;> rfl
    | some mw =>
      simp only [Except.map, finish, Option.map_some]
      congr 2
      obtain ⟨hml, _⟩ := @iterCore_mask K (fieldScalar K) Kn r32 p _ _ _ sset mw (by simp) hc
      simp only [List.length_map] at hml
      have hpermw : perm.Perm (List.range mw.length) := by rw [hml, hpl]; exact hperm
      have hpermw' : perm'.Perm (List.range (reidx τ mw true).length) := by rw [reidx_length, hτl]; exact hperm'
      apply List.ext_getElem?
      intro a
      by_cases ha : a < xs.length
      · have hmem : a ∈ perm' := (hperm'.mem_iff).2 (List.mem_range.2 ha)
        obtain ⟨j, hj, hja⟩ := List.mem_iff_getElem.1 hmem
        have h1 := (unsort_bool perm' (reidx τ mw true) hpermw' j hj).2
        rw [hja] at h1
        have hjτ : j < τ.length := by omega
        have hjρ : j < ρ.length := by omega
        -- σ[a] = ρ[j] = perm[τ[j]]
        have hρj : ρ[j] = σ[a]'(by omega) := by
          subst hρdef
          rw [List.getElem_map, hja, getD_lt σ 0 a (by omega)]
        have hτj : τ[j] = perm.idxOf (σ[a]'(by omega)) := by
          subst hτdef
          rw [List.getElem_map, hρj]
        have hσmem : σ[a]'(by omega) ∈ perm := by rw [← hρj]; exact hρmem _ (List.getElem_mem _)
        have ht : perm.idxOf (σ[a]'(by omega)) < perm.length := List.idxOf_lt_length_of_mem hσmem
        have h2 := (unsort_bool perm mw hpermw _ ht).2
        rw [List.getElem_idxOf] at h2
        rw [h1, List.getElem?_map, List.getElem?_eq_getElem (by omega : a < σ.length), Option.map_some,
          List.getD_eq_getElem?_getD (l := unsort perm mw), h2,
          List.getElem?_eq_getElem (by rw [reidx_length]; exact hjτ), ← getD_lt (reidx τ mw true) true j (by rw [reidx_length]; exact hjτ),
          reidx_getD τ mw true true j hjτ, getD_lt τ 0 j hjτ, hτj, List.getD_eq_getElem?_getD]
      · rw [List.getElem?_eq_none (by rw [(unsort_bool perm' _ hpermw' 0 (by omega)).1, reidx_length, hτl]; omega),
          List.getElem?_eq_none (by rw [List.length_map, hσl]; omega)]

/-! ## rejection limits -/

local notation "iterBodyK" => @iterBody _ (fieldScalar _)
local notation "iterLoopK" => @iterLoop _ (fieldScalar _)

set_option linter.unusedTactic false in
/-- **clear_outlier_rejected** (one pass; C17 `reject_mask` through `iterBody_spec`): in a pass whose fit has status 0,
a point `j` that the mask still had (`maskwork[j] = True`) and whose scaled residual against the NEW curve,
`(y_j - yfit_j) * sqrt(invvar_j)`, is below `-lower` or above `upper` (limits `≥ 0`), is False in the new mask -/
theorem clear_outlier_rejected (Kn : Kernels K) (p : Params K) (xw yw iw : List K) (s s' : St K)
    (h : iterBodyK Kn p xw yw iw s = .ok (.done s')) (h0 : s'.error = 0)
    (hlo : ∀ lo, p.lower = some lo → 0 ≤ lo) (hup : ∀ up, p.upper = some up → 0 ≤ up)
    (j : ℕ) (hj : j < yw.length) (hm : s.maskwork[j]? = some true)
    (hout : (∃ lo, p.lower = some lo ∧ (yw.getD j 0 - s'.yfit.getD j 0) * Kn.sqrt (iw.getD j 0) < -lo) ∨
            (∃ up, p.upper = some up ∧ up < (yw.getD j 0 - s'.yfit.getD j 0) * Kn.sqrt (iw.getD j 0))) :
    s'.maskwork[j]? = some false := by
  obtain ⟨out, _, _, _, herr, hyf, _, hcase⟩ := @iterBody_spec K (fieldScalar K) Kn p xw yw iw s s' h
  rcases hcase with ⟨_, hr⟩ | ⟨hne, _, _⟩
  swap
  · exact absurd (herr.symm.trans h0) hne
  rw [← hyf] at hr
  unfold Reject.djsReject at hr
  simp only [bind, Except.bind, pure, Except.pure, throw, throwThe, MonadExceptOf.throw] at hr
  repeat' split at hr
  all_goals first
    | (cases hr; done)
    | skip
  injection hr with hr
  have h1 := congrArg Prod.fst hr
  simp only [] at h1
  simp only [C08.sc_zero] at h1
  obtain ⟨hlen, hiff⟩ := C17.reject_mask Kn.sqrt { rejectOpts p with hasIn := true }
    ((List.range yw.length).map fun i =>
      (⟨yw.getD i 0, s'.yfit.getD i 0, iw.getD i 0, s.maskwork.getD i true, s.maskwork.getD i true⟩ : Reject.Pix K))
    hlo hup (fun md hmd => by cases hmd) (fun _ _ hu => by cases hu)
  have h1' : (@Reject.djsRejectPix K (fieldScalar K) Kn.sqrt { rejectOpts p with hasIn := true }
    ((List.range yw.length).map fun i =>
      (⟨yw.getD i 0, s'.yfit.getD i 0, iw.getD i 0, s.maskwork.getD i true, s.maskwork.getD i true⟩ : Reject.Pix K))).1
      = s'.maskwork := h1
  rw [h1'] at hlen hiff
  have hjp : j < ((List.range yw.length).map fun i =>
      (⟨yw.getD i 0, s'.yfit.getD i 0, iw.getD i 0, s.maskwork.getD i true, s.maskwork.getD i true⟩ : Reject.Pix K)).length := by
    simpa using hj
  have hjm : j < s'.maskwork.length := by rw [hlen]; exact hjp
  rw [List.getElem?_eq_getElem hjm]
  cases hb : s'.maskwork[j] with
  | false => rfl
  | true =>
    exfalso
    obtain ⟨_, hnb⟩ := (hiff j hjp).1 (by rw [List.getElem?_eq_getElem hjm, hb])
    apply hnb
    refine ⟨j, hjp, Nat.le_add_right _ _, Nat.le_add_right _ _, ?_⟩
    simp only [List.getElem_map, List.getElem_range]
    have hinm : s.maskwork.getD j true = true := by rw [List.getD_eq_getElem?_getD, hm]; rfl
    refine ⟨⟨fun _ => hinm, fun hst => by cases hst⟩, ?_⟩
    rcases hout with ⟨lo, hl, hlt⟩ | ⟨up, hu, hgt⟩
    · exact Or.inl ⟨lo, hl, hlt⟩
    · exact Or.inr (Or.inl ⟨up, hu, hgt⟩)

/-- **clear_outlier_rejected (whole loop)**: a point that is beyond a limit in SOME status-0 pass whose mask still had it
is False in the mask the loop ends with (masks only decrease: `iterLoop_mask_le`) -/
theorem clear_outlier_rejected_final (Kn : Kernels K) (p : Params K) (xw yw iw : List K) (s s' sf : St K) (fuel : ℕ)
    (h : iterBodyK Kn p xw yw iw s = .ok (.done s')) (h0 : s'.error = 0)
    (hlo : ∀ lo, p.lower = some lo → 0 ≤ lo) (hup : ∀ up, p.upper = some up → 0 ≤ up)
    (hlen : s.maskwork.length = yw.length)
    (j : ℕ) (hj : j < yw.length) (hm : s.maskwork[j]? = some true)
    (hout : (∃ lo, p.lower = some lo ∧ (yw.getD j 0 - s'.yfit.getD j 0) * Kn.sqrt (iw.getD j 0) < -lo) ∨
            (∃ up, p.upper = some up ∧ up < (yw.getD j 0 - s'.yfit.getD j 0) * Kn.sqrt (iw.getD j 0)))
    (hloop : iterLoopK Kn p xw yw iw fuel s' = .ok (.done sf)) :
    sf.maskwork[j]? = some false :=
  @false_stays_false K (fieldScalar K) Kn p xw yw iw fuel s' sf j hloop
    (@iterBody_mask_le K (fieldScalar K) Kn p xw yw iw s s' h hlen).1 hj
    (clear_outlier_rejected Kn p xw yw iw s s' h h0 hlo hup j hj hm hout)

end field

/-! ## the hypotheses are satisfiable (non-vacuity) -/

/-- `iterfit_perm`: x = (1, 3, 2) with argsort (0, 2, 1); permuted by σ = (2, 0, 1) to (2, 1, 3) with argsort (1, 0, 2) -/
example : ([2, 0, 1] : List ℕ).Perm (List.range 3) ∧ ([0, 2, 1] : List ℕ).Perm (List.range 3) ∧
    ([1, 0, 2] : List ℕ).Perm (List.range 3) ∧
    (([0, 2, 1] : List ℕ).map (fun i => ([1, 3, 2] : List ℚ).getD i 0)).Pairwise (· < ·) ∧
    (([1, 0, 2] : List ℕ).map (fun i => (([2, 0, 1] : List ℕ).map (fun i => ([1, 3, 2] : List ℚ).getD i 0)).getD i 0)).Pairwise (· ≤ ·) := by
  refine ⟨by decide, by decide, by decide, by decide, by decide⟩

/-- `iterfit_perm_ties`: x = (1, 2, 1) (a tie) with sorting permutation (2, 0, 1); permuted by σ = (2, 0, 1) to (1, 1, 2) with
sorting permutation (1, 0, 2), which visits the two tied points in the other order (last conjunct: `perm` is NOT
`perm'` read through `σ`; the sorted list is not strictly increasing, so `iterfit_perm` does not apply) -/
example : ([2, 0, 1] : List ℕ).Perm (List.range 3) ∧ ([2, 0, 1] : List ℕ).Perm (List.range 3) ∧
    ([1, 0, 2] : List ℕ).Perm (List.range 3) ∧
    (([2, 0, 1] : List ℕ).map (fun i => ([1, 2, 1] : List ℚ).getD i 0)).Pairwise (· ≤ ·) ∧
    (([1, 0, 2] : List ℕ).map (fun i => (([2, 0, 1] : List ℕ).map (fun i => ([1, 2, 1] : List ℚ).getD i 0)).getD i 0)).Pairwise (· ≤ ·) ∧
    ¬ (([2, 0, 1] : List ℕ).map (fun i => ([1, 2, 1] : List ℚ).getD i 0)).Pairwise (· < ·) ∧
    ([2, 0, 1] : List ℕ) ≠ ([1, 0, 2] : List ℕ).map (fun i => ([2, 0, 1] : List ℕ).getD i 0) := by
  refine ⟨by decide, by decide, by decide, by decide, by decide, by decide, by decide⟩

/-! ## the full `iterfit` (second extension round): requiren, oldset, groupbadpix, the branch "at most one good point left" -/
section full
variable {α : Type} [Scalar α]

/-- how the full model calls `djs_reject`: with `maxrej=None` the group keywords are not read - it IS C17's `djsReject` -/
theorem rejectCall_eq (sqrt : α → α) (p : Params α) (gbp : Bool) (yw yfit : List α) (mask : List Bool) (iw : List α) :
    rejectCall sqrt p gbp yw yfit mask iw =
      Reject.djsReject sqrt (rejectOpts p) yw (some yfit) (some mask) (some mask) iw := rfl

theorem iterBodyFull_gbp (K : Kernels α) (p : Params α) (rq : Option ℕ) (gbp : Bool) (xw yw iw : List α) (s : St α) :
    iterBodyFull K p rq gbp xw yw iw s = iterBodyFull K p rq false xw yw iw s := rfl

theorem iterLoopFull_gbp (K : Kernels α) (p : Params α) (rq : Option ℕ) (gbp : Bool) (xw yw iw : List α) :
    ∀ (fuel : ℕ) (s : St α) (cz : Bool),
      iterLoopFull K p rq gbp xw yw iw fuel s cz = iterLoopFull K p rq false xw yw iw fuel s cz := by
  intro fuel
  induction fuel with
  | zero => intro s cz; rfl
  | succ f ih =>
    intro s cz
    unfold iterLoopFull
    rw [iterBodyFull_gbp]
    simp only [ih]

/-- **groupbadpix_irrelevant**: the result of the full `iterfit` does not depend on `groupbadpix` (1-D data; `maxrej` cannot be
passed: C17's maxrej block is never entered) -/
theorem groupbadpix_irrelevant (K : Kernels α) (r32 : α → α) (p : Params α) (o : FullOpts α) (b : Bool) (xs ys ivs : List α)
    (perm : List ℕ) :
    iterfitFull K r32 p { o with groupbadpix := b } xs ys ivs perm = iterfitFull K r32 p o xs ys ivs perm := by
  unfold iterfitFull iterCoreFull
  simp only [iterLoopFull_gbp K p o.requiren b, iterLoopFull_gbp K p o.requiren o.groupbadpix]

/-- what one pass of the full loop does to the mask: nothing, or one `djs_reject(inmask = outmask = mask)` -/
theorem iterBodyFull_spec (K : Kernels α) (p : Params α) (rq : Option ℕ) (gbp : Bool) (xw yw iw : List α) (s s' : St α) (z : Bool)
    (h : iterBodyFull K p rq gbp xw yw iw s = .ok (.done s', z)) :
    s'.maskwork = s.maskwork ∨
    ∃ yf, Reject.djsReject K.sqrt (rejectOpts p) yw (some yf) (some s.maskwork) (some s.maskwork) iw = .ok (s'.maskwork, s'.qdone) := by
  unfold iterBodyFull at h
  simp only [bind, Except.bind, pure, Except.pure, rejectCall_eq] at h
  repeat' split at h
  all_goals first
    | (cases h; done)
    | skip
  all_goals cases h
  all_goals first
    | exact Or.inl rfl
    | exact Or.inr ⟨_, by assumption⟩

/-- **masks only shrink** (one pass of the full loop: requiren and the degenerate branch included) -/
theorem iterBodyFull_mask_le (K : Kernels α) (p : Params α) (rq : Option ℕ) (gbp : Bool) (xw yw iw : List α) (s s' : St α) (z : Bool)
    (h : iterBodyFull K p rq gbp xw yw iw s = .ok (.done s', z)) (hlen : s.maskwork.length = yw.length) :
    s'.maskwork.length = yw.length ∧ ∀ i : ℕ, s'.maskwork[i]? = some true → s.maskwork[i]? = some true := by
  rcases iterBodyFull_spec K p rq gbp xw yw iw s s' z h with hmk | ⟨yf, hr⟩
  · rw [hmk]; exact ⟨hlen, fun i hm => hm⟩
  · exact ⟨djsReject_length _ _ _ _ _ _ _ _ _ hr, fun i hm => djsReject_le _ _ _ _ _ _ _ _ _ hr i hm⟩

/-- **masks only shrink** (the whole full loop) -/
theorem iterLoopFull_mask_le (K : Kernels α) (p : Params α) (rq : Option ℕ) (gbp : Bool) (xw yw iw : List α) :
    ∀ (fuel : ℕ) (s s' : St α) (cz z : Bool), iterLoopFull K p rq gbp xw yw iw fuel s cz = .ok (.done s', z) →
      s.maskwork.length = yw.length →
      s'.maskwork.length = yw.length ∧ ∀ i : ℕ, s'.maskwork[i]? = some true → s.maskwork[i]? = some true := by
  intro fuel
  induction fuel with
  | zero => intro s s' cz z h hlen; unfold iterLoopFull at h; cases h; exact ⟨hlen, fun i hm => hm⟩
  | succ f ih =>
    intro s s' cz z h hlen
    unfold iterLoopFull at h
    by_cases hc : (s.error ≠ 0 ∨ s.qdone = false) ∧ s.iiter ≤ p.maxiter
    · rw [if_pos hc] at h
      cases hb : iterBodyFull K p rq gbp xw yw iw s with
      | error e => rw [hb] at h; cases h
      | ok o =>
        rw [hb] at h
        obtain ⟨o1, z1⟩ := o
        cases o1 with
        | failed b => cases h
        | done s1 =>
          obtain ⟨hl1, h1⟩ := iterBodyFull_mask_le K p rq gbp xw yw iw s s1 z1 hb hlen
          obtain ⟨hl2, h2⟩ := ih s1 s' z1 z h hl1
          exact ⟨hl2, fun i hm => h1 i (h2 i hm)⟩
    · rw [if_neg hc] at h; cases h; exact ⟨hlen, fun i hm => hm⟩

/-- the final working mask of the full core is below the initial one, `invvar > 0` (whatever `requiren`, `oldset`, `groupbadpix`) -/
theorem iterCoreFull_mask (K : Kernels α) (r32 : α → α) (p : Params α) (o : FullOpts α) (xw yw iw : List α) (sset : BS α) (cz : Bool)
    (m : List Bool) (hl : iw.length = yw.length) (h : iterCoreFull K r32 p o xw yw iw = .ok (sset, cz, some m)) :
    m.length = yw.length ∧ ∀ j : ℕ, m[j]? = some true → (iw.map (fun v => decide (0 < v)))[j]? = some true := by
  unfold iterCoreFull at h
  simp only [bind, Except.bind, pure, Except.pure] at h
  repeat' split at h
  all_goals first
    | (cases h; done)
    | skip
  rename_i s cz' hloop
  cases h
  exact iterLoopFull_mask_le K p _ _ xw yw iw _ _ _ _ _ hloop (by simp [hl])

/-- without `requiren` a pass of the full loop is the pass of `iterBody` wherever `iterBody` is defined (it refuses the degenerate branch) -/
theorem iterBodyFull_none (K : Kernels α) (p : Params α) (gbp : Bool) (xw yw iw : List α) (s : St α) (o : Outcome α)
    (h : iterBody K p xw yw iw s = .ok o) : iterBodyFull K p none gbp xw yw iw s = .ok (o, false) := by
  unfold iterBody at h
  unfold iterBodyFull
  simp only [rejectCall_eq]
  by_cases hd : countTrue s.maskwork ≤ 1 ∨ (!(s.sset.mask.any id)) = true
  · rw [if_pos hd] at h; cases h
  rw [if_neg hd] at h
  rw [if_neg hd]
  simp only [bind, Except.bind, pure, Except.pure] at h ⊢
  cases hf : fit K s.sset xw yw (maskedWeights iw s.maskwork) (List.range xw.length) with
  | error e => rw [hf] at h; cases h
  | ok out =>
    rw [hf] at h
    simp only [] at h ⊢
    by_cases h2 : out.status = -2
    · rw [if_pos h2] at h ⊢; cases h; rfl
    rw [if_neg h2] at h ⊢
    by_cases h0 : out.status = 0
    · rw [if_pos h0] at h ⊢
      cases hr : Reject.djsReject K.sqrt (rejectOpts p) yw (some out.yfit) (some s.maskwork) (some s.maskwork) iw with
      | error e => rw [hr] at h; cases h
      | ok mq => rw [hr] at h; simp only [] at h ⊢; cases h; rfl
    · rw [if_neg h0] at h ⊢; cases h; rfl

theorem iterLoopFull_none (K : Kernels α) (p : Params α) (gbp : Bool) (xw yw iw : List α) :
    ∀ (fuel : ℕ) (s : St α) (o : Outcome α), iterLoop K p xw yw iw fuel s = .ok o →
      iterLoopFull K p none gbp xw yw iw fuel s false = .ok (o, false) := by
  intro fuel
  induction fuel with
  | zero => intro s o h; rw [iterLoop_zero] at h; cases h; rfl
  | succ f ih =>
    intro s o h
    rw [iterLoop_succ] at h
    unfold iterLoopFull
    by_cases hc : (s.error ≠ 0 ∨ s.qdone = false) ∧ s.iiter ≤ p.maxiter
    · rw [if_pos hc] at h ⊢
      cases hb : iterBody K p xw yw iw s with
      | error e => rw [hb] at h; cases h
      | ok o1 =>
        rw [hb] at h
        rw [iterBodyFull_none K p gbp xw yw iw s o1 hb]
        cases o1 with
        | failed b => cases h; rfl
        | done s1 => exact ih s1 o h
    · rw [if_neg hc] at h ⊢; cases h; rfl

theorem iterCoreFull_none (K : Kernels α) (r32 : α → α) (p : Params α) (gbp : Bool) (xw yw iw : List α) (r : BS α × Option (List Bool))
    (h : iterCore K r32 p xw yw iw = .ok r) :
    iterCoreFull K r32 p { groupbadpix := gbp } xw yw iw = .ok (r.1, false, r.2) := by
  unfold iterCore at h
  unfold iterCoreFull initSset
  simp only [bind, Except.bind, pure, Except.pure] at h ⊢
  by_cases hany : (!((iw.map (fun v => decide (0 < v))).any id)) = true
  · rw [if_pos hany] at h; cases h
  rw [if_neg hany] at h ⊢
  cases hk : mkKnots r32 ((((xw.zip (iw.map (fun v => decide (0 < v)))).filter (fun xm => xm.2)).map (fun xm => xm.1))) p.nord p.opts with
  | error e => rw [hk] at h; cases h
  | ok knots =>
    rw [hk] at h
    simp only [] at h ⊢
    by_cases hc : countTrue (iw.map (fun v => decide (0 < v))) < p.nord
    · rw [if_pos hc] at h; cases h; simp [hc]
    rw [if_neg hc] at h
    simp only [hc, decide_false, Bool.false_eq_true, if_false]
    cases hl : iterLoop K p xw yw iw (p.maxiter + 1)
        { sset := { nord := p.nord, breakpoints := knots.toArray, mask := Array.replicate knots.length true,
                    coeff := Array.replicate (knots.length - p.nord) 0 },
          maskwork := iw.map (fun v => decide (0 < v)), yfit := List.replicate xw.length 0, error := 0, qdone := false, iiter := 0 } with
    | error e => rw [hl] at h; cases h
    | ok o =>
      rw [hl] at h
      rw [iterLoopFull_none K p gbp xw yw iw _ _ o hl]
      cases o with
      | failed b => cases h; rfl
      | done s1 => cases h; rfl

/-- **iterfitFull_eq_iterfit**: without `requiren` and `oldset` (any `groupbadpix`) the full model returns what `iterfit` returns,
wherever `iterfit` answers (it refuses the branch "at most one good point left"), with an array of coefficients
(`cz = false`): every theorem about `iterfit` is a theorem about the full function on these calls -/
theorem iterfitFull_eq_iterfit (K : Kernels α) (r32 : α → α) (p : Params α) (gbp : Bool) (xs ys ivs : List α) (perm : List ℕ)
    (r : BS α × List Bool) (h : iterfit K r32 p xs ys ivs perm = .ok r) :
    iterfitFull K r32 p { groupbadpix := gbp } xs ys ivs perm = .ok ⟨r.1, false, r.2⟩ := by
  unfold iterfit at h
  unfold iterfitFull
  simp only [bind, Except.bind, pure, Except.pure] at h ⊢
  by_cases h1 : ys.length ≠ xs.length
  · rw [if_pos h1] at h; cases h
  rw [if_neg h1] at h ⊢
  by_cases h2 : ivs.length ≠ xs.length
  · rw [if_pos h2] at h; cases h
  rw [if_neg h2] at h ⊢
  by_cases h3 : xs.length ≤ 1
  · rw [if_pos h3] at h; cases h
  rw [if_neg h3] at h ⊢
  cases hc : iterCore K r32 p (perm.map (fun i => xs.getD i 0)) (perm.map (fun i => ys.getD i 0)) (perm.map (fun i => ivs.getD i 0)) with
  | error e => rw [hc] at h; cases h
  | ok v =>
    rw [hc] at h
    rw [iterCoreFull_none K r32 p gbp _ _ _ v hc]
    obtain ⟨b, m⟩ := v
    cases m with
    | none => cases h; rfl
    | some mw => cases h; rfl

/-- **nonpositive_never_used_full**: for the full call (any `requiren`, `oldset`, `groupbadpix`; the degenerate branch included):
unless `iterfit` gives up (all-True mask), the returned mask has the data length, is in the caller's order and is False at
every point whose `invvar` is not positive -/
theorem nonpositive_never_used_full (K : Kernels α) (r32 : α → α) (p : Params α) (o : FullOpts α) (xs ys ivs : List α) (perm : List ℕ)
    (out : FullOut α) (hperm : perm.Perm (List.range xs.length))
    (h : iterfitFull K r32 p o xs ys ivs perm = .ok out) :
    out.outmask = List.replicate xs.length true ∨
    (out.outmask.length = xs.length ∧ ∀ i, i < xs.length → ¬ ((0 : α) < ivs.getD i 0) → out.outmask[i]? = some false) := by
  unfold iterfitFull at h
  simp only [bind, Except.bind, pure, Except.pure] at h
  repeat' split at h
  all_goals first
    | (cases h; done)
    | skip
  · cases h; exact Or.inl rfl
  · rename_i hn _ v hcore _ maskwork hv
    cases h
    right
    obtain ⟨sset, cz, m⟩ := v
    simp only [] at hv
    have hcore' : iterCoreFull K r32 p o (List.map (fun i => xs.getD i 0) perm) (List.map (fun i => ys.getD i 0) perm)
        (List.map (fun i => ivs.getD i 0) perm) = .ok (sset, cz, some maskwork) := by
      rw [hcore, ← hv]
    have hplen : perm.length = xs.length := by rw [hperm.length_eq, List.length_range]
    obtain ⟨hml, hmle⟩ := iterCoreFull_mask K r32 p o _ _ _ sset cz maskwork (by simp) hcore'
    simp only [List.length_map] at hml
    have hperm' : perm.Perm (List.range maskwork.length) := by rw [hml, hplen]; exact hperm
    refine ⟨by rw [(unsort_bool perm maskwork hperm' 0 (by omega)).1, hml, hplen], ?_⟩
    intro i hi hnp
    have hmem : i ∈ perm := (hperm.mem_iff).2 (List.mem_range.2 hi)
    obtain ⟨j, hj, hji⟩ := List.mem_iff_getElem.1 hmem
    have hu := (unsort_bool perm maskwork hperm' j hj).2
    rw [hji] at hu
    rw [hu]
    have hjm : j < maskwork.length := by omega
    rw [List.getElem?_eq_getElem hjm]
    cases hb : maskwork[j] with
    | false => rfl
    | true =>
      exfalso
      have := hmle j (by rw [List.getElem?_eq_getElem hjm, hb])
      simp only [List.getElem?_map, List.getElem?_eq_getElem hj, Option.map_some, hji] at this
      exact hnp (by simpa using this)

/-! ### `oldset`: the breakpoints and the order of the reused object are kept -/

theorem fit_keeps (K : Kernels α) (b : BS α) (xs ys ws : List α) (perm : List ℕ) (out : FitOut α)
    (h : fit K b xs ys ws perm = .ok out) : out.obj.breakpoints = b.breakpoints ∧ out.obj.nord = b.nord := by
  unfold fit at h
  simp only [bind, Except.bind, pure, Except.pure] at h
  repeat' split at h
  all_goals first
    | (cases h; done)
    | skip
  all_goals (cases h; exact ⟨rfl, rfl⟩)

theorem iterBodyFull_keeps (K : Kernels α) (p : Params α) (rq : Option ℕ) (gbp : Bool) (xw yw iw : List α) (s : St α)
    (o : Outcome α) (z : Bool) (h : iterBodyFull K p rq gbp xw yw iw s = .ok (o, z)) :
    match o with
    | .done s' => s'.sset.breakpoints = s.sset.breakpoints ∧ s'.sset.nord = s.sset.nord
    | .failed b => b.breakpoints = s.sset.breakpoints ∧ b.nord = s.sset.nord := by
  unfold iterBodyFull at h
  simp only [bind, Except.bind, pure, Except.pure, rejectCall_eq] at h
  by_cases hd : countTrue s.maskwork ≤ 1 ∨ (!(s.sset.mask.any id)) = true
  · rw [if_pos hd] at h
    repeat' split at h
    all_goals first
      | (cases h; done)
      | skip
    all_goals (cases h; exact ⟨rfl, rfl⟩)
  · rw [if_neg hd] at h
    cases rq with
    | none =>
      simp only [] at h
      cases hf : fit K s.sset xw yw (maskedWeights iw s.maskwork) (List.range xw.length) with
      | error e => rw [hf] at h; cases h
      | ok out =>
        rw [hf] at h
        have hk := fit_keeps K _ _ _ _ _ out hf
        simp only [] at h
        repeat' split at h
        all_goals first
          | (cases h; done)
          | skip
        all_goals (cases h; exact hk)
    | some r =>
      simp only [] at h
      cases hw : requirenWalk s.sset xw iw s.maskwork r with
      | error e => rw [hw] at h; cases h
      | ok m =>
        rw [hw] at h
        simp only [] at h
        cases hf : fit K { s.sset with mask := m } xw yw (maskedWeights iw s.maskwork) (List.range xw.length) with
        | error e => rw [hf] at h; cases h
        | ok out =>
          rw [hf] at h
          have hk := fit_keeps K _ _ _ _ _ out hf
          simp only [] at h
          repeat' split at h
          all_goals first
            | (cases h; done)
            | skip
          all_goals (cases h; exact hk)

theorem iterLoopFull_keeps (K : Kernels α) (p : Params α) (rq : Option ℕ) (gbp : Bool) (xw yw iw : List α) :
    ∀ (fuel : ℕ) (s : St α) (cz : Bool) (o : Outcome α) (z : Bool), iterLoopFull K p rq gbp xw yw iw fuel s cz = .ok (o, z) →
      match o with
      | .done s' => s'.sset.breakpoints = s.sset.breakpoints ∧ s'.sset.nord = s.sset.nord
      | .failed b => b.breakpoints = s.sset.breakpoints ∧ b.nord = s.sset.nord := by
  intro fuel
  induction fuel with
  | zero => intro s cz o z h; unfold iterLoopFull at h; cases h; exact ⟨rfl, rfl⟩
  | succ f ih =>
    intro s cz o z h
    unfold iterLoopFull at h
    by_cases hc : (s.error ≠ 0 ∨ s.qdone = false) ∧ s.iiter ≤ p.maxiter
    · rw [if_pos hc] at h
      cases hb : iterBodyFull K p rq gbp xw yw iw s with
      | error e => rw [hb] at h; cases h
      | ok o1z =>
        rw [hb] at h
        obtain ⟨o1, z1⟩ := o1z
        have hk := iterBodyFull_keeps K p rq gbp xw yw iw s o1 z1 hb
        cases o1 with
        | failed b => cases h; exact hk
        | done s1 =>
          have h2 := ih s1 z1 o z h
          simp only [] at hk
          cases o with
          | done s' => simp only [] at h2 ⊢; exact ⟨h2.1.trans hk.1, h2.2.trans hk.2⟩
          | failed b => simp only [] at h2 ⊢; exact ⟨h2.1.trans hk.1, h2.2.trans hk.2⟩
    · rw [if_neg hc] at h; cases h; exact ⟨rfl, rfl⟩

theorem iterCoreFull_oldset (K : Kernels α) (r32 : α → α) (p : Params α) (o : FullOpts α) (b : BS α) (xw yw iw : List α)
    (r : BS α × Bool × Option (List Bool)) (ho : o.oldset = some b) (h : iterCoreFull K r32 p o xw yw iw = .ok r) :
    r.1.breakpoints = b.breakpoints ∧ r.1.nord = b.nord := by
  unfold iterCoreFull initSset at h
  rw [ho] at h
  simp only [bind, Except.bind, pure, Except.pure, Bool.false_eq_true, if_false] at h
  repeat' split at h
  all_goals first
    | (cases h; done)
    | skip
  all_goals
    have hk := iterLoopFull_keeps K p _ _ _ _ _ _ _ _ _ _ (by assumption)
    cases h
    simpa [resetOld] using hk

/-- **oldset_reuses_breakpoints**: `iterfit(..., oldset=b)` returns an object with the breakpoints and the order of `b`, whatever the
data, the other options and the course of the loop (dropped breakpoints are marked in `mask`, never removed) -/
theorem oldset_reuses_breakpoints (K : Kernels α) (r32 : α → α) (p : Params α) (o : FullOpts α) (b : BS α) (xs ys ivs : List α)
    (perm : List ℕ) (out : FullOut α) (ho : o.oldset = some b)
    (h : iterfitFull K r32 p o xs ys ivs perm = .ok out) :
    out.sset.breakpoints = b.breakpoints ∧ out.sset.nord = b.nord := by
  unfold iterfitFull at h
  simp only [bind, Except.bind, pure, Except.pure] at h
  repeat' split at h
  all_goals first
    | (cases h; done)
    | skip
  all_goals
    have hk := iterCoreFull_oldset K r32 p o b _ _ _ _ ho (by assumption)
    cases h
    exact hk

/-! ### `requiren` only drops breakpoints -/

theorem setFalse_le (m : Array Bool) (k i : ℕ) (h : (m.setIfInBounds k false)[i]? = some true) : m[i]? = some true := by
  rw [Array.getElem?_setIfInBounds] at h
  split at h
  · split at h <;> cases h
  · exact h

/-- **requirenWalk_le**: the `requiren` block keeps the length of the breakpoint mask and only switches entries off -/
theorem requirenWalk_le (b : BS α) (xw iw : List α) (mw : List Bool) (r : ℕ) (m : Array Bool)
    (h : requirenWalk b xw iw mw r = .ok m) :
    m.size = b.mask.size ∧ ∀ i : ℕ, m[i]? = some true → b.mask[i]? = some true := by
  unfold requirenWalk at h
  simp only [] at h
  split at h
  · cases h
  split at h
  · cases h
  -- invariant of the fold
  have inv : ∀ (l : List ℕ) (f : Option (ℕ × ℕ × Array Bool) → ℕ → Option (ℕ × ℕ × Array Bool)) (s0 : Option (ℕ × ℕ × Array Bool)),
      (∀ s k t, f s k = some t → ∃ t0, s = some t0 ∧ (t.2.2 = t0.2.2 ∨ ∃ j, t.2.2 = t0.2.2.setIfInBounds j false)) →
      ∀ t, l.foldl f s0 = some t → ∃ t0, s0 = some t0 ∧ t.2.2.size = t0.2.2.size ∧ ∀ i : ℕ, t.2.2[i]? = some true → t0.2.2[i]? = some true := by
    intro l f
    induction l with
    | nil => intro s0 _ t ht; exact ⟨t, ht, rfl, fun i hi => hi⟩
    | cons a l ih =>
      intro s0 hf t ht
      simp only [List.foldl_cons] at ht
      obtain ⟨t1, ht1, hs1, hle1⟩ := ih (f s0 a) hf t ht
      obtain ⟨t0, ht0, hcase⟩ := hf s0 a t1 ht1
      refine ⟨t0, ht0, ?_, ?_⟩
      · rcases hcase with e | ⟨j, e⟩
        · rw [hs1, e]
        · rw [hs1, e, Array.size_setIfInBounds]
      · intro i hi
        have := hle1 i hi
        rcases hcase with e | ⟨j, e⟩
        · rw [e] at this; exact this
        · rw [e] at this; exact setFalse_le _ _ _ this
  split at h
  · cases h
  · rename_i rr hr
    cases h
    obtain ⟨t0, ht0, hs, hle⟩ := inv _ _ _ (by
      intro s k t hst
      cases s with
      | none => simp at hst
      | some t0 =>
        obtain ⟨i, ct, mm⟩ := t0
        simp only [] at hst
        split at hst
        · cases hst
        · split at hst
          · cases hst; exact ⟨_, rfl, Or.inl rfl⟩
          · cases hst; exact ⟨_, rfl, Or.inr ⟨_, rfl⟩⟩) rr hr
    cases ht0
    exact ⟨hs, hle⟩

end full

/-! ### order independence of the full call (distinct abscissae) -/
section fullField
variable {K : Type} [Field K] [LinearOrder K] [IsStrictOrderedRing K] [FloorRing K]

local notation "iterfitFullK" => @iterfitFull _ (fieldScalar _)
local notation "iterCoreFullK" => @iterCoreFull _ (fieldScalar _)
local notation "ZK" => (@OfNat.ofNat _ 0 (@Scalar.instOfNat _ (fieldScalar _) 0))

/-- what the full `iterfit` returns from the result of the sorted core -/
def finishFull (n : ℕ) (perm : List ℕ) : BS K × Bool × Option (List Bool) → FullOut K
  | (sset, cz, none) => ⟨sset, cz, List.replicate n true⟩
  | (sset, cz, some mw) => ⟨sset, cz, unsort perm mw⟩

theorem iterfitFull_eq (Kn : Kernels K) (r32 : K → K) (p : Params K) (o : FullOpts K) (xs ys ivs : List K) (perm : List ℕ) :
    iterfitFullK Kn r32 p o xs ys ivs perm =
      if ys.length ≠ xs.length then valueError else
      if ivs.length ≠ xs.length then valueError else
      if xs.length ≤ 1 then .error "Unmodelled" else
      (iterCoreFullK Kn r32 p o (perm.map (fun i => xs.getD i ZK)) (perm.map (fun i => ys.getD i ZK))
        (perm.map (fun i => ivs.getD i ZK))).map (finishFull xs.length perm) := by
  unfold iterfitFull
  simp only [bind, Except.bind, pure, Except.pure]
  split
  · rfl
  · split
    · rfl
    · split
      · rfl
      · cases iterCoreFullK Kn r32 p o _ _ _ with
        | error e => rfl
        | ok v =>
          obtain ⟨sset, cz, m⟩ := v
          cases m <;> rfl

/-- **iterfitFull_perm**: order independence of the FULL call - any `requiren`, `oldset`, `groupbadpix`, the degenerate branch
included.  For distinct abscissae and ANY sorting permutations `perm`, `perm'` that `argsort` may return for the data and for
the permuted data: permuting `(x, y, invvar)` by `σ` leaves the spline object (and whether its coefficients are the int 0)
unchanged and permutes the returned mask identically (errors included).  (The `requiren` walk runs over the sorted work
arrays, which coincide.  With TIED abscissae the walk is NOT invariant - its guard `i < nx-1` leaves out the last sorted point,
and which of two tied points is last is up to argsort - so there is no `_ties` version for `requiren`.) -/
theorem iterfitFull_perm (Kn : Kernels K) (r32 : K → K) (p : Params K) (o : FullOpts K) (xs ys ivs : List K) (σ perm perm' : List ℕ)
    (hy : ys.length = xs.length) (hiv : ivs.length = xs.length)
    (hσ : σ.Perm (List.range xs.length)) (hperm : perm.Perm (List.range xs.length))
    (hperm' : perm'.Perm (List.range xs.length))
    (hs : (perm.map (fun i => xs.getD i 0)).Pairwise (· < ·))
    (hs' : (perm'.map (fun i => (σ.map (fun i => xs.getD i 0)).getD i 0)).Pairwise (· ≤ ·)) :
    iterfitFullK Kn r32 p o (σ.map (fun i => xs.getD i 0)) (σ.map (fun i => ys.getD i 0)) (σ.map (fun i => ivs.getD i 0)) perm' =
      (iterfitFullK Kn r32 p o xs ys ivs perm).map
        (fun r => ⟨r.sset, r.cz, σ.map (fun i => r.outmask.getD i true)⟩) := by
  have hkey := perm_key xs σ perm perm' hσ hperm hperm' hs hs'
  have hσl : σ.length = xs.length := by rw [hσ.length_eq, List.length_range]
  have hpl : perm.length = xs.length := by rw [hperm.length_eq, List.length_range]
  have hpl' : perm'.length = xs.length := by rw [hperm'.length_eq, List.length_range]
  have hσm : ∀ i ∈ σ, i < xs.length := fun i hi => List.mem_range.1 ((hσ.mem_iff).1 hi)
  have hpm : ∀ i ∈ perm', i < σ.length := fun i hi => by rw [hσl]; exact List.mem_range.1 ((hperm'.mem_iff).1 hi)
  rw [iterfitFull_eq, iterfitFull_eq]
  simp only [List.length_map, hσl, hy, hiv, ne_eq, not_true_eq_false, if_false]
  by_cases hn : xs.length ≤ 1
  · rw [if_pos hn, if_pos hn]; rfl
  rw [if_neg hn, if_neg hn]
  rw [work_eq xs 0 _ σ perm perm' hσl hσm hpm hkey,
    work_eq ys 0 _ σ perm perm' (by rw [hσl, hy]) (by rw [hy]; exact hσm) hpm hkey,
    work_eq ivs 0 _ σ perm perm' (by rw [hσl, hiv]) (by rw [hiv]; exact hσm) hpm hkey]
  cases hc : iterCoreFullK Kn r32 p o _ _ _ with
  | error e => rfl
  | ok v =>
    obtain ⟨sset, cz, m⟩ := v
    cases m with
    | none =>
      simp only [Except.map, finishFull]
      congr 2
      rw [← hσl]
      apply List.ext_getElem (by simp)
      intro i h1 h2
      simp only [List.getElem_replicate, List.getElem_map, List.getD_eq_getElem?_getD, List.getElem?_replicate]
      split <;> rfl
    | some mw =>
      simp only [Except.map, finishFull]
      congr 2
      obtain ⟨hml, _⟩ := @iterCoreFull_mask K (fieldScalar K) Kn r32 p o _ _ _ sset cz mw (by simp) hc
      simp only [List.length_map] at hml
      have hpermw : perm.Perm (List.range mw.length) := by rw [hml, hpl]; exact hperm
      have hpermw' : perm'.Perm (List.range mw.length) := by rw [hml, hpl]; exact hperm'
      apply List.ext_getElem?
      intro a
      by_cases ha : a < xs.length
      · have hmem : a ∈ perm' := (hperm'.mem_iff).2 (List.mem_range.2 ha)
        obtain ⟨j, hj, hja⟩ := List.mem_iff_getElem.1 hmem
        have h1 := (unsort_bool perm' mw hpermw' j hj).2
        rw [hja] at h1
        have hjp : j < perm.length := by omega
        have h2 := (unsort_bool perm mw hpermw j hjp).2
        have hσa : σ[a]'(by omega) = perm[j] := by
          have : perm[j] = (perm'.map (fun i => σ.getD i 0))[j]'(by rw [List.length_map]; exact hj) := by
            congr 1
          rw [this, List.getElem_map, hja, List.getD_eq_getElem?_getD, List.getElem?_eq_getElem (by omega)]
          rfl
        rw [h1, List.getElem?_map, List.getElem?_eq_getElem (by omega : a < σ.length), Option.map_some, hσa,
          List.getD_eq_getElem?_getD, h2]
        have hjm : j < mw.length := by omega
        rw [List.getElem?_eq_getElem hjm]; rfl
      · rw [List.getElem?_eq_none (by rw [(unsort_bool perm' mw hpermw' 0 (by omega)).1, hml, hpl]; omega),
          List.getElem?_eq_none (by rw [List.length_map, hσl]; omega)]

/-- **maxrej_would_not_matter** (connection to C17 `maxrej_never_limits`): `iterfit` cannot hand `maxrej` to `djs_reject`
(its `**kwargs` go to the `bspline` constructor, which refuses the keyword - observed by the harness on every run); and even a
rejection call WITH any `maxrej` / `groupdim` / `groupsize` / `groupbadpix` on iterfit's 1-D work arrays, when it returns,
returns exactly the result of the call the model makes: the maxrej block never limits the rejection -/
theorem maxrej_would_not_matter (sqrt : K → K) (body : ℕ → List ℕ → ℕ → List K → Except String (List K)) (p : Params K)
    (g : Reject.MaxrejOpts) (gbp : Bool) (yw yfit : List K) (mask : List Bool) (iw : List K) (r : List Bool × Bool)
    (h : @Reject.djsRejectMaxrej K (fieldScalar K) sqrt body (rejectOpts p) g [yw.length] yw (some yfit)
      (some mask) (some mask) iw = .ok r) :
    @rejectCall K (fieldScalar K) sqrt p gbp yw yfit mask iw = .ok r :=
  C17.maxrej_never_limits sqrt body _ g _ _ yw _ _ _ iw r h

/-- **iterfitFull_perm_ties_partial** (transfer of `iterfit_perm_ties` through `iterfitFull_eq_iterfit`): TIED abscissae allowed, any sorting
permutations, any `groupbadpix`, no `requiren` / `oldset`: whenever the first model answers on the data (i.e. the loop never reaches
the branch "at most one good point left"), the full call on the data permuted by `σ` returns the same object, an array of
coefficients, and the mask permuted identically.
FULL statement (not proved): the conclusion of `iterfitFull_perm` with `Pairwise (· ≤ ·)` for every `o` with `o.requiren = none`, i.e.
also with `oldset` and when the loop reaches the degenerate branch.  MISSING: the equivariance lemmas of Lemmas/IterFit.lean
(`iterBody_equiv`, `iterLoop_equiv`, `iterCore_equiv`) redone for `iterBodyFull` with the extra loop invariant `yfit∘τ = yfit` (the
degenerate branch rejects against the previous `yfit`).  With `requiren` the full statement is false for ties. -/
theorem iterfitFull_perm_ties_partial (Kn : Kernels K) (r32 : K → K) (p : Params K) (gbp : Bool) (xs ys ivs : List K) (σ perm perm' : List ℕ)
    (hy : ys.length = xs.length) (hiv : ivs.length = xs.length)
    (hσ : σ.Perm (List.range xs.length)) (hperm : perm.Perm (List.range xs.length))
    (hperm' : perm'.Perm (List.range xs.length))
    (hs : (perm.map (fun i => xs.getD i 0)).Pairwise (· ≤ ·))
    (hs' : (perm'.map (fun i => (σ.map (fun i => xs.getD i 0)).getD i 0)).Pairwise (· ≤ ·))
    (r : BS K × List Bool) (hr : @iterfit K (fieldScalar K) Kn r32 p xs ys ivs perm = .ok r) :
    iterfitFullK Kn r32 p { groupbadpix := gbp } xs ys ivs perm = .ok ⟨r.1, false, r.2⟩ ∧
    iterfitFullK Kn r32 p { groupbadpix := gbp } (σ.map (fun i => xs.getD i 0)) (σ.map (fun i => ys.getD i 0))
        (σ.map (fun i => ivs.getD i 0)) perm' = .ok ⟨r.1, false, σ.map (fun i => r.2.getD i true)⟩ := by
  have h := iterfit_perm_ties Kn r32 p xs ys ivs σ perm perm' hy hiv hσ hperm hperm' hs hs'
  rw [hr] at h
  exact ⟨@iterfitFull_eq_iterfit K (fieldScalar K) Kn r32 p gbp xs ys ivs perm r hr,
    @iterfitFull_eq_iterfit K (fieldScalar K) Kn r32 p gbp _ _ _ perm' _ h⟩

end fullField

/-! ## `iterfit` with the second variable `x2` (2-D fit through C09's `fit2`; Model/IterFit2.lean) -/
section x2loop
variable {α : Type} [Scalar α]
open PydlVerif.BSplineFit2

theorem iterBody2_spec (K : Kernels α) (p : Params α) (gbp : Bool) (xw x2w yw iw : List α) (s s' : St2 α) (z : Bool)
    (h : iterBody2 K p gbp xw x2w yw iw s = .ok (.done s', z)) :
    s'.maskwork = s.maskwork ∨
    ∃ yf, Reject.djsReject K.sqrt (rejectOpts p) yw (some yf) (some s.maskwork) (some s.maskwork) iw = .ok (s'.maskwork, s'.qdone) := by
  unfold iterBody2 at h
  simp only [bind, Except.bind, pure, Except.pure, rejectCall_eq] at h
  repeat' split at h
  all_goals first
    | (cases h; done)
    | skip
  all_goals cases h
  all_goals first
    | exact Or.inl rfl
    | exact Or.inr ⟨_, by assumption⟩

theorem iterBody2_mask_le (K : Kernels α) (p : Params α) (gbp : Bool) (xw x2w yw iw : List α) (s s' : St2 α) (z : Bool)
    (h : iterBody2 K p gbp xw x2w yw iw s = .ok (.done s', z)) (hlen : s.maskwork.length = yw.length) :
    s'.maskwork.length = yw.length ∧ ∀ i : ℕ, s'.maskwork[i]? = some true → s.maskwork[i]? = some true := by
  rcases iterBody2_spec K p gbp xw x2w yw iw s s' z h with hmk | ⟨yf, hr⟩
  · rw [hmk]; exact ⟨hlen, fun i hm => hm⟩
  · exact ⟨djsReject_length _ _ _ _ _ _ _ _ _ hr, fun i hm => djsReject_le _ _ _ _ _ _ _ _ _ hr i hm⟩

/-- **masks only shrink** in the loop of the 2-D `iterfit` -/
theorem iterLoop2_mask_le (K : Kernels α) (p : Params α) (gbp : Bool) (xw x2w yw iw : List α) :
    ∀ (fuel : ℕ) (s s' : St2 α) (cz z : Bool), iterLoop2 K p gbp xw x2w yw iw fuel s cz = .ok (.done s', z) →
      s.maskwork.length = yw.length →
      s'.maskwork.length = yw.length ∧ ∀ i : ℕ, s'.maskwork[i]? = some true → s.maskwork[i]? = some true := by
  intro fuel
  induction fuel with
  | zero => intro s s' cz z h hlen; unfold iterLoop2 at h; cases h; exact ⟨hlen, fun i hm => hm⟩
  | succ f ih =>
    intro s s' cz z h hlen
    unfold iterLoop2 at h
    by_cases hc : (s.error ≠ 0 ∨ s.qdone = false) ∧ s.iiter ≤ p.maxiter
    · rw [if_pos hc] at h
      cases hb : iterBody2 K p gbp xw x2w yw iw s with
      | error e => rw [hb] at h; cases h
      | ok o =>
        rw [hb] at h
        obtain ⟨o1, z1⟩ := o
        cases o1 with
        | failed b => cases h
        | done s1 =>
          obtain ⟨hl1, h1⟩ := iterBody2_mask_le K p gbp xw x2w yw iw s s1 z1 hb hlen
          obtain ⟨hl2, h2⟩ := ih s1 s' z1 z h hl1
          exact ⟨hl2, fun i hm => h1 i (h2 i hm)⟩
    · rw [if_neg hc] at h; cases h; exact ⟨hlen, fun i hm => hm⟩

theorem iterCore2_mask (K : Kernels α) (r32 : α → α) (p : Params α) (npoly : ℕ) (gbp : Bool) (xmin xmax : α) (xw x2w yw iw : List α)
    (sset : BS2 α) (cz : Bool) (m : List Bool) (hl : iw.length = yw.length)
    (h : iterCore2 K r32 p npoly gbp xmin xmax xw x2w yw iw = .ok (sset, cz, some m)) :
    m.length = yw.length ∧ ∀ j : ℕ, m[j]? = some true → (iw.map (fun v => decide (0 < v)))[j]? = some true := by
  unfold iterCore2 at h
  simp only [bind, Except.bind, pure, Except.pure] at h
  repeat' split at h
  all_goals first
    | (cases h; done)
    | skip
  rename_i s cz' hloop
  cases h
  exact iterLoop2_mask_le K p _ xw x2w yw iw _ _ _ _ _ hloop (by simp [hl])

/-- **nonpositive_never_used_x2**: the 2-D `iterfit` too flags every point with non-positive `invvar` False (caller's order),
unless it gives up (all-True mask) -/
theorem nonpositive_never_used_x2 (K : Kernels α) (r32 : α → α) (p : Params α) (npoly : ℕ) (gbp : Bool) (xs ys ivs x2s : List α)
    (perm : List ℕ) (out : Out2 α) (hperm : perm.Perm (List.range xs.length))
    (h : iterfit2 K r32 p npoly gbp xs ys ivs x2s perm = .ok out) :
    out.outmask = List.replicate xs.length true ∨
    (out.outmask.length = xs.length ∧ ∀ i, i < xs.length → ¬ ((0 : α) < ivs.getD i 0) → out.outmask[i]? = some false) := by
  unfold iterfit2 at h
  simp only [bind, Except.bind, pure, Except.pure] at h
  repeat' split at h
  all_goals first
    | (cases h; done)
    | skip
  · cases h; exact Or.inl rfl
  · rename_i hn _ v hcore _ maskwork hv
    cases h
    right
    obtain ⟨sset, cz, m⟩ := v
    simp only [] at hv
    have hcore' : iterCore2 K r32 p npoly gbp (lmin x2s) (lmax x2s) (List.map (fun i => xs.getD i 0) perm)
        (List.map (fun i => x2s.getD i 0) perm) (List.map (fun i => ys.getD i 0) perm)
        (List.map (fun i => ivs.getD i 0) perm) = .ok (sset, cz, some maskwork) := by
      rw [hcore, ← hv]
    have hplen : perm.length = xs.length := by rw [hperm.length_eq, List.length_range]
    obtain ⟨hml, hmle⟩ := iterCore2_mask K r32 p npoly gbp _ _ _ _ _ _ sset cz maskwork (by simp) hcore'
    simp only [List.length_map] at hml
    have hperm' : perm.Perm (List.range maskwork.length) := by rw [hml, hplen]; exact hperm
    refine ⟨by rw [(unsort_bool perm maskwork hperm' 0 (by omega)).1, hml, hplen], ?_⟩
    intro i hi hnp
    have hmem : i ∈ perm := (hperm.mem_iff).2 (List.mem_range.2 hi)
    obtain ⟨j, hj, hji⟩ := List.mem_iff_getElem.1 hmem
    have hu := (unsort_bool perm maskwork hperm' j hj).2
    rw [hji] at hu
    rw [hu]
    have hjm : j < maskwork.length := by omega
    rw [List.getElem?_eq_getElem hjm]
    cases hb : maskwork[j] with
    | false => rfl
    | true =>
      exfalso
      have := hmle j (by rw [List.getElem?_eq_getElem hjm, hb])
      simp only [List.getElem?_map, List.getElem?_eq_getElem hj, Option.map_some, hji] at this
      exact hnp (by simpa using this)

end x2loop

section x2field
variable {K : Type} [Field K] [LinearOrder K] [IsStrictOrderedRing K] [FloorRing K]
open PydlVerif.BSplineFit2

local notation "iterfit2K" => @iterfit2 _ (fieldScalar _)
local notation "iterCore2K" => @iterCore2 _ (fieldScalar _)
local notation "lminK" => @lmin _ (fieldScalar _)
local notation "lmaxK" => @lmax _ (fieldScalar _)
local notation "ZK" => (@OfNat.ofNat _ 0 (@Scalar.instOfNat _ (fieldScalar _) 0))

theorem foldl_min_spec (dec : ∀ a b : K, Decidable (a < b)) (l : List K) :
    ∀ a : K, ((l.foldl (fun m v => @ite _ (v < m) (dec v m) v m) a = a ∨ l.foldl (fun m v => @ite _ (v < m) (dec v m) v m) a ∈ l) ∧
      l.foldl (fun m v => @ite _ (v < m) (dec v m) v m) a ≤ a ∧ ∀ v ∈ l, l.foldl (fun m v => @ite _ (v < m) (dec v m) v m) a ≤ v) := by
  induction l with
  | nil => intro a; exact ⟨Or.inl rfl, le_refl _, fun v hv => by cases hv⟩
  | cons h t ih =>
    intro a
    simp only [List.foldl_cons]
    obtain ⟨h1, h2, h3⟩ := ih (@ite _ (h < a) (dec h a) h a)
    by_cases hlt : h < a
    · simp only [if_pos hlt] at h1 h2 h3 ⊢
      refine ⟨Or.inr ?_, le_trans h2 (le_of_lt hlt), ?_⟩
      · rcases h1 with e | e
        · rw [e]; exact List.mem_cons_self
        · exact List.mem_cons_of_mem _ e
      · intro v hv
        rcases List.mem_cons.1 hv with e | e
        · rw [e]; exact h2
        · exact h3 v e
    · simp only [if_neg hlt] at h1 h2 h3 ⊢
      refine ⟨?_, h2, ?_⟩
      · rcases h1 with e | e
        · exact Or.inl e
        · exact Or.inr (List.mem_cons_of_mem _ e)
      · intro v hv
        rcases List.mem_cons.1 hv with e | e
        · rw [e]; exact le_trans h2 (not_lt.1 hlt)
        · exact h3 v e

theorem foldl_max_spec (dec : ∀ a b : K, Decidable (a < b)) (l : List K) :
    ∀ a : K, ((l.foldl (fun m v => @ite _ (m < v) (dec m v) v m) a = a ∨ l.foldl (fun m v => @ite _ (m < v) (dec m v) v m) a ∈ l) ∧
      a ≤ l.foldl (fun m v => @ite _ (m < v) (dec m v) v m) a ∧ ∀ v ∈ l, v ≤ l.foldl (fun m v => @ite _ (m < v) (dec m v) v m) a) := by
  induction l with
  | nil => intro a; exact ⟨Or.inl rfl, le_refl _, fun v hv => by cases hv⟩
  | cons h t ih =>
    intro a
    simp only [List.foldl_cons]
    obtain ⟨h1, h2, h3⟩ := ih (@ite _ (a < h) (dec a h) h a)
    by_cases hlt : a < h
    · simp only [if_pos hlt] at h1 h2 h3 ⊢
      refine ⟨Or.inr ?_, le_trans (le_of_lt hlt) h2, ?_⟩
      · rcases h1 with e | e
        · rw [e]; exact List.mem_cons_self
        · exact List.mem_cons_of_mem _ e
      · intro v hv
        rcases List.mem_cons.1 hv with e | e
        · rw [e]; exact h2
        · exact h3 v e
    · simp only [if_neg hlt] at h1 h2 h3 ⊢
      refine ⟨?_, h2, ?_⟩
      · rcases h1 with e | e
        · exact Or.inl e
        · exact Or.inr (List.mem_cons_of_mem _ e)
      · intro v hv
        rcases List.mem_cons.1 hv with e | e
        · rw [e]; exact le_trans (not_lt.1 hlt) h2
        · exact h3 v e

/-- `x2.min()` is a least element of the array -/
theorem lmin_spec (l : List K) (hne : l ≠ []) : lminK l ∈ l ∧ ∀ v ∈ l, lminK l ≤ v := by
  cases l with
  | nil => exact absurd rfl hne
  | cons h t =>
    obtain ⟨h1, h2, h3⟩ := foldl_min_spec (fun a b => (fieldScalar K).decLt a b) (h :: t) h
    refine ⟨?_, h3⟩
    rcases h1 with e | e
    · have : lminK (h :: t) = h := e
      rw [this]; exact List.mem_cons_self
    · exact e

theorem lmax_spec (l : List K) (hne : l ≠ []) : lmaxK l ∈ l ∧ ∀ v ∈ l, v ≤ lmaxK l := by
  cases l with
  | nil => exact absurd rfl hne
  | cons h t =>
    obtain ⟨h1, h2, h3⟩ := foldl_max_spec (fun a b => (fieldScalar K).decLt a b) (h :: t) h
    refine ⟨?_, h3⟩
    rcases h1 with e | e
    · have : lmaxK (h :: t) = h := e
      rw [this]; exact List.mem_cons_self
    · exact e

/-- `x2.min()` / `x2.max()` do not depend on the order of the array -/
theorem lmin_perm (l l' : List K) (hp : l'.Perm l) : lminK l' = lminK l := by
  by_cases hne : l = []
  · subst hne; rw [hp.eq_nil]
  have hne' : l' ≠ [] := fun e => hne (by rw [e] at hp; exact hp.symm.eq_nil)
  obtain ⟨m1, m2⟩ := lmin_spec l hne
  obtain ⟨m1', m2'⟩ := lmin_spec l' hne'
  exact le_antisymm (m2' _ ((hp.mem_iff).2 m1)) (m2 _ ((hp.mem_iff).1 m1'))

theorem lmax_perm (l l' : List K) (hp : l'.Perm l) : lmaxK l' = lmaxK l := by
  by_cases hne : l = []
  · subst hne; rw [hp.eq_nil]
  have hne' : l' ≠ [] := fun e => hne (by rw [e] at hp; exact hp.symm.eq_nil)
  obtain ⟨m1, m2⟩ := lmax_spec l hne
  obtain ⟨m1', m2'⟩ := lmax_spec l' hne'
  exact le_antisymm (m2 _ ((hp.mem_iff).1 m1')) (m2' _ ((hp.mem_iff).2 m1))

/-- what the 2-D `iterfit` returns from the result of the sorted core -/
def finish2 (n : ℕ) (perm : List ℕ) : BS2 K × Bool × Option (List Bool) → Out2 K
  | (sset, cz, none) => ⟨sset, cz, List.replicate n true⟩
  | (sset, cz, some mw) => ⟨sset, cz, unsort perm mw⟩

theorem iterfit2_eq (Kn : Kernels K) (r32 : K → K) (p : Params K) (npoly : ℕ) (gbp : Bool) (xs ys ivs x2s : List K) (perm : List ℕ) :
    iterfit2K Kn r32 p npoly gbp xs ys ivs x2s perm =
      if ys.length ≠ xs.length then valueError else
      if ivs.length ≠ xs.length then valueError else
      if x2s.length ≠ xs.length then valueError else
      if xs.length ≤ 1 then .error "Unmodelled" else
      (iterCore2K Kn r32 p npoly gbp (lminK x2s) (lmaxK x2s) (perm.map (fun i => xs.getD i ZK)) (perm.map (fun i => x2s.getD i ZK))
        (perm.map (fun i => ys.getD i ZK)) (perm.map (fun i => ivs.getD i ZK))).map (finish2 xs.length perm) := by
  unfold iterfit2
  simp only [bind, Except.bind, pure, Except.pure]
  split
  · rfl
  · split
    · rfl
    · split
      · rfl
      · split
        · rfl
        · cases iterCore2K Kn r32 p npoly gbp _ _ _ _ _ _ with
          | error e => rfl
          | ok v =>
            obtain ⟨sset, cz, m⟩ := v
            cases m <;> rfl

/-- **iterfit2_perm**: order independence of the 2-D `iterfit`.  For distinct abscissae and ANY sorting permutations `perm`,
`perm'` that `argsort` may return for the data and for the permuted data: permuting `(x, y, invvar, x2)` TOGETHER by `σ`
leaves the 2-D spline object (breakpoints, mask, the `(npoly, nc)` coefficients, `xmin`, `xmax`) unchanged and permutes the
returned mask identically (errors included): the work arrays coincide and `x2.min()`, `x2.max()` do not see the order -/
theorem iterfit2_perm (Kn : Kernels K) (r32 : K → K) (p : Params K) (npoly : ℕ) (gbp : Bool) (xs ys ivs x2s : List K)
    (σ perm perm' : List ℕ)
    (hy : ys.length = xs.length) (hiv : ivs.length = xs.length) (hx2 : x2s.length = xs.length)
    (hσ : σ.Perm (List.range xs.length)) (hperm : perm.Perm (List.range xs.length))
    (hperm' : perm'.Perm (List.range xs.length))
    (hs : (perm.map (fun i => xs.getD i 0)).Pairwise (· < ·))
    (hs' : (perm'.map (fun i => (σ.map (fun i => xs.getD i 0)).getD i 0)).Pairwise (· ≤ ·)) :
    iterfit2K Kn r32 p npoly gbp (σ.map (fun i => xs.getD i 0)) (σ.map (fun i => ys.getD i 0)) (σ.map (fun i => ivs.getD i 0))
        (σ.map (fun i => x2s.getD i 0)) perm' =
      (iterfit2K Kn r32 p npoly gbp xs ys ivs x2s perm).map
        (fun r => ⟨r.sset, r.cz, σ.map (fun i => r.outmask.getD i true)⟩) := by
  have hkey := perm_key xs σ perm perm' hσ hperm hperm' hs hs'
  have hσl : σ.length = xs.length := by rw [hσ.length_eq, List.length_range]
  have hpl : perm.length = xs.length := by rw [hperm.length_eq, List.length_range]
  have hpl' : perm'.length = xs.length := by rw [hperm'.length_eq, List.length_range]
  have hσm : ∀ i ∈ σ, i < xs.length := fun i hi => List.mem_range.1 ((hσ.mem_iff).1 hi)
  have hpm : ∀ i ∈ perm', i < σ.length := fun i hi => by rw [hσl]; exact List.mem_range.1 ((hperm'.mem_iff).1 hi)
  have hmin : lminK (σ.map (fun i => x2s.getD i 0)) = lminK x2s :=
    lmin_perm _ _ (map_getD_perm x2s 0 σ (by rw [hx2]; exact hσ))
  have hmax : lmaxK (σ.map (fun i => x2s.getD i 0)) = lmaxK x2s :=
    lmax_perm _ _ (map_getD_perm x2s 0 σ (by rw [hx2]; exact hσ))
  rw [iterfit2_eq, iterfit2_eq, hmin, hmax]
  simp only [List.length_map, hσl, hy, hiv, hx2, ne_eq, not_true_eq_false, if_false]
  by_cases hn : xs.length ≤ 1
  · rw [if_pos hn, if_pos hn]; rfl
  rw [if_neg hn, if_neg hn]
  rw [work_eq xs 0 _ σ perm perm' hσl hσm hpm hkey,
    work_eq ys 0 _ σ perm perm' (by rw [hσl, hy]) (by rw [hy]; exact hσm) hpm hkey,
    work_eq ivs 0 _ σ perm perm' (by rw [hσl, hiv]) (by rw [hiv]; exact hσm) hpm hkey,
    work_eq x2s 0 _ σ perm perm' (by rw [hσl, hx2]) (by rw [hx2]; exact hσm) hpm hkey]
  cases hc : iterCore2K Kn r32 p npoly gbp _ _ _ _ _ _ with
  | error e => rfl
  | ok v =>
    obtain ⟨sset, cz, m⟩ := v
    cases m with
    | none =>
      simp only [Except.map, finish2]
      congr 2
      rw [← hσl]
      apply List.ext_getElem (by simp)
      intro i h1 h2
      simp only [List.getElem_replicate, List.getElem_map, List.getD_eq_getElem?_getD, List.getElem?_replicate]
      split <;> rfl
    | some mw =>
      simp only [Except.map, finish2]
      congr 2
      obtain ⟨hml, _⟩ := @iterCore2_mask K (fieldScalar K) Kn r32 p npoly gbp _ _ _ _ _ _ sset cz mw (by simp) hc
      simp only [List.length_map] at hml
      have hpermw : perm.Perm (List.range mw.length) := by rw [hml, hpl]; exact hperm
      have hpermw' : perm'.Perm (List.range mw.length) := by rw [hml, hpl]; exact hperm'
      apply List.ext_getElem?
      intro a
      by_cases ha : a < xs.length
      · have hmem : a ∈ perm' := (hperm'.mem_iff).2 (List.mem_range.2 ha)
        obtain ⟨j, hj, hja⟩ := List.mem_iff_getElem.1 hmem
        have h1 := (unsort_bool perm' mw hpermw' j hj).2
        rw [hja] at h1
        have hjp : j < perm.length := by omega
        have h2 := (unsort_bool perm mw hpermw j hjp).2
        have hσa : σ[a]'(by omega) = perm[j] := by
          have : perm[j] = (perm'.map (fun i => σ.getD i 0))[j]'(by rw [List.length_map]; exact hj) := by
            congr 1
          rw [this, List.getElem_map, hja, List.getD_eq_getElem?_getD, List.getElem?_eq_getElem (by omega)]
          rfl
        rw [h1, List.getElem?_map, List.getElem?_eq_getElem (by omega : a < σ.length), Option.map_some, hσa,
          List.getD_eq_getElem?_getD, h2]
        have hjm : j < mw.length := by omega
        rw [List.getElem?_eq_getElem hjm]; rfl
      · rw [List.getElem?_eq_none (by rw [(unsort_bool perm' mw hpermw' 0 (by omega)).1, hml, hpl]; omega),
          List.getElem?_eq_none (by rw [List.length_map, hσl]; omega)]

end x2field

end PydlVerif.C10

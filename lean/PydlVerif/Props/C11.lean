/-
C11 property theorems: combine1fiber's inverse variance is conservative.
Model: PydlVerif/Model/Combine.lean; helper lemmas: PydlVerif/Lemmas/Combine.lean.
All statements are over an arbitrary linearly ordered field `K` (exact arithmetic), for all
lengths, masks and answers of the spline fit.  `specs` is the list of spectra as the code
forms them (`specsOf`): each a list of samples (wavelength `x`, working inverse variance `iv`,
`keep` = `fullcombmask`); `lam` an output wavelength, `nm` its `newmask`.
`Ends p0 rest`: the first sample is leftmost and the last rightmost (increasing wavelengths).
-/
import PydlVerif.Lemmas.Combine
import Mathlib.Data.Rat.Floor
namespace PydlVerif.C11
open PydlVerif PydlVerif.Interp PydlVerif.Combine

section ivar
variable {K : Type} [Field K] [LinearOrder K] [IsStrictOrderedRing K] [FloorRing K]
attribute [local instance] fieldScalar
attribute [-instance] Scalar.instOfNat Scalar.instOfScientific

theorem rawIvarAt_eq (specs : List (List (Samp K))) (lam : K) (nm : Bool) :
    rawIvarAt specs lam nm =
      specs.foldl (fun acc s => match contrib s lam nm with | some c => acc + c | none => acc) 0 := by
  unfold rawIvarAt
  congr 1
  show ((0 : ℕ) : K) = 0
  exact Nat.cast_zero

/-- every spectrum adds a value ≥ 0 (`ivar ≥ 0`) -/
theorem contrib_nonneg (s : List (Samp K)) (lam : K) (nm : Bool) (c : K)
    (hiv : ∀ a ∈ s, 0 ≤ a.iv) (h : contrib s lam nm = some c) : 0 ≤ c :=
  contrib_nonneg' s lam nm c hiv h

/-- **newivar ≥ 0** at every output pixel, for any number of spectra -/
theorem newivar_nonneg (specs : List (List (Samp K))) (lam : K) (nm : Bool)
    (hiv : ∀ s ∈ specs, ∀ a ∈ s, 0 ≤ a.iv) : 0 ≤ rawIvarAt specs lam nm := by
  rw [rawIvarAt_eq]
  exact rawIvarAt_foldl_nonneg specs lam nm hiv 0 (le_refl _)

theorem rawIvarAt_zero (specs : List (List (Samp K))) (lam : K) (nm : Bool)
    (hz : ∀ s ∈ specs, ∀ c, contrib s lam nm = some c → c = 0) : rawIvarAt specs lam nm = 0 := by
  rw [rawIvarAt_eq]
  exact rawIvarAt_foldl_zero specs lam nm hz 0

/-- **exactly 0 outside the data**: an output pixel left of the smallest or right of the largest
wavelength of every spectrum gets inverse variance 0 -/
theorem newivar_zero_outside (specs : List (List (Samp K))) (lam : K) (nm : Bool)
    (hout : ∀ p0 rest, p0 :: rest ∈ specs →
      lam < lmin p0.x (rest.map (·.x)) ∨ lmax p0.x (rest.map (·.x)) < lam) :
    rawIvarAt specs lam nm = 0 := by
  apply rawIvarAt_zero
  intro s hs c hc
  cases s with
  | nil => simp [contrib] at hc
  | cons p0 rest =>
    obtain ⟨h1, h2, _⟩ := contrib_some p0 rest lam nm c hc
    rcases hout p0 rest hs with h | h
    · exact absurd h1 (not_le.2 h)
    · exact absurd h2 (not_le.2 h)

/-- **exactly 0 unless between two kept pixels** (the code's slack stated explicitly): if in every
spectrum no kept sample sits exactly at `lam`, and every pair of neighbouring samples around `lam`
has a member that is not kept, with `lam` farther than the fraction `EPS = 2⁻²³` of the gap from a
kept member, then the output inverse variance is 0 -/
theorem newivar_zero_bad_bracket (specs : List (List (Samp K))) (lam : K) (nm : Bool)
    (hE : ∀ p0 rest, p0 :: rest ∈ specs → Ends p0 rest)
    (hnode : ∀ s ∈ specs, ∀ a ∈ s, a.x = lam → a.keep = false)
    (hbr : ∀ s ∈ specs, ∀ a b, Consec a b s → a.x < lam → lam < b.x →
      ¬ (a.keep = true ∧ b.keep = true) ∧
      (a.keep = true → eps < (lam - a.x) / (b.x - a.x)) ∧
      (b.keep = true → eps < (b.x - lam) / (b.x - a.x))) :
    rawIvarAt specs lam nm = 0 := by
  apply rawIvarAt_zero
  intro s hs c hc
  cases s with
  | nil => simp [contrib] at hc
  | cons p0 rest =>
    by_contra hne
    obtain ⟨_, h⟩ := contrib_nonzero p0 rest (hE p0 rest hs) lam nm c hc hne
    rcases h with ⟨a, b, hcs, ha, hb, h⟩ | ⟨a, hm, hx, hk, _⟩
    · obtain ⟨h1, h2, h3⟩ := hbr _ hs a b hcs ha hb
      rcases h with ⟨ka, kb, _⟩ | ⟨ka, _, hle, _⟩ | ⟨_, kb, hle, _⟩
      · exact h1 ⟨ka, kb⟩
      · exact absurd hle (not_le.2 (h2 ka))
      · exact absurd hle (not_le.2 (h3 kb))
    · rw [hnode _ hs a hm hx] at hk
      exact Bool.noConfusion hk

/-- a spectrum none of whose samples is kept adds 0 (no ordering assumption) -/
theorem contrib_zero_of_no_keep (s : List (Samp K)) (lam : K) (nm : Bool) (c : K)
    (hk : ∀ a ∈ s, a.keep = false) (h : contrib s lam nm = some c) : c = 0 := by
  cases s with
  | nil => simp [contrib] at h
  | cons p0 rest =>
    obtain ⟨_, _, rfl⟩ := contrib_some p0 rest lam nm c h
    rcases interp2 p0 rest lam with ⟨a, b, hc, _, _, e1, _⟩ | ⟨a, hm, _, e1, _⟩
    · rw [e1]
      simp only [vI, hk a hc.mem.1, hk b hc.mem.2, castB_false, mul_zero, lerp_const, zero_mul]
    · rw [e1]
      simp only [vI, hk a hm, castB_false, mul_zero, zero_mul]

/-- **no good pixel ⇒ all zero**: when no sample of any spectrum is kept, or the output pixel's
`newmask` is not set, the inverse variance is 0 -/
theorem newivar_zero_no_good (specs : List (List (Samp K))) (lam : K) (nm : Bool)
    (h : (∀ s ∈ specs, ∀ a ∈ s, a.keep = false) ∨ nm = false) : rawIvarAt specs lam nm = 0 := by
  apply rawIvarAt_zero
  intro s hs c hc
  rcases h with h | h
  · exact contrib_zero_of_no_keep s lam nm c (h s hs) hc
  · subst h
    cases s with
    | nil => simp [contrib] at hc
    | cons p0 rest =>
      obtain ⟨_, _, rfl⟩ := contrib_some p0 rest lam false c hc
      rw [castB_false, mul_zero]

theorem rawIvarAt_single (s : List (Samp K)) (lam : K) (nm : Bool) :
    rawIvarAt [s] lam nm = match contrib s lam nm with | some c => c | none => 0 := by
  rw [rawIvarAt_eq]
  simp only [List.foldl_cons, List.foldl_nil]
  cases contrib s lam nm with
  | none => rfl
  | some c => exact zero_add c

/-- **single spectrum: a non-zero output inverse variance is the linear interpolation of the input
one** between the two neighbouring samples, both kept (or the value of the kept sample exactly at
`lam`); the only other non-zero values are inside the code's `EPS` slack next to a kept sample, where the
interpolation runs towards 0 -/
theorem newivar_single_is_interp (p0 : Samp K) (rest : List (Samp K)) (hE : Ends p0 rest) (lam : K) (nm : Bool)
    (hne : rawIvarAt [p0 :: rest] lam nm ≠ 0) :
    nm = true ∧
    ((∃ a b, Consec a b (p0 :: rest) ∧ a.x < lam ∧ lam < b.x ∧
        ((a.keep = true ∧ b.keep = true ∧ rawIvarAt [p0 :: rest] lam nm = lerp a.x a.iv b.x b.iv lam) ∨
         (a.keep = true ∧ b.keep = false ∧ (lam - a.x) / (b.x - a.x) ≤ eps ∧
            rawIvarAt [p0 :: rest] lam nm = lerp a.x a.iv b.x 0 lam) ∨
         (a.keep = false ∧ b.keep = true ∧ (b.x - lam) / (b.x - a.x) ≤ eps ∧
            rawIvarAt [p0 :: rest] lam nm = lerp a.x 0 b.x b.iv lam))) ∨
     (∃ a, a ∈ p0 :: rest ∧ a.x = lam ∧ a.keep = true ∧ rawIvarAt [p0 :: rest] lam nm = a.iv)) := by
  rw [rawIvarAt_single] at hne ⊢
  cases hc : contrib (p0 :: rest) lam nm with
  | none => rw [hc] at hne; exact absurd rfl hne
  | some c =>
    rw [hc] at hne
    exact contrib_nonzero p0 rest hE lam nm c hc hne

/-- **… and never above its local maximum**: a non-zero output value is at most the larger of the
two neighbouring input values (`ivar ≥ 0`) -/
theorem newivar_le_local_max (p0 : Samp K) (rest : List (Samp K)) (hE : Ends p0 rest) (lam : K) (nm : Bool)
    (hiv : ∀ a ∈ p0 :: rest, 0 ≤ a.iv) (hne : rawIvarAt [p0 :: rest] lam nm ≠ 0) :
    (∃ a b, Consec a b (p0 :: rest) ∧ a.x < lam ∧ lam < b.x ∧ rawIvarAt [p0 :: rest] lam nm ≤ max a.iv b.iv) ∨
    (∃ a, a ∈ p0 :: rest ∧ a.x = lam ∧ rawIvarAt [p0 :: rest] lam nm = a.iv) := by
  obtain ⟨_, h⟩ := newivar_single_is_interp p0 rest hE lam nm hne
  rcases h with ⟨a, b, hcs, ha, hb, h⟩ | ⟨a, hm, hx, _, e⟩
  · left
    refine ⟨a, b, hcs, ha, hb, ?_⟩
    have h0a := hiv a hcs.mem.1
    have h0b := hiv b hcs.mem.2
    rcases h with ⟨_, _, e⟩ | ⟨_, _, _, e⟩ | ⟨_, _, _, e⟩
    · rw [e]; exact lerp_le_max _ _ _ _ _ (le_of_lt ha) hb
    · rw [e]
      exact le_trans (lerp_le_max _ _ _ _ _ (le_of_lt ha) hb) (max_le_max (le_refl _) h0b)
    · rw [e]
      exact le_trans (lerp_le_max _ _ _ _ _ (le_of_lt ha) hb) (max_le_max h0a (le_refl _))
  · right; exact ⟨a, hm, hx, e⟩

/-! ### after the bad-region growth and the scrub -/

/-- the bad-region growth only sets values to 0 -/
theorem growBad_cases (a : List K) (p : Nat) (hp : p < a.length) :
    (growBad a)[p]'(by rw [growBad_length]; exact hp) = 0 ∨
    (growBad a)[p]'(by rw [growBad_length]; exact hp) = a[p] := growBad_get a p hp

/-- every returned inverse variance is 0 or the value `rawIvarAt` of its pixel -/
theorem final_ivar_cases (classify : K → Val K) (oneD : Bool) (nspec ncol : Nat) (x newx : List K) (st : St K)
    (p : Nat) (hp : p < ((finishPairs classify oneD nspec ncol x newx st).map (·.2)).length) :
    ((finishPairs classify oneD nspec ncol x newx st).map (·.2))[p] = 0 ∨
    ((finishPairs classify oneD nspec ncol x newx st).map (·.2))[p] =
      rawIvarAt (specsOf oneD nspec ncol x (workIvar oneD x.length st.ivar) st.fcm)
        (newx.getD p 0) (st.mask.getD p false) := by
  have h0 : ((0 : ℕ) : K) = 0 := Nat.cast_zero
  simp only [finishPairs, List.length_map, scrub_length, growBad_length] at hp
  have hp2 : p < (rawIvar (specsOf oneD nspec ncol x (workIvar oneD x.length st.ivar) st.fcm) newx st.mask).length :=
    lt_of_lt_of_le hp (min_le_right _ _)
  have hp3 : p < newx.length := by simpa [rawIvar] using hp2
  simp only [finishPairs, scrub, List.getElem_map, List.getElem_zipWith]
  split
  · rcases growBad_get _ p hp2 with h | h
    · left; exact h
    · right; rw [h]; simp [rawIvar, List.getElem_range]
  · left; exact h0

theorem finish_ok (mean : List K → K) (erf : K → K) (classify : K → Val K)
    (oneD : Bool) (nspec ncol : Nat) (x newx : List K) (m : Method) (st : St K) (f v : List K)
    (h : finish mean erf classify oneD nspec ncol x newx m st = .ok (f, v)) :
    v = (finishPairs classify oneD nspec ncol x newx st).map (·.2) ∧
    aesthIf mean erf ((finishPairs classify oneD nspec ncol x newx st).map (·.1))
      ((finishPairs classify oneD nspec ncol x newx st).map (·.2)) m = .ok f := by
  unfold finish at h
  simp only [bind, Except.bind, pure, Except.pure] at h
  cases hA : aesthIf mean erf ((finishPairs classify oneD nspec ncol x newx st).map (·.1))
      ((finishPairs classify oneD nspec ncol x newx st).map (·.2)) m with
  | error e => rw [hA] at h; cases h
  | ok f' =>
    rw [hA] at h
    simp only [Except.ok.injEq, Prod.mk.injEq] at h
    exact ⟨h.2.symm, by rw [h.1]⟩

/-- **the returned inverse variance is ≥ 0** (`finish`, any state of the group loop; 1-D input needs
its own `ivar ≥ 0`, stacked input is clipped by the code, missing `objivar` means unit weights) -/
theorem final_ivar_nonneg (mean : List K → K) (erf : K → K) (classify : K → Val K)
    (oneD : Bool) (nspec ncol : Nat) (x newx : List K) (m : Method) (st : St K) (f v : List K)
    (hiv : oneD = true → ∀ l, st.ivar = some l → ∀ a ∈ l, 0 ≤ a)
    (h : finish mean erf classify oneD nspec ncol x newx m st = .ok (f, v)) :
    ∀ a ∈ v, 0 ≤ a := by
  have hv := (finish_ok mean erf classify oneD nspec ncol x newx m st f v h).1
  subst hv
  intro a ha
  obtain ⟨p, hp, rfl⟩ := List.getElem_of_mem ha
  have hw : ∀ a ∈ workIvar oneD x.length st.ivar, 0 ≤ a := by
    intro a ha
    unfold workIvar at ha
    cases hs : st.ivar with
    | none =>
      rw [hs] at ha
      simp only [List.mem_replicate] at ha
      rw [ha.2]
      show (0 : K) ≤ ((1 : ℕ) : K)
      rw [Nat.cast_one]; exact zero_le_one
    | some l =>
      rw [hs] at ha
      cases oneD with
      | true => exact hiv rfl l hs a (by simpa using ha)
      | false =>
        simp only [Bool.false_eq_true, if_false, List.mem_map] at ha
        obtain ⟨b, _, rfl⟩ := ha
        show 0 ≤ b * castB (decide (((0 : ℕ) : K) < b))
        rw [Nat.cast_zero]
        by_cases hb : 0 < b
        · simp only [hb, decide_true, castB_true, mul_one]; exact le_of_lt hb
        · simp only [hb, decide_false, castB_false, mul_zero]; exact le_refl _
  rcases final_ivar_cases classify oneD nspec ncol x newx st p hp with h | h
  · rw [h]
  · rw [h]
    apply newivar_nonneg
    intro s hs a ha
    unfold specsOf at hs
    simp only [List.mem_map, List.mem_filter] at hs
    obtain ⟨idx, _, rfl⟩ := hs
    simp only [List.mem_map] at ha
    obtain ⟨i, _, rfl⟩ := ha
    simp only
    by_cases hi : i < (workIvar oneD x.length st.ivar).length
    · rw [List.getD_eq_getElem?_getD, List.getElem?_eq_getElem hi]; exact hw _ (List.getElem_mem hi)
    · rw [List.getD_eq_getElem?_getD, List.getElem?_eq_none (not_lt.1 hi)]
      show (0 : K) ≤ ((0 : ℕ) : K)
      rw [Nat.cast_zero]

/-- **the returned inverse variance is 0 wherever `rawIvarAt` is 0**: together with
`newivar_zero_outside`, `newivar_zero_bad_bracket`, `newivar_zero_no_good` this is the zero pattern of
the function's second output -/
theorem final_ivar_zero (classify : K → Val K) (oneD : Bool) (nspec ncol : Nat) (x newx : List K) (st : St K)
    (p : Nat) (hp : p < ((finishPairs classify oneD nspec ncol x newx st).map (·.2)).length)
    (hz : rawIvarAt (specsOf oneD nspec ncol x (workIvar oneD x.length st.ivar) st.fcm)
        (newx.getD p 0) (st.mask.getD p false) = 0) :
    ((finishPairs classify oneD nspec ncol x newx st).map (·.2))[p] = 0 := by
  rcases final_ivar_cases classify oneD nspec ncol x newx st p hp with h | h
  · exact h
  · rw [h, hz]

/-- lengths: both outputs of `finish` have the grid's length when `newflux` has it -/
theorem finish_length (mean : List K → K) (erf : K → K) (classify : K → Val K)
    (oneD : Bool) (nspec ncol : Nat) (x newx : List K) (m : Method) (st : St K) (f v : List K)
    (hfl : st.flux.length = newx.length)
    (h : finish mean erf classify oneD nspec ncol x newx m st = .ok (f, v)) :
    v.length = newx.length := by
  rw [(finish_ok mean erf classify oneD nspec ncol x newx m st f v h).1]
  simp [finishPairs, scrub_length, growBad_length, rawIvar, hfl]

end ivar

/-! ### the scrub, in the explicit value type -/

section scrub
variable {α : Type} [Scalar α]

/-- **after the scrub every value is finite**: whatever the classifier (`np.isfinite` at IEEE,
"everything" in an exact field), as long as it calls 0 finite, both members of every scrubbed pixel
classify as `.fin` -/
theorem scrub_finite (classify : α → Val α) (h0 : isFin classify (0 : α) = true) (flux ivar : List α) :
    ∀ q ∈ scrub classify flux ivar, isFin classify q.1 = true ∧ isFin classify q.2 = true := by
  intro q hq
  unfold scrub at hq
  obtain ⟨i, hi, rfl⟩ := List.getElem_of_mem hq
  simp only [List.getElem_zipWith]
  split
  · rename_i h
    simpa using h
  · exact ⟨h0, h0⟩

end scrub

/-! ### the shift of preprocess_spectra -/

section shift
variable {K : Type} [Field K] [LinearOrder K] [IsStrictOrderedRing K] [FloorRing K]
attribute [local instance] fieldScalar
attribute [-instance] Scalar.instOfNat Scalar.instOfScientific

theorem interpGo_shift (s lam : K) : ∀ (rest : List (K × K)) (x0 f0 : K),
    interpGo lam (x0 - s) f0 (rest.map fun q => (q.1 - s, q.2)) = interpGo (lam + s) x0 f0 rest := by
  intro rest
  induction rest with
  | nil => intro x0 f0; simp [interpGo]
  | cons q rest ih =>
    intro x0 f0
    obtain ⟨x1, f1⟩ := q
    simp only [List.map_cons, interpGo]
    have h1 : lam < x1 - s ↔ lam + s < x1 := lt_sub_iff_add_lt
    have h2 : Scalar.beq (x0 - s) lam = Scalar.beq x0 (lam + s) := by
      have : (x0 - s = lam) ↔ (x0 = lam + s) := sub_eq_iff_eq_add
      simp [Scalar.beq, this]
    by_cases h : lam + s < x1
    · simp only [h1.2 h, h, if_true, h2]
      split
      · rfl
      · have e1 : x1 - s - (x0 - s) = x1 - x0 := by ring
        have e2 : lam - (x0 - s) = lam + s - x0 := by ring
        rw [e1, e2]
    · have : ¬ lam < x1 - s := fun h' => h (h1.1 h')
      simp only [this, h, if_false]
      exact ih x1 f1

/-- **np.interp commutes with a shift of the abscissae**: sampling the shifted spectrum at `lam` is
sampling the original at `lam + s` - a feature at log-wavelength `L` is found at `L - s` -/
theorem interp_shift (s lam x0 f0 : K) (rest : List (K × K)) :
    npInterp (x0 - s) f0 (rest.map fun q => (q.1 - s, q.2)) lam = npInterp x0 f0 rest (lam + s) := by
  unfold npInterp
  have h1 : lam < x0 - s ↔ lam + s < x0 := lt_sub_iff_add_lt
  by_cases h : lam + s < x0
  · simp [h1.2 h, h]
  · have : ¬ lam < x0 - s := fun h' => h (h1.1 h')
    simp only [this, h, if_false]
    exact interpGo_shift s lam rest x0 f0

/-- **preprocess_spectra moves a feature at `L` to `L - s`** (`s = log10(1+z)` as numpy computed it):
linear interpolation of any per-pixel quantity `f` on the shifted wavelengths `shiftRow loglam s`
at `L - s` equals its interpolation on the original wavelengths at `L` (all `loglam > 0`) -/
theorem shiftRow_feature (loglam f : List K) (s L : K) (hpos : ∀ l ∈ loglam, 0 < l) :
    interpL ((shiftRow loglam s).zip f) (L - s) = interpL (loglam.zip f) L := by
  have hs : shiftRow loglam s = loglam.map (fun l => l - s) := by
    unfold shiftRow
    congr 1
    apply List.filter_eq_self.2
    intro l hl
    simp only [decide_eq_true_eq]
    show ((0 : ℕ) : K) < l
    rw [Nat.cast_zero]; exact hpos l hl
  rw [hs]
  cases loglam with
  | nil => simp [interpL]
  | cons l0 ls =>
    cases f with
    | nil => simp [interpL]
    | cons f0 fs =>
      simp only [List.map_cons, List.zip_cons_cons, interpL]
      have : (ls.map fun l => l - s).zip fs = (ls.zip fs).map fun q => (q.1 - s, q.2) := by
        rw [List.zip_map_left]
        rfl
      rw [this, interp_shift s (L - s) l0 f0 (ls.zip fs)]
      congr 1; ring

end shift

/-! ### the scaling law of the inverse variance -/

section scale
variable {K : Type} [Field K] [LinearOrder K] [IsStrictOrderedRing K] [FloorRing K]
attribute [local instance] fieldScalar
attribute [-instance] Scalar.instOfNat Scalar.instOfScientific

/-- the samples with every inverse variance multiplied by `k` -/
def scaleIv (k : K) (s : List (Samp K)) : List (Samp K) := s.map fun p => ⟨p.x, k * p.iv, p.keep⟩

theorem interpGo_scale (k lam : K) : ∀ (rest : List (K × K)) (x0 f0 : K),
    interpGo lam x0 (k * f0) (rest.map fun q => (q.1, k * q.2)) = k * interpGo lam x0 f0 rest := by
  intro rest
  induction rest with
  | nil => intro x0 f0; simp [interpGo]
  | cons q rest ih =>
    intro x0 f0
    obtain ⟨x1, f1⟩ := q
    simp only [List.map_cons, interpGo]
    split
    · split
      · rfl
      · ring
    · exact ih x1 f1

/-- **scaling law, one spectrum**: multiplying the input inverse variance by `k` (`k = 1/c²`)
multiplies the contribution by `k`; which pixels take part does not change -/
theorem contrib_scale (k : K) (s : List (Samp K)) (lam : K) (nm : Bool) :
    contrib (scaleIv k s) lam nm = (contrib s lam nm).map (k * ·) := by
  cases s with
  | nil => simp [scaleIv, contrib]
  | cons p0 rest =>
    have hx : (List.map (fun p => p.x) (List.map (fun p : Samp K => (⟨p.x, k * p.iv, p.keep⟩ : Samp K)) rest))
        = List.map (fun p => p.x) rest := by simp [List.map_map, Function.comp_def]
    have hm : mkPts (scaleIv k (p0 :: rest)) = mkPts (p0 :: rest) := by
      simp [mkPts, scaleIv, List.map_map, Function.comp_def]
    have hi : interpL (ivPts (scaleIv k (p0 :: rest))) lam = k * interpL (ivPts (p0 :: rest)) lam := by
      simp only [scaleIv, ivPts, List.map_cons, List.map_map, interpL, npInterp]
      have e : (List.map ((fun p : Samp K => (p.x, p.iv * castB p.keep)) ∘ fun p => (⟨p.x, k * p.iv, p.keep⟩ : Samp K)) rest)
          = (rest.map fun p => (p.x, p.iv * castB p.keep)).map fun q => (q.1, k * q.2) := by
        simp [List.map_map, Function.comp_def, mul_assoc]
      rw [e, mul_assoc, interpGo_scale]
      split
      · rfl
      · rfl
    unfold contrib
    simp only [scaleIv, List.map_cons, hx]
    split
    · simp only [Option.map_some, Option.some.injEq]
      have hi' := hi
      have hm' := hm
      simp only [scaleIv, List.map_cons] at hi' hm'
      rw [hi', hm']
      ring
    · rfl

/-- **scaling law, all spectra**: `(ivar·k) ↦ (newivar·k)` before the bad-region growth -/
theorem newivar_scale (k : K) (specs : List (List (Samp K))) (lam : K) (nm : Bool) :
    rawIvarAt (specs.map (scaleIv k)) lam nm = k * rawIvarAt specs lam nm := by
  rw [rawIvarAt_eq, rawIvarAt_eq]
  have : ∀ (acc : K), (specs.map (scaleIv k)).foldl
      (fun acc s => match contrib s lam nm with | some c => acc + c | none => acc) (k * acc) =
      k * specs.foldl (fun acc s => match contrib s lam nm with | some c => acc + c | none => acc) acc := by
    induction specs with
    | nil => intro acc; rfl
    | cons s specs ih =>
      intro acc
      simp only [List.map_cons, List.foldl_cons, contrib_scale]
      cases contrib s lam nm with
      | none => exact ih acc
      | some c =>
        simp only [Option.map_some]
        rw [← mul_add]; exact ih (acc + c)
  have h := this 0
  rw [mul_zero] at h
  exact h

end scale

/-! ### the group loop: lengths, constant spectrum -/

section loop
variable {K : Type} [Field K] [LinearOrder K] [IsStrictOrderedRing K] [FloorRing K]
attribute [local instance] fieldScalar
attribute [-instance] Scalar.instOfNat Scalar.instOfScientific

theorem scatter_length {β : Type} (arr : List β) (idx : List Nat) (vals : List β) :
    (scatter arr idx vals).length = arr.length := by
  unfold scatter
  generalize idx.zip vals = l
  induction l generalizing arr with
  | nil => rfl
  | cons iv l ih => simp only [List.foldl_cons]; rw [ih]; simp

theorem scatterConst_length {β : Type} (arr : List β) (idx : List Nat) (v : β) :
    (scatterConst arr idx v).length = arr.length := by
  unfold scatterConst
  induction idx generalizing arr with
  | nil => rfl
  | cons i l ih => simp only [List.foldl_cons]; rw [ih]; simp

/-- one pass of the group loop keeps the length of `newflux` -/
theorem groupStep_flux_length (fit : Nat → K → List K → List K → Option (List K) → Combine.R (Fit K))
    (bk : K) (x y newx : List K) (st st' : St K) (k : Nat) (ss : List Nat)
    (h : groupStep fit bk x y newx st k ss = .ok st') : st'.flux.length = st.flux.length := by
  unfold groupStep at h
  simp only [bind, Except.bind, pure, Except.pure] at h
  repeat' split at h
  all_goals first
    | (cases h; first | rfl | simp only [scatter_length])
    | cases h

theorem foldlM_inv {σ β : Type} (f : σ → β → Except String σ) (P : σ → Prop)
    (hstep : ∀ s b s', f s b = .ok s' → P s → P s') :
    ∀ (l : List β) (s s' : σ), l.foldlM f s = .ok s' → P s → P s' := by
  intro l
  induction l with
  | nil => intro s s' h hp; simp only [List.foldlM_nil, pure, Except.pure, Except.ok.injEq] at h; rw [← h]; exact hp
  | cons b l ih =>
    intro s s' h hp
    simp only [List.foldlM_cons, bind, Except.bind] at h
    split at h
    · cases h
    · rename_i s1 hs1
      exact ih s1 s' h (hstep s b s1 hs1 hp)

theorem groupLoop_flux_length (fit : Nat → K → List K → List K → Option (List K) → Combine.R (Fit K))
    (bk : K) (x y newx : List K) (st st' : St K) (groups : List (List Nat))
    (h : groupLoop fit bk x y newx st groups = .ok st') : st'.flux.length = st.flux.length := by
  unfold groupLoop at h
  exact foldlM_inv _ (fun s => s.flux.length = st.flux.length)
    (fun s b s' hs hp => by rw [groupStep_flux_length fit bk x y newx s s' b _ hs]; exact hp) _ st st' h rfl

/-- **length**: whenever `combine1fiber` returns, its inverse variance has the output grid's length
(any fit, any argsort, any kernels) -/
theorem combine_length (fit : Nat → K → List K → List K → Option (List K) → Combine.R (Fit K))
    (argsort : List K → List Nat) (med mean : List K → K) (erf : K → K) (classify : K → Val K)
    (inp : Input K) (f v : List K)
    (h : combine1fiber fit argsort med mean erf classify inp = .ok (f, v)) :
    v.length = inp.newx.length := by
  unfold combine1fiber at h
  simp only [bind, Except.bind, pure, Except.pure] at h
  repeat' split at h
  all_goals first
    | (cases h; simp; done)
    | (rename_i st hst
       refine finish_length _ _ _ _ _ _ _ _ _ _ _ _ ?_ h
       rw [groupLoop_flux_length _ _ _ _ _ _ _ _ hst]; simp; done)
    | cases h

theorem scatter_mem {β : Type} (arr : List β) (idx : List Nat) (vals : List β) :
    ∀ v ∈ scatter arr idx vals, v ∈ arr ∨ v ∈ vals := by
  unfold scatter
  have : ∀ (l : List (Nat × β)) (arr : List β), ∀ v ∈ l.foldl (fun a (iv : Nat × β) => a.set iv.1 iv.2) arr,
      v ∈ arr ∨ ∃ q ∈ l, q.2 = v := by
    intro l
    induction l with
    | nil => intro arr v hv; exact Or.inl hv
    | cons q l ih =>
      intro arr v hv
      simp only [List.foldl_cons] at hv
      rcases ih _ v hv with h | ⟨q', hq', e⟩
      · rcases List.mem_or_eq_of_mem_set h with h | h
        · exact Or.inl h
        · exact Or.inr ⟨q, List.mem_cons_self, h.symm⟩
      · exact Or.inr ⟨q', List.mem_cons_of_mem _ hq', e⟩
  intro v hv
  rcases this _ arr v hv with h | ⟨q, hq, e⟩
  · exact Or.inl h
  · right; rw [← e]; exact (List.of_mem_zip hq).2

/-- the fit contract used below: whatever is fitted, the curve evaluates to `c` everywhere
(what C08 `bsplvn_sum_one` + the C09 normal equations give for a constant spectrum) -/
def FitConst (fit : Nat → K → List K → List K → Option (List K) → Combine.R (Fit K)) (c : K) : Prop :=
  ∀ k bk gx gy giv F, fit k bk gx gy giv = .ok F → ∀ xs vals vm, F.value xs = .ok (vals, vm) → ∀ v ∈ vals, v = c

theorem groupStep_flux_const (fit : Nat → K → List K → List K → Option (List K) → Combine.R (Fit K))
    (c : K) (hfit : FitConst fit c)
    (bk : K) (x y newx : List K) (st st' : St K) (k : Nat) (ss : List Nat)
    (h : groupStep fit bk x y newx st k ss = .ok st') (hp : ∀ v ∈ st.flux, v = 0 ∨ v = c) :
    ∀ v ∈ st'.flux, v = 0 ∨ v = c := by
  unfold groupStep at h
  simp only [bind, Except.bind, pure, Except.pure] at h
  repeat' split at h
  all_goals first
    | (cases h; exact hp; done)
    | (cases h
       intro v hv
       rcases scatter_mem _ _ _ v hv with h1 | h1
       · exact hp v h1
       · right
         have hF := ‹fit _ _ _ _ _ = Except.ok _›
         have hval := ‹Fit.value _ _ = Except.ok _›
         exact hfit _ _ _ _ _ _ hF _ _ _ hval v h1)
    | cases h

/-- **constant spectrum ⇒ constant `newflux`, relative to the spline-fit contract** (`_partial`: the
contract `FitConst` - the fitted curve of a constant spectrum is that constant - belongs to C08/C09 and is
assumed here; the statement is about `newflux` as the group loop leaves it, i.e. before the scrub and
`aesthetics`): every output pixel is either untouched (0) or holds the constant -/
theorem const_flux_const_partial (fit : Nat → K → List K → List K → Option (List K) → Combine.R (Fit K))
    (c : K) (hfit : FitConst fit c) (bk : K) (x y newx : List K) (st st' : St K) (groups : List (List Nat))
    (h0 : ∀ v ∈ st.flux, v = 0 ∨ v = c)
    (h : groupLoop fit bk x y newx st groups = .ok st') : ∀ v ∈ st'.flux, v = 0 ∨ v = c := by
  unfold groupLoop at h
  exact foldlM_inv _ (fun s => ∀ v ∈ s.flux, v = 0 ∨ v = c)
    (fun s b s' hs hp => groupStep_flux_const fit c hfit bk x y newx s s' b _ hs hp) _ st st' h h0

end loop

/-! ### non-vacuity -/

section examples
attribute [local instance] fieldScalar
attribute [-instance] Scalar.instOfNat Scalar.instOfScientific

/-- the hypotheses of the single-spectrum theorems are met by a concrete spectrum: three samples with
increasing wavelengths, the last one not kept -/
example : Ends (K := ℚ) ⟨0, 2, true⟩ [⟨1, 4, true⟩, ⟨2, 6, false⟩] ∧
    (∀ a ∈ ([⟨0, 2, true⟩, ⟨1, 4, true⟩, ⟨2, 6, false⟩] : List (Samp ℚ)), 0 ≤ a.iv) ∧
    Consec (⟨0, 2, true⟩ : Samp ℚ) ⟨1, 4, true⟩ [⟨0, 2, true⟩, ⟨1, 4, true⟩, ⟨2, 6, false⟩] ∧
    lerp (0 : ℚ) 2 1 4 (1 / 2) = 3 := by
  refine ⟨⟨?_, ?_⟩, ?_, ⟨[], [⟨2, 6, false⟩], rfl⟩, ?_⟩
  · intro a ha
    simp only [List.mem_cons, List.mem_nil_iff, or_false] at ha
    rcases ha with rfl | rfl | rfl <;> norm_num
  · intro a ha
    simp only [List.mem_cons, List.mem_nil_iff, or_false] at ha
    rcases ha with rfl | rfl | rfl <;> norm_num [List.getLast]
  · intro a ha
    simp only [List.mem_cons, List.mem_nil_iff, or_false] at ha
    rcases ha with rfl | rfl | rfl <;> norm_num
  · norm_num [lerp]

end examples

end PydlVerif.C11

/-
C11 property theorems: combine1fiber's inverse variance is conservative.
Model: PydlVerif/Model/Combine.lean; helper lemmas: PydlVerif/Lemmas/Combine.lean.
All statements are over an arbitrary linearly ordered field `K` (exact arithmetic), for all
lengths, masks and answers of the spline fit.  `specs` is the list of spectra as the code
forms them (`specsOf`): each a list of samples (wavelength `x`, working inverse variance `iv`,
`keep` = `fullcombmask`); `lam` an output wavelength, `nm` its `newmask`.
`Ends p0 rest`: the first sample is leftmost and the last rightmost (increasing wavelengths).
-/
import PydlVerif.Lemmas.Combine
import PydlVerif.Lemmas.CombineGroups
import PydlVerif.Lemmas.CombineScale
import PydlVerif.Lemmas.CombineConst
import PydlVerif.Model.CombineFit
import PydlVerif.Props.C09
import PydlVerif.Props.C17
import PydlVerif.Lemmas.IterFit
import PydlVerif.Lemmas.RealTrig
import Mathlib.Data.Rat.Floor
namespace PydlVerif.C11
open PydlVerif PydlVerif.Interp PydlVerif.Combine

section ivar
variable {K : Type} [Field K] [LinearOrder K] [IsStrictOrderedRing K] [FloorRing K]
attribute [local instance] fieldScalar
attribute [-instance] Scalar.instOfNat Scalar.instOfScientific

theorem rawIvarAt_eq (specs : List (List (Samp K))) (lam : K) (nm : Bool) :
    rawIvarAt specs lam nm =
      specs.foldl (fun acc s => match contrib s lam nm with | some c => acc + c | none => acc) 0 := by
  unfold rawIvarAt
  congr 1
  show ((0 : ℕ) : K) = 0
  exact Nat.cast_zero

/-- every spectrum adds a value ≥ 0 (`ivar ≥ 0`) -/
theorem contrib_nonneg (s : List (Samp K)) (lam : K) (nm : Bool) (c : K)
    (hiv : ∀ a ∈ s, 0 ≤ a.iv) (h : contrib s lam nm = some c) : 0 ≤ c :=
  contrib_nonneg' s lam nm c hiv h

/-- **newivar ≥ 0** at every output pixel, for any number of spectra -/
theorem newivar_nonneg (specs : List (List (Samp K))) (lam : K) (nm : Bool)
    (hiv : ∀ s ∈ specs, ∀ a ∈ s, 0 ≤ a.iv) : 0 ≤ rawIvarAt specs lam nm := by
  rw [rawIvarAt_eq]
  exact rawIvarAt_foldl_nonneg specs lam nm hiv 0 (le_refl _)

theorem rawIvarAt_zero (specs : List (List (Samp K))) (lam : K) (nm : Bool)
    (hz : ∀ s ∈ specs, ∀ c, contrib s lam nm = some c → c = 0) : rawIvarAt specs lam nm = 0 := by
  rw [rawIvarAt_eq]
  exact rawIvarAt_foldl_zero specs lam nm hz 0

/-- **exactly 0 outside the data**: an output pixel left of the smallest or right of the largest
wavelength of every spectrum gets inverse variance 0 -/
theorem newivar_zero_outside (specs : List (List (Samp K))) (lam : K) (nm : Bool)
    (hout : ∀ p0 rest, p0 :: rest ∈ specs →
      lam < lmin p0.x (rest.map (·.x)) ∨ lmax p0.x (rest.map (·.x)) < lam) :
    rawIvarAt specs lam nm = 0 := by
  apply rawIvarAt_zero
  intro s hs c hc
  cases s with
  | nil => simp [contrib] at hc
  | cons p0 rest =>
    obtain ⟨h1, h2, _⟩ := contrib_some p0 rest lam nm c hc
    rcases hout p0 rest hs with h | h
    · exact absurd h1 (not_le.2 h)
    · exact absurd h2 (not_le.2 h)

/-- **exactly 0 unless between two kept pixels** (the code's slack stated explicitly): if in every
spectrum no kept sample sits exactly at `lam`, and every pair of neighbouring samples around `lam`
has a member that is not kept, with `lam` farther than the fraction `EPS = 2⁻²³` of the gap from a
kept member, then the output inverse variance is 0 -/
theorem newivar_zero_bad_bracket (specs : List (List (Samp K))) (lam : K) (nm : Bool)
    (hE : ∀ p0 rest, p0 :: rest ∈ specs → Ends p0 rest)
    (hnode : ∀ s ∈ specs, ∀ a ∈ s, a.x = lam → a.keep = false)
    (hbr : ∀ s ∈ specs, ∀ a b, Consec a b s → a.x < lam → lam < b.x →
      ¬ (a.keep = true ∧ b.keep = true) ∧
      (a.keep = true → eps < (lam - a.x) / (b.x - a.x)) ∧
      (b.keep = true → eps < (b.x - lam) / (b.x - a.x))) :
    rawIvarAt specs lam nm = 0 := by
  apply rawIvarAt_zero
  intro s hs c hc
  cases s with
  | nil => simp [contrib] at hc
  | cons p0 rest =>
    by_contra hne
    obtain ⟨_, h⟩ := contrib_nonzero p0 rest (hE p0 rest hs) lam nm c hc hne
    rcases h with ⟨a, b, hcs, ha, hb, h⟩ | ⟨a, hm, hx, hk, _⟩
    · obtain ⟨h1, h2, h3⟩ := hbr _ hs a b hcs ha hb
      rcases h with ⟨ka, kb, _⟩ | ⟨ka, _, hle, _⟩ | ⟨_, kb, hle, _⟩
      · exact h1 ⟨ka, kb⟩
      · exact absurd hle (not_le.2 (h2 ka))
      · exact absurd hle (not_le.2 (h3 kb))
    · rw [hnode _ hs a hm hx] at hk
      exact Bool.noConfusion hk

/-- a spectrum none of whose samples is kept adds 0 (no ordering assumption) -/
theorem contrib_zero_of_no_keep (s : List (Samp K)) (lam : K) (nm : Bool) (c : K)
    (hk : ∀ a ∈ s, a.keep = false) (h : contrib s lam nm = some c) : c = 0 := by
  cases s with
  | nil => simp [contrib] at h
  | cons p0 rest =>
    obtain ⟨_, _, rfl⟩ := contrib_some p0 rest lam nm c h
    rcases interp2 p0 rest lam with ⟨a, b, hc, _, _, e1, _⟩ | ⟨a, hm, _, e1, _⟩
    · rw [e1]
      simp only [vI, hk a hc.mem.1, hk b hc.mem.2, castB_false, mul_zero, lerp_const, zero_mul]
    · rw [e1]
      simp only [vI, hk a hm, castB_false, mul_zero, zero_mul]

/-- **no good pixel ⇒ all zero**: when no sample of any spectrum is kept, or the output pixel's
`newmask` is not set, the inverse variance is 0 -/
theorem newivar_zero_no_good (specs : List (List (Samp K))) (lam : K) (nm : Bool)
    (h : (∀ s ∈ specs, ∀ a ∈ s, a.keep = false) ∨ nm = false) : rawIvarAt specs lam nm = 0 := by
  apply rawIvarAt_zero
  intro s hs c hc
  rcases h with h | h
  · exact contrib_zero_of_no_keep s lam nm c (h s hs) hc
  · subst h
    cases s with
    | nil => simp [contrib] at hc
    | cons p0 rest =>
      obtain ⟨_, _, rfl⟩ := contrib_some p0 rest lam false c hc
      rw [castB_false, mul_zero]

theorem rawIvarAt_single (s : List (Samp K)) (lam : K) (nm : Bool) :
    rawIvarAt [s] lam nm = match contrib s lam nm with | some c => c | none => 0 := by
  rw [rawIvarAt_eq]
  simp only [List.foldl_cons, List.foldl_nil]
  cases contrib s lam nm with
  | none => rfl
  | some c => exact zero_add c

/-- **single spectrum: a non-zero output inverse variance is the linear interpolation of the input
one** between the two neighbouring samples, both kept (or the value of the kept sample exactly at
`lam`); the only other non-zero values are inside the code's `EPS` slack next to a kept sample, where the
interpolation runs towards 0 -/
theorem newivar_single_is_interp (p0 : Samp K) (rest : List (Samp K)) (hE : Ends p0 rest) (lam : K) (nm : Bool)
    (hne : rawIvarAt [p0 :: rest] lam nm ≠ 0) :
    nm = true ∧
    ((∃ a b, Consec a b (p0 :: rest) ∧ a.x < lam ∧ lam < b.x ∧
        ((a.keep = true ∧ b.keep = true ∧ rawIvarAt [p0 :: rest] lam nm = lerp a.x a.iv b.x b.iv lam) ∨
         (a.keep = true ∧ b.keep = false ∧ (lam - a.x) / (b.x - a.x) ≤ eps ∧
            rawIvarAt [p0 :: rest] lam nm = lerp a.x a.iv b.x 0 lam) ∨
         (a.keep = false ∧ b.keep = true ∧ (b.x - lam) / (b.x - a.x) ≤ eps ∧
            rawIvarAt [p0 :: rest] lam nm = lerp a.x 0 b.x b.iv lam))) ∨
     (∃ a, a ∈ p0 :: rest ∧ a.x = lam ∧ a.keep = true ∧ rawIvarAt [p0 :: rest] lam nm = a.iv)) := by
  rw [rawIvarAt_single] at hne ⊢
  cases hc : contrib (p0 :: rest) lam nm with
  | none => rw [hc] at hne; exact absurd rfl hne
  | some c =>
    rw [hc] at hne
    exact contrib_nonzero p0 rest hE lam nm c hc hne

/-- **… and never above its local maximum**: a non-zero output value is at most the larger of the
two neighbouring input values (`ivar ≥ 0`) -/
theorem newivar_le_local_max (p0 : Samp K) (rest : List (Samp K)) (hE : Ends p0 rest) (lam : K) (nm : Bool)
    (hiv : ∀ a ∈ p0 :: rest, 0 ≤ a.iv) (hne : rawIvarAt [p0 :: rest] lam nm ≠ 0) :
    (∃ a b, Consec a b (p0 :: rest) ∧ a.x < lam ∧ lam < b.x ∧ rawIvarAt [p0 :: rest] lam nm ≤ max a.iv b.iv) ∨
    (∃ a, a ∈ p0 :: rest ∧ a.x = lam ∧ rawIvarAt [p0 :: rest] lam nm = a.iv) := by
  obtain ⟨_, h⟩ := newivar_single_is_interp p0 rest hE lam nm hne
  rcases h with ⟨a, b, hcs, ha, hb, h⟩ | ⟨a, hm, hx, _, e⟩
  · left
    refine ⟨a, b, hcs, ha, hb, ?_⟩
    have h0a := hiv a hcs.mem.1
    have h0b := hiv b hcs.mem.2
    rcases h with ⟨_, _, e⟩ | ⟨_, _, _, e⟩ | ⟨_, _, _, e⟩
    · rw [e]; exact lerp_le_max _ _ _ _ _ (le_of_lt ha) hb
    · rw [e]
      exact le_trans (lerp_le_max _ _ _ _ _ (le_of_lt ha) hb) (max_le_max (le_refl _) h0b)
    · rw [e]
      exact le_trans (lerp_le_max _ _ _ _ _ (le_of_lt ha) hb) (max_le_max h0a (le_refl _))
  · right; exact ⟨a, hm, hx, e⟩

/-! ### after the bad-region growth and the scrub -/

/-- the bad-region growth only sets values to 0 -/
theorem growBad_cases (a : List K) (p : Nat) (hp : p < a.length) :
    (growBad a)[p]'(by rw [growBad_length]; exact hp) = 0 ∨
    (growBad a)[p]'(by rw [growBad_length]; exact hp) = a[p] := growBad_get a p hp

/-- every returned inverse variance is 0 or the value `rawIvarAt` of its pixel -/
theorem final_ivar_cases (classify : K → Val K) (oneD : Bool) (nspec ncol : Nat) (x newx : List K) (st : St K)
    (p : Nat) (hp : p < ((finishPairs classify oneD nspec ncol x newx st).map (·.2)).length) :
    ((finishPairs classify oneD nspec ncol x newx st).map (·.2))[p] = 0 ∨
    ((finishPairs classify oneD nspec ncol x newx st).map (·.2))[p] =
      rawIvarAt (specsOf oneD nspec ncol x (workIvar oneD x.length st.ivar) st.fcm)
        (newx.getD p 0) (st.mask.getD p false) := by
  have h0 : ((0 : ℕ) : K) = 0 := Nat.cast_zero
  simp only [finishPairs, List.length_map, scrub_length, growBad_length] at hp
  have hp2 : p < (rawIvar (specsOf oneD nspec ncol x (workIvar oneD x.length st.ivar) st.fcm) newx st.mask).length :=
    lt_of_lt_of_le hp (min_le_right _ _)
  have hp3 : p < newx.length := by simpa [rawIvar] using hp2
  simp only [finishPairs, scrub, List.getElem_map, List.getElem_zipWith]
  split
  · rcases growBad_get _ p hp2 with h | h
    · left; exact h
    · right; rw [h]; simp [rawIvar, List.getElem_range]
  · left; exact h0

theorem finish_ok (mean : List K → K) (erf : K → K) (classify : K → Val K)
    (oneD : Bool) (nspec ncol : Nat) (x newx : List K) (m : Method) (st : St K) (f v : List K)
    (h : finish mean erf classify oneD nspec ncol x newx m st = .ok (f, v)) :
    v = (finishPairs classify oneD nspec ncol x newx st).map (·.2) ∧
    aesthIf mean erf ((finishPairs classify oneD nspec ncol x newx st).map (·.1))
      ((finishPairs classify oneD nspec ncol x newx st).map (·.2)) m = .ok f := by
  unfold finish at h
  simp only [bind, Except.bind, pure, Except.pure] at h
  cases hA : aesthIf mean erf ((finishPairs classify oneD nspec ncol x newx st).map (·.1))
      ((finishPairs classify oneD nspec ncol x newx st).map (·.2)) m with
  | error e => rw [hA] at h; cases h
  | ok f' =>
    rw [hA] at h
    simp only [Except.ok.injEq, Prod.mk.injEq] at h
    exact ⟨h.2.symm, by rw [h.1]⟩

/-- **the returned inverse variance is ≥ 0** (`finish`, any state of the group loop; 1-D input needs
its own `ivar ≥ 0`, stacked input is clipped by the code, missing `objivar` means unit weights) -/
theorem final_ivar_nonneg (mean : List K → K) (erf : K → K) (classify : K → Val K)
    (oneD : Bool) (nspec ncol : Nat) (x newx : List K) (m : Method) (st : St K) (f v : List K)
    (hiv : oneD = true → ∀ l, st.ivar = some l → ∀ a ∈ l, 0 ≤ a)
    (h : finish mean erf classify oneD nspec ncol x newx m st = .ok (f, v)) :
    ∀ a ∈ v, 0 ≤ a := by
  have hv := (finish_ok mean erf classify oneD nspec ncol x newx m st f v h).1
  subst hv
  intro a ha
  obtain ⟨p, hp, rfl⟩ := List.getElem_of_mem ha
  have hw : ∀ a ∈ workIvar oneD x.length st.ivar, 0 ≤ a := by
    intro a ha
    unfold workIvar at ha
    cases hs : st.ivar with
    | none =>
      rw [hs] at ha
      simp only [List.mem_replicate] at ha
      rw [ha.2]
      show (0 : K) ≤ ((1 : ℕ) : K)
      rw [Nat.cast_one]; exact zero_le_one
    | some l =>
      rw [hs] at ha
      cases oneD with
      | true => exact hiv rfl l hs a (by simpa using ha)
      | false =>
        simp only [Bool.false_eq_true, if_false, List.mem_map] at ha
        obtain ⟨b, _, rfl⟩ := ha
        show 0 ≤ b * castB (decide (((0 : ℕ) : K) < b))
        rw [Nat.cast_zero]
        by_cases hb : 0 < b
        · simp only [hb, decide_true, castB_true, mul_one]; exact le_of_lt hb
        · simp only [hb, decide_false, castB_false, mul_zero]; exact le_refl _
  rcases final_ivar_cases classify oneD nspec ncol x newx st p hp with h | h
  · rw [h]
  · rw [h]
    apply newivar_nonneg
    intro s hs a ha
    unfold specsOf at hs
    simp only [List.mem_map, List.mem_filter] at hs
    obtain ⟨idx, _, rfl⟩ := hs
    simp only [List.mem_map] at ha
    obtain ⟨i, _, rfl⟩ := ha
    simp only
    by_cases hi : i < (workIvar oneD x.length st.ivar).length
    · rw [List.getD_eq_getElem?_getD, List.getElem?_eq_getElem hi]; exact hw _ (List.getElem_mem hi)
    · rw [List.getD_eq_getElem?_getD, List.getElem?_eq_none (not_lt.1 hi)]
      show (0 : K) ≤ ((0 : ℕ) : K)
      rw [Nat.cast_zero]

/-- **the returned inverse variance is 0 wherever `rawIvarAt` is 0**: together with
`newivar_zero_outside`, `newivar_zero_bad_bracket`, `newivar_zero_no_good` this is the zero pattern of
the function's second output -/
theorem final_ivar_zero (classify : K → Val K) (oneD : Bool) (nspec ncol : Nat) (x newx : List K) (st : St K)
    (p : Nat) (hp : p < ((finishPairs classify oneD nspec ncol x newx st).map (·.2)).length)
    (hz : rawIvarAt (specsOf oneD nspec ncol x (workIvar oneD x.length st.ivar) st.fcm)
        (newx.getD p 0) (st.mask.getD p false) = 0) :
    ((finishPairs classify oneD nspec ncol x newx st).map (·.2))[p] = 0 := by
  rcases final_ivar_cases classify oneD nspec ncol x newx st p hp with h | h
  · exact h
  · rw [h, hz]

/-- lengths: both outputs of `finish` have the grid's length when `newflux` has it -/
theorem finish_length (mean : List K → K) (erf : K → K) (classify : K → Val K)
    (oneD : Bool) (nspec ncol : Nat) (x newx : List K) (m : Method) (st : St K) (f v : List K)
    (hfl : st.flux.length = newx.length)
    (h : finish mean erf classify oneD nspec ncol x newx m st = .ok (f, v)) :
    v.length = newx.length := by
  rw [(finish_ok mean erf classify oneD nspec ncol x newx m st f v h).1]
  simp [finishPairs, scrub_length, growBad_length, rawIvar, hfl]

end ivar

/-! ### the scrub, in the explicit value type -/

section scrub
variable {α : Type} [Scalar α]

/-- **after the scrub every value is finite**: whatever the classifier (`np.isfinite` at IEEE,
"everything" in an exact field), as long as it calls 0 finite, both members of every scrubbed pixel
classify as `.fin` -/
theorem scrub_finite (classify : α → Val α) (h0 : isFin classify (0 : α) = true) (flux ivar : List α) :
    ∀ q ∈ scrub classify flux ivar, isFin classify q.1 = true ∧ isFin classify q.2 = true := by
  intro q hq
  unfold scrub at hq
  obtain ⟨i, hi, rfl⟩ := List.getElem_of_mem hq
  simp only [List.getElem_zipWith]
  split
  · rename_i h
    simpa using h
  · exact ⟨h0, h0⟩

end scrub

/-! ### the shift of preprocess_spectra -/

section shift
variable {K : Type} [Field K] [LinearOrder K] [IsStrictOrderedRing K] [FloorRing K]
attribute [local instance] fieldScalar
attribute [-instance] Scalar.instOfNat Scalar.instOfScientific

theorem interpGo_shift (s lam : K) : ∀ (rest : List (K × K)) (x0 f0 : K),
    interpGo lam (x0 - s) f0 (rest.map fun q => (q.1 - s, q.2)) = interpGo (lam + s) x0 f0 rest := by
  intro rest
  induction rest with
  | nil => intro x0 f0; simp [interpGo]
  | cons q rest ih =>
    intro x0 f0
    obtain ⟨x1, f1⟩ := q
    simp only [List.map_cons, interpGo]
    have h1 : lam < x1 - s ↔ lam + s < x1 := lt_sub_iff_add_lt
    have h2 : Scalar.beq (x0 - s) lam = Scalar.beq x0 (lam + s) := by
      have : (x0 - s = lam) ↔ (x0 = lam + s) := sub_eq_iff_eq_add
      simp [Scalar.beq, this]
    by_cases h : lam + s < x1
    · simp only [h1.2 h, h, if_true, h2]
      split
      · rfl
      · have e1 : x1 - s - (x0 - s) = x1 - x0 := by ring
        have e2 : lam - (x0 - s) = lam + s - x0 := by ring
        rw [e1, e2]
    · have : ¬ lam < x1 - s := fun h' => h (h1.1 h')
      simp only [this, h, if_false]
      exact ih x1 f1

/-- **np.interp commutes with a shift of the abscissae**: sampling the shifted spectrum at `lam` is
sampling the original at `lam + s` - a feature at log-wavelength `L` is found at `L - s` -/
theorem interp_shift (s lam x0 f0 : K) (rest : List (K × K)) :
    npInterp (x0 - s) f0 (rest.map fun q => (q.1 - s, q.2)) lam = npInterp x0 f0 rest (lam + s) := by
  unfold npInterp
  have h1 : lam < x0 - s ↔ lam + s < x0 := lt_sub_iff_add_lt
  by_cases h : lam + s < x0
  · simp [h1.2 h, h]
  · have : ¬ lam < x0 - s := fun h' => h (h1.1 h')
    simp only [this, h, if_false]
    exact interpGo_shift s lam rest x0 f0

/-- **preprocess_spectra moves a feature at `L` to `L - s`** (`s = log10(1+z)` as numpy computed it):
linear interpolation of any per-pixel quantity `f` on the shifted wavelengths `shiftRow loglam s`
at `L - s` equals its interpolation on the original wavelengths at `L` (all `loglam > 0`) -/
theorem shiftRow_feature (loglam f : List K) (s L : K) (hpos : ∀ l ∈ loglam, 0 < l) :
    interpL ((shiftRow loglam s).zip f) (L - s) = interpL (loglam.zip f) L := by
  have hs : shiftRow loglam s = loglam.map (fun l => l - s) := by
    unfold shiftRow
    congr 1
    apply List.filter_eq_self.2
    intro l hl
    simp only [decide_eq_true_eq]
    show ((0 : ℕ) : K) < l
    rw [Nat.cast_zero]; exact hpos l hl
  rw [hs]
  cases loglam with
  | nil => simp [interpL]
  | cons l0 ls =>
    cases f with
    | nil => simp [interpL]
    | cons f0 fs =>
      simp only [List.map_cons, List.zip_cons_cons, interpL]
      have : (ls.map fun l => l - s).zip fs = (ls.zip fs).map fun q => (q.1 - s, q.2) := by
        rw [List.zip_map_left]
        rfl
      rw [this, interp_shift s (L - s) l0 f0 (ls.zip fs)]
      congr 1; ring

end shift

/-! ### the grouping by `maxsep` (extension round) -/

section groups
variable {K : Type} [Field K] [LinearOrder K] [IsStrictOrderedRing K] [FloorRing K]
attribute [local instance] fieldScalar
attribute [-instance] Scalar.instOfNat Scalar.instOfScientific

/-- wavelength of the `i`-th sorted good pixel -/
def wv (x : List K) (isort : List Nat) (i : Nat) : K := x.getD (isort.getD i 0) 0

/-- **the groups are a partition of the sorted good pixels into maximal runs of gaps ≤ maxsep**
(`maxsep > 0`, at least one good pixel; NO sortedness needed - the statement is about neighbours in the order
`isort`): `groupsOf` does not raise; its groups are the slices `isort[s : e+1]` of cut positions `(s, e)` that tile
`0 .. ngood-1` (each cut starts right after the previous one, so every good pixel lies in exactly one group and the
groups, concatenated, are `isort` again); inside a group neighbours are at most `maxsep` apart; the gap in front
of every group but the first, and behind every group but the last, is larger than `maxsep` -/
theorem groups_partition (x : List K) (isort : List Nat) (maxsep : K) (hm : 0 < maxsep) (hne : isort ≠ []) :
    ∃ cuts : List (Nat × Nat),
      groupsOf x isort maxsep = .ok (cuts.map (piece isort)) ∧
      (cuts.map (piece isort)).flatten = isort ∧
      Tiles 0 cuts isort.length ∧
      ∀ p ∈ cuts, p.1 ≤ p.2 ∧ p.2 < isort.length ∧
        (∀ i, p.1 ≤ i → i < p.2 → wv x isort (i + 1) - wv x isort i ≤ maxsep) ∧
        (p.1 = 0 ∨ maxsep < wv x isort p.1 - wv x isort (p.1 - 1)) ∧
        (p.2 + 1 = isort.length ∨ maxsep < wv x isort (p.2 + 1) - wv x isort p.2) := by
  obtain ⟨i0, ir, rfl⟩ := List.exists_cons_of_ne_nil hne
  set w0 := x.getD i0 0 with hw0
  set ws := ir.map (fun i => x.getD i 0) with hws
  have hlen : ws.length = ir.length := by simp [hws]
  set n := ir.length with hn
  set pad := padwave w0 ws maxsep with hpad
  -- the gap flags
  let g : Nat → Bool := fun i => decide (maxsep < pad.getD (i + 1) 0 - pad.getD i 0)
  have hW : ∀ i, i < n + 1 → (w0 :: ws).getD i 0 = wv x (i0 :: ir) i := by
    intro i hi
    unfold wv
    cases i with
    | zero => rfl
    | succ j =>
      have hj : j < ir.length := by omega
      simp only [hws, List.getD_eq_getElem?_getD, List.getElem?_cons_succ, List.getElem?_map,
        List.getElem?_eq_getElem hj, Option.map_some, Option.getD_some]
  have hmid : ∀ i, i < n + 1 → pad.getD (i + 1) 0 = wv x (i0 :: ir) i := by
    intro i hi
    rw [hpad, pad_get_mid _ _ _ _ _ (by omega), hW i hi]
  have hgt : ∀ i, g i = true → maxsep < pad.getD (i + 1) 0 - pad.getD i 0 := fun i h => of_decide_eq_true h
  have hgf : ∀ i, g i = false → pad.getD (i + 1) 0 - pad.getD i 0 ≤ maxsep := fun i h => not_lt.1 (of_decide_eq_false h)
  have hg0 : g 0 = true := by
    apply decide_eq_true
    rw [hmid 0 (by omega), hpad, pad_get_zero, ← hW 0 (by omega)]
    have := lmin_le_init w0 ws
    simp only [List.getD_cons_zero]
    linarith
  have hgn : g (n + 1) = true := by
    apply decide_eq_true
    rw [hmid n (by omega), hpad]
    have e : n + 1 + 1 = ws.length + 1 + 1 := by omega
    rw [e, pad_get_last, ← hW n (by omega)]
    have hl : (w0 :: ws).getD n 0 ≤ lmax w0 ws := by
      cases hnn : n with
      | zero => simpa using lmax_ge_init w0 ws
      | succ j =>
        have hj : j < ws.length := by omega
        rw [List.getD_cons_succ, List.getD_eq_getElem?_getD, List.getElem?_eq_getElem hj, Option.getD_some]
        exact lmax_ge_mem w0 ws _ (List.getElem_mem hj)
    linarith
  have hcut := cuts_tiles g n 0 0 (le_refl _) (by simpa using hgn)
  have ha : ig1 pad (i0 :: ir).length maxsep = 0 :: (List.range' (0 + 1) n).filter g := by
    unfold ig1
    simp only [scalar_lit, Nat.cast_zero]
    show List.filter g (List.range (n + 1)) = _
    rw [List.range_eq_range', List.range'_succ, List.filter_cons, hg0]
    rfl
  have hb : ig2 pad (i0 :: ir).length maxsep = (List.range' 0 (n + 1)).filter (fun i => g (i + 1)) := by
    unfold ig2
    simp only [scalar_lit, Nat.cast_zero]
    show List.filter (fun i => g (i + 1)) (List.range (n + 1)) = _
    rw [List.range_eq_range']
  obtain ⟨hl, ht, hc⟩ := hcut
  refine ⟨(0 :: (List.range' (0 + 1) n).filter g).zip ((List.range' 0 (n + 1)).filter (fun i => g (i + 1))), ?_, ?_, ?_, ?_⟩
  · have hgo : groupsOf x (i0 :: ir) maxsep =
        if (ig1 pad (i0 :: ir).length maxsep).length ≠ (ig2 pad (i0 :: ir).length maxsep).length then .error "ValueError"
        else .ok (List.zipWith (fun s e => ((i0 :: ir).drop s).take (e + 1 - s)) (ig1 pad (i0 :: ir).length maxsep)
          (ig2 pad (i0 :: ir).length maxsep)) := by
      unfold groupsOf
      simp only [List.map_cons, scalar_lit, Nat.cast_zero]
      rfl
    rw [hgo, ha, hb]
    simp only [hl, ne_eq, not_true_eq_false, if_false]
    congr 1
    rw [List.zip, List.map_zipWith]
    rfl
  · have := tiles_flatten (i0 :: ir) _ _ _ ht
    rw [this]
    simp only [Nat.sub_zero, List.drop_zero]
    apply List.take_of_length_le
    simp only [List.length_cons]; omega
  · simpa using ht
  · intro p hp
    obtain ⟨a1, a2, a3, a4, a5⟩ := hc p hp
    have hp2 : p.2 < n + 1 := by
      have := (List.of_mem_zip hp).2
      simp only [List.mem_filter, List.mem_range'_1] at this
      omega
    have hp1 : p.1 ≤ p.2 := by
      -- from the tiling
      have : ∀ (cuts : List (Nat × Nat)) (s N : Nat), Tiles s cuts N → ∀ q ∈ cuts, q.1 ≤ q.2 := by
        intro cuts
        induction cuts with
        | nil => intro s N _ q hq; cases hq
        | cons c r ih =>
          intro s N h q hq
          rcases List.mem_cons.1 hq with rfl | hq
          · exact h.2.1
          · exact ih _ _ h.2.2 q hq
      exact this _ _ _ ht p hp
    refine ⟨hp1, by simpa using hp2, ?_, ?_, ?_⟩
    · intro i h1 h2
      have := hgf _ (a5 i h1 (Nat.zero_le _) h2)
      rw [hmid (i + 1) (by omega), hmid i (by omega)] at this
      exact this
    · rcases a4 with h | h
      · left; exact h
      · by_cases h0 : p.1 = 0
        · left; exact h0
        · right
          obtain ⟨j, hj⟩ := Nat.exists_eq_succ_of_ne_zero h0
          rw [hj] at h ⊢
          have h := hgt _ h
          rw [hmid (j + 1) (by omega), hmid j (by omega)] at h
          simpa using h
    · by_cases hlast : p.2 + 1 = (i0 :: ir).length
      · left; exact hlast
      · right
        have h := hgt _ a3
        have hlt : p.2 + 1 < n + 1 := by
          simp only [List.length_cons] at hlast; omega
        rw [hmid (p.2 + 1) hlt, hmid p.2 (by omega)] at h
        exact h

end groups

/-! ### preprocess_spectra: every object is de-redshifted by its own shift (extension round) -/

section preprocess
variable {K : Type} [Field K] [LinearOrder K] [IsStrictOrderedRing K] [FloorRing K]
attribute [local instance] fieldScalar
attribute [-instance] Scalar.instOfNat Scalar.instOfScientific

theorem mapM_ok {β γ : Type} (f : β → Except String γ) : ∀ (l : List β) (outs : List γ), l.mapM f = .ok outs →
    outs.length = l.length ∧ ∀ k (hk : k < l.length) (hk' : k < outs.length), f l[k] = .ok outs[k] := by
  intro l
  induction l with
  | nil =>
    intro outs h
    simp only [List.mapM_nil, pure, Except.pure, Except.ok.injEq] at h
    subst h
    exact ⟨rfl, fun k hk => absurd hk (by simp)⟩
  | cons b l ih =>
    intro outs h
    simp only [List.mapM_cons, bind, Except.bind, pure, Except.pure] at h
    split at h
    · cases h
    · rename_i o ho
      split at h
      · cases h
      · rename_i os hos
        simp only [Except.ok.injEq] at h
        subst h
        obtain ⟨hl, hk⟩ := ih os hos
        refine ⟨by simp [hl], ?_⟩
        intro k hk1 hk2
        cases k with
        | zero => simpa using ho
        | succ j =>
          simp only [List.getElem_cons_succ]
          exact hk j (by simpa using hk1) (by simpa using hk2)

theorem preprocessInput_x (loglam logshift : List K) (flux ivar : List (List K)) (newx : List K) (m : Method) (k : Nat) :
    (preprocessInput loglam logshift flux ivar newx m k).x = shiftRow loglam (logshift.getD k 0) := by
  simp only [preprocessInput, scalar_lit, Nat.cast_zero]

/-- **index bookkeeping of the loop over the objects**: when `preprocess_spectra` returns, it returns one (flux, ivar) row
per object, and row `k` is what `combine1fiber` answers for the arguments of object `k` - whose wavelengths are
`loglam[loglam > 0] - logshift[k]`, flux `flux[k, loglam > 0]`, inverse variance `ivar[k, loglam > 0]`: object `k` is shifted
by ITS OWN `log10(1+z_k)`, whatever the other objects are (dead fibres included: they are ordinary calls) -/
theorem preprocess_object (c1f : Input K → Combine.R (List K × List K)) (loglam logshift : List K)
    (flux ivar : List (List K)) (newx : List K) (m : Method) (outs : List (List K × List K))
    (h : preprocessSpectra c1f loglam logshift flux ivar newx m = .ok outs) :
    outs.length = flux.length ∧
    ∀ k (hk : k < flux.length) (hk' : k < outs.length),
      c1f (preprocessInput loglam logshift flux ivar newx m k) = .ok outs[k] ∧
      (preprocessInput loglam logshift flux ivar newx m k).x = shiftRow loglam (logshift.getD k 0) ∧
      (preprocessInput loglam logshift flux ivar newx m k).flux = pickRow loglam (flux.getD k []) ∧
      (preprocessInput loglam logshift flux ivar newx m k).ivar = some (pickRow loglam (ivar.getD k [])) ∧
      (preprocessInput loglam logshift flux ivar newx m k).newx = newx := by
  unfold preprocessSpectra at h
  split at h
  · cases h
  · obtain ⟨hl, hk⟩ := mapM_ok _ _ _ h
    simp only [List.length_range] at hl hk
    refine ⟨hl, fun k hk1 hk2 => ⟨?_, preprocessInput_x _ _ _ _ _ _ _, rfl, rfl, rfl⟩⟩
    have := hk k hk1 hk2
    simpa using this

/-- **de-redshift, every object**: for every object `k`, linear interpolation of any per-pixel quantity `f` on the
wavelengths handed to `combine1fiber` for that object, at `L - logshift[k]`, equals its interpolation on the observed
wavelengths at `L` (all `loglam > 0`): a feature observed at `L` is presented at `L - log10(1+z_k)` - `shiftRow_feature`
for the argument of call `k` -/
theorem preprocess_feature (loglam logshift : List K) (flux ivar : List (List K)) (newx : List K) (m : Method)
    (k : Nat) (f : List K) (L : K) (hpos : ∀ l ∈ loglam, 0 < l) :
    interpL ((preprocessInput loglam logshift flux ivar newx m k).x.zip f) (L - logshift.getD k 0) =
      interpL (loglam.zip f) L := by
  rw [preprocessInput_x]
  exact shiftRow_feature loglam f (logshift.getD k 0) L hpos

end preprocess

/-! ### the scaling law of the inverse variance -/

section scale
variable {K : Type} [Field K] [LinearOrder K] [IsStrictOrderedRing K] [FloorRing K]
attribute [local instance] fieldScalar
attribute [-instance] Scalar.instOfNat Scalar.instOfScientific

/-- the samples with every inverse variance multiplied by `k` -/
def scaleIv (k : K) (s : List (Samp K)) : List (Samp K) := s.map fun p => ⟨p.x, k * p.iv, p.keep⟩

theorem interpGo_scale (k lam : K) : ∀ (rest : List (K × K)) (x0 f0 : K),
    interpGo lam x0 (k * f0) (rest.map fun q => (q.1, k * q.2)) = k * interpGo lam x0 f0 rest := by
  intro rest
  induction rest with
  | nil => intro x0 f0; simp [interpGo]
  | cons q rest ih =>
    intro x0 f0
    obtain ⟨x1, f1⟩ := q
    simp only [List.map_cons, interpGo]
    split
    · split
      · rfl
      · ring
    · exact ih x1 f1

/-- **scaling law, one spectrum**: multiplying the input inverse variance by `k` (`k = 1/c²`)
multiplies the contribution by `k`; which pixels take part does not change -/
theorem contrib_scale (k : K) (s : List (Samp K)) (lam : K) (nm : Bool) :
    contrib (scaleIv k s) lam nm = (contrib s lam nm).map (k * ·) := by
  cases s with
  | nil => simp [scaleIv, contrib]
  | cons p0 rest =>
    have hx : (List.map (fun p => p.x) (List.map (fun p : Samp K => (⟨p.x, k * p.iv, p.keep⟩ : Samp K)) rest))
        = List.map (fun p => p.x) rest := by simp [List.map_map, Function.comp_def]
    have hm : mkPts (scaleIv k (p0 :: rest)) = mkPts (p0 :: rest) := by
      simp [mkPts, scaleIv, List.map_map, Function.comp_def]
    have hi : interpL (ivPts (scaleIv k (p0 :: rest))) lam = k * interpL (ivPts (p0 :: rest)) lam := by
      simp only [scaleIv, ivPts, List.map_cons, List.map_map, interpL, npInterp]
      have e : (List.map ((fun p : Samp K => (p.x, p.iv * castB p.keep)) ∘ fun p => (⟨p.x, k * p.iv, p.keep⟩ : Samp K)) rest)
          = (rest.map fun p => (p.x, p.iv * castB p.keep)).map fun q => (q.1, k * q.2) := by
        simp [List.map_map, Function.comp_def, mul_assoc]
      rw [e, mul_assoc, interpGo_scale]
      split
      · rfl
      · rfl
    unfold contrib
    simp only [scaleIv, List.map_cons, hx]
    split
    · simp only [Option.map_some, Option.some.injEq]
      have hi' := hi
      have hm' := hm
      simp only [scaleIv, List.map_cons] at hi' hm'
      rw [hi', hm']
      ring
    · rfl

/-- **scaling law, all spectra**: `(ivar·k) ↦ (newivar·k)` before the bad-region growth -/
theorem newivar_scale (k : K) (specs : List (List (Samp K))) (lam : K) (nm : Bool) :
    rawIvarAt (specs.map (scaleIv k)) lam nm = k * rawIvarAt specs lam nm := by
  rw [rawIvarAt_eq, rawIvarAt_eq]
  have : ∀ (acc : K), (specs.map (scaleIv k)).foldl
      (fun acc s => match contrib s lam nm with | some c => acc + c | none => acc) (k * acc) =
      k * specs.foldl (fun acc s => match contrib s lam nm with | some c => acc + c | none => acc) acc := by
    induction specs with
    | nil => intro acc; rfl
    | cons s specs ih =>
      intro acc
      simp only [List.map_cons, List.foldl_cons, contrib_scale]
      cases contrib s lam nm with
      | none => exact ih acc
      | some c =>
        simp only [Option.map_some]
        rw [← mul_add]; exact ih (acc + c)
  have h := this 0
  rw [mul_zero] at h
  exact h

end scale

/-! ### the group loop: lengths, constant spectrum -/

section loop
variable {K : Type} [Field K] [LinearOrder K] [IsStrictOrderedRing K] [FloorRing K]
attribute [local instance] fieldScalar
attribute [-instance] Scalar.instOfNat Scalar.instOfScientific

theorem scatter_length {β : Type} (arr : List β) (idx : List Nat) (vals : List β) :
    (scatter arr idx vals).length = arr.length := by
  unfold scatter
  generalize idx.zip vals = l
  induction l generalizing arr with
  | nil => rfl
  | cons iv l ih => simp only [List.foldl_cons]; rw [ih]; simp

theorem scatterConst_length {β : Type} (arr : List β) (idx : List Nat) (v : β) :
    (scatterConst arr idx v).length = arr.length := by
  unfold scatterConst
  induction idx generalizing arr with
  | nil => rfl
  | cons i l ih => simp only [List.foldl_cons]; rw [ih]; simp

/-- one pass of the group loop keeps the length of `newflux` -/
theorem groupStep_flux_length (fit : Nat → K → List K → List K → Option (List K) → Combine.R (Fit K))
    (bk : K) (x y newx : List K) (st st' : St K) (k : Nat) (ss : List Nat)
    (h : groupStep fit bk x y newx st k ss = .ok st') : st'.flux.length = st.flux.length := by
  unfold groupStep at h
  simp only [bind, Except.bind, pure, Except.pure] at h
  repeat' split at h
  all_goals first
    | (cases h; first | rfl | simp only [scatter_length])
    | cases h

theorem foldlM_inv {σ β : Type} (f : σ → β → Except String σ) (P : σ → Prop)
    (hstep : ∀ s b s', f s b = .ok s' → P s → P s') :
    ∀ (l : List β) (s s' : σ), l.foldlM f s = .ok s' → P s → P s' := by
  intro l
  induction l with
  | nil => intro s s' h hp; simp only [List.foldlM_nil, pure, Except.pure, Except.ok.injEq] at h; rw [← h]; exact hp
  | cons b l ih =>
    intro s s' h hp
    simp only [List.foldlM_cons, bind, Except.bind] at h
    split at h
    · cases h
    · rename_i s1 hs1
      exact ih s1 s' h (hstep s b s1 hs1 hp)

theorem groupLoop_flux_length (fit : Nat → K → List K → List K → Option (List K) → Combine.R (Fit K))
    (bk : K) (x y newx : List K) (st st' : St K) (groups : List (List Nat))
    (h : groupLoop fit bk x y newx st groups = .ok st') : st'.flux.length = st.flux.length := by
  unfold groupLoop at h
  exact foldlM_inv _ (fun s => s.flux.length = st.flux.length)
    (fun s b s' hs hp => by rw [groupStep_flux_length fit bk x y newx s s' b _ hs]; exact hp) _ st st' h rfl

/-- **length**: whenever `combine1fiber` returns, its inverse variance has the output grid's length
(any fit, any argsort, any kernels) -/
theorem combine_length (fit : Nat → K → List K → List K → Option (List K) → Combine.R (Fit K))
    (argsort : List K → List Nat) (med mean : List K → K) (erf : K → K) (classify : K → Val K)
    (inp : Input K) (f v : List K)
    (h : combine1fiber fit argsort med mean erf classify inp = .ok (f, v)) :
    v.length = inp.newx.length := by
  unfold combine1fiber at h
  simp only [bind, Except.bind, pure, Except.pure] at h
  repeat' split at h
  all_goals first
    | (cases h; simp; done)
    | (rename_i st hst
       refine finish_length _ _ _ _ _ _ _ _ _ _ _ _ ?_ h
       rw [groupLoop_flux_length _ _ _ _ _ _ _ _ hst]; simp; done)
    | cases h

/-- lengths: the FLUX returned by `finish` has the grid's length when `newflux` has it (through the scrub and every
branch of `aesthetics`, including `'damp'`) -/
theorem finish_flux_length (mean : List K → K) (erf : K → K) (classify : K → Val K)
    (oneD : Bool) (nspec ncol : Nat) (x newx : List K) (m : Method) (st : St K) (f v : List K)
    (hfl : st.flux.length = newx.length)
    (h : finish mean erf classify oneD nspec ncol x newx m st = .ok (f, v)) :
    f.length = newx.length := by
  have h2 := (finish_ok mean erf classify oneD nspec ncol x newx m st f v h).2
  rw [aesthIf_length mean erf _ _ m f (by simp) h2]
  simp [finishPairs, scrub_length, growBad_length, rawIvar, hfl]

/-- **length, both outputs**: whenever `combine1fiber` returns, flux and inverse variance have the output grid's
length (any fit, any argsort, any kernels, every aesthetics method) -/
theorem combine_flux_length (fit : Nat → K → List K → List K → Option (List K) → Combine.R (Fit K))
    (argsort : List K → List Nat) (med mean : List K → K) (erf : K → K) (classify : K → Val K)
    (inp : Input K) (f v : List K)
    (h : combine1fiber fit argsort med mean erf classify inp = .ok (f, v)) :
    f.length = inp.newx.length ∧ v.length = inp.newx.length := by
  refine ⟨?_, combine_length fit argsort med mean erf classify inp f v h⟩
  unfold combine1fiber at h
  simp only [bind, Except.bind, pure, Except.pure] at h
  repeat' split at h
  all_goals first
    | (cases h; simp; done)
    | (rename_i st hst
       refine finish_flux_length _ _ _ _ _ _ _ _ _ _ _ _ ?_ h
       rw [groupLoop_flux_length _ _ _ _ _ _ _ _ hst]; simp; done)
    | cases h

/-! ### `fullcombmask` stays False outside the groups (extension round) -/

theorem scatter_getD_not_mem {β : Type} (arr : List β) (idx : List Nat) (vals : List β) (i : Nat) (d : β)
    (hi : i ∉ idx) : (scatter arr idx vals).getD i d = arr.getD i d := by
  unfold scatter
  have : ∀ (l : List (Nat × β)) (arr : List β), (∀ q ∈ l, q.1 ≠ i) →
      (l.foldl (fun a (iv : Nat × β) => a.set iv.1 iv.2) arr).getD i d = arr.getD i d := by
    intro l
    induction l with
    | nil => intro arr _; rfl
    | cons q l ih =>
      intro arr hq
      simp only [List.foldl_cons]
      rw [ih _ (fun q' hq' => hq q' (List.mem_cons_of_mem _ hq'))]
      simp only [List.getD_eq_getElem?_getD]
      rw [List.getElem?_set_ne (hq q List.mem_cons_self)]
  apply this
  intro q hq hqi
  exact hi (hqi ▸ (List.of_mem_zip hq).1)

/-- one pass of the group loop changes `fullcombmask` only at the pixels of its group -/
theorem groupStep_fcm_outside (fit : Nat → K → List K → List K → Option (List K) → Combine.R (Fit K))
    (bk : K) (x y newx : List K) (st st' : St K) (k : Nat) (ss : List Nat) (i : Nat) (hi : i ∉ ss)
    (h : groupStep fit bk x y newx st k ss = .ok st') : st'.fcm.getD i false = st.fcm.getD i false := by
  unfold groupStep at h
  simp only [bind, Except.bind, pure, Except.pure] at h
  repeat' split at h
  all_goals first
    | (cases h; simp only [scatter_getD_not_mem _ _ _ _ _ hi]; done)
    | cases h

theorem groupLoop_fcm_outside (fit : Nat → K → List K → List K → Option (List K) → Combine.R (Fit K))
    (bk : K) (x y newx : List K) (st st' : St K) (groups : List (List Nat)) (i : Nat)
    (hi : ∀ g ∈ groups, i ∉ g)
    (h : groupLoop fit bk x y newx st groups = .ok st') : st'.fcm.getD i false = st.fcm.getD i false := by
  unfold groupLoop at h
  have hstep : ∀ (l : List Nat) (s s' : St K), (∀ k ∈ l, i ∉ groups.getD k []) →
      l.foldlM (fun st k => groupStep fit bk x y newx st k (groups.getD k [])) s = .ok s' →
      s'.fcm.getD i false = s.fcm.getD i false := by
    intro l
    induction l with
    | nil => intro s s' _ h; simp only [List.foldlM_nil, pure, Except.pure, Except.ok.injEq] at h; rw [h]
    | cons b l ih =>
      intro s s' hk h
      simp only [List.foldlM_cons, bind, Except.bind] at h
      split at h
      · cases h
      · rename_i s1 hs1
        rw [ih s1 s' (fun k hk' => hk k (List.mem_cons_of_mem _ hk')) h]
        exact groupStep_fcm_outside fit bk x y newx s s1 b _ i (hk b List.mem_cons_self) hs1
  apply hstep _ st st' _ h
  intro k hk
  by_cases hkl : k < groups.length
  · rw [List.getD_eq_getElem?_getD, List.getElem?_eq_getElem hkl, Option.getD_some]
    exact hi _ (List.getElem_mem hkl)
  · rw [List.getD_eq_getElem?_getD, List.getElem?_eq_none (not_lt.1 hkl), Option.getD_none]
    simp

/-- the pixels of every group are pixels of `isort` (whatever `maxsep`) -/
theorem groupsOf_mem (x : List K) (isort : List Nat) (maxsep : K) (groups : List (List Nat))
    (h : groupsOf x isort maxsep = .ok groups) : ∀ g ∈ groups, ∀ i ∈ g, i ∈ isort := by
  unfold groupsOf at h
  split at h
  · cases h
  · simp only at h
    split at h
    · cases h
    · simp only [Except.ok.injEq] at h
      subst h
      intro g hg i hi
      rw [List.zipWith_eq_zipWith_take_min] at hg
      obtain ⟨k, hk, rfl⟩ := List.getElem_of_mem hg
      simp only [List.getElem_zipWith] at hi
      exact List.mem_of_mem_drop (List.mem_of_mem_take hi)

/-- **a pixel whose inverse variance is not positive is never kept** (`fullcombmask` False), for ANY fit: such a pixel is
not among the `nonzero` pixels, hence in no group, and the group loop writes `fullcombmask` only at group pixels.
(With the modelled `iterfit` the pixels inside a group all have positive weight when they are handed over; C10
`nonpositive_never_used` covers weights that are not.)  `perm` only has to address existing entries of `nonzero`. -/
theorem fcm_false_nonpositive (fit : Nat → K → List K → List K → Option (List K) → Combine.R (Fit K))
    (bk : K) (x y newx iv : List K) (perm : List Nat) (maxsep : K) (groups : List (List Nat)) (st st' : St K)
    (npix : Nat)
    (hperm : ∀ p ∈ perm, p < ((List.range npix).filter fun i => decide (iv.getD i 0 > 0)).length)
    (hg : groupsOf x (perm.map fun p => ((List.range npix).filter fun i => decide (iv.getD i 0 > 0)).getD p 0) maxsep = .ok groups)
    (hloop : groupLoop fit bk x y newx st groups = .ok st')
    (i : Nat) (hi : ¬ iv.getD i 0 > 0) : st'.fcm.getD i false = st.fcm.getD i false := by
  apply groupLoop_fcm_outside fit bk x y newx st st' groups i _ hloop
  intro g hgm him
  have := groupsOf_mem x _ maxsep groups hg g hgm i him
  obtain ⟨p, hp, rfl⟩ := List.mem_map.1 this
  have hlt := hperm p hp
  have e : ((List.range npix).filter fun i => decide (iv.getD i 0 > 0)).getD p 0 =
      ((List.range npix).filter fun i => decide (iv.getD i 0 > 0))[p] := by
    rw [List.getD_eq_getElem?_getD, List.getElem?_eq_getElem hlt, Option.getD_some]
  rw [e] at hi
  have hm := List.getElem_mem hlt
  simp only [List.mem_filter, decide_eq_true_eq] at hm
  exact hi hm.2

theorem scatter_mem {β : Type} (arr : List β) (idx : List Nat) (vals : List β) :
    ∀ v ∈ scatter arr idx vals, v ∈ arr ∨ v ∈ vals := by
  unfold scatter
  have : ∀ (l : List (Nat × β)) (arr : List β), ∀ v ∈ l.foldl (fun a (iv : Nat × β) => a.set iv.1 iv.2) arr,
      v ∈ arr ∨ ∃ q ∈ l, q.2 = v := by
    intro l
    induction l with
    | nil => intro arr v hv; exact Or.inl hv
    | cons q l ih =>
      intro arr v hv
      simp only [List.foldl_cons] at hv
      rcases ih _ v hv with h | ⟨q', hq', e⟩
      · rcases List.mem_or_eq_of_mem_set h with h | h
        · exact Or.inl h
        · exact Or.inr ⟨q, List.mem_cons_self, h.symm⟩
      · exact Or.inr ⟨q', List.mem_cons_of_mem _ hq', e⟩
  intro v hv
  rcases this _ arr v hv with h | ⟨q, hq, e⟩
  · exact Or.inl h
  · right; rw [← e]; exact (List.of_mem_zip hq).2

/-- the fit contract used below: whatever is fitted, the curve evaluates to `c` everywhere
(what C08 `bsplvn_sum_one` + the C09 normal equations give for a constant spectrum) -/
def FitConst (fit : Nat → K → List K → List K → Option (List K) → Combine.R (Fit K)) (c : K) : Prop :=
  ∀ k bk gx gy giv F, fit k bk gx gy giv = .ok F → ∀ xs vals vm, F.value xs = .ok (vals, vm) → ∀ v ∈ vals, v = c

theorem groupStep_flux_const (fit : Nat → K → List K → List K → Option (List K) → Combine.R (Fit K))
    (c : K) (hfit : FitConst fit c)
    (bk : K) (x y newx : List K) (st st' : St K) (k : Nat) (ss : List Nat)
    (h : groupStep fit bk x y newx st k ss = .ok st') (hp : ∀ v ∈ st.flux, v = 0 ∨ v = c) :
    ∀ v ∈ st'.flux, v = 0 ∨ v = c := by
  unfold groupStep at h
  simp only [bind, Except.bind, pure, Except.pure] at h
  repeat' split at h
  all_goals first
    | (cases h; exact hp; done)
    | (cases h
       intro v hv
       rcases scatter_mem _ _ _ v hv with h1 | h1
       · exact hp v h1
       · right
         have hF := ‹fit _ _ _ _ _ = Except.ok _›
         have hval := ‹Fit.value _ _ = Except.ok _›
         exact hfit _ _ _ _ _ _ hF _ _ _ hval v h1)
    | cases h

/-- **constant spectrum ⇒ constant `newflux`, relative to the spline-fit contract** (`_partial`: the
contract `FitConst` - the fitted curve of a constant spectrum is that constant - belongs to C08/C09 and is
assumed here; the statement is about `newflux` as the group loop leaves it, i.e. before the scrub and
`aesthetics`): every output pixel is either untouched (0) or holds the constant -/
theorem const_flux_const_partial (fit : Nat → K → List K → List K → Option (List K) → Combine.R (Fit K))
    (c : K) (hfit : FitConst fit c) (bk : K) (x y newx : List K) (st st' : St K) (groups : List (List Nat))
    (h0 : ∀ v ∈ st.flux, v = 0 ∨ v = c)
    (h : groupLoop fit bk x y newx st groups = .ok st') : ∀ v ∈ st'.flux, v = 0 ∨ v = c := by
  unfold groupLoop at h
  exact foldlM_inv _ (fun s => ∀ v ∈ s.flux, v = 0 ∨ v = c)
    (fun s b s' hs hp => groupStep_flux_const fit c hfit bk x y newx s s' b _ hs hp) _ st st' h h0

end loop

/-! ### the spline fit behind the `fit` parameter: scaling and constants from C09 (extension round) -/

section wls
open Finset
variable {K : Type} [Field K] [LinearOrder K] [IsStrictOrderedRing K]

/-- **the weighted least-squares optimum is equivariant under `(y, w) ↦ (c·y, w/c²)`** (from the normal equations): if `s`
solves the normal equations of `(A, w, y)` then `c·s` solves those of `(A, w/c², c·y)`, `c ≠ 0` -/
theorem wls_scale_normal {m n : ℕ} (A : Fin m → Fin n → K) (w y : Fin m → K) (s : Fin n → K) (c : K) (hc : c ≠ 0)
    (hN : Lsq.Normal A w y s) : Lsq.Normal A (fun i => w i / c ^ 2) (fun i => c * y i) (fun j => c * s j) := by
  intro k
  have e : ∀ i, w i / c ^ 2 * A i k * (c * y i - ∑ j, A i j * (c * s j))
      = (1 / c) * (w i * A i k * (y i - ∑ j, A i j * s j)) := by
    intro i
    have : ∑ j, A i j * (c * s j) = c * ∑ j, A i j * s j := by
      rw [Finset.mul_sum]; apply Finset.sum_congr rfl; intros; ring
    rw [this]; field_simp
  simp_rw [e]
  rw [← Finset.mul_sum, hN k, mul_zero]

/-- … hence it minimises the scaled objective (weights ≥ 0), and where the optimum is unique (positive definite normal
matrix) the fit of the scaled data IS `c` times the fit of the original data -/
theorem wls_scale_optimum {m n : ℕ} (A : Fin m → Fin n → K) (w y : Fin m → K) (s z : Fin n → K) (c : K) (hc : c ≠ 0)
    (hw : ∀ i, 0 ≤ w i) (hN : Lsq.Normal A w y s) :
    Lsq.Q A (fun i => w i / c ^ 2) (fun i => c * y i) (fun j => c * s j) ≤
      Lsq.Q A (fun i => w i / c ^ 2) (fun i => c * y i) z :=
  Lsq.lsq_optimum A _ _ _ z (fun i => div_nonneg (hw i) (sq_nonneg c)) (wls_scale_normal A w y s c hc hN)

theorem wls_scale_unique {m n : ℕ} (A : Fin m → Fin n → K) (w y : Fin m → K) (s s' : Fin n → K) (c : K) (hc : c ≠ 0)
    (hpd : ∀ d : Fin n → K, (∑ i, w i * (∑ j, A i j * d j) ^ 2 = 0) → d = 0)
    (hN : Lsq.Normal A w y s) (hN' : Lsq.Normal A (fun i => w i / c ^ 2) (fun i => c * y i) s') :
    s' = fun j => c * s j := by
  refine Lsq.lsq_unique A _ _ s' _ ?_ hN' (wls_scale_normal A w y s c hc hN)
  intro d hd
  apply hpd d
  have e : ∑ i, w i / c ^ 2 * (∑ j, A i j * d j) ^ 2 = (1 / c ^ 2) * ∑ i, w i * (∑ j, A i j * d j) ^ 2 := by
    rw [Finset.mul_sum]; apply Finset.sum_congr rfl; intros; ring
  rw [e] at hd
  rcases mul_eq_zero.1 hd with h | h
  · exact absurd h (one_div_ne_zero (pow_ne_zero 2 hc))
  · exact h

/-- **constant data, unique optimum ⇒ all coefficients equal the constant, so the curve is the constant EVERYWHERE**
(not only at the data points): rows of the design matrix sum to 1 (C08 `bsplvn_sum_one`), `y = c` wherever the weight is not
0, `s` solves the normal equations, the normal matrix is positive definite ⇒ `s ≡ c`, and any basis row `b` with `Σ b = 1`
(the B-spline values at ANY abscissa in the breakpoint range, e.g. an output pixel) gives `Σ b_j s_j = c` -/
theorem const_fit_everywhere {m n : ℕ} (A : Fin m → Fin n → K) (w y : Fin m → K) (s : Fin n → K) (c : K)
    (hrow : ∀ i, ∑ j, A i j = 1) (hy : ∀ i, w i ≠ 0 → y i = c)
    (hpd : ∀ d : Fin n → K, (∑ i, w i * (∑ j, A i j * d j) ^ 2 = 0) → d = 0)
    (hN : Lsq.Normal A w y s) :
    s = (fun _ => c) ∧ ∀ b : Fin n → K, ∑ j, b j = 1 → ∑ j, b j * s j = c := by
  have h1 : Lsq.Normal A w (fun i => ∑ j, A i j * (fun _ => c) j) (fun _ => c) := Lsq.normal_exact A w (fun _ => c)
  have h2 : Lsq.Normal A w (fun _ => c) (fun _ => c) := by
    have : (fun i => ∑ j, A i j * (fun _ : Fin n => c) j) = fun _ => c := by
      funext i; rw [← Finset.sum_mul, hrow i, one_mul]
    rw [this] at h1; exact h1
  have h3 : Lsq.Normal A w y (fun _ => c) :=
    Lsq.normal_zero_weight A w (fun _ => c) y _ (fun i hi => (hy i hi).symm) h2
  have hs := Lsq.lsq_unique A w y s _ hpd hN h3
  refine ⟨hs, fun b hb => ?_⟩
  rw [hs, ← Finset.sum_mul, hb, one_mul]

end wls

section c09
open Finset PydlVerif.BSpline PydlVerif.BSplineFit PydlVerif.BSplineFitLemmas PydlVerif.C09
variable {K : Type} [Field K] [LinearOrder K] [IsStrictOrderedRing K] [FloorRing K]
local notation "assembleK" => @assemble _ (fieldScalar _)
local notation "splineAtK" => @splineAt _ (fieldScalar _)
local notation "fitK" => @BSplineFit.fit _ (fieldScalar _)
local notation "gbK" => @BS.gb _ (fieldScalar _)
local notation "knotAtK" => @knotAt _ (fieldScalar _)
local notation "normalSystemK" => @normalSystem _ (fieldScalar _)
local notation "choleskyBandK" => @choleskyBand _ (fieldScalar _)
local notation "choleskySolveK" => @choleskySolve _ (fieldScalar _)
local notation "coeffAtK" => @C08.coeffAt _ (fieldScalar _)
/-- the `Inhabited` instance the model's `arr[i]!` reads use (default `Scalar.ofNat 0`), as in Props/C09 -/
noncomputable local instance instInhabitedK11 : Inhabited K := @PydlVerif.instInhabitedOfScalar K (fieldScalar K)

/-- **constant spectrum, status-0 fit: the fitted curve is the constant at every pixel of positive weight** - no contract
hypothesis on the fit: C09 `fit_reproduces_poly` (⇐ `poly_reproduction_all`) at degree 0, about the object that the model
function `fit` (the one inside the modelled `iterfit` of `fitFull`) returns.  Hypotheses = those of `fit_reproduces_poly`
(`hsolve`: the LAPACK contract, by design a hypothesis).  For pixels that are not data points see `const_fit_everywhere`. -/
theorem const_fit_data (Kn : Kernels K) (b : BS K) (xs ys ws : List K) (perm : List ℕ) (out : FitOut K)
    (h : fitK Kn b xs ys ws perm = .ok out) (h0 : out.status = 0)
    (hk : 1 ≤ b.nord) (hsize : 2 * b.nord ≤ (gbK b).size)
    (hnn : (goodIdx (b.mask.toList.drop b.nord)).length = (gbK b).size - b.nord)
    (hcs : b.mask.size - b.nord ≤ b.coeff.size)
    (hne : xs ≠ []) (hsorted : xs.Pairwise (· ≤ ·)) (hyl : ys.length = xs.length) (hwl : ws.length = xs.length)
    (hw : ∀ v ∈ ws, 0 ≤ v)
    (hsolve : ∀ rows lower upper mininf a, (@BS.action _ (fieldScalar _) b xs) = .ok (some (rows, lower, upper)) →
      choleskyBandK Kn (normalSystemK rows ys ws lower upper xs.length b.nord ((gbK b).size - b.nord)).1 mininf
        = .ok (.factor a) →
      ∀ c, c < (gbK b).size - b.nord → ∑ c' ∈ range ((gbK b).size - b.nord),
        bandFull (assembleK (fun p a => ((rows.map List.toArray).toArray[p]!)[a]!) (fun p => ys.toArray[p]!)
            (fun p => ws.toArray[p]!) lower upper xs.length b.nord ((gbK b).size - b.nord - b.nord + 1)).1 b.nord c c'
          * (choleskySolveK Kn a (normalSystemK rows ys ws lower upper xs.length b.nord ((gbK b).size - b.nord)).2)[c']!
        = (assembleK (fun p a => ((rows.map List.toArray).toArray[p]!)[a]!) (fun p => ys.toArray[p]!)
            (fun p => ws.toArray[p]!) lower upper xs.length b.nord ((gbK b).size - b.nord - b.nord + 1)).2 c)
    (hmono : ∀ a c, a ≤ c → c ≤ (gbK b).size - 1 → knotAtK (gbK b) a ≤ knotAtK (gbK b) c)
    (hfirst : knotAtK (gbK b) (b.nord - 1) < knotAtK (gbK b) b.nord)
    (hrange : ∀ v ∈ xs, knotAtK (gbK b) (b.nord - 1) ≤ v ∧ v ≤ knotAtK (gbK b) ((gbK b).size - b.nord))
    (cst : K) (hy : ∀ p, p < xs.length → ys.getD p 0 = cst) :
    ∀ p, p < xs.length → 0 < ws.getD p 0 →
      splineAtK (knotAtK (gbK out.obj)) (coeffAtK out.obj) out.obj.nord ((gbK out.obj).size - out.obj.nord) (xs.getD p 0)
        = cst := by
  intro p hp hpos
  have := fit_reproduces_poly Kn b xs ys ws perm out h h0 hk hsize hnn hcs hne hsorted hyl hwl hw hsolve hmono hfirst hrange
    (Polynomial.C cst) (by rw [Polynomial.natDegree_C]; omega) (fun q hq => by rw [hy q hq, Polynomial.eval_C]) p hp hpos
  rw [this, Polynomial.eval_C]

end c09

/-! ### the scaling law carried through the group loop, the rejection loop of `iterfit` and `finish` (second extension round) -/

section scaleFull
open PydlVerif.CombineScale
variable {K : Type} [Field K] [LinearOrder K] [IsStrictOrderedRing K] [FloorRing K]
attribute [local instance] fieldScalar
attribute [-instance] Scalar.instOfNat Scalar.instOfScientific

theorem specsOf_scale (c : K) (oneD : Bool) (nspec ncol : Nat) (x iv : List K) (fcm : List Bool) :
    specsOf oneD nspec ncol x (iv.map (· / c ^ 2)) fcm = (specsOf oneD nspec ncol x iv fcm).map (scaleIv (c ^ 2)⁻¹) := by
  unfold specsOf scaleIv
  simp only [List.map_map]
  apply List.map_congr_left
  intro idx _
  simp only [Function.comp, List.map_map]
  apply List.map_congr_left
  intro i _
  simp only [Function.comp]
  rw [getD_map0' (fun v => v / c ^ 2) (zero_div _), div_eq_inv_mul]

theorem rawIvar_scale (c : K) (specs : List (List (Samp K))) (newx : List K) (mask : List Bool) :
    rawIvar (specs.map (scaleIv (c ^ 2)⁻¹)) newx mask = (rawIvar specs newx mask).map (· / c ^ 2) := by
  unfold rawIvar
  rw [List.map_map]
  apply List.map_congr_left
  intro p _
  rw [Function.comp, newivar_scale, inv_mul_eq_div]

/-- **`finish` is scale equivariant** (inverse variance, growth, scrub, aesthetics) on a loop state whose `newflux` is multiplied by `c`
and whose working inverse variance is divided by `c²` - provided the bad-region test `|smooth(newivar,3)| < EPS` (an ABSOLUTE
threshold in the code) answers alike (`GrowStable`), the field has no non-finite values (`hcl`), and numpy's `mean` is homogeneous -/
theorem finish_scale (c : K) (hc : 0 < c) (mean : List K → K) (hmean : ∀ l, mean (l.map (c * ·)) = c * mean l) (erf : K → K)
    (classify : K → Val K) (hcl : ∀ v, isFin classify v = true) (oneD : Bool) (nspec ncol : Nat) (x newx : List K) (m : Method)
    (st : St K) (hs : st.ivar.isSome) (hg : GrowStable c (rawOf oneD nspec ncol x newx st)) :
    finish mean erf classify oneD nspec ncol x newx m (scaleSt c st) =
      (finish mean erf classify oneD nspec ncol x newx m st).map (fun fv => (fv.1.map (c * ·), fv.2.map (· / c ^ 2))) := by
  obtain ⟨iv, hiv⟩ := Option.isSome_iff_exists.1 hs
  have hp : finishPairs classify oneD nspec ncol x newx (scaleSt c st) =
      (finishPairs classify oneD nspec ncol x newx st).map (fun q => (c * q.1, q.2 / c ^ 2)) := by
    unfold finishPairs
    have e1 : (scaleSt c st).ivar = some (iv.map (· / c ^ 2)) := by unfold scaleSt; rw [hiv]; rfl
    have e2 : (scaleSt c st).flux = st.flux.map (c * ·) := rfl
    have e3 : (scaleSt c st).mask = st.mask := rfl
    have e4 : (scaleSt c st).fcm = st.fcm := rfl
    unfold rawOf at hg
    rw [hiv] at hg
    simp only [e1, e2, e3, e4, hiv, workIvar_scale c hc, specsOf_scale, rawIvar_scale]
    rw [growBad_scale c _ hg, scrub_scale c classify hcl]
  unfold finish
  rw [hp]
  simp only [List.map_map, Function.comp_def]
  have h1 : (finishPairs classify oneD nspec ncol x newx st).map (fun q => c * q.1) =
      ((finishPairs classify oneD nspec ncol x newx st).map (·.1)).map (c * ·) := by rw [List.map_map]; rfl
  have h2 : (finishPairs classify oneD nspec ncol x newx st).map (fun q => q.2 / c ^ 2) =
      ((finishPairs classify oneD nspec ncol x newx st).map (·.2)).map (· / c ^ 2) := by rw [List.map_map]; rfl
  rw [h1, h2, aesthIf_scale c hc mean hmean]
  cases aesthIf mean erf _ _ m with
  | error e => rfl
  | ok f => rfl

/-- **scaling law of `combine1fiber`, any equivariant fit** (`objivar` given): the model's whole `combine1fiber` on
`(c·flux, ivar/c²)` returns `(c·newflux, newivar/c²)` - and refuses exactly when it refuses `(flux, ivar)`.
Hypotheses: `c > 0`; the fit parameter is scale equivariant (`FitScales`; `fitFull_scales`: the modelled `iterfit` is);
the window median and numpy's `mean` are homogeneous; no non-finite values (exact field); and `hgrow`: for the state the group loop
leaves, the ABSOLUTE bad-region threshold `|smooth(newivar,3)| < EPS` of the code answers alike before and after the scaling
(`growStable_of_gap`: true when every smoothed raw inverse variance is 0 or at least `EPS·max(1, c²)`) - the code is NOT scale
invariant without it. -/
theorem combine1fiber_scale (fit : Nat → K → List K → List K → Option (List K) → Combine.R (Fit K)) (c : K) (hc : 0 < c)
    (hfit : FitScales fit c) (argsort : List K → List Nat) (med : List K → K)
    (hmed : ∀ l, med (l.map (· / c ^ 2)) = med l / c ^ 2) (mean : List K → K) (hmean : ∀ l, mean (l.map (c * ·)) = c * mean l)
    (erf : K → K) (classify : K → Val K) (hcl : ∀ v, isFin classify v = true)
    (inp : Input K) (iv : List K) (hiv : inp.ivar = some iv)
    (hgrow : ∀ oneD nspec ncol st, c1fLoop fit argsort med inp = .ok (some (oneD, nspec, ncol, st)) →
      GrowStable c (rawOf oneD nspec ncol inp.x inp.newx st)) :
    combine1fiber fit argsort med mean erf classify (scaleInput c inp) =
      (combine1fiber fit argsort med mean erf classify inp).map (fun fv => (fv.1.map (c * ·), fv.2.map (· / c ^ 2))) := by
  rw [combine1fiber_eq, combine1fiber_eq, c1fLoop_scale fit c hc hfit argsort med hmed inp iv hiv]
  cases hL : c1fLoop fit argsort med inp with
  | error e => rfl
  | ok o =>
    simp only [Except.map, bind, Except.bind]
    cases o with
    | none =>
      simp only [scaleLoopOut, Option.map_none, c1fFinish, pure, Except.pure, List.map_replicate, z0, mul_zero, zero_div]
      rfl
    | some t =>
      obtain ⟨oneD, nspec, ncol, st⟩ := t
      have hs := c1fLoop_ivar_some fit argsort med inp iv hiv oneD nspec ncol st hL
      simp only [scaleLoopOut, Option.map_some, c1fFinish]
      exact finish_scale c hc mean hmean erf classify hcl oneD nspec ncol inp.x inp.newx inp.method st hs
        (hgrow oneD nspec ncol st hL)

/-- the modelled `iterfit` behind the `fit` parameter is scale equivariant (Lemmas/CombineScaleFit.lean) -/
theorem fitFull_scales (Kn : BSplineFit.Kernels K) (c : K) (hc : 0 < c) (hK : KernelScale Kn c) (r32 : K → K) (var : List K → K)
    (argsortG : List K → List Nat) : FitScales (fitFull Kn r32 var argsortG) c :=
  fun k bk gx gy giv => fitFull_scale Kn c hc hK r32 var argsortG k bk gx gy giv

/-- **`newflux` scaling through the group loop AND the ten-pass rejection loop of `iterfit`** (no condition on the data): for the model's
`combine1fiber` with the fit instantiated by the modelled `iterfit` (`combine1fiberFull`), `(flux, ivar) ↦ (c·flux, ivar/c²)`, `c > 0`,
leads to the same refusals and the same groups, and the state the group loop leaves has `newflux` multiplied by `c`, the working inverse variance
divided by `c²`, the SAME `newmask` and `fullcombmask`.  What the rejection step needs is exactly `KernelScale.sqrt`:
`(c·y - c·yfit)·sqrt(ivar/c²) = (y - yfit)·sqrt(ivar)` (`reject_scale_invariant`); the LAPACK pair has to be homogeneous
(`KernelScale.chol/solve`), everything else is followed through the code. -/
theorem newflux_scale (Kn : BSplineFit.Kernels K) (c : K) (hc : 0 < c) (hK : KernelScale Kn c) (r32 : K → K) (var : List K → K)
    (argsortG argsort : List K → List Nat) (med : List K → K) (hmed : ∀ l, med (l.map (· / c ^ 2)) = med l / c ^ 2)
    (inp : Input K) (iv : List K) (hiv : inp.ivar = some iv) :
    c1fLoop (fitFull Kn r32 var argsortG) argsort med (scaleInput c inp) =
      (c1fLoop (fitFull Kn r32 var argsortG) argsort med inp).map (scaleLoopOut c) :=
  c1fLoop_scale _ c hc (fitFull_scales Kn c hc hK r32 var argsortG) argsort med hmed inp iv hiv

/-- **scaling law of the whole function with the modelled `iterfit`**: `combine1fiberFull` on `(c·flux, ivar/c²)` returns
`(c·newflux, newivar/c²)` and refuses alike, under the kernel contract `KernelScale` and the growth condition `hgrow` of
`combine1fiber_scale` -/
theorem combine1fiberFull_scale (Kn : BSplineFit.Kernels K) (c : K) (hc : 0 < c) (hK : KernelScale Kn c) (r32 : K → K) (var : List K → K)
    (argsortG argsort : List K → List Nat) (med : List K → K) (hmed : ∀ l, med (l.map (· / c ^ 2)) = med l / c ^ 2)
    (mean : List K → K) (hmean : ∀ l, mean (l.map (c * ·)) = c * mean l) (erf : K → K) (classify : K → Val K)
    (hcl : ∀ v, isFin classify v = true) (inp : Input K) (iv : List K) (hiv : inp.ivar = some iv)
    (hgrow : ∀ oneD nspec ncol st, c1fLoop (fitFull Kn r32 var argsortG) argsort med inp = .ok (some (oneD, nspec, ncol, st)) →
      GrowStable c (rawOf oneD nspec ncol inp.x inp.newx st)) :
    combine1fiberFull Kn r32 var argsortG argsort med mean erf classify (scaleInput c inp) =
      (combine1fiberFull Kn r32 var argsortG argsort med mean erf classify inp).map
        (fun fv => (fv.1.map (c * ·), fv.2.map (· / c ^ 2))) :=
  combine1fiber_scale _ c hc (fitFull_scales Kn c hc hK r32 var argsortG) argsort med hmed mean hmean erf classify hcl inp iv hiv hgrow

/-- the statement in the words of the property: whenever the function returns `(newflux, newivar)` … -/
theorem combine1fiberFull_scale_ok (Kn : BSplineFit.Kernels K) (c : K) (hc : 0 < c) (hK : KernelScale Kn c) (r32 : K → K) (var : List K → K)
    (argsortG argsort : List K → List Nat) (med : List K → K) (hmed : ∀ l, med (l.map (· / c ^ 2)) = med l / c ^ 2)
    (mean : List K → K) (hmean : ∀ l, mean (l.map (c * ·)) = c * mean l) (erf : K → K) (classify : K → Val K)
    (hcl : ∀ v, isFin classify v = true) (inp : Input K) (iv : List K) (hiv : inp.ivar = some iv)
    (hgrow : ∀ oneD nspec ncol st, c1fLoop (fitFull Kn r32 var argsortG) argsort med inp = .ok (some (oneD, nspec, ncol, st)) →
      GrowStable c (rawOf oneD nspec ncol inp.x inp.newx st))
    (newflux newivar : List K)
    (h : combine1fiberFull Kn r32 var argsortG argsort med mean erf classify inp = .ok (newflux, newivar)) :
    combine1fiberFull Kn r32 var argsortG argsort med mean erf classify (scaleInput c inp) =
      .ok (newflux.map (c * ·), newivar.map (· / c ^ 2)) := by
  rw [combine1fiberFull_scale Kn c hc hK r32 var argsortG argsort med hmed mean hmean erf classify hcl inp iv hiv hgrow, h]
  rfl

/-- **the rejection test of `djs_reject` is scale invariant** (what the rejection step needs): with `sqrt(v/c²) = sqrt(v)/c` the working
array `badness` of a pixel is the same for `(c·data, c·model, invvar/c²)` as for `(data, model, invvar)` -/
theorem reject_scale_invariant (sqrt : K → K) (c : K) (hc : 0 < c) (hs : ∀ v, sqrt (v / c ^ 2) = sqrt v / c)
    (o : Reject.Opts K) (hu : o.useSigma = false) (hd : o.maxdev = none) (d m s : K) (i p : Bool) :
    Reject.badness sqrt o ⟨c * d, c * m, s / c ^ 2, i, p⟩ = Reject.badness sqrt o ⟨d, m, s, i, p⟩ :=
  badness_scale sqrt c hc hs o hu hd d m s i p

/-- **`iterfit` with `requiren` and the degenerate branch, all passes of the rejection loop, is scale equivariant** -/
theorem iterfit_scale (Kn : BSplineFit.Kernels K) (c : K) (hc : 0 < c) (hK : KernelScale Kn c) (r32 : K → K) (var : List K → K)
    (p : IterFit.Params K) (rq : Option Nat) (xs ys ivs : List K) (perm : List Nat) :
    iterfitRq Kn r32 var p rq xs (ys.map (c * ·)) (some (ivs.map (· / c ^ 2))) perm =
      (iterfitRq Kn r32 var p rq xs ys (some ivs) perm).map (scaleRqOut c) :=
  iterfitRq_scale Kn c hc hK r32 var p rq xs ys ivs perm

/-- **`bspline.fit` is scale equivariant** (same branch, status, breakpoint mask; `c` times the coefficients and fitted values) -/
theorem fit_scale_equivariant (Kn : BSplineFit.Kernels K) (c : K) (hc : 0 < c) (hK : KernelScale Kn c) (b : BSpline.BS K)
    (xs ys ws : List K) (perm : List Nat) :
    BSplineFit.fit Kn (scaleBS c b) xs (ys.map (c * ·)) (ws.map (· / c ^ 2)) perm =
      (BSplineFit.fit Kn b xs ys ws perm).map (scaleFitOut c) :=
  fit_scale Kn c hc hK b xs ys ws perm

end scaleFull

/-! ### constant stays constant, through the group loop to the output (second extension round) -/

section constFull
open PydlVerif.CombineScale PydlVerif.CombineConst
variable {K : Type} [Field K] [LinearOrder K] [IsStrictOrderedRing K] [FloorRing K]
attribute [local instance] fieldScalar
attribute [-instance] Scalar.instOfNat Scalar.instOfScientific

theorem scatter_getD_mem {β : Type} (arr : List β) (idx : List Nat) (vals : List β) (p : Nat) (d : β)
    (hp : p ∈ idx) (hlen : idx.length ≤ vals.length) (hpa : p < arr.length) : (scatter arr idx vals).getD p d ∈ vals := by
  unfold scatter
  have key : ∀ (l : List (Nat × β)) (arr : List β), (∀ q ∈ l, q.2 ∈ vals) → p < arr.length →
      (arr.getD p d ∈ vals ∨ ∃ q ∈ l, q.1 = p) →
      (l.foldl (fun a (iv : Nat × β) => a.set iv.1 iv.2) arr).getD p d ∈ vals := by
    intro l
    induction l with
    | nil =>
      intro arr _ _ h
      rcases h with h | ⟨q, hq, _⟩
      · exact h
      · cases hq
    | cons q l ih =>
      intro arr hv hpa h
      simp only [List.foldl_cons]
      apply ih _ (fun q' hq' => hv q' (List.mem_cons_of_mem _ hq')) (by rw [List.length_set]; exact hpa)
      by_cases hqp : q.1 = p
      · left
        rw [List.getD_eq_getElem?_getD, hqp, List.getElem?_set_self hpa]
        exact hv q List.mem_cons_self
      · rcases h with h | ⟨q', hq', e⟩
        · left
          rw [List.getD_eq_getElem?_getD, List.getElem?_set_ne hqp, ← List.getD_eq_getElem?_getD]
          exact h
        · rcases List.mem_cons.1 hq' with rfl | hq'
          · exact absurd e hqp
          · right; exact ⟨q', hq', e⟩
  apply key _ arr (fun q hq => (List.of_mem_zip hq).2) hpa
  right
  obtain ⟨j, hj, rfl⟩ := List.getElem_of_mem hp
  exact ⟨(idx[j], vals[j]'(by omega)), by
    rw [List.mem_iff_getElem]
    exact ⟨j, by simp only [List.length_zip]; omega, by simp⟩, rfl⟩

theorem scatterConst_getD_true (m : List Bool) (idx : List Nat) (p : Nat)
    (h : (scatterConst m idx true).getD p false = true) : m.getD p false = true ∨ p ∈ idx := by
  unfold scatterConst at h
  induction idx generalizing m with
  | nil => exact Or.inl h
  | cons i l ih =>
    simp only [List.foldl_cons] at h
    rcases ih _ h with h1 | h1
    · by_cases hip : i = p
      · right; rw [hip]; exact List.mem_cons_self
      · left
        rw [List.getD_eq_getElem?_getD, List.getElem?_set_ne hip, ← List.getD_eq_getElem?_getD] at h1
        exact h1
    · right; exact List.mem_cons_of_mem _ h1

theorem select_subset {β : Type} (idx : List β) (sel : List Bool) : ∀ a ∈ select idx sel, a ∈ idx := by
  intro a ha
  unfold select at ha
  obtain ⟨q, hq, rfl⟩ := List.mem_map.1 ha
  exact (List.of_mem_zip (List.mem_filter.1 hq).1).1

theorem mem_insideOf (newx : List K) (lo hi : K) : ∀ p ∈ insideOf newx lo hi, p < newx.length := by
  intro p hp
  unfold insideOf at hp
  exact List.mem_range.1 (List.mem_filter.1 hp).1

/-- invariant of the group loop on a constant spectrum: every output pixel whose `newmask` is set holds the constant -/
def FluxInv (v : K) (n : Nat) (st : St K) : Prop :=
  st.flux.length = n ∧ ∀ p, st.mask.getD p false = true → st.flux.getD p 0 = v

theorem groupStep_const (fit : Nat → K → List K → List K → Option (List K) → Combine.R (Fit K)) (v : K)
    (hfit : FitConstData fit v) (bk : K) (x y newx : List K) (st st' : St K) (k : Nat) (ss : List Nat)
    (hy : ∀ i ∈ ss, y.getD i 0 = v) (hx : (ss.map (fun i => x.getD i 0)).Pairwise (· ≠ ·)) (hinv : FluxInv v newx.length st)
    (h : groupStep fit bk x y newx st k ss = .ok st') : FluxInv v newx.length st' := by
  rw [groupStep_eq] at h
  have hgx : (ss.map (fun i => x.getD i (@OfNat.ofNat K (nat_lit 0) Scalar.instOfNat))).Pairwise (· ≠ ·) := by
    simp only [z0]; exact hx
  have hgy : ∀ u ∈ ss.map (fun i => y.getD i (@OfNat.ofNat K (nat_lit 0) Scalar.instOfNat)), u = v := by
    intro u hu
    obtain ⟨i, hi, rfl⟩ := List.mem_map.1 hu
    rw [z0]; exact hy i hi
  generalize hF : fitOf fit k bk _ _ _ ss.length = F at h
  cases F with
  | error e => cases h
  | ok fb =>
    simp only [bind, Except.bind] at h
    -- what the fit answered
    have hfb : fb.1 = none ∨ ∃ f, fb.1 = some f ∧
        fit k bk (ss.map (fun i => x.getD i (@OfNat.ofNat K (nat_lit 0) Scalar.instOfNat)))
          (ss.map (fun i => y.getD i (@OfNat.ofNat K (nat_lit 0) Scalar.instOfNat)))
          (st.ivar.map fun iv => ss.map (fun i => iv.getD i (@OfNat.ofNat K (nat_lit 0) Scalar.instOfNat))) = .ok f ∧
        coeffZero f.coeffs = false := by
      unfold fitOf at hF
      split at hF
      · cases hfc : fit k bk (ss.map (fun i => x.getD i (@OfNat.ofNat K (nat_lit 0) Scalar.instOfNat)))
            (ss.map (fun i => y.getD i (@OfNat.ofNat K (nat_lit 0) Scalar.instOfNat)))
            (st.ivar.map fun iv => ss.map (fun i => iv.getD i (@OfNat.ofNat K (nat_lit 0) Scalar.instOfNat))) with
        | error e => rw [hfc] at hF; cases hF
        | ok f =>
          rw [hfc] at hF
          simp only [bind, Except.bind] at hF
          split at hF
          · cases hF; exact Or.inl rfl
          · rename_i hz
            cases hF
            exact Or.inr ⟨f, rfl, rfl, by simpa using hz⟩
      · cases hF; exact Or.inl rfl
    obtain ⟨hl, hm⟩ := hinv
    unfold afterFit at h
    split at h
    · cases h
    · rename_i g0 gr _
      rcases hfb with hn | ⟨f, hsome, hfc, hz⟩
      · rw [hn] at h
        cases h
        exact ⟨hl, hm⟩
      · rw [hsome] at h
        simp only [] at h
        split at h
        · cases h
          exact ⟨hl, hm⟩
        · split at h
          · cases h
          · rename_i vv hval
            cases h
            obtain ⟨hvl, hvv⟩ := hfit k bk _ _ _ f hgx hgy hfc hz _ vv.1 vv.2 hval
            rw [List.length_map] at hvl
            refine ⟨by simp only [scatter_length]; exact hl, fun p hp => ?_⟩
            simp only [] at hp ⊢
            by_cases hin : p ∈ insideOf newx (lmin g0 gr) (lmax g0 gr)
            · have hpl : p < st.flux.length := by rw [hl]; exact mem_insideOf newx _ _ p hin
              exact hvv _ (scatter_getD_mem st.flux _ vv.1 p 0 hin (by omega) hpl)
            · rw [scatter_getD_not_mem _ _ _ _ _ hin]
              rcases scatterConst_getD_true _ _ p hp with h1 | h1
              · exact hm p h1
              · exact absurd (select_subset _ _ p h1) hin

theorem groupLoop_const (fit : Nat → K → List K → List K → Option (List K) → Combine.R (Fit K)) (v : K)
    (hfit : FitConstData fit v) (bk : K) (x y newx : List K) (groups : List (List Nat))
    (hy : ∀ g ∈ groups, ∀ i ∈ g, y.getD i 0 = v) (hx : ∀ g ∈ groups, (g.map (fun i => x.getD i 0)).Pairwise (· ≠ ·))
    (st st' : St K) (hinv : FluxInv v newx.length st)
    (h : groupLoop fit bk x y newx st groups = .ok st') : FluxInv v newx.length st' := by
  unfold groupLoop at h
  refine foldlM_inv _ (FluxInv v newx.length) (fun s b s' hs hp => ?_) _ st st' h hinv
  by_cases hb : b < groups.length
  · have e : groups.getD b [] = groups[b] := by
      rw [List.getD_eq_getElem?_getD, List.getElem?_eq_getElem hb, Option.getD_some]
    rw [e] at hs
    exact groupStep_const fit v hfit bk x y newx s s' b _ (hy _ (List.getElem_mem hb)) (hx _ (List.getElem_mem hb)) hp hs
  · have e : groups.getD b [] = [] := by
      rw [List.getD_eq_getElem?_getD, List.getElem?_eq_none (not_lt.1 hb), Option.getD_none]
    rw [e] at hs
    exact groupStep_const fit v hfit bk x y newx s s' b _ (fun i hi => by cases hi) (by simp) hp hs

/-- `aesthetics` (traditional, noconst, mean, nothing) leaves every pixel of positive inverse variance as it is -/
theorem aesthetics_keeps_pos (flux invvar : List K) (m : Method) (gm : K) (hlen : invvar.length = flux.length)
    (hm : m = .traditional ∨ m = .noconst ∨ m = .mean ∨ m = .nothing) (out : List K)
    (h : aesthetics flux invvar m gm = .ok out) (i : Nat) (hi : i < flux.length) (hpos : 0 < invvar.getD i 0) :
    out.getD i 0 = flux.getD i 0 := by
  have hi' : i < invvar.length := by omega
  have hiv : invvar.getD i 0 = invvar[i] := by rw [List.getD_eq_getElem?_getD, List.getElem?_eq_getElem hi']; rfl
  rw [hiv] at hpos
  have hbl : (invvar.map Interp.isZeroI).length = flux.length := by simp [hlen]
  have hbi : (invvar.map Interp.isZeroI)[i]'(by omega) = false := by
    rw [List.getElem_map]
    cases hz : Interp.isZeroI invvar[i] with
    | true => exact absurd ((C17.interp_isZero_iff _).1 hz) (ne_of_gt hpos)
    | false => rfl
  have hfl : flux.getD i 0 = flux[i] := by rw [List.getD_eq_getElem?_getD, List.getElem?_eq_getElem hi]; rfl
  have conv : ∀ o : List K, o[i]? = some flux[i] → o.getD i 0 = flux.getD i 0 := by
    intro o ho
    rw [List.getD_eq_getElem?_getD, ho, hfl]; rfl
  unfold aesthetics at h
  simp only [] at h
  split at h
  · rcases hm with rfl | rfl | rfl | rfl
    · cases h; exact conv _ (C17.maskinterp_only_masked flux _ true hbl i hi hbi)
    · cases h; exact conv _ (C17.maskinterp_only_masked flux _ false hbl i hi hbi)
    · cases h
      apply conv
      have hz : (flux.zip invvar)[i]? = some (flux[i], invvar[i]) :=
        List.getElem?_zip_eq_some.2 ⟨List.getElem?_eq_getElem hi, List.getElem?_eq_getElem hi'⟩
      rw [List.getElem?_map, hz]
      simp [hpos]
    · cases h; exact conv _ (List.getElem?_eq_getElem hi)
  · cases h; exact conv _ (List.getElem?_eq_getElem hi)

/-- **constant stays constant - the whole `combine1fiber`** (any `fit` meeting `FitConstData`; 1-D or stacked input, with or
without `objivar`; aesthetics `traditional`, `noconst`, `mean`, `nothing` - `damp` multiplies good pixels too): if every input
pixel that takes part (`ivar > 0`) carries the flux `v`, then every output pixel with `newivar > 0` has `newflux = v` - through the
grouping, the group loop, the inverse-variance pipeline, the growth, the scrub (exact field: nothing non-finite) and
`aesthetics`.  `argsort` only has to return existing positions; `hdistinct`: the wavelengths inside a group are pairwise different (1-D input
with increasing wavelengths, dithered exposures; NOT exposures on identical grids). -/
theorem const_flux_const (fit : Nat → K → List K → List K → Option (List K) → Combine.R (Fit K)) (v : K)
    (hfit : FitConstData fit v) (argsort : List K → List Nat) (hargsort : ∀ l, ∀ p ∈ argsort l, p < l.length)
    (med mean : List K → K) (erf : K → K) (classify : K → Val K) (hcl : ∀ u, isFin classify u = true) (inp : Input K)
    (hconst : ∀ i ∈ nonzeroOf inp, inp.flux.getD i 0 = v)
    (hdistinct : ∀ maxsep groups, groupsOf inp.x (isortOf argsort inp) maxsep = .ok groups →
      ∀ g ∈ groups, (g.map (fun i => inp.x.getD i 0)).Pairwise (· ≠ ·))
    (hm : inp.method = .traditional ∨ inp.method = .noconst ∨ inp.method = .mean ∨ inp.method = .nothing)
    (f w : List K) (h : combine1fiber fit argsort med mean erf classify inp = .ok (f, w)) :
    ∀ p, 0 < w.getD p 0 → f.getD p 0 = v := by
  intro p hpos
  rw [combine1fiber_eq] at h
  cases hL : c1fLoop fit argsort med inp with
  | error e => rw [hL] at h; cases h
  | ok o =>
    rw [hL] at h
    simp only [bind, Except.bind] at h
    cases o with
    | none =>
      simp only [c1fFinish, pure, Except.pure, Except.ok.injEq, Prod.mk.injEq] at h
      rw [← h.2, List.getD_eq_getElem?_getD] at hpos
      by_cases hp : p < inp.newx.length
      · rw [List.getElem?_replicate_of_lt hp, Option.getD_some, z0] at hpos
        exact absurd hpos (lt_irrefl _)
      · rw [List.getElem?_eq_none (by rw [List.length_replicate]; omega), Option.getD_none] at hpos
        exact absurd hpos (lt_irrefl _)
    | some t =>
      obtain ⟨oneD, nspec, ncol, st⟩ := t
      simp only [c1fFinish] at h
      obtain ⟨bk, maxsep, groups, iv0, hG, hLoop⟩ := c1fLoop_some_spec fit argsort med inp oneD nspec ncol st hL
      -- the pixels of every group are good pixels
      have hgrp : ∀ g ∈ groups, ∀ i ∈ g, inp.flux.getD i 0 = v := by
        intro g hg i hi
        have hmem := groupsOf_mem inp.x _ maxsep groups hG g hg i hi
        unfold isortOf at hmem
        obtain ⟨q, hq, rfl⟩ := List.mem_map.1 hmem
        have hql := hargsort _ q hq
        rw [List.length_map] at hql
        apply hconst
        rw [List.getD_eq_getElem?_getD, List.getElem?_eq_getElem hql, Option.getD_some]
        exact List.getElem_mem hql
      have hinv0 : FluxInv v inp.newx.length (⟨List.replicate inp.newx.length (@OfNat.ofNat K (nat_lit 0) Scalar.instOfNat),
          List.replicate inp.newx.length false, List.replicate inp.x.length false, iv0⟩ : St K) := by
        refine ⟨List.length_replicate, fun q hq => ?_⟩
        simp only [] at hq
        rw [List.getD_eq_getElem?_getD] at hq
        by_cases hql : q < inp.newx.length
        · rw [List.getElem?_replicate_of_lt hql] at hq; cases hq
        · rw [List.getElem?_eq_none (by rw [List.length_replicate]; omega)] at hq; cases hq
      obtain ⟨hfl, hmask⟩ := groupLoop_const fit v hfit bk inp.x inp.flux inp.newx groups hgrp (hdistinct maxsep groups hG) _ st hinv0 hLoop
      obtain ⟨hw, hae⟩ := finish_ok mean erf classify oneD nspec ncol inp.x inp.newx inp.method st f w h
      set pairs := finishPairs classify oneD nspec ncol inp.x inp.newx st with hpairs
      have hplen : pairs.length = inp.newx.length := by
        rw [hpairs]; simp [finishPairs, scrub_length, growBad_length, rawIvar, hfl]
      have hp : p < inp.newx.length := by
        by_contra hlt
        rw [hw, List.getD_eq_getElem?_getD, List.getElem?_eq_none (by rw [List.length_map, hplen]; omega), Option.getD_none] at hpos
        exact absurd hpos (lt_irrefl _)
      have hp2 : p < (pairs.map (·.2)).length := by rw [List.length_map, hplen]; exact hp
      have hwp : w.getD p 0 = (pairs.map (·.2))[p] := by
        rw [hw, List.getD_eq_getElem?_getD, List.getElem?_eq_getElem hp2]; rfl
      -- the pixel's `newmask` is set
      have hmk : st.mask.getD p false = true := by
        rcases final_ivar_cases classify oneD nspec ncol inp.x inp.newx st p hp2 with h0 | h1
        · rw [hwp, h0] at hpos; exact absurd hpos (lt_irrefl _)
        · by_contra hmf
          have hmf' : st.mask.getD p false = false := by simpa using hmf
          rw [hwp, h1, newivar_zero_no_good _ _ _ (Or.inr hmf')] at hpos
          exact absurd hpos (lt_irrefl _)
      have hflux : st.flux.getD p 0 = v := hmask p hmk
      -- the scrub keeps the pair
      have hpre : (pairs.map (·.1)).getD p 0 = st.flux.getD p 0 := by
        have hp1 : p < (pairs.map (·.1)).length := by rw [List.length_map, hplen]; exact hp
        rw [List.getD_eq_getElem?_getD, List.getElem?_eq_getElem hp1, Option.getD_some]
        simp only [hpairs, finishPairs, scrub, List.getElem_map, List.getElem_zipWith, hcl, Bool.and_self, if_true]
        rw [List.getD_eq_getElem?_getD, List.getElem?_eq_getElem (by rw [hfl]; exact hp), Option.getD_some]
      -- aesthetics
      unfold aesthIf at hae
      have hany : (pairs.map (·.2)).any (fun u => decide (u > (@OfNat.ofNat K (nat_lit 0) Scalar.instOfNat))) = true := by
        rw [List.any_eq_true]
        refine ⟨(pairs.map (·.2))[p], List.getElem_mem hp2, ?_⟩
        rw [z0, ← hwp]
        exact decide_eq_true hpos
      rw [if_pos hany] at hae
      unfold aesth at hae
      have hpos' : 0 < (pairs.map (·.2)).getD p 0 := by
        rw [List.getD_eq_getElem?_getD, List.getElem?_eq_getElem hp2, Option.getD_some, ← hwp]; exact hpos
      have hlen2 : (pairs.map (·.2)).length = (pairs.map (·.1)).length := by simp
      have hp1 : p < (pairs.map (·.1)).length := by rw [List.length_map, hplen]; exact hp
      rcases hm with hm | hm | hm | hm <;> rw [hm] at hae <;> simp only [] at hae <;>
        rw [aesthetics_keeps_pos _ _ _ _ hlen2 (by simp) f hae p hp1 hpos', hpre, hflux]

/-- **rejection rejects nothing when the residuals are exactly 0**: `djs_reject` as `iterfit` calls it (`invvar` given, no `maxdev`,
`grow = 0`, not sticky, `inmask = outmask =` the current mask) on a model that equals the data at every pixel the mask keeps returns
the SAME mask and `qdone = True` - whatever `sqrt` is, whatever the weights and the limits -/
theorem reject_keeps_exact (sqrt : K → K) (o : Reject.Opts K) (hu : o.useSigma = false) (hd : o.maxdev = none)
    (hg : o.grow = 0) (hst : o.sticky = false) (data mdl sv : List K) (m : List Bool)
    (hl1 : mdl.length = data.length) (hl2 : m.length = data.length) (hl3 : sv.length = data.length)
    (hex : ∀ i, i < data.length → m.getD i true = true → mdl.getD i 0 = data.getD i 0) :
    Reject.djsReject sqrt o data (some mdl) (some m) (some m) sv = .ok (m, true) :=
  CombineConst.reject_keeps_exact sqrt o hu hd hg hst data mdl sv m hl1 hl2 hl3 hex

/-- **constant stays constant - the whole function with the modelled `iterfit`** (`combine1fiberFull`): no contract on the fit is left.
If every input pixel that takes part carries the flux `v`, every output pixel with `newivar > 0` has `newflux = v`.  Hypotheses about
the kernel parameters only: `SolveUnique` (the LAPACK pair returns THE solution of a system it factored), `argsort` returns a sorting
permutation (`hargsortG`, for the groups and inside `value`; `hargsort`: existing positions, for the pixels), the breakpoints placed for a
group of pairwise different wavelengths (`hdistinct`) are strictly increasing (`hknots`), no non-finite values (exact field); aesthetics
`traditional`, `noconst`, `mean`, `nothing`.  Through: grouping (`groups_partition`/`groupsOf_mem`), `requiren`, `maskpoints`, every pass of the
rejection loop (`reject_keeps_exact`: nothing is rejected, the loop ends after the first status-0 fit), the degenerate branch, `value`, the
inverse-variance pipeline, growth, scrub, `aesthetics`. -/
theorem const_flux_const_full (Kn : BSplineFit.Kernels K) (hU : SolveUnique Kn) (r32 : K → K) (var : List K → K)
    (argsortG argsort : List K → List Nat)
    (hargsortG : ∀ l : List K, (argsortG l).Perm (List.range l.length) ∧ ((argsortG l).map (fun i => l.getD i 0)).Pairwise (· ≤ ·))
    (hargsort : ∀ l, ∀ p ∈ argsort l, p < l.length)
    (hknots : ∀ (bk : K) goodx knots, goodx.Pairwise (· < ·) → 3 ≤ goodx.length →
      BSpline.mkKnots r32 goodx 3 (c1fParams bk).opts = .ok knots → knots.Pairwise (· < ·))
    (med mean : List K → K) (erf : K → K) (classify : K → Val K) (hcl : ∀ u, isFin classify u = true) (inp : Input K) (v : K)
    (hconst : ∀ i ∈ nonzeroOf inp, inp.flux.getD i 0 = v)
    (hdistinct : ∀ maxsep groups, groupsOf inp.x (isortOf argsort inp) maxsep = .ok groups →
      ∀ g ∈ groups, (g.map (fun i => inp.x.getD i 0)).Pairwise (· ≠ ·))
    (hm : inp.method = .traditional ∨ inp.method = .noconst ∨ inp.method = .mean ∨ inp.method = .nothing)
    (f w : List K) (h : combine1fiberFull Kn r32 var argsortG argsort med mean erf classify inp = .ok (f, w)) :
    ∀ p, 0 < w.getD p 0 → f.getD p 0 = v :=
  const_flux_const _ v (fitFull_const Kn hU r32 var argsortG hargsortG hknots v) argsort hargsort med mean erf classify hcl inp
    hconst hdistinct hm f w h

/-- **… in exact arithmetic the knot hypothesis is a theorem** (`r32 = id`: `mkKnots_strict`, the constructor's breakpoints on strictly
increasing abscissae are strictly increasing): what is left assumed is the LAPACK contract `SolveUnique`, `argsort` = a sorting permutation,
and that the wavelengths inside every group are pairwise different -/
theorem const_flux_const_exact (Kn : BSplineFit.Kernels K) (hU : SolveUnique Kn) (var : List K → K)
    (argsortG argsort : List K → List Nat)
    (hargsortG : ∀ l : List K, (argsortG l).Perm (List.range l.length) ∧ ((argsortG l).map (fun i => l.getD i 0)).Pairwise (· ≤ ·))
    (hargsort : ∀ l, ∀ p ∈ argsort l, p < l.length)
    (med mean : List K → K) (erf : K → K) (classify : K → Val K) (hcl : ∀ u, isFin classify u = true) (inp : Input K) (v : K)
    (hconst : ∀ i ∈ nonzeroOf inp, inp.flux.getD i 0 = v)
    (hdistinct : ∀ maxsep groups, groupsOf inp.x (isortOf argsort inp) maxsep = .ok groups →
      ∀ g ∈ groups, (g.map (fun i => inp.x.getD i 0)).Pairwise (· ≠ ·))
    (hm : inp.method = .traditional ∨ inp.method = .noconst ∨ inp.method = .mean ∨ inp.method = .nothing)
    (f w : List K) (h : combine1fiberFull Kn id var argsortG argsort med mean erf classify inp = .ok (f, w)) :
    ∀ p, 0 < w.getD p 0 → f.getD p 0 = v :=
  const_flux_const_full Kn hU id var argsortG argsort hargsortG hargsort
    (fun bk goodx knots hs hl hk => mkKnots_strict bk goodx knots hs (by omega) hk)
    med mean erf classify hcl inp v hconst hdistinct hm f w h

end constFull

/-! ### non-vacuity -/

section examples
attribute [local instance] fieldScalar
attribute [-instance] Scalar.instOfNat Scalar.instOfScientific

/-- the hypotheses of the single-spectrum theorems are met by a concrete spectrum: three samples with
increasing wavelengths, the last one not kept -/
example : Ends (K := ℚ) ⟨0, 2, true⟩ [⟨1, 4, true⟩, ⟨2, 6, false⟩] ∧
    (∀ a ∈ ([⟨0, 2, true⟩, ⟨1, 4, true⟩, ⟨2, 6, false⟩] : List (Samp ℚ)), 0 ≤ a.iv) ∧
    Consec (⟨0, 2, true⟩ : Samp ℚ) ⟨1, 4, true⟩ [⟨0, 2, true⟩, ⟨1, 4, true⟩, ⟨2, 6, false⟩] ∧
    lerp (0 : ℚ) 2 1 4 (1 / 2) = 3 := by
  refine ⟨⟨?_, ?_⟩, ?_, ⟨[], [⟨2, 6, false⟩], rfl⟩, ?_⟩
  · intro a ha
    simp only [List.mem_cons, List.mem_nil_iff, or_false] at ha
    rcases ha with rfl | rfl | rfl <;> norm_num
  · intro a ha
    simp only [List.mem_cons, List.mem_nil_iff, or_false] at ha
    rcases ha with rfl | rfl | rfl <;> norm_num [List.getLast]
  · intro a ha
    simp only [List.mem_cons, List.mem_nil_iff, or_false] at ha
    rcases ha with rfl | rfl | rfl <;> norm_num
  · norm_num [lerp]

end examples

section examples2
open Finset
attribute [-instance] Scalar.instOfNat Scalar.instOfScientific
/-- the hypotheses of `const_fit_everywhere` / `wls_scale_unique` are satisfiable: one point, one coefficient, weight 1 -/
example : (∀ i : Fin 1, ∑ j : Fin 1, (fun _ _ => (1 : ℚ)) i j = 1) ∧
    (∀ d : Fin 1 → ℚ, (∑ i : Fin 1, (1 : ℚ) * (∑ j : Fin 1, (1 : ℚ) * d j) ^ 2 = 0) → d = 0) ∧
    Lsq.Normal (fun (_ : Fin 1) (_ : Fin 1) => (1 : ℚ)) (fun _ => 1) (fun _ => 7) (fun _ => 7) := by
  refine ⟨fun i => by rw [Finset.univ_unique, Finset.sum_singleton], ?_, fun k => ?_⟩
  rotate_left
  · show ∑ i : Fin 1, (1 : ℚ) * 1 * (7 - ∑ j : Fin 1, (1 : ℚ) * 7) = 0
    rw [Finset.univ_unique, Finset.sum_singleton, Finset.sum_singleton]; norm_num
  intro d h
  simp only [Finset.univ_unique, Finset.sum_singleton, one_mul, pow_eq_zero_iff (two_ne_zero)] at h
  funext j
  rw [Subsingleton.elim j default]
  exact h

/-- the hypotheses of `groups_partition`: three good pixels, the last one far away - two groups -/
example : (0 : ℚ) < 2 ∧ ([0, 1, 2] : List Nat) ≠ [] := ⟨by norm_num, by simp⟩

end examples2

section examples3
open PydlVerif.CombineScale PydlVerif.CombineConst
variable {K : Type} [Field K] [LinearOrder K] [IsStrictOrderedRing K] [FloorRing K]
attribute [local instance] fieldScalar
attribute [-instance] Scalar.instOfNat Scalar.instOfScientific

/-- the hypothesis of `growStable_of_gap` (hence `hgrow` of the scaling theorems) is met by a concrete raw inverse variance: all ones,
`c = 2` - every smoothed value is 1 ≥ EPS·4 -/
example : ∀ v ∈ smooth3 ([1, 1, 1] : List K), v = 0 ∨ (eps ≤ |v| ∧ eps * (2 : K) ^ 2 ≤ |v|) := by
  intro v hv
  have h : smooth3 ([1, 1, 1] : List K) = [1, 1, 1] := by
    simp only [smooth3, List.length_cons, List.length_nil, List.range_succ, List.range_zero, List.nil_append, List.cons_append,
      List.map_cons, List.map_nil, scalar_sci]
    norm_num
  rw [h] at hv
  simp only [List.mem_cons, List.mem_nil_iff, or_false, or_self] at hv
  subst hv
  right
  rw [eps_eq]
  norm_num

/-- the fit "the first data value everywhere" (one coefficient): a fit that is used and meets both contracts -/
noncomputable def firstValueFit (_k : Nat) (_bk : K) (_gx gy : List K) (_giv : Option (List K)) : Combine.R (Fit K) :=
  .ok ⟨[gy.getD 0 0], fun xs => .ok (xs.map (fun _ => gy.getD 0 0), xs.map (fun _ => true)), gy.map (fun _ => true)⟩

/-- `FitConstData` is satisfiable by a fit that is not trivial (its coefficient is the data value) -/
example (v : K) : FitConstData (firstValueFit (K := K)) v := by
  intro k bk gx gy giv F _ hgy hF hz xs vals vm hval
  simp only [firstValueFit, Except.ok.injEq] at hF
  subst hF
  simp only [Except.ok.injEq, Prod.mk.injEq] at hval
  obtain ⟨rfl, _⟩ := hval
  refine ⟨by rw [List.length_map], ?_⟩
  intro u hu
  obtain ⟨_, _, rfl⟩ := List.mem_map.1 hu
  cases gy with
  | nil =>
    exfalso
    have : coeffZero ([([] : List K).getD 0 0]) = true := by
      simp only [coeffZero, List.getD_nil, List.foldl_cons, List.foldl_nil, absS, z0, lt_irrefl, if_false, add_zero]
      exact (scalar_beq _ _).2 rfl
    rw [this] at hz
    cases hz
  | cons y0 ys =>
    rw [List.getD_cons_zero]
    exact hgy y0 List.mem_cons_self

/-- … and it is scale equivariant -/
example : FitScales (firstValueFit (K := K)) 2 := by
  intro k bk gx gy giv
  have h : (gy.map (fun x => (2 : K) * x)).getD 0 0 = 2 * gy.getD 0 0 := getD_map0 (fun x => (2 : K) * x) (mul_zero 2) gy 0
  simp only [firstValueFit, Except.map, scaleFit, List.map_cons, List.map_nil, List.map_map, Function.comp_def, h]

/-- `KernelScale` is satisfiable at `c = 2` over ℝ: the real square root, everything finite, a LAPACK factorisation that always
fails (so that the modelled fallback loop of `cholesky_band` - the textbook Cholesky with `sqrt` - does the work) and a diagonal solve -/
example : KernelScale (K := ℝ) ⟨Real.sqrt, fun _ => true, fun _ _ _ => none,
    fun _ _ L b => b.mapIdx (fun i v => v / (BSplineFit.get2 L 0 i) ^ 2)⟩ 2 := by
  refine ⟨?_, fun _ _ _ => rfl, fun _ _ _ => rfl, ?_⟩
  · intro v
    show Real.sqrt (v / 2 ^ 2) = Real.sqrt v / 2
    rw [Real.sqrt_div' v (by norm_num), Real.sqrt_sq (by norm_num)]
  · intro bw n L b
    show (b.map ((2 : ℝ)⁻¹ * ·)).mapIdx (fun i v => v / (BSplineFit.get2 (sc2 (2 : ℝ)⁻¹ L) 0 i) ^ 2) =
      (b.mapIdx (fun i v => v / (BSplineFit.get2 L 0 i) ^ 2)).map ((2 : ℝ) * ·)
    apply Array.ext
    · rw [Array.size_mapIdx, Array.size_map, Array.size_map, Array.size_mapIdx]
    · intro i h1 h2
      rw [Array.getElem_mapIdx, Array.getElem_map, Array.getElem_map, Array.getElem_mapIdx, get2_sc2, mul_pow, mul_div_mul_comm]
      norm_num

/-- `SolveUnique` is a contract that kernels can meet - trivially by kernels for which `cholesky_band` never reports a factor (nothing is
finite); that LAPACK's `cholesky_banded`/`cho_solve_banded` meet it is assumed, like C09's `chol_contract`, and sampled by the harness
(`|A x - b|` of every recorded fit) -/
example : SolveUnique (K := K) ⟨fun v => v, fun _ => false, fun _ _ _ => none, fun _ _ _ b => b⟩ := by
  intro b xs ys ws rows lower upper mininf a _ hch
  exfalso
  unfold BSplineFit.choleskyBand at hch
  simp only [] at hch
  split at hch
  · cases hch
  split at hch
  · cases hch
  rename_i hbw _
  have hall : (BSplineFit.normalSystem rows ys ws lower upper xs.length b.nord (b.gb.size - b.nord)).1.all
      (fun row => row.all (fun _ => false)) = false := by
    rw [Array.all_eq_false']
    have hsz : 0 < (BSplineFit.normalSystem rows ys ws lower upper xs.length b.nord (b.gb.size - b.nord)).1.size := by omega
    refine ⟨_, Array.getElem_mem hsz, ?_⟩
    have hrow : 0 < ((BSplineFit.normalSystem rows ys ws lower upper xs.length b.nord (b.gb.size - b.nord)).1[0]).size := by
      have hn : 0 < b.nord := by
        simp only [BSplineFit.normalSystem, List.size_toArray, List.length_map, List.length_range] at hsz
        exact hsz
      simp only [BSplineFit.normalSystem, List.getElem_toArray, List.getElem_map, List.size_toArray, List.length_map, List.length_range]
      omega
    simp only [Bool.not_eq_true, Array.all_eq_false']
    exact ⟨_, Array.getElem_mem hrow, trivial⟩
  rw [hall] at hch
  simp only [Bool.not_false, Bool.or_true, if_true, pure, Except.pure, Except.ok.injEq] at hch
  cases hch

end examples3

end PydlVerif.C11

/-
C12 property theorems: Mangle membership.  Helper lemmas first (sections
"helpers"), the property theorems listed in harness/props/c12.py after them.
-/
import PydlVerif.Model.Mangle
import PydlVerif.Model.MangleExt
import PydlVerif.Lemmas.ManglePly
import PydlVerif.Lemmas.RealTrig
import Mathlib.Data.Nat.Bitwise
namespace PydlVerif.C12
open PydlVerif PydlVerif.Mangle

/-! ## helpers: bits -/

theorem is_cap_used_testBit (u i : Nat) : isCapUsed u i = u.testBit i := by
  unfold isCapUsed
  rw [Nat.one_shiftLeft, Nat.and_two_pow]
  cases h : u.testBit i <;> simp

theorem sub_two_pow_testBit : ∀ (j u k : Nat), u.testBit j = true →
    (u - 2 ^ j).testBit k = (u.testBit k && decide (k ≠ j))
  | 0, u, k, h => by
    have h1 : u % 2 = 1 := by simpa [Nat.testBit_zero] using h
    cases k with
    | zero => simp [Nat.testBit_zero]; omega
    | succ k =>
      simp only [Nat.testBit_succ, pow_zero]
      have : (u - 1) / 2 = u / 2 := by omega
      rw [this]; simp
  | j + 1, u, k, h => by
    have hge := Nat.ge_two_pow_of_testBit h
    have hp : 2 ^ (j + 1) = 2 * 2 ^ j := by rw [Nat.pow_succ, Nat.mul_comm]
    cases k with
    | zero =>
      simp only [Nat.testBit_zero]
      have : (u - 2 ^ (j + 1)) % 2 = u % 2 := by omega
      rw [this]; simp
    | succ k =>
      simp only [Nat.testBit_succ] at h ⊢
      have : (u - 2 ^ (j + 1)) / 2 = u / 2 - 2 ^ j := by omega
      rw [this, sub_two_pow_testBit j (u / 2) k h]
      simp


theorem or_bits_testBit (idx : List Nat) (u j : Nat) :
    (orBits u idx).testBit j = (u.testBit j || decide (j ∈ idx)) := by
  unfold orBits
  induction idx generalizing u with
  | nil => simp
  | cons i rest ih =>
    simp only [List.foldl_cons]
    rw [ih, Nat.testBit_or, Nat.one_shiftLeft, Nat.testBit_two_pow]
    by_cases h : i = j
    · subst h; simp
    · have h' : ¬ j = i := fun e => h e.symm
      simp [h, h']

theorem dedupInner_testBit (dup : Nat → Nat → Bool) (i : Nat) (js : List Nat) (u k : Nat) :
    (dedupInner dup i js u).testBit k = (u.testBit k && !(decide (k ∈ js) && dup i k)) := by
  unfold dedupInner
  induction js generalizing u with
  | nil => simp
  | cons j rest ih =>
    simp only [List.foldl_cons]
    rw [ih]
    have hstep : (if (isCapUsed u j && dup i j) = true then u - 1 <<< j else u).testBit k
        = (u.testBit k && !(decide (k = j) && dup i j)) := by
      rw [is_cap_used_testBit]
      by_cases hu : u.testBit j = true
      · by_cases hd : dup i j = true
        · simp only [hu, hd, Bool.and_self, if_true, Nat.one_shiftLeft]
          rw [sub_two_pow_testBit j u k hu]; simp
        · simp [hd]
      · have hu' : u.testBit j = false := by simpa using hu
        by_cases hk : k = j
        · subst hk; simp [hu']
        · simp [hu', hk]
    rw [hstep]
    by_cases hk : k = j
    · subst hk; cases u.testBit k <;> cases dup i k <;> simp
    · simp [hk]

/-- one pass of the outer loop of the doubles search -/
def outerStep (dup : Nat → Nat → Bool) (n : Nat) (u i : Nat) : Nat :=
  if isCapUsed u i then dedupInner dup i (List.range' (i + 1) (n - (i + 1))) u else u

theorem outerStep_testBit (dup : Nat → Nat → Bool) (n u m k : Nat) :
    (outerStep dup n u m).testBit k = true ↔
      (u.testBit k = true ∧ ¬ (u.testBit m = true ∧ m < k ∧ k < n ∧ dup m k = true)) := by
  unfold outerStep
  rw [is_cap_used_testBit]
  by_cases hm : u.testBit m = true
  · simp only [hm, if_true, dedupInner_testBit, List.mem_range'_1]
    simp only [Bool.and_eq_true, Bool.not_eq_true', Bool.and_eq_false_iff, decide_eq_false_iff_not]
    constructor
    · rintro ⟨h1, h2⟩
      refine ⟨h1, ?_⟩
      rintro ⟨_, h3, h4, h5⟩
      rcases h2 with h2 | h2
      · apply h2; omega
      · simp [h5] at h2
    · rintro ⟨h1, h2⟩
      refine ⟨h1, ?_⟩
      by_cases hd : dup m k = true
      · left; intro h3; apply h2; exact ⟨trivial, by omega, by omega, hd⟩
      · right; simpa using hd
  · simp [hm]

/-- invariant of the outer loop after the passes `i < m` -/
def OuterInv (dup : Nat → Nat → Bool) (n u0 m u : Nat) : Prop :=
  ∀ k, u.testBit k = true ↔
    (u0.testBit k = true ∧ ¬ (k < n ∧ ∃ i, i < m ∧ i < k ∧ u.testBit i = true ∧ dup i k = true))

theorem outer_inv (dup : Nat → Nat → Bool) (n u0 : Nat) :
    ∀ m, OuterInv dup n u0 m ((List.range m).foldl (outerStep dup n) u0) := by
  intro m
  induction m with
  | zero => intro k; simp
  | succ m ih =>
    rw [List.range_succ, List.foldl_append]
    simp only [List.foldl_cons, List.foldl_nil]
    generalize (List.range m).foldl (outerStep dup n) u0 = u at ih ⊢
    have hlow : ∀ i, i ≤ m → ((outerStep dup n u m).testBit i = true ↔ u.testBit i = true) := by
      intro i hi
      rw [outerStep_testBit]
      constructor
      · exact fun h => h.1
      · exact fun h => ⟨h, fun h' => by omega⟩
    intro k
    rw [outerStep_testBit, ih k]
    constructor
    · rintro ⟨⟨h0, h1⟩, h2⟩
      refine ⟨h0, ?_⟩
      rintro ⟨hkn, i, him, hik, hbi, hd⟩
      rw [hlow i (by omega)] at hbi
      by_cases hi : i = m
      · subst hi; exact h2 ⟨hbi, hik, hkn, hd⟩
      · exact h1 ⟨hkn, i, by omega, hik, hbi, hd⟩
    · rintro ⟨h0, h1⟩
      refine ⟨⟨h0, ?_⟩, ?_⟩
      · rintro ⟨hkn, i, him, hik, hbi, hd⟩
        exact h1 ⟨hkn, i, by omega, hik, (hlow i (by omega)).2 hbi, hd⟩
      · rintro ⟨hbm, hmk, hkn, hd⟩
        exact h1 ⟨hkn, m, by omega, hmk, (hlow m (le_refl m)).2 hbm, hd⟩

theorem dedupLoop_eq (dup : Nat → Nat → Bool) (n u : Nat) :
    dedupLoop dup n u = (List.range n).foldl (outerStep dup n) u := rfl


/-! ## helpers: polygon and window loops -/
set_option linter.unusedSectionVars false
section generic
variable {α : Type} [Trig α]

/-- pointwise reading of the `is_in_polygon` loop over the first `k` caps -/
def inPolyPt (P : Polygon α) (k : Nat) (p : Point α) : Bool :=
  (List.range k).all fun i =>
    !isCapUsed P.useCaps i || (match P.rows[i]? with | some c => isInCap c p | none => true)

theorem inPolyPt_succ (P : Polygon α) (k : Nat) (p : Point α) :
    inPolyPt P (k + 1) p = (inPolyPt P k p &&
      (!isCapUsed P.useCaps k || (match P.rows[k]? with | some c => isInCap c p | none => true))) := by
  simp [inPolyPt, List.range_succ, List.all_append]

theorem inPolyPt_iff (P : Polygon α) (k : Nat) (p : Point α) :
    inPolyPt P k p = true ↔
      ∀ i, i < k → P.useCaps.testBit i = true → ∀ c, P.rows[i]? = some c → isInCap c p = true := by
  simp only [inPolyPt, List.all_eq_true, List.mem_range, is_cap_used_testBit]
  constructor
  · intro h i hi hu c hc
    have := h i hi
    simp [hu, hc] at this
    exact this
  · intro h i hi
    cases hu : P.useCaps.testBit i
    · simp
    · cases hc : P.rows[i]? with
      | none => simp
      | some c => simpa using h i hi hu c hc

theorem zipWith_and_map (pts : List (Point α)) (f g : Point α → Bool) :
    List.zipWith (fun a b => a && b) (pts.map f) (pts.map g) = pts.map (fun p => f p && g p) := by
  induction pts with
  | nil => rfl
  | cons p rest ih => simp [ih]

theorem polyLoop_eq (P : Polygon α) (pts : List (Point α)) :
    ∀ k, k ≤ P.rows.length → polyLoop P pts k = .ok (pts.map (inPolyPt P k))
  | 0, _ => by
    simp only [polyLoop, pure, Except.pure]
    congr 1
  | k + 1, h => by
    have ih := polyLoop_eq P pts k (by omega)
    have hk : k < P.rows.length := by omega
    simp only [polyLoop, ih, bind, Except.bind]
    cases hu : isCapUsed P.useCaps k
    · simp only [Bool.false_eq_true, if_false, pure, Except.pure]
      congr 1
      apply List.map_congr_left
      intro p _
      rw [inPolyPt_succ, hu]; simp
    · simp only [if_true, List.getElem?_eq_getElem hk, pure, Except.pure, zipWith_and_map]
      congr 1
      apply List.map_congr_left
      intro p _
      rw [inPolyPt_succ, hu, List.getElem?_eq_getElem hk]; simp

theorem useNcaps_le (n : Nat) (k : Int) : useNcaps n k ≤ n := by
  unfold useNcaps; split <;> omega

/-- membership of one point in one polygon as `is_in_polygon(…, ncaps)` decides it -/
def inP (ncaps : Int) (P : Polygon α) (p : Point α) : Bool := inPolyPt P (useNcaps P.ncaps ncaps) p

/-- a polygon is well formed when it stores at least `ncaps` caps -/
def wfPoly (P : Polygon α) : Prop := P.ncaps ≤ P.rows.length

theorem isInPolygon_eq (P : Polygon α) (pts : List (Point α)) (ncaps : Int) (hwf : wfPoly P) :
    isInPolygon P pts ncaps = .ok (pts.map (inP ncaps P)) :=
  polyLoop_eq P pts _ (Nat.le_trans (useNcaps_le _ _) hwf)

/-- index of the first polygon (counting from `k`) that contains the point, else -1 -/
def firstFrom (ncaps : Int) : Nat → List (Polygon α) → Point α → Int
  | _, [], _ => -1
  | k, P :: rest, p => if inP ncaps P p then (k : Int) else firstFrom ncaps (k + 1) rest p

/-- one pass of the window loop, pointwise -/
def stepPt (f : Point α → Bool) (k : Nat) (s : Point α × Int) : Point α × Int :=
  if s.2 == -1 then (s.1, if f s.1 then (k : Int) else -1) else s

theorem scatter_eq (f : Point α → Bool) (k : Nat) (st : List (Point α × Int)) :
    scatter st ((notIn st).map f) k = st.map (stepPt f k) := by
  induction st with
  | nil => rfl
  | cons s st ih =>
    by_cases hs : (s.2 == -1) = true
    · have : notIn (s :: st) = s.1 :: notIn st := by simp [notIn, hs]
      rw [this]
      simp only [List.map_cons, scatter, hs, if_true, ih, stepPt]
    · have : notIn (s :: st) = notIn st := by simp [notIn, hs]
      rw [this]
      simp only [List.map_cons, scatter, hs, stepPt, ih]
      simp

theorem step_id (f : Point α → Bool) (k : Nat) (st : List (Point α × Int))
    (h : ∀ p ∈ notIn st, f p = false) : st.map (stepPt f k) = st := by
  induction st with
  | nil => rfl
  | cons s st ih =>
    have h1 : ∀ p ∈ notIn st, f p = false := by
      intro p hp; apply h
      simp only [notIn, List.mem_map, List.mem_filter] at hp ⊢
      obtain ⟨a, ⟨ha, hb⟩, rfl⟩ := hp
      exact ⟨a, ⟨List.mem_cons_of_mem _ ha, hb⟩, rfl⟩
    rw [List.map_cons, ih h1]
    congr 1
    by_cases hs : (s.2 == -1) = true
    · have hf : f s.1 = false := h s.1 (by
        simp only [notIn, List.mem_map, List.mem_filter]
        exact ⟨s, ⟨List.mem_cons_self, hs⟩, rfl⟩)
      have h2 : s.2 = -1 := by simpa using hs
      simp only [stepPt, hs, if_true, hf]
      rw [← h2]; rfl
    · simp [stepPt, hs]

theorem windowStep_eq (P : Polygon α) (ncaps : Int) (k : Nat) (st : List (Point α × Int)) (hwf : wfPoly P) :
    windowStep P ncaps k st = .ok (st.map (stepPt (inP ncaps P) k)) := by
  unfold windowStep
  simp only []
  by_cases h0 : (notIn st).length > 0
  · simp only [h0, if_true, isInPolygon_eq P _ ncaps hwf, bind, Except.bind]
    by_cases ha : ((notIn st).map (inP ncaps P)).any id = true
    · simp only [ha, if_true, pure, Except.pure, scatter_eq]
    · simp only [ha, pure, Except.pure]
      rw [step_id]
      · simp
      · intro p hp
        simp only [List.any_eq_true, not_exists, not_and, List.mem_map] at ha
        have := ha (inP ncaps P p) ⟨p, hp, rfl⟩
        simpa using this
  · simp only [h0, if_false, pure, Except.pure]
    rw [step_id]
    intro p hp
    have : notIn st = [] := by
      cases hn : notIn st with
      | nil => rfl
      | cons a b => rw [hn] at h0; simp at h0
    rw [this] at hp; simp at hp

theorem windowLoop_eq (ncaps : Int) : ∀ (polys : List (Polygon α)) (k : Nat) (st : List (Point α × Int)),
    (∀ P ∈ polys, wfPoly P) →
    windowLoop ncaps polys k st =
      .ok (st.map fun s => if s.2 == -1 then (s.1, firstFrom ncaps k polys s.1) else s)
  | [], k, st, _ => by
    simp only [windowLoop, pure, Except.pure, firstFrom]
    congr 1
    conv => lhs; rw [← List.map_id st]
    apply List.map_congr_left
    intro s _
    by_cases hs : (s.2 == -1) = true
    · have h2 : s.2 = -1 := by simpa using hs
      simp only [hs, if_true, id]; rw [← h2]
    · simp [hs]
  | P :: rest, k, st, hwf => by
    have hP : wfPoly P := hwf P List.mem_cons_self
    have hrest : ∀ Q ∈ rest, wfPoly Q := fun Q hQ => hwf Q (List.mem_cons_of_mem _ hQ)
    simp only [windowLoop, windowStep_eq P ncaps k st hP, bind, Except.bind,
      windowLoop_eq ncaps rest (k + 1) _ hrest, List.map_map]
    congr 1
    apply List.map_congr_left
    intro s _
    by_cases hs : (s.2 == -1) = true
    · by_cases hf : inP ncaps P s.1 = true
      · have hk : ¬ ((k : Int) == -1) = true := by simp only [beq_iff_eq]; omega
        simp [Function.comp, stepPt, hs, hf, firstFrom, hk]
      · simp [Function.comp, stepPt, hs, hf, firstFrom]
    · simp [Function.comp, stepPt, hs]


theorem wf_ofRecord (P : Polygon α) (h : wfPoly P) : wfPoly (ofRecord P) := by
  simp only [wfPoly, ofRecord, List.length_take] at *; omega

theorem inP_ofRecord (ncaps : Int) (P : Polygon α) (p : Point α) : inP ncaps (ofRecord P) p = inP ncaps P p := by
  rw [Bool.eq_iff_iff]
  simp only [inP, inPolyPt_iff, ofRecord, List.getElem?_take]
  have := useNcaps_le P.ncaps ncaps
  constructor
  · intro h i hi hu c hc
    exact h i hi hu c (by simp [hc]; omega)
  · intro h i hi hu c hc
    have hi' : i < P.ncaps := by omega
    simp only [hi', if_true] at hc
    exact h i hi hu c hc

theorem firstFrom_ofRecord (ncaps : Int) (polys : List (Polygon α)) (p : Point α) :
    ∀ k, firstFrom ncaps k (polys.map ofRecord) p = firstFrom ncaps k polys p := by
  induction polys with
  | nil => intro k; rfl
  | cons P rest ih => intro k; simp only [List.map_cons, firstFrom, inP_ofRecord, ih]

end generic

/-! ## property theorems -/
section generic
variable {α : Type} [Trig α]

/-- `is_in_polygon`: a point is inside exactly when every USED cap among the first
`usencaps = (ncaps > 0 ? min(ncaps, P.ncaps) : P.ncaps)` contains it -/
theorem polygon_and (P : Polygon α) (pts : List (Point α)) (ncaps : Int) (hwf : wfPoly P) :
    isInPolygon P pts ncaps = .ok (pts.map (inP ncaps P)) ∧
    ∀ p, (inP ncaps P p = true ↔
      ∀ i, i < useNcaps P.ncaps ncaps → P.useCaps.testBit i = true →
        ∀ c, P.rows[i]? = some c → isInCap c p = true) :=
  ⟨isInPolygon_eq P pts ncaps hwf, fun p => inPolyPt_iff P _ p⟩

/-- a polygon without caps, or without used caps, contains every point -/
theorem polygon_no_caps (P : Polygon α) (pts : List (Point α)) (ncaps : Int) (hwf : wfPoly P)
    (h : P.ncaps = 0 ∨ ∀ i, i < P.ncaps → P.useCaps.testBit i = false) :
    isInPolygon P pts ncaps = .ok (pts.map fun _ => true) := by
  rw [isInPolygon_eq P pts ncaps hwf]
  congr 1
  apply List.map_congr_left
  intro p _
  rw [inP, inPolyPt_iff]
  intro i hi hu
  have := useNcaps_le P.ncaps ncaps
  rcases h with h | h
  · omega
  · rw [h i (by omega)] at hu; cases hu

/-- restricting to the first `n > 0` caps gives the answer of the polygon cut to these caps:
the remaining caps are ignored -/
theorem polygon_ncaps_ignores_rest (P : Polygon α) (pts : List (Point α)) (n : Int) (hn : 0 < n)
    (hwf : wfPoly P) :
    isInPolygon P pts n =
      isInPolygon { ncaps := min n.toNat P.ncaps, useCaps := P.useCaps,
                    rows := P.rows.take (min n.toNat P.ncaps) } pts 0 := by
  have hwf' : wfPoly ({ ncaps := min n.toNat P.ncaps, useCaps := P.useCaps,
                        rows := P.rows.take (min n.toNat P.ncaps) } : Polygon α) := by
    simp only [wfPoly, List.length_take] at *; omega
  rw [isInPolygon_eq P pts n hwf, isInPolygon_eq _ pts 0 hwf']
  congr 1
  apply List.map_congr_left
  intro p _
  rw [Bool.eq_iff_iff]
  have h1 : useNcaps P.ncaps n = min n.toNat P.ncaps := by simp [useNcaps, hn]
  have h2 : useNcaps (min n.toNat P.ncaps) 0 = min n.toNat P.ncaps := by simp [useNcaps]
  simp only [inP, inPolyPt_iff, h1, h2, List.getElem?_take]
  constructor
  · intro h i hi hu c hc
    simp only [hi, if_true] at hc
    exact h i hi hu c hc
  · intro h i hi hu c hc
    exact h i hi hu c (by simp [hi, hc])

/-- `is_in_window`: every point gets the index of the first polygon in list order that contains
it, `(False, -1)` if none does -/
theorem window_first (polys : List (Polygon α)) (pts : List (Point α)) (ncaps : Int)
    (hwf : ∀ P ∈ polys, wfPoly P) :
    isInWindow polys pts ncaps =
      .ok (pts.map fun p => (decide (firstFrom ncaps 0 polys p ≥ 0), firstFrom ncaps 0 polys p)) := by
  simp only [isInWindow, windowLoop_eq ncaps polys 0 _ hwf, bind, Except.bind, pure, Except.pure,
    List.map_map]
  congr 1

/-- `firstFrom` is the least index: either no polygon contains the point and the value is -1,
or it is `k + i` for the least `i` whose polygon contains the point -/
theorem first_from_least (ncaps : Int) (p : Point α) : ∀ (polys : List (Polygon α)) (k : Nat),
    (firstFrom ncaps k polys p = -1 ∧ ∀ P ∈ polys, inP ncaps P p = false) ∨
    (∃ i, i < polys.length ∧ firstFrom ncaps k polys p = ((k + i : Nat) : Int) ∧
      (∃ P, polys[i]? = some P ∧ inP ncaps P p = true) ∧
      ∀ j, j < i → ∀ Q, polys[j]? = some Q → inP ncaps Q p = false)
  | [], k => by left; simp [firstFrom]
  | P :: rest, k => by
    by_cases hP : inP ncaps P p = true
    · right
      exact ⟨0, by simp, by simp [firstFrom, hP], ⟨P, by simp, hP⟩, fun j hj => by omega⟩
    · have hP' : inP ncaps P p = false := by simpa using hP
      rcases first_from_least ncaps p rest (k + 1) with ⟨h1, h2⟩ | ⟨i, hi, h1, ⟨Q, hQ, hQ'⟩, h3⟩
      · left
        refine ⟨by simp [firstFrom, hP', h1], ?_⟩
        intro Q hQ
        rcases List.mem_cons.1 hQ with rfl | hQ
        · exact hP'
        · exact h2 Q hQ
      · right
        refine ⟨i + 1, by simp; omega, ?_, ⟨Q, by simpa using hQ, hQ'⟩, ?_⟩
        · simp only [firstFrom, hP', Bool.false_eq_true, if_false, h1]; push_cast; omega
        · intro j hj R hR
          cases j with
          | zero => simp at hR; subst hR; exact hP'
          | succ j => exact h3 j (by omega) R (by simpa using hR)

/-- raw FITS rows and converted `ManglePolygon`s (rows cut to NCAPS) give identical answers -/
theorem window_formats_agree (polys : List (Polygon α)) (pts : List (Point α)) (ncaps : Int)
    (hwf : ∀ P ∈ polys, wfPoly P) :
    isInWindow (polys.map ofRecord) pts ncaps = isInWindow polys pts ncaps := by
  have hwf' : ∀ P ∈ polys.map ofRecord, wfPoly P := by
    intro P hP
    obtain ⟨Q, hQ, rfl⟩ := List.mem_map.1 hP
    exact wf_ofRecord Q (hwf Q hQ)
  rw [window_first _ pts ncaps hwf', window_first _ pts ncaps hwf]
  simp only [firstFrom_ofRecord]

/-- `ManglePolygon(FITS row)`: the first NCAPS stored caps, nothing else -/
theorem record_take (P : Polygon α) :
    (ofRecord P).ncaps = P.ncaps ∧ (ofRecord P).useCaps = P.useCaps ∧
    (∀ i, (ofRecord P).rows[i]? = if i < P.ncaps then P.rows[i]? else none) ∧
    (wfPoly P → (ofRecord P).rows.length = P.ncaps) := by
  refine ⟨rfl, rfl, fun i => by simp [ofRecord, List.getElem?_take], fun h => ?_⟩
  simp only [wfPoly, ofRecord, List.length_take] at *; omega

/-- `window_read(balkans=True)`: polygon k has NCAPS_k caps, all of them used, and cap i of
polygon k is `bcaps[ICAP_k + i]` -/
theorem balkans_slice (bcaps : List (Cap α)) : ∀ (blist : List BRow),
    (∀ b ∈ blist, b.icap + b.ncaps ≤ bcaps.length) →
    balkansAssemble blist bcaps =
      .ok (blist.map fun b => { ncaps := b.ncaps, useCaps := 2 ^ b.ncaps - 1,
                                rows := (bcaps.drop b.icap).take b.ncaps }) ∧
    ∀ b ∈ blist, ((bcaps.drop b.icap).take b.ncaps).length = b.ncaps ∧
      (∀ i, i < b.ncaps → ((bcaps.drop b.icap).take b.ncaps)[i]? = bcaps[b.icap + i]?) ∧
      (∀ i, (2 ^ b.ncaps - 1).testBit i = decide (i < b.ncaps)) := by
  intro blist h
  constructor
  · unfold balkansAssemble
    induction blist with
    | nil => rfl
    | cons b rest ih =>
      have hb := h b List.mem_cons_self
      have hl : ((bcaps.drop b.icap).take b.ncaps).length = b.ncaps := by
        simp only [List.length_take, List.length_drop]; omega
      rw [List.mapM_cons, ih (fun c hc => h c (List.mem_cons_of_mem _ hc))]
      simp only [sliceAssign, hl, if_true, bind, Except.bind, pure, Except.pure, Nat.one_shiftLeft,
        List.map_cons]
  · intro b hb
    have hb' := h b hb
    refine ⟨by simp only [List.length_take, List.length_drop]; omega, ?_, fun i => Nat.testBit_two_pow_sub_one _ _⟩
    intro i hi
    simp [hi, List.getElem?_drop]

end generic

/-- `set_use_caps`, bit by bit: bit j of the result is set exactly when j is listed (or was set
before and `add`), and - unless `allow_doubles` - cap j is not a double of a cap i < j whose bit
is set in the result (a "later duplicate of a kept cap") -/
theorem use_caps_bits {α : Type} [Trig α] (rows : List (Cap α)) (useCaps : Nat) (idx : List Nat)
    (add : Bool) (tol : α) (ad an : Bool) (j : Nat) :
    (setUseCaps rows useCaps idx add tol ad an).testBit j = true ↔
      (((add = true ∧ useCaps.testBit j = true) ∨ j ∈ idx) ∧
       ¬ (ad = false ∧ j < rows.length ∧ ∃ i, i < j ∧
            (setUseCaps rows useCaps idx add tol ad an).testBit i = true ∧
            dupAt rows tol an i j = true)) := by
  have h0 : ∀ k, (orBits (if add = true then useCaps else 0) idx).testBit k = true ↔
      ((add = true ∧ useCaps.testBit k = true) ∨ k ∈ idx) := by
    intro k
    rw [or_bits_testBit]
    cases add <;> simp
  cases ad with
  | true => simp [setUseCaps, h0]
  | false =>
    simp only [setUseCaps, Bool.false_eq_true, if_false, dedupLoop_eq]
    have := outer_inv (dupAt rows tol an) rows.length (orBits (if add = true then useCaps else 0) idx)
      rows.length j
    rw [this, h0]
    constructor
    · rintro ⟨h1, h2⟩
      refine ⟨h1, ?_⟩
      rintro ⟨_, hj, i, hij, hb, hd⟩
      exact h2 ⟨hj, i, by omega, hij, hb, hd⟩
    · rintro ⟨h1, h2⟩
      refine ⟨h1, ?_⟩
      rintro ⟨hj, i, _, hij, hb, hd⟩
      exact h2 ⟨trivial, hj, i, hij, hb, hd⟩

/-- with `allow_doubles` exactly the listed bits (plus the old ones when `add`) are set -/
theorem use_caps_allow_doubles {α : Type} [Trig α] (rows : List (Cap α)) (useCaps : Nat)
    (idx : List Nat) (add : Bool) (tol : α) (an : Bool) (j : Nat) :
    (setUseCaps rows useCaps idx add tol true an).testBit j =
      ((add && useCaps.testBit j) || decide (j ∈ idx)) := by
  simp only [setUseCaps, if_true, or_bits_testBit]
  cases add <;> simp


/-! ## the cap test over the reals -/
section real
attribute [local instance] realTrig
attribute [local instance 1] Scalar.instOfNat Scalar.instOfScientific
open Real

theorem absS_real (v : ℝ) : absS v = |v| := by
  unfold absS
  simp only [scalar_lit, Nat.cast_zero]
  split
  · rw [abs_of_neg ‹_›]
  · rw [abs_of_nonneg (not_lt.1 ‹_›)]

theorem clip1_real (d : ℝ) : clip1 d = max (-1) (min 1 d) := by
  unfold clip1
  simp only [scalar_lit, Nat.cast_one]
  split
  · rw [min_eq_right (by linarith), max_eq_left (by linarith)]
  · split
    · rw [min_eq_left (by linarith), max_eq_right (by linarith)]
    · rw [min_eq_right (by linarith), max_eq_right (by linarith)]

theorem degrees_nonneg_iff (v : ℝ) : 0 ≤ degrees v ↔ 0 ≤ v := by
  unfold degrees
  simp only [scalar_lit]
  have : (0 : ℝ) < ((180 : ℕ) : ℝ) / Trig.pi := div_pos (by norm_num) Real.pi_pos
  constructor
  · intro h; exact (mul_nonneg_iff_of_pos_right this).1 h
  · intro h; exact mul_nonneg h this.le

theorem arccos_clip (d : ℝ) : Real.arccos (clip1 d) = Real.arccos d := by
  rw [clip1_real]
  by_cases h1 : d ≤ -1
  · rw [min_eq_right (by linarith), max_eq_left h1, Real.arccos_of_le_neg_one h1,
      Real.arccos_of_le_neg_one (le_refl _)]
  · by_cases h2 : 1 ≤ d
    · rw [min_eq_left h2, max_eq_right (by linarith), Real.arccos_one, Real.arccos_eq_zero.2 h2]
    · rw [min_eq_right (by linarith), max_eq_right (by linarith)]

/-- positive cap, as a function of the dot product: `arccos(1-cm) - arccos d ≥ 0 ↔ 1 - d ≤ cm` -/
theorem capDistanceD_pos (cm d : ℝ) (h0 : 0 ≤ cm) (h2 : cm ≤ 2) (hd1 : -1 ≤ d) (hd2 : d ≤ 1) :
    0 ≤ capDistanceD cm d ↔ 1 - d ≤ cm := by
  unfold capDistanceD
  simp only [scalar_lit, Nat.cast_zero, Nat.cast_one, not_lt.2 h0, if_false, degrees_nonneg_iff,
    absS_real, abs_of_nonneg h0]
  show 0 ≤ Real.arccos (1 - cm) - Real.arccos d ↔ _
  rw [sub_nonneg, Real.strictAntiOn_arccos.le_iff_ge ⟨hd1, hd2⟩ ⟨by linarith, by linarith⟩]
  constructor <;> intro h <;> linarith

/-- negative cap: the code decides `1 - d ≥ |cm|` (complement of the open cap) -/
theorem capDistanceD_neg (cm d : ℝ) (h0 : cm < 0) (h2 : -2 ≤ cm) (hd1 : -1 ≤ d) (hd2 : d ≤ 1) :
    0 ≤ capDistanceD cm d ↔ -cm ≤ 1 - d := by
  unfold capDistanceD
  simp only [scalar_lit, Nat.cast_zero, Nat.cast_one, h0, if_true, absS_real, abs_of_neg h0]
  rw [mul_neg, mul_one, neg_nonneg]
  have hdeg : ∀ v : ℝ, degrees v ≤ 0 ↔ v ≤ 0 := by
    intro v
    have := degrees_nonneg_iff (-v)
    unfold degrees at *
    simp only [neg_mul, neg_nonneg] at this
    exact this
  rw [hdeg]
  show Real.arccos (1 - -cm) - Real.arccos d ≤ 0 ↔ _
  rw [sub_nonpos, Real.strictAntiOn_arccos.le_iff_ge ⟨by linarith, by linarith⟩ ⟨hd1, hd2⟩]
  constructor <;> intro h <;> linarith

theorem clip1_mem (d : ℝ) : -1 ≤ clip1 d ∧ clip1 d ≤ 1 := by
  rw [clip1_real]; exact ⟨le_max_left _ _, max_le (by norm_num) (min_le_left _ _)⟩

/-- over the reals the clip does not change the decision: `arccos` is already constant
outside [-1, 1] -/
theorem cap_clip_real (cm d : ℝ) : capDistanceD cm (clip1 d) = capDistanceD cm d := by
  have h : (Trig.arccos (clip1 d) : ℝ) = Trig.arccos d := arccos_clip d
  simp only [capDistanceD, h]

theorem dot_unit_bounds (a b c x y z : ℝ) (hp : a * a + b * b + c * c = 1) (hc : x * x + y * y + z * z = 1) :
    -1 ≤ a * x + b * y + c * z ∧ a * x + b * y + c * z ≤ 1 := by
  constructor
  · nlinarith [sq_nonneg (a + x), sq_nonneg (b + y), sq_nonneg (c + z)]
  · nlinarith [sq_nonneg (a - x), sq_nonneg (b - y), sq_nonneg (c - z)]

/-- RA/Dec input is converted to a unit vector -/
theorem radec_unit (ra dec : ℝ) :
    let q := (Point.radec ra dec).toXyz
    q.1 * q.1 + q.2.1 * q.2.1 + q.2.2 * q.2.2 = 1 := by
  simp only [Point.toXyz, anglesToX]
  show (Real.cos _ * Real.sin _) * (Real.cos _ * Real.sin _) + (Real.sin _ * Real.sin _) * (Real.sin _ * Real.sin _)
    + Real.cos _ * Real.cos _ = 1
  generalize radians ra = φ
  generalize radians (90 - dec) = θ
  nlinarith [Real.sin_sq_add_cos_sq φ, Real.sin_sq_add_cos_sq θ]

/-- cap with cm ≥ 0: a point (Cartesian or RA/Dec alike) is inside exactly when
`1 - x·p ≤ cm`, where `x·p` is the dot product clipped to [-1,1] (no change for unit vectors) -/
theorem cap_formula (c : Cap ℝ) (p : Point ℝ) (h0 : 0 ≤ c.cm) (h2 : c.cm ≤ 2) :
    isInCap c p = true ↔ 1 - clip1 (dot p.toXyz c) ≤ c.cm := by
  unfold isInCap capDistance
  rw [decide_eq_true_iff]
  have := clip1_mem (dot p.toXyz c)
  have h := capDistanceD_pos c.cm (clip1 (dot p.toXyz c)) h0 h2 this.1 this.2
  simpa only [scalar_lit, Nat.cast_zero] using h

/-- cap with cm < 0: inside exactly when `1 - x·p ≥ |cm|`, i.e. the complement of the cap of size
|cm| together with its boundary circle (the statement's "complement" up to that circle) -/
theorem cap_formula_neg (c : Cap ℝ) (p : Point ℝ) (h0 : c.cm < 0) (h2 : -2 ≤ c.cm) :
    (isInCap c p = true ↔ -c.cm ≤ 1 - clip1 (dot p.toXyz c)) ∧
    (¬ (1 - clip1 (dot p.toXyz c) ≤ -c.cm) → isInCap c p = true) ∧
    (isInCap c p = true → ¬ (1 - clip1 (dot p.toXyz c) < -c.cm)) := by
  have key : isInCap c p = true ↔ -c.cm ≤ 1 - clip1 (dot p.toXyz c) := by
    unfold isInCap capDistance
    rw [decide_eq_true_iff]
    have := clip1_mem (dot p.toXyz c)
    have h := capDistanceD_neg c.cm (clip1 (dot p.toXyz c)) h0 h2 this.1 this.2
    simpa only [scalar_lit, Nat.cast_zero] using h
  exact ⟨key, fun h => key.2 (le_of_lt (not_le.1 h)), fun h => not_lt.2 (key.1 h)⟩

/-- for unit vectors the clip is the identity: the test is on `x·p` itself -/
theorem clip_dot_unit (c : Cap ℝ) (a b d : ℝ) (hp : a * a + b * b + d * d = 1)
    (hc : c.x * c.x + c.y * c.y + c.z * c.z = 1) :
    clip1 (dot (a, b, d) c) = a * c.x + b * c.y + d * c.z := by
  have hb := dot_unit_bounds a b d c.x c.y c.z hp hc
  rw [clip1_real]
  show max (-1) (min 1 (a * c.x + b * c.y + d * c.z)) = _
  rw [min_eq_right hb.2, max_eq_right hb.1]

/-- the point at a cap's own centre is inside the cap (cm ≥ 0), and outside every negative cap
except the degenerate one -/
theorem cap_centre_inside (c : Cap ℝ) (hc : c.x * c.x + c.y * c.y + c.z * c.z = 1)
    (h0 : 0 ≤ c.cm) (h2 : c.cm ≤ 2) : isInCap c (.xyz c.x c.y c.z) = true := by
  rw [cap_formula c _ h0 h2]
  show 1 - clip1 (dot (c.x, c.y, c.z) c) ≤ c.cm
  rw [clip_dot_unit c c.x c.y c.z hc hc]
  linarith

/-! ### circle_cap -/

theorem radians_real (r : ℝ) : radians r = r * (Real.pi / 180) := by
  unfold radians
  simp only [scalar_lit]
  norm_num
  left; rfl

/-- `circle_cap(r, p)` (0 ≤ r ≤ 180 degrees) contains exactly the points whose angular separation from `p`
(`arccos` of the clipped dot product; the dot product itself for unit vectors, `clip_dot_unit`) is at most `r` degrees
(`radians r = r·π/180`, `radians_real`); Cartesian and RA/Dec input alike, for the centre as for the points -/
theorem circle_cap_within (r : ℝ) (p q : Point ℝ) (h0 : 0 ≤ r) (h1 : r ≤ 180) :
    isInCap (circleCap r p) q = true ↔ Real.arccos (clip1 (dot q.toXyz (circleCap r p))) ≤ radians r := by
  have hrad := radians_real r
  have hr0 : 0 ≤ radians r := by rw [hrad]; positivity
  have hrpi : radians r ≤ Real.pi := by rw [hrad]; nlinarith [Real.pi_pos]
  have hcm : (circleCap r p).cm = 1 - Real.cos (radians r) := by
    simp only [circleCap, scalar_lit, Nat.cast_one]
    rfl
  have hc1 := Real.cos_le_one (radians r)
  have hc2 := Real.neg_one_le_cos (radians r)
  rw [cap_formula _ q (by rw [hcm]; linarith) (by rw [hcm]; linarith), hcm]
  have hm := clip1_mem (dot q.toXyz (circleCap r p))
  constructor
  · intro h
    have hle : Real.cos (radians r) ≤ clip1 (dot q.toXyz (circleCap r p)) := by linarith
    calc Real.arccos (clip1 (dot q.toXyz (circleCap r p))) ≤ Real.arccos (Real.cos (radians r)) :=
          Real.arccos_le_arccos hle
      _ = radians r := Real.arccos_cos hr0 hrpi
  · intro h
    have := Real.cos_le_cos_of_nonneg_of_le_pi (Real.arccos_nonneg _) hrpi h
    rw [Real.cos_arccos hm.1 hm.2] at this
    linarith

/-- the centre of `circle_cap(r, p)` is `p` itself (as a Cartesian vector) and `cm = 1 - cos r` lies in [0, 2] -/
theorem circle_cap_fields (r : ℝ) (p : Point ℝ) :
    ((circleCap r p).x, (circleCap r p).y, (circleCap r p).z) = p.toXyz ∧
    0 ≤ (circleCap r p).cm ∧ (circleCap r p).cm ≤ 2 := by
  have hcm : (circleCap r p).cm = 1 - Real.cos (radians r) := by
    simp only [circleCap, scalar_lit, Nat.cast_one]
    rfl
  have hc1 := Real.cos_le_one (radians r)
  have hc2 := Real.neg_one_le_cos (radians r)
  refine ⟨rfl, by rw [hcm]; linarith, by rw [hcm]; linarith⟩

end real

/-! ## non-vacuity: the hypotheses are met by concrete inputs -/
section examples
attribute [local instance] realTrig
attribute [local instance 1] Scalar.instOfNat Scalar.instOfScientific

example : wfPoly ({ ncaps := 1, useCaps := 1, rows := [⟨0, 0, 1, 1⟩, ⟨1, 0, 0, 1⟩] } : Polygon ℝ) := by
  simp [wfPoly]

example : let c : Cap ℝ := ⟨0, 0, 1, 1⟩
    c.x * c.x + c.y * c.y + c.z * c.z = 1 ∧ 0 ≤ c.cm ∧ c.cm ≤ 2 := by norm_num

example : ∀ b ∈ [(⟨0, 2⟩ : BRow), ⟨1, 1⟩], b.icap + b.ncaps ≤ [(⟨0, 0, 1, 1⟩ : Cap ℝ), ⟨1, 0, 0, 1⟩].length := by
  simp


/-- the cap of radius 90° about the pole contains the pole (hypotheses of `cap_centre_inside` met) -/
example : isInCap (⟨0, 0, 1, 1⟩ : Cap ℝ) (.xyz 0 0 1) = true :=
  cap_centre_inside ⟨0, 0, 1, 1⟩ (by norm_num) (by norm_num) (by norm_num)

end examples


/-! ## The Mangle ASCII polygon format (`read_mangle_polygons`, model `Model/ManglePly.lean`, lemmas `Lemmas/ManglePly.lean`) -/
section ply
open PydlVerif.ManglePly
variable {α : Type}

/-- the polygon the window functions see: `ncaps`, `use_caps = (1 << ncaps) - 1`, the caps -/
def plyToPolygon (P : PlyPoly α) : Polygon α :=
  { ncaps := P.ncaps, useCaps := P.useCaps, rows := P.rows.map fun c => ⟨c.x, c.y, c.z, c.cm⟩ }

theorem ply_polygon_wf (P : PlyPoly α) : wfPoly (plyToPolygon P) := by
  simp [wfPoly, plyToPolygon, PlyPoly.ncaps]

/-- the reader's use-mask selects exactly the caps of the file: bit i set iff i < ncaps -/
theorem ply_use_caps_all (P : PlyPoly α) (i : Nat) : P.useCaps.testBit i = true ↔ i < P.ncaps := by
  simp [PlyPoly.useCaps, PlyPoly.ncaps, Nat.testBit_two_pow_sub_one, Nat.shiftLeft_eq]

/-- (a) ROUND TRIP, on the lexed form of the canonical file (`N polygons`, any keyword lines, per polygon the header with
caps / weight / pixel / optional str and one line per cap): for ANY number of polygons with ANY caps, weights, pixels, areas
the reader returns exactly the keyword lines and the polygon list (ids, weights, pixels, str, every cap; `ncaps` and the all-caps
mask are functions of the caps).  Only hypotheses: `float(text)` reads back what the writer wrote (`hF`), Python's `int`
reads back the integers that occur (`hI`, `h0`), and every polygon has at least one cap (`hne`; see `ply_zero_caps_refused`). -/
theorem ply_roundtrip_lex (parseF : List Char → Option α) (one : α) (fmtF : α → List Char) (fmtI : Int → List Char)
    (hF : ∀ x, parseF (fmtF x) = some x) (kw : List (List Char)) (polys : List (PlyPoly α))
    (hI : ∀ P ∈ polys, IntsOk fmtI P) (hne : ∀ P ∈ polys, P.rows ≠ []) (hp : polys ≠ [])
    (h0 : (pyInt (fmtI (Int.ofNat polys.length))).isSome) :
    parseLex parseF one (canonLex fmtF fmtI kw polys) = .ok (kw, polys) :=
  parseLex_canon parseF one fmtF fmtI hF kw polys hI hne hp h0

/-- (a) on the characters of the file.  FULL STATEMENT WANTED: `parsePly (renderPly kw polys) = ok (kw, polys)` from `hF`, `hI`,
`hne` and "number texts contain no whitespace, comma, parenthesis and do not begin with `polygon`".  PROVED here with the
lexical step as the explicit hypothesis `hlex` (the hand-written scanners `strip` / `split` / `r1` / `split(',')` applied to the
rendered text give the canonical lexed lines); `hlex` is checked by evaluation for concrete files below and, for every
generated file of every run, by the `plylex` stream against Python's own `str` / `re`. -/
theorem ply_roundtrip_partial (parseF : List Char → Option α) (one : α) (fmtF : α → List Char) (fmtI : Int → List Char)
    (hF : ∀ x, parseF (fmtF x) = some x) (kw : List (List Char)) (polys : List (PlyPoly α))
    (hI : ∀ P ∈ polys, IntsOk fmtI P) (hne : ∀ P ∈ polys, P.rows ≠ []) (hp : polys ≠ [])
    (h0 : (pyInt (fmtI (Int.ofNat polys.length))).isSome)
    (hlex : lexFile (renderPly fmtF fmtI kw polys) = canonLex fmtF fmtI kw polys) :
    parsePly parseF one (renderPly fmtF fmtI kw polys) = .ok (kw, polys) := by
  unfold parsePly
  rw [hlex]
  exact parseLex_canon parseF one fmtF fmtI hF kw polys hI hne hp h0

/-- (b) membership is format independent end to end: window lookup over the polygons READ from the text equals window lookup
over the polygons themselves, and equals the lookup over the same polygons stored as FITS rows with padding
(`window_formats_agree`).  Same lexical hypothesis as `ply_roundtrip_partial`. -/
theorem ply_window_format_independent_partial [Trig α] (parseF : List Char → Option α) (one : α) (fmtF : α → List Char)
    (fmtI : Int → List Char) (hF : ∀ x, parseF (fmtF x) = some x) (kw : List (List Char)) (polys : List (PlyPoly α))
    (hI : ∀ P ∈ polys, IntsOk fmtI P) (hne : ∀ P ∈ polys, P.rows ≠ []) (hp : polys ≠ [])
    (h0 : (pyInt (fmtI (Int.ofNat polys.length))).isSome)
    (hlex : lexFile (renderPly fmtF fmtI kw polys) = canonLex fmtF fmtI kw polys)
    (pts : List (Point α)) (ncaps : Int) :
    (match parsePly parseF one (renderPly fmtF fmtI kw polys) with
     | .ok r => isInWindow (r.2.map plyToPolygon) pts ncaps
     | .error e => .error e) = isInWindow (polys.map plyToPolygon) pts ncaps ∧
    isInWindow ((polys.map plyToPolygon).map ofRecord) pts ncaps = isInWindow (polys.map plyToPolygon) pts ncaps := by
  rw [ply_roundtrip_partial parseF one fmtF fmtI hF kw polys hI hne hp h0 hlex]
  refine ⟨rfl, window_formats_agree _ pts ncaps ?_⟩
  intro P hP
  obtain ⟨Q, _, rfl⟩ := List.mem_map.1 hP
  exact ply_polygon_wf Q

/-- (c) malformed first line: the first word is not an integer literal -> `PydlutilsException` (and nothing is parsed) -/
theorem ply_bad_first_line (parseF : List Char → Option α) (one : α) (l0 : LexLine) (rest : List LexLine) (t : List Char)
    (ts : List (List Char)) (hraw : l0.raw.isEmpty = false) (ht : l0.toks = t :: ts) (hint : pyInt t = none) :
    parseLex parseF one (l0 :: rest) = .error "PydlutilsException" :=
  parseLex_bad_first parseF one l0 rest t ts hraw ht hint

/-- (c) an empty file or an empty first line: `IndexError` -/
theorem ply_no_first_line (parseF : List Char → Option α) (one : α) (l0 : LexLine) (rest : List LexLine)
    (hraw : l0.raw.isEmpty = true) :
    parseLex parseF one ([] : List LexLine) = .error "IndexError" ∧ parseLex parseF one (l0 :: rest) = .error "IndexError" :=
  parseLex_no_first parseF one l0 rest hraw

/-- (c) cap count: whatever the per-polygon step accepts has EXACTLY the announced number of caps, every cap is a line present
in the file behind the header, and there is at least one.  Hence: announced count ≠ lines read, announced count larger than
the lines left in the file, a negative or zero count -> refused. -/
theorem ply_count_mismatch_refused (parseF : List Char → Option α) (one : α) (lines : List LexLine) (p : Nat) (P : PlyPoly α)
    (h : parseBlock parseF one lines p = .ok P) :
    announced parseF lines p = some (Int.ofNat P.rows.length) ∧ p + 1 + P.rows.length ≤ lines.length ∧ 1 ≤ P.rows.length :=
  parseBlock_count parseF one lines p P h

/-- (c) in particular a header that announces more caps than there are lines left in the file is refused -/
theorem ply_missing_rows_refused (parseF : List Char → Option α) (one : α) (lines : List LexLine) (p : Nat) (caps : Int)
    (ha : announced parseF lines p = some caps) (hmore : Int.ofNat lines.length < Int.ofNat (p + 1) + caps) :
    ∀ P, parseBlock parseF one lines p ≠ .ok P := by
  intro P h
  obtain ⟨h1, h2, _⟩ := parseBlock_count parseF one lines p P h
  rw [ha] at h1
  simp only [Option.some.injEq] at h1
  subst h1
  simp only [Int.ofNat_eq_natCast] at hmore
  omega

/-- (c) a zero-cap polygon in a `.ply` file is refused by the reader (`np.array([]).shape == (0,)`, the assert wants `(0, 3)`) -/
theorem ply_zero_caps_refused (parseF : List Char → Option α) (one : α) (lines : List LexLine) (p : Nat)
    (ha : announced parseF lines p = some 0) : ∀ P, parseBlock parseF one lines p ≠ .ok P := by
  intro P h
  obtain ⟨h1, _, h3⟩ := parseBlock_count parseF one lines p P h
  rw [ha] at h1
  simp only [Option.some.injEq, Int.ofNat_eq_natCast] at h1
  omega

end ply

/-! ## add_caps / polyn / copy -/
section ext
variable {α : Type} [Trig α]

theorem useNcaps_lt_iff (a k : Nat) (n : Int) (i : Nat) (hi : i < a) :
    i < useNcaps (a + k) n ↔ i < useNcaps a n := by
  by_cases h : n > 0 <;> simp only [useNcaps, h, if_true, if_false] <;> omega

theorem useNcaps_le' (a : Nat) (n : Int) : useNcaps a n ≤ a := by
  by_cases h : n > 0 <;> simp only [useNcaps, h, if_true, if_false] <;> omega

/-- `add_caps`: the caps are appended and stored, but the use-mask is kept, so (for a mask without bits beyond the old
`ncaps`, which every reader and `set_use_caps` produce) membership is UNCHANGED until `set_use_caps` selects the new caps -/
theorem add_caps_membership (P : Polygon α) (new : List (Cap α)) (hx : P.rows.length = P.ncaps)
    (hu : P.useCaps < 2 ^ P.ncaps) (n : Int) (p : Point α) :
    ∃ Q, addCaps P new = .ok Q ∧ Q.ncaps = P.ncaps + new.length ∧ Q.rows = P.rows ++ new ∧ Q.useCaps = P.useCaps ∧
      wfPoly Q ∧ inP n Q p = inP n P p := by
  refine ⟨{ ncaps := P.ncaps + new.length, useCaps := P.useCaps, rows := P.rows ++ new }, by rw [addCaps, if_pos hx],
    rfl, rfl, rfl, by simp [wfPoly, hx], ?_⟩
  have hbit : ∀ i, P.ncaps ≤ i → P.useCaps.testBit i = false := fun i hi =>
    Nat.testBit_lt_two_pow (Nat.lt_of_lt_of_le hu (Nat.pow_le_pow_right (by norm_num) hi))
  rw [Bool.eq_iff_iff, inP, inP, inPolyPt_iff, inPolyPt_iff]
  simp only []
  constructor
  · intro h i hi hb c hc
    have hin : i < P.ncaps := Nat.lt_of_lt_of_le hi (useNcaps_le' _ _)
    refine h i ((useNcaps_lt_iff _ _ n i hin).2 hi) hb c ?_
    · rw [List.getElem?_append_left (by omega)]; exact hc
  · intro h i hi hb c hc
    have hin : i < P.ncaps := by
      by_contra hcon
      rw [hbit i (by omega)] at hb
      exact Bool.false_ne_true hb
    refine h i ((useNcaps_lt_iff _ _ n i hin).1 hi) hb c ?_
    · rw [List.getElem?_append_left (by omega)] at hc; exact hc

/-- once the new caps are selected as well (`use_caps` = old mask plus the bits `ncaps .. ncaps+k-1`), membership in the
polygon built by `add_caps` is the AND of the old polygon and every new cap: the intersection -/
theorem add_caps_selected_and (P : Polygon α) (new : List (Cap α)) (hx : P.rows.length = P.ncaps)
    (hu : P.useCaps < 2 ^ P.ncaps) (u : Nat)
    (hsel : ∀ i, u.testBit i = (P.useCaps.testBit i || (decide (P.ncaps ≤ i) && decide (i < P.ncaps + new.length))))
    (p : Point α) :
    inP 0 { ncaps := P.ncaps + new.length, useCaps := u, rows := P.rows ++ new } p =
      (inP 0 P p && new.all fun c => isInCap c p) := by
  have hbit : ∀ i, P.ncaps ≤ i → P.useCaps.testBit i = false := fun i hi =>
    Nat.testBit_lt_two_pow (Nat.lt_of_lt_of_le hu (Nat.pow_le_pow_right (by norm_num) hi))
  rw [Bool.eq_iff_iff, Bool.and_eq_true, inP, inP, inPolyPt_iff, inPolyPt_iff, List.all_eq_true]
  simp only [useNcaps, show ¬ ((0 : Int) > 0) by omega, if_false]
  constructor
  · intro h
    refine ⟨fun i hi hb c hc => h i (by omega) (by rw [hsel, hb]; rfl) c
      (by rw [List.getElem?_append_left (by omega)]; exact hc), fun c hc => ?_⟩
    obtain ⟨j, hj, rfl⟩ := List.getElem_of_mem hc
    refine h (P.ncaps + j) (by omega) (by rw [hsel]; simp; omega) _ ?_
    rw [List.getElem?_append_right (by omega)]
    simp [hx, hj]
  · rintro ⟨h1, h2⟩ i hi hb c hc
    by_cases hin : i < P.ncaps
    · rw [List.getElem?_append_left (by omega)] at hc
      rw [hsel] at hb
      have : P.useCaps.testBit i = true := by
        simpa [show ¬ (P.ncaps ≤ i) by omega] using hb
      exact h1 i hin this c hc
    · rw [List.getElem?_append_right (by omega)] at hc
      exact h2 c (List.mem_of_getElem? hc)

/-- one-cap FITS tables (scalar `XCAPS` / `CMCAPS` columns; the D20 case): the converted polygon keeps NCAPS, USE_CAPS and the
single stored cap (`hz`: adding it to the zero array returns it - every real, every float but -0.0, which becomes 0.0)
- also when NCAPS = 0, where the general branch (`record_take`) would keep no cap; for NCAPS = 1 both
branches agree, and in every case window lookup over the converted rows equals lookup over the raw rows -/
theorem record_scalar (P : Polygon α) (c : Cap α) (h : P.rows = [c])
    (hz : (0 : α) + c.x = c.x ∧ (0 : α) + c.y = c.y ∧ (0 : α) + c.z = c.z ∧ (0 : α) + c.cm = c.cm) :
    ofRecordScalar P = .ok P ∧ (P.ncaps = 1 → ofRecord P = P) ∧ (wfPoly P ↔ P.ncaps ≤ 1) := by
  obtain ⟨n, u, rows⟩ := P
  simp only at h
  subst h
  obtain ⟨c1, c2, c3, c4⟩ := c
  simp only at hz
  refine ⟨by simp only [ofRecordScalar, hz.1, hz.2.1, hz.2.2.1, hz.2.2.2], ?_, by simp [wfPoly]⟩
  intro h1
  simp only at h1
  subst h1
  rfl

/-- `polyn(other, n, complement)` appends cap `n` of `other` (sign flipped for `complement`) and is refused
(`IndexError`) exactly when `other` has no such cap -/
theorem polyn_spec (P other : Polygon α) (n : Nat) (compl : Bool) :
    (other.rows[n]? = none → polyn P other n compl = .error "IndexError") ∧
    (∀ c, other.rows[n]? = some c →
      polyn P other n compl = addCaps P [{ c with cm := (if compl then -1 else 1) * c.cm }]) := by
  constructor
  · intro h; simp [polyn, h]
  · intro c h; simp [polyn, h]

end ext

section plyExamples
open PydlVerif.ManglePly

/-- a toy number type with a text form that reads back: the hypotheses of the round trip are satisfiable -/
def exFmtF (b : Bool) : List Char := if b then ['1', '.', '5', 'e', '-', '3'] else ['-', '0', '.', '2', '5']
def exParseF (t : List Char) : Option Bool :=
  if t = ['1', '.', '5', 'e', '-', '3'] then some true else if t = ['-', '0', '.', '2', '5'] then some false else none
def exFmtI (i : Int) : List Char := (toString i).toList
def exPolys : List (PlyPoly Bool) :=
  [{ id := 7, weight := true, pixel := -1, str := some false, rows := [⟨true, false, false, true⟩, ⟨false, false, true, false⟩] },
   { id := 12, weight := false, pixel := 305, str := none, rows := [⟨false, true, true, true⟩] }]
def exKw : List (List Char) := ["snapped".toList, "pixelization 6s".toList]

example : ∀ x, exParseF (exFmtF x) = some x := by decide
example : ∀ P ∈ exPolys, IntsOk exFmtI P := by
  intro P hP
  simp only [exPolys, List.mem_cons, List.not_mem_nil, or_false] at hP
  rcases hP with rfl | rfl <;> (unfold IntsOk; decide)
example : ∀ P ∈ exPolys, P.rows ≠ [] := by decide
/-- the lexical hypothesis `hlex` holds for this file: the scanners turn the rendered characters into the canonical lines -/
example : lexFile (renderPly exFmtF exFmtI exKw exPolys) = canonLex exFmtF exFmtI exKw exPolys := by decide
/-- and the whole reader, run on the characters, returns the polygons -/
example : parsePly exParseF true (renderPly exFmtF exFmtI exKw exPolys) = .ok (exKw, exPolys) := by decide
/-- refusals are met by concrete files -/
example : parsePly exParseF true "x polygons\n".toList = .error "PydlutilsException" := by decide
example : parsePly exParseF true "1 polygons\npolygon 0 ( 2 caps, 1.5e-3 weight):\n 1.5e-3 -0.25 -0.25 1.5e-3\n".toList
    = .error "AssertionError" := by decide
example : parsePly exParseF true "1 polygons\npolygon 0 ( 0 caps, 1.5e-3 weight):\n".toList = .error "AssertionError" := by decide

end plyExamples

/-- the literals of the real-number statements are the ordinary real numbers (checked outside the
section that installs the model's literal instances) -/
example (c : Cap ℝ) (p : Point ℝ) (h0 : (0 : ℝ) ≤ c.cm) (h2 : c.cm ≤ (2 : ℝ)) :
    @isInCap ℝ realTrig c p = true ↔
      (1 : ℝ) - @clip1 ℝ realTrig (@dot ℝ realTrig (@Point.toXyz ℝ realTrig p) c) ≤ c.cm :=
  cap_formula c p h0 h2

example (c : Cap ℝ) (a b d : ℝ) (hp : a * a + b * b + d * d = (1 : ℝ))
    (hc : c.x * c.x + c.y * c.y + c.z * c.z = (1 : ℝ)) :
    @clip1 ℝ realTrig (@dot ℝ realTrig (a, b, d) c) = a * c.x + b * c.y + d * c.z :=
  clip_dot_unit c a b d hp hc

end PydlVerif.C12

import PydlVerif.Model.Trace
import PydlVerif.Model.TraceIter
import PydlVerif.Lemmas.ScalarField
import PydlVerif.Lemmas.Lsq
import PydlVerif.Lemmas.Trace
import Mathlib.RingTheory.Polynomial.Chebyshev
import Mathlib.Analysis.SpecialFunctions.Trigonometric.Chebyshev.Basic
import Mathlib.Tactic.FieldSimp
import Mathlib.Tactic.LinearCombination

namespace PydlVerif.C13
open PydlVerif PydlVerif.Trace

/- `scalar_ofNat` as a default simp lemma rewrites every `Nat.cast` into itself (its left side unfolds
reducibly); it is used by name only. -/
attribute [-simp] scalar_ofNat scalar_lit scalar_sci scalar_floor

section basis
variable {K : Type} [Field K] [LinearOrder K] [IsStrictOrderedRing K] [FloorRing K]

/- The model functions are instantiated explicitly at `fieldScalar K`, so that every operation
written in a statement is the field's own. -/
local notation "polyF" => @polyK K (fieldScalar K)
local notation "chebF" => @chebK K (fieldScalar K)
local notation "legF" => @legK K (fieldScalar K)

/-- fpoly: row k is x^k -/
theorem fpoly_pow (x : K) (k : ℕ) : polyF x k = x ^ k := by
  fun_induction polyF x k with
  | case1 => simp only [scalar_lit, Nat.cast_one, pow_zero]
  | case2 => simp only [pow_one]
  | case3 k ih => rw [ih]; exact (pow_succ x (k + 1)).symm

/-- the Chebyshev recurrence of the model is Mathlib's Chebyshev polynomial of the first kind -/
theorem fcheb_eq_T (x : K) (k : ℕ) : chebF x k = (Polynomial.Chebyshev.T K k).eval x := by
  fun_induction chebF x k with
  | case1 => simp only [scalar_lit, Nat.cast_one]; simp
  | case2 => simp
  | case3 k ih1 ih2 =>
    rw [ih1, ih2]
    have := Polynomial.Chebyshev.T_add_two K (k : ℤ)
    push_cast
    rw [show ((k : ℤ) + 1 + 1) = k + 2 by ring, this]
    simp only [scalar_lit]
    simp only [Nat.cast_ofNat, Polynomial.eval_sub, Polynomial.eval_mul, Polynomial.eval_X,
      Polynomial.eval_ofNat]

/-- over ℝ: T_k(cos θ) = cos kθ for the recurrence of the model -/
theorem fcheb_cos (θ : ℝ) (k : ℕ) : @chebK ℝ (fieldScalar ℝ) (Real.cos θ) k = Real.cos (k * θ) := by
  rw [fcheb_eq_T]
  exact_mod_cast Polynomial.Chebyshev.T_real_cos θ (k : ℤ)

/-- Bonnet's recurrence (k+2) P_{k+2} = (2k+3) x P_{k+1} - (k+1) P_k, with P_0 = 1, P_1 = x -/
theorem fleg_bonnet (x : K) (k : ℕ) :
    legF x 0 = 1 ∧ legF x 1 = x ∧
    ((k : K) + 2) * legF x (k + 2) = (2 * (k : K) + 3) * x * legF x (k + 1) - ((k : K) + 1) * legF x k := by
  refine ⟨by simp only [legK, scalar_lit, Nat.cast_one], by simp only [legK], ?_⟩
  have h : ((k : K) + 2) ≠ 0 := by positivity
  simp only [legK, Scalar.ofNat]
  push_cast
  field_simp

/-- P_k(1) = 1 -/
theorem fleg_one (k : ℕ) : legF (1 : K) k = 1 := by
  fun_induction legF (1 : K) k with
  | case1 => simp only [scalar_lit, Nat.cast_one]
  | case2 => rfl
  | case3 k ih1 ih2 =>
    rw [ih1, ih2]
    have h : ((k : K) + 2) ≠ 0 := by positivity
    simp only [Scalar.ofNat]
    push_cast
    field_simp
    ring

/-- parity: P_k(-x) = (-1)^k P_k(x) -/
theorem fleg_parity (x : K) (k : ℕ) : legF (-x) k = (-1) ^ k * legF x k := by
  fun_induction legF x k with
  | case1 => simp only [legK, pow_zero, one_mul]
  | case2 => simp only [legK, pow_one]; ring
  | case3 k ih1 ih2 =>
    simp only [legK] at ih1 ih2 ⊢
    rw [ih1, ih2]
    have h : ((k : K) + 2) ≠ 0 := by positivity
    have e : (-1 : K) ^ (k + 1 + 1) = (-1) ^ k := by rw [pow_succ, pow_succ]; ring
    have e1 : (-1 : K) ^ (k + 1) = -(-1) ^ k := by rw [pow_succ]; ring
    rw [e, e1]
    simp only [Scalar.ofNat]
    push_cast
    field_simp
end basis

section generic
variable {α : Type} [Scalar α]

/-- fchebyshev_split: row 0 is the step (x ≥ 0), row k+1 is the Chebyshev row k -/
theorem fsplit_eq (x : α) (k : ℕ) :
    splitK x 0 = (if 0 ≤ x then 1 else 0) ∧ splitK x (k + 1) = chebK x k := by
  refine ⟨rfl, ?_⟩
  fun_induction chebK x k with
  | case1 => rfl
  | case2 => rfl
  | case3 k ih1 ih2 => simp only [splitK]; rw [← ih1, ← ih2]

/-- a scalar abscissa gives the same rows as the 1-element array -/
theorem basis_scalar_eq_array (x : α) (m : ℕ) :
    flegendre (.scalar x) m = flegendre (.arr #[x]) m ∧
    fchebyshev (.scalar x) m = fchebyshev (.arr #[x]) m ∧
    fchebyshevSplit (.scalar x) m = fchebyshevSplit (.arr #[x]) m ∧
    fpoly (.scalar x) m = fpoly (.arr #[x]) m := ⟨rfl, rfl, rfl, rfl⟩
end generic

/-! ## func_fit: helper lemmas (inversion of the `Except` plumbing; any scalar type) -/
section inversion
variable {α : Type} [Scalar α]

theorem bind_ok {β γ : Type} {x : R β} {f : β → R γ} {c : γ} (h : (x >>= f) = .ok c) :
    ∃ a, x = .ok a ∧ f a = .ok c := by
  cases x with
  | error e => simp [bind, Except.bind] at h
  | ok a => exact ⟨a, rfl, h⟩

theorem fitMain_ok {solve : Array (Array α) → Array α → R (Array α)} {inp : FitIn α} {w : Array α}
    {ia : Array Bool} {ngood : ℕ} {out : FitOut α} (h : fitMain solve inp w ia ngood = .ok out) :
    ∃ legarr ysub sol,
      fitBasis inp (min ngood inp.ncoeff) = .ok legarr ∧
      fitYsub (at2 legarr) inp ia (min ngood inp.ncoeff) = .ok ysub ∧
      fitSol solve
        (alphaOf (fun a i => at2 legarr ((freeIdx ia (min ngood inp.ncoeff)).getD a 0) i) w
          (freeIdx ia (min ngood inp.ncoeff)).length inp.x.size)
        (betaOf (fun a i => at2 legarr ((freeIdx ia (min ngood inp.ncoeff)).getD a 0) i) w ysub
          (freeIdx ia (min ngood inp.ncoeff)).length inp.x.size)
        (freeIdx ia (min ngood inp.ncoeff)).length = .ok sol ∧
      out.res = resOf sol (fitAns inp) ia (freeIdx ia (min ngood inp.ncoeff)) (min ngood inp.ncoeff) inp.ncoeff ∧
      out.yfit = yfitOf (at2 legarr) out.res (min ngood inp.ncoeff) inp.x.size := by
  unfold fitMain at h
  obtain ⟨legarr, h1, h⟩ := bind_ok h
  obtain ⟨ysub, h2, h⟩ := bind_ok h
  obtain ⟨sol, h3, h⟩ := bind_ok h
  refine ⟨legarr, ysub, sol, h1, h2, h3, ?_⟩
  cases h
  exact ⟨rfl, rfl⟩

theorem funcFit_ok {solve : Array (Array α) → Array α → R (Array α)} {inp : FitIn α} {out : FitOut α}
    (h : funcFit solve inp = .ok out) :
    inp.y.size = inp.x.size ∧ ∃ w ia, fitWeights inp = .ok w ∧ fitIa inp = .ok ia ∧
      (goodIdx w = [] → out = ⟨Array.replicate inp.ncoeff 0, Array.replicate inp.x.size 0⟩) ∧
      (∀ i0, goodIdx w = [i0] → inp.ncoeff ≠ 0 ∧
        out = ⟨tab inp.ncoeff fun k => if k = 0 then at1 inp.y i0 else 0,
               Array.replicate inp.x.size (0 + at1 inp.y i0)⟩) ∧
      (2 ≤ (goodIdx w).length → fitMain solve inp w ia (goodIdx w).length = .ok out) := by
  unfold funcFit at h
  split at h
  · cases h
  · rename_i hsz
    obtain ⟨w, hw, h⟩ := bind_ok h
    obtain ⟨ia, hia, h⟩ := bind_ok h
    refine ⟨by simpa using hsz, w, ia, hw, hia, ?_⟩
    split at h
    · rename_i hg
      refine ⟨fun _ => by cases h; rfl, fun i0 h0 => by simp [hg] at h0, fun h2 => by simp [hg] at h2⟩
    · rename_i i0 hg
      refine ⟨fun h0 => by simp [hg] at h0, fun i1 h1 => ?_, fun h2 => by simp [hg] at h2⟩
      have : i1 = i0 := by simpa [hg] using h1.symm
      subst this
      split at h
      · cases h
      · rename_i hn
        cases h
        exact ⟨hn, rfl⟩
    · rename_i g hg0 hg1
      refine ⟨fun h0 => absurd h0 hg0, fun i0 h0 => absurd h0 (hg1 i0), fun _ => h⟩

theorem at1_resOf (sol ans : Array α) (ia : Array Bool) (free : List ℕ) (m nc k : ℕ) (hk : k < nc) :
    at1 (resOf sol ans ia free m nc) k =
      if k < m then (if ia.getD k true then at1 sol (free.idxOf k) else at1 ans k) else 0 := by
  unfold resOf; rw [at1_tab _ _ _ hk]
theorem mapM_ok' {β γ : Type} (F : β → R γ) : ∀ (l : List β) (r : List γ), l.mapM F = .ok r →
    r.length = l.length ∧ ∀ i (h : i < l.length) (h' : i < r.length), F l[i] = .ok r[i] := by
  intro l
  induction l with
  | nil =>
    intro r h
    simp [List.mapM_nil, pure, Except.pure] at h
    subst h
    exact ⟨rfl, fun i h => by simp at h⟩
  | cons a l ih =>
    intro r h
    rw [List.mapM_cons] at h
    obtain ⟨b, hb, h⟩ := bind_ok h
    obtain ⟨bs, hbs, h⟩ := bind_ok h
    cases h
    obtain ⟨hl, hi⟩ := ih bs hbs
    refine ⟨by simp [hl], ?_⟩
    intro i h1 h2
    cases i with
    | zero => simpa using hb
    | succ i => simpa using hi i (by simpa using h1) (by simpa using h2)

theorem mapM_map_ok {β γ : Type} (F : β → R γ) (r : β → γ) : ∀ (l : List β), (∀ a, a ∈ l → F a = .ok (r a)) →
    l.mapM F = .ok (l.map r) := by
  intro l
  induction l with
  | nil => intro _; rfl
  | cons a l ih =>
    intro h
    rw [List.mapM_cons, h a (by simp), ih (fun b hb => h b (by simp [hb]))]
    rfl

omit [Scalar α] in
theorem fitIter_ok (fit : R (FitOut α)) (n fuel : ℕ) (r : FitOut α × Array Bool)
    (h : fitIter fit n fuel false none = .ok (some r)) : fit = .ok r.1 := by
  cases fuel with
  | zero => simp [fitIter, pure, Except.pure] at h
  | succ fuel =>
    unfold fitIter at h
    simp only [Bool.false_eq_true, if_false] at h
    obtain ⟨o, ho, h⟩ := bind_ok h
    simp only [rejectDefault] at h
    cases fuel with
    | zero => simp [fitIter, pure, Except.pure] at h; rw [ho, ← h]
    | succ fuel => simp [fitIter, pure, Except.pure] at h; rw [ho, ← h]

end inversion

/-! ## func_fit over an ordered field -/
section fit
variable {K : Type} [Field K] [LinearOrder K] [IsStrictOrderedRing K] [FloorRing K]
/- Inside this section the only `Scalar K` is the field interpretation, and arithmetic written in a
statement is the field's own (the operation instances of `Scalar` are switched off for elaboration). -/
attribute [-instance] Scalar.toAdd Scalar.toSub Scalar.toMul Scalar.toDiv Scalar.toNeg Scalar.toLT Scalar.toLE
  Scalar.instOfNat Scalar.instOfScientific Scalar.decLt Scalar.decLe
attribute [local instance] fieldScalar
open Finset

/-- contract of the `solve` parameter (numpy.linalg.solve): whenever it returns, `a · s = b` -/
def SolveContract (solve : Array (Array K) → Array K → R (Array K)) : Prop :=
  ∀ a b s, solve a b = .ok s → ∀ r, r < b.size → ∑ c ∈ range b.size, at2 a r c * at1 s c = at1 b r

theorem lit0 : (@OfNat.ofNat K 0 (@Scalar.instOfNat K (fieldScalar K) 0)) = (0 : K) := by
  rw [scalar_lit]; exact Nat.cast_zero
theorem lit1 : (@OfNat.ofNat K 1 (@Scalar.instOfNat K (fieldScalar K) 1)) = (1 : K) := by
  rw [scalar_lit]; exact Nat.cast_one

/-- what `fitYsub` returns, pointwise -/
theorem fitYsub_spec (L : ℕ → ℕ → K) (inp : FitIn K) (ia : Array Bool) (m : ℕ) (ysub : Array K)
    (hm : m ≤ inp.ncoeff) (hy : inp.y.size = inp.x.size)
    (h : fitYsub L inp ia m = .ok ysub) (i : ℕ) (hi : i < inp.x.size) :
    at1 ysub i = at1 inp.y i - ∑ j ∈ range m, L j i * (at1 (fitAns inp) j * (if ia.getD j true then 0 else 1)) := by
  unfold fitYsub at h
  dsimp only at h
  by_cases he : (fixedIdx ia m).isEmpty = true
  · rw [if_pos he] at h
    cases h
    have hall : ∀ j, j < m → ia.getD j true = true := by
      intro j hj
      have : fixedIdx ia m = [] := List.isEmpty_iff.mp he
      unfold fixedIdx at this
      rw [List.filter_eq_nil_iff] at this
      have := this j (List.mem_range.mpr hj)
      simpa using this
    have : ∑ j ∈ range m, L j i * (at1 (fitAns inp) j * (if ia.getD j true then (0 : K) else 1)) = 0 := by
      apply Finset.sum_eq_zero
      intro j hj
      rw [hall j (Finset.mem_range.mp hj)]; simp
    rw [this, sub_zero]
  · rw [if_neg he] at h
    by_cases h1 : (fitAns inp).size ≠ inp.ncoeff
    · rw [if_pos h1] at h
      split at h <;> cases h
    · rw [if_neg h1] at h
      by_cases h3 : m ≠ inp.ncoeff
      · rw [if_pos h3] at h; cases h
      · rw [if_neg h3] at h
        cases h
        have hmc : m = inp.ncoeff := by simpa using h3
        unfold ysubOf
        rw [at1_tab _ _ _ hi, sumN_eq, hmc]
        congr 1
        apply Finset.sum_congr rfl
        intro j _
        by_cases hj : ia.getD j true = true
        · simp only [hj, if_true, lit0]
        · simp only [hj, lit1]; rfl

/-- what `fitSol` returns satisfies `alpha · sol = beta` (by the contract of `solve`, or by the
division when a single coefficient is free and its pivot is not zero) -/
theorem fitSol_spec (solve : Array (Array K) → Array K → R (Array K)) (hsolve : SolveContract solve)
    (alpha : Array (Array K)) (beta sol : Array K) (np : ℕ) (hb : beta.size = np)
    (hpiv : np = 1 → at2 alpha 0 0 ≠ 0)
    (h : fitSol solve alpha beta np = .ok sol) (a : ℕ) (ha : a < np) :
    ∑ b ∈ range np, at2 alpha a b * at1 sol b = at1 beta a := by
  unfold fitSol at h
  split at h
  · have := hsolve alpha beta sol h a (by omega)
    rwa [hb] at this
  · cases h
    have h1 : np = 1 := by omega
    have h0 : a = 0 := by omega
    subst h1; subst h0
    rw [Finset.sum_range_one, at1_tab _ _ _ (by omega)]
    exact mul_div_cancel₀ _ (hpiv rfl)

theorem free_mem (ia : Array Bool) (m a : ℕ) (ha : a < (freeIdx ia m).length) :
    (freeIdx ia m).getD a 0 < m ∧ ia.getD ((freeIdx ia m).getD a 0) true = true := by
  have hmem : (freeIdx ia m).getD a 0 ∈ freeIdx ia m := by
    rw [list_getD_lt _ _ ha]; exact List.getElem_mem ha
  unfold freeIdx at hmem ⊢
  rw [List.mem_filter, List.mem_range] at hmem
  exact hmem

/-- the `else:` branch of func_fit: fixed coefficients, padding, fitted values, normal equations -/
theorem fitMain_normal (solve : Array (Array K) → Array K → R (Array K))
    (inp : FitIn K) (w : Array K) (ia : Array Bool) (ngood : ℕ) (out : FitOut K)
    (hy : inp.y.size = inp.x.size) (h : fitMain solve inp w ia ngood = .ok out) :
    ∃ legarr, fitBasis inp (min ngood inp.ncoeff) = .ok legarr ∧
      (∀ k, k < min ngood inp.ncoeff → ia.getD k true = false → at1 out.res k = at1 (fitAns inp) k) ∧
      (∀ k, min ngood inp.ncoeff ≤ k → at1 out.res k = 0) ∧
      (∀ i, i < inp.x.size →
        at1 out.yfit i = ∑ k ∈ range (min ngood inp.ncoeff), at2 legarr k i * at1 out.res k) ∧
      (SolveContract solve →
        (∀ k, k < min ngood inp.ncoeff → ia.getD k true = true →
          ∑ i ∈ range inp.x.size, at2 legarr k i * (at2 legarr k i * at1 w i) ≠ 0) →
        ∀ k, k < min ngood inp.ncoeff → ia.getD k true = true →
          ∑ i ∈ range inp.x.size, at1 w i * at2 legarr k i *
            (at1 inp.y i - ∑ j ∈ range (min ngood inp.ncoeff), at2 legarr j i * at1 out.res j) = 0) := by
  obtain ⟨legarr, ysub, sol, h1, h2, h3, hres, hyfit⟩ := fitMain_ok h
  set m := min ngood inp.ncoeff with hm
  have hmle : m ≤ inp.ncoeff := Nat.min_le_right _ _
  have hresk : ∀ k, k < m → at1 out.res k =
      if ia.getD k true then at1 sol ((freeIdx ia m).idxOf k) else at1 (fitAns inp) k := by
    intro k hk
    rw [hres, at1_resOf _ _ _ _ _ _ _ (by omega), if_pos hk]
  refine ⟨legarr, h1, ?_, ?_, ?_, ?_⟩
  · intro k hk hf
    rw [hresk k hk, hf]; simp
  · intro k hk
    rw [hres]
    by_cases hkn : k < inp.ncoeff
    · rw [at1_resOf _ _ _ _ _ _ _ hkn, if_neg (by omega), lit0]
    · unfold at1 resOf
      rw [tab_getD, if_neg hkn, lit0]
  · intro i hi
    rw [hyfit]; unfold yfitOf
    rw [at1_tab _ _ _ hi, sumN_eq]
  · intro hsolve hnz k hk hf
    have hsol : ∀ a, a < (freeIdx ia m).length →
        ∑ b ∈ range (freeIdx ia m).length,
          (∑ i ∈ range inp.x.size, at2 legarr ((freeIdx ia m).getD a 0) i *
            (at2 legarr ((freeIdx ia m).getD b 0) i * at1 w i)) * at1 sol b
        = ∑ i ∈ range inp.x.size,
            (at1 inp.y i - ∑ j ∈ range m, at2 legarr j i *
              (at1 (fitAns inp) j * (if ia.getD j true then 0 else 1))) * at1 w i *
            at2 legarr ((freeIdx ia m).getD a 0) i := by
      intro a ha
      have hpiv : (freeIdx ia m).length = 1 →
          at2 (alphaOf (fun a i => at2 legarr ((freeIdx ia m).getD a 0) i) w (freeIdx ia m).length inp.x.size) 0 0 ≠ 0 := by
        intro h1
        unfold alphaOf
        rw [at2_tab_tab _ _ _ _ _ (by omega) (by omega), sumN_eq]
        obtain ⟨hlt, hfree⟩ := free_mem ia m 0 (by omega)
        exact hnz _ hlt hfree
      have hbeta : at1 (betaOf (fun a i => at2 legarr ((freeIdx ia m).getD a 0) i) w ysub
            (freeIdx ia m).length inp.x.size) a
          = ∑ i ∈ range inp.x.size,
            (at1 inp.y i - ∑ j ∈ range m, at2 legarr j i *
              (at1 (fitAns inp) j * (if ia.getD j true then 0 else 1))) * at1 w i *
            at2 legarr ((freeIdx ia m).getD a 0) i := by
        unfold betaOf
        rw [at1_tab _ _ _ ha, sumN_eq]
        apply Finset.sum_congr rfl
        intro i hi
        rw [fitYsub_spec (at2 legarr) inp ia m ysub hmle hy h2 i (Finset.mem_range.mp hi)]
      have halpha : ∀ b, b < (freeIdx ia m).length →
          at2 (alphaOf (fun a i => at2 legarr ((freeIdx ia m).getD a 0) i) w (freeIdx ia m).length inp.x.size) a b
          = ∑ i ∈ range inp.x.size, at2 legarr ((freeIdx ia m).getD a 0) i *
            (at2 legarr ((freeIdx ia m).getD b 0) i * at1 w i) := by
        intro b hb
        unfold alphaOf
        rw [at2_tab_tab _ _ _ _ _ ha hb, sumN_eq]
      have := fitSol_spec solve hsolve _ _ sol _ (by unfold betaOf; simp) hpiv h3 a ha
      rw [← hbeta, ← this]
      apply Finset.sum_congr rfl
      intro b hb
      rw [halpha b (Finset.mem_range.mp hb)]
    have := normal_core inp.x.size m (at2 legarr) (at1 w) (at1 inp.y) (at1 (fitAns inp)) (at1 sol)
      (fun k => ia.getD k true) hsol k hk hf
    rw [← this]
    apply Finset.sum_congr rfl
    intro i _
    congr 2
    apply Finset.sum_congr rfl
    intro j hj
    rw [hresk j (Finset.mem_range.mp hj)]
    rfl

/-- number of coefficients actually fitted: `ncfit = min(ngood, ncoeff)` -/
noncomputable def ncfit (inp : FitIn K) (w : Array K) : ℕ := min (goodIdx w).length inp.ncoeff

/-- **func_fit solves the weighted normal equations.**  Whenever `func_fit` returns with two or
more good points: the design rows `legarr` are the basis rows (times `inputfunc`); coefficients
declared fixed keep `inputans`; coefficients beyond `ncfit` are 0; `yfit = legarr.T · res`; and, if
`solve` honours its contract and every free row has a non-zero weighted norm, the residual is
W-orthogonal to every free row: `AᵀW(y - A·res) = 0` on the free parameters. -/
theorem funcFit_normal (solve : Array (Array K) → Array K → R (Array K)) (inp : FitIn K) (out : FitOut K)
    (h : funcFit solve inp = .ok out) :
    inp.y.size = inp.x.size ∧ ∃ w ia, fitWeights inp = .ok w ∧ fitIa inp = .ok ia ∧
      (2 ≤ (goodIdx w).length →
        ∃ legarr, fitBasis inp (ncfit inp w) = .ok legarr ∧
          (∀ k, k < ncfit inp w → ia.getD k true = false → at1 out.res k = at1 (fitAns inp) k) ∧
          (∀ k, ncfit inp w ≤ k → at1 out.res k = 0) ∧
          (∀ i, i < inp.x.size →
            at1 out.yfit i = ∑ k ∈ range (ncfit inp w), at2 legarr k i * at1 out.res k) ∧
          (SolveContract solve →
            (∀ k, k < ncfit inp w → ia.getD k true = true →
              ∑ i ∈ range inp.x.size, at2 legarr k i * (at2 legarr k i * at1 w i) ≠ 0) →
            ∀ k, k < ncfit inp w → ia.getD k true = true →
              ∑ i ∈ range inp.x.size, at1 w i * at2 legarr k i *
                (at1 inp.y i - ∑ j ∈ range (ncfit inp w), at2 legarr j i * at1 out.res j) = 0)) := by
  obtain ⟨hy, w, ia, hw, hia, -, -, h2⟩ := funcFit_ok h
  exact ⟨hy, w, ia, hw, hia, fun hg => fitMain_normal solve inp w ia _ out hy (h2 hg)⟩

/-- the model kernels behind the function names of `func_fit` -/
noncomputable def kernelOf (name : String) : Option (K → ℕ → K) :=
  if name = "legendre" ∨ name = "flegendre" then some legK
  else if name = "chebyshev" ∨ name = "fchebyshev" then some chebK
  else if name = "chebyshev_split" ∨ name = "fchebyshev_split" then some splitK
  else if name = "poly" ∨ name = "fpoly" then some polyK
  else none

/-- the design rows used by func_fit are the basis functions at the abscissae, times `inputfunc` -/
theorem fitBasis_entry (inp : FitIn K) (m : ℕ) (legarr : Array (Array K)) (h : fitBasis inp m = .ok legarr) :
    ∃ φ, kernelOf inp.func = some φ ∧ ∀ k i, k < m → i < inp.x.size →
      at2 legarr k i = φ (at1 inp.x i) k * (match inp.inputfunc with | none => 1 | some g => at1 g i) := by
  unfold fitBasis at h
  split at h
  · cases h
  rename_i f hf
  obtain ⟨l0, h0, h⟩ := bind_ok h
  have key : ∃ φ, kernelOf inp.func = some φ ∧ l0 = rows φ inp.x m := by
    unfold fitFunc at hf
    unfold kernelOf
    split at hf
    · rename_i hn; rw [if_pos hn]; cases hf
      unfold flegendre at h0; split at h0
      · cases h0
      · cases h0; exact ⟨_, rfl, rfl⟩
    · rename_i hn1; rw [if_neg hn1]
      split at hf
      · rename_i hn; rw [if_pos hn]; cases hf
        unfold fchebyshev at h0; split at h0
        · cases h0
        · cases h0; exact ⟨_, rfl, rfl⟩
      · rename_i hn2; rw [if_neg hn2]
        split at hf
        · rename_i hn; rw [if_pos hn]; cases hf
          unfold fchebyshevSplit at h0; split at h0
          · cases h0
          · cases h0; exact ⟨_, rfl, rfl⟩
        · rename_i hn3; rw [if_neg hn3]
          split at hf
          · rename_i hn; rw [if_pos hn]; cases hf
            unfold fpoly at h0; split at h0
            · cases h0
            · cases h0; exact ⟨_, rfl, rfl⟩
          · cases hf
  obtain ⟨φ, hφ, rfl⟩ := key
  refine ⟨φ, hφ, ?_⟩
  intro k i hk hi
  unfold withInputfunc at h
  cases hg : inp.inputfunc with
  | none =>
    rw [hg] at h
    cases h
    rw [at2_rows _ _ _ _ _ hk hi]
    exact (mul_one _).symm
  | some g =>
    rw [hg] at h
    dsimp only at h
    split at h
    · cases h
    · cases h
      rw [at2_tab_tab _ _ _ _ _ hk hi, at2_rows _ _ _ _ _ hk hi]

/-- everything `funcFit_normal` says, for named `w`, `ia`, `legarr` -/
theorem funcFit_facts (solve : Array (Array K) → Array K → R (Array K)) (inp : FitIn K) (out : FitOut K)
    (h : funcFit solve inp = .ok out) (w : Array K) (ia : Array Bool) (legarr : Array (Array K))
    (hw : fitWeights inp = .ok w) (hia : fitIa inp = .ok ia) (hg : 2 ≤ (goodIdx w).length)
    (hb : fitBasis inp (ncfit inp w) = .ok legarr) :
    (∀ k, k < ncfit inp w → ia.getD k true = false → at1 out.res k = at1 (fitAns inp) k) ∧
    (∀ k, ncfit inp w ≤ k → at1 out.res k = 0) ∧
    (∀ i, i < inp.x.size →
      at1 out.yfit i = ∑ k ∈ range (ncfit inp w), at2 legarr k i * at1 out.res k) ∧
    (SolveContract solve →
      (∀ k, k < ncfit inp w → ia.getD k true = true →
        ∑ i ∈ range inp.x.size, at2 legarr k i * (at2 legarr k i * at1 w i) ≠ 0) →
      ∀ k, k < ncfit inp w → ia.getD k true = true →
        ∑ i ∈ range inp.x.size, at1 w i * at2 legarr k i *
          (at1 inp.y i - ∑ j ∈ range (ncfit inp w), at2 legarr j i * at1 out.res j) = 0) := by
  obtain ⟨-, w', ia', hw', hia', hrest⟩ := funcFit_normal solve inp out h
  rw [hw] at hw'; cases hw'
  rw [hia] at hia'; cases hia'
  obtain ⟨legarr', hb', hrest⟩ := hrest hg
  rw [hb] at hb'; cases hb'
  exact hrest

/-- **weighted-least-squares optimum**: with non-negative weights the coefficients returned by
func_fit minimise Σ w (y - A·c)² among all coefficient vectors `z` whose fixed entries have the
prescribed values `inputans` -/
theorem funcFit_optimum (solve : Array (Array K) → Array K → R (Array K)) (hsolve : SolveContract solve)
    (inp : FitIn K) (out : FitOut K) (h : funcFit solve inp = .ok out)
    (w : Array K) (ia : Array Bool) (legarr : Array (Array K))
    (hw : fitWeights inp = .ok w) (hia : fitIa inp = .ok ia) (hg : 2 ≤ (goodIdx w).length)
    (hb : fitBasis inp (ncfit inp w) = .ok legarr)
    (hpos : ∀ i, i < inp.x.size → 0 ≤ at1 w i)
    (hnz : ∀ k, k < ncfit inp w → ia.getD k true = true →
      ∑ i ∈ range inp.x.size, at2 legarr k i * (at2 legarr k i * at1 w i) ≠ 0)
    (z : ℕ → K) (hz : ∀ k, k < ncfit inp w → ia.getD k true = false → z k = at1 (fitAns inp) k) :
    wssr inp.x.size (ncfit inp w) (at2 legarr) (at1 w) (at1 inp.y) (at1 out.res)
      ≤ wssr inp.x.size (ncfit inp w) (at2 legarr) (at1 w) (at1 inp.y) z := by
  obtain ⟨hfix, -, -, hN⟩ := funcFit_facts solve inp out h w ia legarr hw hia hg hb
  exact wls_optimum_fixed _ _ _ _ _ _ _ (fun k => ia.getD k true) hpos (hN hsolve hnz)
    (fun k hk hf => by rw [hz k hk hf, hfix k hk hf])

/-- **zero-weight points have no influence**: replacing the data `y` at points of weight 0 by
anything else leaves the normal equations satisfied by the same coefficients (with
`funcFit_exact`'s uniqueness: the same coefficients are returned) -/
theorem funcFit_zero_weight (solve : Array (Array K) → Array K → R (Array K)) (hsolve : SolveContract solve)
    (inp : FitIn K) (out : FitOut K) (h : funcFit solve inp = .ok out)
    (w : Array K) (ia : Array Bool) (legarr : Array (Array K))
    (hw : fitWeights inp = .ok w) (hia : fitIa inp = .ok ia) (hg : 2 ≤ (goodIdx w).length)
    (hb : fitBasis inp (ncfit inp w) = .ok legarr)
    (hnz : ∀ k, k < ncfit inp w → ia.getD k true = true →
      ∑ i ∈ range inp.x.size, at2 legarr k i * (at2 legarr k i * at1 w i) ≠ 0)
    (y' : ℕ → K) (hy' : ∀ i, i < inp.x.size → at1 w i ≠ 0 → y' i = at1 inp.y i) :
    ∀ k, k < ncfit inp w → ia.getD k true = true →
      ∑ i ∈ range inp.x.size, at1 w i * at2 legarr k i *
        (y' i - ∑ j ∈ range (ncfit inp w), at2 legarr j i * at1 out.res j) = 0 := by
  obtain ⟨-, -, -, hN⟩ := funcFit_facts solve inp out h w ia legarr hw hia hg hb
  intro k hk hf
  rw [← hN hsolve hnz k hk hf]
  apply Finset.sum_congr rfl
  intro i hi
  by_cases hwi : at1 w i = 0
  · rw [hwi]; ring
  · rw [hy' i (Finset.mem_range.mp hi) hwi]

/-- **exact data are recovered**: if `y` is exactly a combination `A·c0` of the design rows whose
fixed entries are the prescribed ones, and the weighted normal matrix is positive definite on the
free directions, func_fit returns `c0` -/
theorem funcFit_exact (solve : Array (Array K) → Array K → R (Array K)) (hsolve : SolveContract solve)
    (inp : FitIn K) (out : FitOut K) (h : funcFit solve inp = .ok out)
    (w : Array K) (ia : Array Bool) (legarr : Array (Array K))
    (hw : fitWeights inp = .ok w) (hia : fitIa inp = .ok ia) (hg : 2 ≤ (goodIdx w).length)
    (hb : fitBasis inp (ncfit inp w) = .ok legarr)
    (hpd : ∀ d : ℕ → K, (∀ k, k < ncfit inp w → ia.getD k true = false → d k = 0) →
      ∑ i ∈ range inp.x.size, at1 w i * (∑ j ∈ range (ncfit inp w), at2 legarr j i * d j) ^ 2 = 0 →
      ∀ k, k < ncfit inp w → d k = 0)
    (c0 : ℕ → K) (hc0 : ∀ k, k < ncfit inp w → ia.getD k true = false → c0 k = at1 (fitAns inp) k)
    (hexact : ∀ i, i < inp.x.size → at1 inp.y i = ∑ j ∈ range (ncfit inp w), at2 legarr j i * c0 j) :
    ∀ k, k < ncfit inp w → at1 out.res k = c0 k := by
  obtain ⟨hfix, -, -, hN⟩ := funcFit_facts solve inp out h w ia legarr hw hia hg hb
  have hnz : ∀ k, k < ncfit inp w → ia.getD k true = true →
      ∑ i ∈ range inp.x.size, at2 legarr k i * (at2 legarr k i * at1 w i) ≠ 0 := by
    intro k hk hf h0
    have hd := hpd (fun j => if j = k then 1 else 0)
      (fun j hj hjf => by
        by_cases hjk : j = k
        · subst hjk; rw [hf] at hjf; cases hjf
        · simp [hjk]) ?_ k hk
    · simp at hd
    · refine Eq.trans (Finset.sum_congr rfl ?_) h0
      intro i _
      rw [Finset.sum_eq_single k]
      · simp; ring
      · intro j _ hjk; simp [hjk]
      · intro hk'; exact absurd (Finset.mem_range.mpr hk) hk'
  refine wls_unique_fixed _ _ (at2 legarr) (at1 w) (at1 inp.y) (at1 out.res) c0 (fun k => ia.getD k true)
    hpd (hN hsolve hnz) ?_ (fun k hk hf => by rw [hfix k hk hf, hc0 k hk hf])
  intro k _ _
  apply Finset.sum_eq_zero
  intro i hi
  rw [hexact i (Finset.mem_range.mp hi)]; ring

/-- **the basis arrays are the textbook polynomials**: for every order `m`, every abscissa (array
or scalar, see `basis_scalar_eq_array`) row `k` holds `P_k`, `T_k` (Mathlib's Chebyshev polynomial),
`x^k`; `fchebyshev_split` holds the step, 1, and the Chebyshev rows shifted by one -/
theorem basis_entry (x : XIn K) (m k i : ℕ) (hk : k < m) (hi : i < x.vals.size) :
    (∃ a, flegendre x m = .ok a ∧ a.size = m ∧ at2 a k i = legK (at1 x.vals i) k) ∧
    (∃ a, fchebyshev x m = .ok a ∧ a.size = m ∧
      at2 a k i = (Polynomial.Chebyshev.T K k).eval (at1 x.vals i)) ∧
    (∃ a, fpoly x m = .ok a ∧ a.size = m ∧ at2 a k i = (at1 x.vals i) ^ k) ∧
    (2 ≤ m → ∃ a, fchebyshevSplit x m = .ok a ∧ a.size = m ∧
      at2 a k i = (if k = 0 then (if 0 ≤ at1 x.vals i then 1 else 0) else chebK (at1 x.vals i) (k - 1))) := by
  have hm : ¬ m < 1 := by omega
  refine ⟨⟨_, by unfold flegendre; rw [if_neg hm]; rfl, rows_size _ _ _, at2_rows _ _ _ _ _ hk hi⟩,
    ⟨_, by unfold fchebyshev; rw [if_neg hm]; rfl, rows_size _ _ _, ?_⟩,
    ⟨_, by unfold fpoly; rw [if_neg hm]; rfl, rows_size _ _ _, ?_⟩, fun h2 =>
    ⟨_, by unfold fchebyshevSplit; rw [if_neg (by omega : ¬ m < 2)]; rfl, rows_size _ _ _, ?_⟩⟩
  · rw [at2_rows _ _ _ _ _ hk hi, fcheb_eq_T]
  · rw [at2_rows _ _ _ _ _ hk hi, fpoly_pow]
  · rw [at2_rows _ _ _ _ _ hk hi]
    cases k with
    | zero =>
      simp only [if_true, splitK, lit0, lit1]
    | succ k => simp only [Nat.succ_ne_zero, if_false, Nat.add_sub_cancel, (fsplit_eq _ k).2]

/-! ## trace sets -/

theorem tab_congr {β : Type} (n : ℕ) (f g : ℕ → β) (h : ∀ i, i < n → f i = g i) : tab n f = tab n g := by
  unfold tab
  apply Array.ext
  · simp
  · intro i h1 h2
    simp only [Array.getElem_ofFn]
    exact h i (by simpa using h1)

theorem replicate_eq_tab {β : Type} (n : ℕ) (v : β) : Array.replicate n v = tab n (fun _ => v) := by
  unfold tab
  apply Array.ext
  · simp
  · intro i h1 h2
    simp

/-- the three functions a TraceSet can evaluate, with their kernels; row 0 is the constant 1 -/
theorem tsetFunc_kernel (name : String) (f : XIn K → ℕ → R (Array (Array K))) (h : tsetFunc name = some f) :
    ∃ φ, kernelOf name = some φ ∧ fitFunc name = some f ∧ (∀ x, φ x 0 = 1) ∧
      (∀ xs m a, f (.arr xs) m = .ok a → 1 ≤ m ∧ a = rows φ xs m) ∧
      (∀ xs m, 1 ≤ m → f (.arr xs) m = .ok (rows φ xs m)) := by
  unfold tsetFunc at h
  split at h
  · rename_i hn; cases h; subst hn
    refine ⟨polyK, by simp [kernelOf], by simp [fitFunc], fun x => by simp only [polyK, lit1], ?_, ?_⟩
    · intro xs m a ha
      unfold fpoly at ha; split at ha
      · cases ha
      · cases ha; exact ⟨by omega, rfl⟩
    · intro xs m hm
      unfold fpoly; rw [if_neg (by omega)]; rfl
  · split at h
    · rename_i hn; cases h; subst hn
      refine ⟨legK, by simp [kernelOf], by simp [fitFunc], fun x => by simp only [legK, lit1], ?_, ?_⟩
      · intro xs m a ha
        unfold flegendre at ha; split at ha
        · cases ha
        · cases ha; exact ⟨by omega, rfl⟩
      · intro xs m hm
        unfold flegendre; rw [if_neg (by omega)]; rfl
    · split at h
      · rename_i hn; cases h; subst hn
        refine ⟨chebK, by simp [kernelOf], by simp [fitFunc], fun x => by simp only [chebK, lit1], ?_, ?_⟩
        · intro xs m a ha
          unfold fchebyshev at ha; split at ha
          · cases ha
          · cases ha; exact ⟨by omega, rfl⟩
        · intro xs m hm
          unfold fchebyshev; rw [if_neg (by omega)]; rfl
      · cases h

/-- one trace: evaluating the fitted coefficients on the normalised abscissae they were fitted
on returns the fitted values (whatever `solve` returned, whatever the weights) -/
theorem eval_of_fit (solve : Array (Array K) → Array K → R (Array K)) (xvec y ivar : Array K)
    (ncoeff : ℕ) (name : String) (out : FitOut K)
    (hfit : funcFit solve { x := xvec, y := y, ncoeff := ncoeff, invvar := some ivar, func := name } = .ok out)
    (f : XIn K → ℕ → R (Array (Array K))) (hf : tsetFunc name = some f)
    (legarr : Array (Array K)) (hl : f (.arr xvec) ncoeff = .ok legarr) :
    evalRow legarr out.res ncoeff xvec.size = out.yfit ∧ out.res.size = ncoeff := by
  obtain ⟨φ, hker, hfit', hφ0, hrows, -⟩ := tsetFunc_kernel name f hf
  obtain ⟨hnc, rfl⟩ := hrows _ _ _ hl
  obtain ⟨hy, w, ia, hw, hia, h0, h1, h2⟩ := funcFit_ok hfit
  rcases hg : goodIdx w with _ | ⟨i0, _ | ⟨i1, rest⟩⟩
  · -- no good point: zeros
    have := h0 hg
    subst this
    refine ⟨?_, by simp⟩
    unfold evalRow
    rw [replicate_eq_tab xvec.size]
    dsimp only
    apply tab_congr
    intro i _
    rw [sumN_eq]
    rw [lit0]
    apply Finset.sum_eq_zero
    intro k hk
    rw [at1_replicate _ _ _ (Finset.mem_range.mp hk), mul_zero]
  · -- one good point: the constant y[i0]
    obtain ⟨_, this⟩ := h1 i0 hg
    subst this
    refine ⟨?_, by simp⟩
    unfold evalRow
    rw [replicate_eq_tab xvec.size]
    dsimp only
    apply tab_congr
    intro i hi
    rw [sumN_eq, Finset.sum_eq_single 0]
    · rw [at2_rows _ _ _ _ _ (by omega) hi, hφ0, at1_tab _ _ _ (by omega), if_pos rfl, one_mul]
      show _ = (@OfNat.ofNat K 0 (@Scalar.instOfNat K (fieldScalar K) 0)) + _
      rw [lit0, zero_add]
    · intro k hk hk0
      rw [at1_tab _ _ _ (Finset.mem_range.mp hk), if_neg hk0, lit0, mul_zero]
    · intro h; exact absurd (Finset.mem_range.mpr (by omega)) h
  · -- two or more good points
    have hlen : 2 ≤ (goodIdx w).length := by rw [hg]; simp
    have hmain := h2 hlen
    obtain ⟨L', hb, -, hpad, hyfit, -⟩ := fitMain_normal solve _ w ia _ out hy hmain
    obtain ⟨L'', ysub, sol, hb'', -, -, hres, hyf⟩ := fitMain_ok hmain
    rw [hb] at hb''; cases hb''
    obtain ⟨φ', hker', hentry⟩ := fitBasis_entry _ _ _ hb
    dsimp only at hker' hentry hpad hyfit hres hyf hb
    rw [hker] at hker'; cases hker'
    set m := min (goodIdx w).length ncoeff with hm
    have hmle : m ≤ ncoeff := Nat.min_le_right _ _
    refine ⟨?_, by rw [hres]; simp [resOf]⟩
    rw [hyf]
    unfold evalRow yfitOf
    apply tab_congr
    intro i hi
    rw [sumN_eq, sumN_eq]
    rw [← Finset.sum_subset (Finset.range_subset_range.mpr hmle)]
    · apply Finset.sum_congr rfl
      intro k hk
      have hk' := Finset.mem_range.mp hk
      rw [at2_rows _ _ _ _ _ (by omega) hi, hentry k i hk' hi, mul_one]
    · intro k _ hk
      have : m ≤ k := by simpa using hk
      rw [hpad k this, mul_zero]

theorem nx_integral (t : TSet K) (N : ℕ) (hN : t.xmax - t.xmin = N) : t.nx = .ok (N + 1) := by
  unfold TSet.nx
  have hv : t.xmax - t.xmin + (@OfNat.ofNat K 1 (@Scalar.instOfNat K (fieldScalar K) 1)) = ((N + 1 : ℕ) : K) := by
    rw [lit1, hN]; push_cast; ring
  dsimp only
  rw [hv, lit0, if_pos (by positivity)]
  simp only [Scalar.floor, Int.floor_natCast, Int.toNat_natCast]
  rfl

/-- **default grid**: a trace set with integral range `xmax - xmin = N` evaluated without `xpos`
uses, for every trace, the abscissae `xmin, xmin+1, …, xmax` (N+1 unit steps) -/
theorem default_grid (t : TSet K) (N : ℕ) (hN : t.xmax - t.xmin = N) :
    ∃ g, t.grid = .ok g ∧ g.size = t.coeff.size ∧
      (∀ r, r < t.coeff.size → (g.getD r #[]).size = N + 1 ∧
        (∀ j, j ≤ N → at2 g r j = t.xmin + j) ∧ at2 g r 0 = t.xmin ∧ at2 g r N = t.xmax) ∧
      (∀ ign x y, t.xy none ign = .ok (x, y) → x = g) := by
  have hg : t.grid = .ok (tab t.coeff.size fun _ => tab (N + 1) fun j => Scalar.ofNat j + t.xmin) := by
    unfold TSet.grid
    rw [nx_integral t N hN]
    rfl
  refine ⟨_, hg, tab_size _ _, ?_, ?_⟩
  · intro r hr
    have hent : ∀ j, j ≤ N → at2 (tab t.coeff.size fun _ => tab (N + 1) fun j => Scalar.ofNat j + t.xmin) r j
        = t.xmin + j := by
      intro j hj
      rw [at2_tab_tab _ _ _ _ _ hr (by omega)]
      simp only [Scalar.ofNat]
      ring
    refine ⟨?_, hent, ?_, ?_⟩
    · rw [tab_getD, if_pos hr, tab_size]
    · rw [hent 0 (by omega)]; simp
    · rw [hent N (le_refl _), ← hN]; ring
  · intro ign x y h
    unfold TSet.xy at h
    obtain ⟨xp, hxp, h⟩ := bind_ok h
    obtain ⟨ys, -, h⟩ := bind_ok h
    unfold TSet.xyPos at hxp
    rw [hg] at hxp
    cases hxp
    cases h
    rfl

theorem xnorm_size (t : TSet K) (xs : Array K) (jump : Bool) (xv : Array K) (h : t.xnorm xs jump = .ok xv) :
    xv.size = xs.size := by
  unfold TSet.xnorm at h
  obtain ⟨j, -, h⟩ := bind_ok h
  cases h
  simp

/-- **fit → evaluate consistency**: converting positions to a trace set (`TraceSet(xpos, ypos, …)`,
any weights, mask, xmin/xmax, with or without the x-jump) and evaluating it again at the same
positions (`xy(xpos)`) succeeds and returns exactly the fitted values `yfit`, for every trace; the
jump enters through the same `xnorm` on both sides.  (`func` one of poly/legendre/chebyshev - the
functions `xy` knows -, `ncoeff ≥ 1`; no assumption on `solve`.) -/
theorem xy_of_fit (solve : Array (Array K) → Array K → R (Array K)) (inp : TsIn K) (o : TsOut K)
    (h : tsetFit solve inp = .ok o) (f : XIn K → ℕ → R (Array (Array K))) (hf : tsetFunc inp.func = some f)
    (hnc : 1 ≤ inp.ncoeff) :
    o.tset.xy (some inp.xpos) false = .ok (inp.xpos, o.yfit) := by
  unfold tsetFit at h
  split at h
  · cases h
  rename_i hshape
  obtain ⟨xmin, hxmin, h⟩ := bind_ok h
  obtain ⟨xmax, hxmax, h⟩ := bind_ok h
  obtain ⟨fits, hfits, h⟩ := bind_ok h
  cases h
  obtain ⟨hlen, hfi⟩ := mapM_ok' _ _ _ hfits
  rw [List.length_range] at hlen
  -- shape: every row of xpos has the same length
  have hrect : ∀ i, i < inp.xpos.size → (inp.xpos.getD i #[]).size = (inp.xpos.getD 0 #[]).size := by
    intro i hi
    have hs : tsShapeOk inp = true := by simpa using hshape
    unfold tsShapeOk at hs
    simp only [Bool.and_eq_true] at hs
    have h1 := hs.1.1.1
    unfold rect at h1
    simp only [Bool.and_eq_true, beq_iff_eq, Array.all_eq_true] at h1
    have := h1.2 i hi
    simpa [Array.getD, hi] using this
  -- one trace
  obtain ⟨T, hT⟩ : ∃ T : TSet K, T =
      { func := inp.func, xmin := xmin, xmax := xmax,
        coeff := (fits.map fun r => r.1.res).toArray, ncoeff := inp.ncoeff,
        xjumplo := inp.xjumplo, xjumphi := inp.xjumphi, xjumpval := inp.xjumpval } := ⟨_, rfl⟩
  have hrow : ∀ i (hi : i < inp.xpos.size) (hi' : i < fits.length),
      TSet.xyRow T
        inp.xpos (inp.xjumplo.isSome && !false) i = .ok (fits[i]).1.yfit := by
    intro i hi hi'
    have hF := hfi i (by simpa using hi) hi'
    rw [List.getElem_range] at hF
    unfold tsFitRow at hF
    obtain ⟨xvec, hxv, hF⟩ := bind_ok hF
    obtain ⟨r, hr, hF⟩ := bind_ok hF
    cases r with
    | none => cases hF
    | some r =>
      have hF' : r = fits[i] := by simpa [pure, Except.pure] using hF
      rw [← hF']
      have hfit := fitIter_ok _ _ _ _ hr
      have hsz := xnorm_size _ _ _ _ hxv
      obtain ⟨φ, -, -, -, -, hrows⟩ := tsetFunc_kernel inp.func f hf
      have hleg : f (.arr xvec) inp.ncoeff = .ok (rows φ xvec inp.ncoeff) := hrows _ _ hnc
      obtain ⟨heval, hressz⟩ := eval_of_fit solve xvec _ _ inp.ncoeff inp.func r.1 hfit f hf _ hleg
      have hc : (T.coeff.getD i #[]) = r.1.res := by
        rw [hF', hT]; simp [Array.getD, hi']
      have hTf : T.func = inp.func := by rw [hT]
      have hTn : T.ncoeff = inp.ncoeff := by rw [hT]
      unfold TSet.xyRow
      rw [if_neg (by omega)]
      have hxv' : TSet.xnorm T
          (inp.xpos.getD i #[]) (inp.xjumplo.isSome && !false) = .ok xvec := by
        rw [← hxv, hT]; simp [TSet.xnorm]
      simp only [hxv', hTf, hTn, hf, hleg, hc, bind, Except.bind, hressz, ne_eq, not_true_eq_false, if_false, pure, Except.pure]
      rw [← hsz, heval]
  show TSet.xy
      { func := inp.func, xmin := xmin, xmax := xmax,
        coeff := (fits.map fun r => r.1.res).toArray, ncoeff := inp.ncoeff,
        xjumplo := inp.xjumplo, xjumphi := inp.xjumphi, xjumpval := inp.xjumpval } _ _ = _
  rw [← hT]
  unfold TSet.xy
  have hcs : T.coeff.size = inp.xpos.size := by rw [hT]; simp [hlen]
  have hTj : T.xjumplo = inp.xjumplo := by rw [hT]
  dsimp only
  rw [hcs, hTj]
  have hm := mapM_map_ok
    (TSet.xyRow T
        inp.xpos (inp.xjumplo.isSome && !false))
    (fun i => (fits.map fun r => r.1.yfit).getD i #[]) (List.range inp.xpos.size)
    (by
      intro a ha
      have ha' : a < inp.xpos.size := List.mem_range.mp ha
      rw [hrow a ha' (by omega)]
      simp [List.getD_eq_getElem?_getD, hlen, ha'])
  simp only [TSet.xyPos, bind, Except.bind, pure, Except.pure, hm]
  congr 2
  apply Array.ext
  · simp [hlen]
  · intro i h1 h2
    have hi : i < inp.xpos.size := by simpa using h1
    simp [tab, List.getD_eq_getElem?_getD, hlen]

/-! ## non-vacuity: the hypotheses of the fit theorems are met by a concrete input -/

/-- `func_fit(x=[0,1], y=[1,3], ncoeff=1, invvar=[1,1], 'poly')` over ℚ: two good points, one free
coefficient (so `solve` is not even called): the result is the weighted mean 2 -/
example (solve : Array (Array ℚ) → Array ℚ → R (Array ℚ)) :
    funcFit solve { x := #[0, 1], y := #[1, 3], ncoeff := 1, invvar := some #[1, 1], func := "poly" }
      = .ok ⟨#[2], #[2, 2]⟩ ∧ 2 ≤ (goodIdx (#[1, 1] : Array ℚ)).length := by
  have hg : goodIdx (#[1, 1] : Array ℚ) = [0, 1] := by
    simp [goodIdx, at1, List.range_succ, List.filter]
  refine ⟨?_, by rw [hg]; simp⟩
  simp [funcFit, fitWeights, fitIa, hg, fitMain, fitBasis, fitFunc, fpoly, withInputfunc, fitYsub, fixedIdx, fitSol,
    freeIdx, bind, Except.bind, pure, Except.pure, List.range_succ, List.filter]
  have t1 : ∀ (f : ℕ → ℚ), tab 1 f = #[f 0] := fun f => by simp [tab, Array.ofFn_succ]
  have t2 : ∀ (f : ℕ → ℚ), tab 2 f = #[f 0, f 1] := fun f => by simp [tab, Array.ofFn_succ]
  have t1' : ∀ (f : ℕ → Array ℚ), tab 1 f = #[f 0] := fun f => by simp [tab, Array.ofFn_succ]
  simp [resOf, yfitOf, alphaOf, betaOf, t1, t2, t1', sumN, rows, at1, at2, polyK, XIn.vals, fitAns,
    List.range_succ, lit0, lit1]
  norm_num

/-- a contract-honouring `solve` exists that answers a non-trivial system: the 1×1 solver -/
example : SolveContract (fun (a : Array (Array ℚ)) (b : Array ℚ) =>
    if b.size = 1 ∧ at2 a 0 0 ≠ 0 then .ok #[at1 b 0 / at2 a 0 0] else .error "refused") := by
  intro a b s h r hr
  dsimp only at h
  split at h
  · rename_i hc
    cases h
    have hr0 : r = 0 := by omega
    subst hr0
    rw [hc.1, Finset.sum_range_one]
    show at2 a 0 0 * (at1 b 0 / at2 a 0 0) = at1 b 0
    exact mul_div_cancel₀ _ hc.2
  · cases h

/-- `default_grid`'s hypothesis: the SDSS detector range 0 .. 2047 -/
example : ∃ g, (⟨"legendre", 0, 2047, #[#[1, 2]], 2, none, none, none⟩ : TSet ℚ).grid = .ok g ∧ at2 g 0 2047 = 2047 := by
  obtain ⟨g, hg, -, hrow, -⟩ := default_grid (⟨"legendre", 0, 2047, #[#[1, 2]], 2, none, none, none⟩ : TSet ℚ) 2047
    (by norm_num)
  exact ⟨g, hg, (hrow 0 (by simp)).2.2.2⟩
end fit


/-! # Extension 1/2: the iteration loop of `xy2traceset` with the real `djs_reject` inside (`Model/TraceIter.lean`),
locality / permutation of the traces, optimum over the kept points; the FITS-record constructor -/

section iter
variable {K : Type} [Field K] [LinearOrder K] [IsStrictOrderedRing K] [FloorRing K]
attribute [local instance] fieldScalar

theorem badness_none (sqrt : K → K) (p : Reject.Pix K) :
    Reject.isZero (Reject.badness sqrt { (rejectOpts : Reject.Opts K) with hasIn := false } p) = true := by
  simp [Reject.badness, Reject.addLow, Reject.addUp, Reject.addDev, rejectOpts, Reject.isZero, BEq.beq, Scalar.beq]

theorem rejectCall_none (sqrt : K → K) (data model ivar : Array K) (hm : model.size = data.size)
    (hv : ivar.size = data.size) :
    rejectCall sqrt data model ivar = .ok (Array.replicate data.size true, true) := by
  unfold rejectCall Reject.djsReject
  simp only [Array.length_toList, hm, hv, ne_eq, not_true_eq_false, if_false, bind, Except.bind, pure, Except.pure,
    Option.isSome_none]
  unfold Reject.djsRejectPix Reject.growMask
  simp only [List.map_map, Function.comp_def, badness_none]
  simp [rejectOpts]
  have hr : ∀ i : ℕ, (List.replicate data.size true)[i]?.getD true = true := by
    intro i
    by_cases h : i < data.size <;> simp [h]
  simp only [hr, List.zipWith_map_right]
  intro hmem
  obtain ⟨i, h1, h2⟩ := List.mem_iff_getElem.mp hmem
  simp at h2

/-- sizes on a successful return of func_fit -/
theorem funcFit_sizes (solve : Array (Array K) → Array K → R (Array K)) (inp : FitIn K) (out : FitOut K)
    (h : funcFit solve inp = .ok out) :
    out.yfit.size = inp.x.size ∧ inp.y.size = inp.x.size ∧ ∀ v, inp.invvar = some v → v.size = inp.x.size := by
  obtain ⟨hy, w, ia, hw, hia, h0, h1, h2⟩ := funcFit_ok h
  refine ⟨?_, hy, ?_⟩
  · match hg : goodIdx w with
    | [] => rw [h0 hg]; simp
    | [i0] => rw [(h1 i0 hg).2]; simp
    | a :: b :: t =>
      obtain ⟨legarr, ysub, sol, -, -, -, -, hyf⟩ := fitMain_ok (h2 (by rw [hg]; simp))
      rw [hyf]; simp [yfitOf]
  · intro v hv
    unfold fitWeights at hw
    rw [hv] at hw
    dsimp only at hw
    split at hw
    · cases hw
    · rename_i hs; simpa using hs

theorem fitIterRej_eq (sqrt : K → K) (fit : R (FitOut K)) (y ivar : Array K)
    (hfit : ∀ o, fit = .ok o → o.yfit.size = y.size ∧ ivar.size = y.size) :
    ∀ fuel qdone acc, fitIterRej sqrt fit y ivar fuel qdone acc = fitIter fit y.size fuel qdone acc := by
  intro fuel
  induction fuel with
  | zero => intro qdone acc; rfl
  | succ fuel ih =>
    intro qdone acc
    unfold fitIterRej fitIter
    cases qdone with
    | true => rfl
    | false =>
      simp only [Bool.false_eq_true, if_false]
      cases hf : fit with
      | error e => rfl
      | ok o =>
        obtain ⟨h1, h2⟩ := hfit o hf
        simp only [bind, Except.bind, rejectCall_none sqrt y o.yfit ivar h1 h2, rejectDefault]
        simpa only [hf] using ih true (some (o, Array.replicate y.size true))

theorem tsTempivar_size (inp : TsIn K) (i : ℕ) : (tsTempivar inp i).size = (inp.xpos.getD 0 #[]).size := by
  unfold tsTempivar
  cases inp.inmask <;> simp

theorem tsFitRowRej_eq (sqrt : K → K) (solve : Array (Array K) → Array K → R (Array K)) (inp : TsIn K) (t0 : TSet K)
    (i : ℕ) (hy : (inp.ypos.getD i #[]).size = (inp.xpos.getD 0 #[]).size) :
    tsFitRowRej sqrt solve inp t0 i = tsFitRow solve inp t0 i := by
  unfold tsFitRowRej tsFitRow
  cases hx : t0.xnorm (inp.xpos.getD i #[]) inp.xjumplo.isSome with
  | error e => rfl
  | ok xvec =>
    simp only [bind, Except.bind]
    rw [fitIterRej_eq sqrt _ _ _ ?_, hy]
    · rfl
    · intro o ho
      obtain ⟨h1, h2, h3⟩ := funcFit_sizes solve _ o ho
      dsimp only at h1 h2 h3
      exact ⟨by rw [h1, h2], by rw [h3 _ rfl, h2]⟩

theorem mapM_congr' {β γ : Type} (F G : β → R γ) : ∀ (l : List β), (∀ a, a ∈ l → F a = G a) → l.mapM F = l.mapM G := by
  intro l
  induction l with
  | nil => intro _; rfl
  | cons a l ih =>
    intro h
    rw [List.mapM_cons, List.mapM_cons, h a (by simp), ih (fun b hb => h b (by simp [hb]))]

omit [Field K] [LinearOrder K] [IsStrictOrderedRing K] [FloorRing K] in
theorem ts_rows_rect (inp : TsIn K) (hs : tsShapeOk inp = true) (i : ℕ) (hi : i < inp.xpos.size) :
    (inp.xpos.getD i #[]).size = (inp.xpos.getD 0 #[]).size ∧ (inp.ypos.getD i #[]).size = (inp.xpos.getD 0 #[]).size := by
  unfold tsShapeOk at hs
  simp only [Bool.and_eq_true] at hs
  have h1 := hs.1.1.1
  have h2 := hs.1.1.2
  unfold rect at h1 h2
  simp only [Bool.and_eq_true, beq_iff_eq, Array.all_eq_true] at h1 h2
  have a := h1.2 i hi
  have b := h2.2 i (by omega)
  have hi2 : i < inp.ypos.size := by omega
  exact ⟨by simpa [Array.getD, hi] using a, by simpa [Array.getD, hi2] using b⟩

/-- **the loop with the real `djs_reject` is the loop of `tsetFit`** -/
theorem tsetFitRej_eq (sqrt : K → K) (solve : Array (Array K) → Array K → R (Array K)) (inp : TsIn K) :
    tsetFitRej sqrt solve inp = tsetFit solve inp := by
  unfold tsetFitRej tsetFit
  split
  · rfl
  rename_i hshape
  have hs : tsShapeOk inp = true := by simpa using hshape
  cases tsXmin inp with
  | error e => rfl
  | ok xmin =>
    cases tsXmax inp with
    | error e => rfl
    | ok xmax =>
      simp only [bind, Except.bind]
      rw [mapM_congr' _ _ _ (fun i hi => tsFitRowRej_eq sqrt solve inp _ i (ts_rows_rect inp hs i (List.mem_range.mp hi)).2)]


omit [Field K] [LinearOrder K] [IsStrictOrderedRing K] [FloorRing K] in
theorem fitIter_mask (fit : R (FitOut K)) (n fuel : ℕ) (r : FitOut K × Array Bool)
    (h : fitIter fit n fuel false none = .ok (some r)) : r.2 = Array.replicate n true := by
  cases fuel with
  | zero => simp [fitIter, pure, Except.pure] at h
  | succ fuel =>
    unfold fitIter at h
    simp only [Bool.false_eq_true, if_false] at h
    obtain ⟨o, ho, h⟩ := bind_ok h
    simp only [rejectDefault] at h
    cases fuel with
    | zero => simp [fitIter, pure, Except.pure] at h; rw [← h]
    | succ fuel => simp [fitIter, pure, Except.pure] at h; rw [← h]

/-- the trace set under construction when the loop over traces runs -/
def ts0 (inp : TsIn K) (xmin xmax : K) : TSet K :=
  ⟨inp.func, xmin, xmax, #[], inp.ncoeff, inp.xjumplo, inp.xjumphi, inp.xjumpval⟩

/-- inversion of `tsetFit` -/
theorem tsetFit_ok (solve : Array (Array K) → Array K → R (Array K)) (inp : TsIn K) (o : TsOut K)
    (h : tsetFit solve inp = .ok o) :
    tsShapeOk inp = true ∧ ∃ xmin xmax, tsXmin inp = .ok xmin ∧ tsXmax inp = .ok xmax ∧
      o.tset.xmin = xmin ∧ o.tset.xmax = xmax ∧
      (o.tset.func = inp.func ∧ o.tset.ncoeff = inp.ncoeff ∧ o.tset.xjumplo = inp.xjumplo ∧
        o.tset.xjumphi = inp.xjumphi ∧ o.tset.xjumpval = inp.xjumpval) ∧
      o.tset.coeff.size = inp.xpos.size ∧ o.yfit.size = inp.xpos.size ∧ o.outmask.size = inp.xpos.size ∧
      ∀ i, i < inp.xpos.size → tsFitRow solve inp (ts0 inp xmin xmax) i =
        .ok (⟨o.tset.coeff.getD i #[], o.yfit.getD i #[]⟩, o.outmask.getD i #[]) := by
  unfold tsetFit at h
  split at h
  · cases h
  rename_i hshape
  obtain ⟨xmin, hxmin, h⟩ := bind_ok h
  obtain ⟨xmax, hxmax, h⟩ := bind_ok h
  obtain ⟨fits, hfits, h⟩ := bind_ok h
  cases h
  obtain ⟨hlen, hfi⟩ := mapM_ok' _ _ _ hfits
  rw [List.length_range] at hlen
  refine ⟨by simpa using hshape, xmin, xmax, hxmin, hxmax, rfl, rfl, ⟨rfl, rfl, rfl, rfl, rfl⟩, by simp [hlen], by simp [hlen], by simp [hlen], ?_⟩
  intro i hi
  have hF := hfi i (by simpa using hi) (by omega)
  rw [List.getElem_range] at hF
  have hi' : i < fits.length := by omega
  refine Eq.trans hF ?_
  simp [Array.getD, hi']

/-- **the loop is one fit**: with `maxiter ≥ 0` every trace of the result is exactly what ONE call of `func_fit`
on the normalised positions of that trace with `tempivar = invvar * inmask` returns (the rejection step rejects
nothing, `rejectCall_none`, and ends the loop), and the `outmask` row is all true -/
theorem tsetFit_row_is_funcFit (solve : Array (Array K) → Array K → R (Array K)) (inp : TsIn K) (o : TsOut K)
    (h : tsetFit solve inp = .ok o) (i : ℕ) (hi : i < inp.xpos.size) :
    ∃ xvec, o.tset.xnorm (inp.xpos.getD i #[]) inp.xjumplo.isSome = .ok xvec ∧
      funcFit solve { x := xvec, y := inp.ypos.getD i #[], ncoeff := inp.ncoeff, invvar := some (tsTempivar inp i),
                      func := inp.func } = .ok ⟨o.tset.coeff.getD i #[], o.yfit.getD i #[]⟩ ∧
      o.outmask.getD i #[] = Array.replicate (inp.xpos.getD 0 #[]).size true := by
  obtain ⟨-, xmin, xmax, hmin, hmax, e1, e2, ⟨-, -, e3, e4, e5⟩, -, -, -, hrow⟩ := tsetFit_ok solve inp o h
  have hF := hrow i hi
  have hjump : o.tset.xnorm (inp.xpos.getD i #[]) inp.xjumplo.isSome =
      (ts0 inp xmin xmax).xnorm (inp.xpos.getD i #[]) inp.xjumplo.isSome := by
    unfold TSet.xnorm
    rw [e1, e2, e3, e4, e5]
    rfl
  unfold tsFitRow at hF
  obtain ⟨xvec, hxv, hF⟩ := bind_ok hF
  obtain ⟨r, hr, hF⟩ := bind_ok hF
  cases r with
  | none => cases hF
  | some r =>
    have hF' : r = (⟨o.tset.coeff.getD i #[], o.yfit.getD i #[]⟩, o.outmask.getD i #[]) := by
      simpa [pure, Except.pure] using hF
    refine ⟨xvec, by rw [hjump, hxv], ?_, ?_⟩
    · have := fitIter_ok _ _ _ _ hr
      rw [hF'] at this
      exact this
    · have := fitIter_mask _ _ _ _ hr
      rw [hF'] at this
      exact this


/-- what two inputs must share for their loops over traces to be comparable: everything except the rows -/
structure SameSetup (inp inp' : TsIn K) : Prop where
  func : inp'.func = inp.func
  ncoeff : inp'.ncoeff = inp.ncoeff
  maxiter : inp'.maxiter = inp.maxiter
  lo : inp'.xjumplo = inp.xjumplo
  hi : inp'.xjumphi = inp.xjumphi
  val : inp'.xjumpval = inp.xjumpval
  nx : (inp'.xpos.getD 0 #[]).size = (inp.xpos.getD 0 #[]).size
  xmin : tsXmin inp' = tsXmin inp
  xmax : tsXmax inp' = tsXmax inp

/-- **every trace is fitted on its own**: the coefficients, fitted values and mask of trace `i'` of one input and of
trace `i` of another input are identical as soon as the two inputs agree in the global settings and in the data of
that one trace (positions, values, `invvar * inmask`) - whatever the other traces contain -/
theorem tsetFit_row_local (solve : Array (Array K) → Array K → R (Array K)) (inp inp' : TsIn K) (o o' : TsOut K)
    (h : tsetFit solve inp = .ok o) (h' : tsetFit solve inp' = .ok o') (hs : SameSetup inp inp')
    (i i' : ℕ) (hi : i < inp.xpos.size) (hi' : i' < inp'.xpos.size)
    (hx : inp'.xpos.getD i' #[] = inp.xpos.getD i #[]) (hy : inp'.ypos.getD i' #[] = inp.ypos.getD i #[])
    (hw : tsTempivar inp' i' = tsTempivar inp i) :
    o'.tset.coeff.getD i' #[] = o.tset.coeff.getD i #[] ∧ o'.yfit.getD i' #[] = o.yfit.getD i #[] ∧
      o'.outmask.getD i' #[] = o.outmask.getD i #[] := by
  obtain ⟨-, xmin, xmax, hmin, hmax, -, -, -, -, -, -, hrow⟩ := tsetFit_ok solve inp o h
  obtain ⟨-, xmin', xmax', hmin', hmax', -, -, -, -, -, -, hrow'⟩ := tsetFit_ok solve inp' o' h'
  have e1 : xmin' = xmin := by
    have := hs.xmin; rw [hmin, hmin'] at this; cases this; rfl
  have e2 : xmax' = xmax := by
    have := hs.xmax; rw [hmax, hmax'] at this; cases this; rfl
  subst e1 e2
  have ht : ts0 inp' xmin' xmax' = ts0 inp xmin' xmax' := by
    unfold ts0; rw [hs.func, hs.ncoeff, hs.lo, hs.hi, hs.val]
  have hc : tsFitRow solve inp' (ts0 inp' xmin' xmax') i' = tsFitRow solve inp (ts0 inp xmin' xmax') i := by
    rw [ht]
    unfold tsFitRow
    rw [hs.func, hs.ncoeff, hs.maxiter, hs.lo, hs.nx, hx, hy, hw]
  have := (hrow' i' hi').symm.trans (hc.trans (hrow i hi))
  injection this with this
  injection this with h1 h2
  injection h1 with h3 h4
  exact ⟨h3, h4, h2⟩

theorem sameSetup_ypos (inp : TsIn K) (yp : Array (Array K)) : SameSetup inp { inp with ypos := yp } :=
  ⟨rfl, rfl, rfl, rfl, rfl, rfl, rfl, rfl, rfl⟩

/-- **changing the values of trace `j` never changes another trace**: replace row `j` of `ypos` by anything; every
trace `i ≠ j` keeps its coefficients, fitted values and mask -/
theorem tsetFit_other_traces (solve : Array (Array K) → Array K → R (Array K)) (inp : TsIn K) (j : ℕ) (row : Array K)
    (o o' : TsOut K) (h : tsetFit solve inp = .ok o)
    (h' : tsetFit solve { inp with ypos := inp.ypos.setIfInBounds j row } = .ok o')
    (i : ℕ) (hi : i < inp.xpos.size) (hij : i ≠ j) :
    o'.tset.coeff.getD i #[] = o.tset.coeff.getD i #[] ∧ o'.yfit.getD i #[] = o.yfit.getD i #[] ∧
      o'.outmask.getD i #[] = o.outmask.getD i #[] := by
  refine tsetFit_row_local solve inp _ o o' h h' (sameSetup_ypos inp _) i i hi hi rfl ?_ rfl
  show (inp.ypos.setIfInBounds j row).getD i #[] = inp.ypos.getD i #[]
  simp [Ne.symm hij]

/-- **permuting the traces permutes the rows of the result**: with the traces re-ordered by `σ` (row `i` of the new
input is row `σ i` of the old one), row `i` of the new coefficients / fitted values / mask is row `σ i` of the old.
`hmin`/`hmax`: the two inputs use the same `xmin`/`xmax` - this is `tsXmin_reorder` when they are given explicitly;
for the defaults `xpos.min()`/`xpos.max()` it is the permutation invariance of min/max, which is not proved here. -/
theorem tsetFit_perm (solve : Array (Array K) → Array K → R (Array K)) (inp : TsIn K) (σ : ℕ → ℕ)
    (hσ : ∀ i, i < inp.xpos.size → σ i < inp.xpos.size)
    (hmin : tsXmin (inp.reorder σ) = tsXmin inp) (hmax : tsXmax (inp.reorder σ) = tsXmax inp)
    (o o' : TsOut K) (h : tsetFit solve inp = .ok o) (h' : tsetFit solve (inp.reorder σ) = .ok o')
    (i : ℕ) (hi : i < inp.xpos.size) :
    o'.tset.coeff.getD i #[] = o.tset.coeff.getD (σ i) #[] ∧ o'.yfit.getD i #[] = o.yfit.getD (σ i) #[] ∧
      o'.outmask.getD i #[] = o.outmask.getD (σ i) #[] := by
  obtain ⟨hshape, -⟩ := tsetFit_ok solve inp o h
  have h0 : 0 < inp.xpos.size := by omega
  have hnx : ((inp.reorder σ).xpos.getD 0 #[]).size = (inp.xpos.getD 0 #[]).size := by
    show ((tab inp.xpos.size fun i => inp.xpos.getD (σ i) #[]).getD 0 #[]).size = _
    rw [tab_getD, if_pos h0]
    exact (ts_rows_rect inp hshape (σ 0) (hσ 0 h0)).1
  refine tsetFit_row_local solve inp _ o o' h h' ⟨rfl, rfl, rfl, rfl, rfl, rfl, hnx, hmin, hmax⟩ (σ i) i (hσ i hi)
    (by show i < (tab _ _).size; simpa using hi) ?_ ?_ ?_
  · show (tab inp.xpos.size fun i => inp.xpos.getD (σ i) #[]).getD i #[] = _
    rw [tab_getD, if_pos hi]
  · show (tab inp.xpos.size fun i => inp.ypos.getD (σ i) #[]).getD i #[] = _
    rw [tab_getD, if_pos hi]
  · unfold tsTempivar
    rw [hnx]
    simp only [TsIn.reorder]
    cases inp.invvar <;> cases inp.inmask <;> simp only [Option.map_some, Option.map_none, tab_getD, hi, if_true]

/-- with `xmin` / `xmax` given explicitly the two hypotheses of `tsetFit_perm` hold -/
theorem tsXmin_reorder (inp : TsIn K) (σ : ℕ → ℕ) (a b : K) (ha : inp.xmin = some a) (hb : inp.xmax = some b) :
    tsXmin (inp.reorder σ) = tsXmin inp ∧ tsXmax (inp.reorder σ) = tsXmax inp := by
  unfold tsXmin tsXmax TsIn.reorder
  simp [ha, hb]

end iter

section iter2
variable {K : Type} [Field K] [LinearOrder K] [IsStrictOrderedRing K] [FloorRing K]
attribute [-instance] Scalar.toAdd Scalar.toSub Scalar.toMul Scalar.toDiv Scalar.toNeg Scalar.toLT Scalar.toLE
  Scalar.instOfNat Scalar.instOfScientific Scalar.decLt Scalar.decLe
attribute [local instance] fieldScalar
open Finset

/-- the call of `func_fit` for trace `i` -/
noncomputable def tsFitIn (inp : TsIn K) (xvec : Array K) (i : ℕ) : FitIn K :=
  { x := xvec, y := inp.ypos.getD i #[], ncoeff := inp.ncoeff, invvar := some (tsTempivar inp i), func := inp.func }

/-- **the final coefficients of every trace are the weighted-least-squares optimum over the kept points**: with
weights `w = invvar * inmask ≥ 0` the coefficient row `i` of the trace set minimises `Σ_j w_j (ypos[i,j] - Σ_k c_k φ_k(xnorm x_ij))²`
over all coefficient vectors (the kept points are those of non-zero weight: nothing else is ever removed, `rejectCall_none`) -/
theorem tsetFit_optimum (solve : Array (Array K) → Array K → R (Array K)) (hsolve : SolveContract solve)
    (inp : TsIn K) (o : TsOut K) (h : tsetFit solve inp = .ok o) (i : ℕ) (hi : i < inp.xpos.size) :
    ∃ xvec, o.tset.xnorm (inp.xpos.getD i #[]) inp.xjumplo.isSome = .ok xvec ∧
      ∀ (legarr : Array (Array K)), 2 ≤ (goodIdx (tsTempivar inp i)).length →
        fitBasis (tsFitIn inp xvec i) (ncfit (tsFitIn inp xvec i) (tsTempivar inp i)) = .ok legarr →
        (∀ j, j < xvec.size → 0 ≤ at1 (tsTempivar inp i) j) →
        (∀ k, k < ncfit (tsFitIn inp xvec i) (tsTempivar inp i) →
          ∑ j ∈ range xvec.size, at2 legarr k j * (at2 legarr k j * at1 (tsTempivar inp i) j) ≠ 0) →
        ∀ z : ℕ → K,
          wssr xvec.size (ncfit (tsFitIn inp xvec i) (tsTempivar inp i)) (at2 legarr) (at1 (tsTempivar inp i))
              (at1 (inp.ypos.getD i #[])) (at1 (o.tset.coeff.getD i #[]))
            ≤ wssr xvec.size (ncfit (tsFitIn inp xvec i) (tsTempivar inp i)) (at2 legarr) (at1 (tsTempivar inp i))
              (at1 (inp.ypos.getD i #[])) z := by
  obtain ⟨xvec, hx, hfit, -⟩ := tsetFit_row_is_funcFit solve inp o h i hi
  refine ⟨xvec, hx, ?_⟩
  intro legarr hg hb hpos hnz z
  have hsz := (funcFit_sizes solve _ _ hfit).2.2 _ rfl
  have hw : fitWeights (tsFitIn inp xvec i) = .ok (tsTempivar inp i) := by
    unfold fitWeights tsFitIn
    dsimp only at hsz ⊢
    rw [if_neg (by simpa using hsz)]
    rfl
  have hia : fitIa (tsFitIn inp xvec i) = .ok (Array.replicate inp.ncoeff true) := rfl
  have hall : ∀ k, (Array.replicate inp.ncoeff true).getD k true = true := by
    intro k
    by_cases hk : k < inp.ncoeff <;> simp [hk]
  exact funcFit_optimum solve hsolve (tsFitIn inp xvec i) _ hfit _ _ legarr hw hia hg hb hpos
    (fun k hk _ => hnz k hk) z (fun k _ hf => by rw [hall k] at hf; cases hf)

/-- a point masked by `inmask` or of zero inverse variance has weight 0 in the fit of its trace -/
theorem tsTempivar_zero (inp : TsIn K) (i j : ℕ) (hj : j < (inp.xpos.getD 0 #[]).size)
    (h0 : (∃ v, inp.invvar = some v ∧ at2 v i j = 0) ∨ (∃ m, inp.inmask = some m ∧ (m.getD i #[]).getD j false = false)) :
    at1 (tsTempivar inp i) j = 0 := by
  unfold tsTempivar
  rcases h0 with ⟨v, hv, hz⟩ | ⟨m, hm, hz⟩
  · rw [hv]
    have hz' : at1 (v.getD i #[]) j = 0 := hz
    cases inp.inmask <;> simp only [at1_tab _ _ _ hj, hz'] <;> simp [lit0, lit1]
  · rw [hm]
    simp only [at1_tab _ _ _ hj, hz]
    simp [lit0, lit1]

/-- **points of zero weight never influence the coefficients**: replace `ypos` of trace `i` at points where
`invvar * inmask = 0` by anything (`y'`): the coefficients of the trace still satisfy the weighted normal equations of the
changed data - which determine them uniquely when the normal matrix is positive definite (`funcFit_exact`'s hypothesis) -/
theorem tsetFit_zero_weight (solve : Array (Array K) → Array K → R (Array K)) (hsolve : SolveContract solve)
    (inp : TsIn K) (o : TsOut K) (h : tsetFit solve inp = .ok o) (i : ℕ) (hi : i < inp.xpos.size) :
    ∃ xvec, o.tset.xnorm (inp.xpos.getD i #[]) inp.xjumplo.isSome = .ok xvec ∧
      ∀ (legarr : Array (Array K)), 2 ≤ (goodIdx (tsTempivar inp i)).length →
        fitBasis (tsFitIn inp xvec i) (ncfit (tsFitIn inp xvec i) (tsTempivar inp i)) = .ok legarr →
        (∀ k, k < ncfit (tsFitIn inp xvec i) (tsTempivar inp i) →
          ∑ j ∈ range xvec.size, at2 legarr k j * (at2 legarr k j * at1 (tsTempivar inp i) j) ≠ 0) →
        ∀ y' : ℕ → K, (∀ j, j < xvec.size → at1 (tsTempivar inp i) j ≠ 0 → y' j = at1 (inp.ypos.getD i #[]) j) →
          ∀ k, k < ncfit (tsFitIn inp xvec i) (tsTempivar inp i) →
            ∑ j ∈ range xvec.size, at1 (tsTempivar inp i) j * at2 legarr k j *
              (y' j - ∑ l ∈ range (ncfit (tsFitIn inp xvec i) (tsTempivar inp i)),
                at2 legarr l j * at1 (o.tset.coeff.getD i #[]) l) = 0 := by
  obtain ⟨xvec, hx, hfit, -⟩ := tsetFit_row_is_funcFit solve inp o h i hi
  refine ⟨xvec, hx, ?_⟩
  intro legarr hg hb hnz y' hy' k hk
  have hsz := (funcFit_sizes solve _ _ hfit).2.2 _ rfl
  have hw : fitWeights (tsFitIn inp xvec i) = .ok (tsTempivar inp i) := by
    unfold fitWeights tsFitIn
    dsimp only at hsz ⊢
    rw [if_neg (by simpa using hsz)]
    rfl
  have hia : fitIa (tsFitIn inp xvec i) = .ok (Array.replicate inp.ncoeff true) := rfl
  have hall : ∀ k, (Array.replicate inp.ncoeff true).getD k true = true := by
    intro k
    by_cases hk : k < inp.ncoeff <;> simp [hk]
  exact funcFit_zero_weight solve hsolve (tsFitIn inp xvec i) _ hfit _ _ legarr hw hia hg hb
    (fun k hk _ => hnz k hk) y' hy' k hk (hall k)


/-! ## TraceSet from a FITS record -/

/-- **reading back what was stored evaluates identically**: the record a trace set is stored as (`toRec`) is accepted by
the FITS constructor, and the trace set read back gives the same `xy` for every `xpos` (or the default grid) and either
`ignore_jump` - provided a set that has `xjumplo` also has `xjumphi` and `xjumpval` (as every BOSS file does) -/
theorem ofRec_toRec (t : TSet K) (hj : t.xjumplo.isSome = true → t.xjumphi.isSome = true ∧ t.xjumpval.isSome = true) :
    ∃ t', TSet.ofRec t.toRec = .ok t' ∧ t'.coeff = t.coeff ∧ t'.ncoeff = t.ncoeff ∧ t'.func = t.func ∧
      t'.xmin = t.xmin ∧ t'.xmax = t.xmax ∧ ∀ xpos ign, t'.xy xpos ign = t.xy xpos ign := by
  obtain ⟨func, xmin, xmax, coeff, ncoeff, lo, hi, v⟩ := t
  cases lo with
  | some lo =>
    obtain ⟨h1, h2⟩ := hj rfl
    dsimp only at h1 h2
    obtain ⟨hi, rfl⟩ := Option.isSome_iff_exists.mp h1
    obtain ⟨v, rfl⟩ := Option.isSome_iff_exists.mp h2
    refine ⟨⟨func, xmin, xmax, coeff, ncoeff, some lo, some hi, some v⟩, ?_, rfl, rfl, rfl, rfl, rfl, fun _ _ => rfl⟩
    simp [TSet.ofRec, TSet.toRec, FitsRec.get, FitsRec.names, Cell.asNum, Cell.asStr, bind, Except.bind, pure, Except.pure, List.find?]
  | none =>
    refine ⟨⟨func, xmin, xmax, coeff, ncoeff, none, none, none⟩, ?_, rfl, rfl, rfl, rfl, rfl, fun xpos ign => ?_⟩
    · simp [TSet.ofRec, TSet.toRec, FitsRec.get, FitsRec.names, Cell.asNum, Cell.asStr, bind, Except.bind, pure, Except.pure, List.find?]
    · have hrow : (⟨func, xmin, xmax, coeff, ncoeff, none, none, none⟩ : TSet K).xyRow =
          (⟨func, xmin, xmax, coeff, ncoeff, none, hi, v⟩ : TSet K).xyRow := by
        funext xp dj i
        cases dj <;> simp [TSet.xyRow, TSet.xnorm, jumpOf]
      simp only [TSet.xy, TSet.xyPos, TSet.grid, TSet.nx, hrow]


/-- non-vacuity of `ofRec_toRec` / `tsetFit_perm`: a BOSS-style set (all three jump fields) meets the hypothesis, and
explicit `xmin`/`xmax` discharge the two hypotheses of `tsetFit_perm` (`tsXmin_reorder`) -/
example : ∃ t', TSet.ofRec (⟨"legendre", 0, 4127, #[#[1, 2]], 2, some 2055.5, some 2057.5, some 0.25⟩ : TSet ℚ).toRec = .ok t' ∧
    t'.coeff = #[#[1, 2]] := by
  obtain ⟨t', h, hc, -⟩ := ofRec_toRec (⟨"legendre", 0, 4127, #[#[1, 2]], 2, some 2055.5, some 2057.5, some 0.25⟩ : TSet ℚ)
    (fun _ => ⟨rfl, rfl⟩)
  exact ⟨t', h, hc⟩

end iter2

/-! ## `xpos.min()` / `xpos.max()` do not see the order of the traces: `tsetFit_perm` without hypotheses -/

section permmin
variable {K : Type} [Field K] [LinearOrder K] [IsStrictOrderedRing K] [FloorRing K]
attribute [local instance] fieldScalar

theorem foldMin_spec (xs : List K) : ∀ x : K,
    (xs.foldl (fun m v => if v < m then v else m) x ∈ x :: xs) ∧
    ∀ v ∈ x :: xs, xs.foldl (fun m v => if v < m then v else m) x ≤ v := by
  induction xs with
  | nil => intro x; simp
  | cons a xs ih =>
    intro x
    simp only [List.foldl_cons]
    obtain ⟨h1, h2⟩ := ih (if a < x then a else x)
    refine ⟨?_, ?_⟩
    · rcases List.mem_cons.mp h1 with h | h
      · rw [h]; split <;> simp
      · simp [h]
    · intro v hv
      have h0 := h2 _ (List.mem_cons_self)
      rcases List.mem_cons.mp hv with h | h
      · subst h
        refine le_trans h0 ?_
        split
        · rename_i hlt; exact le_of_lt hlt
        · exact le_refl _
      · rcases List.mem_cons.mp h with h | h
        · subst h
          refine le_trans h0 ?_
          split
          · exact le_refl _
          · rename_i hlt; exact le_of_not_gt hlt
        · exact h2 v (List.mem_cons_of_mem _ h)

theorem foldMax_spec (xs : List K) : ∀ x : K,
    (xs.foldl (fun m v => if m < v then v else m) x ∈ x :: xs) ∧
    ∀ v ∈ x :: xs, v ≤ xs.foldl (fun m v => if m < v then v else m) x := by
  induction xs with
  | nil => intro x; simp
  | cons a xs ih =>
    intro x
    simp only [List.foldl_cons]
    obtain ⟨h1, h2⟩ := ih (if x < a then a else x)
    refine ⟨?_, ?_⟩
    · rcases List.mem_cons.mp h1 with h | h
      · rw [h]; split <;> simp
      · simp [h]
    · intro v hv
      have h0 := h2 _ (List.mem_cons_self)
      rcases List.mem_cons.mp hv with h | h
      · subst h
        refine le_trans ?_ h0
        split
        · rename_i hlt; exact le_of_lt hlt
        · exact le_refl _
      · rcases List.mem_cons.mp h with h | h
        · subst h
          refine le_trans ?_ h0
          split
          · exact le_refl _
          · rename_i hlt; exact le_of_not_gt hlt
        · exact h2 v (List.mem_cons_of_mem _ h)

/-- `xpos.min()` depends only on the set of values: two arrays with the same elements have the same minimum -/
theorem minAll_congr (a b : Array (Array K))
    (h : ∀ v, v ∈ a.toList.flatMap Array.toList ↔ v ∈ b.toList.flatMap Array.toList) : minAll a = minAll b := by
  unfold minAll
  cases ha : a.toList.flatMap Array.toList with
  | nil =>
    cases hb : b.toList.flatMap Array.toList with
    | nil => rfl
    | cons y ys => have := (h y).mpr (by rw [hb]; simp); rw [ha] at this; simp at this
  | cons x xs =>
    cases hb : b.toList.flatMap Array.toList with
    | nil => have := (h x).mp (by rw [ha]; simp); rw [hb] at this; simp at this
    | cons y ys =>
      obtain ⟨m1, l1⟩ := foldMin_spec xs x
      obtain ⟨m2, l2⟩ := foldMin_spec ys y
      rw [ha, hb] at h
      show Except.ok _ = Except.ok _
      congr 1
      exact le_antisymm (l1 _ ((h _).mpr m2)) (l2 _ ((h _).mp m1))

theorem maxAll_congr (a b : Array (Array K))
    (h : ∀ v, v ∈ a.toList.flatMap Array.toList ↔ v ∈ b.toList.flatMap Array.toList) : maxAll a = maxAll b := by
  unfold maxAll
  cases ha : a.toList.flatMap Array.toList with
  | nil =>
    cases hb : b.toList.flatMap Array.toList with
    | nil => rfl
    | cons y ys => have := (h y).mpr (by rw [hb]; simp); rw [ha] at this; simp at this
  | cons x xs =>
    cases hb : b.toList.flatMap Array.toList with
    | nil => have := (h x).mp (by rw [ha]; simp); rw [hb] at this; simp at this
    | cons y ys =>
      obtain ⟨m1, l1⟩ := foldMax_spec xs x
      obtain ⟨m2, l2⟩ := foldMax_spec ys y
      rw [ha, hb] at h
      show Except.ok _ = Except.ok _
      congr 1
      exact le_antisymm (l2 _ ((h _).mp m1)) (l1 _ ((h _).mpr m2))

omit [Field K] [LinearOrder K] [IsStrictOrderedRing K] [FloorRing K] in
/-- re-ordering the rows by a permutation of the row numbers keeps the set of elements -/
theorem reorder_mem (a : Array (Array K)) (σ : ℕ → ℕ) (hσ : ∀ i, i < a.size → σ i < a.size)
    (hsurj : ∀ k, k < a.size → ∃ i, i < a.size ∧ σ i = k) (v : K) :
    v ∈ (tab a.size fun i => a.getD (σ i) #[]).toList.flatMap Array.toList ↔ v ∈ a.toList.flatMap Array.toList := by
  simp only [List.mem_flatMap, Array.mem_toList_iff]
  constructor
  · rintro ⟨row, hrow, hv⟩
    obtain ⟨i, hi, rfl⟩ := Array.mem_iff_getElem.mp hrow
    have hi' : i < a.size := by simpa using hi
    refine ⟨a.getD (σ i) #[], ?_, ?_⟩
    · have := hσ i hi'
      simp [Array.getD, this]
    · simpa [tab] using hv
  · rintro ⟨row, hrow, hv⟩
    obtain ⟨k, hk, rfl⟩ := Array.mem_iff_getElem.mp hrow
    obtain ⟨i, hi, hik⟩ := hsurj k hk
    refine ⟨a.getD (σ i) #[], ?_, ?_⟩
    · apply Array.mem_iff_getElem.mpr
      refine ⟨i, by simpa using hi, ?_⟩
      simp [tab]
    · simpa [Array.getD, hik, hk] using hv

/-- **the hypotheses of `tsetFit_perm` hold for every permutation of the traces**, also with the default
`xmin = xpos.min()`, `xmax = xpos.max()` -/
theorem tsXminmax_reorder (inp : TsIn K) (σ : ℕ → ℕ) (hσ : ∀ i, i < inp.xpos.size → σ i < inp.xpos.size)
    (hsurj : ∀ k, k < inp.xpos.size → ∃ i, i < inp.xpos.size ∧ σ i = k) :
    tsXmin (inp.reorder σ) = tsXmin inp ∧ tsXmax (inp.reorder σ) = tsXmax inp := by
  unfold tsXmin tsXmax
  have e1 : (inp.reorder σ).xmin = inp.xmin := rfl
  have e2 : (inp.reorder σ).xmax = inp.xmax := rfl
  rw [e1, e2]
  have hm := reorder_mem inp.xpos σ hσ hsurj
  refine ⟨?_, ?_⟩
  · cases inp.xmin with
    | some v => rfl
    | none => exact minAll_congr _ _ hm
  · cases inp.xmax with
    | some v => rfl
    | none => exact maxAll_congr _ _ hm

/-- **permuting the traces permutes the rows of the result** - no further hypothesis: any `σ` that permutes the trace
numbers, explicit or default `xmin`/`xmax` -/
theorem tsetFit_perm_full (solve : Array (Array K) → Array K → R (Array K)) (inp : TsIn K) (σ : ℕ → ℕ)
    (hσ : ∀ i, i < inp.xpos.size → σ i < inp.xpos.size)
    (hsurj : ∀ k, k < inp.xpos.size → ∃ i, i < inp.xpos.size ∧ σ i = k)
    (o o' : TsOut K) (h : tsetFit solve inp = .ok o) (h' : tsetFit solve (inp.reorder σ) = .ok o')
    (i : ℕ) (hi : i < inp.xpos.size) :
    o'.tset.coeff.getD i #[] = o.tset.coeff.getD (σ i) #[] ∧ o'.yfit.getD i #[] = o.yfit.getD (σ i) #[] ∧
      o'.outmask.getD i #[] = o.outmask.getD (σ i) #[] :=
  tsetFit_perm solve inp σ hσ (tsXminmax_reorder inp σ hσ hsurj).1 (tsXminmax_reorder inp σ hσ hsurj).2 o o' h h' i hi

/-- non-vacuity of `tsetFit_perm_full`: swapping two traces (`σ i = 1 - i`) meets both hypotheses on `σ` -/
example (inp : TsIn ℚ) (h2 : inp.xpos.size = 2) :
    (∀ i, i < inp.xpos.size → (fun i => 1 - i) i < inp.xpos.size) ∧
    (∀ k, k < inp.xpos.size → ∃ i, i < inp.xpos.size ∧ (fun i => 1 - i) i = k) := by
  rw [h2]
  refine ⟨fun i _ => by dsimp only; omega, fun k hk => ⟨1 - k, by omega, by dsimp only; omega⟩⟩

end permmin
end PydlVerif.C13

/-
C14 property theorems: smooth, median, uniq, rebin follow IDL semantics.
Model: PydlVerif/Model/Idl.lean.  Helper lemmas: PydlVerif/Lemmas/Idl.lean.
Value facts are proved over an arbitrary linearly ordered field K (the `Scalar` operations of
the model interpreted by `fieldScalar`), index / selection facts over Nat and List for all sizes.
The theorems audited by the check are listed in harness/props/c14.py.
-/
import PydlVerif.Lemmas.Idl
namespace PydlVerif.C14
open PydlVerif PydlVerif.Idl

section field
set_option linter.unusedSectionVars false
variable {K : Type} [Field K] [LinearOrder K] [IsStrictOrderedRing K] [FloorRing K]
attribute [local instance] fieldScalar

/-! ## numpy summation -/

/-- numpy's pairwise summation (8 accumulators, halving above 128 elements) computes the sum
    in exact arithmetic, so every `.sum()` of the model is the mathematical sum -/
theorem npSum_eq_sum (l : List K) : npSum l = l.sum := npSum_eq_sum' l

/-! ## smooth -/

theorem smooth_length (x : List K) (ow : Int) (t : Bool) : (smooth x ow t).length = x.length := by
  unfold smooth; by_cases h : oddWidth ow < 3 <;> simp [h]

/-- width (made odd) below 3: the input is returned -/
theorem smooth_identity (x : List K) (ow : Int) (t : Bool) (h : oddWidth ow < 3) :
    smooth x ow t = x := by
  simp [smooth, h]

/-- interior points: centred boxcar mean of the odd width -/
theorem smooth_interior (x : List K) (ow : Int) (t : Bool) (i : Nat) (hw : 3 ≤ oddWidth ow)
    (h1 : (oddWidth ow).toNat / 2 ≤ i) (h2 : i + (oddWidth ow).toNat / 2 < x.length) :
    (smooth x ow t).getD i 0 =
      ((List.range (oddWidth ow).toNat).map fun j => x.getD (i - (oddWidth ow).toNat / 2 + j) 0).sum
        / ((oddWidth ow).toNat : K) := by
  have hodd := oddWidth_odd ow
  have hnot : ¬ oddWidth ow < 3 := by omega
  simp only [smooth, hnot, if_false]
  rw [getD_map_range _ _ _ _ (by omega)]
  generalize hW : (oddWidth ow).toNat = w at *
  have hwodd : w % 2 = 1 := by omega
  rw [if_neg (by omega), if_neg (by omega), npSum_eq_sum, scalar_ofNat]
  rw [drop_take_eq_map _ _ _ (by omega)]
  have : 2 * (w / 2) + 1 = w := by omega
  rw [this]

/-- edge points are left untouched without `edge_truncate` -/
theorem smooth_edges_untouched (x : List K) (ow : Int) (i : Nat) (hw : 3 ≤ oddWidth ow)
    (hi : i < x.length)
    (h : i < (oddWidth ow).toNat / 2 ∨ x.length ≤ i + (oddWidth ow).toNat / 2) :
    (smooth x ow false).getD i 0 = x.getD i 0 := by
  have hodd := oddWidth_odd ow
  have hnot : ¬ oddWidth ow < 3 := by omega
  simp only [smooth, hnot, if_false]
  rw [getD_map_range _ _ _ _ hi]
  generalize hW : (oddWidth ow).toNat = w at *
  have hwodd : w % 2 = 1 := by omega
  by_cases hc : i < (w - 1) / 2
  · simp [hc]
  · rw [if_neg hc, if_pos (by omega)]; simp

/-- `edge_truncate`: every point is the mean over the window with out-of-range samples
    replaced by the nearest edge value -/
theorem smooth_truncate (x : List K) (ow : Int) (i : Nat) (hw : 3 ≤ oddWidth ow)
    (hi : i < x.length) (hn : (oddWidth ow).toNat ≤ x.length + 1) :
    (smooth x ow true).getD i 0 =
      ((List.range (oddWidth ow).toNat).map fun j =>
          x.getD (min (i + j - (oddWidth ow).toNat / 2) (x.length - 1)) 0).sum
        / ((oddWidth ow).toNat : K) := by
  have hodd := oddWidth_odd ow
  have hnot : ¬ oddWidth ow < 3 := by omega
  simp only [smooth, hnot, if_false]
  rw [getD_map_range _ _ _ _ hi]
  generalize hW : (oddWidth ow).toNat = w at *
  have hwodd : w % 2 = 1 := by omega
  generalize hh : w / 2 = h at *
  have hw2 : w = 2 * h + 1 := by omega
  have e1 : (w - 1) / 2 = h := by omega
  have e2 : (w + 1) / 2 = h + 1 := by omega
  rw [e1, e2]
  simp only [if_true, npSum_eq_sum, scalar_ofNat]
  by_cases hc : i < h
  · rw [if_pos hc]
    congr 1
    have hs : w = (h - i) + (h + i + 1) := by omega
    rw [hs, sum_range_split]
    rw [sum_range_const (h - i) (x.getD 0 0) _ (by
      intro j hj
      have : i + j - h = 0 := by omega
      simp [this])]
    rw [take_eq_map _ _ (by omega)]
    rw [add_comm]; congr 1
    apply sum_range_congr; intro j hj
    have : min (i + (h - i + j) - h) (x.length - 1) = j := by omega
    rw [this]
  · rw [if_neg hc]
    by_cases hc2 : ((i : Int) > (x.length : Int) - ((h + 1 : Nat) : Int))
    · rw [if_pos hc2]
      congr 1
      have hs : w = (x.length - (i - h)) + (i + h + 1 - x.length) := by omega
      rw [hs, sum_range_split, drop_eq_map _ _ (by omega)]
      congr 1
      · apply sum_range_congr; intro j hj
        have : min (i + j - h) (x.length - 1) = i - h + j := by omega
        rw [this]
      · rw [sum_range_const _ (x.getD (x.length - 1) 0)]
        · congr 2; omega
        · intro j hj
          have : min (i + (x.length - (i - h) + j) - h) (x.length - 1) = x.length - 1 := by omega
          rw [this]
    · rw [if_neg hc2]
      congr 1
      rw [drop_take_eq_map _ _ _ (by omega)]
      have : 2 * h + 1 = w := by omega
      rw [this]
      apply sum_range_congr; intro j hj
      have : min (i + j - h) (x.length - 1) = i - h + j := by omega
      rw [this]

/-! ## median -/

/-- the sort used by the model returns a sorted permutation -/
theorem isort_sorted_perm (l : List K) : (isort l).Pairwise (· ≤ ·) ∧ (isort l).Perm l :=
  isort_sorted_perm' l

/-- IDL MEDIAN without width: for every sorted rearrangement `s` of the data, the result is the
    upper middle element `s[n/2]`, or with `even` and an even count the mean of the two middle ones -/
theorem median_plain (x s : List K) (even : Bool) (hn : 1 ≤ x.length) (hp : s.Perm x)
    (hs : s.Pairwise (· ≤ ·)) :
    medianPlain x even = .ok
      (if x.length % 2 = 0 ∧ even = true then
        (s.getD (x.length / 2 - 1) 0 + s.getD (x.length / 2) 0) / ((2 : Nat) : K)
       else s.getD (x.length / 2) 0) := by
  have hu := isort_unique x s hp hs
  have hn0 : ¬ x.length = 0 := by omega
  unfold medianPlain
  simp only [hu]
  have hb0 : (x.length == 0) = false := by simp [hn0]
  by_cases hodd : x.length % 2 = 1
  · have hb1 : (x.length % 2 == 1) = true := by simp [hodd]
    have : ¬ (x.length % 2 = 0 ∧ even = true) := by omega
    simp only [hb0, hb1, Bool.true_or, if_true, Bool.false_eq_true, if_false, this]; rfl
  · have h0 : x.length % 2 = 0 := by omega
    have hb1 : (x.length % 2 == 1) = false := by simp [h0]
    cases even
    · simp only [hb0, hb1, Bool.or_self, Bool.false_eq_true, if_false, and_false]; rfl
    · simp only [hb0, Bool.or_true, if_true, Bool.false_eq_true, if_false, h0, and_self,
        npSum_eq_sum, List.sum_cons, List.sum_nil, add_zero, scalar_ofNat]; rfl

/-- the samples x[i-h .. i+h] -/
noncomputable def window1 (x : List K) (h i : Nat) : List K :=
  (List.range (2 * h + 1)).map fun j => x.getD (i - h + j) 0

/-- the model of scipy.signal.medfilt: on points whose window lies inside the array it returns
    the middle element of the sorted window (zero padding is never seen there) -/
theorem medfilt1_contract (x : List K) (k i : Nat) (hk : k % 2 = 1) (h1 : k / 2 ≤ i)
    (h2 : i + k / 2 < x.length) :
    (medfilt1 k x).length = x.length ∧
    (medfilt1 k x).getD i 0 = (isort (window1 x (k / 2) i)).getD (k / 2) 0 := by
  constructor
  · simp [medfilt1]
  · simp only [medfilt1]
    rw [getD_map_range _ _ _ _ (by omega)]
    congr 2
    have : 2 * (k / 2) + 1 = k := by omega
    rw [window1, this]
    apply List.map_congr_left
    intro j hj
    have hj' := List.mem_range.1 hj
    rw [if_neg (by omega)]
    congr 1; omega

/-- running median, 1-D, odd width not exceeding n, for any filter `mf` that returns the
    middle of the sorted window on interior points: `(w-1)/2` points at either end are the
    input, every other point is the median (element `h` of ANY sorted rearrangement) of x[i-h..i+h] -/
theorem median_running (mf : Nat → List K → List K) (x : List K) (w : Nat) (hodd : w % 2 = 1)
    (hw : w ≤ x.length)
    (hmf : ∀ i, w / 2 ≤ i → i + w / 2 < x.length →
      (mf w x).getD i 0 = (isort (window1 x (w / 2) i)).getD (w / 2) 0) :
    ∃ r, medianRun1 mf x w = .ok r ∧ r.length = x.length ∧
      (∀ i, i < x.length → (i < w / 2 ∨ x.length ≤ i + w / 2) → r.getD i 0 = x.getD i 0) ∧
      (∀ i (s : List K), w / 2 ≤ i → i + w / 2 < x.length → s.Perm (window1 x (w / 2) i) →
        s.Pairwise (· ≤ ·) → r.getD i 0 = s.getD (w / 2) 0) := by
  have hk : min w x.length = w := by omega
  refine ⟨(List.range x.length).map fun i =>
    if isEdge x.length w i then x.getD i 0 else (mf w x).getD i 0, ?_, ?_, ?_, ?_⟩
  · simp only [medianRun1, hk]
    rw [if_neg (by simp; omega)]
    rfl
  · simp
  · intro i hi he
    rw [getD_map_range _ _ _ _ hi]
    have : isEdge x.length w i = true := by
      simp only [isEdge, Bool.or_eq_true, decide_eq_true_eq]; omega
    rw [if_pos this]
  · intro i s h1 h2 hp hs
    rw [getD_map_range _ _ _ _ (by omega)]
    have : ¬ isEdge x.length w i = true := by
      simp only [isEdge, Bool.or_eq_true, decide_eq_true_eq]; omega
    rw [if_neg this, hmf i h1 h2, isort_unique _ s hp hs]

/-- the hypothesis of `median_running` is met by the model of scipy.signal.medfilt -/
theorem median_running_model (x : List K) (w : Nat) (hodd : w % 2 = 1) (hw : w ≤ x.length) :
    ∃ r, medianRun1 medfilt1 x w = .ok r ∧ r.length = x.length ∧
      (∀ i, i < x.length → (i < w / 2 ∨ x.length ≤ i + w / 2) → r.getD i 0 = x.getD i 0) ∧
      (∀ i (s : List K), w / 2 ≤ i → i + w / 2 < x.length → s.Perm (window1 x (w / 2) i) →
        s.Pairwise (· ≤ ·) → r.getD i 0 = s.getD (w / 2) 0) :=
  median_running medfilt1 x w hodd hw (fun i h1 h2 => (medfilt1_contract x w i hodd h1 h2).2)

/-- the samples x[i-h .. i+h][j-h .. j+h], row by row -/
noncomputable def window2 (x : List (List K)) (h i j : Nat) : List K :=
  (List.range (2 * h + 1)).flatMap fun a => (List.range (2 * h + 1)).map fun b =>
    get2 x (i - h + a) (j - h + b)

/-- the model of scipy.signal.medfilt2d on points whose k × k window lies inside the array -/
theorem medfilt2_contract (x : List (List K)) (k i j : Nat) (hk : k % 2 = 1) (h1 : k / 2 ≤ i)
    (h2 : i + k / 2 < x.length) (h3 : k / 2 ≤ j) (h4 : j + k / 2 < (x.getD 0 []).length) :
    (medfilt2 k x).length = x.length ∧
    get2 (medfilt2 k x) i j = (isort (window2 x (k / 2) i j)).getD (k * k / 2) 0 := by
  constructor
  · simp [medfilt2]
  · simp only [medfilt2, get2]
    rw [getD_map_range _ _ _ _ (by omega), getD_map_range _ _ _ _ (by omega)]
    congr 2
    have : 2 * (k / 2) + 1 = k := by omega
    rw [window2, this]
    congr 1; funext a; congr 1; funext b
    rw [if_neg (by omega)]
    simp only [get2]
    congr 2 <;> omega

/-- running median, 2-D (n0 rows of length n1), odd width ≤ n0, n1: the `(w-1)/2` outer rows
    and columns are the input, every other point is the median of its w × w neighbourhood -/
theorem median_running2 (mf : Nat → List (List K) → List (List K)) (x : List (List K))
    (n1 w : Nat) (hodd : w % 2 = 1) (hw0 : w ≤ x.length) (hw1 : w ≤ n1)
    (hmf : ∀ i j, w / 2 ≤ i → i + w / 2 < x.length → w / 2 ≤ j → j + w / 2 < n1 →
      get2 (mf w x) i j = (isort (window2 x (w / 2) i j)).getD (w * w / 2) 0) :
    ∃ r, medianRun2 mf x n1 w = .ok r ∧ r.length = x.length ∧
      (∀ i, i < x.length → (r.getD i []).length = n1) ∧
      (∀ i j, i < x.length → j < n1 →
        (i < w / 2 ∨ x.length ≤ i + w / 2 ∨ j < w / 2 ∨ n1 ≤ j + w / 2) →
        get2 r i j = get2 x i j) ∧
      (∀ i j (s : List K), w / 2 ≤ i → i + w / 2 < x.length → w / 2 ≤ j → j + w / 2 < n1 →
        s.Perm (window2 x (w / 2) i j) → s.Pairwise (· ≤ ·) →
        get2 r i j = s.getD (w * w / 2) 0) := by
  have hk : min w (x.length * n1) = w := by
    have : x.length * 1 ≤ x.length * n1 := Nat.mul_le_mul_left _ (by omega)
    omega
  refine ⟨(List.range x.length).map fun i => (List.range n1).map fun j =>
    if isEdge x.length w i || isEdge n1 w j then get2 x i j else get2 (mf w x) i j, ?_, ?_, ?_, ?_, ?_⟩
  · simp only [medianRun2, hk]
    rw [if_neg (by simp; omega)]
    rfl
  · simp
  · intro i hi
    rw [getD_map_range _ _ _ _ hi]; simp
  · intro i j hi hj he
    simp only [get2]
    rw [getD_map_range _ _ _ _ hi, getD_map_range _ _ _ _ hj]
    have : (isEdge x.length w i || isEdge n1 w j) = true := by
      simp only [isEdge, Bool.or_eq_true, decide_eq_true_eq]; omega
    rw [if_pos this]
  · intro i j s h1 h2 h3 h4 hp hs
    simp only [get2]
    rw [getD_map_range _ _ _ _ (by omega), getD_map_range _ _ _ _ (by omega)]
    have : ¬ (isEdge x.length w i || isEdge n1 w j) = true := by
      simp only [isEdge, Bool.or_eq_true, decide_eq_true_eq]; omega
    rw [if_neg this]
    have := hmf i j h1 h2 h3 h4
    simp only [get2] at this
    rw [this, isort_unique _ s hp hs]

/-- the hypothesis of `median_running2` is met by the model of scipy.signal.medfilt2d
    (rows of equal length n1) -/
theorem median_running2_model (x : List (List K)) (n1 w : Nat) (hodd : w % 2 = 1)
    (hw0 : w ≤ x.length) (hw1 : w ≤ n1) (hrect : (x.getD 0 []).length = n1) :
    ∃ r, medianRun2 medfilt2 x n1 w = .ok r ∧ r.length = x.length ∧
      (∀ i j, i < x.length → j < n1 →
        (i < w / 2 ∨ x.length ≤ i + w / 2 ∨ j < w / 2 ∨ n1 ≤ j + w / 2) →
        get2 r i j = get2 x i j) ∧
      (∀ i j (s : List K), w / 2 ≤ i → i + w / 2 < x.length → w / 2 ≤ j → j + w / 2 < n1 →
        s.Perm (window2 x (w / 2) i j) → s.Pairwise (· ≤ ·) →
        get2 r i j = s.getD (w * w / 2) 0) := by
  obtain ⟨r, h1, h2, _, h4, h5⟩ := median_running2 medfilt2 x n1 w hodd hw0 hw1
    (fun i j a b c d => (medfilt2_contract x w i j hodd a b c (by rw [hrect]; exact d)).2)
  exact ⟨r, h1, h2, h4, h5⟩

/-! ## rebin: one lane -/

/-- shrinking by the integer factor f = d0/d: block means -/
theorem rebin_shrink (x : List K) (d0 d i : Nat) (b : Bool) (hx : x.length = d0) (hd : d ∣ d0)
    (hlt : d < d0) (hi : i < d) :
    (laneRebin false b d0 d x).getD i 0 =
      ((List.range (d0 / d)).map fun j => x.getD (d0 / d * i + j) 0).sum / ((d0 / d : Nat) : K) := by
  have hmul : d0 / d * d = d0 := Nat.div_mul_cancel hd
  simp only [laneRebin, if_neg (show ¬ d > d0 by omega), if_neg (show ¬ d = d0 by omega), laneShrink]
  rw [getD_map_range _ _ _ _ hi]
  simp only [Bool.false_eq_true, if_false, axisSum_eq, scalar_ofNat]
  rw [drop_take_eq_map]
  rw [hx]
  calc d0 / d * i + d0 / d = d0 / d * (i + 1) := by ring
    _ ≤ d0 / d * d := Nat.mul_le_mul_left _ hi
    _ = d0 := hmul

/-- `sample`: nearest-neighbour picks, x[⌊i·d0/d⌋] when expanding, x[i·f] when shrinking -/
theorem rebin_sample (x : List K) (d0 d i : Nat) (b : Bool) (hi : i < d) :
    (d0 < d → (laneRebin true b d0 d x).getD i 0 = x.getD (i * d0 / d) 0) ∧
    (d < d0 → (laneRebin true b d0 d x).getD i 0 = x.getD (d0 / d * i) 0) := by
  constructor
  · intro h
    simp only [laneRebin, if_pos h, laneExpand]
    rw [getD_map_range _ _ _ _ hi]; simp
  · intro h
    simp only [laneRebin, if_neg (show ¬ d > d0 by omega), if_neg (show ¬ d = d0 by omega), laneShrink]
    rw [getD_map_range _ _ _ _ hi]; simp

/-- unchanged axis -/
theorem rebin_keep (x : List K) (d0 : Nat) (s b : Bool) : laneRebin s b d0 d0 x = x := by
  simp [laneRebin]

/-- expanding d0 → d: linear interpolation at p = i·d0/d between x[⌊p⌋] and x[⌊p⌋+1],
    clamped to the last sample from p ≥ d0-1 on; all subscripts used are in range -/
theorem rebin_expand (x : List K) (d0 d i : Nat) (b : Bool) (h0 : 0 < d0) (hlt : d0 < d) (hi : i < d) :
    let p : K := ((i * d0 : Nat) : K) / (d : K)
    let fl : Nat := i * d0 / d
    (laneRebin false b d0 d x).getD i 0 =
        (if p < ((d0 - 1 : Nat) : K) then
          x.getD fl 0 + (p - (fl : K)) * (x.getD (fl + 1) 0 - x.getD fl 0)
         else x.getD fl 0) ∧
      fl < d0 ∧ (p < ((d0 - 1 : Nat) : K) ↔ fl + 1 < d0) ∧ (fl : K) ≤ p ∧ p < ((fl + 1 : Nat) : K) := by
  intro p fl
  have hdpos := (Nat.cast_pos (α := K)).2 (show 0 < d by omega)
  have hp : ((d0 : K) / (d : K)) * (i : K) = p := by
    simp only [p]; push_cast; field_simp
  have hfl : (Scalar.floor p).toNat = fl := by
    simp only [scalar_floor, p, fl]; rw [floor_natdiv]; exact Int.toNat_natCast _
  refine ⟨?_, ?_, ?_, ?_, ?_⟩
  · simp only [laneRebin, if_pos hlt, laneExpand]
    rw [getD_map_range _ _ _ _ hi]
    simp only [Bool.false_eq_true, if_false, scalar_ofNat]
    rw [hp, hfl]
  · show i * d0 / d < d0
    rw [Nat.div_lt_iff_lt_mul (by omega)]
    calc i * d0 < d * d0 := Nat.mul_lt_mul_of_pos_right hi h0
      _ = d0 * d := Nat.mul_comm _ _
  · show ((i * d0 : Nat) : K) / (d : K) < ((d0 - 1 : Nat) : K) ↔ i * d0 / d + 1 < d0
    rw [div_lt_iff₀ hdpos]
    have : i * d0 / d + 1 < d0 ↔ i * d0 / d < d0 - 1 := by omega
    rw [this, Nat.div_lt_iff_lt_mul (by omega)]
    exact_mod_cast Iff.rfl
  · show ((i * d0 / d : Nat) : K) ≤ ((i * d0 : Nat) : K) / (d : K)
    rw [le_div_iff₀ hdpos]
    exact_mod_cast Nat.div_mul_le_self _ _
  · show ((i * d0 : Nat) : K) / (d : K) < ((i * d0 / d + 1 : Nat) : K)
    rw [div_lt_iff₀ hdpos]
    have := Nat.lt_succ_iff.2 (le_refl (i * d0 / d))
    have h2 : i * d0 < (i * d0 / d + 1) * d := by
      have := Nat.div_add_mod (i * d0) d
      have := Nat.mod_lt (i * d0) (show d > 0 by omega)
      nlinarith
    exact_mod_cast h2

/-- the index rule of `sample` as it was before the fix, `floor((d0/d)·i)`, is the same rule in
    exact arithmetic: defect D11 was float rounding only -/
theorem sample_float_exact (x : List K) (d0 d : Nat) (hd : 0 < d) :
    laneExpandSampleFloat d0 d x = laneExpand true d0 d x := by
  simp only [laneExpandSampleFloat, laneExpand, if_true]
  apply List.map_congr_left
  intro i _
  congr 1
  have hdpos := (Nat.cast_pos (α := K)).2 hd
  have hp : ((d0 : K) / (d : K)) * (i : K) = ((i * d0 : Nat) : K) / (d : K) := by
    push_cast; field_simp
  simp only [scalar_ofNat]
  rw [hp, scalar_floor, floor_natdiv]; exact Int.toNat_natCast _

end field

/-! ## uniq -/

section uniq
set_option linter.unusedSectionVars false
variable {β : Type} [BEq β] [LawfulBEq β] [PartialOrder β]

/-- UNIQ of a sorted, non-constant array: the ascending list of the last index of every run -/
theorem uniq_sorted (x : List β) (hs : x.Pairwise (· ≤ ·)) (hnc : ¬ Constant x) :
    ∃ r, uniq x = r.map Int.ofNat ∧ IsRunEnds x r := by
  refine ⟨neqNext x, ?_, neqNext_runEnds x hs hnc⟩
  have := neqNext_ne_nil x hs hnc
  simp [uniq, this]

/-- UNIQ of a constant array: the single subscript n-1 -/
theorem uniq_all_equal (x : List β) (hc : Constant x) : uniq x = [(x.length : Int) - 1] := by
  simp [uniq, neqNext_constant x hc]

/-- UNIQ through an index array whose subscripts are in range and through which the array is
    sorted and not constant: the index entries at the run ends of `x[index]` -/
theorem uniq_index (x : List β) (index : List Int)
    (h : ∀ j ∈ index, 0 ≤ j ∧ j < (x.length : Int)) :
    ∃ q, take? x index = .ok q ∧ List.Forall₂ (fun j v => x[j.toNat]? = some v) index q ∧
      (q.Pairwise (· ≤ ·) → ¬ Constant q →
        ∃ r, uniqIndex x index = .ok (r.map fun i => index.getD i 0) ∧ IsRunEnds q r) := by
  obtain ⟨q, hq, hf⟩ := take?_ok x index h
  refine ⟨q, hq, hf, ?_⟩
  intro hs hnc
  refine ⟨neqNext q, ?_, neqNext_runEnds q hs hnc⟩
  have hne := neqNext_ne_nil q hs hnc
  simp only [uniqIndex, hq, bind, Except.bind]
  simp [hne]; rfl

/-- ... except for a constant `x[index]`, where (like IDL's UNIQ) the answer is the
    position n-1 itself, not `index[n-1]` -/
theorem uniq_index_all_equal (x : List β) (index : List Int) (q : List β)
    (hq : take? x index = .ok q) (hc : Constant q) :
    uniqIndex x index = .ok [(index.length : Int) - 1] ∧ q.length = index.length := by
  have hl : q.length = index.length := by
    simp only [take?] at hq
    clear hc
    induction index generalizing q with
    | nil => simp [List.mapM_nil, pure, Except.pure] at hq; subst hq; rfl
    | cons j t ih =>
      rw [List.mapM_cons] at hq
      simp only [bind, Except.bind] at hq
      split at hq
      · cases hq
      · rename_i v hv
        split at hq
        · cases hq
        · rename_i vs hvs
          simp only [pure, Except.pure] at hq
          injection hq with hq
          subst hq
          simp [ih vs hvs]
  refine ⟨?_, hl⟩
  simp only [uniqIndex, hq, bind, Except.bind, neqNext_constant q hc]
  simp [hl]; rfl

/-- the values at the run ends of a sorted array are strictly increasing and are exactly the
    values of the array: every distinct value once -/
theorem uniq_values (x : List β) (r : List Nat) (hs : x.Pairwise (· ≤ ·)) (hr : IsRunEnds x r) :
    (r.filterMap fun i => x[i]?).Pairwise (· < ·) ∧
    ∀ v, v ∈ x ↔ ∃ i ∈ r, x[i]? = some v := by
  obtain ⟨hasc, hmem⟩ := hr
  have hsg := List.pairwise_iff_getElem.1 hs
  constructor
  · rw [List.pairwise_filterMap]
    refine hasc.imp_of_mem ?_
    intro i j hi hj hij a ha b hb
    obtain ⟨hil, hie⟩ := (hmem i).1 hi
    obtain ⟨hjl, _⟩ := (hmem j).1 hj
    have h1 : i + 1 < x.length := by omega
    rw [List.getElem?_eq_getElem hil] at ha
    rw [List.getElem?_eq_getElem hjl] at hb
    cases ha; cases hb
    rcases hie with hie | hie
    · omega
    · rw [List.getElem?_eq_getElem hil, List.getElem?_eq_getElem h1] at hie
      have hne : x[i] ≠ x[i + 1] := fun e => hie (by rw [e])
      have l1 : x[i] ≤ x[i + 1] := hsg i (i + 1) hil h1 (by omega)
      have l2 : x[i + 1] ≤ x[j] := by
        by_cases e : i + 1 = j
        · subst e; exact le_refl _
        · exact hsg (i + 1) j h1 hjl (by omega)
      exact lt_of_lt_of_le (lt_of_le_of_ne l1 hne) l2
  · intro v
    constructor
    · intro hv
      obtain ⟨k, hk, rfl⟩ := List.getElem_of_mem hv
      -- walk right to the end of the run of x[k]
      have : ∀ m k (hk : k < x.length), x.length - k = m → ∃ i ∈ r, x[i]? = some x[k] := by
        intro m
        induction m with
        | zero => intro k hk h; omega
        | succ m ih =>
          intro k hk hm
          by_cases hl : k + 1 = x.length
          · exact ⟨k, (hmem k).2 ⟨hk, Or.inl hl⟩, List.getElem?_eq_getElem hk⟩
          · have h1 : k + 1 < x.length := by omega
            by_cases he : x[k]? = x[k + 1]?
            · obtain ⟨i, hi, hv⟩ := ih (k + 1) h1 (by omega)
              refine ⟨i, hi, ?_⟩
              rw [hv, ← List.getElem?_eq_getElem h1, ← he, List.getElem?_eq_getElem hk]
            · exact ⟨k, (hmem k).2 ⟨hk, Or.inr he⟩, List.getElem?_eq_getElem hk⟩
      exact this _ k hk rfl
    · rintro ⟨i, _, hv⟩
      exact List.mem_of_getElem? hv

end uniq

/-! ## rebin: N-D structure -/

section nd
variable {α : Type} [Scalar α]

/-- rebin returns exactly the requested shape (and that many elements) whenever the new shape has
    the same rank and every axis is an integer multiple or factor -/
theorem rebin_shape (x : ND α) (d : List Nat) (sample : Bool) (hc : Compatible x.shape d)
    (hx : x.data.size = prod x.shape) :
    ∃ r, rebin x d sample = .ok r ∧ r.shape = d ∧ r.data.size = prod d := by
  have hlen : ∀ s ds, Compatible s ds → s.length = ds.length := by
    intro s
    induction s with
    | nil => intro ds h; cases ds <;> simp_all [Compatible]
    | cons a s ih =>
      intro ds h
      cases ds with
      | nil => simp [Compatible] at h
      | cons b ds => simp [ih ds h.2.2.2]
  have hl := hlen _ _ hc
  refine ⟨⟨d, rebinAxes sample [] x.shape d x.data⟩, ?_, rfl, ?_⟩
  · simp only [rebin, bind, Except.bind, rebinCheck_ok _ _ hc]
    rw [if_neg (by simp [hl])]
    rfl
  · rw [rebinAxes_size _ _ _ _ _ hl (by simp [prod, hx])]
    simp [prod]

/-- rank changes, and (for positive dimensions) an axis that is neither an integer multiple nor an
    integer factor, are refused with ValueError -/
theorem rebin_rejects (x : ND α) (d : List Nat) (sample : Bool) :
    (x.shape.length ≠ d.length → rebin x d sample = .error "ValueError") ∧
    ((∀ a ∈ x.shape, 0 < a) → (∀ a ∈ d, 0 < a) → x.shape.length = d.length →
      (∃ k, ∃ (h0 : k < x.shape.length) (h1 : k < d.length),
        ¬ x.shape[k] ∣ d[k] ∧ ¬ d[k] ∣ x.shape[k]) →
      rebin x d sample = .error "ValueError") := by
  constructor
  · intro h
    simp [rebin, h, valueError, bind, Except.bind]
  · intro hp0 hp1 hl hbad
    have key : ∀ s ds : List Nat, (∀ a ∈ s, 0 < a) → (∀ a ∈ ds, 0 < a) →
        (∃ k, ∃ (h0 : k < s.length) (h1 : k < ds.length), ¬ s[k] ∣ ds[k] ∧ ¬ ds[k] ∣ s[k]) →
        rebinCheck s ds = .error "ValueError" := by
      intro s
      induction s with
      | nil => intro ds _ _ ⟨k, h0, _⟩; simp at h0
      | cons a s ih =>
        intro ds hs hds ⟨k, h0, h1, hb⟩
        cases ds with
        | nil => simp at h1
        | cons b ds =>
          have ha : 0 < a := hs a List.mem_cons_self
          have hb0 : 0 < b := hds b List.mem_cons_self
          have recur : (∃ k, ∃ (h0 : k < s.length) (h1 : k < ds.length), ¬ s[k] ∣ ds[k] ∧ ¬ ds[k] ∣ s[k]) →
              rebinCheck s ds = .error "ValueError" :=
            ih ds (fun c hc => hs c (List.mem_cons_of_mem _ hc)) (fun c hc => hds c (List.mem_cons_of_mem _ hc))
          have tail : (a ∣ b ∨ b ∣ a) → rebinCheck s ds = .error "ValueError" := by
            intro hdv
            apply recur
            cases k with
            | zero => simp at hb; rcases hdv with h | h <;> simp_all
            | succ k => exact ⟨k, by simpa using h0, by simpa using h1, by simpa using hb⟩
          simp only [rebinCheck]
          by_cases hgt : b > a
          · rw [if_pos hgt, if_neg (by omega)]
            by_cases hm : b % a = 0
            · rw [if_neg (by simp [hm])]
              exact tail (Or.inl (Nat.dvd_of_mod_eq_zero hm))
            · rw [if_pos (by simp [hm])]; rfl
          · rw [if_neg hgt]
            by_cases heq : b = a
            · rw [if_pos heq]; exact tail (Or.inl (by rw [heq]))
            · rw [if_neg heq, if_neg (by omega)]
              by_cases hm : a % b = 0
              · rw [if_neg (by simp [hm])]
                exact tail (Or.inr (Nat.dvd_of_mod_eq_zero hm))
              · rw [if_pos (by simp [hm])]; rfl
    simp only [rebin, bind, Except.bind, key _ _ hp0 hp1 hbad]
    rw [if_neg (by simp [hl])]

/-- the N-D loop treats one axis after the other with the lane rule of that axis -/
theorem rebin_axes_step (sample : Bool) (done s ds : List Nat) (d0 d : Nat) (data : Array α) :
    rebinAxes sample done (d0 :: s) (d :: ds) data =
      rebinAxes sample (done ++ [d]) s ds
        (mapAxis (laneRebin sample (prod s == 1) d0 d) (prod done) d0 d (prod s) data) := rfl

/-- every lane rule returns `d` elements -/
theorem laneRebin_length (sample b : Bool) (d0 d : Nat) (x : List α) (hx : x.length = d0) :
    (laneRebin sample b d0 d x).length = d := by
  unfold laneRebin
  split
  · simp [laneExpand]
  · split
    · rename_i h; rw [hx, h]
    · simp [laneShrink]

/-- one axis step of the N-D loop: element (o, i, t) of the new array is element i of the lane
    rule applied to lane (o, ·, t) of the old one -/
theorem rebin_axis_elem (f : List α → List α) (outer d0 d inner : Nat) (data : Array α) (q : Nat)
    (hq : q < outer * d * inner) (hf : ∀ l, l.length = d0 → (f l).length = d) :
    (mapAxis f outer d0 d inner data)[q]! =
      (f ((List.range d0).map fun j =>
        data[((q / inner / d) * d0 + j) * inner + q % inner]!)).getD (q / inner % d) default := by
  have hin : 0 < inner := by
    rcases Nat.eq_zero_or_pos inner with h | h
    · subst h; simp at hq
    · exact h
  have hdpos : 0 < d := by
    rcases Nat.eq_zero_or_pos d with h | h
    · subst h; simp at hq
    · exact h
  have ho : q / inner / d < outer := by
    rw [Nat.div_lt_iff_lt_mul hdpos, Nat.div_lt_iff_lt_mul hin]; exact hq
  have ht : q % inner < inner := Nat.mod_lt _ hin
  have hlane : q / inner / d * inner + q % inner < outer * inner := by
    calc q / inner / d * inner + q % inner < q / inner / d * inner + inner := by omega
      _ = (q / inner / d + 1) * inner := by ring
      _ ≤ outer * inner := Nat.mul_le_mul_right _ ho
  have e1 : (q / inner / d * inner + q % inner) / inner = q / inner / d := by
    rw [Nat.add_comm, Nat.add_mul_div_right _ _ hin, Nat.div_eq_of_lt ht]; simp
  have e2 : (q / inner / d * inner + q % inner) % inner = q % inner := by
    rw [Nat.add_comm, Nat.add_mul_mod_self_right, Nat.mod_mod]
  have hlen := hf ((List.range d0).map fun j => data[((q / inner / d) * d0 + j) * inner + q % inner]!) (by simp)
  have hi : q / inner % d < d := Nat.mod_lt _ hdpos
  simp only [mapAxis]
  rw [ofFn_getElem! _ _ q hq]
  simp only []
  rw [ofFn_getElem! _ _ _ hlane]
  simp only [e1, e2]
  simp [List.getD_eq_getElem?_getD, hlen, hi]

end nd

/-! ## non-vacuity: concrete inputs meet the hypotheses, and the model computes on them -/

example : (3 : Int) ≤ oddWidth 4 ∧ (oddWidth 4).toNat / 2 ≤ 2 ∧ 2 + (oddWidth 4).toNat / 2 < 7 := by decide
example : oddWidth 2 = 3 ∧ oddWidth 1 < 3 ∧ oddWidth 0 < 3 := by decide
#guard smooth ([0, 3, 6, 3, 0] : List Rat) 3 false = [0, 3, 4, 3, 0]
#guard smooth ([0, 3, 6, 3, 0] : List Rat) 2 true = [1, 3, 4, 3, 1]
example : medianPlain ([4, 1, 3, 2] : List Rat) false = .ok 3 := by decide
#guard medianPlain ([4, 1, 3, 2] : List Rat) true = .ok (5 / 2)
example : medianRun1 medfilt1 ([5, 1, 9, 2, 8] : List Rat) 3 = .ok [5, 5, 2, 8, 8] := by decide
example : ([1, 1, 2] : List Int).Pairwise (· ≤ ·) ∧ ¬ Constant ([1, 1, 2] : List Int) := by
  refine ⟨by decide, fun h => ?_⟩
  have := h 1 (by simp) 2 (by simp)
  omega
example : uniq ([1, 1, 2, 5, 5, 5] : List Int) = [1, 2, 5] := by decide
example : uniq ([7, 7, 7] : List Int) = [2] := by decide
example : uniqIndex ([2, 1, 2, 1] : List Int) [1, 3, 0, 2] = .ok [3, 2] := by decide
example : uniqIndex ([4, 4, 4] : List Int) [2, 0, 1] = .ok [2] := by decide
example : Compatible [2, 6] [4, 3] := by simp [Compatible]
#guard laneRebin false true 5 10 ([0, 1, 2, 3, 4] : List Rat)
    = [0, 1 / 2, 1, 3 / 2, 2, 5 / 2, 3, 7 / 2, 4, 4]
#guard laneRebin false true 10 5 ([0, 1, 2, 3, 4, 5, 6, 7, 8, 9] : List Rat)
    = [1 / 2, 5 / 2, 9 / 2, 13 / 2, 17 / 2]
#guard (rebin (α := Rat) ⟨[2, 2], #[1, 2, 2, 3]⟩ [4, 2] false).map (·.data)
    = .ok #[1, 2, 3 / 2, 5 / 2, 2, 3, 2, 3]
-- the case of defect D11: index 49 of 2 -> 98 picks x[1]; the pre-fix float rule agrees in exact arithmetic
#guard (laneRebin true true 2 98 ([10, 20] : List Rat)).getD 49 0 = 20
#guard (laneExpandSampleFloat 2 98 ([10, 20] : List Rat)).getD 49 0 = 20
#guard (laneExpandSampleFloat 2 98 ([10, 20] : List Float)).getD 49 0 == 10
example : (rebin (α := Rat) ⟨[6], #[1, 2, 3, 4, 5, 6]⟩ [4] false).map (·.data) = .error "ValueError" := by
  decide

end PydlVerif.C14

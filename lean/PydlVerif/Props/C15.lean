/-
C15 property theorems: the least-squares / factorisation solvers return the
optimum they claim.  Model: PydlVerif/Model/Solvers.lean; bridging lemmas:
PydlVerif/Lemmas/SolversLemmas.lean; weighted least squares: Lemmas/Lsq.lean.
All theorems are over an arbitrary linearly ordered field `K` (the `Scalar`
interpretation `fieldScalar K`); LAPACK / libm kernels are parameters whose
contracts appear as hypotheses.  Helper lemmas first, property theorems
(listed in harness/props/c15.py) are marked "PROPERTY".
-/
import PydlVerif.Lemmas.SolversLemmas
import Mathlib.Data.Rat.Floor
import Mathlib.Tactic.NormNum
import Mathlib.Tactic.FinCases
open Finset
namespace PydlVerif.C15
open PydlVerif PydlVerif.Solvers PydlVerif.Lsq
section
variable {K : Type} [Field K] [LinearOrder K] [IsStrictOrderedRing K] [FloorRing K]
attribute [local instance] fieldScalar
-- numerals in the statements below are the field's own (the model's numerals keep `Scalar.instOfNat`)
attribute [-instance] Scalar.instOfNat Scalar.instOfScientific

/-! ## helpers -/

/-- `A · B = 1` on `m × m` arrays -/
def MulEqOne (m : ℕ) (A B : Mat K) : Prop :=
  ∀ k l : Fin m, ∑ j : Fin m, mget A k j * mget B j l = if k = l then 1 else 0

/-- `x` solves `G x = F` (contract of `numpy.linalg.solve` on this system) -/
def Solves (m : ℕ) (G : Mat K) (F x : Vec K) : Prop :=
  ∀ k : Fin m, ∑ l : Fin m, mget G k l * vget x l = vget F k

/-- a solution of `G c = F` with `G = AᵀWA`, `F = AᵀWy` satisfies the normal equations -/
theorem normal_of_solves {n m : ℕ} (Af : Fin n → Fin m → K) (w y : Fin n → K)
    (G : Fin m → Fin m → K) (F c : Fin m → K)
    (hG : ∀ k l, G k l = ∑ i, w i * Af i k * Af i l) (hF : ∀ k, F k = ∑ i, w i * Af i k * y i)
    (hs : ∀ k, ∑ l, G k l * c l = F k) : Normal Af w y c := by
  intro k
  have e : ∀ i, w i * Af i k * (y i - ∑ j, Af i j * c j)
      = w i * Af i k * y i - ∑ j, (w i * Af i k * Af i j) * c j := by
    intro i
    rw [mul_sub, Finset.mul_sum]
    congr 1
    apply Finset.sum_congr rfl; intros; ring
  simp_rw [e]
  rw [Finset.sum_sub_distrib, Finset.sum_comm]
  simp_rw [← Finset.sum_mul, ← hG, ← hF]
  rw [hs k]; ring

theorem sum_delta {m : ℕ} (k : Fin m) (f : Fin m → K) : ∑ l, (if k = l then (1 : K) else 0) * f l = f k := by
  simp

theorem solves_of_inverse {m : ℕ} (G Gi : Fin m → Fin m → K) (F c : Fin m → K)
    (hc : ∀ k, c k = ∑ l, Gi k l * F l)
    (hinv : ∀ k l, ∑ j, G k j * Gi j l = if k = l then 1 else 0) (k : Fin m) :
    ∑ l, G k l * c l = F k := by
  simp_rw [hc, Finset.mul_sum]
  rw [Finset.sum_comm]
  simp_rw [← mul_assoc, ← Finset.sum_mul, hinv k]
  exact sum_delta k F

/-! ## computechi2 -/

theorem chi2_mm (svd : Mat K → Svd K) (n m : ℕ) (b sq : ℕ → K) (A : ℕ → ℕ → K) (k l : Fin m) :
    mget (computechi2 svd n m b sq A).mm k l = ∑ i : Fin n, (A i k * sq i) * (A i l * sq i) := by
  simp only [computechi2, sumN_fin, mget_mtab_fin, vget_vtab_fin]

theorem chi2_acoeff (svd : Mat K → Svd K) (n m : ℕ) (b sq : ℕ → K) (A : ℕ → ℕ → K) (k : Fin m) :
    vget (computechi2 svd n m b sq A).acoeff k =
      ∑ c : Fin m, mget (computechi2 svd n m b sq A).mmi k c * ∑ i : Fin n, (A i c * sq i) * (b i * sq i) := by
  simp only [computechi2, sumN_fin, mget_mtab_fin, vget_vtab_fin]

theorem chi2_chi2 (svd : Mat K → Svd K) (n m : ℕ) (b sq : ℕ → K) (A : ℕ → ℕ → K) :
    (computechi2 svd n m b sq A).chi2 =
      ∑ i : Fin n, ((∑ k : Fin m, (A i k * sq i) * vget (computechi2 svd n m b sq A).acoeff k) - b i * sq i) *
        ((∑ k : Fin m, (A i k * sq i) * vget (computechi2 svd n m b sq A).acoeff k) - b i * sq i) := by
  simp only [computechi2, sumN_fin, mget_mtab_fin, vget_vtab_fin]

theorem chi2_yfit (svd : Mat K → Svd K) (n m : ℕ) (b sq : ℕ → K) (A : ℕ → ℕ → K) (i : Fin n) :
    vget (computechi2 svd n m b sq A).yfit i = ∑ k : Fin m, A i k * vget (computechi2 svd n m b sq A).acoeff k := by
  simp only [computechi2, sumN_fin, mget_mtab_fin, vget_vtab_fin]

/-- PROPERTY. computechi2: if the pseudo-inverse computed from the SVD is the inverse of the weighted
normal matrix (`mm · mmi = 1`, the full-rank contract), then the returned coefficients satisfy the
normal equations `Aᵀ W (b - A x) = 0` with `W = sqivar²`, hence minimise the weighted chi-square over
ALL coefficient vectors; `chi2` is that minimum and `yfit = A x`. -/
theorem chi2_optimum (svd : Mat K → Svd K) (n m : ℕ) (b sq : ℕ → K) (A : ℕ → ℕ → K)
    (hinv : MulEqOne m (computechi2 svd n m b sq A).mm (computechi2 svd n m b sq A).mmi) :
    Normal (fun (i : Fin n) (k : Fin m) => A i k) (fun i => sq i * sq i) (fun i => b i)
        (fun k => vget (computechi2 svd n m b sq A).acoeff k) ∧
    (∀ z : Fin m → K,
      Q (fun (i : Fin n) (k : Fin m) => A i k) (fun i => sq i * sq i) (fun i => b i)
        (fun k => vget (computechi2 svd n m b sq A).acoeff k)
      ≤ Q (fun (i : Fin n) (k : Fin m) => A i k) (fun i => sq i * sq i) (fun i => b i) z) ∧
    (computechi2 svd n m b sq A).chi2 =
      Q (fun (i : Fin n) (k : Fin m) => A i k) (fun i => sq i * sq i) (fun i => b i)
        (fun k => vget (computechi2 svd n m b sq A).acoeff k) ∧
    ∀ i : Fin n, vget (computechi2 svd n m b sq A).yfit i
      = ∑ k : Fin m, A i k * vget (computechi2 svd n m b sq A).acoeff k := by
  have hN : Normal (fun (i : Fin n) (k : Fin m) => A i k) (fun i => sq i * sq i) (fun i => b i)
      (fun k => vget (computechi2 svd n m b sq A).acoeff k) := by
    apply normal_of_solves _ _ _ (fun k l => mget (computechi2 svd n m b sq A).mm k l)
      (fun k => ∑ i : Fin n, (A i k * sq i) * (b i * sq i))
    · intro k l; rw [chi2_mm]; apply Finset.sum_congr rfl; intros; ring
    · intro k; apply Finset.sum_congr rfl; intros; ring
    · exact solves_of_inverse _ (fun k l => mget (computechi2 svd n m b sq A).mmi k l) _ _
        (fun k => chi2_acoeff svd n m b sq A k) hinv
  refine ⟨hN, fun z => lsq_optimum _ _ _ _ z (fun i => mul_self_nonneg _) hN, ?_, chi2_yfit svd n m b sq A⟩
  rw [chi2_chi2]
  unfold Q
  apply Finset.sum_congr rfl
  intro i _
  have : ∑ k : Fin m, (A i k * sq i) * vget (computechi2 svd n m b sq A).acoeff k
      = sq i * ∑ k : Fin m, A i k * vget (computechi2 svd n m b sq A).acoeff k := by
    rw [Finset.mul_sum]; apply Finset.sum_congr rfl; intros; ring
  rw [this]; ring

/-- the contract on `svd` used for the covariance: for the symmetric positive definite normal matrix
the decomposition is the spectral one, `mm = vvᵀ · diag ww · vv` with orthogonal `vv` and `ww > 0` -/
structure SpectralSvd (m : ℕ) (mm : Mat K) (s : Svd K) : Prop where
  pos : ∀ t : Fin m, 0 < vget s.ww t
  rows : ∀ t u : Fin m, ∑ j : Fin m, mget s.vv t j * mget s.vv u j = if t = u then 1 else 0
  cols : ∀ i l : Fin m, ∑ t : Fin m, mget s.vv t i * mget s.vv t l = if i = l then 1 else 0
  fact : ∀ j l : Fin m, mget mm j l = ∑ d : Fin m, mget s.vv d j * vget s.ww d * mget s.vv d l

theorem covar_entry (m : ℕ) (s : Svd K) (hpos : ∀ t : Fin m, 0 < vget s.ww t) (i j : Fin m) :
    mget (covarOfSvd m s) i j = ∑ c : Fin m, (1 / vget s.ww c) * mget s.vv c i * mget s.vv c j := by
  simp only [covarOfSvd, sumN_fin, mget_mtab_fin, vget_vtab_fin, scalar_lit, Nat.cast_zero, Nat.cast_one]
  apply Finset.sum_congr rfl
  intro c _
  rw [if_pos (hpos c)]
  by_cases h : (j : ℕ) ≤ i
  · simp only [h, if_true]
  · simp only [h, if_false]; ring

theorem chi2_covar (svd : Mat K → Svd K) (n m : ℕ) (b sq : ℕ → K) (A : ℕ → ℕ → K) :
    (computechi2 svd n m b sq A).covar = covarOfSvd m (svd (computechi2 svd n m b sq A).mm) := by
  simp only [computechi2]

theorem spectral_inverse {m : ℕ} (v : Fin m → Fin m → K) (w : Fin m → K) (hpos : ∀ t, 0 < w t)
    (rows : ∀ t u : Fin m, ∑ j : Fin m, v t j * v u j = if t = u then 1 else 0)
    (cols : ∀ i l : Fin m, ∑ t : Fin m, v t i * v t l = if i = l then 1 else 0) (i l : Fin m) :
    ∑ j, (∑ c, (1 / w c) * v c i * v c j) * (∑ d, v d j * w d * v d l) = if i = l then 1 else 0 := by
  have step : ∀ j : Fin m, (∑ c, (1 / w c) * v c i * v c j) * (∑ d, v d j * w d * v d l)
      = ∑ c, ∑ d, ((1 / w c) * w d * v c i * v d l) * (v c j * v d j) := by
    intro j
    rw [Finset.sum_mul_sum]
    apply Finset.sum_congr rfl; intro c _
    apply Finset.sum_congr rfl; intro d _
    ring
  simp_rw [step]
  rw [Finset.sum_comm]
  have inner : ∀ c : Fin m, ∑ j, ∑ d, ((1 / w c) * w d * v c i * v d l) * (v c j * v d j) = v c i * v c l := by
    intro c
    rw [Finset.sum_comm]
    have e : ∀ d, ∑ j, ((1 / w c) * w d * v c i * v d l) * (v c j * v d j)
        = ((1 / w c) * w d * v c i * v d l) * (if c = d then 1 else 0) := by
      intro d; rw [← Finset.mul_sum, rows c d]
    simp_rw [e]
    rw [Finset.sum_eq_single c]
    · rw [if_pos rfl]
      have hne : w c ≠ 0 := ne_of_gt (hpos c)
      field_simp
    · intro d _ hd; rw [if_neg (Ne.symm hd)]; ring
    · intro h; exact absurd (Finset.mem_univ c) h
  simp_rw [inner]
  exact cols i l

/-- PROPERTY. computechi2: under the spectral SVD contract `covar · (AᵀWA) = 1`, i.e. the covariance is
the inverse of the weighted normal matrix. -/
theorem covar_is_inverse (svd : Mat K → Svd K) (n m : ℕ) (b sq : ℕ → K) (A : ℕ → ℕ → K)
    (h : SpectralSvd m (computechi2 svd n m b sq A).mm (svd (computechi2 svd n m b sq A).mm)) :
    MulEqOne m (computechi2 svd n m b sq A).covar (computechi2 svd n m b sq A).mm := by
  intro i l
  rw [chi2_covar]
  simp_rw [covar_entry m _ h.pos, h.fact]
  exact spectral_inverse (fun a b => mget (svd (computechi2 svd n m b sq A).mm).vv a b)
    (fun t => vget (svd (computechi2 svd n m b sq A).mm).ww t) h.pos h.rows h.cols i l

/-- PROPERTY. computechi2: `var` is the diagonal of `covar`. -/
theorem var_diag (svd : Mat K → Svd K) (n m : ℕ) (b sq : ℕ → K) (A : ℕ → ℕ → K) (i : Fin m) :
    vget (computechi2 svd n m b sq A).var i = mget (computechi2 svd n m b sq A).covar i i := by
  simp only [computechi2, vget_vtab_fin]

theorem countN_eq (n : ℕ) (p : ℕ → Bool) : countN n p = ((range n).filter (fun i => p i = true)).card := by
  unfold countN
  induction n with
  | zero => simp
  | succ n ih =>
    rw [List.range_succ, List.filter_append, List.length_append, ih, Finset.range_add_one, Finset.filter_insert]
    by_cases h : p n = true
    · simp [h]
    · simp [h]

/-- PROPERTY. computechi2: `dof` = number of points with `sqivar > 0` minus the number of parameters. -/
theorem dof_count (svd : Mat K → Svd K) (n m : ℕ) (b sq : ℕ → K) (A : ℕ → ℕ → K) :
    (computechi2 svd n m b sq A).dof = (((range n).filter (fun i => 0 < sq i)).card : ℤ) - (m : ℤ) := by
  simp only [computechi2, countN_eq, decide_eq_true_eq, scalar_lit, Nat.cast_zero]

/-! ## HMF -/

theorem normal_residual {n m : ℕ} (Af : Fin n → Fin m → K) (w y : Fin n → K) (c : Fin m → K) (k : Fin m) :
    ∑ i, w i * Af i k * (y i - ∑ j, Af i j * c j)
      = (∑ i, w i * Af i k * y i) - ∑ l, (∑ i, w i * Af i k * Af i l) * c l := by
  have e : ∀ i, w i * Af i k * (y i - ∑ j, Af i j * c j)
      = w i * Af i k * y i - ∑ j, (w i * Af i k * Af i j) * c j := by
    intro i
    rw [mul_sub, Finset.mul_sum]
    congr 1
    apply Finset.sum_congr rfl; intros; ring
  simp_rw [e]
  rw [Finset.sum_sub_distrib, Finset.sum_comm]
  simp_rw [← Finset.sum_mul]

theorem sumN_nonneg (n : ℕ) (f : ℕ → K) (h : ∀ i, 0 ≤ f i) : 0 ≤ sumN n f := by
  rw [sumN_range]; exact Finset.sum_nonneg (fun i _ => h i)

/-- badness as a sum over spectra of weighted least-squares objectives in the coefficients -/
theorem badness_rows (sqrt : K → K) (N M Kc : ℕ) (s w a g : ℕ → ℕ → K) (eps : Option K)
    (hsq : ∀ i j, sqrt (w i j) * sqrt (w i j) = w i j) :
    badness sqrt N M Kc s w a g eps =
      (∑ i : Fin N, Q (fun (j : Fin M) (k : Fin Kc) => g k j) (fun j => w i j) (fun j => s i j) (fun k => a i k))
        + penalty Kc M g eps := by
  simp only [badness, hmfModel, sumN_fin]
  congr 1
  apply Finset.sum_congr rfl; intro i _
  unfold Q
  apply Finset.sum_congr rfl; intro j _
  have e : ∑ k : Fin Kc, a i k * g k j = ∑ k : Fin Kc, g k j * a i k :=
    Finset.sum_congr rfl (fun _ _ => mul_comm _ _)
  rw [e]
  linear_combination (s i j - ∑ k : Fin Kc, g k j * a i k) ^ 2 * hsq i j

/-- badness as a sum over pixels of weighted least-squares objectives in the components -/
theorem badness_cols (sqrt : K → K) (N M Kc : ℕ) (s w a g : ℕ → ℕ → K) (eps : Option K)
    (hsq : ∀ i j, sqrt (w i j) * sqrt (w i j) = w i j) :
    badness sqrt N M Kc s w a g eps =
      (∑ j : Fin M, Q (fun (i : Fin N) (k : Fin Kc) => a i k) (fun i => w i j) (fun i => s i j) (fun k => g k j))
        + penalty Kc M g eps := by
  simp only [badness, hmfModel, sumN_fin]
  congr 1
  rw [Finset.sum_comm]
  apply Finset.sum_congr rfl; intro j _
  unfold Q
  apply Finset.sum_congr rfl; intro i _
  linear_combination (s i j - ∑ k : Fin Kc, a i k * g k j) ^ 2 * hsq i j

theorem astep_entry (solve : Mat K → Vec K → Vec K) (N M Kc : ℕ) (s w g : ℕ → ℕ → K) (i : Fin N) (k : ℕ) :
    mget (astep solve N M Kc s w g) i k = vget (solve (astepMat M Kc w g i) (astepRhs M Kc s w g i)) k := by
  simp [mget, astep, vget]

theorem astepMat_entry (M Kc : ℕ) (w g : ℕ → ℕ → K) (i : ℕ) (k l : Fin Kc) :
    mget (astepMat M Kc w g i) k l = ∑ j : Fin M, w i j * g k j * g l j := by
  simp only [astepMat, mget_mtab_fin, sumN_fin]
  by_cases h : (k : ℕ) ≤ l
  · simp only [h, if_true]; apply Finset.sum_congr rfl; intros; ring
  · simp only [h, if_false]; apply Finset.sum_congr rfl; intros; ring

theorem astepRhs_entry (M Kc : ℕ) (s w g : ℕ → ℕ → K) (i : ℕ) (k : Fin Kc) :
    vget (astepRhs M Kc s w g i) k = ∑ j : Fin M, w i j * g k j * s i j := by
  simp only [astepRhs, vget_vtab_fin, sumN_fin]
  apply Finset.sum_congr rfl; intros; ring

/-- PROPERTY. HMF.astep: when every per-spectrum linear solve returns a solution of its system
(`numpy.linalg.solve` contract), every row of the new coefficient matrix satisfies the normal equations
of the weighted least-squares problem "spectrum i ≈ Σ_k a_ik g_k with weights invvar_i" (the gradient of
chi-square in `a` vanishes), is the global minimiser of that problem, and therefore
`badness(astep, g) ≤ badness(a, g)` for EVERY coefficient matrix `a`, in particular the previous one. -/
theorem astep_optimum (sqrt : K → K) (solve : Mat K → Vec K → Vec K) (N M Kc : ℕ) (s w g : ℕ → ℕ → K)
    (eps : Option K) (hw : ∀ i j, 0 ≤ w i j) (hsq : ∀ i j, sqrt (w i j) * sqrt (w i j) = w i j)
    (hsolve : ∀ i : Fin N, Solves Kc (astepMat M Kc w g i) (astepRhs M Kc s w g i)
      (solve (astepMat M Kc w g i) (astepRhs M Kc s w g i))) :
    (∀ i : Fin N, Normal (fun (j : Fin M) (k : Fin Kc) => g k j) (fun j => w i j) (fun j => s i j)
        (fun k => mget (astep solve N M Kc s w g) i k)) ∧
    (∀ (i : Fin N) (z : Fin Kc → K),
      Q (fun (j : Fin M) (k : Fin Kc) => g k j) (fun j => w i j) (fun j => s i j)
          (fun k => mget (astep solve N M Kc s w g) i k)
        ≤ Q (fun (j : Fin M) (k : Fin Kc) => g k j) (fun j => w i j) (fun j => s i j) z) ∧
    ∀ a : ℕ → ℕ → K,
      badness sqrt N M Kc s w (mget (astep solve N M Kc s w g)) g eps ≤ badness sqrt N M Kc s w a g eps := by
  have hN : ∀ i : Fin N, Normal (fun (j : Fin M) (k : Fin Kc) => g k j) (fun j => w i j) (fun j => s i j)
      (fun k => mget (astep solve N M Kc s w g) i k) := by
    intro i
    apply normal_of_solves _ _ _ (fun k l => mget (astepMat M Kc w g i) k l)
      (fun k => vget (astepRhs M Kc s w g i) k)
    · intro k l; exact astepMat_entry M Kc w g i k l
    · intro k; exact astepRhs_entry M Kc s w g i k
    · intro k
      simp_rw [astep_entry]
      exact hsolve i k
  have hopt : ∀ (i : Fin N) (z : Fin Kc → K),
      Q (fun (j : Fin M) (k : Fin Kc) => g k j) (fun j => w i j) (fun j => s i j)
          (fun k => mget (astep solve N M Kc s w g) i k)
        ≤ Q (fun (j : Fin M) (k : Fin Kc) => g k j) (fun j => w i j) (fun j => s i j) z :=
    fun i z => lsq_optimum _ _ _ _ z (fun j => hw i j) (hN i)
  refine ⟨hN, hopt, fun a => ?_⟩
  rw [badness_rows sqrt N M Kc s w _ g eps hsq, badness_rows sqrt N M Kc s w a g eps hsq]
  have h := Finset.sum_le_sum (s := Finset.univ) (fun (i : Fin N) _ => hopt i (fun k => a i k))
  linarith

theorem gstep_entry (solve : Mat K → Vec K → Vec K) (N M Kc : ℕ) (s w a g : ℕ → ℕ → K) (eps : Option K)
    (k : Fin Kc) (j : Fin M) :
    mget (gstep solve N M Kc s w a g eps) k j
      = vget (solve (gstepMat N M Kc w a eps j) (gstepRhs N M Kc s w a g eps j)) k := by
  simp only [gstep, mget_mtab_fin]
  simp [gstepCols, mget, vget]

theorem gstepMat_entry (N M Kc : ℕ) (w a : ℕ → ℕ → K) (eps : Option K) (j : ℕ) (k l : Fin Kc) :
    mget (gstepMat N M Kc w a eps j) k l
      = (∑ i : Fin N, w i j * a i k * a i l) + (if k = l then epsDiag M eps j else 0) := by
  simp only [gstepMat, mget_mtab_fin, sumN_fin, scalar_lit, Nat.cast_zero, Fin.val_inj]
  congr 1
  by_cases h : (k : ℕ) ≤ l
  · simp only [h, if_true]; apply Finset.sum_congr rfl; intros; ring
  · simp only [h, if_false]; apply Finset.sum_congr rfl; intros; ring

theorem gstepRhs_entry (N M Kc : ℕ) (s w a g : ℕ → ℕ → K) (eps : Option K) (j : ℕ) (k : Fin Kc) :
    vget (gstepRhs N M Kc s w a g eps j) k = (∑ i : Fin N, w i j * a i k * s i j) + epsRhs M g eps k j := by
  simp only [gstepRhs, vget_vtab_fin, sumN_fin]
  congr 1
  apply Finset.sum_congr rfl; intros; ring

/-- the equation every column of `gstep` satisfies: the chi-square gradient in column j, evaluated at the
new column, balances the smoothness terms built from the diagonal `d` and the OLD neighbours `e` -/
theorem gstep_column_equation (solve : Mat K → Vec K → Vec K) (N M Kc : ℕ) (s w a g : ℕ → ℕ → K)
    (eps : Option K)
    (hsolve : ∀ j : Fin M, Solves Kc (gstepMat N M Kc w a eps j) (gstepRhs N M Kc s w a g eps j)
      (solve (gstepMat N M Kc w a eps j) (gstepRhs N M Kc s w a g eps j))) (j : Fin M) (k : Fin Kc) :
    ∑ i : Fin N, w i j * a i k * (s i j - ∑ l : Fin Kc, a i l * mget (gstep solve N M Kc s w a g eps) l j)
      + (epsRhs M g eps k j - epsDiag M eps j * mget (gstep solve N M Kc s w a g eps) k j) = 0 := by
  have h := hsolve j k
  simp_rw [gstepMat_entry, gstepRhs_entry, ← gstep_entry solve N M Kc s w a g eps _ j] at h
  rw [normal_residual (fun (i : Fin N) (k : Fin Kc) => a i k) (fun i => w i j) (fun i => s i j)
    (fun l => mget (gstep solve N M Kc s w a g eps) l j) k]
  simp_rw [add_mul, Finset.sum_add_distrib, ite_mul, zero_mul] at h
  rw [Finset.sum_ite_eq Finset.univ k] at h
  simp only [Finset.mem_univ, if_true] at h
  linear_combination -h

theorem epsOn_false_of (eps : Option K) (h : eps = none ∨ eps = some 0) : epsOn eps = false := by
  rcases h with h | h <;> subst h <;> simp [epsOn, scalar_lit]

theorem penalty_zero (Kc M : ℕ) (g : ℕ → ℕ → K) (eps : Option K) (h : eps = none ∨ eps = some 0) :
    penalty Kc M g eps = 0 := by
  rcases h with h | h <;> subst h <;> simp [penalty, scalar_lit]

/-- PROPERTY. HMF.gstep without smoothing (epsilon None or 0): when every per-pixel solve returns a solution
of its system, every column of the new component matrix satisfies the normal equations of "pixel j of all
spectra ≈ Σ_k a_ik g_kj with weights invvar_·j" (the gradient of chi-square in `g` vanishes), minimises it
globally, and `badness(a, gstep) ≤ badness(a, g')` for EVERY component matrix `g'`. -/
theorem gstep_optimum (sqrt : K → K) (solve : Mat K → Vec K → Vec K) (N M Kc : ℕ) (s w a g : ℕ → ℕ → K)
    (eps : Option K) (heps : eps = none ∨ eps = some 0)
    (hw : ∀ i j, 0 ≤ w i j) (hsq : ∀ i j, sqrt (w i j) * sqrt (w i j) = w i j)
    (hsolve : ∀ j : Fin M, Solves Kc (gstepMat N M Kc w a eps j) (gstepRhs N M Kc s w a g eps j)
      (solve (gstepMat N M Kc w a eps j) (gstepRhs N M Kc s w a g eps j))) :
    (∀ j : Fin M, Normal (fun (i : Fin N) (k : Fin Kc) => a i k) (fun i => w i j) (fun i => s i j)
        (fun k => mget (gstep solve N M Kc s w a g eps) k j)) ∧
    (∀ (j : Fin M) (z : Fin Kc → K),
      Q (fun (i : Fin N) (k : Fin Kc) => a i k) (fun i => w i j) (fun i => s i j)
          (fun k => mget (gstep solve N M Kc s w a g eps) k j)
        ≤ Q (fun (i : Fin N) (k : Fin Kc) => a i k) (fun i => w i j) (fun i => s i j) z) ∧
    ∀ g' : ℕ → ℕ → K,
      badness sqrt N M Kc s w a (mget (gstep solve N M Kc s w a g eps)) eps ≤ badness sqrt N M Kc s w a g' eps := by
  have hoff := epsOn_false_of eps heps
  have hN : ∀ j : Fin M, Normal (fun (i : Fin N) (k : Fin Kc) => a i k) (fun i => w i j) (fun i => s i j)
      (fun k => mget (gstep solve N M Kc s w a g eps) k j) := by
    intro j k
    have h := gstep_column_equation solve N M Kc s w a g eps hsolve j k
    simp only [epsRhs, epsDiag, hoff, scalar_lit, Nat.cast_zero] at h
    simpa using h
  have hopt : ∀ (j : Fin M) (z : Fin Kc → K),
      Q (fun (i : Fin N) (k : Fin Kc) => a i k) (fun i => w i j) (fun i => s i j)
          (fun k => mget (gstep solve N M Kc s w a g eps) k j)
        ≤ Q (fun (i : Fin N) (k : Fin Kc) => a i k) (fun i => w i j) (fun i => s i j) z :=
    fun j z => lsq_optimum _ _ _ _ z (fun i => hw i j) (hN j)
  refine ⟨hN, hopt, fun g' => ?_⟩
  rw [badness_cols sqrt N M Kc s w a _ eps hsq, badness_cols sqrt N M Kc s w a g' eps hsq,
    penalty_zero Kc M _ eps heps, penalty_zero Kc M g' eps heps]
  have h := Finset.sum_le_sum (s := Finset.univ) (fun (j : Fin M) _ => hopt j (fun k => g' k j))
  linarith

/-- PROPERTY (partial). HMF.gstep with smoothing (epsilon = e > 0) is a simultaneous (Jacobi-type) update:
every new column is stationary for  chi²_j(x) + e·Σ_k[(x_k - g_k,j-1)² + (x_k - g_k,j+1)²]  with the
neighbours frozen at their OLD values (one neighbour at both ends).  Written out: chi-square gradient term
+ e·(old neighbours) - d_j·x_k = 0 with d_j = 2e inside, e at the ends.
Full statement "badness does not increase for e > 0" is NOT proved (searched numerically by the harness). -/
theorem gstep_eps_stationary_partial (solve : Mat K → Vec K → Vec K) (N M Kc : ℕ) (s w a g : ℕ → ℕ → K)
    (e : K) (he : 0 < e)
    (hsolve : ∀ j : Fin M, Solves Kc (gstepMat N M Kc w a (some e) j) (gstepRhs N M Kc s w a g (some e) j)
      (solve (gstepMat N M Kc w a (some e) j) (gstepRhs N M Kc s w a g (some e) j)))
    (j : Fin M) (k : Fin Kc) :
    ∑ i : Fin N, w i j * a i k * (s i j - ∑ l : Fin Kc, a i l * mget (gstep solve N M Kc s w a g (some e)) l j)
      + ((if (j : ℕ) + 1 = M then e * g k (M - 2) else if (j : ℕ) = 0 then e * g k 1
            else e * (g k (j - 1) + g k (j + 1)))
          - (if 0 < (j : ℕ) ∧ (j : ℕ) + 1 < M then e * 2 else e) * mget (gstep solve N M Kc s w a g (some e)) k j) = 0 := by
  have h := gstep_column_equation solve N M Kc s w a g (some e) hsolve j k
  have hon : epsOn (some e) = true := by
    simp only [epsOn, scalar_lit, Nat.cast_zero, he, decide_true]
  simp only [epsRhs, epsDiag, hon, epsVal, if_true, scalar_lit] at h
  push_cast at h
  exact h

theorem normbase_entry (sqrt : K → K) (Kc M : ℕ) (g : ℕ → ℕ → K) (k : Fin Kc) :
    vget (normbase sqrt Kc M g) k = sqrt ((∑ j : Fin M, g k j * g k j) / (M : K)) := by
  simp only [normbase, vget_vtab_fin, sumN_fin, scalar_ofNat]

/-- PROPERTY. Normalisation at the end of every HMF iteration (`g /= normbase`, `a *= normbase`): every
component then has mean square 1 (unit rms), given `sqrt x · sqrt x = x` on the mean squares and no
all-zero component. -/
theorem normbase_unit_rms (sqrt : K → K) (N M Kc : ℕ) (a g : ℕ → ℕ → K) (k : Fin Kc)
    (hs : sqrt ((∑ j : Fin M, g k j * g k j) / (M : K)) * sqrt ((∑ j : Fin M, g k j * g k j) / (M : K))
      = (∑ j : Fin M, g k j * g k j) / (M : K))
    (hne : ∑ j : Fin M, g k j * g k j ≠ 0) (hM : M ≠ 0) :
    (∑ j : Fin M, mget (renorm sqrt N M Kc a g).2 k j * mget (renorm sqrt N M Kc a g).2 k j) / (M : K) = 1 := by
  simp only [renorm, mget_mtab_fin, normbase_entry]
  have hM' : (M : K) ≠ 0 := Nat.cast_ne_zero.mpr hM
  have e : ∀ j : Fin M, g k j / sqrt ((∑ j : Fin M, g k j * g k j) / (M : K)) *
      (g k j / sqrt ((∑ j : Fin M, g k j * g k j) / (M : K)))
      = (g k j * g k j) / ((∑ j : Fin M, g k j * g k j) / (M : K)) := by
    intro j; rw [div_mul_div_comm, hs]
  simp_rw [e, div_eq_mul_inv]
  rw [← Finset.sum_mul]
  generalize ∑ j : Fin M, g k j * g k j = S at hne
  field_simp

theorem rot_invariant {m : ℕ} (U : Fin m → Fin m → K) (x y : Fin m → K)
    (hU : ∀ l l' : Fin m, ∑ k, U l k * U l' k = if l = l' then 1 else 0) :
    ∑ k, (∑ l, x l * U l k) * (∑ l', U l' k * y l') = ∑ l, x l * y l := by
  simp_rw [Finset.sum_mul_sum]
  rw [Finset.sum_comm]
  apply Finset.sum_congr rfl; intro l _
  rw [Finset.sum_comm]
  have e : ∀ l' : Fin m, ∑ k, x l * U l k * (U l' k * y l') = x l * y l' * (if l = l' then 1 else 0) := by
    intro l'; rw [← hU l l', Finset.mul_sum]; apply Finset.sum_congr rfl; intros; ring
  simp_rw [e]
  rw [Finset.sum_eq_single l]
  · rw [if_pos rfl]; ring
  · intro d _ hd; rw [if_neg (Ne.symm hd)]; ring
  · intro h; exact absurd (Finset.mem_univ l) h

/-- PROPERTY. HMF.reorder: rotating with an orthogonal matrix (`U Uᵀ = 1`, the `eigh` contract) leaves the
model `a · g` unchanged. -/
theorem reorder_preserves_model (eigh : Mat K → Eig K) (N M Kc : ℕ) (a g : ℕ → ℕ → K)
    (hU : ∀ l l' : Fin Kc, ∑ k : Fin Kc, mget (eigh (ataMat N Kc a)).evecs l k * mget (eigh (ataMat N Kc a)).evecs l' k
      = if l = l' then 1 else 0) (i : Fin N) (j : Fin M) :
    hmfModel Kc (mget (reorder eigh N M Kc a g).1) (mget (reorder eigh N M Kc a g).2) i j = hmfModel Kc a g i j := by
  simp only [reorder, hmfModel, sumN_fin, mget_mtab_fin]
  exact rot_invariant (fun l k => mget (eigh (ataMat N Kc a)).evecs l k) (fun l => a i l) (fun l => g l j) hU

theorem epsVal_nonneg (eps : Option K) (h : ∀ e, eps = some e → 0 ≤ e) : 0 ≤ epsVal eps := by
  cases eps with
  | none => simp [epsVal, scalar_lit]
  | some e => exact h e rfl

theorem epsRhs_nonneg (M : ℕ) (g : ℕ → ℕ → K) (eps : Option K) (hg : ∀ k j, 0 ≤ g k j)
    (h : ∀ e, eps = some e → 0 ≤ e) (k j : ℕ) : 0 ≤ epsRhs M g eps k j := by
  have he := epsVal_nonneg eps h
  unfold epsRhs
  split_ifs
  · exact mul_nonneg he (hg _ _)
  · exact mul_nonneg he (hg _ _)
  · exact mul_nonneg he (add_nonneg (hg _ _) (hg _ _))
  · simp [scalar_lit]

/-- PROPERTY. Non-negative mode: for non-negative spectra, weights, coefficients, components (and epsilon)
the multiplicative updates `astepnn` and `gstepnn` return non-negative factors. -/
theorem nn_steps_nonneg (N M Kc : ℕ) (s w a g : ℕ → ℕ → K) (eps : Option K)
    (hs : ∀ i j, 0 ≤ s i j) (hw : ∀ i j, 0 ≤ w i j) (ha : ∀ i k, 0 ≤ a i k) (hg : ∀ k j, 0 ≤ g k j)
    (he : ∀ e, eps = some e → 0 ≤ e) :
    (∀ (i : Fin N) (k : Fin Kc), 0 ≤ mget (astepnn N M Kc s w a g) i k) ∧
    (∀ (k : Fin Kc) (j : Fin M), 0 ≤ mget (gstepnn N M Kc s w a g eps) k j) := by
  have hm : ∀ i j, 0 ≤ hmfModel Kc a g i j := fun i j =>
    sumN_nonneg _ _ (fun k => mul_nonneg (ha i k) (hg k j))
  have hmw : ∀ i j, 0 ≤ hmfModel Kc a g i j * w i j := fun i j => mul_nonneg (hm i j) (hw i j)
  constructor
  · intro i k
    simp only [astepnn, mget_mtab_fin, sumN_fin]
    apply mul_nonneg (ha i k)
    apply div_nonneg
    · exact Finset.sum_nonneg (fun j _ => mul_nonneg (mul_nonneg (hs i j) (hw i j)) (hg k j))
    · exact Finset.sum_nonneg (fun j _ => mul_nonneg (hmw i j) (hg k j))
  · intro k j
    have hv := epsVal_nonneg eps he
    simp only [gstepnn, mget_mtab_fin, sumN_fin]
    apply mul_nonneg (hg k j)
    apply div_nonneg
    · exact add_nonneg (Finset.sum_nonneg (fun i _ => mul_nonneg (ha i k) (mul_nonneg (hs i j) (hw i j))))
        (epsRhs_nonneg M g eps hg he k j)
    · have h0 : 0 ≤ ∑ i : Fin N, a i k * (hmfModel Kc a g i j * w i j) :=
        Finset.sum_nonneg (fun i _ => mul_nonneg (ha i k) (hmw i j))
      split_ifs
      · exact add_nonneg h0 (mul_nonneg (mul_nonneg hv (hg k j)) (by rw [scalar_lit]; exact Nat.cast_nonneg 2))
      · exact add_nonneg h0 (mul_nonneg hv (hg k j))
      · exact h0

/-! ## pca_solve -/

/-- PROPERTY. pca_solve: the coefficients of one spectrum are its inverse-variance weighted projection on
the current eigenspectra: they satisfy the normal equations with weights `ivar` and minimise the weighted
chi-square (same contracts as `chi2_optimum`, plus `sqrt x · sqrt x = x` on the inverse variances). -/
theorem pca_coeff_is_projection (sqrt : K → K) (svd : Mat K → Svd K) (npix nkeep : ℕ) (flux ivar : ℕ → K)
    (pres : ℕ → ℕ → K) (hsq : ∀ p, sqrt (ivar p) * sqrt (ivar p) = ivar p)
    (hinv : MulEqOne nkeep (pcaProject sqrt svd npix nkeep flux ivar pres).mm
      (pcaProject sqrt svd npix nkeep flux ivar pres).mmi) :
    Normal (fun (p : Fin npix) (k : Fin nkeep) => pres p k) (fun p => ivar p) (fun p => flux p)
        (fun k => vget (pcaProject sqrt svd npix nkeep flux ivar pres).acoeff k) ∧
    ∀ z : Fin nkeep → K,
      Q (fun (p : Fin npix) (k : Fin nkeep) => pres p k) (fun p => ivar p) (fun p => flux p)
          (fun k => vget (pcaProject sqrt svd npix nkeep flux ivar pres).acoeff k)
        ≤ Q (fun (p : Fin npix) (k : Fin nkeep) => pres p k) (fun p => ivar p) (fun p => flux p) z := by
  unfold pcaProject at hinv ⊢
  have h := chi2_optimum svd npix nkeep flux (fun p => sqrt (ivar p)) pres hinv
  simp only [hsq] at h
  exact ⟨h.1, h.2.1⟩

/-- PROPERTY. pca_solve: `usemask[p]` is the number of spectra whose inverse variance at pixel p is non-zero. -/
theorem usemask_counts (nobj npix : ℕ) (ivar : ℕ → ℕ → K) (p : Fin npix) :
    (usemask nobj npix ivar)[p.val]! = ((range nobj).filter (fun i => ivar i p ≠ 0)).card := by
  simp [usemask, countN_eq]

/-! ## pcomp -/

/-- contract of `scipy.linalg.eigh` on the symmetric matrix `C`: columns of `evecs` are orthonormal
eigenvectors (`V Vᵀ = VᵀV = 1`, `C V = V diag(evals)`) -/
structure EighOK (nv : ℕ) (C : Mat K) (e : Eig K) : Prop where
  rows : ∀ i l : Fin nv, ∑ j : Fin nv, mget e.evecs i j * mget e.evecs l j = if i = l then 1 else 0
  cols : ∀ j j' : Fin nv, ∑ i : Fin nv, mget e.evecs i j * mget e.evecs i j' = if j = j' then 1 else 0
  eig : ∀ i j : Fin nv, ∑ l : Fin nv, mget C i l * mget e.evecs l j = vget e.evals j * mget e.evecs i j

theorem spectral_reconstruct {m : ℕ} (C V : Fin m → Fin m → K) (lam : Fin m → K)
    (rows : ∀ i l : Fin m, ∑ j, V i j * V l j = if i = l then 1 else 0)
    (eig : ∀ i j : Fin m, ∑ l, C i l * V l j = lam j * V i j) (i l : Fin m) :
    ∑ j, V i j * V l j * lam j = C i l := by
  have e : ∀ j, V i j * V l j * lam j = ∑ t, C i t * (V t j * V l j) := by
    intro j
    have : V i j * V l j * lam j = (lam j * V i j) * V l j := by ring
    rw [this, ← eig i j, Finset.sum_mul]
    apply Finset.sum_congr rfl; intros; ring
  simp_rw [e]
  rw [Finset.sum_comm]
  simp_rw [← Finset.mul_sum, rows]
  rw [Finset.sum_eq_single l]
  · rw [if_pos rfl]; ring
  · intro d _ hd; rw [if_neg hd]; ring
  · intro h; exact absurd (Finset.mem_univ l) h

theorem spectral_trace {m : ℕ} (C V : Fin m → Fin m → K) (lam : Fin m → K)
    (rows : ∀ i l : Fin m, ∑ j, V i j * V l j = if i = l then 1 else 0)
    (cols : ∀ j j' : Fin m, ∑ i, V i j * V i j' = if j = j' then 1 else 0)
    (eig : ∀ i j : Fin m, ∑ l, C i l * V l j = lam j * V i j) :
    ∑ i, C i i = ∑ j, lam j := by
  simp_rw [← spectral_reconstruct C V lam rows eig]
  rw [Finset.sum_comm]
  apply Finset.sum_congr rfl; intro j _
  rw [← Finset.sum_mul, cols j j, if_pos rfl]; ring

/-- PROPERTY. pcomp, given the `eigh` contract on the matrix `c` that is decomposed (correlation or
covariance matrix of the - optionally standardised - data), `argsort` returning a sorting permutation
(`σ` = reversed argsort), `sqrt x · sqrt x = x` on the eigenvalues and a non-zero trace:
eigenvalues are non-increasing; `coefficients · coefficientsᵀ = c`; the variance fractions sum to one;
`derived = array · coefficients`. -/
theorem pcomp_reconstructs (sqrt : K → K) (eigh : Mat K → Eig K) (argsort : Vec K → Array ℕ) (no nv : ℕ)
    (x : ℕ → ℕ → K) (st cv : Bool) (σ : Equiv.Perm (Fin nv))
    (hE : EighOK nv (pcomp sqrt eigh argsort no nv x st cv).c (eigh (pcomp sqrt eigh argsort no nv x st cv).c))
    (hσ : ∀ j : Fin nv,
      (argsort (eigh (pcomp sqrt eigh argsort no nv x st cv).c).evals)[nv - 1 - (j : ℕ)]! = ((σ j : Fin nv) : ℕ))
    (hsort : ∀ j j' : Fin nv, j ≤ j' →
      vget (eigh (pcomp sqrt eigh argsort no nv x st cv).c).evals (σ j')
        ≤ vget (eigh (pcomp sqrt eigh argsort no nv x st cv).c).evals (σ j))
    (hsq : ∀ j : Fin nv, sqrt (vget (eigh (pcomp sqrt eigh argsort no nv x st cv).c).evals j) *
      sqrt (vget (eigh (pcomp sqrt eigh argsort no nv x st cv).c).evals j)
        = vget (eigh (pcomp sqrt eigh argsort no nv x st cv).c).evals j)
    (htr : ∑ i : Fin nv, mget (pcomp sqrt eigh argsort no nv x st cv).c i i ≠ 0) :
    (∀ j j' : Fin nv, j ≤ j' →
      vget (pcomp sqrt eigh argsort no nv x st cv).evals j' ≤ vget (pcomp sqrt eigh argsort no nv x st cv).evals j) ∧
    (∀ i l : Fin nv, ∑ j : Fin nv, mget (pcomp sqrt eigh argsort no nv x st cv).coefficients i j *
        mget (pcomp sqrt eigh argsort no nv x st cv).coefficients l j
      = mget (pcomp sqrt eigh argsort no nv x st cv).c i l) ∧
    (∑ j : Fin nv, vget (pcomp sqrt eigh argsort no nv x st cv).variance j = 1) ∧
    (∀ (i : Fin no) (j : Fin nv), mget (pcomp sqrt eigh argsort no nv x st cv).derived i j
      = ∑ k : Fin nv, mget (pcomp sqrt eigh argsort no nv x st cv).array i k *
          mget (pcomp sqrt eigh argsort no nv x st cv).coefficients k j) := by
  -- entries of the result in terms of eigh's output and σ
  have hev : ∀ j : Fin nv, vget (pcomp sqrt eigh argsort no nv x st cv).evals j
      = vget (eigh (pcomp sqrt eigh argsort no nv x st cv).c).evals (σ j) := by
    intro j
    have := hσ j
    simp only [pcomp] at this ⊢
    simp only [vget_vtab_fin, this]
  have hco : ∀ i j : Fin nv, mget (pcomp sqrt eigh argsort no nv x st cv).coefficients i j
      = mget (eigh (pcomp sqrt eigh argsort no nv x st cv).c).evecs i (σ j) *
          sqrt (vget (eigh (pcomp sqrt eigh argsort no nv x st cv).c).evals (σ j)) := by
    intro i j
    have := hσ j
    simp only [pcomp] at this ⊢
    simp only [mget_mtab_fin, vget_vtab_fin, this]
  have hvar : ∀ j : Fin nv, vget (pcomp sqrt eigh argsort no nv x st cv).variance j
      = vget (eigh (pcomp sqrt eigh argsort no nv x st cv).c).evals (σ j) /
          ∑ i : Fin nv, mget (pcomp sqrt eigh argsort no nv x st cv).c i i := by
    intro j
    have := hσ j
    simp only [pcomp] at this ⊢
    simp only [vget_vtab_fin, this]
    unfold traceM
    rw [sumN_fin]
  have hrec := spectral_reconstruct (fun i l => mget (pcomp sqrt eigh argsort no nv x st cv).c i l)
    (fun i j => mget (eigh (pcomp sqrt eigh argsort no nv x st cv).c).evecs i j)
    (fun j => vget (eigh (pcomp sqrt eigh argsort no nv x st cv).c).evals j) hE.rows hE.eig
  have htrace := spectral_trace (fun i l => mget (pcomp sqrt eigh argsort no nv x st cv).c i l)
    (fun i j => mget (eigh (pcomp sqrt eigh argsort no nv x st cv).c).evecs i j)
    (fun j => vget (eigh (pcomp sqrt eigh argsort no nv x st cv).c).evals j) hE.rows hE.cols hE.eig
  refine ⟨?_, ?_, ?_, ?_⟩
  · intro j j' h
    rw [hev, hev]; exact hsort j j' h
  · intro i l
    rw [← hrec i l]
    rw [← Equiv.sum_comp σ (fun j => mget (eigh (pcomp sqrt eigh argsort no nv x st cv).c).evecs i j *
      mget (eigh (pcomp sqrt eigh argsort no nv x st cv).c).evecs l j *
      vget (eigh (pcomp sqrt eigh argsort no nv x st cv).c).evals j)]
    apply Finset.sum_congr rfl; intro j _
    rw [hco, hco]
    linear_combination (mget (eigh (pcomp sqrt eigh argsort no nv x st cv).c).evecs i (σ j) *
      mget (eigh (pcomp sqrt eigh argsort no nv x st cv).c).evecs l (σ j)) * hsq (σ j)
  · simp_rw [hvar, div_eq_mul_inv]
    rw [← Finset.sum_mul, Equiv.sum_comp σ (fun j => vget (eigh (pcomp sqrt eigh argsort no nv x st cv).c).evals j),
      ← htrace]
    exact mul_inv_cancel₀ htr
  · intro i j
    simp only [pcomp, mget_mtab_fin, sumN_fin]

end

/-! ## Extension round -/
section Ext
variable {K : Type} [Field K] [LinearOrder K] [IsStrictOrderedRing K] [FloorRing K]
attribute [local instance] fieldScalar
attribute [-instance] Scalar.instOfNat Scalar.instOfScientific

/-! ### computechi2: the number `chi2` and the optimum -/

/-- PROPERTY. computechi2: the returned `chi2` IS the weighted chi-square `Q` evaluated at the returned
coefficients and `yfit = A · acoeff` (both unconditionally); under the full-rank contract `mm · mmi = 1`
it is therefore the minimum value: `chi2 ≤ Q z` for every coefficient vector `z`. -/
theorem chi2_is_min_value (svd : Mat K → Svd K) (n m : ℕ) (b sq : ℕ → K) (A : ℕ → ℕ → K) :
    (computechi2 svd n m b sq A).chi2 =
      Q (fun (i : Fin n) (k : Fin m) => A i k) (fun i => sq i * sq i) (fun i => b i)
        (fun k => vget (computechi2 svd n m b sq A).acoeff k) ∧
    (∀ i : Fin n, vget (computechi2 svd n m b sq A).yfit i
      = ∑ k : Fin m, A i k * vget (computechi2 svd n m b sq A).acoeff k) ∧
    (MulEqOne m (computechi2 svd n m b sq A).mm (computechi2 svd n m b sq A).mmi →
      ∀ z : Fin m → K, (computechi2 svd n m b sq A).chi2
        ≤ Q (fun (i : Fin n) (k : Fin m) => A i k) (fun i => sq i * sq i) (fun i => b i) z) := by
  have hchi : (computechi2 svd n m b sq A).chi2 =
      Q (fun (i : Fin n) (k : Fin m) => A i k) (fun i => sq i * sq i) (fun i => b i)
        (fun k => vget (computechi2 svd n m b sq A).acoeff k) := by
    rw [chi2_chi2]
    unfold Q
    apply Finset.sum_congr rfl
    intro i _
    have : ∑ k : Fin m, (A i k * sq i) * vget (computechi2 svd n m b sq A).acoeff k
        = sq i * ∑ k : Fin m, A i k * vget (computechi2 svd n m b sq A).acoeff k := by
      rw [Finset.mul_sum]; apply Finset.sum_congr rfl; intros; ring
    rw [this]; ring
  refine ⟨hchi, chi2_yfit svd n m b sq A, fun hinv z => ?_⟩
  rw [hchi]
  exact (chi2_optimum svd n m b sq A hinv).2.1 z

/-- PROPERTY. computechi2 with a one-dimensional `amatrix` (one template `a`): under the same contract the single
coefficient satisfies `Σ w a (b - a x) = 0`, minimises `Σ w (b - a x)²` over all `x`, `chi2` is that minimum,
`yfit = a · x` and `dof = #{sqivar > 0} - 1`. -/
theorem chi2_vec_optimum (svd : Mat K → Svd K) (n : ℕ) (b sq a : ℕ → K)
    (hinv : MulEqOne 1 (computechi2Vec svd n b sq a).mm (computechi2Vec svd n b sq a).mmi) :
    (∑ i : Fin n, sq i * sq i * a i * (b i - a i * vget (computechi2Vec svd n b sq a).acoeff 0) = 0) ∧
    (∀ x : K, (computechi2Vec svd n b sq a).chi2 ≤ ∑ i : Fin n, sq i * sq i * (b i - a i * x) ^ 2) ∧
    ((computechi2Vec svd n b sq a).chi2
      = ∑ i : Fin n, sq i * sq i * (b i - a i * vget (computechi2Vec svd n b sq a).acoeff 0) ^ 2) ∧
    (∀ i : Fin n, vget (computechi2Vec svd n b sq a).yfit i = a i * vget (computechi2Vec svd n b sq a).acoeff 0) ∧
    (computechi2Vec svd n b sq a).dof = (((range n).filter (fun i => 0 < sq i)).card : ℤ) - 1 := by
  unfold computechi2Vec at hinv ⊢
  obtain ⟨hN, hopt, hchi, hy⟩ := chi2_optimum svd n 1 b sq (fun i _ => a i) hinv
  refine ⟨?_, ?_, ?_, ?_, ?_⟩
  · have := hN 0
    simpa [Fin.sum_univ_one] using this
  · intro x
    rw [hchi]
    have := hopt (fun _ => x)
    simpa [Q, Fin.sum_univ_one] using this
  · rw [hchi]; simp [Q, Fin.sum_univ_one]
  · intro i; rw [hy i]; simp [Fin.sum_univ_one]
  · rw [dof_count]; simp

/-! ### HMF: one whole sweep of `iterate` -/

/-- `iterate` IS: start state, then `nIter` sweeps (`sweepSigned` in the default, `sweepNN` in non-negative mode) -/
theorem iterate_is_sweeps {α : Type} [Scalar α] (sqrt : α → α) (solve : Mat α → Vec α → Vec α) (eigh : Mat α → Eig α)
    (N M Kc nIter nnPre : ℕ) (s0 w g0 : ℕ → ℕ → α) (nonneg : Bool) (eps : Option α) :
    iterate sqrt solve eigh N M Kc nIter nnPre s0 w g0 nonneg eps
      = iterN nIter (if nonneg then sweepNN sqrt N M Kc (mget (iterateSpectra N M s0 nonneg)) w eps
                     else sweepSigned sqrt solve eigh N M Kc (mget (iterateSpectra N M s0 nonneg)) w eps)
          (iterateStart sqrt N M Kc nnPre s0 w g0 nonneg) := by
  cases nonneg <;> rfl

theorem badness_congr_model (sqrt : K → K) (N M Kc : ℕ) (s w a g a' g' : ℕ → ℕ → K) (eps : Option K)
    (heps : eps = none ∨ eps = some 0)
    (h : ∀ (i : Fin N) (j : Fin M), hmfModel Kc a' g' i j = hmfModel Kc a g i j) :
    badness sqrt N M Kc s w a' g' eps = badness sqrt N M Kc s w a g eps := by
  simp only [badness, penalty_zero Kc M _ eps heps, sumN_fin]
  congr 1
  apply Finset.sum_congr rfl; intro i _
  apply Finset.sum_congr rfl; intro j _
  rw [h i j]

/-- the normalisation `g /= normbase`, `a *= normbase` rescales the factors inversely: `a · g` is unchanged
(no component with zero rms) -/
theorem renorm_preserves_model (sqrt : K → K) (N M Kc : ℕ) (a g : ℕ → ℕ → K)
    (hnz : ∀ k : Fin Kc, vget (normbase sqrt Kc M g) k ≠ 0) (i : Fin N) (j : Fin M) :
    hmfModel Kc (mget (renorm sqrt N M Kc a g).1) (mget (renorm sqrt N M Kc a g).2) i j = hmfModel Kc a g i j := by
  simp only [renorm, hmfModel, sumN_fin, mget_mtab_fin]
  apply Finset.sum_congr rfl; intro k _
  have := hnz k
  field_simp

/-- the contracts one sweep needs at the state `(a, g)`: every linear solve of the a-step (systems built from `g`)
and of the g-step (systems built from the new `a`) returns a solution, `eigh` returns an orthogonal matrix,
no rotated component has zero rms -/
structure SweepOK (sqrt : K → K) (solve : Mat K → Vec K → Vec K) (eigh : Mat K → Eig K) (N M Kc : ℕ)
    (s w : ℕ → ℕ → K) (eps : Option K) (ag : Mat K × Mat K) : Prop where
  asolve : ∀ i : Fin N, Solves Kc (astepMat M Kc w (mget ag.2) i) (astepRhs M Kc s w (mget ag.2) i)
    (solve (astepMat M Kc w (mget ag.2) i) (astepRhs M Kc s w (mget ag.2) i))
  gsolve : ∀ j : Fin M, Solves Kc (gstepMat N M Kc w (mget (astep solve N M Kc s w (mget ag.2))) eps j)
    (gstepRhs N M Kc s w (mget (astep solve N M Kc s w (mget ag.2))) (mget ag.2) eps j)
    (solve (gstepMat N M Kc w (mget (astep solve N M Kc s w (mget ag.2))) eps j)
      (gstepRhs N M Kc s w (mget (astep solve N M Kc s w (mget ag.2))) (mget ag.2) eps j))
  orth : ∀ l l' : Fin Kc,
    ∑ k : Fin Kc, mget (eigh (ataMat N Kc (mget (astep solve N M Kc s w (mget ag.2))))).evecs l k *
      mget (eigh (ataMat N Kc (mget (astep solve N M Kc s w (mget ag.2))))).evecs l' k = if l = l' then 1 else 0
  rms : ∀ k : Fin Kc, vget (normbase sqrt Kc M (mget (reorder eigh N M Kc
      (mget (astep solve N M Kc s w (mget ag.2)))
      (mget (gstep solve N M Kc s w (mget (astep solve N M Kc s w (mget ag.2))) (mget ag.2) eps))).2)) k ≠ 0

/-- PROPERTY. HMF, "chi-square never increases", as ONE statement about a whole sweep of `iterate` in the default
mode with epsilon None or 0 (`astep; gstep; reorder; renormalise`): for EVERY state `(a, g)` at which the kernel
contracts hold, `badness(sweep(a, g)) ≤ badness(a, g)`.  The a-step and the g-step each reach the optimum in their
factor (`astep_optimum`, `gstep_optimum`); `reorder` and the unit-rms normalisation leave the model `a·g`, hence
badness, unchanged (`reorder_preserves_model`, `renorm_preserves_model`: `a` and `g` are rescaled inversely). -/
theorem sweep_badness_le (sqrt : K → K) (solve : Mat K → Vec K → Vec K) (eigh : Mat K → Eig K) (N M Kc : ℕ)
    (s w : ℕ → ℕ → K) (eps : Option K) (heps : eps = none ∨ eps = some 0)
    (hw : ∀ i j, 0 ≤ w i j) (hsq : ∀ i j, sqrt (w i j) * sqrt (w i j) = w i j)
    (ag : Mat K × Mat K) (ok : SweepOK sqrt solve eigh N M Kc s w eps ag) :
    badness sqrt N M Kc s w (mget (sweepSigned sqrt solve eigh N M Kc s w eps ag).1)
        (mget (sweepSigned sqrt solve eigh N M Kc s w eps ag).2) eps
      ≤ badness sqrt N M Kc s w (mget ag.1) (mget ag.2) eps := by
  have h1 := (astep_optimum sqrt solve N M Kc s w (mget ag.2) eps hw hsq ok.asolve).2.2 (mget ag.1)
  have h2 := (gstep_optimum sqrt solve N M Kc s w (mget (astep solve N M Kc s w (mget ag.2))) (mget ag.2) eps heps
    hw hsq ok.gsolve).2.2 (mget ag.2)
  have h3 : badness sqrt N M Kc s w (mget (sweepSigned sqrt solve eigh N M Kc s w eps ag).1)
        (mget (sweepSigned sqrt solve eigh N M Kc s w eps ag).2) eps
      = badness sqrt N M Kc s w (mget (astep solve N M Kc s w (mget ag.2)))
          (mget (gstep solve N M Kc s w (mget (astep solve N M Kc s w (mget ag.2))) (mget ag.2) eps)) eps := by
    apply badness_congr_model sqrt N M Kc s w _ _ _ _ eps heps
    intro i j
    simp only [sweepSigned]
    rw [renorm_preserves_model sqrt N M Kc _ _ ok.rms i j]
    exact reorder_preserves_model eigh N M Kc _ _ ok.orth i j
  linarith

theorem iterN_succ' {β : Type} (n : ℕ) (f : β → β) (x : β) : iterN (n + 1) f x = f (iterN n f x) := by
  induction n generalizing x with
  | zero => rfl
  | succ n ih => rw [iterN, ih (f x)]; rfl

/-- PROPERTY. HMF: along the whole loop of `iterate` (default mode, epsilon None/0) badness is non-increasing from
sweep to sweep, hence never above its value at the start, as long as the kernel contracts hold at the visited states. -/
theorem iterate_badness_antitone (sqrt : K → K) (solve : Mat K → Vec K → Vec K) (eigh : Mat K → Eig K) (N M Kc : ℕ)
    (s w : ℕ → ℕ → K) (eps : Option K) (heps : eps = none ∨ eps = some 0)
    (hw : ∀ i j, 0 ≤ w i j) (hsq : ∀ i j, sqrt (w i j) * sqrt (w i j) = w i j)
    (start : Mat K × Mat K) (nIter : ℕ)
    (ok : ∀ t < nIter, SweepOK sqrt solve eigh N M Kc s w eps
      (iterN t (sweepSigned sqrt solve eigh N M Kc s w eps) start)) :
    (∀ t < nIter,
      badness sqrt N M Kc s w (mget (iterN (t + 1) (sweepSigned sqrt solve eigh N M Kc s w eps) start).1)
          (mget (iterN (t + 1) (sweepSigned sqrt solve eigh N M Kc s w eps) start).2) eps
        ≤ badness sqrt N M Kc s w (mget (iterN t (sweepSigned sqrt solve eigh N M Kc s w eps) start).1)
          (mget (iterN t (sweepSigned sqrt solve eigh N M Kc s w eps) start).2) eps) ∧
    badness sqrt N M Kc s w (mget (iterN nIter (sweepSigned sqrt solve eigh N M Kc s w eps) start).1)
        (mget (iterN nIter (sweepSigned sqrt solve eigh N M Kc s w eps) start).2) eps
      ≤ badness sqrt N M Kc s w (mget start.1) (mget start.2) eps := by
  have step : ∀ t < nIter,
      badness sqrt N M Kc s w (mget (iterN (t + 1) (sweepSigned sqrt solve eigh N M Kc s w eps) start).1)
          (mget (iterN (t + 1) (sweepSigned sqrt solve eigh N M Kc s w eps) start).2) eps
        ≤ badness sqrt N M Kc s w (mget (iterN t (sweepSigned sqrt solve eigh N M Kc s w eps) start).1)
          (mget (iterN t (sweepSigned sqrt solve eigh N M Kc s w eps) start).2) eps := by
    intro t ht
    rw [iterN_succ']
    exact sweep_badness_le sqrt solve eigh N M Kc s w eps heps hw hsq _ (ok t ht)
  refine ⟨step, ?_⟩
  clear ok
  induction nIter with
  | zero => exact le_refl _
  | succ n ih =>
    exact le_trans (step n (Nat.lt_succ_self n)) (ih (fun t ht => step t (Nat.lt_succ_of_lt ht)))

/-! ### HMF: the gradient of badness vanishes after a step -/

/-- along a coordinate line the weighted chi-square is the quadratic `Q c + t·(∂Q/∂c_k) + t²·curvature`
with `∂Q/∂c_k = -2 Σ_i w_i A_ik (y_i - (A c)_i)` -/
theorem Q_line {n m : ℕ} (A : Fin n → Fin m → K) (w y : Fin n → K) (c : Fin m → K) (k : Fin m) (t : K) :
    Q A w y (fun j => if j = k then c j + t else c j)
      = Q A w y c + t * (-2 * ∑ i, w i * A i k * (y i - ∑ j, A i j * c j)) + t ^ 2 * ∑ i, w i * A i k ^ 2 := by
  rw [Q_expand A w y c]
  have h1 : ∀ i, ∑ j, A i j * (c j - (if j = k then c j + t else c j)) = -t * A i k := by
    intro i
    have e : ∀ j, A i j * (c j - (if j = k then c j + t else c j)) = if j = k then -t * A i j else 0 := by
      intro j; split_ifs <;> ring
    simp_rw [e]
    simp
  have h2 : ∑ k', (c k' - (if k' = k then c k' + t else c k')) * ∑ i, w i * A i k' * (y i - ∑ j, A i j * c j)
      = -t * ∑ i, w i * A i k * (y i - ∑ j, A i j * c j) := by
    have e : ∀ k', (c k' - (if k' = k then c k' + t else c k')) * ∑ i, w i * A i k' * (y i - ∑ j, A i j * c j)
        = if k' = k then -t * ∑ i, w i * A i k' * (y i - ∑ j, A i j * c j) else 0 := by
      intro k'; split_ifs <;> ring
    simp_rw [e]
    simp
  simp_rw [h1]
  rw [h2]
  have h3 : ∑ i, w i * (-t * A i k) ^ 2 = t ^ 2 * ∑ i, w i * A i k ^ 2 := by
    rw [Finset.mul_sum]; apply Finset.sum_congr rfl; intros; ring
  rw [h3]; ring

/-- the partial derivative of badness with respect to the coefficient `a[i,k]` -/
def gradA (M Kc : ℕ) (s w a g : ℕ → ℕ → K) (i k : ℕ) : K :=
  -2 * ∑ j : Fin M, w i j * g k j * (s i j - ∑ l : Fin Kc, g l j * a i l)

/-- the partial derivative of the chi-square part of badness with respect to the component value `g[k,j]` -/
def gradG (N Kc : ℕ) (s w a g : ℕ → ℕ → K) (k j : ℕ) : K :=
  -2 * ∑ i : Fin N, w i j * a i k * (s i j - ∑ l : Fin Kc, a i l * g l j)

/-- badness along the coordinate line `a[i,k] + t` is exactly `badness + t·gradA + t²·curvature`: `gradA` is the
partial derivative (any epsilon: the penalty does not depend on `a`) -/
theorem badness_line_a (sqrt : K → K) (N M Kc : ℕ) (s w a g : ℕ → ℕ → K) (eps : Option K)
    (hsq : ∀ i j, sqrt (w i j) * sqrt (w i j) = w i j) (i : Fin N) (k : Fin Kc) (t : K) :
    badness sqrt N M Kc s w (fun i' k' => if i' = (i : ℕ) ∧ k' = (k : ℕ) then a i' k' + t else a i' k') g eps
      = badness sqrt N M Kc s w a g eps + t * gradA M Kc s w a g i k + t ^ 2 * ∑ j : Fin M, w i j * g k j ^ 2 := by
  rw [badness_rows sqrt N M Kc s w _ g eps hsq, badness_rows sqrt N M Kc s w a g eps hsq]
  have hrow : ∀ i' : Fin N,
      Q (fun (j : Fin M) (k : Fin Kc) => g k j) (fun j => w i' j) (fun j => s i' j)
        (fun k' : Fin Kc => if (i' : ℕ) = (i : ℕ) ∧ (k' : ℕ) = (k : ℕ) then a i' k' + t else a i' k')
      = Q (fun (j : Fin M) (k : Fin Kc) => g k j) (fun j => w i' j) (fun j => s i' j) (fun k' : Fin Kc => a i' k')
        + (if i' = i then t * gradA M Kc s w a g i k + t ^ 2 * ∑ j : Fin M, w i j * g k j ^ 2 else 0) := by
    intro i'
    by_cases h : i' = i
    · subst h
      simp only [true_and, if_true, Fin.val_inj]
      rw [Q_line]; unfold gradA; ring
    · have hne : ¬ ((i' : ℕ) = (i : ℕ)) := fun e => h (Fin.ext e)
      simp only [hne, false_and, if_false, h, add_zero]
  simp_rw [hrow]
  rw [Finset.sum_add_distrib, Finset.sum_ite_eq' Finset.univ i]
  simp only [Finset.mem_univ, if_true]
  ring

/-- badness along the coordinate line `g[k,j] + t` (epsilon None or 0) -/
theorem badness_line_g (sqrt : K → K) (N M Kc : ℕ) (s w a g : ℕ → ℕ → K) (eps : Option K)
    (heps : eps = none ∨ eps = some 0)
    (hsq : ∀ i j, sqrt (w i j) * sqrt (w i j) = w i j) (k : Fin Kc) (j : Fin M) (t : K) :
    badness sqrt N M Kc s w a (fun k' j' => if k' = (k : ℕ) ∧ j' = (j : ℕ) then g k' j' + t else g k' j') eps
      = badness sqrt N M Kc s w a g eps + t * gradG N Kc s w a g k j + t ^ 2 * ∑ i : Fin N, w i j * a i k ^ 2 := by
  rw [badness_cols sqrt N M Kc s w a _ eps hsq, badness_cols sqrt N M Kc s w a g eps hsq,
    penalty_zero Kc M _ eps heps, penalty_zero Kc M g eps heps]
  have hcol : ∀ j' : Fin M,
      Q (fun (i : Fin N) (k : Fin Kc) => a i k) (fun i => w i j') (fun i => s i j')
        (fun k' : Fin Kc => if (k' : ℕ) = (k : ℕ) ∧ (j' : ℕ) = (j : ℕ) then g k' j' + t else g k' j')
      = Q (fun (i : Fin N) (k : Fin Kc) => a i k) (fun i => w i j') (fun i => s i j') (fun k' : Fin Kc => g k' j')
        + (if j' = j then t * gradG N Kc s w a g k j + t ^ 2 * ∑ i : Fin N, w i j * a i k ^ 2 else 0) := by
    intro j'
    by_cases h : j' = j
    · subst h
      simp only [and_true, if_true, Fin.val_inj]
      rw [Q_line]; unfold gradG; ring
    · have hne : ¬ ((j' : ℕ) = (j : ℕ)) := fun e => h (Fin.ext e)
      simp only [hne, and_false, if_false, h, add_zero]
  simp_rw [hcol]
  rw [Finset.sum_add_distrib, Finset.sum_ite_eq' Finset.univ j]
  simp only [Finset.mem_univ, if_true]
  ring

/-- PROPERTY. HMF "gradient vanishes" after an a-step: `gradA` is the partial derivative of badness in `a[i,k]`
(badness along the line `a[i,k] + t` is `badness + t·gradA + t²·Σ_j w_ij g_kj²`, for every state and epsilon), and at
the coefficients returned by `astep` every partial derivative is 0, so the linear term is absent there. -/
theorem astep_gradient_vanishes (sqrt : K → K) (solve : Mat K → Vec K → Vec K) (N M Kc : ℕ) (s w g : ℕ → ℕ → K)
    (eps : Option K) (hw : ∀ i j, 0 ≤ w i j) (hsq : ∀ i j, sqrt (w i j) * sqrt (w i j) = w i j)
    (hsolve : ∀ i : Fin N, Solves Kc (astepMat M Kc w g i) (astepRhs M Kc s w g i)
      (solve (astepMat M Kc w g i) (astepRhs M Kc s w g i))) :
    (∀ (a : ℕ → ℕ → K) (i : Fin N) (k : Fin Kc) (t : K),
      badness sqrt N M Kc s w (fun i' k' => if i' = (i : ℕ) ∧ k' = (k : ℕ) then a i' k' + t else a i' k') g eps
        = badness sqrt N M Kc s w a g eps + t * gradA M Kc s w a g i k + t ^ 2 * ∑ j : Fin M, w i j * g k j ^ 2) ∧
    (∀ (i : Fin N) (k : Fin Kc), gradA M Kc s w (mget (astep solve N M Kc s w g)) g i k = 0) ∧
    (∀ (i : Fin N) (k : Fin Kc) (t : K),
      badness sqrt N M Kc s w (fun i' k' => if i' = (i : ℕ) ∧ k' = (k : ℕ)
          then mget (astep solve N M Kc s w g) i' k' + t else mget (astep solve N M Kc s w g) i' k') g eps
        = badness sqrt N M Kc s w (mget (astep solve N M Kc s w g)) g eps + t ^ 2 * ∑ j : Fin M, w i j * g k j ^ 2) := by
  have hgrad : ∀ (i : Fin N) (k : Fin Kc), gradA M Kc s w (mget (astep solve N M Kc s w g)) g i k = 0 := by
    intro i k
    have h := (astep_optimum sqrt solve N M Kc s w g eps hw hsq hsolve).1 i k
    unfold gradA
    rw [h]; ring
  refine ⟨fun a i k t => badness_line_a sqrt N M Kc s w a g eps hsq i k t, hgrad, fun i k t => ?_⟩
  rw [badness_line_a sqrt N M Kc s w _ g eps hsq i k t, hgrad i k]; ring

/-- PROPERTY. HMF "gradient vanishes" after a g-step (epsilon None or 0): `gradG` is the partial derivative of badness
in `g[k,j]`, and at the components returned by `gstep` every partial derivative is 0. -/
theorem gstep_gradient_vanishes (sqrt : K → K) (solve : Mat K → Vec K → Vec K) (N M Kc : ℕ) (s w a g : ℕ → ℕ → K)
    (eps : Option K) (heps : eps = none ∨ eps = some 0)
    (hw : ∀ i j, 0 ≤ w i j) (hsq : ∀ i j, sqrt (w i j) * sqrt (w i j) = w i j)
    (hsolve : ∀ j : Fin M, Solves Kc (gstepMat N M Kc w a eps j) (gstepRhs N M Kc s w a g eps j)
      (solve (gstepMat N M Kc w a eps j) (gstepRhs N M Kc s w a g eps j))) :
    (∀ (g' : ℕ → ℕ → K) (k : Fin Kc) (j : Fin M) (t : K),
      badness sqrt N M Kc s w a (fun k' j' => if k' = (k : ℕ) ∧ j' = (j : ℕ) then g' k' j' + t else g' k' j') eps
        = badness sqrt N M Kc s w a g' eps + t * gradG N Kc s w a g' k j + t ^ 2 * ∑ i : Fin N, w i j * a i k ^ 2) ∧
    (∀ (k : Fin Kc) (j : Fin M), gradG N Kc s w a (mget (gstep solve N M Kc s w a g eps)) k j = 0) ∧
    (∀ (k : Fin Kc) (j : Fin M) (t : K),
      badness sqrt N M Kc s w a (fun k' j' => if k' = (k : ℕ) ∧ j' = (j : ℕ)
          then mget (gstep solve N M Kc s w a g eps) k' j' + t else mget (gstep solve N M Kc s w a g eps) k' j') eps
        = badness sqrt N M Kc s w a (mget (gstep solve N M Kc s w a g eps)) eps
          + t ^ 2 * ∑ i : Fin N, w i j * a i k ^ 2) := by
  have hgrad : ∀ (k : Fin Kc) (j : Fin M), gradG N Kc s w a (mget (gstep solve N M Kc s w a g eps)) k j = 0 := by
    intro k j
    have h := (gstep_optimum sqrt solve N M Kc s w a g eps heps hw hsq hsolve).1 j k
    unfold gradG
    rw [h]; ring
  refine ⟨fun g' k j t => badness_line_g sqrt N M Kc s w a g' eps heps hsq k j t, hgrad, fun k j t => ?_⟩
  rw [badness_line_g sqrt N M Kc s w a _ eps heps hsq k j t, hgrad k j]; ring

/-! ### non-negative mode -/

/-- PROPERTY. Non-negative mode: the multiplicative updates leave exact zeros as zeros. -/
theorem nn_zero_stays_zero (N M Kc : ℕ) (s w a g : ℕ → ℕ → K) (eps : Option K) :
    (∀ (i : Fin N) (k : Fin Kc), a i k = 0 → mget (astepnn N M Kc s w a g) i k = 0) ∧
    (∀ (k : Fin Kc) (j : Fin M), g k j = 0 → mget (gstepnn N M Kc s w a g eps) k j = 0) := by
  constructor
  · intro i k h
    simp only [astepnn, mget_mtab_fin, h, zero_mul]
  · intro k j h
    simp only [gstepnn, mget_mtab_fin, h, zero_mul]

/-- PROPERTY. Non-negative mode: at a fixed point of the multiplicative a-update every coefficient that is not
zero satisfies the stationarity (KKT) condition of the non-negative weighted least-squares problem with multiplier
zero: `Σ_j w_ij g_kj (s_ij - (a·g)_ij) = 0`, i.e. `gradA = 0` in that coordinate. -/
theorem astepnn_fixed_point_kkt (N M Kc : ℕ) (s w a g : ℕ → ℕ → K) (i : Fin N) (k : Fin Kc)
    (hfix : mget (astepnn N M Kc s w a g) i k = a i k) (hpos : a i k ≠ 0) :
    gradA M Kc s w a g i k = 0 := by
  simp only [astepnn, mget_mtab_fin, sumN_fin, hmfModel] at hfix
  have h1 : (∑ j : Fin M, s i j * w i j * g k j) / (∑ j : Fin M, (∑ l : Fin Kc, a i l * g l j) * w i j * g k j) = 1 :=
    mul_left_cancel₀ hpos (hfix.trans (mul_one _).symm)
  have hden : (∑ j : Fin M, (∑ l : Fin Kc, a i l * g l j) * w i j * g k j) ≠ 0 := by
    intro h0; rw [h0, div_zero] at h1; exact zero_ne_one h1
  have heq := (div_eq_one_iff_eq hden).mp h1
  unfold gradA
  have : ∑ j : Fin M, w i j * g k j * (s i j - ∑ l : Fin Kc, g l j * a i l)
      = (∑ j : Fin M, s i j * w i j * g k j) - ∑ j : Fin M, (∑ l : Fin Kc, a i l * g l j) * w i j * g k j := by
    rw [← Finset.sum_sub_distrib]
    apply Finset.sum_congr rfl; intro j _
    have e : ∑ l : Fin Kc, g l j * a i l = ∑ l : Fin Kc, a i l * g l j :=
      Finset.sum_congr rfl (fun _ _ => mul_comm _ _)
    rw [e]; ring
  rw [this, heq]; ring

/-! ### pcomp: the derived variables are uncorrelated -/

theorem covMat_entry (no nv : ℕ) (x : ℕ → ℕ → K) (j l : Fin nv) :
    mget (covMat no nv x) j l
      = (∑ i : Fin no, (x i j - (∑ i' : Fin no, x i' j) / (no : K)) * (x i l - (∑ i' : Fin no, x i' l) / (no : K)))
        / ((no - 1 : ℕ) : K) := by
  simp only [covMat, colMean, mget_mtab_fin, vget_vtab_fin, sumN_fin, scalar_ofNat]

/-- covariance of linearly transformed data: `cov(X·B) = Bᵀ · cov(X) · B` -/
theorem cov_linear (no nv : ℕ) (x B d : ℕ → ℕ → K)
    (hd : ∀ (i : Fin no) (j : Fin nv), d i j = ∑ k : Fin nv, x i k * B k j) (j l : Fin nv) :
    mget (covMat no nv d) j l
      = ∑ k : Fin nv, ∑ k' : Fin nv, B k j * mget (covMat no nv x) k k' * B k' l := by
  have hc : ∀ (i : Fin no) (j : Fin nv), d i j - (∑ i' : Fin no, d i' j) / (no : K)
      = ∑ k : Fin nv, (x i k - (∑ i' : Fin no, x i' k) / (no : K)) * B k j := by
    intro i j
    simp_rw [hd]
    have hsw : ∑ i' : Fin no, ∑ k : Fin nv, x i' k * B k j = ∑ k : Fin nv, (∑ i' : Fin no, x i' k) * B k j := by
      rw [Finset.sum_comm]
      apply Finset.sum_congr rfl; intro k _
      rw [Finset.sum_mul]
    rw [hsw]
    simp only [div_eq_mul_inv]
    rw [Finset.sum_mul, ← Finset.sum_sub_distrib]
    apply Finset.sum_congr rfl; intro k _
    ring
  rw [covMat_entry]
  simp_rw [hc, covMat_entry]
  have hdiv : ∀ a : K, a / ((no - 1 : ℕ) : K) = a * (((no - 1 : ℕ) : K))⁻¹ := fun a => div_eq_mul_inv a _
  simp_rw [hdiv]
  rw [Finset.sum_mul]
  have e : ∀ i : Fin no,
      (∑ k : Fin nv, (x i k - (∑ i' : Fin no, x i' k) / (no : K)) * B k j) *
        (∑ k : Fin nv, (x i k - (∑ i' : Fin no, x i' k) / (no : K)) * B k l) * (((no - 1 : ℕ) : K))⁻¹
      = ∑ k : Fin nv, ∑ k' : Fin nv, B k j *
          ((x i k - (∑ i' : Fin no, x i' k) / (no : K)) * (x i k' - (∑ i' : Fin no, x i' k') / (no : K))
            * (((no - 1 : ℕ) : K))⁻¹) * B k' l := by
    intro i
    rw [Finset.sum_mul_sum, Finset.sum_mul]
    apply Finset.sum_congr rfl; intro k _
    rw [Finset.sum_mul]
    apply Finset.sum_congr rfl; intro k' _
    ring
  simp_rw [e]
  rw [Finset.sum_comm]
  apply Finset.sum_congr rfl; intro k _
  rw [Finset.sum_comm]
  apply Finset.sum_congr rfl; intro k' _
  rw [Finset.sum_mul, Finset.mul_sum, Finset.sum_mul]

/-- PROPERTY. pcomp in covariance mode, given the `eigh` contract, a sorting permutation and `sqrt x · sqrt x = x`
on the eigenvalues: the derived variables are UNCORRELATED - their covariance matrix (`numpy.cov`, same estimator
as the decomposed matrix) is diagonal, with `eigenvalue_j²` on the diagonal (the components carry a factor
`sqrt(eigenvalue_j)`, so the variance of derived variable j is `eigenvalue_j · eigenvalue_j`). -/
theorem pcomp_derived_uncorrelated (sqrt : K → K) (eigh : Mat K → Eig K) (argsort : Vec K → Array ℕ) (no nv : ℕ)
    (x : ℕ → ℕ → K) (st : Bool) (σ : Equiv.Perm (Fin nv))
    (hE : EighOK nv (pcomp sqrt eigh argsort no nv x st true).c (eigh (pcomp sqrt eigh argsort no nv x st true).c))
    (hσ : ∀ j : Fin nv,
      (argsort (eigh (pcomp sqrt eigh argsort no nv x st true).c).evals)[nv - 1 - (j : ℕ)]! = ((σ j : Fin nv) : ℕ))
    (hsq : ∀ j : Fin nv, sqrt (vget (eigh (pcomp sqrt eigh argsort no nv x st true).c).evals j) *
      sqrt (vget (eigh (pcomp sqrt eigh argsort no nv x st true).c).evals j)
        = vget (eigh (pcomp sqrt eigh argsort no nv x st true).c).evals j) (j l : Fin nv) :
    mget (covMat no nv (mget (pcomp sqrt eigh argsort no nv x st true).derived)) j l
      = if j = l then vget (pcomp sqrt eigh argsort no nv x st true).evals j *
          vget (pcomp sqrt eigh argsort no nv x st true).evals j else 0 := by
  have hev : ∀ j : Fin nv, vget (pcomp sqrt eigh argsort no nv x st true).evals j
      = vget (eigh (pcomp sqrt eigh argsort no nv x st true).c).evals (σ j) := by
    intro j
    have := hσ j
    simp only [pcomp] at this ⊢
    simp only [vget_vtab_fin, this]
  have hco : ∀ i j : Fin nv, mget (pcomp sqrt eigh argsort no nv x st true).coefficients i j
      = mget (eigh (pcomp sqrt eigh argsort no nv x st true).c).evecs i (σ j) *
          sqrt (vget (eigh (pcomp sqrt eigh argsort no nv x st true).c).evals (σ j)) := by
    intro i j
    have := hσ j
    simp only [pcomp] at this ⊢
    simp only [mget_mtab_fin, vget_vtab_fin, this]
  have hder : ∀ (i : Fin no) (j : Fin nv), mget (pcomp sqrt eigh argsort no nv x st true).derived i j
      = ∑ k : Fin nv, mget (pcomp sqrt eigh argsort no nv x st true).array i k *
          mget (pcomp sqrt eigh argsort no nv x st true).coefficients k j := by
    intro i j
    simp only [pcomp, mget_mtab_fin, sumN_fin]
  have hc : (pcomp sqrt eigh argsort no nv x st true).c
      = covMat no nv (mget (pcomp sqrt eigh argsort no nv x st true).array) := by
    simp only [pcomp, if_true]
  rw [cov_linear no nv (mget (pcomp sqrt eigh argsort no nv x st true).array)
    (mget (pcomp sqrt eigh argsort no nv x st true).coefficients) _ hder j l, ← hc]
  -- Σ_k' C k k' B k' l = λ(σ l) · B k l
  have hCB : ∀ k : Fin nv, ∑ k' : Fin nv, mget (pcomp sqrt eigh argsort no nv x st true).c k k' *
        mget (pcomp sqrt eigh argsort no nv x st true).coefficients k' l
      = vget (eigh (pcomp sqrt eigh argsort no nv x st true).c).evals (σ l) *
          mget (pcomp sqrt eigh argsort no nv x st true).coefficients k l := by
    intro k
    simp_rw [hco, ← mul_assoc]
    rw [← Finset.sum_mul, hE.eig k (σ l)]
  have hinner : ∀ k : Fin nv, ∑ k' : Fin nv, mget (pcomp sqrt eigh argsort no nv x st true).coefficients k j *
        mget (pcomp sqrt eigh argsort no nv x st true).c k k' *
        mget (pcomp sqrt eigh argsort no nv x st true).coefficients k' l
      = mget (pcomp sqrt eigh argsort no nv x st true).coefficients k j *
          (vget (eigh (pcomp sqrt eigh argsort no nv x st true).c).evals (σ l) *
            mget (pcomp sqrt eigh argsort no nv x st true).coefficients k l) := by
    intro k
    rw [← hCB k, Finset.mul_sum]
    apply Finset.sum_congr rfl; intros; ring
  simp_rw [hinner, hco]
  have hfin : ∀ k : Fin nv,
      mget (eigh (pcomp sqrt eigh argsort no nv x st true).c).evecs k (σ j) *
          sqrt (vget (eigh (pcomp sqrt eigh argsort no nv x st true).c).evals (σ j)) *
        (vget (eigh (pcomp sqrt eigh argsort no nv x st true).c).evals (σ l) *
          (mget (eigh (pcomp sqrt eigh argsort no nv x st true).c).evecs k (σ l) *
            sqrt (vget (eigh (pcomp sqrt eigh argsort no nv x st true).c).evals (σ l))))
      = (sqrt (vget (eigh (pcomp sqrt eigh argsort no nv x st true).c).evals (σ j)) *
          vget (eigh (pcomp sqrt eigh argsort no nv x st true).c).evals (σ l) *
          sqrt (vget (eigh (pcomp sqrt eigh argsort no nv x st true).c).evals (σ l))) *
        (mget (eigh (pcomp sqrt eigh argsort no nv x st true).c).evecs k (σ j) *
          mget (eigh (pcomp sqrt eigh argsort no nv x st true).c).evecs k (σ l)) := by
    intro k; ring
  simp_rw [hfin]
  rw [← Finset.mul_sum, hE.cols (σ j) (σ l)]
  by_cases h : j = l
  · subst h
    rw [if_pos rfl, if_pos rfl, hev]
    linear_combination (vget (eigh (pcomp sqrt eigh argsort no nv x st true).c).evals (σ j)) * hsq (σ j)
  · have : σ j ≠ σ l := fun e => h (σ.injective e)
    rw [if_neg this, if_neg h, mul_zero]

/-! ### pca_solve with the outer PCA + reject loop (`maxiter ≥ 0`) -/

/-- `djs_reject` as `pca_solve` calls it (no rejection limits) returns the input mask, with or without a model -/
theorem pcaReject_mask (nobj npix : ℕ) (hm : Bool) (inmask : ℕ → ℕ → Bool) (om : Option Mask) (i p : ℕ)
    (hi : i < nobj) (hp : p < npix) :
    bget (pcaReject (α := K) nobj npix hm inmask om).1 i p = inmask i p := by
  unfold pcaReject
  cases hm
  · simp [bget_btab _ _ _ _ _ hi hp]
  · simp only [Bool.not_true, Bool.false_eq_true, if_false]
    rw [bget_btab _ _ _ _ _ hi hp]
    cases inmask i p <;> simp [scalar_lit]

theorem pcaPassG_proj (sqrt : K → K) (svd : Mat K → Svd K) (eigh : Mat K → Eig K) (argsort : Vec K → Array ℕ)
    (nobj npix nkeep : ℕ) (flux ivar mivar : ℕ → ℕ → K) (syn : Vec K) (filt : Mat K) (i : Fin nobj) (k : Fin nkeep) :
    mget (pcaPassG sqrt svd eigh argsort nobj npix nkeep flux ivar mivar syn filt).acoeff i k
      = vget (pcaProject sqrt svd npix nkeep (flux i) (mivar i)
          (mget (pcaPassG sqrt svd eigh argsort nobj npix nkeep flux ivar mivar syn filt).pres)).acoeff k := by
  simp only [pcaPassG, mget_mtab_fin]
  simp

theorem pcaInner_last {β : Type} (pass : Mat K → PcaState K) (n : ℕ) (st : PcaState K) :
    ∃ f, pcaInner pass (n + 1) st = pass f := by
  induction n generalizing st with
  | zero => exact ⟨st.filt, rfl⟩
  | succ n ih => exact ih (pass st.filt)

/-- the invariant of the outer loop: whenever a solution is present it is the output of a pass whose weights are
`newivar * outmask` for the CURRENT outmask, and that outmask is `newivar != 0` -/
def PcaInv (sqrt : K → K) (svd : Mat K → Svd K) (eigh : Mat K → Eig K) (argsort : Vec K → Array ℕ)
    (nobj npix nkeep : ℕ) (flux ivar : ℕ → ℕ → K) (syn : Vec K) (L : PcaLoop K) : Prop :=
  ∀ st, L.last = some st → ∃ om f, L.outmask = some om ∧
    st = pcaPassG sqrt svd eigh argsort nobj npix nkeep flux ivar (maskIvar ivar om) syn f ∧
    ∀ i p, i < nobj → p < npix → bget om i p = decide (ivar i p ≠ 0)

theorem pcaOuterStep_inv (sqrt : K → K) (svd : Mat K → Svd K) (eigh : Mat K → Eig K) (argsort : Vec K → Array ℕ)
    (nobj npix niter nkeep : ℕ) (flux ivar : ℕ → ℕ → K) (syn : Vec K) (hn : niter ≠ 0) (L : PcaLoop K) :
    PcaInv sqrt svd eigh argsort nobj npix nkeep flux ivar syn
      (pcaOuterStep sqrt svd eigh argsort nobj npix niter nkeep flux ivar syn L) := by
  intro st hst
  obtain ⟨n', rfl⟩ := Nat.exists_eq_succ_of_ne_zero hn
  obtain ⟨f, hf⟩ := pcaInner_last (β := Unit)
    (pcaPassG sqrt svd eigh argsort nobj npix nkeep flux ivar (maskIvar ivar (pcaStepMask nobj npix ivar L).1) syn)
    n' (pcaInit nobj npix nkeep flux)
  refine ⟨(pcaStepMask nobj npix ivar L).1, f, rfl, ?_, ?_⟩
  · have h2 : (pcaOuterStep sqrt svd eigh argsort nobj npix (n' + 1) nkeep flux ivar syn L).last
        = some (pcaInner (pcaPassG sqrt svd eigh argsort nobj npix nkeep flux ivar
            (maskIvar ivar (pcaStepMask nobj npix ivar L).1) syn) (n' + 1) (pcaInit nobj npix nkeep flux)) := rfl
    rw [h2] at hst
    rw [← Option.some.inj hst]; exact hf
  · intro i p hi hp
    unfold pcaStepMask
    rw [pcaReject_mask (K := K) nobj npix _ _ _ i p hi hp]
    by_cases h0 : ivar i p = 0 <;> simp [h0, scalar_lit]

theorem pcaOuter_inv (sqrt : K → K) (svd : Mat K → Svd K) (eigh : Mat K → Eig K) (argsort : Vec K → Array ℕ)
    (nobj npix niter nkeep maxiter : ℕ) (flux ivar : ℕ → ℕ → K) (syn : Vec K) (hn : niter ≠ 0)
    (fuel : ℕ) (L : PcaLoop K) (hL : PcaInv sqrt svd eigh argsort nobj npix nkeep flux ivar syn L) :
    PcaInv sqrt svd eigh argsort nobj npix nkeep flux ivar syn
      (pcaOuter sqrt svd eigh argsort nobj npix niter nkeep maxiter flux ivar syn fuel L) := by
  induction fuel generalizing L with
  | zero => exact hL
  | succ fuel ih =>
    rw [pcaOuter]
    split
    · exact ih _ (pcaOuterStep_inv sqrt svd eigh argsort nobj npix niter nkeep flux ivar syn hn L)
    · exact hL

/-- PROPERTY. pca_solve with `maxiter ≥ 0` (the PCA + reject loop, all `goodobj` branches): in the returned result
`outmask = (newivar != 0)` (no rejection limit is passed to `djs_reject`), `usemask[p]` counts the spectra that are
good at pixel p, the weights of the LAST outer iteration `newivar * outmask` equal `newivar`, and the returned
coefficients of every spectrum are the `computechi2` projection of that spectrum on the RETURNED eigenspectra
`pres[:, 0:nkeep]` with exactly those final weights. -/
theorem pca_final_state (sqrt : K → K) (svd : Mat K → Svd K) (eigh : Mat K → Eig K) (argsort : Vec K → Array ℕ)
    (nobj npix niter nkeep maxiter : ℕ) (flux ivar : ℕ → ℕ → K) (r : PcaFull K)
    (hres : pcaSolveMax sqrt svd eigh argsort nobj npix niter nkeep maxiter flux ivar = .ok (.full r)) :
    (∀ i p, i < nobj → p < npix → bget r.outmask i p = decide (ivar i p ≠ 0)) ∧
    (∀ p : Fin npix, r.usemask[p.val]! = ((range nobj).filter (fun i => ivar i p ≠ 0)).card) ∧
    (∀ i p, i < nobj → p < npix → maskIvar ivar r.outmask i p = ivar i p) ∧
    (∀ (i : Fin nobj) (k : Fin nkeep), mget r.acoeff i k
      = vget (pcaProject sqrt svd npix nkeep (flux i) (maskIvar ivar r.outmask i) (mget r.pres)).acoeff k) := by
  unfold pcaSolveMax at hres
  split at hres
  · exact absurd hres (by simp)
  split at hres
  · exact absurd hres (by simp)
  split at hres
  · exact absurd hres (by simp)
  rename_i hn
  have hinv := pcaOuter_inv sqrt svd eigh argsort nobj npix niter nkeep maxiter flux ivar
    (synwvec nobj npix ivar) hn (maxiter + 1) { outmask := none, qdone := false, iiter := 0, last := none }
    (by intro st hst; simp at hst)
  dsimp only at hres
  split at hres
  · rename_i om st hom hst
    obtain ⟨om', f, hom', hst', hmask⟩ := hinv st hst
    rw [hom] at hom'
    simp only [Option.some.injEq] at hom'
    subst hom'
    simp only [Except.ok.injEq, PcaOut.full.injEq] at hres
    subst hres
    have hw : ∀ i p, i < nobj → p < npix → maskIvar ivar om i p = ivar i p := by
      intro i p hi hp
      unfold maskIvar
      rw [hmask i p hi hp]
      by_cases h0 : ivar i p = 0
      · simp [h0]
      · simp [h0, scalar_lit]
    refine ⟨hmask, ?_, hw, ?_⟩
    · intro p
      simp only [Fin.is_lt, Array.getElem!_eq_getD, Array.getD_eq_getD_getElem?, Array.getElem?_ofFn, dite_true,
        Option.getD_some, countN_eq]
      congr 1
      apply Finset.filter_congr
      intro i hi
      rw [hmask i p (Finset.mem_range.mp hi) p.isLt]
      simp
    · intro i k
      simp only
      rw [hst']
      exact pcaPassG_proj sqrt svd eigh argsort nobj npix nkeep flux ivar (maskIvar ivar om) _ f i k
  · exact absurd hres (by simp)

/-- PROPERTY. pca_solve with `maxiter ≥ 0`: the returned coefficients are the inverse-variance weighted projections
on the returned eigenspectra for the weights of the LAST iteration (which are `newivar`): they satisfy the normal
equations and minimise the weighted chi-square (contracts as in `pca_coeff_is_projection`, at the final state). -/
theorem pca_final_coeff_is_projection (sqrt : K → K) (svd : Mat K → Svd K) (eigh : Mat K → Eig K)
    (argsort : Vec K → Array ℕ) (nobj npix niter nkeep maxiter : ℕ) (flux ivar : ℕ → ℕ → K) (r : PcaFull K)
    (hres : pcaSolveMax sqrt svd eigh argsort nobj npix niter nkeep maxiter flux ivar = .ok (.full r))
    (i : Fin nobj)
    (hsq : ∀ p, sqrt (maskIvar ivar r.outmask i p) * sqrt (maskIvar ivar r.outmask i p) = maskIvar ivar r.outmask i p)
    (hinv : MulEqOne nkeep (pcaProject sqrt svd npix nkeep (flux i) (maskIvar ivar r.outmask i) (mget r.pres)).mm
      (pcaProject sqrt svd npix nkeep (flux i) (maskIvar ivar r.outmask i) (mget r.pres)).mmi) :
    Normal (fun (p : Fin npix) (k : Fin nkeep) => mget r.pres p k) (fun p => ivar i p) (fun p => flux i p)
        (fun k => mget r.acoeff i k) ∧
    ∀ z : Fin nkeep → K,
      Q (fun (p : Fin npix) (k : Fin nkeep) => mget r.pres p k) (fun p => ivar i p) (fun p => flux i p)
          (fun k => mget r.acoeff i k)
        ≤ Q (fun (p : Fin npix) (k : Fin nkeep) => mget r.pres p k) (fun p => ivar i p) (fun p => flux i p) z := by
  obtain ⟨_, _, hw, hproj⟩ := pca_final_state sqrt svd eigh argsort nobj npix niter nkeep maxiter flux ivar r hres
  have h := pca_coeff_is_projection sqrt svd npix nkeep (flux i) (maskIvar ivar r.outmask i) (mget r.pres) hsq hinv
  have e1 : (fun p : Fin npix => maskIvar ivar r.outmask i p) = (fun p : Fin npix => ivar i p) :=
    funext (fun p => hw i p i.isLt p.isLt)
  have e2 : (fun k : Fin nkeep => vget (pcaProject sqrt svd npix nkeep (flux i) (maskIvar ivar r.outmask i)
      (mget r.pres)).acoeff k) = (fun k : Fin nkeep => mget r.acoeff i k) :=
    funext (fun k => (hproj i k).symm)
  rw [e1, e2] at h
  exact h

/-- PROPERTY. Non-negative mode, epsilon None or 0: at a fixed point of the multiplicative g-update every component
value that is not zero has `gradG = 0` (KKT stationarity of the non-negative problem on the non-zero entries). -/
theorem gstepnn_fixed_point_kkt (N M Kc : ℕ) (s w a g : ℕ → ℕ → K) (eps : Option K)
    (heps : eps = none ∨ eps = some 0) (k : Fin Kc) (j : Fin M)
    (hfix : mget (gstepnn N M Kc s w a g eps) k j = g k j) (hpos : g k j ≠ 0) :
    gradG N Kc s w a g k j = 0 := by
  have hoff := epsOn_false_of eps heps
  simp only [gstepnn, mget_mtab_fin, sumN_fin, hmfModel, epsRhs, hoff, Bool.false_eq_true, if_false, scalar_lit,
    Nat.cast_zero, add_zero] at hfix
  have h1 : (∑ i : Fin N, a i k * (s i j * w i j)) / (∑ i : Fin N, a i k * ((∑ l : Fin Kc, a i l * g l j) * w i j)) = 1 :=
    mul_left_cancel₀ hpos (hfix.trans (mul_one _).symm)
  have hden : (∑ i : Fin N, a i k * ((∑ l : Fin Kc, a i l * g l j) * w i j)) ≠ 0 := by
    intro h0; rw [h0, div_zero] at h1; exact zero_ne_one h1
  have heq := (div_eq_one_iff_eq hden).mp h1
  unfold gradG
  have : ∑ i : Fin N, w i j * a i k * (s i j - ∑ l : Fin Kc, a i l * g l j)
      = (∑ i : Fin N, a i k * (s i j * w i j)) - ∑ i : Fin N, a i k * ((∑ l : Fin Kc, a i l * g l j) * w i j) := by
    rw [← Finset.sum_sub_distrib]
    apply Finset.sum_congr rfl; intro i _
    ring
  rw [this, heq]; ring

end Ext

/-! ### extension 2: the non-negative multiplicative updates do not increase badness (Lee-Seung majorisation) -/
section
variable {K : Type} [Field K] [LinearOrder K] [IsStrictOrderedRing K] [FloorRing K]

/-- Lee-Seung majorisation for weighted least squares with a non-negative design matrix, non-negative weights and a
non-negative current point: the multiplicative update `x_k ← x_k · num_k / den_k` (`num = Bᵀ W y`, `den = Bᵀ W B x`)
lowers the objective by at least `Σ_k x_k (num_k/den_k - 1)² den_k`.  The data `y` may have any sign. -/
theorem mult_update_le {n m : ℕ} (B : Fin n → Fin m → K) (w y : Fin n → K) (x : Fin m → K)
    (hB : ∀ i k, 0 ≤ B i k) (hw : ∀ i, 0 ≤ w i) (hx : ∀ k, 0 ≤ x k)
    (num den : Fin m → K)
    (hnum : ∀ k, num k = ∑ i, w i * B i k * y i)
    (hden : ∀ k, den k = ∑ i, w i * B i k * ∑ l, B i l * x l)
    (hd0 : ∀ k, den k ≠ 0) :
    Q B w y (fun k => x k * (num k / den k)) + ∑ k, x k * (num k / den k - 1) ^ 2 * den k ≤ Q B w y x := by
  set t : Fin m → K := fun k => num k / den k - 1 with ht
  set P : Fin n → K := fun i => ∑ l, B i l * x l with hP
  set D : Fin n → K := fun i => ∑ k, B i k * (x k * t k) with hD
  have hA : ∀ i, ∑ l, B i l * (x l * (num l / den l)) = P i + D i := by
    intro i
    simp only [hP, hD, ← Finset.sum_add_distrib]
    apply Finset.sum_congr rfl; intro l _
    simp only [ht]; ring
  have htd : ∀ k, num k - den k = t k * den k := by
    intro k
    simp only [ht]
    field_simp [hd0 k]
  -- the linear term
  have hC : ∑ i, w i * (y i - P i) * D i = ∑ k, x k * t k ^ 2 * den k := by
    have e1 : ∀ i, w i * (y i - P i) * D i = ∑ k, x k * t k * (w i * B i k * (y i - P i)) := by
      intro i
      simp only [hD, Finset.mul_sum]
      apply Finset.sum_congr rfl; intro k _; ring
    simp_rw [e1]
    rw [Finset.sum_comm]
    apply Finset.sum_congr rfl; intro k _
    rw [← Finset.mul_sum]
    have e2 : ∑ i, w i * B i k * (y i - P i) = num k - den k := by
      rw [hnum k, hden k, ← Finset.sum_sub_distrib]
      apply Finset.sum_congr rfl; intro i _; ring
    rw [e2, htd k]; ring
  -- the quadratic term: Cauchy-Schwarz with the non-negative weights B_ik x_k
  have hDle : ∀ i, w i * D i ^ 2 ≤ w i * (P i * ∑ k, B i k * x k * t k ^ 2) := by
    intro i
    apply mul_le_mul_of_nonneg_left _ (hw i)
    have := Finset.sum_sq_le_sum_mul_sum_of_sq_le_mul (Finset.univ : Finset (Fin m))
      (r := fun k => B i k * (x k * t k)) (f := fun k => B i k * x k) (g := fun k => B i k * x k * t k ^ 2)
      (fun k _ => mul_nonneg (hB i k) (hx k))
      (fun k _ => mul_nonneg (mul_nonneg (hB i k) (hx k)) (sq_nonneg _))
      (fun k _ => le_of_eq (by ring))
    exact this
  have hE : ∑ i, w i * (P i * ∑ k, B i k * x k * t k ^ 2) = ∑ k, x k * t k ^ 2 * den k := by
    have e1 : ∀ i, w i * (P i * ∑ k, B i k * x k * t k ^ 2) = ∑ k, x k * t k ^ 2 * (w i * B i k * P i) := by
      intro i
      simp only [Finset.mul_sum]
      apply Finset.sum_congr rfl; intro k _; ring
    simp_rw [e1]
    rw [Finset.sum_comm]
    apply Finset.sum_congr rfl; intro k _
    rw [← Finset.mul_sum, hden k]
  have hQ' : Q B w y (fun k => x k * (num k / den k))
      = Q B w y x - 2 * ∑ i, w i * (y i - P i) * D i + ∑ i, w i * D i ^ 2 := by
    unfold Q
    simp only [hA]
    rw [Finset.mul_sum, ← Finset.sum_sub_distrib, ← Finset.sum_add_distrib]
    apply Finset.sum_congr rfl; intro i _
    simp only [hP]; ring
  have hsum := Finset.sum_le_sum (s := Finset.univ) (fun (i : Fin n) _ => hDle i)
  rw [hE] at hsum
  rw [hQ', hC]
  linarith
/-- `mult_update_le` without the decrease term -/
theorem mult_update_le' {n m : ℕ} (B : Fin n → Fin m → K) (w y : Fin n → K) (x : Fin m → K)
    (hB : ∀ i k, 0 ≤ B i k) (hw : ∀ i, 0 ≤ w i) (hx : ∀ k, 0 ≤ x k)
    (num den : Fin m → K)
    (hnum : ∀ k, num k = ∑ i, w i * B i k * y i)
    (hden : ∀ k, den k = ∑ i, w i * B i k * ∑ l, B i l * x l)
    (hd0 : ∀ k, den k ≠ 0) :
    Q B w y (fun k => x k * (num k / den k)) ≤ Q B w y x := by
  have h := mult_update_le B w y x hB hw hx num den hnum hden hd0
  have hS : 0 ≤ ∑ k, x k * (num k / den k - 1) ^ 2 * den k := by
    apply Finset.sum_nonneg; intro k _
    apply mul_nonneg (mul_nonneg (hx k) (sq_nonneg _))
    rw [hden k]
    apply Finset.sum_nonneg; intro i _
    exact mul_nonneg (mul_nonneg (hw i) (hB i k)) (Finset.sum_nonneg (fun l _ => mul_nonneg (hB i l) (hx l)))
  linarith
end

section Ext2
variable {K : Type} [Field K] [LinearOrder K] [IsStrictOrderedRing K] [FloorRing K]
attribute [local instance] fieldScalar
attribute [-instance] Scalar.instOfNat Scalar.instOfScientific

/-- PROPERTY. HMF non-negative mode, `astepnn` (any epsilon): for non-negative weights, a non-negative current state
`(a, g)` and non-zero denominators (the code divides by them), ONE multiplicative a-update does not increase badness.
This is the Lee-Seung majorisation argument, row by row; the spectra may have any sign. -/
theorem astepnn_badness_le (sqrt : K → K) (N M Kc : ℕ) (s w a g : ℕ → ℕ → K) (eps : Option K)
    (hw : ∀ i j, 0 ≤ w i j) (hsq : ∀ i j, sqrt (w i j) * sqrt (w i j) = w i j)
    (ha : ∀ (i : Fin N) (k : Fin Kc), 0 ≤ a i k) (hg : ∀ (k : Fin Kc) (j : Fin M), 0 ≤ g k j)
    (hden : ∀ (i : Fin N) (k : Fin Kc), (∑ j : Fin M, (∑ l : Fin Kc, a i l * g l j) * w i j * g k j) ≠ 0) :
    badness sqrt N M Kc s w (mget (astepnn N M Kc s w a g)) g eps ≤ badness sqrt N M Kc s w a g eps := by
  rw [badness_rows sqrt N M Kc s w _ g eps hsq, badness_rows sqrt N M Kc s w a g eps hsq]
  have h := Finset.sum_le_sum (s := Finset.univ) (fun (i : Fin N) _ =>
    mult_update_le' (fun (j : Fin M) (k : Fin Kc) => g k j) (fun j => w i j) (fun j => s i j) (fun k => a i k)
      (fun j k => hg k j) (fun j => hw i j) (fun k => ha i k)
      (fun k => ∑ j : Fin M, s i j * w i j * g k j)
      (fun k => ∑ j : Fin M, (∑ l : Fin Kc, a i l * g l j) * w i j * g k j)
      (fun k => Finset.sum_congr rfl (fun j _ => by ring))
      (fun k => Finset.sum_congr rfl (fun j _ => by
        have e : ∑ l : Fin Kc, g l j * a i l = ∑ l : Fin Kc, a i l * g l j :=
          Finset.sum_congr rfl (fun _ _ => mul_comm _ _)
        rw [e]; ring))
      (fun k => hden i k))
  have e : ∀ i : Fin N, (fun k : Fin Kc => mget (astepnn N M Kc s w a g) i k)
      = fun k : Fin Kc => a i k * ((∑ j : Fin M, s i j * w i j * g k j) / (∑ j : Fin M, (∑ l : Fin Kc, a i l * g l j) * w i j * g k j)) := by
    intro i; funext k
    simp only [astepnn, mget_mtab_fin, sumN_fin, hmfModel]
  simp only [e]
  linarith

/-- PROPERTY. HMF non-negative mode, `gstepnn` without smoothing (epsilon None or 0): for non-negative weights, a
non-negative current state and non-zero denominators, ONE multiplicative g-update does not increase badness
(Lee-Seung majorisation, pixel by pixel). -/
theorem gstepnn_badness_le (sqrt : K → K) (N M Kc : ℕ) (s w a g : ℕ → ℕ → K) (eps : Option K)
    (heps : eps = none ∨ eps = some 0)
    (hw : ∀ i j, 0 ≤ w i j) (hsq : ∀ i j, sqrt (w i j) * sqrt (w i j) = w i j)
    (ha : ∀ (i : Fin N) (k : Fin Kc), 0 ≤ a i k) (hg : ∀ (k : Fin Kc) (j : Fin M), 0 ≤ g k j)
    (hden : ∀ (k : Fin Kc) (j : Fin M), (∑ i : Fin N, a i k * ((∑ l : Fin Kc, a i l * g l j) * w i j)) ≠ 0) :
    badness sqrt N M Kc s w a (mget (gstepnn N M Kc s w a g eps)) eps ≤ badness sqrt N M Kc s w a g eps := by
  have hoff := epsOn_false_of eps heps
  rw [badness_cols sqrt N M Kc s w a _ eps hsq, badness_cols sqrt N M Kc s w a g eps hsq,
    penalty_zero Kc M _ eps heps, penalty_zero Kc M g eps heps]
  have h := Finset.sum_le_sum (s := Finset.univ) (fun (j : Fin M) _ =>
    mult_update_le' (fun (i : Fin N) (k : Fin Kc) => a i k) (fun i => w i j) (fun i => s i j) (fun k => g k j)
      (fun i k => ha i k) (fun i => hw i j) (fun k => hg k j)
      (fun k => ∑ i : Fin N, a i k * (s i j * w i j))
      (fun k => ∑ i : Fin N, a i k * ((∑ l : Fin Kc, a i l * g l j) * w i j))
      (fun k => Finset.sum_congr rfl (fun i _ => by ring))
      (fun k => Finset.sum_congr rfl (fun i _ => by ring))
      (fun k => hden k j))
  have e : ∀ j : Fin M, (fun k : Fin Kc => mget (gstepnn N M Kc s w a g eps) k j)
      = fun k : Fin Kc => g k j * ((∑ i : Fin N, a i k * (s i j * w i j)) / (∑ i : Fin N, a i k * ((∑ l : Fin Kc, a i l * g l j) * w i j))) := by
    intro j; funext k
    simp only [gstepnn, mget_mtab_fin, sumN_fin, hmfModel, epsRhs, hoff, Bool.false_eq_true, if_false, scalar_lit,
      Nat.cast_zero, add_zero]
  simp only [e]
  linarith
/-- PROPERTY. HMF non-negative mode, epsilon None or 0: a WHOLE sweep `astepnn; gstepnn; renormalise` of `iterate` does not
increase badness, for non-negative spectra and weights and every non-negative state `(a, g)` at which the code does not
divide by zero (both families of denominators non-zero, no component with zero rms). -/
theorem sweepNN_badness_le (sqrt : K → K) (N M Kc : ℕ) (s w : ℕ → ℕ → K) (eps : Option K)
    (heps : eps = none ∨ eps = some 0)
    (hs : ∀ i j, 0 ≤ s i j) (hw : ∀ i j, 0 ≤ w i j) (hsq : ∀ i j, sqrt (w i j) * sqrt (w i j) = w i j)
    (ag : Mat K × Mat K) (ha : ∀ i k, 0 ≤ mget ag.1 i k) (hg : ∀ k j, 0 ≤ mget ag.2 k j)
    (hdenA : ∀ (i : Fin N) (k : Fin Kc),
      (∑ j : Fin M, (∑ l : Fin Kc, mget ag.1 i l * mget ag.2 l j) * w i j * mget ag.2 k j) ≠ 0)
    (hdenG : ∀ (k : Fin Kc) (j : Fin M),
      (∑ i : Fin N, mget (astepnn N M Kc s w (mget ag.1) (mget ag.2)) i k *
        ((∑ l : Fin Kc, mget (astepnn N M Kc s w (mget ag.1) (mget ag.2)) i l * mget ag.2 l j) * w i j)) ≠ 0)
    (hrms : ∀ k : Fin Kc, vget (normbase sqrt Kc M (mget (gstepnn N M Kc s w
      (mget (astepnn N M Kc s w (mget ag.1) (mget ag.2))) (mget ag.2) eps))) k ≠ 0) :
    badness sqrt N M Kc s w (mget (sweepNN sqrt N M Kc s w eps ag).1) (mget (sweepNN sqrt N M Kc s w eps ag).2) eps
      ≤ badness sqrt N M Kc s w (mget ag.1) (mget ag.2) eps := by
  have h1 := astepnn_badness_le sqrt N M Kc s w (mget ag.1) (mget ag.2) eps hw hsq (fun i k => ha i k)
    (fun k j => hg k j) hdenA
  have hnn := (nn_steps_nonneg N M Kc s w (mget ag.1) (mget ag.2) eps hs hw ha hg (by
    intro e he
    rcases heps with h | h
    · rw [h] at he; exact absurd he (by simp)
    · rw [h] at he; simp only [Option.some.injEq] at he; rw [← he])).1
  have h2 := gstepnn_badness_le sqrt N M Kc s w (mget (astepnn N M Kc s w (mget ag.1) (mget ag.2))) (mget ag.2) eps heps
    hw hsq hnn (fun k j => hg k j) hdenG
  have h3 : badness sqrt N M Kc s w (mget (sweepNN sqrt N M Kc s w eps ag).1) (mget (sweepNN sqrt N M Kc s w eps ag).2) eps
      = badness sqrt N M Kc s w (mget (astepnn N M Kc s w (mget ag.1) (mget ag.2)))
          (mget (gstepnn N M Kc s w (mget (astepnn N M Kc s w (mget ag.1) (mget ag.2))) (mget ag.2) eps)) eps := by
    apply badness_congr_model sqrt N M Kc s w _ _ _ _ eps heps
    intro i j
    simp only [sweepNN]
    exact renorm_preserves_model sqrt N M Kc _ _ hrms i j
  linarith
end Ext2

/-! ### extension 2: badness along the whole non-negative loop -/
section Ext5
variable {K : Type} [Field K] [LinearOrder K] [IsStrictOrderedRing K] [FloorRing K]
attribute [local instance] fieldScalar
attribute [-instance] Scalar.instOfNat Scalar.instOfScientific

/-- what one non-negative sweep needs at the state `(a, g)`: the state is non-negative and the code does not divide by
zero (denominators of both multiplicative updates, rms of the new components) -/
structure SweepNNOK (sqrt : K → K) (N M Kc : ℕ) (s w : ℕ → ℕ → K) (eps : Option K) (ag : Mat K × Mat K) : Prop where
  anonneg : ∀ i k, 0 ≤ mget ag.1 i k
  gnonneg : ∀ k j, 0 ≤ mget ag.2 k j
  denA : ∀ (i : Fin N) (k : Fin Kc),
    (∑ j : Fin M, (∑ l : Fin Kc, mget ag.1 i l * mget ag.2 l j) * w i j * mget ag.2 k j) ≠ 0
  denG : ∀ (k : Fin Kc) (j : Fin M),
    (∑ i : Fin N, mget (astepnn N M Kc s w (mget ag.1) (mget ag.2)) i k *
      ((∑ l : Fin Kc, mget (astepnn N M Kc s w (mget ag.1) (mget ag.2)) i l * mget ag.2 l j) * w i j)) ≠ 0
  rms : ∀ k : Fin Kc, vget (normbase sqrt Kc M (mget (gstepnn N M Kc s w
    (mget (astepnn N M Kc s w (mget ag.1) (mget ag.2))) (mget ag.2) eps))) k ≠ 0

/-- PROPERTY. HMF non-negative mode, epsilon None/0: along the whole loop of `iterate` (`iterate_is_sweeps`: the loop is
`iterN nIter sweepNN`) badness is non-increasing from sweep to sweep and never above its start value, as long as the
visited states are non-negative and the code does not divide by zero. -/
theorem iterateNN_badness_antitone (sqrt : K → K) (N M Kc : ℕ) (s w : ℕ → ℕ → K) (eps : Option K)
    (heps : eps = none ∨ eps = some 0)
    (hs : ∀ i j, 0 ≤ s i j) (hw : ∀ i j, 0 ≤ w i j) (hsq : ∀ i j, sqrt (w i j) * sqrt (w i j) = w i j)
    (start : Mat K × Mat K) (nIter : ℕ)
    (ok : ∀ t < nIter, SweepNNOK sqrt N M Kc s w eps (iterN t (sweepNN sqrt N M Kc s w eps) start)) :
    (∀ t < nIter,
      badness sqrt N M Kc s w (mget (iterN (t + 1) (sweepNN sqrt N M Kc s w eps) start).1)
          (mget (iterN (t + 1) (sweepNN sqrt N M Kc s w eps) start).2) eps
        ≤ badness sqrt N M Kc s w (mget (iterN t (sweepNN sqrt N M Kc s w eps) start).1)
          (mget (iterN t (sweepNN sqrt N M Kc s w eps) start).2) eps) ∧
    badness sqrt N M Kc s w (mget (iterN nIter (sweepNN sqrt N M Kc s w eps) start).1)
        (mget (iterN nIter (sweepNN sqrt N M Kc s w eps) start).2) eps
      ≤ badness sqrt N M Kc s w (mget start.1) (mget start.2) eps := by
  have step : ∀ t < nIter,
      badness sqrt N M Kc s w (mget (iterN (t + 1) (sweepNN sqrt N M Kc s w eps) start).1)
          (mget (iterN (t + 1) (sweepNN sqrt N M Kc s w eps) start).2) eps
        ≤ badness sqrt N M Kc s w (mget (iterN t (sweepNN sqrt N M Kc s w eps) start).1)
          (mget (iterN t (sweepNN sqrt N M Kc s w eps) start).2) eps := by
    intro t ht
    rw [iterN_succ']
    have o := ok t ht
    exact sweepNN_badness_le sqrt N M Kc s w eps heps hs hw hsq _ o.anonneg o.gnonneg o.denA o.denG o.rms
  refine ⟨step, ?_⟩
  clear ok
  induction nIter with
  | zero => exact le_refl _
  | succ n ih =>
    exact le_trans (step n (Nat.lt_succ_self n)) (ih (fun t ht => step t (Nat.lt_succ_of_lt ht)))
end Ext5

/-! ### extension 2: the g-step WITH smoothing (epsilon > 0) never increases badness -/
section Eps
variable {K : Type} [Field K] [LinearOrder K] [IsStrictOrderedRing K] [FloorRing K]

/-- nodes-to-edges identity on the path `0 - 1 - … - m` for the Jacobi-type smoothing step: with `δ = x - g`,
`Σ_nodes 2 δ_j (d_j x_j - e_j(g)) + ε Σ_edges ((Δg)² - (Δx)²) = ε Σ_edges (δ_j + δ_{j+1})²`
(`d` = ε·degree, `e` = ε·sum of the OLD neighbours) -/
theorem path_edge_identity (m : ℕ) (hm : 1 ≤ m) (ε : K) (g x : ℕ → K) :
    (∑ j ∈ range (m + 1), 2 * ((x j - g j) *
        ((if 0 < j ∧ j + 1 < m + 1 then ε * 2 else ε) * x j
          - (if j + 1 = m + 1 then ε * g (m + 1 - 2) else if j = 0 then ε * g 1 else ε * (g (j - 1) + g (j + 1))))))
      + ε * ∑ j ∈ range m, ((g (j + 1) - g j) ^ 2 - (x (j + 1) - x j) ^ 2)
    = ε * ∑ j ∈ range m, ((x j - g j) + (x (j + 1) - g (j + 1))) ^ 2 := by
  have node : ∀ j ∈ range (m + 1), 2 * ((x j - g j) *
        ((if 0 < j ∧ j + 1 < m + 1 then ε * 2 else ε) * x j
          - (if j + 1 = m + 1 then ε * g (m + 1 - 2) else if j = 0 then ε * g 1 else ε * (g (j - 1) + g (j + 1))))) =
      (if j + 1 < m + 1 then 2 * ε * (x j - g j) * (x j - g (j + 1)) else 0)
      + (if 0 < j then 2 * ε * (x j - g j) * (x j - g (j - 1)) else 0) := by
    intro j hj
    rw [mem_range] at hj
    rcases Nat.eq_zero_or_pos j with h0 | hpos
    · have c1 : ¬ (0 < j ∧ j + 1 < m + 1) := by omega
      have c2 : ¬ (j + 1 = m + 1) := by omega
      have c4 : j + 1 < m + 1 := by omega
      have c5 : ¬ (0 < j) := by omega
      rw [if_neg c1, if_neg c2, if_pos h0, if_pos c4, if_neg c5, h0]
      ring
    · by_cases hlast : j + 1 = m + 1
      · have c1 : ¬ (0 < j ∧ j + 1 < m + 1) := by omega
        have c4 : ¬ (j + 1 < m + 1) := by omega
        have e2 : m + 1 - 2 = j - 1 := by omega
        rw [if_neg c1, if_pos hlast, if_neg c4, if_pos hpos, e2]
        ring
      · have c1 : (0 < j ∧ j + 1 < m + 1) := by omega
        have c3 : ¬ (j = 0) := by omega
        have c4 : j + 1 < m + 1 := by omega
        rw [if_pos c1, if_neg hlast, if_neg c3, if_pos c4, if_pos hpos]
        ring
  rw [Finset.sum_congr rfl node, Finset.sum_add_distrib, Finset.sum_range_succ,
    Finset.sum_range_succ' (fun j => if 0 < j then 2 * ε * (x j - g j) * (x j - g (j - 1)) else 0)]
  have r1 : ∑ j ∈ range m, (if j + 1 < m + 1 then 2 * ε * (x j - g j) * (x j - g (j + 1)) else 0)
      = ∑ j ∈ range m, 2 * ε * (x j - g j) * (x j - g (j + 1)) :=
    Finset.sum_congr rfl (fun j hj => by rw [mem_range] at hj; rw [if_pos (by omega)])
  have r2 : ∑ j ∈ range m, (if 0 < j + 1 then 2 * ε * (x (j + 1) - g (j + 1)) * (x (j + 1) - g (j + 1 - 1)) else 0)
      = ∑ j ∈ range m, 2 * ε * (x (j + 1) - g (j + 1)) * (x (j + 1) - g j) :=
    Finset.sum_congr rfl (fun j _ => by rw [if_pos (by omega), Nat.add_sub_cancel])
  rw [r1, r2, if_neg (by omega), if_neg (by omega), Finset.mul_sum, Finset.mul_sum]
  simp only [add_zero]
  rw [← Finset.sum_add_distrib, ← Finset.sum_add_distrib]
  apply Finset.sum_congr rfl; intro j _
  ring
end Eps

section Ext3
variable {K : Type} [Field K] [LinearOrder K] [IsStrictOrderedRing K] [FloorRing K]
attribute [local instance] fieldScalar
attribute [-instance] Scalar.instOfNat Scalar.instOfScientific

theorem penalty_some (Kc M : ℕ) (g : ℕ → ℕ → K) (e : K) :
    penalty Kc M g (some e) = e * ∑ k : Fin Kc, ∑ j ∈ range (M - 1), (g k (j + 1) - g k j) ^ 2 := by
  simp only [penalty]
  rw [sumN_fin]
  congr 1
  apply Finset.sum_congr rfl; intro k _
  rw [sumN_range]
  apply Finset.sum_congr rfl; intro j _; ring

/-- PROPERTY. HMF.gstep WITH smoothing (epsilon = e > 0, at least two pixels): the simultaneous (Jacobi-type) update with
the neighbours frozen at their old values never increases badness = chi-square + e·Σ(g_{k,j+1} - g_{k,j})², for ALL e > 0,
all non-negative weights and all states.  Exactly: with `δ = gstep - g`,
`badness(a, g) = badness(a, gstep) + Σ_j Σ_i w_ij (Σ_k a_ik δ_kj)² + e Σ_k Σ_j (δ_kj + δ_k,j+1)²`
(the splitting `P = A + e·D` of the Hessian `H = A + e·(D - Adj)` has `2P - H = A + e·(D + Adj)`, the signless Laplacian,
positive semi-definite). -/
theorem gstep_eps_badness_le (sqrt : K → K) (solve : Mat K → Vec K → Vec K) (N M Kc : ℕ) (s w a g : ℕ → ℕ → K)
    (e : K) (he : 0 < e) (hM : 2 ≤ M)
    (hw : ∀ i j, 0 ≤ w i j) (hsq : ∀ i j, sqrt (w i j) * sqrt (w i j) = w i j)
    (hsolve : ∀ j : Fin M, Solves Kc (gstepMat N M Kc w a (some e) j) (gstepRhs N M Kc s w a g (some e) j)
      (solve (gstepMat N M Kc w a (some e) j) (gstepRhs N M Kc s w a g (some e) j))) :
    badness sqrt N M Kc s w a g (some e)
      = badness sqrt N M Kc s w a (mget (gstep solve N M Kc s w a g (some e))) (some e)
        + (∑ j : Fin M, ∑ i : Fin N, w i j *
            (∑ k : Fin Kc, a i k * (mget (gstep solve N M Kc s w a g (some e)) k j - g k j)) ^ 2)
        + e * ∑ k : Fin Kc, ∑ j ∈ range (M - 1),
            ((mget (gstep solve N M Kc s w a g (some e)) k j - g k j)
              + (mget (gstep solve N M Kc s w a g (some e)) k (j + 1) - g k (j + 1))) ^ 2 ∧
    badness sqrt N M Kc s w a (mget (gstep solve N M Kc s w a g (some e))) (some e)
      ≤ badness sqrt N M Kc s w a g (some e) := by
  obtain ⟨m, rfl⟩ : ∃ m, M = m + 1 := ⟨M - 1, by omega⟩
  have hm : 1 ≤ m := by omega
  set x : ℕ → ℕ → K := mget (gstep solve N (m + 1) Kc s w a g (some e)) with hx
  have hon : epsOn (some e) = true := by
    simp only [epsOn, scalar_lit, Nat.cast_zero, he, decide_true]
  -- the column equations at the new point
  have hN : ∀ (j : Fin (m + 1)) (k : Fin Kc),
      ∑ i : Fin N, w i j * a i k * (s i j - ∑ l : Fin Kc, a i l * x l j)
        = (if 0 < (j : ℕ) ∧ (j : ℕ) + 1 < m + 1 then e * 2 else e) * x k j
          - (if (j : ℕ) + 1 = m + 1 then e * g k (m + 1 - 2) else if (j : ℕ) = 0 then e * g k 1
              else e * (g k (j - 1) + g k (j + 1))) := by
    intro j k
    have h := gstep_eps_stationary_partial solve N (m + 1) Kc s w a g e he hsolve j k
    rw [← hx] at h
    linear_combination h
  have hE : ∀ j : Fin (m + 1),
      Q (fun (i : Fin N) (k : Fin Kc) => a i k) (fun i => w i j) (fun i => s i j) (fun k => g k j)
        = Q (fun (i : Fin N) (k : Fin Kc) => a i k) (fun i => w i j) (fun i => s i j) (fun k => x k j)
          + ∑ i : Fin N, w i j * (∑ k : Fin Kc, a i k * (x k j - g k j)) ^ 2
          + 2 * ∑ k : Fin Kc, (x k j - g k j) *
              ((if 0 < (j : ℕ) ∧ (j : ℕ) + 1 < m + 1 then e * 2 else e) * x k j
                - (if (j : ℕ) + 1 = m + 1 then e * g k (m + 1 - 2) else if (j : ℕ) = 0 then e * g k 1
                    else e * (g k (j - 1) + g k (j + 1)))) := by
    intro j
    rw [Q_expand _ _ _ (fun k => x k j) (fun k => g k j)]
    simp only [hN j]
  have hpath : ∀ k : Fin Kc,
      (∑ j ∈ range (m + 1), 2 * ((x k j - g k j) *
        ((if 0 < j ∧ j + 1 < m + 1 then e * 2 else e) * x k j
          - (if j + 1 = m + 1 then e * g k (m + 1 - 2) else if j = 0 then e * g k 1 else e * (g k (j - 1) + g k (j + 1))))))
      + e * ∑ j ∈ range m, ((g k (j + 1) - g k j) ^ 2 - (x k (j + 1) - x k j) ^ 2)
      = e * ∑ j ∈ range m, ((x k j - g k j) + (x k (j + 1) - g k (j + 1))) ^ 2 :=
    fun k => path_edge_identity m hm e (g k) (x k)
  have hcross : ∑ j : Fin (m + 1), 2 * ∑ k : Fin Kc, (x k j - g k j) *
              ((if 0 < (j : ℕ) ∧ (j : ℕ) + 1 < m + 1 then e * 2 else e) * x k j
                - (if (j : ℕ) + 1 = m + 1 then e * g k (m + 1 - 2) else if (j : ℕ) = 0 then e * g k 1
                    else e * (g k (j - 1) + g k (j + 1))))
      = ∑ k : Fin Kc, ∑ j ∈ range (m + 1), 2 * ((x k j - g k j) *
        ((if 0 < j ∧ j + 1 < m + 1 then e * 2 else e) * x k j
          - (if j + 1 = m + 1 then e * g k (m + 1 - 2) else if j = 0 then e * g k 1 else e * (g k (j - 1) + g k (j + 1))))) := by
    simp_rw [Finset.mul_sum]
    rw [Finset.sum_comm]
    apply Finset.sum_congr rfl; intro k _
    rw [Finset.sum_range]
  have key : badness sqrt N (m + 1) Kc s w a g (some e)
      = badness sqrt N (m + 1) Kc s w a x (some e)
        + (∑ j : Fin (m + 1), ∑ i : Fin N, w i j * (∑ k : Fin Kc, a i k * (x k j - g k j)) ^ 2)
        + e * ∑ k : Fin Kc, ∑ j ∈ range (m + 1 - 1), ((x k j - g k j) + (x k (j + 1) - g k (j + 1))) ^ 2 := by
    rw [badness_cols sqrt N (m + 1) Kc s w a g (some e) hsq, badness_cols sqrt N (m + 1) Kc s w a x (some e) hsq,
      penalty_some, penalty_some, Finset.sum_congr rfl (fun j _ => hE j)]
    simp only [Nat.add_sub_cancel]
    rw [Finset.sum_add_distrib, Finset.sum_add_distrib, hcross]
    have hsumk := Finset.sum_congr (s₁ := (Finset.univ : Finset (Fin Kc))) rfl (fun k _ => hpath k)
    rw [Finset.sum_add_distrib] at hsumk
    simp only [← Finset.mul_sum] at hsumk ⊢
    simp only [Finset.sum_sub_distrib] at hsumk
    linear_combination hsumk
  refine ⟨key, ?_⟩
  rw [key]
  have h1 : 0 ≤ ∑ j : Fin (m + 1), ∑ i : Fin N, w i j * (∑ k : Fin Kc, a i k * (x k j - g k j)) ^ 2 :=
    Finset.sum_nonneg (fun j _ => Finset.sum_nonneg (fun i _ => mul_nonneg (hw i j) (sq_nonneg _)))
  have h2 : 0 ≤ e * ∑ k : Fin Kc, ∑ j ∈ range (m + 1 - 1), ((x k j - g k j) + (x k (j + 1) - g k (j + 1))) ^ 2 :=
    mul_nonneg he.le (Finset.sum_nonneg (fun k _ => Finset.sum_nonneg (fun j _ => sq_nonneg _)))
  linarith
end Ext3

/-! ### extension 2: the non-negative g-update WITH smoothing (epsilon > 0) never increases badness -/
section NNEps
variable {K : Type} [Field K] [LinearOrder K] [IsStrictOrderedRing K] [FloorRing K]

/-- sums over the nodes of the path `0 - … - m` of "right-neighbour term + left-neighbour term" are sums over its edges -/
theorem path_nodes_edges (m : ℕ) (R L : ℕ → K) :
    ∑ j ∈ range (m + 1), ((if j + 1 < m + 1 then R j else 0) + (if 0 < j then L j else 0))
      = ∑ j ∈ range m, (R j + L (j + 1)) := by
  rw [Finset.sum_add_distrib, Finset.sum_range_succ, Finset.sum_range_succ' (fun j => if 0 < j then L j else 0)]
  have r1 : ∑ j ∈ range m, (if j + 1 < m + 1 then R j else 0) = ∑ j ∈ range m, R j :=
    Finset.sum_congr rfl (fun j hj => by rw [mem_range] at hj; rw [if_pos (by omega)])
  have r2 : ∑ j ∈ range m, (if 0 < j + 1 then L (j + 1) else 0) = ∑ j ∈ range m, L (j + 1) :=
    Finset.sum_congr rfl (fun j _ => by rw [if_pos (by omega)])
  rw [r1, r2, if_neg (by omega), if_neg (by omega), Finset.sum_add_distrib]
  ring

/-- Cauchy-Schwarz with the non-negative weights `B_ik x_k` (the quadratic part of the Lee-Seung bound) -/
theorem cs_quad_le {n m : ℕ} (B : Fin n → Fin m → K) (w : Fin n → K) (x t : Fin m → K)
    (hB : ∀ i k, 0 ≤ B i k) (hw : ∀ i, 0 ≤ w i) (hx : ∀ k, 0 ≤ x k) :
    ∑ i, w i * (∑ k, B i k * (x k * t k)) ^ 2 ≤ ∑ k, x k * t k ^ 2 * ∑ i, w i * B i k * ∑ l, B i l * x l := by
  have hDle : ∀ i, w i * (∑ k, B i k * (x k * t k)) ^ 2 ≤ w i * ((∑ l, B i l * x l) * ∑ k, B i k * x k * t k ^ 2) := by
    intro i
    apply mul_le_mul_of_nonneg_left _ (hw i)
    exact Finset.sum_sq_le_sum_mul_sum_of_sq_le_mul (Finset.univ : Finset (Fin m))
      (r := fun k => B i k * (x k * t k)) (f := fun k => B i k * x k) (g := fun k => B i k * x k * t k ^ 2)
      (fun k _ => mul_nonneg (hB i k) (hx k))
      (fun k _ => mul_nonneg (mul_nonneg (hB i k) (hx k)) (sq_nonneg _))
      (fun k _ => le_of_eq (by ring))
  have hE : ∑ i, w i * ((∑ l, B i l * x l) * ∑ k, B i k * x k * t k ^ 2)
      = ∑ k, x k * t k ^ 2 * ∑ i, w i * B i k * ∑ l, B i l * x l := by
    have e1 : ∀ i, w i * ((∑ l, B i l * x l) * ∑ k, B i k * x k * t k ^ 2)
        = ∑ k, x k * t k ^ 2 * (w i * B i k * ∑ l, B i l * x l) := by
      intro i
      generalize (∑ l, B i l * x l) = P
      rw [Finset.mul_sum, Finset.mul_sum]
      apply Finset.sum_congr rfl; intro k _; ring
    simp_rw [e1]
    rw [Finset.sum_comm]
    apply Finset.sum_congr rfl; intro k _
    rw [← Finset.mul_sum]
  exact le_trans (Finset.sum_le_sum (fun i _ => hDle i)) (le_of_eq hE)

/-- the multiplicative g-update WITH smoothing, as pure algebra: for non-negative `a, w, g`, `e ≥ 0`, non-zero
denominators and at least two pixels, chi-square + e·Σ(Δg)² does not increase.  With `P = diag(den/g)` the step is
`δ = -P⁻¹·(half gradient)` and `2P - H = [diag(Qg/g) - Q] + diag(Qg/g) + e·(D + Adj)` is positive semi-definite. -/
theorem nn_smooth_step_le (N m Kc : ℕ) (hm : 1 ≤ m) (s w a g : ℕ → ℕ → K) (e : K) (he : 0 ≤ e)
    (ha : ∀ (i : Fin N) (k : Fin Kc), 0 ≤ a i k) (hw : ∀ i j, 0 ≤ w i j) (hg : ∀ (k : Fin Kc) j, 0 ≤ g k j)
    (x : ℕ → ℕ → K)
    (hx : ∀ (k : Fin Kc) j, j < m + 1 → x k j = g k j *
      (((∑ i : Fin N, a i k * (s i j * w i j))
          + (if j + 1 = m + 1 then e * g k (m + 1 - 2) else if j = 0 then e * g k 1 else e * (g k (j - 1) + g k (j + 1))))
        / ((∑ i : Fin N, a i k * ((∑ l : Fin Kc, a i l * g l j) * w i j))
          + (if 0 < j ∧ j + 1 < m + 1 then e * g k j * 2 else e * g k j))))
    (hden : ∀ (k : Fin Kc) j, j < m + 1 → (∑ i : Fin N, a i k * ((∑ l : Fin Kc, a i l * g l j) * w i j))
          + (if 0 < j ∧ j + 1 < m + 1 then e * g k j * 2 else e * g k j) ≠ 0) :
    (∑ j : Fin (m + 1), Q (fun (i : Fin N) (k : Fin Kc) => a i k) (fun i => w i j) (fun i => s i j) (fun k => x k j))
        + e * ∑ k : Fin Kc, ∑ j ∈ range m, (x k (j + 1) - x k j) ^ 2
      ≤ (∑ j : Fin (m + 1), Q (fun (i : Fin N) (k : Fin Kc) => a i k) (fun i => w i j) (fun i => s i j) (fun k => g k j))
        + e * ∑ k : Fin Kc, ∑ j ∈ range m, (g k (j + 1) - g k j) ^ 2 := by
  -- abbreviations
  set num0 : ℕ → ℕ → K := fun k j => ∑ i : Fin N, a i k * (s i j * w i j) with hnum0
  set den0 : ℕ → ℕ → K := fun k j => ∑ i : Fin N, a i k * ((∑ l : Fin Kc, a i l * g l j) * w i j) with hden0
  set E : ℕ → ℕ → K := fun k j =>
    if j + 1 = m + 1 then e * g k (m + 1 - 2) else if j = 0 then e * g k 1 else e * (g k (j - 1) + g k (j + 1)) with hE
  set D : ℕ → K := fun j => if 0 < j ∧ j + 1 < m + 1 then e * 2 else e with hD
  have hDg : ∀ k j, (if 0 < j ∧ j + 1 < m + 1 then e * g k j * 2 else e * g k j) = D j * g k j := by
    intro k j; simp only [hD]; split_ifs <;> ring
  set t : ℕ → ℕ → K := fun k j => (num0 k j + E k j) / (den0 k j + D j * g k j) - 1 with ht
  set δ : ℕ → ℕ → K := fun k j => g k j * t k j with hδ
  have hx' : ∀ (k : Fin Kc) j, j < m + 1 → x k j = g k j + δ k j := by
    intro k j hj
    rw [hx k j hj, hDg]
    simp only [hδ, ht, hnum0, hden0, hE]; ring
  have hden' : ∀ (k : Fin Kc) j, j < m + 1 → den0 k j + D j * g k j ≠ 0 := by
    intro k j hj; have := hden k j hj; rw [hDg] at this; exact this
  have htd : ∀ (k : Fin Kc) j, j < m + 1 →
      (num0 k j + E k j) - (den0 k j + D j * g k j) = t k j * (den0 k j + D j * g k j) := by
    intro k j hj
    have := hden' k j hj
    simp only [ht]
    field_simp
  have hden0_nonneg : ∀ (k : Fin Kc) (j : Fin (m + 1)), 0 ≤ den0 k j := by
    intro k j
    exact Finset.sum_nonneg (fun i _ => mul_nonneg (ha i k)
      (mul_nonneg (Finset.sum_nonneg (fun l _ => mul_nonneg (ha i l) (hg l j))) (hw i j)))
  -- per column: expansion of chi-square around g
  have hcol : ∀ j : Fin (m + 1),
      Q (fun (i : Fin N) (k : Fin Kc) => a i k) (fun i => w i j) (fun i => s i j) (fun k => x k j)
        ≤ Q (fun (i : Fin N) (k : Fin Kc) => a i k) (fun i => w i j) (fun i => s i j) (fun k => g k j)
          - ∑ k : Fin Kc, g k j * t k j ^ 2 * den0 k j
          - 2 * ∑ k : Fin Kc, D j * δ k j ^ 2
          + 2 * ∑ k : Fin Kc, δ k j * (E k j - D j * g k j) := by
    intro j
    have hxj : (fun k : Fin Kc => x k j) = fun k : Fin Kc => g k j + δ k j := by
      funext k; exact hx' k j j.isLt
    rw [hxj, Q_expand _ _ _ (fun k : Fin Kc => g k j) (fun k : Fin Kc => g k j + δ k j)]
    have hquad : ∑ i : Fin N, w i j * (∑ k : Fin Kc, a i k * (g k j - (g k j + δ k j))) ^ 2
        ≤ ∑ k : Fin Kc, g k j * t k j ^ 2 * den0 k j := by
      have h := cs_quad_le (fun (i : Fin N) (k : Fin Kc) => a i k) (fun i => w i j) (fun k => g k j) (fun k => t k j)
        ha (fun i => hw i j) (fun k => hg k j)
      have e1 : ∀ i : Fin N, (∑ k : Fin Kc, a i k * (g k j - (g k j + δ k j))) ^ 2
          = (∑ k : Fin Kc, a i k * (g k j * t k j)) ^ 2 := by
        intro i
        have : ∑ k : Fin Kc, a i k * (g k j - (g k j + δ k j)) = -∑ k : Fin Kc, a i k * (g k j * t k j) := by
          rw [← Finset.sum_neg_distrib]; apply Finset.sum_congr rfl; intro k _; simp only [hδ]; ring
        rw [this]; ring
      simp_rw [e1]
      refine le_trans h (le_of_eq ?_)
      apply Finset.sum_congr rfl; intro k _
      congr 1
      simp only [hden0]
      apply Finset.sum_congr rfl; intro i _; ring
    have hN : ∀ k : Fin Kc, ∑ i : Fin N, w i j * a i k * (s i j - ∑ l : Fin Kc, a i l * g l j)
        = t k j * (den0 k j + D j * g k j) - E k j + D j * g k j := by
      intro k
      have : ∑ i : Fin N, w i j * a i k * (s i j - ∑ l : Fin Kc, a i l * g l j) = num0 k j - den0 k j := by
        simp only [hnum0, hden0]
        rw [← Finset.sum_sub_distrib]
        apply Finset.sum_congr rfl; intro i _; ring
      rw [this]
      linear_combination htd k j j.isLt
    have hlin : 2 * ∑ k : Fin Kc, (g k j - (g k j + δ k j)) * ∑ i : Fin N, w i j * a i k * (s i j - ∑ l : Fin Kc, a i l * g l j)
        = - 2 * (∑ k : Fin Kc, g k j * t k j ^ 2 * den0 k j) - 2 * (∑ k : Fin Kc, D j * δ k j ^ 2)
          + 2 * ∑ k : Fin Kc, δ k j * (E k j - D j * g k j) := by
      simp_rw [hN]
      rw [Finset.mul_sum, Finset.mul_sum, Finset.mul_sum, Finset.mul_sum, ← Finset.sum_sub_distrib, ← Finset.sum_add_distrib]
      apply Finset.sum_congr rfl; intro k _
      simp only [hδ]; ring
    rw [hlin]
    linarith
  -- the penalty: nodes to edges
  have hnodeE : ∀ k : Fin Kc, ∑ j ∈ range (m + 1), δ k j * (E k j - D j * g k j)
      = -(e * ∑ j ∈ range m, (g k (j + 1) - g k j) * (δ k (j + 1) - δ k j)) := by
    intro k
    have hp := path_nodes_edges m (fun j => e * δ k j * (g k (j + 1) - g k j)) (fun j => e * δ k j * (g k (j - 1) - g k j))
    simp only [Nat.add_sub_cancel] at hp
    have hr : ∑ j ∈ range m, (e * δ k j * (g k (j + 1) - g k j) + e * δ k (j + 1) * (g k j - g k (j + 1)))
        = -(e * ∑ j ∈ range m, (g k (j + 1) - g k j) * (δ k (j + 1) - δ k j)) := by
      rw [Finset.mul_sum, ← Finset.sum_neg_distrib]
      apply Finset.sum_congr rfl; intro j _; ring
    rw [← hr, ← hp]
    apply Finset.sum_congr rfl; intro j hj
    rw [mem_range] at hj
    simp only [hE, hD]
    rcases Nat.eq_zero_or_pos j with h0 | hpos
    · have c1 : ¬ (0 < j ∧ j + 1 < m + 1) := by omega
      have c2 : ¬ (j + 1 = m + 1) := by omega
      have c4 : j + 1 < m + 1 := by omega
      have c5 : ¬ (0 < j) := by omega
      rw [if_neg c1, if_neg c2, if_pos h0, if_pos c4, if_neg c5, h0]
      ring
    · by_cases hlast : j + 1 = m + 1
      · have c1 : ¬ (0 < j ∧ j + 1 < m + 1) := by omega
        have c4 : ¬ (j + 1 < m + 1) := by omega
        have e2 : m + 1 - 2 = j - 1 := by omega
        rw [if_neg c1, if_pos hlast, if_neg c4, if_pos hpos, e2]
        ring
      · have c1 : (0 < j ∧ j + 1 < m + 1) := by omega
        have c3 : ¬ (j = 0) := by omega
        have c4 : j + 1 < m + 1 := by omega
        rw [if_pos c1, if_neg hlast, if_neg c3, if_pos c4, if_pos hpos]
        ring
  have hnodeD : ∀ k : Fin Kc, ∑ j ∈ range (m + 1), D j * δ k j ^ 2
      = e * ∑ j ∈ range m, (δ k j ^ 2 + δ k (j + 1) ^ 2) := by
    intro k
    have hp := path_nodes_edges m (fun j => e * δ k j ^ 2) (fun j => e * δ k j ^ 2)
    have hr : ∑ j ∈ range m, (e * δ k j ^ 2 + e * δ k (j + 1) ^ 2) = e * ∑ j ∈ range m, (δ k j ^ 2 + δ k (j + 1) ^ 2) := by
      rw [Finset.mul_sum]; apply Finset.sum_congr rfl; intro j _; ring
    rw [← hr, ← hp]
    apply Finset.sum_congr rfl; intro j hj
    rw [mem_range] at hj
    simp only [hD]
    rcases Nat.eq_zero_or_pos j with h0 | hpos
    · have c1 : ¬ (0 < j ∧ j + 1 < m + 1) := by omega
      have c4 : j + 1 < m + 1 := by omega
      have c5 : ¬ (0 < j) := by omega
      rw [if_neg c1, if_pos c4, if_neg c5]; ring
    · by_cases hlast : j + 1 = m + 1
      · have c1 : ¬ (0 < j ∧ j + 1 < m + 1) := by omega
        have c4 : ¬ (j + 1 < m + 1) := by omega
        rw [if_neg c1, if_neg c4, if_pos hpos]; ring
      · have c1 : (0 < j ∧ j + 1 < m + 1) := by omega
        have c4 : j + 1 < m + 1 := by omega
        rw [if_pos c1, if_pos c4, if_pos hpos]; ring
  have hpen : ∀ k : Fin Kc, ∑ j ∈ range m, (x k (j + 1) - x k j) ^ 2
      = ∑ j ∈ range m, (g k (j + 1) - g k j) ^ 2 + 2 * ∑ j ∈ range m, (g k (j + 1) - g k j) * (δ k (j + 1) - δ k j)
          + ∑ j ∈ range m, (δ k (j + 1) - δ k j) ^ 2 := by
    intro k
    rw [Finset.mul_sum, ← Finset.sum_add_distrib, ← Finset.sum_add_distrib]
    apply Finset.sum_congr rfl; intro j hj
    rw [mem_range] at hj
    rw [hx' k (j + 1) (by omega), hx' k j (by omega)]; ring
  have hedge : ∀ k : Fin Kc, ∑ j ∈ range m, (δ k (j + 1) - δ k j) ^ 2
      ≤ 2 * ∑ j ∈ range m, (δ k j ^ 2 + δ k (j + 1) ^ 2) := by
    intro k
    rw [Finset.mul_sum]
    apply Finset.sum_le_sum; intro j _
    nlinarith [sq_nonneg (δ k (j + 1) + δ k j)]
  -- totals
  set QX := ∑ j : Fin (m + 1), Q (fun (i : Fin N) (k : Fin Kc) => a i k) (fun i => w i j) (fun i => s i j) (fun k => x k j)
  set QG := ∑ j : Fin (m + 1), Q (fun (i : Fin N) (k : Fin Kc) => a i k) (fun i => w i j) (fun i => s i j) (fun k => g k j)
  set A := ∑ j : Fin (m + 1), ∑ k : Fin Kc, g k j * t k j ^ 2 * den0 k j with hA
  set G := ∑ k : Fin Kc, ∑ j ∈ range m, (g k (j + 1) - g k j) ^ 2 with hG
  set C := ∑ k : Fin Kc, ∑ j ∈ range m, (g k (j + 1) - g k j) * (δ k (j + 1) - δ k j) with hC
  set DD := ∑ k : Fin Kc, ∑ j ∈ range m, (δ k (j + 1) - δ k j) ^ 2 with hDD
  set S := ∑ k : Fin Kc, ∑ j ∈ range m, (δ k j ^ 2 + δ k (j + 1) ^ 2) with hS
  have hA0 : 0 ≤ A :=
    Finset.sum_nonneg (fun j _ => Finset.sum_nonneg (fun k _ =>
      mul_nonneg (mul_nonneg (hg k j) (sq_nonneg _)) (hden0_nonneg k j)))
  have hX : ∑ k : Fin Kc, ∑ j ∈ range m, (x k (j + 1) - x k j) ^ 2 = G + 2 * C + DD := by
    rw [Finset.sum_congr rfl (fun k _ => hpen k), Finset.sum_add_distrib, Finset.sum_add_distrib, ← Finset.mul_sum]
  have hDS : DD ≤ 2 * S := by
    rw [hDD, hS, Finset.mul_sum]
    exact Finset.sum_le_sum (fun k _ => hedge k)
  have hB : ∑ j : Fin (m + 1), ∑ k : Fin Kc, D j * δ k j ^ 2 = e * S := by
    rw [Finset.sum_comm, hS, Finset.mul_sum]
    apply Finset.sum_congr rfl; intro k _
    rw [← hnodeD k, Finset.sum_range]
  have hCe : ∑ j : Fin (m + 1), ∑ k : Fin Kc, δ k j * (E k j - D j * g k j) = -(e * C) := by
    rw [Finset.sum_comm, hC, Finset.mul_sum, ← Finset.sum_neg_distrib]
    apply Finset.sum_congr rfl; intro k _
    rw [← hnodeE k, Finset.sum_range]
  have hsum : QX ≤ QG - A - 2 * (e * S) + 2 * (-(e * C)) := by
    have h := Finset.sum_le_sum (s := Finset.univ) (fun (j : Fin (m + 1)) _ => hcol j)
    rw [Finset.sum_add_distrib, Finset.sum_sub_distrib, Finset.sum_sub_distrib,
      ← Finset.mul_sum _ _ (2 : K), ← Finset.mul_sum _ _ (2 : K), hB, hCe] at h
    exact h
  have heDD : e * DD ≤ e * (2 * S) := mul_le_mul_of_nonneg_left hDS he
  rw [hX]
  nlinarith [hsum, heDD, hA0]
end NNEps
section Ext4
variable {K : Type} [Field K] [LinearOrder K] [IsStrictOrderedRing K] [FloorRing K]
attribute [local instance] fieldScalar
attribute [-instance] Scalar.instOfNat Scalar.instOfScientific

/-- PROPERTY. HMF non-negative mode, `gstepnn` WITH smoothing (epsilon = e > 0, at least two pixels): for non-negative
weights, a non-negative state `(a, g)` and non-zero denominators, ONE multiplicative g-update does not increase
badness = chi-square + e·Σ(g_{k,j+1} - g_{k,j})² (all pixels updated simultaneously from the old neighbours). -/
theorem gstepnn_eps_badness_le (sqrt : K → K) (N M Kc : ℕ) (s w a g : ℕ → ℕ → K) (e : K) (he : 0 < e) (hM : 2 ≤ M)
    (hw : ∀ i j, 0 ≤ w i j) (hsq : ∀ i j, sqrt (w i j) * sqrt (w i j) = w i j)
    (ha : ∀ (i : Fin N) (k : Fin Kc), 0 ≤ a i k) (hg : ∀ (k : Fin Kc) j, 0 ≤ g k j)
    (hden : ∀ (k : Fin Kc) (j : Fin M), (∑ i : Fin N, a i k * ((∑ l : Fin Kc, a i l * g l j) * w i j))
        + (if 0 < (j : ℕ) ∧ (j : ℕ) + 1 < M then e * g k j * 2 else e * g k j) ≠ 0) :
    badness sqrt N M Kc s w a (mget (gstepnn N M Kc s w a g (some e))) (some e)
      ≤ badness sqrt N M Kc s w a g (some e) := by
  have hon : epsOn (some e) = true := by
    simp only [epsOn, scalar_lit, Nat.cast_zero, he, decide_true]
  have hxF : ∀ (k : Fin Kc) (j : Fin M), mget (gstepnn N M Kc s w a g (some e)) k j = g k j *
      (((∑ i : Fin N, a i k * (s i j * w i j))
          + (if (j : ℕ) + 1 = M then e * g k (M - 2) else if (j : ℕ) = 0 then e * g k 1
              else e * (g k (j - 1) + g k (j + 1))))
        / ((∑ i : Fin N, a i k * ((∑ l : Fin Kc, a i l * g l j) * w i j))
          + (if 0 < (j : ℕ) ∧ (j : ℕ) + 1 < M then e * g k j * 2 else e * g k j))) := by
    intro k j
    simp only [gstepnn, mget_mtab_fin, sumN_fin, hmfModel, epsRhs, hon, epsVal, if_true, scalar_lit]
  obtain ⟨m, rfl⟩ : ∃ m, M = m + 1 := ⟨M - 1, by omega⟩
  rw [badness_cols sqrt N (m + 1) Kc s w a _ (some e) hsq, badness_cols sqrt N (m + 1) Kc s w a g (some e) hsq,
    penalty_some, penalty_some]
  simp only [Nat.add_sub_cancel]
  exact nn_smooth_step_le N m Kc (by omega) s w a g e he.le ha hw hg _
    (fun k j hj => hxF k ⟨j, hj⟩) (fun k j hj => hden k ⟨j, hj⟩)
end Ext4

/-! ### HMF.iterate: the block of columns that is kept (`find_contiguous`) -/

def RunOK (M : ℕ) (good : ℕ → Bool) (r : ℕ × ℕ) : Prop :=
  1 ≤ r.2 ∧ r.1 + r.2 ≤ M ∧ ∀ j < r.2, good (r.1 + j) = true

theorem RunOK_mono {M : ℕ} {good : ℕ → Bool} {r : ℕ × ℕ} (h : RunOK M good r) : RunOK (M + 1) good r :=
  ⟨h.1, Nat.le_succ_of_le h.2.1, h.2.2⟩

theorem runsOf_succ (M : ℕ) (good : ℕ → Bool) :
    runsOf (M + 1) good =
      (if good M then
        match (runsOf M good).getLast? with
        | some (st, l) => if M = st + l then (runsOf M good).dropLast ++ [(st, l + 1)] else runsOf M good ++ [(M, 1)]
        | none => [(M, 1)]
      else runsOf M good) := by
  unfold runsOf
  rw [List.range_succ, List.foldl_append]
  rfl

theorem runsOf_ok (M : ℕ) (good : ℕ → Bool) : ∀ r ∈ runsOf M good, RunOK M good r := by
  induction M with
  | zero => intro r hr; simp [runsOf] at hr
  | succ M ih =>
    rw [runsOf_succ]
    split
    · rename_i hg
      split
      · rename_i st l hlast
        obtain ⟨ys, hys⟩ := List.getLast?_eq_some_iff.mp hlast
        have hmem : (st, l) ∈ runsOf M good := by rw [hys]; simp
        have hr0 := ih _ hmem
        split
        · rename_i hM
          intro r hr
          rw [hys, List.dropLast_concat] at hr
          rcases List.mem_append.mp hr with h | h
          · exact RunOK_mono (ih r (by rw [hys]; exact List.mem_append_left _ h))
          · simp only [List.mem_singleton] at h
            subst h
            refine ⟨Nat.succ_le_succ (Nat.zero_le _), by simp only; omega, ?_⟩
            intro j hj
            simp only at hj ⊢
            by_cases hjl : j < l
            · exact hr0.2.2 j hjl
            · have : st + j = M := by omega
              rw [this]; exact hg
        · intro r hr
          rcases List.mem_append.mp hr with h | h
          · exact RunOK_mono (ih r h)
          · simp only [List.mem_singleton] at h
            subst h
            exact ⟨le_refl _, le_refl _, fun j hj => by
              have : j = 0 := by simp only at hj; omega
              subst this; exact hg⟩
      · intro r hr
        simp only [List.mem_singleton] at hr
        subst hr
        exact ⟨le_refl _, le_refl _, fun j hj => by
          have : j = 0 := by simp only at hj; omega
          subst this; exact hg⟩
    · intro r hr
      exact RunOK_mono (ih r hr)

theorem foldl_pick_mem (rs : List (ℕ × ℕ)) (r : ℕ × ℕ) :
    rs.foldl (fun best x => if best.2 < x.2 then x else best) r ∈ r :: rs := by
  induction rs generalizing r with
  | nil => simp
  | cons x xs ih =>
    simp only [List.foldl_cons]
    have := ih (if r.2 < x.2 then x else r)
    by_cases hlt : r.2 < x.2
    · rw [if_pos hlt] at this ⊢
      rcases List.mem_cons.mp this with h | h
      · rw [h]; exact List.mem_cons_of_mem _ List.mem_cons_self
      · exact List.mem_cons_of_mem _ (List.mem_cons_of_mem _ h)
    · rw [if_neg hlt] at this ⊢
      rcases List.mem_cons.mp this with h | h
      · rw [h]; exact List.mem_cons_self
      · exact List.mem_cons_of_mem _ (List.mem_cons_of_mem _ h)

theorem foldl_pick_max (rs : List (ℕ × ℕ)) (r : ℕ × ℕ) :
    ∀ y ∈ r :: rs, y.2 ≤ (rs.foldl (fun best x => if best.2 < x.2 then x else best) r).2 := by
  induction rs generalizing r with
  | nil => intro y hy; simp at hy; subst hy; exact le_refl _
  | cons x xs ih =>
    intro y hy
    simp only [List.foldl_cons]
    have h1 := ih (if r.2 < x.2 then x else r)
    have hbase : r.2 ≤ (if r.2 < x.2 then x else r).2 ∧ x.2 ≤ (if r.2 < x.2 then x else r).2 := by
      split <;> constructor <;> omega
    have hself := h1 _ (List.mem_cons_self)
    rcases List.mem_cons.mp hy with h | h
    · subst h; exact le_trans hbase.1 hself
    · rcases List.mem_cons.mp h with h | h
      · subst h; exact le_trans hbase.2 hself
      · exact h1 y (List.mem_cons_of_mem _ h)

/-- PROPERTY. `find_contiguous` (zero-column removal of `HMF.iterate`): the block it returns is non-empty, lies inside
the range, consists of good columns only, and no run of consecutive good columns recorded by the scan is longer. -/
theorem findContiguous_block (M : ℕ) (good : ℕ → Bool) (c0 len : ℕ) (h : findContiguous M good = some (c0, len)) :
    1 ≤ len ∧ c0 + len ≤ M ∧ (∀ j < len, good (c0 + j) = true) ∧ ∀ r ∈ runsOf M good, r.2 ≤ len := by
  unfold findContiguous at h
  split at h
  · exact absurd h (by simp)
  · rename_i r rs hruns
    simp only [Option.some.injEq] at h
    have hmem := foldl_pick_mem rs r
    have hmax := foldl_pick_max rs r
    rw [h] at hmem hmax
    rw [← hruns] at hmem hmax
    have := runsOf_ok M good _ hmem
    exact ⟨this.1, this.2.1, this.2.2, fun y hy => hmax y hy⟩

/-! #### extension 2: the scan finds ALL maximal runs - the block is the first longest one -/

/-- two recorded runs are separated by at least one column -/
def Sep (a b : ℕ × ℕ) : Prop := a.1 + a.2 < b.1

theorem runsOf_sep (M : ℕ) (good : ℕ → Bool) : (runsOf M good).Pairwise Sep := by
  induction M with
  | zero => simp [runsOf]
  | succ M ih =>
    rw [runsOf_succ]
    split
    · split
      · rename_i st l hlast
        obtain ⟨ys, hys⟩ := List.getLast?_eq_some_iff.mp hlast
        have hok := runsOf_ok M good
        rw [hys] at ih hok ⊢
        have ih' := List.pairwise_append.mp ih
        split
        · rw [List.dropLast_concat, List.pairwise_append]
          refine ⟨ih'.1, List.pairwise_singleton _ _, ?_⟩
          intro a ha b hb
          simp only [List.mem_singleton] at hb; subst hb
          exact ih'.2.2 a ha (st, l) (by simp)
        · rename_i hne
          rw [List.pairwise_append]
          refine ⟨ih, List.pairwise_singleton _ _, ?_⟩
          intro a ha b hb
          simp only [List.mem_singleton] at hb; subst hb
          have hl := (hok (st, l) (by simp)).2.1
          rcases List.mem_append.mp ha with h | h
          · have := ih'.2.2 a h (st, l) (by simp)
            unfold Sep at *; simp only at *; omega
          · simp only [List.mem_singleton] at h; subst h
            unfold Sep; simp only at *; omega
      · simp
    · exact ih

/-- every run of consecutive good columns below `M` lies inside ONE run recorded by the scan -/
theorem runsOf_cover (M : ℕ) (good : ℕ → Bool) (st l : ℕ) (hl : 1 ≤ l) (hM : st + l ≤ M)
    (hg : ∀ j < l, good (st + j) = true) : ∃ r ∈ runsOf M good, r.1 ≤ st ∧ st + l ≤ r.1 + r.2 := by
  induction M generalizing st l with
  | zero => omega
  | succ M ih =>
    have hsep := runsOf_sep M good
    have hok := runsOf_ok M good
    rw [runsOf_succ]
    by_cases hin : st + l ≤ M
    · -- the run lies below M: the recorded run that contains it is kept or extended
      obtain ⟨r, hr, h1, h2⟩ := ih st l hl hin hg
      split
      · split
        · rename_i st' l' hlast
          obtain ⟨ys, hys⟩ := List.getLast?_eq_some_iff.mp hlast
          split
          · rw [hys] at hr ⊢
            rw [List.dropLast_concat]
            rcases List.mem_append.mp hr with h | h
            · exact ⟨r, List.mem_append_left _ h, h1, h2⟩
            · simp only [List.mem_singleton] at h; subst h
              exact ⟨(st', l' + 1), by simp, h1, by simp only at h2 ⊢; omega⟩
          · exact ⟨r, List.mem_append_left _ hr, h1, h2⟩
        · rename_i hnone
          simp only [List.getLast?_eq_none_iff] at hnone
          rw [hnone] at hr; simp at hr
      · exact ⟨r, hr, h1, h2⟩
    · -- the run ends at column M
      have hend : st + l = M + 1 := by omega
      have hgM : good M = true := by
        have := hg (l - 1) (by omega)
        have e : st + (l - 1) = M := by omega
        rwa [e] at this
      rw [if_pos hgM]
      by_cases hl1 : l = 1
      · subst hl1
        have hst : st = M := by omega
        subst hst
        split
        · rename_i st' l' hlast
          obtain ⟨ys, hys⟩ := List.getLast?_eq_some_iff.mp hlast
          split
          · rename_i hM'
            exact ⟨(st', l' + 1), by simp, by simp only; omega, by simp only; omega⟩
          · exact ⟨(st, 1), by simp, le_refl _, le_refl _⟩
        · exact ⟨(st, 1), by simp, le_refl _, le_refl _⟩
      · obtain ⟨r, hr, h1, h2⟩ := ih st (l - 1) (by omega) (by omega) (fun j hj => hg j (by omega))
        have hrok := hok r hr
        have hrend : r.1 + r.2 = M := by have := hrok.2.1; omega
        split
        · rename_i st' l' hlast
          obtain ⟨ys, hys⟩ := List.getLast?_eq_some_iff.mp hlast
          have hlok := (hok (st', l') (by rw [hys]; simp)).2.1
          have hrlast : r = (st', l') := by
            rw [hys] at hr hsep
            rcases List.mem_append.mp hr with h | h
            · have := (List.pairwise_append.mp hsep).2.2 r h (st', l') (by simp)
              unfold Sep at this; simp only at this hlok; omega
            · simpa using h
          subst hrlast
          simp only at hrend h1 h2
          rw [if_pos hrend.symm]
          exact ⟨(st', l' + 1), by simp, h1, by simp only; omega⟩
        · rename_i hnone
          simp only [List.getLast?_eq_none_iff] at hnone
          rw [hnone] at hr; simp at hr

theorem foldl_pick_first (rs : List (ℕ × ℕ)) (r : ℕ × ℕ) (hp : (r :: rs).Pairwise (fun a b => a.1 < b.1)) :
    ∀ y ∈ r :: rs, y.2 = (rs.foldl (fun best x => if best.2 < x.2 then x else best) r).2 →
      (rs.foldl (fun best x => if best.2 < x.2 then x else best) r).1 ≤ y.1 := by
  induction rs generalizing r with
  | nil => intro y hy _; simp at hy; subst hy; exact le_refl _
  | cons x xs ih =>
    intro y hy hy2
    simp only [List.foldl_cons] at hy2 ⊢
    have hpx : (x :: xs).Pairwise (fun a b => a.1 < b.1) := (List.pairwise_cons.mp hp).2
    have hpr : (r :: xs).Pairwise (fun a b => a.1 < b.1) := by
      rw [List.pairwise_cons] at hp ⊢
      exact ⟨fun a ha => hp.1 a (List.mem_cons_of_mem _ ha), (List.pairwise_cons.mp hp.2).2⟩
    have hrx : r.1 < x.1 := (List.pairwise_cons.mp hp).1 x List.mem_cons_self
    by_cases hlt : r.2 < x.2
    · rw [if_pos hlt] at hy2 ⊢
      have hmax := foldl_pick_max xs x x List.mem_cons_self
      rcases List.mem_cons.mp hy with h | h
      · subst h; omega
      · exact ih x hpx y h hy2
    · rw [if_neg hlt] at hy2 ⊢
      have hmax := foldl_pick_max xs r r List.mem_cons_self
      rcases List.mem_cons.mp hy with h | h
      · subst h; exact ih y hpr y List.mem_cons_self hy2
      · rcases List.mem_cons.mp h with h | h
        · subst h
          have := ih r hpr r List.mem_cons_self (by omega)
          omega
        · exact ih r hpr y (List.mem_cons_of_mem _ h) hy2

/-- PROPERTY. `find_contiguous` returns A LONGEST run of consecutive good columns, and among the longest the FIRST one:
the returned block `[c0, c0+len)` is non-empty, in range and all good; EVERY block `[st, st+l)` of good columns inside the
range has `l ≤ len`; and a block of the same length `len` starts at `st ≥ c0` (`lengths.index(max(lengths))` = first maximum).
By induction over the scan (`runsOf_cover`: every good block lies inside one recorded run; `runsOf_sep`: recorded runs are
separated and in increasing order). -/
theorem findContiguous_longest_first (M : ℕ) (good : ℕ → Bool) (c0 len : ℕ) (h : findContiguous M good = some (c0, len)) :
    1 ≤ len ∧ c0 + len ≤ M ∧ (∀ j < len, good (c0 + j) = true) ∧
    ∀ st l, st + l ≤ M → (∀ j < l, good (st + j) = true) → l ≤ len ∧ (l = len → c0 ≤ st) := by
  have hb := findContiguous_block M good c0 len h
  refine ⟨hb.1, hb.2.1, hb.2.2.1, ?_⟩
  intro st l hM hg
  by_cases hl : l = 0
  · subst hl; exact ⟨Nat.zero_le _, fun h0 => by omega⟩
  obtain ⟨r, hr, h1, h2⟩ := runsOf_cover M good st l (by omega) hM hg
  have hrl := hb.2.2.2 r hr
  refine ⟨by omega, fun hll => ?_⟩
  have hr1 : r.1 = st := by omega
  have hr2 : r.2 = len := by omega
  unfold findContiguous at h
  split at h
  · exact absurd h (by simp)
  · rename_i r0 rs hruns
    simp only [Option.some.injEq] at h
    have hsort : (r0 :: rs).Pairwise (fun a b => a.1 < b.1) := by
      rw [← hruns]
      exact (runsOf_sep M good).imp (fun {a b} hab => by unfold Sep at hab; omega)
    have := foldl_pick_first rs r0 hsort r (by rw [← hruns]; exact hr) (by rw [h]; exact hr2)
    rw [h] at this
    simp only at this
    omega

/-- `find_contiguous` raises (no block) exactly when no column is good -/
theorem findContiguous_none_iff (M : ℕ) (good : ℕ → Bool) :
    findContiguous M good = none ↔ ∀ j < M, good j = false := by
  constructor
  · intro h j hj
    by_contra hgj
    have hgj' : good j = true := by simpa using hgj
    obtain ⟨r, hr, _, _⟩ := runsOf_cover M good j 1 (le_refl _) (by omega) (fun i hi => by
      have : i = 0 := by omega
      subst this; exact hgj')
    unfold findContiguous at h
    split at h
    · rename_i hnil; rw [hnil] at hr; simp at hr
    · simp at h
  · intro h
    unfold findContiguous
    split
    · rfl
    · rename_i r rs hruns
      have hok := runsOf_ok M good r (by rw [hruns]; simp)
      have := hok.2.2 0 (by have := hok.1; omega)
      have h2 := h (r.1 + 0) (by have := hok.1; have := hok.2.1; omega)
      rw [h2] at this; simp at this


/-- PROPERTY. `HMF.iterate` with zero-column removal: when it returns, the block of columns it worked on is non-empty,
lies inside the input range and contains no zero column (no column whose spectra / invvar / spectra·invvar sum is
exactly zero, after the clamp of the non-negative mode); the factors are those of `iterate` on that block. -/
theorem iterateCols_block {α : Type} [Scalar α] (sqrt : α → α) (solve : Mat α → Vec α → Vec α) (eigh : Mat α → Eig α)
    (N M Kc nIter nnPre : ℕ) (s0 w g0 : ℕ → ℕ → α) (nonneg : Bool) (eps : Option α) (r : HmfOut α)
    (h : iterateCols sqrt solve eigh N M Kc nIter nnPre s0 w g0 nonneg eps = .ok r) :
    1 ≤ r.ncol ∧ r.col0 + r.ncol ≤ M ∧
    (∀ j < r.ncol, zeroCol N (fun i j => if nonneg then (if s0 i j < 0 then 0 else s0 i j) else s0 i j) w (r.col0 + j) = false) ∧
    (r.a, r.g) = iterate sqrt solve eigh N r.ncol Kc nIter nnPre
      (fun i j => (if nonneg then (if s0 i (r.col0 + j) < 0 then 0 else s0 i (r.col0 + j)) else s0 i (r.col0 + j)))
      (fun i j => w i (r.col0 + j)) g0 nonneg eps := by
  unfold iterateCols at h
  dsimp only at h
  split at h
  · exact absurd h (by simp)
  · rename_i c0 M' hfc
    simp only [Except.ok.injEq] at h
    subst h
    have hb := findContiguous_block M _ c0 M' hfc
    refine ⟨hb.1, hb.2.1, fun j hj => ?_, rfl⟩
    have := hb.2.2.1 j hj
    simpa using this


/-- PROPERTY. `HMF.iterate` with zero-column removal keeps the FIRST LONGEST block of columns that are not zero columns:
every block `[st, st+l)` of non-zero columns inside the range has `l ≤ ncol`, and one of the same length starts at or
after `col0`; and it raises (ValueError) exactly when every column is a zero column. -/
theorem iterateCols_block_longest {α : Type} [Scalar α] (sqrt : α → α) (solve : Mat α → Vec α → Vec α) (eigh : Mat α → Eig α)
    (N M Kc nIter nnPre : ℕ) (s0 w g0 : ℕ → ℕ → α) (nonneg : Bool) (eps : Option α) :
    (∀ r, iterateCols sqrt solve eigh N M Kc nIter nnPre s0 w g0 nonneg eps = .ok r →
      ∀ st l, st + l ≤ M →
        (∀ j < l, zeroCol N (fun i j => if nonneg then (if s0 i j < 0 then 0 else s0 i j) else s0 i j) w (st + j) = false) →
        l ≤ r.ncol ∧ (l = r.ncol → r.col0 ≤ st)) ∧
    ((∃ e, iterateCols sqrt solve eigh N M Kc nIter nnPre s0 w g0 nonneg eps = .error e) ↔
      ∀ j < M, zeroCol N (fun i j => if nonneg then (if s0 i j < 0 then 0 else s0 i j) else s0 i j) w j = true) := by
  constructor
  · intro r h st l hM hz
    unfold iterateCols at h
    dsimp only at h
    split at h
    · exact absurd h (by simp)
    · rename_i c0 M' hfc
      simp only [Except.ok.injEq] at h
      subst h
      exact (findContiguous_longest_first M _ c0 M' hfc).2.2.2 st l hM (fun j hj => by simp [hz j hj])
  · have hn := findContiguous_none_iff M
      (fun j => !(zeroCol N (fun i j => if nonneg then (if s0 i j < 0 then 0 else s0 i j) else s0 i j) w j))
    constructor
    · rintro ⟨e, h⟩
      unfold iterateCols at h
      dsimp only at h
      split at h
      · rename_i hfc
        intro j hj
        have := hn.mp hfc j hj
        simpa using this
      · exact absurd h (by simp)
    · intro hall
      have hfc := hn.mpr (fun j hj => by simp [hall j hj])
      refine ⟨"ValueError", ?_⟩
      unfold iterateCols
      dsimp only
      rw [hfc]

/-! ### extension 2: single spectrum as a vector; fewer k-means centroids than K -/

/-- PROPERTY. pca_solve with a one-dimensional `newflux` (single spectrum): it returns exactly when `newivar` is
two-dimensional and its row 0 has a non-zero entry, and then the result is the flux itself, pixel by pixel; a
one-dimensional `newivar` is refused with IndexError, a row 0 without good pixel with ValueError. -/
theorem pcaSolveVec_spec {α : Type} [Scalar α] (npix ivarDim : ℕ) (flux : ℕ → α) (ivar : ℕ → ℕ → α) :
    (ivarDim = 1 → pcaSolveVec npix ivarDim flux ivar = .error "IndexError") ∧
    (ivarDim ≠ 1 → firstNonzero npix (ivar 0) = npix → pcaSolveVec npix ivarDim flux ivar = .error "ValueError") ∧
    (ivarDim ≠ 1 → firstNonzero npix (ivar 0) ≠ npix →
      ∃ f, pcaSolveVec npix ivarDim flux ivar = .ok (.single f) ∧ ∀ p < npix, vget f p = flux p) := by
  refine ⟨fun h => by simp [pcaSolveVec, h], fun h h2 => by simp [pcaSolveVec, h, h2], fun h h2 => ?_⟩
  exact ⟨vtab npix flux, by simp [pcaSolveVec, h, h2], fun p hp => Solvers.vget_vtab npix flux p hp⟩

/-- PROPERTY. HMF.iterate when k-means returned `Kg` centroids: with `Kg = K` it is `iterate` (all theorems about
`iterate` apply); with `Kg ≠ K` it returns ONLY when no update is ever run (`n_iter = 0` and no non-negative
pre-iteration), and then `a` is the flat `N × K` start and `g` the `Kg` normalised centroids; otherwise ValueError. -/
theorem iterateKg_spec {α : Type} [Scalar α] (sqrt : α → α) (solve : Mat α → Vec α → Vec α) (eigh : Mat α → Eig α)
    (N M Kc Kg nIter nnPre : ℕ) (s0 w g0 : ℕ → ℕ → α) (nonneg : Bool) (eps : Option α) :
    (Kg = Kc → iterateKg sqrt solve eigh N M Kc Kg nIter nnPre s0 w g0 nonneg eps
      = .ok (iterate sqrt solve eigh N M Kc nIter nnPre s0 w g0 nonneg eps)) ∧
    (Kg ≠ Kc → ((nonneg = true ∧ 0 < nnPre) ∨ 0 < nIter) →
      iterateKg sqrt solve eigh N M Kc Kg nIter nnPre s0 w g0 nonneg eps = .error "ValueError") ∧
    (Kg ≠ Kc → ¬ (nonneg = true ∧ 0 < nnPre) → nIter = 0 →
      ∃ r, iterateKg sqrt solve eigh N M Kc Kg nIter nnPre s0 w g0 nonneg eps = .ok r ∧
        r.1.size = N ∧ r.2.size = Kg ∧
        (∀ k < Kg, ∀ j < M, mget r.2 k j = g0 k j / vget (normbase sqrt Kg M g0) k)) := by
  refine ⟨fun h => by simp [iterateKg, h], fun h h2 => ?_, fun h h2 h3 => ?_⟩
  · unfold iterateKg
    rw [if_neg h]
    rcases h2 with h2 | h2
    · simp [h2.1, h2.2]
    · by_cases h4 : (nonneg && decide (0 < nnPre)) = true
      · rw [if_pos h4]
      · rw [if_neg h4, if_pos h2]
  · have h4 : ¬ ((nonneg && decide (0 < nnPre)) = true) := by
      simpa using h2
    unfold iterateKg
    rw [if_neg h, if_neg h4, if_neg (by omega)]
    refine ⟨_, rfl, by simp [mtab], by simp [mtab], fun k hk j hj => ?_⟩
    exact Solvers.mget_mtab Kg M _ k j hk hj

/-! ## non-vacuity: the contracts are satisfiable on concrete inputs (over ℚ) -/
section Examples
attribute [local instance] fieldScalar
attribute [-instance] Scalar.instOfNat Scalar.instOfScientific PydlVerif.instScalarRat

/-- two points, one parameter: `A = (1,1)ᵀ`, `b = (1,3)`, unit weights; `mm = (2)`, its SVD is `1·2·1` -/
def exSvd : Mat ℚ → Svd ℚ := fun _ => ⟨#[#[1]], #[2], #[#[1]]⟩
def exB : ℕ → ℚ := fun i => if i = 0 then 1 else 3

example : MulEqOne 1 (computechi2 exSvd 2 1 exB (fun _ => 1) (fun _ _ => 1)).mm
    (computechi2 exSvd 2 1 exB (fun _ => 1) (fun _ _ => 1)).mmi := by
  intro k l
  have hk : k = 0 := Subsingleton.elim _ _
  have hl : l = 0 := Subsingleton.elim _ _
  subst hk; subst hl
  simp [-scalar_lit, computechi2, pinvOfSvd, exSvd, sumN_fin, mget, vget, mtab, vtab, Fin.sum_univ_two]

example : SpectralSvd 1 (computechi2 exSvd 2 1 exB (fun _ => 1) (fun _ _ => 1)).mm
    (exSvd (computechi2 exSvd 2 1 exB (fun _ => 1) (fun _ _ => 1)).mm) := by
  constructor
  · intro t
    have ht : t = 0 := Subsingleton.elim _ _
    subst ht; simp [-scalar_lit, exSvd, vget]
  · intro t u
    have ht : t = 0 := Subsingleton.elim _ _
    have hu : u = 0 := Subsingleton.elim _ _
    subst ht; subst hu; simp [-scalar_lit, exSvd, mget]
  · intro t u
    have ht : t = 0 := Subsingleton.elim _ _
    have hu : u = 0 := Subsingleton.elim _ _
    subst ht; subst hu; simp [-scalar_lit, exSvd, mget]
  · intro t u
    have ht : t = 0 := Subsingleton.elim _ _
    have hu : u = 0 := Subsingleton.elim _ _
    subst ht; subst hu
    simp [-scalar_lit, computechi2, exSvd, sumN_fin, mget, vget, mtab, vtab, Fin.sum_univ_two]

/-- one component, one spectrum with two pixels `s = (1, 3)`, `g = (1, 1)`, unit weights: the 1×1 solve `x = F/G` -/
noncomputable def exSolve : Mat ℚ → Vec ℚ → Vec ℚ := fun G F => #[vget F 0 / mget G 0 0]

example : ∀ i : Fin 1, Solves 1 (astepMat 2 1 (fun _ _ => (1 : ℚ)) (fun _ _ => 1) i)
    (astepRhs 2 1 (fun _ j => exB j) (fun _ _ => 1) (fun _ _ => 1) i)
    (exSolve (astepMat 2 1 (fun _ _ => (1 : ℚ)) (fun _ _ => 1) i)
      (astepRhs 2 1 (fun _ j => exB j) (fun _ _ => 1) (fun _ _ => 1) i)) := by
  intro i k
  have hk : k = 0 := Subsingleton.elim _ _
  subst hk
  simp [-scalar_lit, exSolve, astepMat, astepRhs, exB, sumN_fin, mget, vget, mtab, vtab, Fin.sum_univ_two]
  norm_num

example : ∀ j : Fin 2, Solves 1 (gstepMat 1 2 1 (fun _ _ => (1 : ℚ)) (fun _ _ => 1) none j)
    (gstepRhs 1 2 1 (fun _ j => exB j) (fun _ _ => 1) (fun _ _ => 1) (fun _ _ => 1) none j)
    (exSolve (gstepMat 1 2 1 (fun _ _ => (1 : ℚ)) (fun _ _ => 1) none j)
      (gstepRhs 1 2 1 (fun _ j => exB j) (fun _ _ => 1) (fun _ _ => 1) (fun _ _ => 1) none j)) := by
  intro j k
  have hk : k = 0 := Subsingleton.elim _ _
  subst hk
  simp [-scalar_lit, exSolve, gstepMat, gstepRhs, epsDiag, epsRhs, epsOn, exB, sumN_fin, mget, vget, mtab, vtab]

/-- the solve contract of the g-step WITH smoothing (epsilon = 1) is satisfiable: hypotheses of `gstep_eps_badness_le` -/
example : ∀ j : Fin 2, Solves 1 (gstepMat 1 2 1 (fun _ _ => (1 : ℚ)) (fun _ _ => 1) (some 1) j)
    (gstepRhs 1 2 1 (fun _ j => exB j) (fun _ _ => 1) (fun _ _ => 1) (fun _ _ => 1) (some 1) j)
    (exSolve (gstepMat 1 2 1 (fun _ _ => (1 : ℚ)) (fun _ _ => 1) (some 1) j)
      (gstepRhs 1 2 1 (fun _ j => exB j) (fun _ _ => 1) (fun _ _ => 1) (fun _ _ => 1) (some 1) j)) := by
  intro j k
  have hk : k = 0 := Subsingleton.elim _ _
  subst hk
  fin_cases j <;>
    simp [-scalar_lit, exSolve, gstepMat, gstepRhs, epsDiag, epsRhs, epsOn, epsVal, exB, sumN_fin, mget, vget, mtab, vtab] <;>
    norm_num

/-- the `eigh` contract holds for the 2×2 matrix diag(3, 1) with the identity as eigenvectors -/
example : EighOK 2 (#[#[3, 0], #[0, 1]] : Mat ℚ) ⟨#[3, 1], #[#[1, 0], #[0, 1]]⟩ := by
  constructor <;> intro i j <;> fin_cases i <;> fin_cases j <;>
    simp [-scalar_lit, mget, vget, Fin.sum_univ_two]

/-- the docstring example of `find_contiguous`: `[0,1,1,1,0,1,1,0,1]` gives `[1, 2, 3]`; of two runs of equal
length the first is kept -/
example : findContiguous 9 (fun k => #[false, true, true, true, false, true, true, false, true][k]!) = some (1, 3) := by
  decide
example : findContiguous 5 (fun k => #[true, true, false, true, true][k]!) = some (0, 2) := by decide
example : findContiguous 3 (fun _ => false) = none := by decide
/-- the hypotheses of `astepnn_badness_le` / `gstepnn_badness_le` hold on a concrete state (all entries 1, N = 1, M = 2, K = 1):
the denominators are 2 resp. 1 -/
example : ∀ (i : Fin 1) (k : Fin 1), (∑ j : Fin 2, (∑ l : Fin 1, ((fun _ _ => (1 : ℚ)) : ℕ → ℕ → ℚ) i l * ((fun _ _ => (1 : ℚ)) : ℕ → ℕ → ℚ) l j)
    * ((fun _ _ => (1 : ℚ)) : ℕ → ℕ → ℚ) i j * ((fun _ _ => (1 : ℚ)) : ℕ → ℕ → ℚ) k j) ≠ 0 := by
  intro i k; norm_num

end Examples

namespace Dummy
section

end
end Dummy
end PydlVerif.C15

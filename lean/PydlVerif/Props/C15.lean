/-
C15 property theorems: the least-squares / factorisation solvers return the
optimum they claim.  Model: PydlVerif/Model/Solvers.lean; bridging lemmas:
PydlVerif/Lemmas/SolversLemmas.lean; weighted least squares: Lemmas/Lsq.lean.
All theorems are over an arbitrary linearly ordered field `K` (the `Scalar`
interpretation `fieldScalar K`); LAPACK / libm kernels are parameters whose
contracts appear as hypotheses.  Helper lemmas first, property theorems
(listed in harness/props/c15.py) are marked "PROPERTY".
-/
import PydlVerif.Lemmas.SolversLemmas
import Mathlib.Data.Rat.Floor
import Mathlib.Tactic.NormNum
import Mathlib.Tactic.FinCases
open Finset
namespace PydlVerif.C15
open PydlVerif PydlVerif.Solvers PydlVerif.Lsq
section
variable {K : Type} [Field K] [LinearOrder K] [IsStrictOrderedRing K] [FloorRing K]
attribute [local instance] fieldScalar
-- numerals in the statements below are the field's own (the model's numerals keep `Scalar.instOfNat`)
attribute [-instance] Scalar.instOfNat Scalar.instOfScientific

/-! ## helpers -/

/-- `A · B = 1` on `m × m` arrays -/
def MulEqOne (m : ℕ) (A B : Mat K) : Prop :=
  ∀ k l : Fin m, ∑ j : Fin m, mget A k j * mget B j l = if k = l then 1 else 0

/-- `x` solves `G x = F` (contract of `numpy.linalg.solve` on this system) -/
def Solves (m : ℕ) (G : Mat K) (F x : Vec K) : Prop :=
  ∀ k : Fin m, ∑ l : Fin m, mget G k l * vget x l = vget F k

/-- a solution of `G c = F` with `G = AᵀWA`, `F = AᵀWy` satisfies the normal equations -/
theorem normal_of_solves {n m : ℕ} (Af : Fin n → Fin m → K) (w y : Fin n → K)
    (G : Fin m → Fin m → K) (F c : Fin m → K)
    (hG : ∀ k l, G k l = ∑ i, w i * Af i k * Af i l) (hF : ∀ k, F k = ∑ i, w i * Af i k * y i)
    (hs : ∀ k, ∑ l, G k l * c l = F k) : Normal Af w y c := by
  intro k
  have e : ∀ i, w i * Af i k * (y i - ∑ j, Af i j * c j)
      = w i * Af i k * y i - ∑ j, (w i * Af i k * Af i j) * c j := by
    intro i
    rw [mul_sub, Finset.mul_sum]
    congr 1
    apply Finset.sum_congr rfl; intros; ring
  simp_rw [e]
  rw [Finset.sum_sub_distrib, Finset.sum_comm]
  simp_rw [← Finset.sum_mul, ← hG, ← hF]
  rw [hs k]; ring

theorem sum_delta {m : ℕ} (k : Fin m) (f : Fin m → K) : ∑ l, (if k = l then (1 : K) else 0) * f l = f k := by
  simp

theorem solves_of_inverse {m : ℕ} (G Gi : Fin m → Fin m → K) (F c : Fin m → K)
    (hc : ∀ k, c k = ∑ l, Gi k l * F l)
    (hinv : ∀ k l, ∑ j, G k j * Gi j l = if k = l then 1 else 0) (k : Fin m) :
    ∑ l, G k l * c l = F k := by
  simp_rw [hc, Finset.mul_sum]
  rw [Finset.sum_comm]
  simp_rw [← mul_assoc, ← Finset.sum_mul, hinv k]
  exact sum_delta k F

/-! ## computechi2 -/

theorem chi2_mm (svd : Mat K → Svd K) (n m : ℕ) (b sq : ℕ → K) (A : ℕ → ℕ → K) (k l : Fin m) :
    mget (computechi2 svd n m b sq A).mm k l = ∑ i : Fin n, (A i k * sq i) * (A i l * sq i) := by
  simp only [computechi2, sumN_fin, mget_mtab_fin, vget_vtab_fin]

theorem chi2_acoeff (svd : Mat K → Svd K) (n m : ℕ) (b sq : ℕ → K) (A : ℕ → ℕ → K) (k : Fin m) :
    vget (computechi2 svd n m b sq A).acoeff k =
      ∑ c : Fin m, mget (computechi2 svd n m b sq A).mmi k c * ∑ i : Fin n, (A i c * sq i) * (b i * sq i) := by
  simp only [computechi2, sumN_fin, mget_mtab_fin, vget_vtab_fin]

theorem chi2_chi2 (svd : Mat K → Svd K) (n m : ℕ) (b sq : ℕ → K) (A : ℕ → ℕ → K) :
    (computechi2 svd n m b sq A).chi2 =
      ∑ i : Fin n, ((∑ k : Fin m, (A i k * sq i) * vget (computechi2 svd n m b sq A).acoeff k) - b i * sq i) *
        ((∑ k : Fin m, (A i k * sq i) * vget (computechi2 svd n m b sq A).acoeff k) - b i * sq i) := by
  simp only [computechi2, sumN_fin, mget_mtab_fin, vget_vtab_fin]

theorem chi2_yfit (svd : Mat K → Svd K) (n m : ℕ) (b sq : ℕ → K) (A : ℕ → ℕ → K) (i : Fin n) :
    vget (computechi2 svd n m b sq A).yfit i = ∑ k : Fin m, A i k * vget (computechi2 svd n m b sq A).acoeff k := by
  simp only [computechi2, sumN_fin, mget_mtab_fin, vget_vtab_fin]

/-- PROPERTY. computechi2: if the pseudo-inverse computed from the SVD is the inverse of the weighted
normal matrix (`mm · mmi = 1`, the full-rank contract), then the returned coefficients satisfy the
normal equations `Aᵀ W (b - A x) = 0` with `W = sqivar²`, hence minimise the weighted chi-square over
ALL coefficient vectors; `chi2` is that minimum and `yfit = A x`. -/
theorem chi2_optimum (svd : Mat K → Svd K) (n m : ℕ) (b sq : ℕ → K) (A : ℕ → ℕ → K)
    (hinv : MulEqOne m (computechi2 svd n m b sq A).mm (computechi2 svd n m b sq A).mmi) :
    Normal (fun (i : Fin n) (k : Fin m) => A i k) (fun i => sq i * sq i) (fun i => b i)
        (fun k => vget (computechi2 svd n m b sq A).acoeff k) ∧
    (∀ z : Fin m → K,
      Q (fun (i : Fin n) (k : Fin m) => A i k) (fun i => sq i * sq i) (fun i => b i)
        (fun k => vget (computechi2 svd n m b sq A).acoeff k)
      ≤ Q (fun (i : Fin n) (k : Fin m) => A i k) (fun i => sq i * sq i) (fun i => b i) z) ∧
    (computechi2 svd n m b sq A).chi2 =
      Q (fun (i : Fin n) (k : Fin m) => A i k) (fun i => sq i * sq i) (fun i => b i)
        (fun k => vget (computechi2 svd n m b sq A).acoeff k) ∧
    ∀ i : Fin n, vget (computechi2 svd n m b sq A).yfit i
      = ∑ k : Fin m, A i k * vget (computechi2 svd n m b sq A).acoeff k := by
  have hN : Normal (fun (i : Fin n) (k : Fin m) => A i k) (fun i => sq i * sq i) (fun i => b i)
      (fun k => vget (computechi2 svd n m b sq A).acoeff k) := by
    apply normal_of_solves _ _ _ (fun k l => mget (computechi2 svd n m b sq A).mm k l)
      (fun k => ∑ i : Fin n, (A i k * sq i) * (b i * sq i))
    · intro k l; rw [chi2_mm]; apply Finset.sum_congr rfl; intros; ring
    · intro k; apply Finset.sum_congr rfl; intros; ring
    · exact solves_of_inverse _ (fun k l => mget (computechi2 svd n m b sq A).mmi k l) _ _
        (fun k => chi2_acoeff svd n m b sq A k) hinv
  refine ⟨hN, fun z => lsq_optimum _ _ _ _ z (fun i => mul_self_nonneg _) hN, ?_, chi2_yfit svd n m b sq A⟩
  rw [chi2_chi2]
  unfold Q
  apply Finset.sum_congr rfl
  intro i _
  have : ∑ k : Fin m, (A i k * sq i) * vget (computechi2 svd n m b sq A).acoeff k
      = sq i * ∑ k : Fin m, A i k * vget (computechi2 svd n m b sq A).acoeff k := by
    rw [Finset.mul_sum]; apply Finset.sum_congr rfl; intros; ring
  rw [this]; ring

/-- the contract on `svd` used for the covariance: for the symmetric positive definite normal matrix
the decomposition is the spectral one, `mm = vvᵀ · diag ww · vv` with orthogonal `vv` and `ww > 0` -/
structure SpectralSvd (m : ℕ) (mm : Mat K) (s : Svd K) : Prop where
  pos : ∀ t : Fin m, 0 < vget s.ww t
  rows : ∀ t u : Fin m, ∑ j : Fin m, mget s.vv t j * mget s.vv u j = if t = u then 1 else 0
  cols : ∀ i l : Fin m, ∑ t : Fin m, mget s.vv t i * mget s.vv t l = if i = l then 1 else 0
  fact : ∀ j l : Fin m, mget mm j l = ∑ d : Fin m, mget s.vv d j * vget s.ww d * mget s.vv d l

theorem covar_entry (m : ℕ) (s : Svd K) (hpos : ∀ t : Fin m, 0 < vget s.ww t) (i j : Fin m) :
    mget (covarOfSvd m s) i j = ∑ c : Fin m, (1 / vget s.ww c) * mget s.vv c i * mget s.vv c j := by
  simp only [covarOfSvd, sumN_fin, mget_mtab_fin, vget_vtab_fin, scalar_lit, Nat.cast_zero, Nat.cast_one]
  apply Finset.sum_congr rfl
  intro c _
  rw [if_pos (hpos c)]
  by_cases h : (j : ℕ) ≤ i
  · simp only [h, if_true]
  · simp only [h, if_false]; ring

theorem chi2_covar (svd : Mat K → Svd K) (n m : ℕ) (b sq : ℕ → K) (A : ℕ → ℕ → K) :
    (computechi2 svd n m b sq A).covar = covarOfSvd m (svd (computechi2 svd n m b sq A).mm) := by
  simp only [computechi2]

theorem spectral_inverse {m : ℕ} (v : Fin m → Fin m → K) (w : Fin m → K) (hpos : ∀ t, 0 < w t)
    (rows : ∀ t u : Fin m, ∑ j : Fin m, v t j * v u j = if t = u then 1 else 0)
    (cols : ∀ i l : Fin m, ∑ t : Fin m, v t i * v t l = if i = l then 1 else 0) (i l : Fin m) :
    ∑ j, (∑ c, (1 / w c) * v c i * v c j) * (∑ d, v d j * w d * v d l) = if i = l then 1 else 0 := by
  have step : ∀ j : Fin m, (∑ c, (1 / w c) * v c i * v c j) * (∑ d, v d j * w d * v d l)
      = ∑ c, ∑ d, ((1 / w c) * w d * v c i * v d l) * (v c j * v d j) := by
    intro j
    rw [Finset.sum_mul_sum]
    apply Finset.sum_congr rfl; intro c _
    apply Finset.sum_congr rfl; intro d _
    ring
  simp_rw [step]
  rw [Finset.sum_comm]
  have inner : ∀ c : Fin m, ∑ j, ∑ d, ((1 / w c) * w d * v c i * v d l) * (v c j * v d j) = v c i * v c l := by
    intro c
    rw [Finset.sum_comm]
    have e : ∀ d, ∑ j, ((1 / w c) * w d * v c i * v d l) * (v c j * v d j)
        = ((1 / w c) * w d * v c i * v d l) * (if c = d then 1 else 0) := by
      intro d; rw [← Finset.mul_sum, rows c d]
    simp_rw [e]
    rw [Finset.sum_eq_single c]
    · rw [if_pos rfl]
      have hne : w c ≠ 0 := ne_of_gt (hpos c)
      field_simp
    · intro d _ hd; rw [if_neg (Ne.symm hd)]; ring
    · intro h; exact absurd (Finset.mem_univ c) h
  simp_rw [inner]
  exact cols i l

/-- PROPERTY. computechi2: under the spectral SVD contract `covar · (AᵀWA) = 1`, i.e. the covariance is
the inverse of the weighted normal matrix. -/
theorem covar_is_inverse (svd : Mat K → Svd K) (n m : ℕ) (b sq : ℕ → K) (A : ℕ → ℕ → K)
    (h : SpectralSvd m (computechi2 svd n m b sq A).mm (svd (computechi2 svd n m b sq A).mm)) :
    MulEqOne m (computechi2 svd n m b sq A).covar (computechi2 svd n m b sq A).mm := by
  intro i l
  rw [chi2_covar]
  simp_rw [covar_entry m _ h.pos, h.fact]
  exact spectral_inverse (fun a b => mget (svd (computechi2 svd n m b sq A).mm).vv a b)
    (fun t => vget (svd (computechi2 svd n m b sq A).mm).ww t) h.pos h.rows h.cols i l

/-- PROPERTY. computechi2: `var` is the diagonal of `covar`. -/
theorem var_diag (svd : Mat K → Svd K) (n m : ℕ) (b sq : ℕ → K) (A : ℕ → ℕ → K) (i : Fin m) :
    vget (computechi2 svd n m b sq A).var i = mget (computechi2 svd n m b sq A).covar i i := by
  simp only [computechi2, vget_vtab_fin]

theorem countN_eq (n : ℕ) (p : ℕ → Bool) : countN n p = ((range n).filter (fun i => p i = true)).card := by
  unfold countN
  induction n with
  | zero => simp
  | succ n ih =>
    rw [List.range_succ, List.filter_append, List.length_append, ih, Finset.range_add_one, Finset.filter_insert]
    by_cases h : p n = true
    · simp [h]
    · simp [h]

/-- PROPERTY. computechi2: `dof` = number of points with `sqivar > 0` minus the number of parameters. -/
theorem dof_count (svd : Mat K → Svd K) (n m : ℕ) (b sq : ℕ → K) (A : ℕ → ℕ → K) :
    (computechi2 svd n m b sq A).dof = (((range n).filter (fun i => 0 < sq i)).card : ℤ) - (m : ℤ) := by
  simp only [computechi2, countN_eq, decide_eq_true_eq, scalar_lit, Nat.cast_zero]

/-! ## HMF -/

theorem normal_residual {n m : ℕ} (Af : Fin n → Fin m → K) (w y : Fin n → K) (c : Fin m → K) (k : Fin m) :
    ∑ i, w i * Af i k * (y i - ∑ j, Af i j * c j)
      = (∑ i, w i * Af i k * y i) - ∑ l, (∑ i, w i * Af i k * Af i l) * c l := by
  have e : ∀ i, w i * Af i k * (y i - ∑ j, Af i j * c j)
      = w i * Af i k * y i - ∑ j, (w i * Af i k * Af i j) * c j := by
    intro i
    rw [mul_sub, Finset.mul_sum]
    congr 1
    apply Finset.sum_congr rfl; intros; ring
  simp_rw [e]
  rw [Finset.sum_sub_distrib, Finset.sum_comm]
  simp_rw [← Finset.sum_mul]

theorem sumN_nonneg (n : ℕ) (f : ℕ → K) (h : ∀ i, 0 ≤ f i) : 0 ≤ sumN n f := by
  rw [sumN_range]; exact Finset.sum_nonneg (fun i _ => h i)

/-- badness as a sum over spectra of weighted least-squares objectives in the coefficients -/
theorem badness_rows (sqrt : K → K) (N M Kc : ℕ) (s w a g : ℕ → ℕ → K) (eps : Option K)
    (hsq : ∀ i j, sqrt (w i j) * sqrt (w i j) = w i j) :
    badness sqrt N M Kc s w a g eps =
      (∑ i : Fin N, Q (fun (j : Fin M) (k : Fin Kc) => g k j) (fun j => w i j) (fun j => s i j) (fun k => a i k))
        + penalty Kc M g eps := by
  simp only [badness, hmfModel, sumN_fin]
  congr 1
  apply Finset.sum_congr rfl; intro i _
  unfold Q
  apply Finset.sum_congr rfl; intro j _
  have e : ∑ k : Fin Kc, a i k * g k j = ∑ k : Fin Kc, g k j * a i k :=
    Finset.sum_congr rfl (fun _ _ => mul_comm _ _)
  rw [e]
  linear_combination (s i j - ∑ k : Fin Kc, g k j * a i k) ^ 2 * hsq i j

/-- badness as a sum over pixels of weighted least-squares objectives in the components -/
theorem badness_cols (sqrt : K → K) (N M Kc : ℕ) (s w a g : ℕ → ℕ → K) (eps : Option K)
    (hsq : ∀ i j, sqrt (w i j) * sqrt (w i j) = w i j) :
    badness sqrt N M Kc s w a g eps =
      (∑ j : Fin M, Q (fun (i : Fin N) (k : Fin Kc) => a i k) (fun i => w i j) (fun i => s i j) (fun k => g k j))
        + penalty Kc M g eps := by
  simp only [badness, hmfModel, sumN_fin]
  congr 1
  rw [Finset.sum_comm]
  apply Finset.sum_congr rfl; intro j _
  unfold Q
  apply Finset.sum_congr rfl; intro i _
  linear_combination (s i j - ∑ k : Fin Kc, a i k * g k j) ^ 2 * hsq i j

theorem astep_entry (solve : Mat K → Vec K → Vec K) (N M Kc : ℕ) (s w g : ℕ → ℕ → K) (i : Fin N) (k : ℕ) :
    mget (astep solve N M Kc s w g) i k = vget (solve (astepMat M Kc w g i) (astepRhs M Kc s w g i)) k := by
  simp [mget, astep, vget]

theorem astepMat_entry (M Kc : ℕ) (w g : ℕ → ℕ → K) (i : ℕ) (k l : Fin Kc) :
    mget (astepMat M Kc w g i) k l = ∑ j : Fin M, w i j * g k j * g l j := by
  simp only [astepMat, mget_mtab_fin, sumN_fin]
  by_cases h : (k : ℕ) ≤ l
  · simp only [h, if_true]; apply Finset.sum_congr rfl; intros; ring
  · simp only [h, if_false]; apply Finset.sum_congr rfl; intros; ring

theorem astepRhs_entry (M Kc : ℕ) (s w g : ℕ → ℕ → K) (i : ℕ) (k : Fin Kc) :
    vget (astepRhs M Kc s w g i) k = ∑ j : Fin M, w i j * g k j * s i j := by
  simp only [astepRhs, vget_vtab_fin, sumN_fin]
  apply Finset.sum_congr rfl; intros; ring

/-- PROPERTY. HMF.astep: when every per-spectrum linear solve returns a solution of its system
(`numpy.linalg.solve` contract), every row of the new coefficient matrix satisfies the normal equations
of the weighted least-squares problem "spectrum i ≈ Σ_k a_ik g_k with weights invvar_i" (the gradient of
chi-square in `a` vanishes), is the global minimiser of that problem, and therefore
`badness(astep, g) ≤ badness(a, g)` for EVERY coefficient matrix `a`, in particular the previous one. -/
theorem astep_optimum (sqrt : K → K) (solve : Mat K → Vec K → Vec K) (N M Kc : ℕ) (s w g : ℕ → ℕ → K)
    (eps : Option K) (hw : ∀ i j, 0 ≤ w i j) (hsq : ∀ i j, sqrt (w i j) * sqrt (w i j) = w i j)
    (hsolve : ∀ i : Fin N, Solves Kc (astepMat M Kc w g i) (astepRhs M Kc s w g i)
      (solve (astepMat M Kc w g i) (astepRhs M Kc s w g i))) :
    (∀ i : Fin N, Normal (fun (j : Fin M) (k : Fin Kc) => g k j) (fun j => w i j) (fun j => s i j)
        (fun k => mget (astep solve N M Kc s w g) i k)) ∧
    (∀ (i : Fin N) (z : Fin Kc → K),
      Q (fun (j : Fin M) (k : Fin Kc) => g k j) (fun j => w i j) (fun j => s i j)
          (fun k => mget (astep solve N M Kc s w g) i k)
        ≤ Q (fun (j : Fin M) (k : Fin Kc) => g k j) (fun j => w i j) (fun j => s i j) z) ∧
    ∀ a : ℕ → ℕ → K,
      badness sqrt N M Kc s w (mget (astep solve N M Kc s w g)) g eps ≤ badness sqrt N M Kc s w a g eps := by
  have hN : ∀ i : Fin N, Normal (fun (j : Fin M) (k : Fin Kc) => g k j) (fun j => w i j) (fun j => s i j)
      (fun k => mget (astep solve N M Kc s w g) i k) := by
    intro i
    apply normal_of_solves _ _ _ (fun k l => mget (astepMat M Kc w g i) k l)
      (fun k => vget (astepRhs M Kc s w g i) k)
    · intro k l; exact astepMat_entry M Kc w g i k l
    · intro k; exact astepRhs_entry M Kc s w g i k
    · intro k
      simp_rw [astep_entry]
      exact hsolve i k
  have hopt : ∀ (i : Fin N) (z : Fin Kc → K),
      Q (fun (j : Fin M) (k : Fin Kc) => g k j) (fun j => w i j) (fun j => s i j)
          (fun k => mget (astep solve N M Kc s w g) i k)
        ≤ Q (fun (j : Fin M) (k : Fin Kc) => g k j) (fun j => w i j) (fun j => s i j) z :=
    fun i z => lsq_optimum _ _ _ _ z (fun j => hw i j) (hN i)
  refine ⟨hN, hopt, fun a => ?_⟩
  rw [badness_rows sqrt N M Kc s w _ g eps hsq, badness_rows sqrt N M Kc s w a g eps hsq]
  have h := Finset.sum_le_sum (s := Finset.univ) (fun (i : Fin N) _ => hopt i (fun k => a i k))
  linarith

theorem gstep_entry (solve : Mat K → Vec K → Vec K) (N M Kc : ℕ) (s w a g : ℕ → ℕ → K) (eps : Option K)
    (k : Fin Kc) (j : Fin M) :
    mget (gstep solve N M Kc s w a g eps) k j
      = vget (solve (gstepMat N M Kc w a eps j) (gstepRhs N M Kc s w a g eps j)) k := by
  simp only [gstep, mget_mtab_fin]
  simp [gstepCols, mget, vget]

theorem gstepMat_entry (N M Kc : ℕ) (w a : ℕ → ℕ → K) (eps : Option K) (j : ℕ) (k l : Fin Kc) :
    mget (gstepMat N M Kc w a eps j) k l
      = (∑ i : Fin N, w i j * a i k * a i l) + (if k = l then epsDiag M eps j else 0) := by
  simp only [gstepMat, mget_mtab_fin, sumN_fin, scalar_lit, Nat.cast_zero, Fin.val_inj]
  congr 1
  by_cases h : (k : ℕ) ≤ l
  · simp only [h, if_true]; apply Finset.sum_congr rfl; intros; ring
  · simp only [h, if_false]; apply Finset.sum_congr rfl; intros; ring

theorem gstepRhs_entry (N M Kc : ℕ) (s w a g : ℕ → ℕ → K) (eps : Option K) (j : ℕ) (k : Fin Kc) :
    vget (gstepRhs N M Kc s w a g eps j) k = (∑ i : Fin N, w i j * a i k * s i j) + epsRhs M g eps k j := by
  simp only [gstepRhs, vget_vtab_fin, sumN_fin]
  congr 1
  apply Finset.sum_congr rfl; intros; ring

/-- the equation every column of `gstep` satisfies: the chi-square gradient in column j, evaluated at the
new column, balances the smoothness terms built from the diagonal `d` and the OLD neighbours `e` -/
theorem gstep_column_equation (solve : Mat K → Vec K → Vec K) (N M Kc : ℕ) (s w a g : ℕ → ℕ → K)
    (eps : Option K)
    (hsolve : ∀ j : Fin M, Solves Kc (gstepMat N M Kc w a eps j) (gstepRhs N M Kc s w a g eps j)
      (solve (gstepMat N M Kc w a eps j) (gstepRhs N M Kc s w a g eps j))) (j : Fin M) (k : Fin Kc) :
    ∑ i : Fin N, w i j * a i k * (s i j - ∑ l : Fin Kc, a i l * mget (gstep solve N M Kc s w a g eps) l j)
      + (epsRhs M g eps k j - epsDiag M eps j * mget (gstep solve N M Kc s w a g eps) k j) = 0 := by
  have h := hsolve j k
  simp_rw [gstepMat_entry, gstepRhs_entry, ← gstep_entry solve N M Kc s w a g eps _ j] at h
  rw [normal_residual (fun (i : Fin N) (k : Fin Kc) => a i k) (fun i => w i j) (fun i => s i j)
    (fun l => mget (gstep solve N M Kc s w a g eps) l j) k]
  simp_rw [add_mul, Finset.sum_add_distrib, ite_mul, zero_mul] at h
  rw [Finset.sum_ite_eq Finset.univ k] at h
  simp only [Finset.mem_univ, if_true] at h
  linear_combination -h

theorem epsOn_false_of (eps : Option K) (h : eps = none ∨ eps = some 0) : epsOn eps = false := by
  rcases h with h | h <;> subst h <;> simp [epsOn, scalar_lit]

theorem penalty_zero (Kc M : ℕ) (g : ℕ → ℕ → K) (eps : Option K) (h : eps = none ∨ eps = some 0) :
    penalty Kc M g eps = 0 := by
  rcases h with h | h <;> subst h <;> simp [penalty, scalar_lit]

/-- PROPERTY. HMF.gstep without smoothing (epsilon None or 0): when every per-pixel solve returns a solution
of its system, every column of the new component matrix satisfies the normal equations of "pixel j of all
spectra ≈ Σ_k a_ik g_kj with weights invvar_·j" (the gradient of chi-square in `g` vanishes), minimises it
globally, and `badness(a, gstep) ≤ badness(a, g')` for EVERY component matrix `g'`. -/
theorem gstep_optimum (sqrt : K → K) (solve : Mat K → Vec K → Vec K) (N M Kc : ℕ) (s w a g : ℕ → ℕ → K)
    (eps : Option K) (heps : eps = none ∨ eps = some 0)
    (hw : ∀ i j, 0 ≤ w i j) (hsq : ∀ i j, sqrt (w i j) * sqrt (w i j) = w i j)
    (hsolve : ∀ j : Fin M, Solves Kc (gstepMat N M Kc w a eps j) (gstepRhs N M Kc s w a g eps j)
      (solve (gstepMat N M Kc w a eps j) (gstepRhs N M Kc s w a g eps j))) :
    (∀ j : Fin M, Normal (fun (i : Fin N) (k : Fin Kc) => a i k) (fun i => w i j) (fun i => s i j)
        (fun k => mget (gstep solve N M Kc s w a g eps) k j)) ∧
    (∀ (j : Fin M) (z : Fin Kc → K),
      Q (fun (i : Fin N) (k : Fin Kc) => a i k) (fun i => w i j) (fun i => s i j)
          (fun k => mget (gstep solve N M Kc s w a g eps) k j)
        ≤ Q (fun (i : Fin N) (k : Fin Kc) => a i k) (fun i => w i j) (fun i => s i j) z) ∧
    ∀ g' : ℕ → ℕ → K,
      badness sqrt N M Kc s w a (mget (gstep solve N M Kc s w a g eps)) eps ≤ badness sqrt N M Kc s w a g' eps := by
  have hoff := epsOn_false_of eps heps
  have hN : ∀ j : Fin M, Normal (fun (i : Fin N) (k : Fin Kc) => a i k) (fun i => w i j) (fun i => s i j)
      (fun k => mget (gstep solve N M Kc s w a g eps) k j) := by
    intro j k
    have h := gstep_column_equation solve N M Kc s w a g eps hsolve j k
    simp only [epsRhs, epsDiag, hoff, scalar_lit, Nat.cast_zero] at h
    simpa using h
  have hopt : ∀ (j : Fin M) (z : Fin Kc → K),
      Q (fun (i : Fin N) (k : Fin Kc) => a i k) (fun i => w i j) (fun i => s i j)
          (fun k => mget (gstep solve N M Kc s w a g eps) k j)
        ≤ Q (fun (i : Fin N) (k : Fin Kc) => a i k) (fun i => w i j) (fun i => s i j) z :=
    fun j z => lsq_optimum _ _ _ _ z (fun i => hw i j) (hN j)
  refine ⟨hN, hopt, fun g' => ?_⟩
  rw [badness_cols sqrt N M Kc s w a _ eps hsq, badness_cols sqrt N M Kc s w a g' eps hsq,
    penalty_zero Kc M _ eps heps, penalty_zero Kc M g' eps heps]
  have h := Finset.sum_le_sum (s := Finset.univ) (fun (j : Fin M) _ => hopt j (fun k => g' k j))
  linarith

/-- PROPERTY (partial). HMF.gstep with smoothing (epsilon = e > 0) is a simultaneous (Jacobi-type) update:
every new column is stationary for  chi²_j(x) + e·Σ_k[(x_k - g_k,j-1)² + (x_k - g_k,j+1)²]  with the
neighbours frozen at their OLD values (one neighbour at both ends).  Written out: chi-square gradient term
+ e·(old neighbours) - d_j·x_k = 0 with d_j = 2e inside, e at the ends.
Full statement "badness does not increase for e > 0" is NOT proved (searched numerically by the harness). -/
theorem gstep_eps_stationary_partial (solve : Mat K → Vec K → Vec K) (N M Kc : ℕ) (s w a g : ℕ → ℕ → K)
    (e : K) (he : 0 < e)
    (hsolve : ∀ j : Fin M, Solves Kc (gstepMat N M Kc w a (some e) j) (gstepRhs N M Kc s w a g (some e) j)
      (solve (gstepMat N M Kc w a (some e) j) (gstepRhs N M Kc s w a g (some e) j)))
    (j : Fin M) (k : Fin Kc) :
    ∑ i : Fin N, w i j * a i k * (s i j - ∑ l : Fin Kc, a i l * mget (gstep solve N M Kc s w a g (some e)) l j)
      + ((if (j : ℕ) + 1 = M then e * g k (M - 2) else if (j : ℕ) = 0 then e * g k 1
            else e * (g k (j - 1) + g k (j + 1)))
          - (if 0 < (j : ℕ) ∧ (j : ℕ) + 1 < M then e * 2 else e) * mget (gstep solve N M Kc s w a g (some e)) k j) = 0 := by
  have h := gstep_column_equation solve N M Kc s w a g (some e) hsolve j k
  have hon : epsOn (some e) = true := by
    simp only [epsOn, scalar_lit, Nat.cast_zero, he, decide_true]
  simp only [epsRhs, epsDiag, hon, epsVal, if_true, scalar_lit] at h
  push_cast at h
  exact h

theorem normbase_entry (sqrt : K → K) (Kc M : ℕ) (g : ℕ → ℕ → K) (k : Fin Kc) :
    vget (normbase sqrt Kc M g) k = sqrt ((∑ j : Fin M, g k j * g k j) / (M : K)) := by
  simp only [normbase, vget_vtab_fin, sumN_fin, scalar_ofNat]

/-- PROPERTY. Normalisation at the end of every HMF iteration (`g /= normbase`, `a *= normbase`): every
component then has mean square 1 (unit rms), given `sqrt x · sqrt x = x` on the mean squares and no
all-zero component. -/
theorem normbase_unit_rms (sqrt : K → K) (N M Kc : ℕ) (a g : ℕ → ℕ → K) (k : Fin Kc)
    (hs : sqrt ((∑ j : Fin M, g k j * g k j) / (M : K)) * sqrt ((∑ j : Fin M, g k j * g k j) / (M : K))
      = (∑ j : Fin M, g k j * g k j) / (M : K))
    (hne : ∑ j : Fin M, g k j * g k j ≠ 0) (hM : M ≠ 0) :
    (∑ j : Fin M, mget (renorm sqrt N M Kc a g).2 k j * mget (renorm sqrt N M Kc a g).2 k j) / (M : K) = 1 := by
  simp only [renorm, mget_mtab_fin, normbase_entry]
  have hM' : (M : K) ≠ 0 := Nat.cast_ne_zero.mpr hM
  have e : ∀ j : Fin M, g k j / sqrt ((∑ j : Fin M, g k j * g k j) / (M : K)) *
      (g k j / sqrt ((∑ j : Fin M, g k j * g k j) / (M : K)))
      = (g k j * g k j) / ((∑ j : Fin M, g k j * g k j) / (M : K)) := by
    intro j; rw [div_mul_div_comm, hs]
  simp_rw [e, div_eq_mul_inv]
  rw [← Finset.sum_mul]
  generalize ∑ j : Fin M, g k j * g k j = S at hne
  field_simp

theorem rot_invariant {m : ℕ} (U : Fin m → Fin m → K) (x y : Fin m → K)
    (hU : ∀ l l' : Fin m, ∑ k, U l k * U l' k = if l = l' then 1 else 0) :
    ∑ k, (∑ l, x l * U l k) * (∑ l', U l' k * y l') = ∑ l, x l * y l := by
  simp_rw [Finset.sum_mul_sum]
  rw [Finset.sum_comm]
  apply Finset.sum_congr rfl; intro l _
  rw [Finset.sum_comm]
  have e : ∀ l' : Fin m, ∑ k, x l * U l k * (U l' k * y l') = x l * y l' * (if l = l' then 1 else 0) := by
    intro l'; rw [← hU l l', Finset.mul_sum]; apply Finset.sum_congr rfl; intros; ring
  simp_rw [e]
  rw [Finset.sum_eq_single l]
  · rw [if_pos rfl]; ring
  · intro d _ hd; rw [if_neg (Ne.symm hd)]; ring
  · intro h; exact absurd (Finset.mem_univ l) h

/-- PROPERTY. HMF.reorder: rotating with an orthogonal matrix (`U Uᵀ = 1`, the `eigh` contract) leaves the
model `a · g` unchanged. -/
theorem reorder_preserves_model (eigh : Mat K → Eig K) (N M Kc : ℕ) (a g : ℕ → ℕ → K)
    (hU : ∀ l l' : Fin Kc, ∑ k : Fin Kc, mget (eigh (ataMat N Kc a)).evecs l k * mget (eigh (ataMat N Kc a)).evecs l' k
      = if l = l' then 1 else 0) (i : Fin N) (j : Fin M) :
    hmfModel Kc (mget (reorder eigh N M Kc a g).1) (mget (reorder eigh N M Kc a g).2) i j = hmfModel Kc a g i j := by
  simp only [reorder, hmfModel, sumN_fin, mget_mtab_fin]
  exact rot_invariant (fun l k => mget (eigh (ataMat N Kc a)).evecs l k) (fun l => a i l) (fun l => g l j) hU

theorem epsVal_nonneg (eps : Option K) (h : ∀ e, eps = some e → 0 ≤ e) : 0 ≤ epsVal eps := by
  cases eps with
  | none => simp [epsVal, scalar_lit]
  | some e => exact h e rfl

theorem epsRhs_nonneg (M : ℕ) (g : ℕ → ℕ → K) (eps : Option K) (hg : ∀ k j, 0 ≤ g k j)
    (h : ∀ e, eps = some e → 0 ≤ e) (k j : ℕ) : 0 ≤ epsRhs M g eps k j := by
  have he := epsVal_nonneg eps h
  unfold epsRhs
  split_ifs
  · exact mul_nonneg he (hg _ _)
  · exact mul_nonneg he (hg _ _)
  · exact mul_nonneg he (add_nonneg (hg _ _) (hg _ _))
  · simp [scalar_lit]

/-- PROPERTY. Non-negative mode: for non-negative spectra, weights, coefficients, components (and epsilon)
the multiplicative updates `astepnn` and `gstepnn` return non-negative factors. -/
theorem nn_steps_nonneg (N M Kc : ℕ) (s w a g : ℕ → ℕ → K) (eps : Option K)
    (hs : ∀ i j, 0 ≤ s i j) (hw : ∀ i j, 0 ≤ w i j) (ha : ∀ i k, 0 ≤ a i k) (hg : ∀ k j, 0 ≤ g k j)
    (he : ∀ e, eps = some e → 0 ≤ e) :
    (∀ (i : Fin N) (k : Fin Kc), 0 ≤ mget (astepnn N M Kc s w a g) i k) ∧
    (∀ (k : Fin Kc) (j : Fin M), 0 ≤ mget (gstepnn N M Kc s w a g eps) k j) := by
  have hm : ∀ i j, 0 ≤ hmfModel Kc a g i j := fun i j =>
    sumN_nonneg _ _ (fun k => mul_nonneg (ha i k) (hg k j))
  have hmw : ∀ i j, 0 ≤ hmfModel Kc a g i j * w i j := fun i j => mul_nonneg (hm i j) (hw i j)
  constructor
  · intro i k
    simp only [astepnn, mget_mtab_fin, sumN_fin]
    apply mul_nonneg (ha i k)
    apply div_nonneg
    · exact Finset.sum_nonneg (fun j _ => mul_nonneg (mul_nonneg (hs i j) (hw i j)) (hg k j))
    · exact Finset.sum_nonneg (fun j _ => mul_nonneg (hmw i j) (hg k j))
  · intro k j
    have hv := epsVal_nonneg eps he
    simp only [gstepnn, mget_mtab_fin, sumN_fin]
    apply mul_nonneg (hg k j)
    apply div_nonneg
    · exact add_nonneg (Finset.sum_nonneg (fun i _ => mul_nonneg (ha i k) (mul_nonneg (hs i j) (hw i j))))
        (epsRhs_nonneg M g eps hg he k j)
    · have h0 : 0 ≤ ∑ i : Fin N, a i k * (hmfModel Kc a g i j * w i j) :=
        Finset.sum_nonneg (fun i _ => mul_nonneg (ha i k) (hmw i j))
      split_ifs
      · exact add_nonneg h0 (mul_nonneg (mul_nonneg hv (hg k j)) (by rw [scalar_lit]; exact Nat.cast_nonneg 2))
      · exact add_nonneg h0 (mul_nonneg hv (hg k j))
      · exact h0

/-! ## pca_solve -/

/-- PROPERTY. pca_solve: the coefficients of one spectrum are its inverse-variance weighted projection on
the current eigenspectra: they satisfy the normal equations with weights `ivar` and minimise the weighted
chi-square (same contracts as `chi2_optimum`, plus `sqrt x · sqrt x = x` on the inverse variances). -/
theorem pca_coeff_is_projection (sqrt : K → K) (svd : Mat K → Svd K) (npix nkeep : ℕ) (flux ivar : ℕ → K)
    (pres : ℕ → ℕ → K) (hsq : ∀ p, sqrt (ivar p) * sqrt (ivar p) = ivar p)
    (hinv : MulEqOne nkeep (pcaProject sqrt svd npix nkeep flux ivar pres).mm
      (pcaProject sqrt svd npix nkeep flux ivar pres).mmi) :
    Normal (fun (p : Fin npix) (k : Fin nkeep) => pres p k) (fun p => ivar p) (fun p => flux p)
        (fun k => vget (pcaProject sqrt svd npix nkeep flux ivar pres).acoeff k) ∧
    ∀ z : Fin nkeep → K,
      Q (fun (p : Fin npix) (k : Fin nkeep) => pres p k) (fun p => ivar p) (fun p => flux p)
          (fun k => vget (pcaProject sqrt svd npix nkeep flux ivar pres).acoeff k)
        ≤ Q (fun (p : Fin npix) (k : Fin nkeep) => pres p k) (fun p => ivar p) (fun p => flux p) z := by
  unfold pcaProject at hinv ⊢
  have h := chi2_optimum svd npix nkeep flux (fun p => sqrt (ivar p)) pres hinv
  simp only [hsq] at h
  exact ⟨h.1, h.2.1⟩

/-- PROPERTY. pca_solve: `usemask[p]` is the number of spectra whose inverse variance at pixel p is non-zero. -/
theorem usemask_counts (nobj npix : ℕ) (ivar : ℕ → ℕ → K) (p : Fin npix) :
    (usemask nobj npix ivar)[p.val]! = ((range nobj).filter (fun i => ivar i p ≠ 0)).card := by
  simp [usemask, countN_eq]

/-! ## pcomp -/

/-- contract of `scipy.linalg.eigh` on the symmetric matrix `C`: columns of `evecs` are orthonormal
eigenvectors (`V Vᵀ = VᵀV = 1`, `C V = V diag(evals)`) -/
structure EighOK (nv : ℕ) (C : Mat K) (e : Eig K) : Prop where
  rows : ∀ i l : Fin nv, ∑ j : Fin nv, mget e.evecs i j * mget e.evecs l j = if i = l then 1 else 0
  cols : ∀ j j' : Fin nv, ∑ i : Fin nv, mget e.evecs i j * mget e.evecs i j' = if j = j' then 1 else 0
  eig : ∀ i j : Fin nv, ∑ l : Fin nv, mget C i l * mget e.evecs l j = vget e.evals j * mget e.evecs i j

theorem spectral_reconstruct {m : ℕ} (C V : Fin m → Fin m → K) (lam : Fin m → K)
    (rows : ∀ i l : Fin m, ∑ j, V i j * V l j = if i = l then 1 else 0)
    (eig : ∀ i j : Fin m, ∑ l, C i l * V l j = lam j * V i j) (i l : Fin m) :
    ∑ j, V i j * V l j * lam j = C i l := by
  have e : ∀ j, V i j * V l j * lam j = ∑ t, C i t * (V t j * V l j) := by
    intro j
    have : V i j * V l j * lam j = (lam j * V i j) * V l j := by ring
    rw [this, ← eig i j, Finset.sum_mul]
    apply Finset.sum_congr rfl; intros; ring
  simp_rw [e]
  rw [Finset.sum_comm]
  simp_rw [← Finset.mul_sum, rows]
  rw [Finset.sum_eq_single l]
  · rw [if_pos rfl]; ring
  · intro d _ hd; rw [if_neg hd]; ring
  · intro h; exact absurd (Finset.mem_univ l) h

theorem spectral_trace {m : ℕ} (C V : Fin m → Fin m → K) (lam : Fin m → K)
    (rows : ∀ i l : Fin m, ∑ j, V i j * V l j = if i = l then 1 else 0)
    (cols : ∀ j j' : Fin m, ∑ i, V i j * V i j' = if j = j' then 1 else 0)
    (eig : ∀ i j : Fin m, ∑ l, C i l * V l j = lam j * V i j) :
    ∑ i, C i i = ∑ j, lam j := by
  simp_rw [← spectral_reconstruct C V lam rows eig]
  rw [Finset.sum_comm]
  apply Finset.sum_congr rfl; intro j _
  rw [← Finset.sum_mul, cols j j, if_pos rfl]; ring

/-- PROPERTY. pcomp, given the `eigh` contract on the matrix `c` that is decomposed (correlation or
covariance matrix of the - optionally standardised - data), `argsort` returning a sorting permutation
(`σ` = reversed argsort), `sqrt x · sqrt x = x` on the eigenvalues and a non-zero trace:
eigenvalues are non-increasing; `coefficients · coefficientsᵀ = c`; the variance fractions sum to one;
`derived = array · coefficients`. -/
theorem pcomp_reconstructs (sqrt : K → K) (eigh : Mat K → Eig K) (argsort : Vec K → Array ℕ) (no nv : ℕ)
    (x : ℕ → ℕ → K) (st cv : Bool) (σ : Equiv.Perm (Fin nv))
    (hE : EighOK nv (pcomp sqrt eigh argsort no nv x st cv).c (eigh (pcomp sqrt eigh argsort no nv x st cv).c))
    (hσ : ∀ j : Fin nv,
      (argsort (eigh (pcomp sqrt eigh argsort no nv x st cv).c).evals)[nv - 1 - (j : ℕ)]! = ((σ j : Fin nv) : ℕ))
    (hsort : ∀ j j' : Fin nv, j ≤ j' →
      vget (eigh (pcomp sqrt eigh argsort no nv x st cv).c).evals (σ j')
        ≤ vget (eigh (pcomp sqrt eigh argsort no nv x st cv).c).evals (σ j))
    (hsq : ∀ j : Fin nv, sqrt (vget (eigh (pcomp sqrt eigh argsort no nv x st cv).c).evals j) *
      sqrt (vget (eigh (pcomp sqrt eigh argsort no nv x st cv).c).evals j)
        = vget (eigh (pcomp sqrt eigh argsort no nv x st cv).c).evals j)
    (htr : ∑ i : Fin nv, mget (pcomp sqrt eigh argsort no nv x st cv).c i i ≠ 0) :
    (∀ j j' : Fin nv, j ≤ j' →
      vget (pcomp sqrt eigh argsort no nv x st cv).evals j' ≤ vget (pcomp sqrt eigh argsort no nv x st cv).evals j) ∧
    (∀ i l : Fin nv, ∑ j : Fin nv, mget (pcomp sqrt eigh argsort no nv x st cv).coefficients i j *
        mget (pcomp sqrt eigh argsort no nv x st cv).coefficients l j
      = mget (pcomp sqrt eigh argsort no nv x st cv).c i l) ∧
    (∑ j : Fin nv, vget (pcomp sqrt eigh argsort no nv x st cv).variance j = 1) ∧
    (∀ (i : Fin no) (j : Fin nv), mget (pcomp sqrt eigh argsort no nv x st cv).derived i j
      = ∑ k : Fin nv, mget (pcomp sqrt eigh argsort no nv x st cv).array i k *
          mget (pcomp sqrt eigh argsort no nv x st cv).coefficients k j) := by
  -- entries of the result in terms of eigh's output and σ
  have hev : ∀ j : Fin nv, vget (pcomp sqrt eigh argsort no nv x st cv).evals j
      = vget (eigh (pcomp sqrt eigh argsort no nv x st cv).c).evals (σ j) := by
    intro j
    have := hσ j
    simp only [pcomp] at this ⊢
    simp only [vget_vtab_fin, this]
  have hco : ∀ i j : Fin nv, mget (pcomp sqrt eigh argsort no nv x st cv).coefficients i j
      = mget (eigh (pcomp sqrt eigh argsort no nv x st cv).c).evecs i (σ j) *
          sqrt (vget (eigh (pcomp sqrt eigh argsort no nv x st cv).c).evals (σ j)) := by
    intro i j
    have := hσ j
    simp only [pcomp] at this ⊢
    simp only [mget_mtab_fin, vget_vtab_fin, this]
  have hvar : ∀ j : Fin nv, vget (pcomp sqrt eigh argsort no nv x st cv).variance j
      = vget (eigh (pcomp sqrt eigh argsort no nv x st cv).c).evals (σ j) /
          ∑ i : Fin nv, mget (pcomp sqrt eigh argsort no nv x st cv).c i i := by
    intro j
    have := hσ j
    simp only [pcomp] at this ⊢
    simp only [vget_vtab_fin, this]
    unfold traceM
    rw [sumN_fin]
  have hrec := spectral_reconstruct (fun i l => mget (pcomp sqrt eigh argsort no nv x st cv).c i l)
    (fun i j => mget (eigh (pcomp sqrt eigh argsort no nv x st cv).c).evecs i j)
    (fun j => vget (eigh (pcomp sqrt eigh argsort no nv x st cv).c).evals j) hE.rows hE.eig
  have htrace := spectral_trace (fun i l => mget (pcomp sqrt eigh argsort no nv x st cv).c i l)
    (fun i j => mget (eigh (pcomp sqrt eigh argsort no nv x st cv).c).evecs i j)
    (fun j => vget (eigh (pcomp sqrt eigh argsort no nv x st cv).c).evals j) hE.rows hE.cols hE.eig
  refine ⟨?_, ?_, ?_, ?_⟩
  · intro j j' h
    rw [hev, hev]; exact hsort j j' h
  · intro i l
    rw [← hrec i l]
    rw [← Equiv.sum_comp σ (fun j => mget (eigh (pcomp sqrt eigh argsort no nv x st cv).c).evecs i j *
      mget (eigh (pcomp sqrt eigh argsort no nv x st cv).c).evecs l j *
      vget (eigh (pcomp sqrt eigh argsort no nv x st cv).c).evals j)]
    apply Finset.sum_congr rfl; intro j _
    rw [hco, hco]
    linear_combination (mget (eigh (pcomp sqrt eigh argsort no nv x st cv).c).evecs i (σ j) *
      mget (eigh (pcomp sqrt eigh argsort no nv x st cv).c).evecs l (σ j)) * hsq (σ j)
  · simp_rw [hvar, div_eq_mul_inv]
    rw [← Finset.sum_mul, Equiv.sum_comp σ (fun j => vget (eigh (pcomp sqrt eigh argsort no nv x st cv).c).evals j),
      ← htrace]
    exact mul_inv_cancel₀ htr
  · intro i j
    simp only [pcomp, mget_mtab_fin, sumN_fin]

end

/-! ## non-vacuity: the contracts are satisfiable on concrete inputs (over ℚ) -/
section Examples
attribute [local instance] fieldScalar
attribute [-instance] Scalar.instOfNat Scalar.instOfScientific PydlVerif.instScalarRat

/-- two points, one parameter: `A = (1,1)ᵀ`, `b = (1,3)`, unit weights; `mm = (2)`, its SVD is `1·2·1` -/
def exSvd : Mat ℚ → Svd ℚ := fun _ => ⟨#[#[1]], #[2], #[#[1]]⟩
def exB : ℕ → ℚ := fun i => if i = 0 then 1 else 3

example : MulEqOne 1 (computechi2 exSvd 2 1 exB (fun _ => 1) (fun _ _ => 1)).mm
    (computechi2 exSvd 2 1 exB (fun _ => 1) (fun _ _ => 1)).mmi := by
  intro k l
  have hk : k = 0 := Subsingleton.elim _ _
  have hl : l = 0 := Subsingleton.elim _ _
  subst hk; subst hl
  simp [-scalar_lit, computechi2, pinvOfSvd, exSvd, sumN_fin, mget, vget, mtab, vtab, Fin.sum_univ_two]

example : SpectralSvd 1 (computechi2 exSvd 2 1 exB (fun _ => 1) (fun _ _ => 1)).mm
    (exSvd (computechi2 exSvd 2 1 exB (fun _ => 1) (fun _ _ => 1)).mm) := by
  constructor
  · intro t
    have ht : t = 0 := Subsingleton.elim _ _
    subst ht; simp [-scalar_lit, exSvd, vget]
  · intro t u
    have ht : t = 0 := Subsingleton.elim _ _
    have hu : u = 0 := Subsingleton.elim _ _
    subst ht; subst hu; simp [-scalar_lit, exSvd, mget]
  · intro t u
    have ht : t = 0 := Subsingleton.elim _ _
    have hu : u = 0 := Subsingleton.elim _ _
    subst ht; subst hu; simp [-scalar_lit, exSvd, mget]
  · intro t u
    have ht : t = 0 := Subsingleton.elim _ _
    have hu : u = 0 := Subsingleton.elim _ _
    subst ht; subst hu
    simp [-scalar_lit, computechi2, exSvd, sumN_fin, mget, vget, mtab, vtab, Fin.sum_univ_two]

/-- one component, one spectrum with two pixels `s = (1, 3)`, `g = (1, 1)`, unit weights: the 1×1 solve `x = F/G` -/
noncomputable def exSolve : Mat ℚ → Vec ℚ → Vec ℚ := fun G F => #[vget F 0 / mget G 0 0]

example : ∀ i : Fin 1, Solves 1 (astepMat 2 1 (fun _ _ => (1 : ℚ)) (fun _ _ => 1) i)
    (astepRhs 2 1 (fun _ j => exB j) (fun _ _ => 1) (fun _ _ => 1) i)
    (exSolve (astepMat 2 1 (fun _ _ => (1 : ℚ)) (fun _ _ => 1) i)
      (astepRhs 2 1 (fun _ j => exB j) (fun _ _ => 1) (fun _ _ => 1) i)) := by
  intro i k
  have hk : k = 0 := Subsingleton.elim _ _
  subst hk
  simp [-scalar_lit, exSolve, astepMat, astepRhs, exB, sumN_fin, mget, vget, mtab, vtab, Fin.sum_univ_two]
  norm_num

example : ∀ j : Fin 2, Solves 1 (gstepMat 1 2 1 (fun _ _ => (1 : ℚ)) (fun _ _ => 1) none j)
    (gstepRhs 1 2 1 (fun _ j => exB j) (fun _ _ => 1) (fun _ _ => 1) (fun _ _ => 1) none j)
    (exSolve (gstepMat 1 2 1 (fun _ _ => (1 : ℚ)) (fun _ _ => 1) none j)
      (gstepRhs 1 2 1 (fun _ j => exB j) (fun _ _ => 1) (fun _ _ => 1) (fun _ _ => 1) none j)) := by
  intro j k
  have hk : k = 0 := Subsingleton.elim _ _
  subst hk
  simp [-scalar_lit, exSolve, gstepMat, gstepRhs, epsDiag, epsRhs, epsOn, exB, sumN_fin, mget, vget, mtab, vtab]

/-- the `eigh` contract holds for the 2×2 matrix diag(3, 1) with the identity as eigenvectors -/
example : EighOK 2 (#[#[3, 0], #[0, 1]] : Mat ℚ) ⟨#[3, 1], #[#[1, 0], #[0, 1]]⟩ := by
  constructor <;> intro i j <;> fin_cases i <;> fin_cases j <;>
    simp [-scalar_lit, mget, vget, Fin.sum_univ_two]

end Examples

namespace Dummy
section

end
end Dummy
end PydlVerif.C15
